(* ConvertProofs.v -- C16: bit / number / DNA conversions are exact inverses at any length. *)
From Coq Require Import Lia ZifyBool.
From DSW Require Import Py Bignum Convert Spec.
From DSW.Proofs Require Import BignumProofs.
Ltac Zify.zify_post_hook ::= Z.to_euclidean_division_equations.

(* ---- radix-b value ------------------------------------------------------------------------ *)
Definition dig (b d : Z) : Prop := 0 <= d < b.

Lemma rval_app1 : forall b l d, rval b (l ++ [d]) = b * rval b l + d.
Proof. intros. unfold rval. rewrite fold_left_app. reflexivity. Qed.

Lemma rval_fold : forall b t a,
  fold_left (fun a d => b * a + d) t a = a * b ^ Z.of_nat (length t) + rval b t.
Proof.
  intros b. unfold rval. induction t as [|x xs IH]; intros a.
  - cbn [fold_left length]. change (Z.of_nat 0) with 0. rewrite Z.pow_0_r. lia.
  - cbn [fold_left length]. rewrite Nat2Z.inj_succ, Z.pow_succ_r by lia.
    rewrite (IH (b * a + x)), (IH (b * 0 + x)). lia.
Qed.

Lemma rval_cons : forall b d t, rval b (d :: t) = d * b ^ Z.of_nat (length t) + rval b t.
Proof.
  intros. unfold rval at 1. cbn [fold_left]. rewrite rval_fold. lia.
Qed.

Lemma rval_app : forall b x y, rval b (x ++ y) = rval b x * b ^ Z.of_nat (length y) + rval b y.
Proof.
  intros. unfold rval at 1. rewrite fold_left_app. rewrite rval_fold. reflexivity.
Qed.

Lemma rval_repeat0 : forall b k, rval b (repeat 0 k) = 0.
Proof.
  intros b. induction k as [|k IH]; [reflexivity|]. cbn [repeat]. rewrite rval_cons, IH. lia.
Qed.

Lemma rval_pad : forall b k l, rval b (repeat 0 k ++ l) = rval b l.
Proof. intros. rewrite rval_app, rval_repeat0. lia. Qed.

Lemma powb_pos : forall b k, 1 <= b -> 0 < b ^ Z.of_nat k.
Proof. intros. apply Z.pow_pos_nonneg; lia. Qed.

Lemma rval_bound : forall b l, 1 <= b -> Forall (dig b) l ->
  0 <= rval b l < b ^ Z.of_nat (length l).
Proof.
  intros b l Hb. induction l as [|d t IH]; intros H.
  - cbn. lia.
  - inversion H as [|? ? Hd Ht]; subst. specialize (IH Ht). unfold dig in Hd.
    rewrite rval_cons. cbn [length]. rewrite Nat2Z.inj_succ, Z.pow_succ_r by lia.
    pose proof (powb_pos b (length t) Hb) as HP.
    set (P := b ^ Z.of_nat (length t)) in *. nia.
Qed.

Lemma rval_inj_len : forall b x y, 1 <= b -> Forall (dig b) x -> Forall (dig b) y ->
  length x = length y -> rval b x = rval b y -> x = y.
Proof.
  intros b x y Hb. revert y.
  induction x as [|u x IH]; intros [|v y] Hx Hy Hl Hv; try discriminate; [reflexivity|].
  inversion Hx as [|? ? Hu Hx']; inversion Hy as [|? ? Hv0 Hy']; subst.
  cbn [length] in Hl. injection Hl as Hl.
  rewrite !rval_cons, Hl in Hv.
  pose proof (rval_bound b x Hb Hx') as Ba. pose proof (rval_bound b y Hb Hy') as Bb.
  rewrite Hl in Ba. unfold dig in Hu, Hv0.
  set (P := b ^ Z.of_nat (length y)) in *.
  assert (u = v) by nia. subst v.
  f_equal. apply IH; auto. lia.
Qed.

Lemma fold_swap : forall m l a,
  fold_left (fun d v => d * m + v) l a = fold_left (fun a d => m * a + d) l a.
Proof.
  intros m. induction l as [|x xs IH]; intros a; [reflexivity|].
  cbn [fold_left]. rewrite IH. replace (a * m + x) with (m * a + x) by lia. reflexivity.
Qed.

(* ---- the string fold (bit_to_number / dna_to_number, str path) -------------------- *)
Lemma str_fold_spec : forall m, digit m -> forall l d, canonical d -> Forall digit l ->
  canonical (fold_left (fun d a => calculus_addition (calculus_multiplication d m) a) l d) /\
  dval (fold_left (fun d a => calculus_addition (calculus_multiplication d m) a) l d)
  = fold_left (fun a x => m * a + x) l (dval d).
Proof.
  intros m Hm. induction l as [|x xs IH]; intros d Hc Hl.
  - cbn [fold_left]. split; [exact Hc|reflexivity].
  - inversion Hl as [|? ? Hx Hxs]; subst. cbn [fold_left].
    destruct (mul_correct d m Hc Hm) as (M1 & M2).
    destruct (add_correct _ x M1 Hx) as (A1 & A2).
    destruct (IH _ A1 Hxs) as (I1 & I2).
    split; [exact I1|]. rewrite I2, A2, M2.
    replace (dval d * m + x) with (m * dval d + x) by lia. reflexivity.
Qed.

Lemma bits_dig : forall l, bits_ok l <-> Forall (dig 2) l.
Proof.
  intros l. unfold bits_ok. split; intros H; eapply Forall_impl; try exact H;
    intros a; unfold bit, dig; lia.
Qed.

Lemma dig_digit : forall b l, b <= 10 -> Forall (dig b) l -> Forall digit l.
Proof.
  intros b l Hb H. eapply Forall_impl; try exact H. intros a. unfold dig, digit. lia.
Qed.

Theorem bit_to_number_int_spec : forall l, bit_to_number_int l = rval 2 l.
Proof. intros. unfold bit_to_number_int, rval. apply fold_swap. Qed.

Theorem bit_to_number_str_spec : forall l, bits_ok l ->
  canonical (bit_to_number_str l) /\ dval (bit_to_number_str l) = rval 2 l.
Proof.
  intros l Hl. unfold bit_to_number_str.
  apply bits_dig in Hl. apply dig_digit in Hl; [|lia].
  destruct (str_fold_spec 2 ltac:(unfold digit; lia) l [0] canonical_0 Hl) as (H1 & H2).
  split; [exact H1|]. rewrite H2, dval_single. reflexivity.
Qed.

Theorem bit_paths_agree : forall l, bits_ok l ->
  canonical (bit_to_number_str l) /\ dval (bit_to_number_str l) = bit_to_number_int l.
Proof.
  intros l Hl. rewrite bit_to_number_int_spec. apply bit_to_number_str_spec. exact Hl.
Qed.

(* ---- the radix digits of a number ------------------------------------------------------ *)
Fixpoint digs (k : nat) (b n : Z) : list Z :=
  match k with
  | O => []
  | S k' => if n <=? 0 then [] else digs k' b (n / b) ++ [n mod b]
  end.

Lemma to_radix_int_spec : forall b, 2 <= b -> forall fuel n acc, n < b ^ Z.of_nat fuel ->
  to_radix_int fuel b n acc = Ok (digs fuel b n ++ acc).
Proof.
  intros b Hb. induction fuel as [|f IH]; intros n acc Hn.
  - cbn [to_radix_int digs]. change (Z.of_nat 0) with 0 in Hn. rewrite Z.pow_0_r in Hn.
    destruct (n <=? 0) eqn:E; [reflexivity|lia].
  - cbn [to_radix_int digs]. destruct (n <=? 0) eqn:E; [reflexivity|].
    rewrite Nat2Z.inj_succ, Z.pow_succ_r in Hn by lia.
    rewrite IH.
    + rewrite <- app_assoc. reflexivity.
    + apply Z.div_lt_upper_bound; lia.
Qed.

Lemma is_zero_str_spec : forall d, is_zero_str d = true <-> d = [0].
Proof.
  intros d. split.
  - unfold is_zero_str. destruct d as [|x [|y t]]; try discriminate.
    + destruct x; try discriminate. reflexivity.
    + destruct x; discriminate.
  - intros ->. reflexivity.
Qed.

Lemma not_zero_str_pos : forall d, canonical d -> is_zero_str d = false -> 0 < dval d.
Proof.
  intros d Hc Hz. pose proof (canonical_nonneg d Hc) as H0.
  assert (dval d <> 0); [|lia].
  intros E. apply (canonical_zero d Hc) in E. apply is_zero_str_spec in E. congruence.
Qed.

Lemma to_radix_str_spec : forall b, 2 <= b < 10 -> forall fuel d acc, canonical d ->
  dval d < b ^ Z.of_nat fuel ->
  to_radix_str fuel b d acc = Ok (digs fuel b (dval d) ++ acc).
Proof.
  intros b Hb. induction fuel as [|f IH]; intros d acc Hc Hn.
  - cbn [to_radix_str]. destruct (is_zero_str d) eqn:Ez.
    + reflexivity.
    + apply not_zero_str_pos in Ez; [|exact Hc].
      change (Z.of_nat 0) with 0 in Hn. rewrite Z.pow_0_r in Hn. lia.
  - cbn [to_radix_str]. destruct (is_zero_str d) eqn:Ez.
    + apply is_zero_str_spec in Ez. subst d. reflexivity.
    + apply not_zero_str_pos in Ez; [|exact Hc].
      destruct (div_correct d b Hc ltac:(lia)) as (Hq & Hqv & Hr).
      destruct (calculus_division d b) as [q r] eqn:Ed. cbn [fst snd] in *.
      rewrite Nat2Z.inj_succ, Z.pow_succ_r in Hn by lia.
      rewrite IH; [|exact Hq|rewrite Hqv; apply Z.div_lt_upper_bound; lia].
      cbn [digs]. destruct (dval d <=? 0) eqn:E0; [lia|].
      rewrite Hqv, Hr, <- app_assoc. reflexivity.
Qed.

Lemma digs_dig : forall b, 2 <= b -> forall k n, Forall (dig b) (digs k b n).
Proof.
  intros b Hb. induction k as [|k IH]; intros n; cbn [digs]; [constructor|].
  destruct (n <=? 0); [constructor|].
  apply Forall_app. split; [apply IH|]. constructor; [|constructor].
  unfold dig. apply Z.mod_pos_bound. lia.
Qed.

Lemma digs_val : forall b, 2 <= b -> forall k n, 0 <= n < b ^ Z.of_nat k ->
  rval b (digs k b n) = n.
Proof.
  intros b Hb. induction k as [|k IH]; intros n Hn.
  - change (Z.of_nat 0) with 0 in Hn. rewrite Z.pow_0_r in Hn. cbn [digs]. cbn. lia.
  - cbn [digs]. destruct (n <=? 0) eqn:E.
    + cbn. lia.
    + rewrite Nat2Z.inj_succ, Z.pow_succ_r in Hn by lia.
      rewrite rval_app1, IH.
      * pose proof (Z.div_mod n b ltac:(lia)). lia.
      * split; [apply Z.div_pos; lia|apply Z.div_lt_upper_bound; lia].
Qed.

Lemma digs_len : forall b, 2 <= b -> forall k n m, n < b ^ Z.of_nat m ->
  (length (digs k b n) <= m)%nat.
Proof.
  intros b Hb. induction k as [|k IH]; intros n m Hn; cbn [digs]; [cbn; lia|].
  destruct (n <=? 0) eqn:E; [cbn; lia|].
  destruct m as [|m].
  - change (Z.of_nat 0) with 0 in Hn. rewrite Z.pow_0_r in Hn. lia.
  - rewrite Nat2Z.inj_succ, Z.pow_succ_r in Hn by lia.
    rewrite app_length. cbn [length].
    assert ((length (digs k b (n / b)) <= m)%nat); [|lia].
    apply IH. apply Z.div_lt_upper_bound; lia.
Qed.

Lemma digs_indep : forall b, 2 <= b -> forall k k' n, n < b ^ Z.of_nat k -> n < b ^ Z.of_nat k' ->
  digs k b n = digs k' b n.
Proof.
  intros b Hb. induction k as [|k IH]; intros [|k'] n H1 H2; cbn [digs].
  - reflexivity.
  - change (Z.of_nat 0) with 0 in H1. rewrite Z.pow_0_r in H1.
    destruct (n <=? 0) eqn:E; [reflexivity|lia].
  - change (Z.of_nat 0) with 0 in H2. rewrite Z.pow_0_r in H2.
    destruct (n <=? 0) eqn:E; [reflexivity|lia].
  - destruct (n <=? 0) eqn:E; [reflexivity|].
    rewrite Nat2Z.inj_succ, Z.pow_succ_r in H1, H2 by lia.
    f_equal. apply IH; apply Z.div_lt_upper_bound; lia.
Qed.

(* ---- fuel sufficiency --------------------------------------------------------------------- *)
Lemma fuel_str_ok : forall b d, 2 <= b -> canonical d -> dval d < b ^ Z.of_nat (fuel_str d).
Proof.
  intros b d Hb Hc. pose proof (dval_bound d (canonical_digits d Hc)) as Hd.
  unfold fuel_str. set (k := length d) in *.
  assert (H1 : 10 ^ Z.of_nat k <= 16 ^ Z.of_nat k) by (apply Z.pow_le_mono_l; lia).
  assert (H2 : 16 ^ Z.of_nat k = 2 ^ (4 * Z.of_nat k)).
  { rewrite Z.pow_mul_r by lia. reflexivity. }
  assert (H3 : 2 ^ (4 * Z.of_nat k) <= b ^ (4 * Z.of_nat k)) by (apply Z.pow_le_mono_l; lia).
  assert (H4 : b ^ (4 * Z.of_nat k) <= b ^ Z.of_nat (4 * k + 1)) by (apply Z.pow_le_mono_r; lia).
  lia.
Qed.

Lemma log2_up_bound : forall n, 0 <= n -> n < 2 ^ Z.log2_up (n + 1).
Proof.
  intros n Hn. destruct (Z.eq_dec n 0) as [->|Hnz]; [reflexivity|].
  pose proof (Z.log2_up_spec (n + 1) ltac:(lia)) as H. lia.
Qed.

Lemma fuel_int_ok : forall b n, 2 <= b -> 0 <= n -> n < b ^ Z.of_nat (fuel_int n).
Proof.
  intros b n Hb Hn. unfold fuel_int.
  pose proof (Z.log2_up_nonneg (n + 1)) as H0.
  pose proof (log2_up_bound n Hn) as H1.
  rewrite Nat2Z.inj_succ, Z2Nat.id by exact H0.
  set (g := Z.log2_up (n + 1)) in *.
  assert (H3 : 2 ^ g <= b ^ g) by (apply Z.pow_le_mono_l; lia).
  assert (H4 : b ^ g <= b ^ Z.succ g) by (apply Z.pow_le_mono_r; lia).
  lia.
Qed.

Lemma radix_paths : forall b d, 2 <= b < 10 -> canonical d ->
  to_radix_str (fuel_str d) b d [] = to_radix_int (fuel_int (dval d)) b (dval d) [].
Proof.
  intros b d Hb Hc. pose proof (canonical_nonneg d Hc) as H0.
  pose proof (fuel_str_ok b d ltac:(lia) Hc) as H1.
  pose proof (fuel_int_ok b (dval d) ltac:(lia) H0) as H2.
  rewrite to_radix_str_spec by assumption.
  rewrite to_radix_int_spec by (lia || assumption).
  rewrite (digs_indep b ltac:(lia) _ _ _ H1 H2). reflexivity.
Qed.

(* what the int loop returns for an in-range number *)
Lemma radix_core : forall b n L, 2 <= b -> 0 <= L -> 0 <= n < b ^ L ->
  exists one, to_radix_int (fuel_int n) b n [] = Ok one /\ Forall (dig b) one /\ rval b one = n
    /\ Z.of_nat (length one) <= L
    /\ (forall m : nat, n < b ^ Z.of_nat m -> (length one <= m)%nat).
Proof.
  intros b n L Hb HL Hn.
  pose proof (fuel_int_ok b n Hb ltac:(lia)) as Hf.
  exists (digs (fuel_int n) b n).
  split. { rewrite to_radix_int_spec by assumption. rewrite app_nil_r. reflexivity. }
  split. { apply digs_dig. exact Hb. }
  split. { apply digs_val; [exact Hb|lia]. }
  split.
  { assert ((length (digs (fuel_int n) b n) <= Z.to_nat L)%nat); [|lia].
    apply digs_len; [exact Hb|]. rewrite Z2Nat.id by exact HL. lia. }
  intros m Hm. apply digs_len; assumption.
Qed.

(* ---- padding ------------------------------------------------------------------------------ *)
Lemma fit_bits_pad : forall one L, Z.of_nat (length one) <= L ->
  fit_bits one L = repeat 0 (Z.to_nat (L - Z.of_nat (length one))) ++ one.
Proof.
  intros one L H. unfold fit_bits.
  destruct (Z.of_nat (length one) =? L) eqn:E.
  - replace (L - Z.of_nat (length one)) with 0 by lia. reflexivity.
  - destruct (Z.of_nat (length one) <? L) eqn:E2; [reflexivity|lia].
Qed.

Lemma nth_repeat_app : forall (A : Type) (a d : A) k l i, (i < k)%nat ->
  nth i (repeat a k ++ l) d = a.
Proof.
  intros A a d. induction k as [|k IH]; intros l i Hi; [lia|].
  cbn [repeat app]. destruct i as [|i]; [reflexivity|]. cbn [nth]. apply IH. lia.
Qed.

Lemma map_repeat' : forall (A B : Type) (f : A -> B) a k, map f (repeat a k) = repeat (f a) k.
Proof.
  intros. induction k as [|k IH]; [reflexivity|]. cbn [repeat map]. rewrite IH. reflexivity.
Qed.

Lemma dig_repeat0 : forall b k, 1 <= b -> Forall (dig b) (repeat 0 k).
Proof.
  intros b k Hb. induction k as [|k IH]; cbn [repeat]; constructor; [unfold dig; lia|exact IH].
Qed.

(* ---- number_to_bit --------------------------------------------------------------------- *)
Theorem number_to_bit_int_render : forall n L, 0 <= L -> 0 <= n < 2 ^ L ->
  exists l, number_to_bit_int n L = Ok l /\ Z.of_nat (length l) = L /\ bits_ok l /\ rval 2 l = n
            /\ (forall i, (i < Z.to_nat L - Z.to_nat (Z.log2_up (n + 1)))%nat -> nth i l 1 = 0).
Proof.
  intros n L HL Hn.
  destruct (radix_core 2 n L ltac:(lia) HL Hn) as (one & E & Hd & Hv & Hl1 & Hl2).
  exists (repeat 0 (Z.to_nat (L - Z.of_nat (length one))) ++ one).
  split. { unfold number_to_bit_int. rewrite E. cbn [bind]. rewrite fit_bits_pad by exact Hl1. reflexivity. }
  split. { rewrite app_length, repeat_length. lia. }
  split. { apply bits_dig. apply Forall_app. split; [apply dig_repeat0; lia|exact Hd]. }
  split. { rewrite rval_pad. exact Hv. }
  intros i Hi. apply nth_repeat_app.
  pose proof (Z.log2_up_nonneg (n + 1)) as H0.
  assert ((length one <= Z.to_nat (Z.log2_up (n + 1)))%nat); [|lia].
  apply Hl2. rewrite Z2Nat.id by exact H0. apply log2_up_bound. lia.
Qed.

Theorem number_to_bit_paths_agree : forall d L, canonical d ->
  number_to_bit_str d L = number_to_bit_int (dval d) L.
Proof.
  intros d L Hc. unfold number_to_bit_str, number_to_bit_int.
  rewrite radix_paths by (lia || assumption). reflexivity.
Qed.

Theorem number_to_bit_str_render : forall d L, canonical d -> 0 <= L -> dval d < 2 ^ L ->
  exists l, number_to_bit_str d L = Ok l /\ Z.of_nat (length l) = L /\ bits_ok l /\ rval 2 l = dval d
            /\ (forall i, (i < Z.to_nat L - Z.to_nat (Z.log2_up (dval d + 1)))%nat -> nth i l 1 = 0).
Proof.
  intros d L Hc HL Hn. rewrite number_to_bit_paths_agree by exact Hc.
  apply number_to_bit_int_render; [exact HL|]. pose proof (canonical_nonneg d Hc). lia.
Qed.

Theorem bits_roundtrip_int : forall l, bits_ok l ->
  number_to_bit_int (bit_to_number_int l) (Z.of_nat (length l)) = Ok l.
Proof.
  intros l Hl. rewrite bit_to_number_int_spec.
  pose proof Hl as Hd. apply bits_dig in Hd.
  pose proof (rval_bound 2 l ltac:(lia) Hd) as Hb.
  destruct (number_to_bit_int_render (rval 2 l) (Z.of_nat (length l)) ltac:(lia) Hb)
    as (l' & E & Hlen & Hb' & Hv & _).
  rewrite E. f_equal. apply bits_dig in Hb'.
  apply (rval_inj_len 2); [lia|exact Hb'|exact Hd|lia|exact Hv].
Qed.

Theorem bits_roundtrip_str : forall l, bits_ok l ->
  number_to_bit_str (bit_to_number_str l) (Z.of_nat (length l)) = Ok l.
Proof.
  intros l Hl. destruct (bit_paths_agree l Hl) as (Hc & Hv).
  rewrite number_to_bit_paths_agree by exact Hc. rewrite Hv.
  apply bits_roundtrip_int. exact Hl.
Qed.

(* ---- DNA --------------------------------------------------------------------------------- *)
Lemma nuc_index_char : forall v, 0 <= v < 4 -> nuc_index (nuc_char v) = Some v.
Proof.
  intros v Hv. assert (v = 0 \/ v = 1 \/ v = 2 \/ v = 3) as [H|[H|[H|H]]] by lia;
    subst; reflexivity.
Qed.

Lemma nuc_index_some : forall c v, nuc_index c = Some v -> 0 <= v < 4 /\ c = nuc_char v.
Proof.
  intros c v. unfold nuc_index.
  destruct (c =? 65) eqn:E1; [intros H; injection H as <-; split; [lia|cbn; lia]|].
  destruct (c =? 67) eqn:E2; [intros H; injection H as <-; split; [lia|cbn; lia]|].
  destruct (c =? 71) eqn:E3; [intros H; injection H as <-; split; [lia|cbn; lia]|].
  destruct (c =? 84) eqn:E4; [intros H; injection H as <-; split; [lia|cbn; lia]|].
  discriminate.
Qed.

Lemma nuc_values_map : forall vs, Forall nuc vs -> nuc_values (map nuc_char vs) = Ok vs.
Proof.
  induction vs as [|v vs IH]; intros H; [reflexivity|].
  inversion H as [|? ? Hv Hvs]; subst. cbn [map nuc_values].
  rewrite nuc_index_char by exact Hv. rewrite IH by exact Hvs. reflexivity.
Qed.

Lemma nuc_values_acgt : forall s, acgt s ->
  exists vs, nuc_values s = Ok vs /\ Forall nuc vs /\ s = map nuc_char vs.
Proof.
  induction s as [|c s IH]; intros H.
  - exists []. split; [reflexivity|]. split; [constructor|reflexivity].
  - inversion H as [|? ? Hc Hs]; subst. unfold is_acgt in Hc.
    destruct (nuc_index c) as [v|] eqn:En; [|discriminate].
    destruct (IH Hs) as (vs & E & Hvs & Hm).
    apply nuc_index_some in En as Hv. destruct Hv as (Hv & Hcv).
    exists (v :: vs). split; [|split].
    + cbn [nuc_values]. rewrite En, E. reflexivity.
    + constructor; [exact Hv|exact Hvs].
    + cbn [map]. rewrite <- Hcv, <- Hm. reflexivity.
Qed.

Lemma acgt_map : forall vs, Forall nuc vs -> acgt (map nuc_char vs).
Proof.
  induction vs as [|v vs IH]; intros H; [constructor|].
  inversion H as [|? ? Hv Hvs]; subst. cbn [map]. constructor; [|apply IH; exact Hvs].
  unfold is_acgt. rewrite nuc_index_char by exact Hv. reflexivity.
Qed.

Lemma dna_int_map : forall vs, Forall nuc vs -> dna_to_number_int (map nuc_char vs) = Ok (rval 4 vs).
Proof.
  intros vs H. unfold dna_to_number_int. rewrite nuc_values_map by exact H. cbn [bind].
  f_equal. apply fold_swap.
Qed.

Theorem dna_paths_agree : forall s, acgt s ->
  exists d n, dna_to_number_str s = Ok d /\ dna_to_number_int s = Ok n /\ canonical d /\ dval d = n
              /\ 0 <= n < 4 ^ Z.of_nat (length s).
Proof.
  intros s Hs. destruct (nuc_values_acgt s Hs) as (vs & E & Hvs & Hm).
  assert (Hd : Forall digit vs) by (apply (dig_digit 4); [lia|exact Hvs]).
  destruct (str_fold_spec 4 ltac:(unfold digit; lia) vs [0] canonical_0 Hd) as (H1 & H2).
  exists (fold_left (fun d v => calculus_addition (calculus_multiplication d 4) v) vs [0]).
  exists (rval 4 vs).
  split. { unfold dna_to_number_str. rewrite E. reflexivity. }
  split. { rewrite Hm. apply dna_int_map. exact Hvs. }
  split. { exact H1. }
  split. { rewrite H2, dval_single. reflexivity. }
  rewrite Hm, map_length. apply rval_bound; [lia|exact Hvs].
Qed.

Lemma nuc_values_foreign : forall s, ~ acgt s -> nuc_values s = Raise ValueError.
Proof.
  induction s as [|c s IH]; intros H.
  - exfalso. apply H. constructor.
  - cbn [nuc_values]. destruct (nuc_index c) as [v|] eqn:En; [|reflexivity].
    rewrite IH; [reflexivity|].
    intros Hs. apply H. constructor; [|exact Hs]. unfold is_acgt. rewrite En. reflexivity.
Qed.

Theorem dna_foreign : forall s, ~ acgt s ->
  dna_to_number_int s = Raise ValueError /\ dna_to_number_str s = Raise ValueError.
Proof.
  intros s H. unfold dna_to_number_int, dna_to_number_str.
  rewrite nuc_values_foreign by exact H. split; reflexivity.
Qed.

(* the A padding covers every position in front of the base-4 digits of n: position i is padding as soon as
   2 * i + 1 < 2 * L - bitlength n *)
Theorem number_to_dna_int_render : forall n L, 0 <= L -> 0 <= n < 4 ^ L ->
  exists s, number_to_dna_int n L = Ok s /\ Z.of_nat (length s) = L /\ acgt s /\ dna_to_number_int s = Ok n
            /\ (forall i, (2 * i + 1 < 2 * Z.to_nat L - Z.to_nat (Z.log2_up (n + 1)))%nat -> nth i s 0 = chA).
Proof.
  intros n L HL Hn.
  destruct (radix_core 4 n L ltac:(lia) HL Hn) as (one & E & Hd & Hv & Hl1 & Hl2).
  set (k := Z.to_nat (L - Z.of_nat (length one))).
  assert (Hs : fit_dna one L = map nuc_char (repeat 0 k ++ one)).
  { unfold fit_dna. rewrite map_app, map_repeat'. reflexivity. }
  assert (Hall : Forall nuc (repeat 0 k ++ one)).
  { apply Forall_app. split; [apply (dig_repeat0 4); lia|exact Hd]. }
  exists (fit_dna one L).
  split. { unfold number_to_dna_int. rewrite E. reflexivity. }
  split. { rewrite Hs, map_length, app_length, repeat_length. unfold k. lia. }
  split. { rewrite Hs. apply acgt_map. exact Hall. }
  split. { rewrite Hs, dna_int_map by exact Hall. rewrite rval_pad, Hv. reflexivity. }
  intros i Hi. unfold fit_dna. apply nth_repeat_app. fold k.
  pose proof (Z.log2_up_nonneg (n + 1)) as H0.
  set (g := Z.log2_up (n + 1)) in *.
  assert (Hg : (length one <= Z.to_nat ((g + 1) / 2))%nat).
  { apply Hl2. rewrite Z2Nat.id by lia.
    pose proof (log2_up_bound n ltac:(lia)) as Hb. fold g in Hb.
    assert (H4 : 4 ^ ((g + 1) / 2) = 2 ^ (2 * ((g + 1) / 2))).
    { rewrite Z.pow_mul_r by lia. reflexivity. }
    assert (H5 : 2 ^ g <= 2 ^ (2 * ((g + 1) / 2))) by (apply Z.pow_le_mono_r; lia).
    lia. }
  unfold k. lia.
Qed.



Theorem number_to_dna_paths_agree : forall d L, canonical d ->
  number_to_dna_str d L = number_to_dna_int (dval d) L.
Proof.
  intros d L Hc. unfold number_to_dna_str, number_to_dna_int.
  rewrite radix_paths by (lia || assumption). reflexivity.
Qed.

Theorem dna_roundtrip_int : forall s, acgt s ->
  exists n, dna_to_number_int s = Ok n /\ number_to_dna_int n (Z.of_nat (length s)) = Ok s.
Proof.
  intros s Hs. destruct (nuc_values_acgt s Hs) as (vs & _ & Hvs & Hm).
  exists (rval 4 vs). split. { rewrite Hm. apply dna_int_map. exact Hvs. }
  assert (Hlen : length s = length vs) by (rewrite Hm; apply map_length).
  pose proof (rval_bound 4 vs ltac:(lia) Hvs) as Hb. rewrite <- Hlen in Hb.
  destruct (number_to_dna_int_render (rval 4 vs) (Z.of_nat (length s)) ltac:(lia) Hb)
    as (s' & E & Hl' & Ha' & Hn' & _).
  rewrite E. f_equal.
  destruct (nuc_values_acgt s' Ha') as (vs' & _ & Hvs' & Hm').
  rewrite Hm', dna_int_map in Hn' by exact Hvs'. injection Hn' as Hn'.
  assert (Hlen' : length s' = length vs') by (rewrite Hm'; apply map_length).
  rewrite Hm', Hm. f_equal.
  apply (rval_inj_len 4); [lia|exact Hvs'|exact Hvs|lia|exact Hn'].
Qed.

Theorem dna_roundtrip_str : forall s, acgt s ->
  exists d, dna_to_number_str s = Ok d /\ number_to_dna_str d (Z.of_nat (length s)) = Ok s.
Proof.
  intros s Hs. destruct (dna_paths_agree s Hs) as (d & n & E1 & E2 & Hc & Hv & _).
  exists d. split; [exact E1|].
  rewrite number_to_dna_paths_agree by exact Hc. rewrite Hv.
  destruct (dna_roundtrip_int s Hs) as (n' & E3 & E4).
  rewrite E2 in E3. injection E3 as <-. exact E4.
Qed.

Print Assumptions bit_to_number_int_spec.
Print Assumptions bit_to_number_str_spec.
Print Assumptions bit_paths_agree.
Print Assumptions number_to_bit_int_render.
Print Assumptions number_to_bit_str_render.
Print Assumptions number_to_bit_paths_agree.
Print Assumptions bits_roundtrip_int.
Print Assumptions bits_roundtrip_str.
Print Assumptions dna_paths_agree.
Print Assumptions dna_foreign.
Print Assumptions number_to_dna_int_render.
Print Assumptions number_to_dna_paths_agree.
Print Assumptions dna_roundtrip_int.
Print Assumptions dna_roundtrip_str.
