(* VTProofs.v -- C07: set_vt is the documented Varshamov-Tenengolts function, for every strand
   (the empty one included) and every check length n >= 1, and it sees every substitution and
   every single insertion / deletion of C, G or T. *)
From Coq Require Import Lia ZifyBool.
From DSW Require Import Py Bignum Convert Kmer Graph Coder Spec GraphSpec CoderSpec.
From DSW.Proofs Require Import KmerProofs.
Ltac Zify.zify_post_hook ::= Z.to_euclidean_division_equations.

(* the specification of the second component, written independently of the model's recursion:
   sum of the 0-based positions i with vs[i] < vs[i+1] *)
Definition asc_sum (vs : list Z) : Z :=
  sumZ (map (fun i => if nth i vs 0 <? nth (S i) vs 0 then Z.of_nat i else 0) (seq 0 (length vs - 1))).

(* ---- characters ---------------------------------------------------------------------- *)
Lemma nuc_index_some : forall c v, nuc_index c = Some v -> nuc v /\ c = nuc_char v /\ is_acgt c = true.
Proof.
  intros c v H.
  assert (Hc : c = 65 \/ c = 67 \/ c = 71 \/ c = 84).
  { unfold nuc_index in H.
    destruct (c =? 65) eqn:E1; [lia|].
    destruct (c =? 67) eqn:E2; [lia|].
    destruct (c =? 71) eqn:E3; [lia|].
    destruct (c =? 84) eqn:E4; [lia|discriminate]. }
  destruct Hc as [Hc|[Hc|[Hc|Hc]]]; subst c; vm_compute in H; inversion H; subst v;
    (split; [unfold nuc; lia | split; reflexivity]).
Qed.

Lemma nuc_index_none : forall c, nuc_index c = None -> is_acgt c = false.
Proof. intros c H. unfold is_acgt. rewrite H. reflexivity. Qed.

Lemma nuc_cases : forall a, nuc a -> a = 0 \/ a = 1 \/ a = 2 \/ a = 3.
Proof. unfold nuc. intros a H. lia. Qed.

Lemma nuc_char_inj : forall a b, nuc a -> nuc b -> nuc_char a = nuc_char b -> a = b.
Proof.
  intros a b Ha Hb H.
  destruct (nuc_cases a Ha) as [A|[A|[A|A]]]; destruct (nuc_cases b Hb) as [B|[B|[B|B]]];
    subst a b; vm_compute in H; try reflexivity; discriminate.
Qed.

Lemma nuc_char_acgt : forall v, is_acgt (nuc_char v) = true.
Proof.
  intros v. unfold nuc_char.
  destruct (v =? 0); [reflexivity|]. destruct (v =? 1); [reflexivity|].
  destruct (v =? 2); reflexivity.
Qed.

(* ---- nuc_values ---------------------------------------------------------------------- *)
Lemma nuc_values_cases : forall s,
  (exists vs, nuc_values s = Ok vs /\ Forall nuc vs /\ length vs = length s /\ s = map nuc_char vs /\ acgt s)
  \/ (nuc_values s = Raise ValueError /\ ~ acgt s).
Proof.
  induction s as [|c t IH].
  - left. exists []. cbn [nuc_values length map]. repeat split; constructor.
  - cbn [nuc_values]. destruct (nuc_index c) as [v|] eqn:E.
    + destruct (nuc_index_some _ _ E) as (Hn & Hc & Ha).
      destruct IH as [(vs & H1 & H2 & H3 & H4 & H5) | (H1 & H2)].
      * left. exists (v :: vs). rewrite H1. cbn [bind].
        split; [reflexivity|]. split; [constructor; assumption|].
        split; [cbn [length]; congruence|]. split; [cbn [map]; congruence|].
        constructor; assumption.
      * right. rewrite H1. cbn [bind]. split; [reflexivity|].
        intro A. apply H2. exact (Forall_inv_tail A).
    + right. split; [reflexivity|]. intro A. apply Forall_inv in A.
      rewrite (nuc_index_none _ E) in A. discriminate.
Qed.

Theorem nuc_values_acgt : forall s, acgt s -> exists vs, nuc_values s = Ok vs /\ Forall nuc vs /\ length vs = length s
                                                         /\ s = map nuc_char vs.
Proof.
  intros s H. destruct (nuc_values_cases s) as [(vs & H1 & H2 & H3 & H4 & _) | (_ & H2)].
  - exists vs. repeat split; assumption.
  - contradiction.
Qed.

Theorem nuc_values_foreign : forall s, ~ acgt s -> nuc_values s = Raise ValueError.
Proof.
  intros s H. destruct (nuc_values_cases s) as [(vs & _ & _ & _ & _ & H5) | (H1 & _)].
  - contradiction.
  - assumption.
Qed.

(* ---- sums ---------------------------------------------------------------------------- *)
Lemma sumZ_acc : forall l a, fold_left Z.add l a = a + sumZ l.
Proof.
  unfold sumZ. induction l as [|x xs IH]; intros a; cbn [fold_left].
  - lia.
  - rewrite IH. rewrite (IH (0 + x)). lia.
Qed.

Lemma sumZ_nil : sumZ [] = 0.
Proof. reflexivity. Qed.

Lemma sumZ_cons : forall x l, sumZ (x :: l) = x + sumZ l.
Proof. intros x l. unfold sumZ at 1. cbn [fold_left]. rewrite sumZ_acc. lia. Qed.

Lemma sumZ_app : forall a b, sumZ (a ++ b) = sumZ a + sumZ b.
Proof.
  induction a as [|x xs IH]; intros b; cbn [app].
  - rewrite sumZ_nil. lia.
  - rewrite !sumZ_cons, IH. lia.
Qed.

(* ---- ascent_sum ---------------------------------------------------------------------- *)
Lemma ascent_sum_gen : forall vs i,
  ascent_sum vs i =
  sumZ (map (fun j => if nth j vs 0 <? nth (S j) vs 0 then i + Z.of_nat j else 0) (seq 0 (length vs - 1))).
Proof.
  induction vs as [|a t IH]; intros i.
  - reflexivity.
  - destruct t as [|b t'].
    + reflexivity.
    + change (ascent_sum (a :: b :: t') i)
        with ((if a <? b then i else 0) + ascent_sum (b :: t') (i + 1)).
      rewrite IH.
      replace (length (a :: b :: t') - 1)%nat with (S (length t')) by (cbn [length]; lia).
      replace (length (b :: t') - 1)%nat with (length t') by (cbn [length]; lia).
      rewrite <- cons_seq. cbn [map]. rewrite sumZ_cons.
      rewrite <- seq_shift. rewrite map_map.
      f_equal.
      * cbn [nth]. destruct (a <? b); cbn [Z.of_nat]; lia.
      * f_equal. apply map_ext. intros j.
        change (nth (S j) (a :: b :: t') 0) with (nth j (b :: t') 0).
        change (nth (S (S j)) (a :: b :: t') 0) with (nth (S j) (b :: t') 0).
        destruct (nth j (b :: t') 0 <? nth (S j) (b :: t') 0); lia.
Qed.

Lemma ascent_sum_spec : forall vs, ascent_sum vs 0 = asc_sum vs.
Proof.
  intros vs. rewrite ascent_sum_gen. unfold asc_sum. reflexivity.
Qed.

(* ---- set_vt -------------------------------------------------------------------------- *)
Lemma set_vt_unfold : forall s vs n, nuc_values s = Ok vs -> 1 <= n ->
  set_vt s n = (tail <- number_to_dna_int (asc_sum vs mod 4 ^ (n - 1)) (n - 1) ;;
                Ok (nuc_char (sumZ vs mod 4) :: tail)).
Proof.
  intros s vs n H Hn. unfold set_vt. rewrite H. cbn [bind].
  destruct (n =? 0) eqn:E; [lia|]. rewrite ascent_sum_spec. reflexivity.
Qed.

Theorem set_vt_formula : forall s vs n, nuc_values s = Ok vs -> 1 <= n ->
  exists ds, is_kmer (Z.to_nat (n - 1)) ds /\ kmer_index ds = asc_sum vs mod 4 ^ (n - 1)
             /\ set_vt s n = Ok (nuc_char (sumZ vs mod 4) :: map nuc_char ds).
Proof.
  intros s vs n H Hn.
  assert (Hk : Z.of_nat (Z.to_nat (n - 1)) = n - 1) by lia.
  assert (Hp : 0 < 4 ^ (n - 1)) by (apply Z.pow_pos_nonneg; lia).
  destruct (kmer_index_surj (Z.to_nat (n - 1)) (asc_sum vs mod 4 ^ (n - 1))) as (km & K1 & K2 & K3).
  { unfold pow4. rewrite Hk. apply Z.mod_pos_bound. exact Hp. }
  exists km. split; [exact K1|]. split; [exact K2|].
  rewrite (set_vt_unfold s vs n H Hn). rewrite Hk in K3. rewrite K3. reflexivity.
Qed.

Theorem set_vt_foreign : forall s n, ~ acgt s -> set_vt s n = Raise ValueError.
Proof.
  intros s n H. unfold set_vt. rewrite (nuc_values_foreign s H). reflexivity.
Qed.

Lemma set_vt_cases : forall s n, 1 <= n ->
  (exists vs ds, nuc_values s = Ok vs /\ Forall nuc vs /\ s = map nuc_char vs /\ is_kmer (Z.to_nat (n - 1)) ds
                 /\ set_vt s n = Ok (nuc_char (sumZ vs mod 4) :: map nuc_char ds))
  \/ set_vt s n = Raise ValueError.
Proof.
  intros s n Hn. destruct (nuc_values_cases s) as [(vs & H1 & H2 & H3 & H4 & H5) | (H1 & H2)].
  - left. destruct (set_vt_formula s vs n H1 Hn) as (ds & D1 & D2 & D3).
    exists vs, ds. repeat split; try assumption; apply D1.
  - right. apply set_vt_foreign. exact H2.
Qed.

Theorem set_vt_length : forall s n chk, 1 <= n -> set_vt s n = Ok chk -> Z.of_nat (length chk) = n /\ acgt chk.
Proof.
  intros s n chk Hn H.
  destruct (set_vt_cases s n Hn) as [(vs & ds & H1 & H2 & H3 & (D1 & D2) & H5) | Hr].
  - rewrite H5 in H. inversion H; subst chk. split.
    + cbn [length]. rewrite map_length, D1. lia.
    + constructor; [apply nuc_char_acgt|].
      apply Forall_forall. intros x Hx. apply in_map_iff in Hx. destruct Hx as (y & Hy & _).
      subst x. apply nuc_char_acgt.
  - rewrite Hr in H. discriminate.
Qed.

Theorem set_vt_total : forall s n, acgt s -> 1 <= n -> exists chk, set_vt s n = Ok chk.
Proof.
  intros s n Ha Hn. destruct (nuc_values_acgt s Ha) as (vs & H1 & _).
  destruct (set_vt_formula s vs n H1 Hn) as (ds & _ & _ & D3).
  eexists. exact D3.
Qed.

Theorem set_vt_empty : forall n, 1 <= n -> set_vt [] n = Ok (repeat chA (Z.to_nat n)).
Proof.
  intros n Hn.
  destruct (set_vt_formula [] [] n eq_refl Hn) as (ds & D1 & D2 & D3).
  rewrite D3.
  assert (Hz : asc_sum [] = 0) by reflexivity.
  rewrite Hz in D2. rewrite Z.mod_0_l in D2 by (pose proof (Z.pow_pos_nonneg 4 (n - 1)); lia).
  assert (Hds : ds = repeat 0 (Z.to_nat (n - 1))).
  { apply (kmer_index_inj (Z.to_nat (n - 1))).
    - exact D1.
    - split; [apply repeat_length | apply Forall_nuc_zeros].
    - rewrite D2. unfold kmer_index.
      rewrite <- (app_nil_r (repeat 0 (Z.to_nat (n - 1)))). rewrite rval_zeros_app. reflexivity. }
  rewrite Hds, map_nuc_char_zeros.
  replace (Z.to_nat n) with (S (Z.to_nat (n - 1))) by lia.
  reflexivity.
Qed.

(* ---- the first symbol sees every substitution and every insertion of C, G, T ---------- *)
Lemma acgt_values : forall s, acgt s -> exists vs, Forall nuc vs /\ s = map nuc_char vs.
Proof.
  intros s H. destruct (nuc_values_acgt s H) as (vs & _ & H2 & _ & H4). exists vs. split; assumption.
Qed.

Lemma set_vt_of_values : forall vs n, Forall nuc vs -> 1 <= n ->
  exists tl, set_vt (map nuc_char vs) n = Ok (nuc_char (sumZ vs mod 4) :: tl).
Proof.
  intros vs n H Hn.
  destruct (set_vt_formula (map nuc_char vs) vs n (nuc_values_chars vs H) Hn) as (ds & _ & _ & D3).
  eexists. exact D3.
Qed.

Lemma set_vt_flag_differs : forall v1 v2 n, Forall nuc v1 -> Forall nuc v2 -> 1 <= n ->
  sumZ v1 mod 4 <> sumZ v2 mod 4 ->
  set_vt (map nuc_char v1) n <> set_vt (map nuc_char v2) n.
Proof.
  intros v1 v2 n H1 H2 Hn Hd.
  destruct (set_vt_of_values v1 n H1 Hn) as (t1 & E1).
  destruct (set_vt_of_values v2 n H2 Hn) as (t2 & E2).
  rewrite E1, E2. intro Heq. inversion Heq as [[Hh Ht]].
  apply Hd. apply nuc_char_inj; [unfold nuc; lia | unfold nuc; lia | exact Hh].
Qed.

Lemma skipn_nth : forall (s : list Z) i, (i < length s)%nat -> skipn i s = nth i s 0 :: skipn (S i) s.
Proof.
  induction s as [|x xs IH]; intros i H; cbn [length] in H; [lia|].
  destruct i as [|i]; [reflexivity|].
  change (skipn i xs = nth i xs 0 :: skipn (S i) xs). apply IH. lia.
Qed.

Theorem vt_substitution : forall s i c n, acgt s -> (i < length s)%nat -> is_acgt c = true -> c <> nth i s 0 -> 1 <= n ->
  set_vt (firstn i s ++ c :: skipn (S i) s) n <> set_vt s n.
Proof.
  intros s i c n Ha Hi Hc Hne Hn.
  assert (Hs : s = firstn i s ++ nth i s 0 :: skipn (S i) s).
  { rewrite <- skipn_nth by exact Hi. symmetry. apply firstn_skipn. }
  set (sa := firstn i s) in *. set (sb := skipn (S i) s) in *. set (x := nth i s 0) in *.
  clearbody sa sb x. subst s.
  unfold acgt in Ha. apply Forall_app in Ha. destruct Ha as [Hsa Hxb].
  pose proof (Forall_inv Hxb) as Hx. pose proof (Forall_inv_tail Hxb) as Hsb. cbv beta in Hx.
  destruct (acgt_values sa Hsa) as (va & Fa & Ea).
  destruct (acgt_values sb Hsb) as (vb & Fb & Eb).
  destruct (acgt_values [x]) as (vx & Fx & Ex). { constructor; [exact Hx|constructor]. }
  destruct (acgt_values [c]) as (vc & Fc & Ec). { constructor; [exact Hc|constructor]. }
  destruct vx as [|x0 [|? ?]]; try discriminate. destruct vc as [|c0 [|? ?]]; try discriminate.
  cbn [map] in Ex, Ec. inversion Ex as [Ex']. inversion Ec as [Ec'].
  apply Forall_inv in Fx. apply Forall_inv in Fc.
  assert (Hne0 : c0 <> x0) by (intro; subst c0; apply Hne; congruence).
  rewrite Ea, Eb.
  change (nuc_char c0 :: map nuc_char vb) with (map nuc_char (c0 :: vb)).
  change (nuc_char x0 :: map nuc_char vb) with (map nuc_char (x0 :: vb)).
  rewrite <- !map_app.
  apply set_vt_flag_differs; try exact Hn.
  - apply Forall_app. split; [exact Fa|constructor; assumption].
  - apply Forall_app. split; [exact Fa|constructor; assumption].
  - rewrite !sumZ_app, !sumZ_cons. unfold nuc in Fx, Fc. lia.
Qed.

Theorem vt_indel : forall s i c n, acgt s -> (i <= length s)%nat -> (c = chC \/ c = chG \/ c = chT) -> 1 <= n ->
  set_vt (firstn i s ++ c :: skipn i s) n <> set_vt s n.
Proof.
  intros s i c n Ha Hi Hc Hn.
  assert (Hs : s = firstn i s ++ skipn i s) by (symmetry; apply firstn_skipn).
  set (sa := firstn i s) in *. set (sb := skipn i s) in *.
  clearbody sa sb. subst s.
  unfold acgt in Ha. apply Forall_app in Ha. destruct Ha as [Hsa Hsb].
  destruct (acgt_values sa Hsa) as (va & Fa & Ea).
  destruct (acgt_values sb Hsb) as (vb & Fb & Eb).
  assert (Hc0 : exists c0, 1 <= c0 < 4 /\ c = nuc_char c0).
  { destruct Hc as [Hc|[Hc|Hc]]; subst c; [exists 1|exists 2|exists 3]; split; try lia; reflexivity. }
  destruct Hc0 as (c0 & Hr & Ec).
  rewrite Ea, Eb, Ec.
  change (nuc_char c0 :: map nuc_char vb) with (map nuc_char (c0 :: vb)).
  rewrite <- !map_app.
  apply set_vt_flag_differs; try exact Hn.
  - apply Forall_app. split; [exact Fa|constructor; [unfold nuc; lia|exact Fb]].
  - apply Forall_app. split; assumption.
  - rewrite !sumZ_app, !sumZ_cons. lia.
Qed.

(* ---- decode -------------------------------------------------------------------------- *)
Lemma listZ_eqb_true : forall a b, listZ_eqb a b = true -> a = b.
Proof.
  induction a as [|x xs IH]; intros b H; destruct b as [|y ys]; cbn [listZ_eqb] in H; try discriminate.
  - reflexivity.
  - apply andb_true_iff in H. destruct H as [H1 H2]. apply IH in H2. f_equal; [lia|exact H2].
Qed.

Lemma listZ_eqb_false : forall a b, a <> b -> listZ_eqb a b = false.
Proof.
  intros a b H. destruct (listZ_eqb a b) eqn:E; [|reflexivity].
  exfalso. apply H. apply listZ_eqb_true. exact E.
Qed.

Theorem decode_rejects_changed_check : forall s s' chk L acc v faster sh,
  set_vt s (Z.of_nat (length chk)) = Ok chk -> set_vt s' (Z.of_nat (length chk)) <> set_vt s (Z.of_nat (length chk)) ->
  decode s' L acc v faster (Some chk) sh = Raise ValueError.
Proof.
  intros s s' chk L acc v faster sh H Hd.
  assert (Hn : 1 <= Z.of_nat (length chk)).
  { destruct chk as [|c0 chk'].
    - exfalso. cbn [length Z.of_nat] in H. unfold set_vt in H.
      destruct (nuc_values s); cbn [bind] in H; discriminate.
    - cbn [length]. lia. }
  unfold decode.
  destruct (set_vt_cases s' (Z.of_nat (length chk)) Hn) as [(vs & ds & _ & _ & _ & _ & H5) | Hr].
  - rewrite H5. cbn [bind]. rewrite listZ_eqb_false.
    + reflexivity.
    + intro Heq. apply Hd. rewrite H5, H, Heq. reflexivity.
  - rewrite Hr. reflexivity.
Qed.

Print Assumptions nuc_values_acgt.
Print Assumptions nuc_values_foreign.
Print Assumptions set_vt_formula.
Print Assumptions set_vt_length.
Print Assumptions set_vt_total.
Print Assumptions set_vt_empty.
Print Assumptions set_vt_foreign.
Print Assumptions vt_substitution.
Print Assumptions vt_indel.
Print Assumptions decode_rejects_changed_check.
