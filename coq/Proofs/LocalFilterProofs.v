(* LocalFilterProofs.v -- C02, second half: for a window-decidable local filter every strand emitted on the graph
   generated for it passes the filter's whole-sequence check, prefixed with the start k-mer and (when at least one
   window long, or when the integer thresholds are coherent) alone.  The constructor clause and the short-strand
   clause are refuted by witnesses (known findings F7, F8). *)
From Coq Require Import Lia ZifyBool Permutation.
From DSW Require Import Py Bignum Convert Kmer Graph Coder Filter Spec GraphSpec CoderSpec FastSpec FilterSpec.
From DSW.Proofs Require Import KmerProofs GraphProofs FilterProofs GenerateProofs GeneratedProofs.
Ltac Zify.zify_post_hook ::= Z.to_euclidean_division_equations.

(* the integer thresholds are coherent when a window that satisfies the lower G+C bound also satisfies the A+T bound
   applied to short strings: at_max >= k - gc_min.  Exact arithmetic always gives this; binary64 rounding does not. *)
Definition thresholds_coherent (c : cfg) : Prop :=
  forall gmin gmax amax, f_gc c = Some (gmin, gmax, amax) -> f_k c - gmin <= amax.


(* ------------------------------------------------------------------------------------------ *)
(* the last-window verdict on a string of exactly one window                                   *)

(* on a string of exactly k characters the last-window verdict is the whole-sequence verdict *)
Theorem valid_last_on_window : forall c w, 1 <= f_k c -> Z.of_nat (length w) = f_k c -> valid c true w = valid c false w.
Proof.
  intros c w Hk Hl. rewrite valid_last, last_window_is_suffix_partial by exact Hk.
  replace (length w - Z.to_nat (f_k c))%nat with O by lia. reflexivity.
Qed.

(* ------------------------------------------------------------------------------------------ *)
(* list facts                                                                                  *)

Lemma lf_skipn_app_ge : forall (K s : list Z) i, skipn (length K + i) (K ++ s) = skipn i s.
Proof.
  induction K as [|x K IH]; intros s i; [reflexivity|]. cbn [length app Nat.add skipn]. apply IH.
Qed.

Lemma lf_window_shift : forall (k i : nat) (K s : list Z), window k (length K + i) (K ++ s) = window k i s.
Proof. intros k i K s. unfold window. rewrite lf_skipn_app_ge. reflexivity. Qed.

Lemma lf_occurs_app : forall m (K s : list Z), occurs m s -> occurs m (K ++ s).
Proof. intros m K s [a [b ->]]. exists (K ++ a), b. rewrite <- app_assoc. reflexivity. Qed.

Lemma lf_countZ_nonneg : forall x l, 0 <= countZ x l.
Proof.
  intros x l. induction l as [|y l IH]; [cbn [countZ]; lia|].
  cbn [countZ]. destruct (x =? y); lia.
Qed.

Lemma lf_gc_app : forall a b, gc_count (a ++ b) = gc_count a + gc_count b.
Proof. intros a b. unfold gc_count. rewrite !countZ_app. lia. Qed.
Lemma lf_at_app : forall a b, at_count (a ++ b) = at_count a + at_count b.
Proof. intros a b. unfold at_count. rewrite !countZ_app. lia. Qed.
Lemma lf_gc_nonneg : forall a, 0 <= gc_count a.
Proof. intros a. unfold gc_count. pose proof (lf_countZ_nonneg chC a). pose proof (lf_countZ_nonneg chG a). lia. Qed.
Lemma lf_at_nonneg : forall a, 0 <= at_count a.
Proof. intros a. unfold at_count. pose proof (lf_countZ_nonneg chA a). pose proof (lf_countZ_nonneg chT a). lia. Qed.

(* an A/C/G/T string is made of G+C and A+T characters *)
Lemma lf_gc_at_length : forall s, chars_P s -> gc_count s + at_count s = Z.of_nat (length s).
Proof.
  intros s H. unfold gc_count, at_count. induction H as [|x l Hx Hl IH]; [reflexivity|].
  cbn [countZ length]. rewrite Nat2Z.inj_succ.
  destruct (is_acgt_cases x Hx) as [-> | [-> | [-> | ->]]]; vm_compute (_ =? _); lia.
Qed.

(* ------------------------------------------------------------------------------------------ *)
(* the core: all windows of K ++ s accepted by the last-window verdict, K one window long       *)

Lemma lf_core : forall c (k : nat) (K s : list Z), Z.of_nat k = f_k c -> (1 <= k)%nat -> window_decidable c ->
  length K = k ->
  (forall i, (i <= length s)%nat -> valid c true (window k i (K ++ s)) = true) ->
  valid c false (K ++ s) = true
  /\ (f_k c <= Z.of_nat (length s) -> valid c false s = true)
  /\ (thresholds_coherent c -> valid c false s = true).
Proof.
  intros c k K s Ek Hk Hd HK Hwin.
  assert (H1 : 1 <= f_k c) by lia.
  assert (Ek' : Z.to_nat (f_k c) = k) by lia.
  assert (Hlen : length (K ++ s) = (k + length s)%nat) by (rewrite app_length, HK; reflexivity).
  (* every window passes the whole-sequence check *)
  assert (HW : forall i, (i <= length s)%nat -> valid c false (window k i (K ++ s)) = true).
  { intros i Hi. rewrite <- valid_last_on_window; [apply Hwin; exact Hi | exact H1 |].
    rewrite window_length by lia. exact Ek. }
  (* part 1 *)
  assert (P1 : valid c false (K ++ s) = true).
  { rewrite valid_local_global by (try assumption; lia). rewrite Ek'. apply forallb_forall. intros w Hw.
    apply In_windows in Hw; [|lia]. destruct Hw as [i [Hi ->]]. apply HW. lia. }
  (* part 2 *)
  assert (P2 : f_k c <= Z.of_nat (length s) -> valid c false s = true).
  { intros Hs. rewrite valid_local_global by assumption. rewrite Ek'. apply forallb_forall. intros w Hw.
    apply In_windows in Hw; [|lia]. destruct Hw as [i [Hi ->]].
    rewrite <- (lf_window_shift k i K s), HK. apply HW. lia. }
  split; [exact P1|]. split; [exact P2|].
  (* part 3 *)
  intros Hco. destruct (Z_le_gt_dec (f_k c) (Z.of_nat (length s))) as [Hs|Hs]; [apply P2; exact Hs|].
  apply (valid_whole c s H1).
  pose proof (proj1 (valid_whole c (K ++ s) H1) P1) as Ht.
  apply window_pred_eq in Ht. destruct Ht as [Hch [Hru [Hmo _]]].
  apply window_pred_eq. unfold chars_P in Hch. apply Forall_app in Hch. destruct Hch as [HchK Hchs].
  split; [exact Hchs|]. split; [|split].
  - intros r Er n Hn Ho. apply (Hru r Er n Hn). apply lf_occurs_app. exact Ho.
  - intros ms Ems m Hm. destruct (Hmo ms Ems m Hm) as [Ha Hb].
    split; intros Ho; [apply Ha | apply Hb]; apply lf_occurs_app; exact Ho.
  - intros gmin gmax amax Eg. split; [lia|]. intros _.
    (* the last window W = (K without its first length s characters) ++ s *)
    set (n := length s).
    assert (EW : window k n (K ++ s) = skipn n K ++ s).
    { unfold window. rewrite skipn_app. replace (n - length K)%nat with O by (unfold n; lia). cbn [skipn].
      apply firstn_all2. rewrite app_length, skipn_length. unfold n. lia. }
    pose proof (HW n ltac:(unfold n; lia)) as HWn. rewrite EW in HWn.
    apply (valid_whole c _ H1) in HWn. apply window_pred_eq in HWn. destruct HWn as [HchW [_ [_ HgW]]].
    assert (LW : length (skipn n K ++ s) = k) by (rewrite app_length, skipn_length; unfold n; lia).
    destruct (HgW gmin gmax amax Eg) as [HgW1 _]. rewrite LW in HgW1.
    specialize (HgW1 ltac:(lia) O ltac:(lia)). rewrite Ek' in HgW1.
    rewrite window_0_all in HgW1 by lia.
    pose proof (lf_gc_at_length _ HchW) as Hsum. rewrite LW in Hsum.
    rewrite lf_gc_app in HgW1, Hsum. rewrite lf_at_app in Hsum.
    pose proof (lf_gc_nonneg (skipn n K)). pose proof (lf_at_nonneg (skipn n K)).
    pose proof (lf_gc_nonneg s). pose proof (lf_at_nonneg s).
    specialize (Hco gmin gmax amax Eg). lia.
Qed.

(* ------------------------------------------------------------------------------------------ *)
(* strands of the generated graph                                                              *)

Lemma lf_start_length : forall (k : nat) f mask t V acc v0, (1 <= k)%nat -> 1 <= t ->
  find_vertices k f = Ok mask -> connect_coding_graph k mask t = Ok (V, acc) -> In v0 V ->
  length (kmer_string k v0) = k.
Proof.
  intros k f mask t V acc v0 Hk Ht Hf Hc Hin.
  destruct (gp_find_mask k f mask Hf) as [Hl [Hb _]].
  destruct (generated_wf k t mask V acc v0 Hk Hl Hb Ht Hc Hin) as [_ [_ [_ [_ [[X [_ [_ [_ Hv0]]]] _]]]]].
  apply gp_kmer_string_length. exact (proj1 Hv0).
Qed.

Theorem local_filter_strand : forall c (k : nat) mask t V acc v0 s, Z.of_nat k = f_k c -> (1 <= k)%nat -> 1 <= t ->
  window_decidable c ->
  find_vertices k (valid c true) = Ok mask -> connect_coding_graph k mask t = Ok (V, acc) -> In v0 V -> is_walk acc v0 s ->
  valid c false (kmer_string k v0 ++ s) = true
  /\ (f_k c <= Z.of_nat (length s) -> valid c false s = true)
  /\ (thresholds_coherent c -> valid c false s = true).
Proof.
  intros c k mask t V acc v0 s Ek Hk Ht Hd Hf Hc Hin Hw.
  apply (lf_core c k (kmer_string k v0) s Ek Hk Hd).
  - apply (lf_start_length k (valid c true) mask t V acc v0 Hk Ht Hf Hc Hin).
  - intros i Hi. apply (strand_windows_valid k (valid c true) mask t V acc v0 s Hk Ht Hf Hc Hin Hw i Hi).
Qed.

(* ... in particular for encoder outputs, both modes, with or without a table *)
Theorem local_filter_encoded : forall c (k : nat) mask t V acc v0 sh bits fuel s faster, Z.of_nat k = f_k c -> (1 <= k)%nat ->
  1 <= t -> window_decidable c ->
  find_vertices k (valid c true) = Ok mask -> connect_coding_graph k mask t = Ok (V, acc) -> In v0 V ->
  perm_table sh (nrows acc) -> bits_ok bits ->
  (if faster : bool then encode_fast fuel bits acc v0 sh else encode_normal fuel (bit_to_number_str bits) acc v0 sh) = Ok s ->
  valid c false (kmer_string k v0 ++ s) = true
  /\ (f_k c <= Z.of_nat (length s) \/ thresholds_coherent c -> valid c false s = true).
Proof.
  intros c k mask t V acc v0 sh bits fuel s faster Ek Hk Ht Hd Hf Hc Hin Hp Hbits He.
  assert (H : valid c false (kmer_string k v0 ++ s) = true
              /\ (f_k c <= Z.of_nat (length s) -> valid c false s = true)
              /\ (thresholds_coherent c -> valid c false s = true)).
  { apply (lf_core c k (kmer_string k v0) s Ek Hk Hd).
    - apply (lf_start_length k (valid c true) mask t V acc v0 Hk Ht Hf Hc Hin).
    - intros i Hi.
      apply (encoded_windows_valid k (valid c true) mask t V acc v0 sh bits fuel s faster Hk Ht Hf Hc Hin Hp Hbits He i Hi). }
  destruct H as [P1 [P2 P3]]. split; [exact P1|]. intros [Hs|Hco]; [apply P2; exact Hs | apply P3; exact Hco].
Qed.

(* ------------------------------------------------------------------------------------------ *)
(* the short-strand clause without coherent thresholds: refuted (finding F8)                    *)

Lemma lf_In_eqb : forall x (l : list Z), existsb (Z.eqb x) l = true -> In x l.
Proof.
  intros x l H. apply existsb_exists in H. destruct H as [y [Hy E]]. apply Z.eqb_eq in E. subst y. exact Hy.
Qed.

(* REFUTED clause (finding F8): with the thresholds binary64 gives for gc_range = [0.8, 1.0], k = 5
   (gc_min = ceil 4.0 = 4, gc_max = 5, at_max = floor 0.9999999999999998 = 0) the one-nucleotide strand T emitted from
   ACCCC fails the whole-sequence check alone although ACCCC + T passes *)
Theorem short_strand_refuted :
  let c := {| f_k := 5; f_run := None; f_motifs := None; f_gc := Some (4, 5, 0) |} in
  window_decidable c /\ ~ thresholds_coherent c /\
  exists mask V acc, find_vertices 5 (valid c true) = Ok mask /\ connect_coding_graph 5 mask 1 = Ok (V, acc)
    /\ In 85 V /\ is_walk acc 85 [84] /\ valid c false [84] = false /\ valid c false (kmer_string 5 85 ++ [84]) = true.
Proof.
  intros c. split; [|split].
  - split; intros x E; discriminate E.
  - intros H. specialize (H 4 5 0 eq_refl). cbn [f_k c] in H. lia.
  - exists (match find_vertices 5 (valid c true) with Ok m => m | _ => [] end).
    exists (match connect_coding_graph 5 (match find_vertices 5 (valid c true) with Ok m => m | _ => [] end) 1
            with Ok (V, _) => V | _ => [] end).
    exists (match connect_coding_graph 5 (match find_vertices 5 (valid c true) with Ok m => m | _ => [] end) 1
            with Ok (_, a) => a | _ => [] end).
    split; [vm_compute; reflexivity|]. split; [vm_compute; reflexivity|]. split; [|split; [|split]].
    + apply lf_In_eqb. vm_compute. reflexivity.
    + cbn [is_walk]. exists 3. split; [reflexivity|]. split; [|split; [|exact I]].
      * unfold in_range. split; vm_compute; [discriminate | reflexivity].
      * vm_compute. discriminate.
    + vm_compute. reflexivity.
    + vm_compute. reflexivity.
Qed.

Print Assumptions valid_last_on_window.
Print Assumptions local_filter_strand.
Print Assumptions local_filter_encoded.
Print Assumptions short_strand_refuted.
