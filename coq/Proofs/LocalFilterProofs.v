(* LocalFilterProofs.v -- C02, second half: for a window-decidable local filter every strand emitted on the graph
   generated for it passes the filter's whole-sequence check, prefixed with the start k-mer and (when at least one
   window long, or when the integer thresholds are coherent) alone.  The constructor clause and the short-strand
   clause are refuted by witnesses (known findings F7, F8). *)
From Coq Require Import Lia ZifyBool Permutation.
From DSW Require Import Py Bignum Convert Kmer Graph Coder Filter Spec GraphSpec CoderSpec FastSpec FilterSpec.
From DSW.Proofs Require Import KmerProofs GraphProofs FilterProofs GenerateProofs GeneratedProofs.
Ltac Zify.zify_post_hook ::= Z.to_euclidean_division_equations.

(* the integer thresholds are coherent when a window that satisfies the lower G+C bound also satisfies the A+T bound
   applied to short strings: at_max >= k - gc_min.  Exact arithmetic always gives this; binary64 rounding does not. *)
Definition thresholds_coherent (c : cfg) : Prop :=
  forall gmin gmax amax, f_gc c = Some (gmin, gmax, amax) -> f_k c - gmin <= amax.

(* TARGET STATEMENTS (to be proved, do not change the statements):

(* on a string of exactly k characters the last-window verdict is the whole-sequence verdict *)
Theorem valid_last_on_window : forall c w, 1 <= f_k c -> Z.of_nat (length w) = f_k c -> valid c true w = valid c false w.

Theorem local_filter_strand : forall c (k : nat) mask t V acc v0 s, Z.of_nat k = f_k c -> (1 <= k)%nat -> 1 <= t ->
  window_decidable c ->
  find_vertices k (valid c true) = Ok mask -> connect_coding_graph k mask t = Ok (V, acc) -> In v0 V -> is_walk acc v0 s ->
  valid c false (kmer_string k v0 ++ s) = true
  /\ (f_k c <= Z.of_nat (length s) -> valid c false s = true)
  /\ (thresholds_coherent c -> valid c false s = true).

(* ... in particular for encoder outputs, both modes, with or without a table *)
Theorem local_filter_encoded : forall c (k : nat) mask t V acc v0 sh bits fuel s faster, Z.of_nat k = f_k c -> (1 <= k)%nat ->
  1 <= t -> window_decidable c ->
  find_vertices k (valid c true) = Ok mask -> connect_coding_graph k mask t = Ok (V, acc) -> In v0 V ->
  perm_table sh (nrows acc) -> bits_ok bits ->
  (if faster : bool then encode_fast fuel bits acc v0 sh else encode_normal fuel (bit_to_number_str bits) acc v0 sh) = Ok s ->
  valid c false (kmer_string k v0 ++ s) = true
  /\ (f_k c <= Z.of_nat (length s) \/ thresholds_coherent c -> valid c false s = true).

(* REFUTED clause (finding F8): with the thresholds binary64 gives for gc_range = [0.8, 1.0], k = 5
   (gc_min = ceil 4.0 = 4, gc_max = 5, at_max = floor 0.9999999999999998 = 0) the one-nucleotide strand T emitted from
   ACCCC fails the whole-sequence check alone although ACCCC + T passes *)
Theorem short_strand_refuted :
  let c := {| f_k := 5; f_run := None; f_motifs := None; f_gc := Some (4, 5, 0) |} in
  window_decidable c /\ ~ thresholds_coherent c /\
  exists mask V acc, find_vertices 5 (valid c true) = Ok mask /\ connect_coding_graph 5 mask 1 = Ok (V, acc)
    /\ In 85 V /\ is_walk acc 85 [84] /\ valid c false [84] = false /\ valid c false (kmer_string 5 85 ++ [84]) = true.
*)
