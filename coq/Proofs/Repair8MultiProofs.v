(* Repair8MultiProofs.v -- C08, several edits: on a generated graph, for every walk w and every set of substitutions,
   insertions and deletions whose positions lie in [k, n - 2k) and are pairwise at least 3k+2 apart, repairing the
   corrupted strand (indel handling on, unrestrictive heap limit, check absent or the check of w) yields a candidate
   list that contains w whenever the number of detected errors equals the number of edits. *)
From Coq Require Import Lia ZifyBool Sorting.Sorted.
From DSW Require Import Py Bignum Convert Kmer Graph Coder Repair Filter Spec GraphSpec CoderSpec FilterSpec RepairSpec.
From DSW.Proofs Require Import KmerProofs GraphProofs ConvertProofs ShuffleProofs VTProofs WalkProofs TerminationProofs
     GeneratedProofs RepairProofs Repair8Proofs.
Ltac Zify.zify_post_hook ::= Z.to_euclidean_division_equations.

(* an edit of the ORIGINAL walk w at position p (0-based, in w) *)
Inductive edit := ESub (p : nat) (c : Z) | EIns (p : nat) (c : Z) | EDel (p : nat).
Definition epos (e : edit) : nat := match e with ESub p _ => p | EIns p _ => p | EDel p => p end.
Definition apply_edit (w : list Z) (e : edit) : list Z :=
  match e with ESub p c => edit_sub w p c | EIns p c => edit_ins w p c | EDel p => edit_del w p end.
(* edits are listed by increasing position and applied from the last to the first, so that every position refers to w *)
Definition apply_edits (w : list Z) (es : list edit) : list Z := fold_left apply_edit (rev es) w.

Definition edit_wf (w : list Z) (e : edit) : Prop :=
  match e with
  | ESub p c => is_acgt c = true /\ c <> nth p w 0
  | EIns p c => is_acgt c = true
  | EDel p => True
  end.
(* positions in [k, n - 2k), strictly increasing with gaps of at least 3k + 2 *)
Fixpoint edits_ok (k : nat) (w : list Z) (lo : nat) (es : list edit) : Prop :=
  match es with
  | [] => True
  | e :: rest => (lo <= epos e)%nat /\ (epos e + 2 * k < length w)%nat /\ edit_wf w e
                 /\ edits_ok k w (epos e + 3 * k + 2) rest
  end.

(* ========================================================================================== *)
(* Part A: block form of a multi-edit                                                          *)
(*   w = H ++ B1_1 ++ A_1 ++ B1_2 ++ A_2 ++ ...      s = H ++ B2_1 ++ A_1 ++ B2_2 ++ A_2 ++ ...  *)
(* ========================================================================================== *)
Inductive ekind : list Z -> list Z -> Prop :=
| EK_sub : forall a c, is_acgt c = true -> c <> a -> ekind [a] [c]
| EK_ins : forall c, is_acgt c = true -> ekind [] [c]
| EK_del : forall a, ekind [a] [].

Definition blk := (list Z * list Z * list Z)%type.      (* (B1, B2, A): the edit and the unedited stretch after it *)

Fixpoint wtl (r : list blk) : list Z :=
  match r with [] => [] | (B1, _, A) :: r' => B1 ++ A ++ wtl r' end.
Fixpoint stl (r : list blk) : list Z :=
  match r with [] => [] | (_, B2, A) :: r' => B2 ++ A ++ stl r' end.
Fixpoint bok (k : nat) (r : list blk) : Prop :=
  match r with
  | [] => True
  | (B1, B2, A) :: r' => ekind B1 B2 /\ (2 * k <= length A)%nat /\ (r' <> [] -> (3 * k + 1 <= length A)%nat) /\ bok k r'
  end.

Lemma ekind_B2 : forall B1 B2, ekind B1 B2 -> acgt B2 /\ (length B2 <= 1)%nat /\ (length B1 <= 1)%nat.
Proof.
  intros B1 B2 H. destruct H as [a c Hc _|c Hc|a]; cbn [length]; (split; [|lia]).
  - constructor; [exact Hc|constructor].
  - constructor; [exact Hc|constructor].
  - constructor.
Qed.

Lemma m_skipn_pre : forall {T} (P Q : list T), skipn (length P) (P ++ Q) = Q.
Proof. intros. rewrite skipn_app, Nat.sub_diag, skipn_all. reflexivity. Qed.

Lemma m_skipn_pre_add : forall {T} (P Q : list T) j, skipn (length P + j) (P ++ Q) = skipn j Q.
Proof. intros. rewrite <- r8_skipn_skipn. rewrite m_skipn_pre. reflexivity. Qed.

Lemma m_firstn_app_le : forall {T} (a b : list T) n, (n <= length a)%nat -> firstn n (a ++ b) = firstn n a.
Proof.
  intros T a b n H. rewrite firstn_app. replace (n - length a)%nat with 0%nat by lia. cbn [firstn]. apply app_nil_r.
Qed.

Lemma m_firstn_skipn_app_le : forall {T} (a b : list T) j m, (j + m <= length a)%nat ->
  firstn m (skipn j (a ++ b)) = firstn m (skipn j a).
Proof.
  intros T a b j m H. rewrite skipn_app. apply m_firstn_app_le. rewrite skipn_length. lia.
Qed.

Lemma m_nth_pre_add : forall (P Q : list Z) j d, nth (length P + j) (P ++ Q) d = nth j Q d.
Proof. intros. rewrite app_nth2 by lia. f_equal. lia. Qed.

Lemma pre_firstn : forall (w Z0 : list Z) n i, (i <= n)%nat -> (i <= length w)%nat ->
  firstn i (firstn n w ++ Z0) = firstn i w.
Proof.
  intros w Z0 n i H1 H2. rewrite m_firstn_app_le by (rewrite firstn_length; lia).
  rewrite firstn_firstn. f_equal. lia.
Qed.

Lemma pre_skipn : forall (w Z0 : list Z) n i, (i <= n)%nat -> (i <= length w)%nat ->
  skipn i (firstn n w ++ Z0) = skipn i (firstn n w) ++ Z0.
Proof.
  intros w Z0 n i H1 H2. rewrite skipn_app. rewrite firstn_length.
  replace (i - Nat.min n (length w))%nat with 0%nat by lia. reflexivity.
Qed.

Lemma apply_edits_cons : forall w e es, apply_edits w (e :: es) = apply_edit (apply_edits w es) e.
Proof. intros. unfold apply_edits. cbn [rev]. rewrite fold_left_app. reflexivity. Qed.

Lemma edits_blocks : forall k es w lo, edits_ok k w lo es ->
  exists H r, skipn lo w = H ++ wtl r /\ apply_edits w es = firstn lo w ++ H ++ stl r /\
              length r = length es /\ bok k r /\ (es <> [] -> (lo < length w)%nat).
Proof.
  intros k. induction es as [|e es IH]; intros w lo Hok.
  - exists (skipn lo w), []. cbn [wtl stl length bok apply_edits rev fold_left]. rewrite app_nil_r, firstn_skipn.
    repeat split. intros Hn. exfalso. apply Hn. reflexivity.
  - cbn [edits_ok] in Hok. destruct Hok as (Hlo & Hp & Hwf & Hrest).
    destruct (IH w _ Hrest) as (H' & r' & E1 & E2 & E3 & E4 & E5).
    remember (epos e) as p eqn:Hpe. set (lo' := (p + 3 * k + 2)%nat) in *.
    assert (F1 : firstn p w = firstn lo w ++ firstn (p - lo) (skipn lo w)).
    { replace p with (lo + (p - lo))%nat at 1 by lia. apply r8_firstn_add. }
    assert (F2 : skipn lo w = firstn (p - lo) (skipn lo w) ++ skipn p w).
    { rewrite <- (firstn_skipn (p - lo) (skipn lo w)) at 1. rewrite r8_skipn_skipn. do 2 f_equal. lia. }
    assert (F3 : forall i, (i <= lo')%nat -> (i <= length w)%nat ->
                   skipn i w = skipn i (firstn lo' w) ++ H' ++ wtl r').
    { intros i Hi1 Hi2. rewrite <- (firstn_skipn lo' w) at 1. rewrite pre_skipn by assumption. rewrite E1. reflexivity. }
    assert (FA : forall i, (i <= S p)%nat ->
                   (2 * k <= length (skipn i (firstn lo' w) ++ H'))%nat /\
                   (r' <> [] -> (3 * k + 1 <= length (skipn i (firstn lo' w) ++ H'))%nat)).
    { intros i Hi. rewrite app_length, skipn_length, firstn_length. split; [lia|].
      intros Hr. assert (He : es <> []) by (intros ->; destruct r'; [apply Hr; reflexivity|discriminate]).
      specialize (E5 He). lia. }
    rewrite apply_edits_cons, E2. cbn [length]. destruct e as [p0 c|p0 c|p0]; cbn [epos] in Hpe; subst p0.
    + destruct Hwf as [Hc Hne].
      exists (firstn (p - lo) (skipn lo w)), (([nth p w 0], [c], skipn (S p) (firstn lo' w) ++ H') :: r').
      cbn [wtl stl length bok apply_edit]. split; [|split; [|split; [|split]]].
      * rewrite F2 at 1. f_equal. rewrite (skipn_nth w p) by lia. cbn [app]. f_equal.
        rewrite (F3 (S p)) by lia. rewrite <- !app_assoc. reflexivity.
      * unfold edit_sub. rewrite pre_firstn, pre_skipn by lia. rewrite F1. rewrite <- !app_assoc. reflexivity.
      * lia.
      * destruct (FA (S p) ltac:(lia)) as [FA1 FA2].
        split; [constructor; [exact Hc|exact Hne]|]. split; [exact FA1|]. split; [exact FA2|exact E4].
      * intros _. lia.
    + exists (firstn (p - lo) (skipn lo w)), (([], [c], skipn p (firstn lo' w) ++ H') :: r').
      cbn [wtl stl length bok apply_edit]. split; [|split; [|split; [|split]]].
      * rewrite F2 at 1. f_equal. cbn [app]. rewrite (F3 p) by lia. rewrite <- !app_assoc. reflexivity.
      * unfold edit_ins. rewrite pre_firstn, pre_skipn by lia. rewrite F1. rewrite <- !app_assoc. reflexivity.
      * lia.
      * destruct (FA p ltac:(lia)) as [FA1 FA2].
        split; [constructor; exact Hwf|]. split; [exact FA1|]. split; [exact FA2|exact E4].
      * intros _. lia.
    + exists (firstn (p - lo) (skipn lo w)), (([nth p w 0], [], skipn (S p) (firstn lo' w) ++ H') :: r').
      cbn [wtl stl length bok apply_edit]. split; [|split; [|split; [|split]]].
      * rewrite F2 at 1. f_equal. rewrite (skipn_nth w p) by lia. cbn [app]. f_equal.
        rewrite (F3 (S p)) by lia. rewrite <- !app_assoc. reflexivity.
      * unfold edit_del. rewrite pre_firstn, pre_skipn by lia. rewrite F1. rewrite <- !app_assoc. reflexivity.
      * lia.
      * destruct (FA (S p) ltac:(lia)) as [FA1 FA2].
        split; [constructor|]. split; [exact FA1|]. split; [exact FA2|exact E4].
      * intros _. lia.
Qed.

(* ========================================================================================== *)
(* Part B: detections, recombination and the candidate count                                   *)
(* ========================================================================================== *)
Record det := { d_ch : list Z; d_mk : list Z; d_f : list Z; d_x : list Z }.

Definition joinD (x0 : list Z) (D : list det) : list Z := x0 ++ concat (map (fun t => d_f t ++ d_x t) D).

Lemma recombine_in : forall D x0 fr, Forall2 (fun t fs => In (d_f t) fs) D fr ->
  In (joinD x0 D) (recombine (x0 :: map d_x D) fr).
Proof.
  induction D as [|t D IH]; intros x0 fr HF; inversion HF as [|? fs ? fss Hin HF']; subst.
  - cbn [map recombine]. left. unfold joinD. cbn [map concat]. symmetry. apply app_nil_r.
  - cbn [map recombine]. apply in_flat_map. exists (joinD (d_x t) D). split; [apply IH; exact HF'|].
    apply in_map_iff. exists (d_f t). split; [|exact Hin].
    unfold joinD. cbn [map concat]. rewrite <- !app_assoc. reflexivity.
Qed.

Lemma count_bound : forall (fr : list (list (list Z))) B a, 0 < a -> 1 <= B ->
  Forall (fun fs => 1 <= Z.of_nat (length fs) <= B) fr ->
  a <= fold_left (fun a f => a * Z.of_nat (length f)) fr a <= a * B ^ Z.of_nat (length fr).
Proof.
  induction fr as [|fs fr IH]; intros B a Ha HB HF; cbn [fold_left length].
  - change (Z.of_nat 0) with 0. rewrite Z.pow_0_r. lia.
  - inversion HF as [|? ? H1 H2]; subst. rewrite Nat2Z.inj_succ, Z.pow_succ_r by lia.
    assert (Ha' : 0 < a * Z.of_nat (length fs)) by nia.
    specialize (IH B _ Ha' HB H2).
    assert (HP : 0 <= B ^ Z.of_nat (length fr)) by (apply Z.pow_nonneg; lia).
    split; [nia|].
    eapply Z.le_trans; [apply IH|].
    rewrite <- Z.mul_assoc. apply Z.mul_le_mono_nonneg_l; [lia|].
    apply Z.mul_le_mono_nonneg_r; lia.
Qed.

(* ========================================================================================== *)
(* Part C: the scan over a block-form strand                                                   *)
(* ========================================================================================== *)
Section Multi.
Variable k : nat.
Variable X : vset.
Hypothesis Hk : (1 <= k)%nat.
Local Notation acc := (induced_on k X).

(* scan_detect with an arbitrary current split *)
Lemma scan_detect2 : forall s f l v iq cur sp ch mk d vis,
  acgt s -> (k <= l)%nat -> (l + k + 1 <= length s)%nat -> vin k X v -> X (nx k v (nth l s 0)) = false ->
  (k <= length cur + 1)%nat -> length iq = length s ->
  scan_loop (S f) s acc (Z.of_nat k) (Z.of_nat l) v iq cur
     {| sc_splits := sp; sc_chunks := ch; sc_markers := mk; sc_detected := d; sc_visited := vis |} =
  scan_loop f s acc (Z.of_nat k) (Z.of_nat (l + k + 1)) (kval (firstn k (skipn (S l) s))) iq [nth (l + k) s 0]
     {| sc_splits := firstn (length cur + 1 - k) cur :: sp;
        sc_chunks := ch ++ [firstn (2 * k - 1) (skipn (l + 1 - k) s)];
        sc_markers := mk ++ [firstn k (skipn (l - k) iq)];
        sc_detected := d + 1; sc_visited := vis |}.
Proof.
  intros s f l v iq cur sp ch mk d vis Ha Hkl Hls Hv Hx Hcur Hiq.
  rewrite scan_loop_step by lia.
  rewrite (py_get_ok s (Z.of_nat l) 0) by lia. rewrite Nat2Z.id. cbn [bind].
  rewrite (step_fail8 k X Hk v _ Hv (acgt_nth s l Ha ltac:(lia)) Hx).
  cbn [bind sc_splits sc_chunks sc_markers sc_detected sc_visited].
  replace (Z.of_nat l + 1) with (Z.of_nat (S l)) by lia.
  replace (Z.of_nat l + Z.of_nat k + 1) with (Z.of_nat (l + k + 1)) by lia.
  rewrite (r8_slice_nat s (S l) (l + k + 1)) by lia.
  replace (l + k + 1 - S l)%nat with k by lia.
  set (t := firstn k (skipn (S l) s)).
  assert (Hat : acgt t) by (apply acgt_firstn, acgt_skipn; exact Ha).
  rewrite (dna_int_kval t Hat). cbn [bind].
  assert (Hlast : nuc_char (kval t mod 4) = nth (l + k) s 0).
  { unfold t. replace k with (S (k - 1)) at 1 by lia.
    rewrite (r8_firstn_S k Hk) by (rewrite skipn_length; lia).
    rewrite kval_mod4, r8_nth_skipn. replace (S l + (k - 1))%nat with (l + k)%nat by lia.
    apply idx_char. apply acgt_nth; [exact Ha|lia]. }
  rewrite Hlast.
  replace (Z.of_nat (length cur) - Z.of_nat k + 1) with (Z.of_nat (length cur + 1 - k)) by lia.
  rewrite (r8_slice_to_nat cur (length cur + 1 - k)) by lia.
  replace (Z.of_nat l - Z.of_nat k + 1) with (Z.of_nat (l + 1 - k)) by lia.
  replace (Z.of_nat l + Z.of_nat k) with (Z.of_nat (l + k)) by lia.
  rewrite (r8_slice_nat s (l + 1 - k) (l + k)) by lia.
  replace (l + k - (l + 1 - k))%nat with (2 * k - 1)%nat by lia.
  replace (Z.of_nat l - Z.of_nat k) with (Z.of_nat (l - k)) by lia.
  rewrite (r8_slice_nat iq (l - k) l) by lia.
  replace (l - (l - k))%nat with k by lia.
  reflexivity.
Qed.

(* the record that restores w on the stretch around one edit *)
Lemma restore_rec : forall v H B1 B2 A l recs n, vin k X v -> okw k X v (H ++ B1 ++ A) -> ekind B1 B2 ->
  (k <= length H)%nat -> (2 * k <= length A)%nat -> (length H <= l)%nat -> (S l < length H + length B2 + k)%nat ->
  path_matching (firstn (2 * k - 1) (skipn (l + 1 - k) (H ++ B2 ++ A))) acc (stt k v H)
     (Z.of_nat k - Z.of_nat (l - length H) - 1) true = Ok (recs, n) ->
  exists rc, In rc recs /\ snd rc = skipn (l + 1 - k) H ++ B1 ++ firstn (k + (l - length H) - length B2) A.
Proof.
  intros v H B1 B2 A l recs n Hv Hw Hek HkH HA H1 H2 Hp.
  destruct (ekind_B2 B1 B2 Hek) as (_ & HlB2 & _).
  destruct (chunk_split k Hk H B2 A l H1 H2 HlB2 HkH HA) as (E1 & E2 & _ & _).
  rewrite E1, E2 in Hp. clear E1 E2.
  set (r := (l - length H)%nat) in *. set (b := skipn (l + 1 - k) H) in *.
  apply okw_app in Hw. destruct Hw as [HwH Hw2].
  pose proof (okw_vin k X H v Hv HwH) as Hu.
  destruct Hek as [a0 c Hc Hne|c Hc|a0]; cbn [length] in *.
  - replace (k + r)%nat with (S (k + r - 1)) in Hp by lia. cbn [app firstn] in Hp.
    cbn [app okw] in Hw2. destruct Hw2 as (Ha0 & Hx & HwC).
    exists (0, a0, b ++ a0 :: firstn (k + r - 1) A). split; [|reflexivity].
    apply (pm_sub k X Hk b c (firstn (k + r - 1) A) (stt k v H) a0 true recs n Hu Ha0 ltac:(congruence) Hx
             (okw_firstn k X _ _ _ HwC) Hp).
  - replace (k + r)%nat with (S (k + r - 1)) in Hp by lia. cbn [app firstn] in Hp.
    cbn [app] in Hw2.
    exists (2, c, b ++ firstn (k + r - 1) A). split; [|reflexivity].
    apply (pm_ins k X Hk b c (firstn (k + r - 1) A) (stt k v H) recs n Hu (okw_firstn k X _ _ _ Hw2) Hp).
  - destruct A as [|c0 A']; [cbn [length] in HA; lia|].
    replace (k + r)%nat with (S (k + r - 1)) in Hp by lia. cbn [app firstn] in Hp.
    cbn [app okw] in Hw2. destruct Hw2 as (Ha0 & Hx & HwC).
    exists (1, a0, b ++ a0 :: c0 :: firstn (k + r - 1) A'). split.
    + apply (pm_del k X Hk b c0 (firstn (k + r - 1) A') (stt k v H) a0 recs n Hu Ha0 Hx); [|exact Hp].
      apply (okw_firstn k X (S (k + r - 1)) (c0 :: A') _ HwC).
    + cbn [snd app]. replace (k + r - 0)%nat with (S (k + r - 1)) by lia. reflexivity.
Qed.

(* the marker recorded at a detection l = |P| + l' after scanning t (|t| = l') from position |P| *)
Lemma marker_spec : forall (iq P : list Z) v t l', length t = l' -> (k <= l')%nat ->
  (length P + l' <= length iq)%nat ->
  let marker := firstn k (skipn (length P + l' - k) (fill k iq (length P) v t)) in
  length marker = k /\ forall j, (j < k)%nat -> nth j marker 0 = stt k v (firstn (S (l' - k + j)) t).
Proof.
  intros iq P v t l' Ht Hkl Hiq marker. split.
  - unfold marker. apply firstn_length_le. rewrite skipn_length, fill_length. lia.
  - intros j Hj. unfold marker. rewrite r8_nth_firstn by exact Hj. rewrite r8_nth_skipn.
    replace (length P + l' - k + j)%nat with (length P + (l' - k + j))%nat by lia.
    apply (fill_nth k Hk); lia.
Qed.

(* a detection carries a fragment f that is found by fragments_of, and its fragment set is small *)
Definition good (s : list Z) (t : det) : Prop :=
  forall vis fs n, fragments_of (d_ch t) acc (Z.of_nat k) true s (rev (d_mk t)) 0 [] vis = Ok (fs, n) ->
    In (d_f t) fs /\ (length fs <= 8 * k)%nat.

Lemma good_block : forall s P v H B1 B2 A R l' l iq x, s = P ++ (H ++ B2 ++ A) ++ R -> acgt s -> vin k X v ->
  okw k X v (H ++ B1 ++ A) -> ekind B1 B2 -> (k <= length H)%nat -> (2 * k <= length A)%nat ->
  (length H <= l')%nat -> (S l' < length H + length B2 + k)%nat -> length iq = length s ->
  l = (length P + l')%nat ->
  good s {| d_ch := firstn (2 * k - 1) (skipn (l + 1 - k) s);
            d_mk := firstn k (skipn (l - k) (fill k iq (length P) v (firstn l' (H ++ B2 ++ A))));
            d_f := skipn (l' + 1 - k) H ++ B1 ++ firstn (k + (l' - length H) - length B2) A;
            d_x := x |}.
Proof.
  intros s P v H B1 B2 A R l' l iq x Es Has Hv Hw Hek HkH HA H1 H2 Hiq ->.
  destruct (ekind_B2 B1 B2 Hek) as (_ & HlB2 & _).
  set (S1 := H ++ B2 ++ A) in *.
  assert (HlS1 : length S1 = (length H + length B2 + length A)%nat) by (unfold S1; rewrite !app_length; lia).
  assert (Hls : length s = (length P + length S1 + length R)%nat) by (rewrite Es, !app_length; lia).
  unfold good. cbn [d_ch d_mk d_f].
  set (t := firstn l' S1).
  assert (Ht : length t = l') by (unfold t; apply firstn_length_le; lia).
  assert (Echunk : firstn (2 * k - 1) (skipn (length P + l' + 1 - k) s) = firstn (2 * k - 1) (skipn (l' + 1 - k) S1)).
  { rewrite Es. replace (length P + l' + 1 - k)%nat with (length P + (l' + 1 - k))%nat by lia.
    rewrite m_skipn_pre_add. apply m_firstn_skipn_app_le. lia. }
  rewrite Echunk. set (chunk := firstn (2 * k - 1) (skipn (l' + 1 - k) S1)).
  destruct (marker_spec iq P v t l' Ht ltac:(lia) ltac:(lia)) as [Hlm Hnm]. cbv zeta in Hlm, Hnm.
  set (marker := firstn k (skipn (length P + l' - k) (fill k iq (length P) v t))) in *.
  assert (Hac : acgt chunk).
  { unfold chunk. apply acgt_firstn, acgt_skipn. rewrite Es in Has. unfold acgt in *.
    apply Forall_app in Has. destruct Has as [_ Has]. apply Forall_app in Has. apply Has. }
  assert (Hlc : length chunk = (2 * k - 1)%nat).
  { unfold chunk. apply firstn_length_le. rewrite skipn_length. lia. }
  assert (Hrm : Forall (fun pv => 0 <= pv < pow4 k) (rev marker)).
  { apply Forall_rev. apply Forall_forall. intros y Hy.
    destruct (In_nth marker y 0 Hy) as (i & Hi & <-). rewrite Hlm in Hi. rewrite Hnm by exact Hi.
    apply stt_range. apply Hv. }
  intros vis fs n E.
  destruct (fragments_of_spec k X Hk chunk (Z.of_nat k) true s Hac ltac:(lia) ltac:(lia) (rev marker) 0 [] vis fs n E Hrm
              ltac:(lia) ltac:(rewrite rev_length; lia) ltac:(intros f [])) as (_ & I2 & I3).
  split; [|rewrite rev_length, Hlm in I3; cbn [length] in I3; lia].
  set (r := (l' - length H)%nat).
  assert (Hnth : nth_error (rev marker) r = Some (stt k v H)).
  { rewrite (nth_error_nth' (rev marker) 0) by (rewrite rev_length; lia). f_equal.
    rewrite rev_nth by lia. rewrite Hlm. rewrite Hnm by lia.
    replace (S (l' - k + (k - S r))) with (length H) by lia.
    unfold t. rewrite firstn_firstn, Nat.min_l by lia. unfold S1. rewrite m_firstn_app_le by lia.
    rewrite firstn_all. reflexivity. }
  destruct (path_matching_total acc (acc_shaped k X) (acc_pos k X) chunk (stt k v H) (Z.of_nat k - Z.of_nat r - 1) true Hac
              (range_vok k X Hk _ (stt_range k v H (proj1 Hv))) ltac:(lia)) as (recs & n2 & E2 & _).
  destruct (restore_rec v H B1 B2 A l' recs n2 Hv Hw Hek HkH HA H1 H2 E2) as (rc & Hrc & Hsnd).
  fold r in Hsnd. rewrite <- Hsnd.
  apply (I2 r (stt k v H) recs n2 rc Hnth); [|exact Hrc].
  replace (Z.of_nat k - (0 + Z.of_nat r) - 1) with (Z.of_nat k - Z.of_nat r - 1) by lia. exact E2.
Qed.

End Multi.

(* TARGET STATEMENT (to be proved, do not change the statement):

Theorem repair_multi : forall k acc v0 w es vt heap, generated k acc -> 0 <= v0 < pow4 k -> is_walk acc v0 w ->
  edits_ok k w k es -> check_of w vt -> (8 * Z.of_nat k) ^ Z.of_nat (length es) <= heap ->
  exists cands st, repair_dna (apply_edits w es) acc v0 (Z.of_nat k) vt true heap = Ok (cands, st)
     /\ 0 <= detected st <= Z.of_nat (length es)
     /\ (detected st = Z.of_nat (length es) -> In w cands).
*)
