(* Repair8MultiProofs.v -- C08, several edits: on a generated graph, for every walk w and every set of substitutions,
   insertions and deletions whose positions lie in [k, n - 2k) and are pairwise at least 3k+2 apart, repairing the
   corrupted strand (indel handling on, unrestrictive heap limit, check absent or the check of w) yields a candidate
   list that contains w whenever the number of detected errors equals the number of edits. *)
From Coq Require Import Lia ZifyBool Sorting.Sorted.
From DSW Require Import Py Bignum Convert Kmer Graph Coder Repair Filter Spec GraphSpec CoderSpec FilterSpec RepairSpec.
From DSW.Proofs Require Import KmerProofs GraphProofs ConvertProofs ShuffleProofs VTProofs WalkProofs TerminationProofs
     GeneratedProofs RepairProofs Repair8Proofs.
Ltac Zify.zify_post_hook ::= Z.to_euclidean_division_equations.

(* an edit of the ORIGINAL walk w at position p (0-based, in w) *)
Inductive edit := ESub (p : nat) (c : Z) | EIns (p : nat) (c : Z) | EDel (p : nat).
Definition epos (e : edit) : nat := match e with ESub p _ => p | EIns p _ => p | EDel p => p end.
Definition apply_edit (w : list Z) (e : edit) : list Z :=
  match e with ESub p c => edit_sub w p c | EIns p c => edit_ins w p c | EDel p => edit_del w p end.
(* edits are listed by increasing position and applied from the last to the first, so that every position refers to w *)
Definition apply_edits (w : list Z) (es : list edit) : list Z := fold_left apply_edit (rev es) w.

Definition edit_wf (w : list Z) (e : edit) : Prop :=
  match e with
  | ESub p c => is_acgt c = true /\ c <> nth p w 0
  | EIns p c => is_acgt c = true
  | EDel p => True
  end.
(* positions in [k, n - 2k), strictly increasing with gaps of at least 3k + 2 *)
Fixpoint edits_ok (k : nat) (w : list Z) (lo : nat) (es : list edit) : Prop :=
  match es with
  | [] => True
  | e :: rest => (lo <= epos e)%nat /\ (epos e + 2 * k < length w)%nat /\ edit_wf w e
                 /\ edits_ok k w (epos e + 3 * k + 2) rest
  end.

(* TARGET STATEMENT (to be proved, do not change the statement):

Theorem repair_multi : forall k acc v0 w es vt heap, generated k acc -> 0 <= v0 < pow4 k -> is_walk acc v0 w ->
  edits_ok k w k es -> check_of w vt -> (8 * Z.of_nat k) ^ Z.of_nat (length es) <= heap ->
  exists cands st, repair_dna (apply_edits w es) acc v0 (Z.of_nat k) vt true heap = Ok (cands, st)
     /\ 0 <= detected st <= Z.of_nat (length es)
     /\ (detected st = Z.of_nat (length es) -> In w cands).
*)
