(* Repair8MultiProofs.v -- C08, several edits: on a generated graph, for every walk w and every set of substitutions,
   insertions and deletions whose positions lie in [k, n - 2k) and are pairwise at least 3k+2 apart, repairing the
   corrupted strand (indel handling on, unrestrictive heap limit, check absent or the check of w) yields a candidate
   list that contains w whenever the number of detected errors equals the number of edits. *)
From Coq Require Import Lia ZifyBool Sorting.Sorted.
From DSW Require Import Py Bignum Convert Kmer Graph Coder Repair Filter Spec GraphSpec CoderSpec FilterSpec RepairSpec.
From DSW.Proofs Require Import KmerProofs GraphProofs ConvertProofs ShuffleProofs VTProofs WalkProofs TerminationProofs
     GeneratedProofs RepairProofs Repair8Proofs.
Ltac Zify.zify_post_hook ::= Z.to_euclidean_division_equations.

(* an edit of the ORIGINAL walk w at position p (0-based, in w) *)
Inductive edit := ESub (p : nat) (c : Z) | EIns (p : nat) (c : Z) | EDel (p : nat).
Definition epos (e : edit) : nat := match e with ESub p _ => p | EIns p _ => p | EDel p => p end.
Definition apply_edit (w : list Z) (e : edit) : list Z :=
  match e with ESub p c => edit_sub w p c | EIns p c => edit_ins w p c | EDel p => edit_del w p end.
(* edits are listed by increasing position and applied from the last to the first, so that every position refers to w *)
Definition apply_edits (w : list Z) (es : list edit) : list Z := fold_left apply_edit (rev es) w.

Definition edit_wf (w : list Z) (e : edit) : Prop :=
  match e with
  | ESub p c => is_acgt c = true /\ c <> nth p w 0
  | EIns p c => is_acgt c = true
  | EDel p => True
  end.
(* positions in [k, n - 2k), strictly increasing with gaps of at least 3k + 2 *)
Fixpoint edits_ok (k : nat) (w : list Z) (lo : nat) (es : list edit) : Prop :=
  match es with
  | [] => True
  | e :: rest => (lo <= epos e)%nat /\ (epos e + 2 * k < length w)%nat /\ edit_wf w e
                 /\ edits_ok k w (epos e + 3 * k + 2) rest
  end.

(* The TARGET STATEMENT repair_multi is proved at the end of this file, exactly as given.  Outline:
   Part A  rewrites w / apply_edits w es in block form  w = H ++ B1_1 ++ A_1 ++ B1_2 ++ A_2 ++ ...,
           s = H ++ B2_1 ++ A_1 ++ B2_2 ++ A_2 ++ ...  (edits_blocks), every (B1_i, B2_i) being a substitution, an
           insertion or a deletion (ekind), |H| >= k, |A_i| >= 3k+1 except the last one, which has |A_m| >= 2k (bok);
   Part B  the record of detections (chunk, marker, restoring fragment, split after it) and membership in recombine;
   Part C  scan_blocks: scan_loop started in sync with w (state v with okw v (remaining part of w)) processes the
           blocks one by one; each block gives no detection (the scan re-synchronises, stt_forget) or exactly one
           detection whose fragment set contains the restoring fragment (good_block: restore_rec + fragments_of_spec);
           if every block is detected, the splits and restoring fragments concatenate to w;
           multi_gen assembles repair_dna (fallback path: detected = 0 < number of edits; product path: recombine_in,
           filter_checked_in, sort_dedup_sorted);
   Part D  the target statement.  The heap hypothesis is not needed for the statement as written: when the
           product is empty or exceeds the heap limit, repair_dna reports 0 detections. *)

(* ========================================================================================== *)
(* Part A: block form of a multi-edit                                                          *)
(*   w = H ++ B1_1 ++ A_1 ++ B1_2 ++ A_2 ++ ...      s = H ++ B2_1 ++ A_1 ++ B2_2 ++ A_2 ++ ...  *)
(* ========================================================================================== *)
Inductive ekind : list Z -> list Z -> Prop :=
| EK_sub : forall a c, is_acgt c = true -> c <> a -> ekind [a] [c]
| EK_ins : forall c, is_acgt c = true -> ekind [] [c]
| EK_del : forall a, ekind [a] [].

Definition blk := (list Z * list Z * list Z)%type.      (* (B1, B2, A): the edit and the unedited stretch after it *)

Fixpoint wtl (r : list blk) : list Z :=
  match r with [] => [] | (B1, _, A) :: r' => B1 ++ A ++ wtl r' end.
Fixpoint stl (r : list blk) : list Z :=
  match r with [] => [] | (_, B2, A) :: r' => B2 ++ A ++ stl r' end.
Fixpoint bok (k : nat) (r : list blk) : Prop :=
  match r with
  | [] => True
  | (B1, B2, A) :: r' => ekind B1 B2 /\ (2 * k <= length A)%nat /\ (r' <> [] -> (3 * k + 1 <= length A)%nat) /\ bok k r'
  end.

Lemma ekind_B2 : forall B1 B2, ekind B1 B2 -> acgt B2 /\ (length B2 <= 1)%nat /\ (length B1 <= 1)%nat.
Proof.
  intros B1 B2 H. destruct H as [a c Hc _|c Hc|a]; cbn [length]; (split; [|lia]).
  - constructor; [exact Hc|constructor].
  - constructor; [exact Hc|constructor].
  - constructor.
Qed.

Lemma m_skipn_pre : forall {T} (P Q : list T), skipn (length P) (P ++ Q) = Q.
Proof. intros. rewrite skipn_app, Nat.sub_diag, skipn_all. reflexivity. Qed.

Lemma m_skipn_pre_add : forall {T} (P Q : list T) j, skipn (length P + j) (P ++ Q) = skipn j Q.
Proof. intros. rewrite <- r8_skipn_skipn. rewrite m_skipn_pre. reflexivity. Qed.

Lemma m_firstn_app_le : forall {T} (a b : list T) n, (n <= length a)%nat -> firstn n (a ++ b) = firstn n a.
Proof.
  intros T a b n H. rewrite firstn_app. replace (n - length a)%nat with 0%nat by lia. cbn [firstn]. apply app_nil_r.
Qed.

Lemma m_firstn_skipn_app_le : forall {T} (a b : list T) j m, (j + m <= length a)%nat ->
  firstn m (skipn j (a ++ b)) = firstn m (skipn j a).
Proof.
  intros T a b j m H. rewrite skipn_app. apply m_firstn_app_le. rewrite skipn_length. lia.
Qed.

Lemma m_nth_pre_add : forall (P Q : list Z) j d, nth (length P + j) (P ++ Q) d = nth j Q d.
Proof. intros. rewrite app_nth2 by lia. f_equal. lia. Qed.

Lemma pre_firstn : forall (w Z0 : list Z) n i, (i <= n)%nat -> (i <= length w)%nat ->
  firstn i (firstn n w ++ Z0) = firstn i w.
Proof.
  intros w Z0 n i H1 H2. rewrite m_firstn_app_le by (rewrite firstn_length; lia).
  rewrite firstn_firstn. f_equal. lia.
Qed.

Lemma pre_skipn : forall (w Z0 : list Z) n i, (i <= n)%nat -> (i <= length w)%nat ->
  skipn i (firstn n w ++ Z0) = skipn i (firstn n w) ++ Z0.
Proof.
  intros w Z0 n i H1 H2. rewrite skipn_app. rewrite firstn_length.
  replace (i - Nat.min n (length w))%nat with 0%nat by lia. reflexivity.
Qed.

Lemma apply_edits_cons : forall w e es, apply_edits w (e :: es) = apply_edit (apply_edits w es) e.
Proof. intros. unfold apply_edits. cbn [rev]. rewrite fold_left_app. reflexivity. Qed.

Lemma edits_blocks : forall k es w lo, edits_ok k w lo es ->
  exists H r, skipn lo w = H ++ wtl r /\ apply_edits w es = firstn lo w ++ H ++ stl r /\
              length r = length es /\ bok k r /\ (es <> [] -> (lo < length w)%nat).
Proof.
  intros k. induction es as [|e es IH]; intros w lo Hok.
  - exists (skipn lo w), []. cbn [wtl stl length bok apply_edits rev fold_left]. rewrite app_nil_r, firstn_skipn.
    repeat split. intros Hn. exfalso. apply Hn. reflexivity.
  - cbn [edits_ok] in Hok. destruct Hok as (Hlo & Hp & Hwf & Hrest).
    destruct (IH w _ Hrest) as (H' & r' & E1 & E2 & E3 & E4 & E5).
    remember (epos e) as p eqn:Hpe. set (lo' := (p + 3 * k + 2)%nat) in *.
    assert (F1 : firstn p w = firstn lo w ++ firstn (p - lo) (skipn lo w)).
    { replace p with (lo + (p - lo))%nat at 1 by lia. apply r8_firstn_add. }
    assert (F2 : skipn lo w = firstn (p - lo) (skipn lo w) ++ skipn p w).
    { rewrite <- (firstn_skipn (p - lo) (skipn lo w)) at 1. rewrite r8_skipn_skipn. do 2 f_equal. lia. }
    assert (F3 : forall i, (i <= lo')%nat -> (i <= length w)%nat ->
                   skipn i w = skipn i (firstn lo' w) ++ H' ++ wtl r').
    { intros i Hi1 Hi2. rewrite <- (firstn_skipn lo' w) at 1. rewrite pre_skipn by assumption. rewrite E1. reflexivity. }
    assert (FA : forall i, (i <= S p)%nat ->
                   (2 * k <= length (skipn i (firstn lo' w) ++ H'))%nat /\
                   (r' <> [] -> (3 * k + 1 <= length (skipn i (firstn lo' w) ++ H'))%nat)).
    { intros i Hi. rewrite app_length, skipn_length, firstn_length. split; [lia|].
      intros Hr. assert (He : es <> []) by (intros ->; destruct r'; [apply Hr; reflexivity|discriminate]).
      specialize (E5 He). lia. }
    rewrite apply_edits_cons, E2. cbn [length]. destruct e as [p0 c|p0 c|p0]; cbn [epos] in Hpe; subst p0.
    + destruct Hwf as [Hc Hne].
      exists (firstn (p - lo) (skipn lo w)), (([nth p w 0], [c], skipn (S p) (firstn lo' w) ++ H') :: r').
      cbn [wtl stl length bok apply_edit]. split; [|split; [|split; [|split]]].
      * rewrite F2 at 1. f_equal. rewrite (skipn_nth w p) by lia. cbn [app]. f_equal.
        rewrite (F3 (S p)) by lia. rewrite <- !app_assoc. reflexivity.
      * unfold edit_sub. rewrite pre_firstn, pre_skipn by lia. rewrite F1. rewrite <- !app_assoc. reflexivity.
      * lia.
      * destruct (FA (S p) ltac:(lia)) as [FA1 FA2].
        split; [constructor; [exact Hc|exact Hne]|]. split; [exact FA1|]. split; [exact FA2|exact E4].
      * intros _. lia.
    + exists (firstn (p - lo) (skipn lo w)), (([], [c], skipn p (firstn lo' w) ++ H') :: r').
      cbn [wtl stl length bok apply_edit]. split; [|split; [|split; [|split]]].
      * rewrite F2 at 1. f_equal. cbn [app]. rewrite (F3 p) by lia. rewrite <- !app_assoc. reflexivity.
      * unfold edit_ins. rewrite pre_firstn, pre_skipn by lia. rewrite F1. rewrite <- !app_assoc. reflexivity.
      * lia.
      * destruct (FA p ltac:(lia)) as [FA1 FA2].
        split; [constructor; exact Hwf|]. split; [exact FA1|]. split; [exact FA2|exact E4].
      * intros _. lia.
    + exists (firstn (p - lo) (skipn lo w)), (([nth p w 0], [], skipn (S p) (firstn lo' w) ++ H') :: r').
      cbn [wtl stl length bok apply_edit]. split; [|split; [|split; [|split]]].
      * rewrite F2 at 1. f_equal. rewrite (skipn_nth w p) by lia. cbn [app]. f_equal.
        rewrite (F3 (S p)) by lia. rewrite <- !app_assoc. reflexivity.
      * unfold edit_del. rewrite pre_firstn, pre_skipn by lia. rewrite F1. rewrite <- !app_assoc. reflexivity.
      * lia.
      * destruct (FA (S p) ltac:(lia)) as [FA1 FA2].
        split; [constructor|]. split; [exact FA1|]. split; [exact FA2|exact E4].
      * intros _. lia.
Qed.

(* ========================================================================================== *)
(* Part B: detections and recombination                                                        *)
(* ========================================================================================== *)
Record det := { d_ch : list Z; d_mk : list Z; d_f : list Z; d_x : list Z }.

Definition joinD (x0 : list Z) (D : list det) : list Z := x0 ++ concat (map (fun t => d_f t ++ d_x t) D).

Lemma recombine_in : forall D x0 fr, Forall2 (fun t fs => In (d_f t) fs) D fr ->
  In (joinD x0 D) (recombine (x0 :: map d_x D) fr).
Proof.
  induction D as [|t D IH]; intros x0 fr HF; inversion HF as [|? fs ? fss Hin HF']; subst.
  - cbn [map recombine]. left. unfold joinD. cbn [map concat]. symmetry. apply app_nil_r.
  - cbn [map recombine]. apply in_flat_map. exists (joinD (d_x t) D). split; [apply IH; exact HF'|].
    apply in_map_iff. exists (d_f t). split; [|exact Hin].
    unfold joinD. cbn [map concat]. rewrite <- !app_assoc. reflexivity.
Qed.

(* ========================================================================================== *)
(* Part C: the scan over a block-form strand                                                   *)
(* ========================================================================================== *)
Section Multi.
Variable k : nat.
Variable X : vset.
Hypothesis Hk : (1 <= k)%nat.
Local Notation acc := (induced_on k X).

(* scan_detect with an arbitrary current split *)
Lemma scan_detect2 : forall s f l v iq cur sp ch mk d vis,
  acgt s -> (k <= l)%nat -> (l + k + 1 <= length s)%nat -> vin k X v -> X (nx k v (nth l s 0)) = false ->
  (k <= length cur + 1)%nat -> length iq = length s ->
  scan_loop (S f) s acc (Z.of_nat k) (Z.of_nat l) v iq cur
     {| sc_splits := sp; sc_chunks := ch; sc_markers := mk; sc_detected := d; sc_visited := vis |} =
  scan_loop f s acc (Z.of_nat k) (Z.of_nat (l + k + 1)) (kval (firstn k (skipn (S l) s))) iq [nth (l + k) s 0]
     {| sc_splits := firstn (length cur + 1 - k) cur :: sp;
        sc_chunks := ch ++ [firstn (2 * k - 1) (skipn (l + 1 - k) s)];
        sc_markers := mk ++ [firstn k (skipn (l - k) iq)];
        sc_detected := d + 1; sc_visited := vis |}.
Proof.
  intros s f l v iq cur sp ch mk d vis Ha Hkl Hls Hv Hx Hcur Hiq.
  rewrite scan_loop_step by lia.
  rewrite (py_get_ok s (Z.of_nat l) 0) by lia. rewrite Nat2Z.id. cbn [bind].
  rewrite (step_fail8 k X Hk v _ Hv (acgt_nth s l Ha ltac:(lia)) Hx).
  cbn [bind sc_splits sc_chunks sc_markers sc_detected sc_visited].
  replace (Z.of_nat l + 1) with (Z.of_nat (S l)) by lia.
  replace (Z.of_nat l + Z.of_nat k + 1) with (Z.of_nat (l + k + 1)) by lia.
  rewrite (r8_slice_nat s (S l) (l + k + 1)) by lia.
  replace (l + k + 1 - S l)%nat with k by lia.
  set (t := firstn k (skipn (S l) s)).
  assert (Hat : acgt t) by (apply acgt_firstn, acgt_skipn; exact Ha).
  rewrite (dna_int_kval t Hat). cbn [bind].
  assert (Hlast : nuc_char (kval t mod 4) = nth (l + k) s 0).
  { unfold t. replace k with (S (k - 1)) at 1 by lia.
    rewrite (r8_firstn_S k Hk) by (rewrite skipn_length; lia).
    rewrite kval_mod4, r8_nth_skipn. replace (S l + (k - 1))%nat with (l + k)%nat by lia.
    apply idx_char. apply acgt_nth; [exact Ha|lia]. }
  rewrite Hlast.
  replace (Z.of_nat (length cur) - Z.of_nat k + 1) with (Z.of_nat (length cur + 1 - k)) by lia.
  rewrite (r8_slice_to_nat cur (length cur + 1 - k)) by lia.
  replace (Z.of_nat l - Z.of_nat k + 1) with (Z.of_nat (l + 1 - k)) by lia.
  replace (Z.of_nat l + Z.of_nat k) with (Z.of_nat (l + k)) by lia.
  rewrite (r8_slice_nat s (l + 1 - k) (l + k)) by lia.
  replace (l + k - (l + 1 - k))%nat with (2 * k - 1)%nat by lia.
  replace (Z.of_nat l - Z.of_nat k) with (Z.of_nat (l - k)) by lia.
  rewrite (r8_slice_nat iq (l - k) l) by lia.
  replace (l - (l - k))%nat with k by lia.
  reflexivity.
Qed.

(* the record that restores w on the stretch around one edit *)
Lemma restore_rec : forall v H B1 B2 A l recs n, vin k X v -> okw k X v (H ++ B1 ++ A) -> ekind B1 B2 ->
  (k <= length H)%nat -> (2 * k <= length A)%nat -> (length H <= l)%nat -> (S l < length H + length B2 + k)%nat ->
  path_matching (firstn (2 * k - 1) (skipn (l + 1 - k) (H ++ B2 ++ A))) acc (stt k v H)
     (Z.of_nat k - Z.of_nat (l - length H) - 1) true = Ok (recs, n) ->
  exists rc, In rc recs /\ snd rc = skipn (l + 1 - k) H ++ B1 ++ firstn (k + (l - length H) - length B2) A.
Proof.
  intros v H B1 B2 A l recs n Hv Hw Hek HkH HA H1 H2 Hp.
  destruct (ekind_B2 B1 B2 Hek) as (_ & HlB2 & _).
  destruct (chunk_split k Hk H B2 A l H1 H2 HlB2 HkH HA) as (E1 & E2 & _ & _).
  rewrite E1, E2 in Hp. clear E1 E2.
  set (r := (l - length H)%nat) in *. set (b := skipn (l + 1 - k) H) in *.
  apply okw_app in Hw. destruct Hw as [HwH Hw2].
  pose proof (okw_vin k X H v Hv HwH) as Hu.
  destruct Hek as [a0 c Hc Hne|c Hc|a0]; cbn [length] in *.
  - replace (k + r)%nat with (S (k + r - 1)) in Hp by lia. cbn [app firstn] in Hp.
    cbn [app okw] in Hw2. destruct Hw2 as (Ha0 & Hx & HwC).
    exists (0, a0, b ++ a0 :: firstn (k + r - 1) A). split; [|reflexivity].
    apply (pm_sub k X Hk b c (firstn (k + r - 1) A) (stt k v H) a0 true recs n Hu Ha0 ltac:(congruence) Hx
             (okw_firstn k X _ _ _ HwC) Hp).
  - replace (k + r)%nat with (S (k + r - 1)) in Hp by lia. cbn [app firstn] in Hp.
    cbn [app] in Hw2.
    exists (2, c, b ++ firstn (k + r - 1) A). split; [|reflexivity].
    apply (pm_ins k X Hk b c (firstn (k + r - 1) A) (stt k v H) recs n Hu (okw_firstn k X _ _ _ Hw2) Hp).
  - destruct A as [|c0 A']; [cbn [length] in HA; lia|].
    replace (k + r)%nat with (S (k + r - 1)) in Hp by lia. cbn [app firstn] in Hp.
    cbn [app okw] in Hw2. destruct Hw2 as (Ha0 & Hx & HwC).
    exists (1, a0, b ++ a0 :: c0 :: firstn (k + r - 1) A'). split.
    + apply (pm_del k X Hk b c0 (firstn (k + r - 1) A') (stt k v H) a0 recs n Hu Ha0 Hx); [|exact Hp].
      apply (okw_firstn k X (S (k + r - 1)) (c0 :: A') _ HwC).
    + cbn [snd app]. replace (k + r - 0)%nat with (S (k + r - 1)) by lia. reflexivity.
Qed.

(* the marker recorded at a detection l = |P| + l' after scanning t (|t| = l') from position |P| *)
Lemma marker_spec : forall (iq P : list Z) v t l', length t = l' -> (k <= l')%nat ->
  (length P + l' <= length iq)%nat ->
  let marker := firstn k (skipn (length P + l' - k) (fill k iq (length P) v t)) in
  length marker = k /\ forall j, (j < k)%nat -> nth j marker 0 = stt k v (firstn (S (l' - k + j)) t).
Proof.
  intros iq P v t l' Ht Hkl Hiq marker. split.
  - unfold marker. apply firstn_length_le. rewrite skipn_length, fill_length. lia.
  - intros j Hj. unfold marker. rewrite r8_nth_firstn by exact Hj. rewrite r8_nth_skipn.
    replace (length P + l' - k + j)%nat with (length P + (l' - k + j))%nat by lia.
    apply (fill_nth k Hk); lia.
Qed.

(* a detection carries a fragment f that is found by fragments_of, and its fragment set is small *)
Definition good (s : list Z) (t : det) : Prop :=
  forall vis fs n, fragments_of (d_ch t) acc (Z.of_nat k) true s (rev (d_mk t)) 0 [] vis = Ok (fs, n) ->
    In (d_f t) fs /\ (length fs <= 8 * k)%nat.

Lemma good_block : forall s P v H B1 B2 A R l' l iq x, s = P ++ (H ++ B2 ++ A) ++ R -> acgt s -> vin k X v ->
  okw k X v (H ++ B1 ++ A) -> ekind B1 B2 -> (k <= length H)%nat -> (2 * k <= length A)%nat ->
  (length H <= l')%nat -> (S l' < length H + length B2 + k)%nat -> length iq = length s ->
  l = (length P + l')%nat ->
  good s {| d_ch := firstn (2 * k - 1) (skipn (l + 1 - k) s);
            d_mk := firstn k (skipn (l - k) (fill k iq (length P) v (firstn l' (H ++ B2 ++ A))));
            d_f := skipn (l' + 1 - k) H ++ B1 ++ firstn (k + (l' - length H) - length B2) A;
            d_x := x |}.
Proof.
  intros s P v H B1 B2 A R l' l iq x Es Has Hv Hw Hek HkH HA H1 H2 Hiq ->.
  destruct (ekind_B2 B1 B2 Hek) as (_ & HlB2 & _).
  set (S1 := H ++ B2 ++ A) in *.
  assert (HlS1 : length S1 = (length H + length B2 + length A)%nat) by (unfold S1; rewrite !app_length; lia).
  assert (Hls : length s = (length P + length S1 + length R)%nat) by (rewrite Es, !app_length; lia).
  unfold good. cbn [d_ch d_mk d_f].
  set (t := firstn l' S1).
  assert (Ht : length t = l') by (unfold t; apply firstn_length_le; lia).
  assert (Echunk : firstn (2 * k - 1) (skipn (length P + l' + 1 - k) s) = firstn (2 * k - 1) (skipn (l' + 1 - k) S1)).
  { rewrite Es. replace (length P + l' + 1 - k)%nat with (length P + (l' + 1 - k))%nat by lia.
    rewrite m_skipn_pre_add. apply m_firstn_skipn_app_le. lia. }
  rewrite Echunk. set (chunk := firstn (2 * k - 1) (skipn (l' + 1 - k) S1)).
  destruct (marker_spec iq P v t l' Ht ltac:(lia) ltac:(lia)) as [Hlm Hnm]. cbv zeta in Hlm, Hnm.
  set (marker := firstn k (skipn (length P + l' - k) (fill k iq (length P) v t))) in *.
  assert (Hac : acgt chunk).
  { unfold chunk. apply acgt_firstn, acgt_skipn. rewrite Es in Has. unfold acgt in *.
    apply Forall_app in Has. destruct Has as [_ Has]. apply Forall_app in Has. apply Has. }
  assert (Hlc : length chunk = (2 * k - 1)%nat).
  { unfold chunk. apply firstn_length_le. rewrite skipn_length. lia. }
  assert (Hrm : Forall (fun pv => 0 <= pv < pow4 k) (rev marker)).
  { apply Forall_rev. apply Forall_forall. intros y Hy.
    destruct (In_nth marker y 0 Hy) as (i & Hi & <-). rewrite Hlm in Hi. rewrite Hnm by exact Hi.
    apply stt_range. apply Hv. }
  intros vis fs n E.
  destruct (fragments_of_spec k X Hk chunk (Z.of_nat k) true s Hac ltac:(lia) ltac:(lia) (rev marker) 0 [] vis fs n E Hrm
              ltac:(lia) ltac:(rewrite rev_length; lia) ltac:(intros f [])) as (_ & I2 & I3).
  split; [|rewrite rev_length, Hlm in I3; cbn [length] in I3; lia].
  set (r := (l' - length H)%nat).
  assert (Hnth : nth_error (rev marker) r = Some (stt k v H)).
  { rewrite (nth_error_nth' (rev marker) 0) by (rewrite rev_length; lia). f_equal.
    rewrite rev_nth by lia. rewrite Hlm. rewrite Hnm by lia.
    replace (S (l' - k + (k - S r))) with (length H) by lia.
    unfold t. rewrite firstn_firstn, Nat.min_l by lia. unfold S1. rewrite m_firstn_app_le by lia.
    rewrite firstn_all. reflexivity. }
  destruct (path_matching_total acc (acc_shaped k X) (acc_pos k X) chunk (stt k v H) (Z.of_nat k - Z.of_nat r - 1) true Hac
              (range_vok k X Hk _ (stt_range k v H (proj1 Hv))) ltac:(lia)) as (recs & n2 & E2 & _).
  destruct (restore_rec v H B1 B2 A l' recs n2 Hv Hw Hek HkH HA H1 H2 E2) as (rc & Hrc & Hsnd).
  fold r in Hsnd. rewrite <- Hsnd.
  apply (I2 r (stt k v H) recs n2 rc Hnth); [|exact Hrc].
  replace (Z.of_nat k - (0 + Z.of_nat r) - 1) with (Z.of_nat k - Z.of_nat r - 1) by lia. exact E2.
Qed.

Lemma scan_blocks : forall r H P v iq cur sp ch mk d vis fuel s,
  s = P ++ H ++ stl r -> acgt s -> vin k X v -> okw k X v (H ++ wtl r) -> bok k r ->
  (r <> [] -> (k <= length H)%nat) -> length iq = length s -> (length (H ++ stl r) <= fuel)%nat ->
  exists x0 D vis',
    scan_loop fuel s acc (Z.of_nat k) (Z.of_nat (length P)) v iq cur
      {| sc_splits := sp; sc_chunks := ch; sc_markers := mk; sc_detected := d; sc_visited := vis |} =
    Ok {| sc_splits := rev (x0 :: map d_x D) ++ sp; sc_chunks := ch ++ map d_ch D; sc_markers := mk ++ map d_mk D;
          sc_detected := d + Z.of_nat (length D); sc_visited := vis' |}
    /\ (length D <= length r)%nat
    /\ (length D = length r -> Forall (good s) D /\ joinD x0 D = cur ++ H ++ wtl r).
Proof.
  induction r as [|[[B1 B2] A] r IH]; intros H P v iq cur sp ch mk d vis fuel s Es Has Hv Hw Hbok HkH Hiq Hfuel.
  - cbn [stl wtl] in *. rewrite app_nil_r in *.
    exists (cur ++ H), [], (vis + Z.of_nat (length H)).
    assert (Hsk : firstn (length H) (skipn (length P) s) = H).
    { rewrite Es, m_skipn_pre. apply firstn_all. }
    split; [|split; [cbn [length]; lia|]].
    + replace fuel with (length H + (fuel - length H))%nat by lia.
      rewrite (scan_run k X Hk s (Z.of_nat k) (length H));
        [|rewrite Es, app_length; lia|exact Hv|rewrite Hsk; exact Hw].
      rewrite Hsk. rewrite scan_loop_done by (rewrite Es, app_length; lia).
      cbn [sc_splits sc_chunks sc_markers sc_detected sc_visited map rev app length].
      rewrite !app_nil_r. change (Z.of_nat 0) with 0. rewrite Z.add_0_r. reflexivity.
    + intros _. split; [constructor|]. unfold joinD. cbn [map concat]. rewrite app_nil_r. reflexivity.
  - cbn [stl wtl bok] in *. destruct Hbok as (Hek & HA & HA3 & Hbok).
    specialize (HkH ltac:(discriminate)).
    destruct (ekind_B2 B1 B2 Hek) as (HB2 & HlB2 & HlB1).
    set (S1 := H ++ B2 ++ A).
    assert (Es' : s = P ++ S1 ++ stl r) by (rewrite Es; unfold S1; rewrite <- !app_assoc; reflexivity).
    assert (HlS1 : length S1 = (length H + length B2 + length A)%nat) by (unfold S1; rewrite !app_length; lia).
    assert (Hls : length s = (length P + length S1 + length (stl r))%nat) by (rewrite Es', !app_length; lia).
    assert (HaS1 : acgt S1).
    { rewrite Es' in Has. unfold acgt in *. apply Forall_app in Has. destruct Has as [_ Has].
      apply Forall_app in Has. apply Has. }
    assert (Hsplit : forall q, okw k X v (H ++ B1 ++ firstn q A) /\
                               okw k X (stt k v (H ++ B1 ++ firstn q A)) (skipn q A ++ wtl r)).
    { intros q. apply okw_app. rewrite <- !app_assoc. rewrite (app_assoc (firstn q A)), firstn_skipn. exact Hw. }
    assert (HwS : okw k X v (H ++ B1 ++ A)).
    { destruct (Hsplit (length A)) as [Hx _]. rewrite firstn_all in Hx. exact Hx. }
    rewrite !app_length in Hfuel.
    destruct (r8_first_fail (fun j => X (sig k v S1 (S j))) (length H + length B2 + k))
      as [Hall|(l' & Hl' & Hbefore & Hfail)]; cbv beta in *.
    + (* no detection in this block: the scan re-synchronises with w *)
      set (n1 := (length H + length B2 + k)%nat) in *.
      set (T1 := H ++ B2 ++ firstn k A).
      assert (ET1 : firstn n1 S1 = T1).
      { unfold S1, T1, n1. replace (length H + length B2 + k)%nat with (length H + (length B2 + k))%nat by lia.
        rewrite firstn_app_2. f_equal. rewrite firstn_app_2. reflexivity. }
      assert (HlT1 : length T1 = n1).
      { unfold T1, n1. rewrite !app_length, firstn_length_le by lia. lia. }
      assert (Hpre : okw k X v T1).
      { rewrite <- ET1. apply (okw_prefix k X Hk); [exact HaS1|lia|exact Hall]. }
      assert (Hsk : firstn n1 (skipn (length P) s) = T1).
      { rewrite Es', m_skipn_pre. rewrite m_firstn_app_le by lia. exact ET1. }
      assert (Ev : stt k v T1 = stt k v (H ++ B1 ++ firstn k A)).
      { unfold T1. rewrite !app_assoc. rewrite !stt_app. apply stt_forget.
        - rewrite firstn_length_le by lia. lia.
        - repeat apply stt_range. apply Hv.
        - repeat apply stt_range. apply Hv. }
      destruct (Hsplit k) as [_ Hw'].
      destruct (IH (skipn k A) (P ++ T1) (stt k v T1) (fill k iq (length P) v T1) (cur ++ T1) sp ch mk d
                   (vis + Z.of_nat n1) (fuel - n1)%nat s) as (x0 & D & vis' & E & HD & _).
      * rewrite Es. unfold T1. rewrite <- !app_assoc. rewrite (app_assoc (firstn k A)), firstn_skipn. reflexivity.
      * exact Has.
      * apply okw_vin; assumption.
      * rewrite Ev. exact Hw'.
      * exact Hbok.
      * intros Hr. specialize (HA3 Hr). rewrite skipn_length. lia.
      * rewrite fill_length. exact Hiq.
      * rewrite app_length, skipn_length. lia.
      * exists x0, D, vis'. split; [|split; [cbn [length]; lia|cbn [length]; intros; lia]].
        replace fuel with (n1 + (fuel - n1))%nat by lia.
        rewrite (scan_run k X Hk s (Z.of_nat k) n1); [|lia|exact Hv|rewrite Hsk; exact Hpre].
        rewrite Hsk. replace (length P + n1)%nat with (length (P ++ T1)) by (rewrite app_length; lia).
        exact E.
    + (* detection at l = |P| + l' *)
      destruct (edit_window k X Hk v H B1 B2 A Hv HwS HkH l' ltac:(fold S1; lia) Hfail) as [H1 H2].
      set (t := firstn l' S1).
      assert (Ht : length t = l') by (unfold t; apply firstn_length_le; lia).
      assert (Hpre : okw k X v t).
      { unfold t. apply (okw_prefix k X Hk); [exact HaS1|lia|exact Hbefore]. }
      assert (Hsk : firstn l' (skipn (length P) s) = t).
      { rewrite Es', m_skipn_pre. apply m_firstn_app_le. lia. }
      remember (length P + l')%nat as l eqn:El.
      assert (Hu : vin k X (stt k v t)) by (apply okw_vin; assumption).
      assert (Hnl : nth l s 0 = nth l' S1 0).
      { rewrite El, Es', m_nth_pre_add. apply app_nth1. lia. }
      assert (Hx : X (nx k (stt k v t) (nth l s 0)) = false).
      { rewrite Hnl. rewrite (sig_S k Hk) in Hfail by lia. exact Hfail. }
      remember (l' + k + 1 - length H - length B2)%nat as q eqn:Eq.
      assert (Hq : (k <= q)%nat /\ (q + 1 <= 2 * k)%nat) by lia.
      set (T2 := H ++ B2 ++ firstn q A).
      assert (HlT2 : length T2 = (l' + k + 1)%nat).
      { unfold T2. rewrite !app_length, firstn_length_le by lia. lia. }
      set (iq1 := fill k iq (length P) v t).
      assert (Ekm : firstn k (skipn (S l) s) = firstn k (skipn (q - k) A)).
      { rewrite El, Es'. replace (S (length P + l')) with (length P + S l')%nat by lia.
        rewrite m_skipn_pre_add. rewrite m_firstn_skipn_app_le by lia. unfold S1. rewrite app_assoc.
        rewrite skipn_app. rewrite skipn_all2 by (rewrite app_length; lia). cbn [app]. rewrite app_length.
        do 2 f_equal. lia. }
      assert (Efq : firstn q A = firstn (q - k) A ++ firstn k (skipn (q - k) A)).
      { rewrite <- r8_firstn_add. f_equal. lia. }
      assert (Ev2 : kval (firstn k (skipn (S l) s)) = stt k v (H ++ B1 ++ firstn q A)).
      { rewrite Ekm, Efq. rewrite !app_assoc. rewrite stt_app. symmetry. apply stt_kval.
        - apply firstn_length_le. rewrite skipn_length. lia.
        - apply stt_range. apply Hv. }
      destruct (Hsplit q) as [Hwq Hw'].
      assert (Hv2 : vin k X (stt k v (H ++ B1 ++ firstn q A))) by (apply okw_vin; assumption).
      assert (Hcur2 : nth (l + k) s 0 = nth (q - 1) A 0).
      { rewrite El, Es'. replace (length P + l' + k)%nat with (length P + (l' + k))%nat by lia.
        rewrite m_nth_pre_add. rewrite app_nth1 by lia. unfold S1. rewrite app_assoc.
        rewrite app_nth2 by (rewrite app_length; lia). f_equal. rewrite app_length. lia. }
      assert (Ecut : firstn (length (cur ++ t) + 1 - k) (cur ++ t) = cur ++ firstn (l' + 1 - k) H).
      { rewrite app_length, Ht. replace (length cur + l' + 1 - k)%nat with (length cur + (l' + 1 - k))%nat by lia.
        rewrite firstn_app_2. f_equal. unfold t. rewrite firstn_firstn, Nat.min_l by lia.
        unfold S1. apply m_firstn_app_le. lia. }
      destruct (IH (skipn q A) (P ++ T2) (kval (firstn k (skipn (S l) s))) iq1 [nth (l + k) s 0]
                   (firstn (length (cur ++ t) + 1 - k) (cur ++ t) :: sp)
                   (ch ++ [firstn (2 * k - 1) (skipn (l + 1 - k) s)])
                   (mk ++ [firstn k (skipn (l - k) iq1)]) (d + 1) (vis + Z.of_nat l') (fuel - l' - 1)%nat s)
        as (x0 & D & vis' & E & HD & Hfull).
      * rewrite Es. unfold T2. rewrite <- !app_assoc. rewrite (app_assoc (firstn q A)), firstn_skipn. reflexivity.
      * exact Has.
      * rewrite Ev2. exact Hv2.
      * rewrite Ev2. exact Hw'.
      * exact Hbok.
      * intros Hr. specialize (HA3 Hr). rewrite skipn_length. lia.
      * unfold iq1. rewrite fill_length. exact Hiq.
      * rewrite app_length, skipn_length. lia.
      * exists (firstn (length (cur ++ t) + 1 - k) (cur ++ t)),
               ({| d_ch := firstn (2 * k - 1) (skipn (l + 1 - k) s);
                   d_mk := firstn k (skipn (l - k) iq1);
                   d_f := skipn (l' + 1 - k) H ++ B1 ++ firstn (k + (l' - length H) - length B2) A;
                   d_x := x0 |} :: D), vis'.
        split; [|split].
        -- replace fuel with (l' + S (fuel - l' - 1))%nat by lia.
           rewrite (scan_run k X Hk s (Z.of_nat k) l'); [|lia|exact Hv|rewrite Hsk; exact Hpre].
           rewrite Hsk. rewrite <- El. fold iq1.
           rewrite (scan_detect2 s (fuel - l' - 1) l (stt k v t) iq1 (cur ++ t) sp ch mk d (vis + Z.of_nat l') Has
                      ltac:(lia) ltac:(lia) Hu Hx ltac:(rewrite app_length; lia)
                      ltac:(unfold iq1; rewrite fill_length; exact Hiq)).
           replace (l + k + 1)%nat with (length (P ++ T2)) by (rewrite app_length; lia).
           rewrite E. cbn [map d_x d_ch d_mk rev length]. rewrite <- !app_assoc. cbn [app].
           rewrite Nat2Z.inj_succ. replace (d + 1 + Z.of_nat (length D)) with (d + Z.succ (Z.of_nat (length D))) by lia.
           reflexivity.
        -- cbn [length]. lia.
        -- cbn [length]. intros HlD. assert (HlD' : length D = length r) by lia.
           destruct (Hfull HlD') as [HG HJ]. split.
           ++ constructor; [|exact HG].
              apply (good_block s P v H B1 B2 A (stl r) l' l iq x0 Es' Has Hv HwS Hek HkH HA H1 H2 Hiq El).
           ++ unfold joinD in *. cbn [map concat d_f d_x]. rewrite <- (app_assoc _ x0). rewrite HJ.
              rewrite Ecut, Hcur2.
              replace (k + (l' - length H) - length B2)%nat with (q - 1)%nat by lia.
              rewrite <- !app_assoc. cbn [app]. f_equal.
              rewrite (app_assoc (firstn (l' + 1 - k) H)), firstn_skipn. do 2 f_equal.
              transitivity ((firstn (q - 1) A ++ skipn (q - 1) A) ++ wtl r); [|rewrite firstn_skipn; reflexivity].
              rewrite (skipn_nth A (q - 1)) by lia. replace (S (q - 1)) with q by lia.
              rewrite <- app_assoc. reflexivity.
Qed.

Lemma all_fragments_good : forall s D vis fr n, Forall (good s) D ->
  all_fragments (map d_ch D) (map d_mk D) acc (Z.of_nat k) true s vis = Ok (fr, n) ->
  Forall2 (fun t fs => In (d_f t) fs) D fr.
Proof.
  intros s. induction D as [|t D IH]; intros vis fr n HG E; cbn [map all_fragments] in E.
  - injection E as <- <-. constructor.
  - inversion HG as [|? ? Ht HD]; subst.
    destruct (fragments_of (d_ch t) acc (Z.of_nat k) true s (rev (d_mk t)) 0 [] vis) as [[fs n1]|e|] eqn:E1;
      cbn [bind] in E; try discriminate.
    cbn [fst snd] in E.
    destruct (all_fragments (map d_ch D) (map d_mk D) acc (Z.of_nat k) true s n1) as [[fr' n2]|e|] eqn:E2;
      cbn [bind] in E; try discriminate.
    cbn [fst snd] in E. injection E as <- <-.
    constructor; [apply (Ht _ _ _ E1)|apply (IH _ _ _ HD E2)].
Qed.

Lemma acgt_stl : forall r, bok k r -> acgt (wtl r) -> acgt (stl r).
Proof.
  induction r as [|[[B1 B2] A] r IH]; intros Hb Ha; [constructor|].
  cbn [bok wtl stl] in *. destruct Hb as (Hek & _ & _ & Hb). unfold acgt in *.
  apply Forall_app in Ha. destruct Ha as [_ Ha]. apply Forall_app in Ha. destruct Ha as [HaA Ha].
  apply Forall_app. split; [apply (ekind_B2 B1 B2 Hek)|]. apply Forall_app. split; [exact HaA|].
  apply IH; assumption.
Qed.

Theorem multi_gen : forall v0 H r vt heap, 0 <= v0 < pow4 k -> is_walk acc v0 (H ++ wtl r) -> bok k r ->
  (r <> [] -> (k <= length H)%nat) -> check_of (H ++ wtl r) vt ->
  exists cands st, repair_dna (H ++ stl r) acc v0 (Z.of_nat k) vt true heap = Ok (cands, st)
     /\ 0 <= detected st <= Z.of_nat (length r)
     /\ (detected st = Z.of_nat (length r) -> In (H ++ wtl r) cands).
Proof.
  intros v0 H r vt heap Hv0r Hwalk Hbok HkH Hchk.
  assert (Hrange : in_range acc v0) by (unfold in_range; rewrite acc_nrows; exact Hv0r).
  destruct r as [|b r'] eqn:Er.
  - (* no edit: the strand is the walk *)
    cbn [wtl stl length] in *.
    destruct (repair_clean (H ++ []) acc v0 (Z.of_nat k) vt true heap (acc_shaped k X) Hrange Hwalk)
      as (flag & count & visited & E).
    rewrite E. eexists. eexists. split; [reflexivity|]. cbn [detected]. split; [lia|]. intros _.
    rewrite (check_matches_okb vt (H ++ []) true (check_of_matches _ _ Hchk)). left. reflexivity.
  - rewrite <- Er in *. assert (Hne : r <> []) by (rewrite Er; discriminate). clear Er b r'.
    specialize (HkH Hne).
    assert (Hv0 : vin k X v0).
    { apply (is_walk_start_len k X Hk v0 (H ++ wtl r) Hv0r); [rewrite app_length; lia|exact Hwalk]. }
    pose proof (proj1 (is_walk_okw k X Hk _ _ Hv0) Hwalk) as Hw.
    set (s := H ++ stl r).
    assert (Has : acgt s).
    { pose proof (okw_acgt k X _ _ Hw) as Ha. unfold s, acgt in *. apply Forall_app in Ha. destruct Ha as [Ha1 Ha2].
      apply Forall_app. split; [exact Ha1|]. apply acgt_stl; assumption. }
    assert (Hks : (k <= length s)%nat) by (unfold s; rewrite app_length; lia).
    assert (Hiq : Forall (vok acc) (repeat (-1) (length s))).
    { apply Forall_forall. intros x Hx. apply repeat_spec in Hx. subst x. unfold vok. pose proof (acc_pos k X). lia. }
    destruct (scan_blocks r H [] v0 (repeat (-1) (length s)) [] [] [] [] 0 0 (S (length s)) s eq_refl Has Hv0 Hw Hbok
                ltac:(intros _; exact HkH) (repeat_length _ _) ltac:(fold s; lia)) as (x0 & D & vis' & E & HD & Hfull).
    cbn [length app] in E. change (Z.of_nat 0) with 0 in E.
    assert (H0 : scan_ok acc k (Z.min 0 (Z.of_nat (length s)))
                   {| sc_splits := []; sc_chunks := []; sc_markers := []; sc_detected := 0; sc_visited := 0 |}).
    { unfold scan_ok. cbn [sc_splits sc_chunks sc_markers sc_detected sc_visited length].
      refine (conj _ (conj _ (conj _ (conj _ _)))); [constructor|constructor|lia|reflexivity|lia]. }
    destruct (scan_total acc k s (acc_shaped k X) Hk (acc_nrows k X) Has Hks (S (length s)) 0 v0 (repeat (-1) (length s)) [] _
                ltac:(lia) ltac:(lia) Hrange (repeat_length _ _) Hiq ltac:(constructor) H0) as (st & E2 & Hst).
    rewrite E in E2. injection E2 as <-.
    destruct Hst as (S1 & S2 & _).
    cbn [sc_splits sc_chunks sc_markers] in S1, S2. rewrite app_nil_r in S1.
    unfold repair_dna. cbv zeta. fold s. rewrite E.
    cbn [bind sc_splits sc_chunks sc_markers sc_detected sc_visited].
    destruct (all_fragments_total acc (acc_shaped k X) (acc_pos k X) (Z.of_nat k) true s _ _ vis' S2)
      as (fr & n & Efr & _ & Hfr).
    rewrite Efr. cbn [bind fst snd]. rewrite app_nil_r, rev_involutive.
    destruct (_ || _).
    + (* fallback path: reports 0 detections *)
      assert (Hlr : 0 < Z.of_nat (length r)) by (destruct r; [exfalso; apply Hne; reflexivity|cbn [length]; lia]).
      destruct vt as [chk|].
      * rewrite (check_matches_total (Some chk) s Has). cbn [bind].
        destruct (check_okb (Some chk) s); eexists; eexists; (split; [reflexivity|]); cbn [detected];
          (split; [lia|intros Hd; lia]).
      * eexists; eexists; (split; [reflexivity|]); cbn [detected]; (split; [lia|intros Hd; lia]).
    + destruct (filter_checked_total vt (recombine (x0 :: map d_x D) fr)) as (res & E3).
      { apply recombine_acgt; [|exact Hfr]. apply Forall_rev in S1. rewrite rev_app_distr, rev_involutive in S1. exact S1. }
      rewrite E3. cbn [bind]. eexists. eexists. split; [reflexivity|]. cbn [detected]. split; [lia|].
      intros Hd. assert (HlD : length D = length r) by lia.
      destruct (Hfull HlD) as [HG HJ]. cbn [app] in HJ, Efr.
      apply (proj2 (sort_dedup_sorted (fst res))).
      apply (filter_checked_in vt _ res _ E3); [|apply check_of_matches; exact Hchk].
      rewrite <- HJ. apply recombine_in. apply (all_fragments_good s D vis' fr n HG Efr).
Qed.

End Multi.

(* ========================================================================================== *)
(* Part D: the target statement                                                                *)
(* ========================================================================================== *)
Theorem repair_multi : forall k acc v0 w es vt heap, generated k acc -> 0 <= v0 < pow4 k -> is_walk acc v0 w ->
  edits_ok k w k es -> check_of w vt -> (8 * Z.of_nat k) ^ Z.of_nat (length es) <= heap ->
  exists cands st, repair_dna (apply_edits w es) acc v0 (Z.of_nat k) vt true heap = Ok (cands, st)
     /\ 0 <= detected st <= Z.of_nat (length es)
     /\ (detected st = Z.of_nat (length es) -> In w cands).
Proof.
  intros k acc v0 w es vt heap (Hk & Hleg & X & ->) Hv Hwalk Hok Hchk _.
  destruct (edits_blocks k es w k Hok) as (H & r & E1 & E2 & E3 & E4 & E5).
  assert (Ew : (firstn k w ++ H) ++ wtl r = w).
  { rewrite <- app_assoc, <- E1. apply firstn_skipn. }
  pose proof (multi_gen k X Hk v0 (firstn k w ++ H) r vt heap Hv) as M.
  rewrite Ew, E3 in M. rewrite E2, app_assoc. apply M; try assumption.
  intros Hr. assert (He : es <> []) by (intros ->; destruct r; [apply Hr; reflexivity|discriminate]).
  specialize (E5 He). rewrite app_length, firstn_length_le by lia. lia.
Qed.

Print Assumptions repair_multi.
