(* Repair8MultiProofs.v -- C08, several edits: on a generated graph, for every walk w and every set of substitutions,
   insertions and deletions whose positions lie in [k, n - 2k) and are pairwise at least 3k+2 apart, repairing the
   corrupted strand (indel handling on, unrestrictive heap limit, check absent or the check of w) yields a candidate
   list that contains w whenever the number of detected errors equals the number of edits. *)
From Coq Require Import Lia ZifyBool Sorting.Sorted.
From DSW Require Import Py Bignum Convert Kmer Graph Coder Repair Filter Spec GraphSpec CoderSpec FilterSpec RepairSpec.
From DSW.Proofs Require Import KmerProofs GraphProofs ConvertProofs ShuffleProofs VTProofs WalkProofs TerminationProofs
     GeneratedProofs RepairProofs Repair8Proofs.
Ltac Zify.zify_post_hook ::= Z.to_euclidean_division_equations.

(* an edit of the ORIGINAL walk w at position p (0-based, in w) *)
Inductive edit := ESub (p : nat) (c : Z) | EIns (p : nat) (c : Z) | EDel (p : nat).
Definition epos (e : edit) : nat := match e with ESub p _ => p | EIns p _ => p | EDel p => p end.
Definition apply_edit (w : list Z) (e : edit) : list Z :=
  match e with ESub p c => edit_sub w p c | EIns p c => edit_ins w p c | EDel p => edit_del w p end.
(* edits are listed by increasing position and applied from the last to the first, so that every position refers to w *)
Definition apply_edits (w : list Z) (es : list edit) : list Z := fold_left apply_edit (rev es) w.

Definition edit_wf (w : list Z) (e : edit) : Prop :=
  match e with
  | ESub p c => is_acgt c = true /\ c <> nth p w 0
  | EIns p c => is_acgt c = true
  | EDel p => True
  end.
(* positions in [k, n - 2k), strictly increasing with gaps of at least 3k + 2 *)
Fixpoint edits_ok (k : nat) (w : list Z) (lo : nat) (es : list edit) : Prop :=
  match es with
  | [] => True
  | e :: rest => (lo <= epos e)%nat /\ (epos e + 2 * k < length w)%nat /\ edit_wf w e
                 /\ edits_ok k w (epos e + 3 * k + 2) rest
  end.

(* ========================================================================================== *)
(* Part A: block form of a multi-edit                                                          *)
(*   w = H ++ B1_1 ++ A_1 ++ B1_2 ++ A_2 ++ ...      s = H ++ B2_1 ++ A_1 ++ B2_2 ++ A_2 ++ ...  *)
(* ========================================================================================== *)
Inductive ekind : list Z -> list Z -> Prop :=
| EK_sub : forall a c, is_acgt c = true -> c <> a -> ekind [a] [c]
| EK_ins : forall c, is_acgt c = true -> ekind [] [c]
| EK_del : forall a, ekind [a] [].

Definition blk := (list Z * list Z * list Z)%type.      (* (B1, B2, A): the edit and the unedited stretch after it *)

Fixpoint wtl (r : list blk) : list Z :=
  match r with [] => [] | (B1, _, A) :: r' => B1 ++ A ++ wtl r' end.
Fixpoint stl (r : list blk) : list Z :=
  match r with [] => [] | (_, B2, A) :: r' => B2 ++ A ++ stl r' end.
Fixpoint bok (k : nat) (r : list blk) : Prop :=
  match r with
  | [] => True
  | (B1, B2, A) :: r' => ekind B1 B2 /\ (2 * k <= length A)%nat /\ (r' <> [] -> (3 * k + 1 <= length A)%nat) /\ bok k r'
  end.

Lemma ekind_B2 : forall B1 B2, ekind B1 B2 -> acgt B2 /\ (length B2 <= 1)%nat /\ (length B1 <= 1)%nat.
Proof.
  intros B1 B2 H. destruct H as [a c Hc _|c Hc|a]; cbn [length]; (split; [|lia]).
  - constructor; [exact Hc|constructor].
  - constructor; [exact Hc|constructor].
  - constructor.
Qed.

Lemma m_skipn_pre : forall {T} (P Q : list T), skipn (length P) (P ++ Q) = Q.
Proof. intros. rewrite skipn_app, Nat.sub_diag, skipn_all. reflexivity. Qed.

Lemma m_skipn_pre_add : forall {T} (P Q : list T) j, skipn (length P + j) (P ++ Q) = skipn j Q.
Proof. intros. rewrite <- r8_skipn_skipn. rewrite m_skipn_pre. reflexivity. Qed.

Lemma m_firstn_app_le : forall {T} (a b : list T) n, (n <= length a)%nat -> firstn n (a ++ b) = firstn n a.
Proof.
  intros T a b n H. rewrite firstn_app. replace (n - length a)%nat with 0%nat by lia. cbn [firstn]. apply app_nil_r.
Qed.

Lemma m_firstn_skipn_app_le : forall {T} (a b : list T) j m, (j + m <= length a)%nat ->
  firstn m (skipn j (a ++ b)) = firstn m (skipn j a).
Proof.
  intros T a b j m H. rewrite skipn_app. apply m_firstn_app_le. rewrite skipn_length. lia.
Qed.

Lemma m_nth_pre_add : forall (P Q : list Z) j d, nth (length P + j) (P ++ Q) d = nth j Q d.
Proof. intros. rewrite app_nth2 by lia. f_equal. lia. Qed.

Lemma pre_firstn : forall (w Z0 : list Z) n i, (i <= n)%nat -> (i <= length w)%nat ->
  firstn i (firstn n w ++ Z0) = firstn i w.
Proof.
  intros w Z0 n i H1 H2. rewrite m_firstn_app_le by (rewrite firstn_length; lia).
  rewrite firstn_firstn. f_equal. lia.
Qed.

Lemma pre_skipn : forall (w Z0 : list Z) n i, (i <= n)%nat -> (i <= length w)%nat ->
  skipn i (firstn n w ++ Z0) = skipn i (firstn n w) ++ Z0.
Proof.
  intros w Z0 n i H1 H2. rewrite skipn_app. rewrite firstn_length.
  replace (i - Nat.min n (length w))%nat with 0%nat by lia. reflexivity.
Qed.

Lemma apply_edits_cons : forall w e es, apply_edits w (e :: es) = apply_edit (apply_edits w es) e.
Proof. intros. unfold apply_edits. cbn [rev]. rewrite fold_left_app. reflexivity. Qed.

Lemma edits_blocks : forall k es w lo, edits_ok k w lo es ->
  exists H r, skipn lo w = H ++ wtl r /\ apply_edits w es = firstn lo w ++ H ++ stl r /\
              length r = length es /\ bok k r /\ (es <> [] -> (lo < length w)%nat).
Proof.
  intros k. induction es as [|e es IH]; intros w lo Hok.
  - exists (skipn lo w), []. cbn [wtl stl length bok apply_edits rev fold_left]. rewrite app_nil_r, firstn_skipn.
    repeat split. intros Hn. exfalso. apply Hn. reflexivity.
  - cbn [edits_ok] in Hok. destruct Hok as (Hlo & Hp & Hwf & Hrest).
    destruct (IH w _ Hrest) as (H' & r' & E1 & E2 & E3 & E4 & E5).
    set (p := epos e) in *. set (lo' := (p + 3 * k + 2)%nat) in *.
    assert (F1 : firstn p w = firstn lo w ++ firstn (p - lo) (skipn lo w)).
    { replace p with (lo + (p - lo))%nat at 1 by lia. apply r8_firstn_add. }
    assert (F2 : skipn lo w = firstn (p - lo) (skipn lo w) ++ skipn p w).
    { rewrite <- (firstn_skipn (p - lo) (skipn lo w)) at 1. rewrite r8_skipn_skipn. do 2 f_equal. lia. }
    assert (F3 : forall i, (i <= lo')%nat -> (i <= length w)%nat ->
                   skipn i w = skipn i (firstn lo' w) ++ H' ++ wtl r').
    { intros i Hi1 Hi2. rewrite <- (firstn_skipn lo' w) at 1. rewrite pre_skipn by assumption. rewrite E1. reflexivity. }
    assert (FA : forall i, (i <= S p)%nat ->
                   (2 * k <= length (skipn i (firstn lo' w) ++ H'))%nat /\
                   (r' <> [] -> (3 * k + 1 <= length (skipn i (firstn lo' w) ++ H'))%nat)).
    { intros i Hi. rewrite app_length, skipn_length, firstn_length. split; [lia|].
      intros Hr. assert (He : es <> []) by (intros ->; destruct r'; [apply Hr; reflexivity|discriminate]).
      specialize (E5 He). lia. }
    rewrite apply_edits_cons, E2. cbn [length]. destruct e as [p0 c|p0 c|p0]; cbn [epos] in p; subst p0.
    + destruct Hwf as [Hc Hne].
      exists (firstn (p - lo) (skipn lo w)), (([nth p w 0], [c], skipn (S p) (firstn lo' w) ++ H') :: r').
      cbn [wtl stl length bok apply_edit]. split; [|split; [|split; [|split]]].
      * rewrite F2 at 1. f_equal. rewrite (skipn_nth w p) by lia. cbn [app]. f_equal.
        rewrite (F3 (S p)) by lia. rewrite <- !app_assoc. reflexivity.
      * unfold edit_sub. rewrite pre_firstn, pre_skipn by lia. rewrite F1. rewrite <- !app_assoc. reflexivity.
      * lia.
      * destruct (FA (S p) ltac:(lia)) as [FA1 FA2].
        split; [constructor; [exact Hc|exact Hne]|]. split; [exact FA1|]. split; [exact FA2|exact E4].
      * intros _. lia.
    + exists (firstn (p - lo) (skipn lo w)), (([], [c], skipn p (firstn lo' w) ++ H') :: r').
      cbn [wtl stl length bok apply_edit]. split; [|split; [|split; [|split]]].
      * rewrite F2 at 1. f_equal. cbn [app]. rewrite (F3 p) by lia. rewrite <- !app_assoc. reflexivity.
      * unfold edit_ins. rewrite pre_firstn, pre_skipn by lia. rewrite F1. rewrite <- !app_assoc. reflexivity.
      * lia.
      * destruct (FA p ltac:(lia)) as [FA1 FA2].
        split; [constructor; exact Hwf|]. split; [exact FA1|]. split; [exact FA2|exact E4].
      * intros _. lia.
    + exists (firstn (p - lo) (skipn lo w)), (([nth p w 0], [], skipn (S p) (firstn lo' w) ++ H') :: r').
      cbn [wtl stl length bok apply_edit]. split; [|split; [|split; [|split]]].
      * rewrite F2 at 1. f_equal. rewrite (skipn_nth w p) by lia. cbn [app]. f_equal.
        rewrite (F3 (S p)) by lia. rewrite <- !app_assoc. reflexivity.
      * unfold edit_del. rewrite pre_firstn, pre_skipn by lia. rewrite F1. rewrite <- !app_assoc. reflexivity.
      * lia.
      * destruct (FA (S p) ltac:(lia)) as [FA1 FA2].
        split; [constructor|]. split; [exact FA1|]. split; [exact FA2|exact E4].
      * intros _. lia.
Qed.

(* ========================================================================================== *)
(* Part B: detections, recombination and the candidate count                                   *)
(* ========================================================================================== *)
Record det := { d_ch : list Z; d_mk : list Z; d_f : list Z; d_x : list Z }.

Definition joinD (x0 : list Z) (D : list det) : list Z := x0 ++ concat (map (fun t => d_f t ++ d_x t) D).

Lemma recombine_in : forall D x0 fr, Forall2 (fun t fs => In (d_f t) fs) D fr ->
  In (joinD x0 D) (recombine (x0 :: map d_x D) fr).
Proof.
  induction D as [|t D IH]; intros x0 fr HF; inversion HF as [|? fs ? fss Hin HF']; subst.
  - cbn [map recombine]. left. unfold joinD. cbn [map concat]. symmetry. apply app_nil_r.
  - cbn [map recombine]. apply in_flat_map. exists (joinD (d_x t) D). split; [apply IH; exact HF'|].
    apply in_map_iff. exists (d_f t). split; [|exact Hin].
    unfold joinD. cbn [map concat]. rewrite <- !app_assoc. reflexivity.
Qed.

Lemma count_bound : forall (fr : list (list (list Z))) B a, 0 < a -> 1 <= B ->
  Forall (fun fs => 1 <= Z.of_nat (length fs) <= B) fr ->
  a <= fold_left (fun a f => a * Z.of_nat (length f)) fr a <= a * B ^ Z.of_nat (length fr).
Proof.
  induction fr as [|fs fr IH]; intros B a Ha HB HF; cbn [fold_left length].
  - change (Z.of_nat 0) with 0. rewrite Z.pow_0_r. lia.
  - inversion HF as [|? ? H1 H2]; subst. rewrite Nat2Z.inj_succ, Z.pow_succ_r by lia.
    assert (Ha' : 0 < a * Z.of_nat (length fs)) by nia.
    specialize (IH B _ Ha' HB H2).
    assert (HP : 0 <= B ^ Z.of_nat (length fr)) by (apply Z.pow_nonneg; lia).
    split; [nia|].
    eapply Z.le_trans; [apply IH|].
    rewrite <- Z.mul_assoc. apply Z.mul_le_mono_nonneg_l; [lia|].
    apply Z.mul_le_mono_nonneg_r; lia.
Qed.

(* TARGET STATEMENT (to be proved, do not change the statement):

Theorem repair_multi : forall k acc v0 w es vt heap, generated k acc -> 0 <= v0 < pow4 k -> is_walk acc v0 w ->
  edits_ok k w k es -> check_of w vt -> (8 * Z.of_nat k) ^ Z.of_nat (length es) <= heap ->
  exists cands st, repair_dna (apply_edits w es) acc v0 (Z.of_nat k) vt true heap = Ok (cands, st)
     /\ 0 <= detected st <= Z.of_nat (length es)
     /\ (detected st = Z.of_nat (length es) -> In w cands).
*)
