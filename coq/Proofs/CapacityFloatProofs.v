(* CapacityFloatProofs.v -- C17: every eigenvalue estimate of the power iteration is at most 4 (so the reported capacity
   never exceeds 2 bits per nucleotide), on the binary64 model, using the standard library's specification of primitive
   floats (Floats.FloatAxioms) and Flocq's IEEE-754 formalisation (monotone rounding). *)
From Coq Require Import ZArith List Bool Lia Lra Reals Floats.
(* Flocq.IEEE754.PrimFloat is stated over BinarySingleNaN's binary_float; Flocq.IEEE754.Binary is deliberately not
   imported (it would shadow B2R / is_finite / Bplus_correct ... with the payload-NaN versions). *)
From Flocq Require Import Core BinarySingleNaN PrimFloat.
From DSW Require Capacity.
Import ListNotations.

(* a start vector as the code builds it: entries in [0, 1] *)
Definition unit_float (f : PrimFloat.float) : Prop := (PrimFloat.leb 0 f = true) /\ (PrimFloat.leb f 1 = true).

(* Proof plan: every float is mapped to Flocq's binary_float by Prim2B; [inR lo hi f] says that f is finite and its real
   value lies in [lo, hi].  unit_float f <-> inR 0 1 f.  Each arithmetic operation of the model (+, /, * 0, abs, <?) is
   characterised on inR with Flocq's *_correct theorems: the exact real result lies between two representable bounds, so
   its rounding does too (round_ge_generic / round_le_generic), which also rules out overflow (bound 8 < 2^1024).  The
   list-level statements are then plain inductions. *)

Local Existing Instance Flocq.IEEE754.PrimFloat.Hprec.
Local Existing Instance Flocq.IEEE754.PrimFloat.Hmax.
Local Instance Hvexp : Valid_exp (fexp prec emax) := FLT_exp_valid (SpecFloat.emin prec emax) prec.

Notation fx := (fexp prec emax).
Notation rnd := (round radix2 (fexp prec emax) (round_mode mode_NE)).

Definition FIN (f : PrimFloat.float) : Prop := is_finite (Prim2B f) = true.
Definition RV (f : PrimFloat.float) : R := B2R (Prim2B f).
Definition inR (lo hi : R) (f : PrimFloat.float) : Prop := FIN f /\ (lo <= RV f <= hi)%R.

Lemma gf_IZR : forall n : Z, (Z.abs n < 2 ^ 53)%Z -> generic_format radix2 fx (IZR n).
Proof.
  intros n Hn. apply (generic_format_FLT radix2 (SpecFloat.emin prec emax) prec).
  apply (FLT_spec radix2 _ _ _ (Float radix2 n 0)).
  - unfold F2R. simpl. ring.
  - exact Hn.
  - vm_compute. discriminate.
Qed.

Lemma eight_lt_emax : (8 < bpow radix2 emax)%R.
Proof.
  change 8%R with (bpow radix2 3). apply bpow_lt. reflexivity.
Qed.

Lemma RV_const : forall f m e, Prim2SF f = S754_finite false m e -> RV f = F2R (Float radix2 (Zpos m) e).
Proof.
  intros f m e H. unfold RV, Prim2B. rewrite B2R_SF2B. rewrite H. reflexivity.
Qed.
Lemma FIN_const : forall f m e, Prim2SF f = S754_finite false m e -> FIN f.
Proof.
  intros f m e H. unfold FIN, Prim2B. rewrite is_finite_SF2B. rewrite H. reflexivity.
Qed.

Lemma RV_0 : RV 0%float = 0%R.
Proof. unfold RV, Prim2B. rewrite B2R_SF2B. reflexivity. Qed.
Lemma FIN_0 : FIN 0%float.
Proof. unfold FIN, Prim2B. rewrite is_finite_SF2B. reflexivity. Qed.
Lemma RV_1 : RV 1%float = 1%R.
Proof. rewrite (RV_const 1%float _ _ eq_refl). unfold F2R. simpl. lra. Qed.
Lemma FIN_1 : FIN 1%float.
Proof. exact (FIN_const 1%float _ _ eq_refl). Qed.
Lemma RV_2 : RV 2%float = 2%R.
Proof. rewrite (RV_const 2%float _ _ eq_refl). unfold F2R. simpl. lra. Qed.
Lemma FIN_2 : FIN 2%float.
Proof. exact (FIN_const 2%float _ _ eq_refl). Qed.
Lemma RV_4 : RV 4%float = 4%R.
Proof. rewrite (RV_const 4%float _ _ eq_refl). unfold F2R. simpl. lra. Qed.
Lemma FIN_4 : FIN 4%float.
Proof. exact (FIN_const 4%float _ _ eq_refl). Qed.

(* comparisons *)
Lemma Rle_bool_true_inv : forall x y, Rle_bool x y = true -> (x <= y)%R.
Proof. intros x y. case Rle_bool_spec; [tauto|discriminate]. Qed.
Lemma Rlt_bool_true_inv : forall x y, Rlt_bool x y = true -> (x < y)%R.
Proof. intros x y. case Rlt_bool_spec; [tauto|discriminate]. Qed.
Lemma Rlt_bool_false_inv : forall x y, Rlt_bool x y = false -> (y <= x)%R.
Proof. intros x y. case Rlt_bool_spec; [discriminate|tauto]. Qed.

Lemma leb_between : forall lo f hi, FIN lo -> FIN hi ->
  PrimFloat.leb lo f = true -> PrimFloat.leb f hi = true -> inR (RV lo) (RV hi) f.
Proof.
  intros lo f hi Hlo Hhi H1 H2. unfold inR, FIN, RV in *.
  rewrite leb_equiv in H1, H2.
  assert (Hf : is_finite (Prim2B f) = true).
  { unfold Bleb in H1, H2.
    destruct (Prim2B f) as [s|s| |s m e Hm]; try reflexivity.
    - destruct s.
      + destruct (Prim2B lo) as [s'|s'| |s' m' e' Hm']; try discriminate; destruct s'; discriminate.
      + destruct (Prim2B hi) as [s'|s'| |s' m' e' Hm']; try discriminate; destruct s'; discriminate.
    - destruct (Prim2B lo) as [s'|s'| |s' m' e' Hm']; try discriminate; destruct s'; discriminate. }
  split; [exact Hf|].
  rewrite Bleb_correct in H1, H2 by assumption.
  split; apply Rle_bool_true_inv; assumption.
Qed.

Lemma leb_of_R : forall a b, FIN a -> FIN b -> (RV a <= RV b)%R -> PrimFloat.leb a b = true.
Proof.
  intros a b Ha Hb H. rewrite leb_equiv, Bleb_correct by assumption. apply Rle_bool_true. exact H.
Qed.

Lemma ltb_R : forall a b, FIN a -> FIN b -> PrimFloat.ltb a b = Rlt_bool (RV a) (RV b).
Proof.
  intros a b Ha Hb. rewrite ltb_equiv, Bltb_correct by assumption. reflexivity.
Qed.
Lemma leb_R : forall a b, FIN a -> FIN b -> PrimFloat.leb a b = Rle_bool (RV a) (RV b).
Proof.
  intros a b Ha Hb. rewrite leb_equiv, Bleb_correct by assumption. reflexivity.
Qed.

Lemma unit_float_inR : forall f, unit_float f <-> inR 0 1 f.
Proof.
  intros f. split.
  - intros [H1 H2]. rewrite <- RV_0, <- RV_1. apply leb_between; auto using FIN_0, FIN_1.
  - intros [Hf [H1 H2]]. split; apply leb_of_R; auto using FIN_0, FIN_1; rewrite ?RV_0, ?RV_1; assumption.
Qed.

Lemma inR_weaken : forall lo hi lo' hi' f, inR lo hi f -> (lo' <= lo)%R -> (hi <= hi')%R -> inR lo' hi' f.
Proof. intros lo hi lo' hi' f [Hf [H1 H2]] Hl Hh. split; [exact Hf|lra]. Qed.

(* rounding stays within representable bounds *)
Lemma rnd_between : forall lo hi r, generic_format radix2 fx lo -> generic_format radix2 fx hi ->
  (lo <= r <= hi)%R -> (lo <= rnd r <= hi)%R.
Proof.
  intros lo hi r Glo Ghi [H1 H2]. split.
  - apply round_ge_generic; auto with typeclass_instances.
  - apply round_le_generic; auto with typeclass_instances.
Qed.

Lemma no_overflow : forall r, (0 <= r <= 8)%R -> Rlt_bool (Rabs r) (bpow radix2 emax) = true.
Proof.
  intros r [H1 H2]. apply Rlt_bool_true. rewrite Rabs_pos_eq by exact H1.
  apply Rle_lt_trans with (1 := H2). exact eight_lt_emax.
Qed.

Lemma gf_0 : generic_format radix2 fx 0%R.
Proof. apply generic_format_0. Qed.

(* addition *)
Lemma add_inR : forall ha hb h a b, inR 0 ha a -> inR 0 hb b -> (ha + hb <= h)%R -> (h <= 8)%R ->
  generic_format radix2 fx h -> inR 0 h (a + b)%float.
Proof.
  intros ha hb h a b [Fa [A1 A2]] [Fb [B1 B2]] Hh H8 Gh. unfold inR, FIN, RV in *.
  rewrite add_equiv.
  generalize (Bplus_correct prec emax _ _ mode_NE (Prim2B a) (Prim2B b) Fa Fb).
  assert (Hr : (0 <= rnd (B2R (Prim2B a) + B2R (Prim2B b)) <= h)%R).
  { apply rnd_between; [apply gf_0|exact Gh|lra]. }
  rewrite no_overflow by lra.
  intros [E [F _]]. split; [exact F|]. rewrite E. exact Hr.
Qed.

(* division *)
Lemma div_inR : forall a lam, FIN a -> FIN lam -> (0 <= RV a <= RV lam)%R -> (0 < RV lam)%R ->
  inR 0 1 (a / lam)%float.
Proof.
  intros a lam Fa Fl [A1 A2] Hl. unfold inR, FIN, RV in *.
  rewrite div_equiv.
  assert (Hnz : B2R (Prim2B lam) <> 0%R) by lra.
  generalize (Bdiv_correct prec emax _ _ mode_NE (Prim2B a) (Prim2B lam) Hnz).
  assert (Hr : (0 <= rnd (B2R (Prim2B a) / B2R (Prim2B lam)) <= 1)%R).
  { apply rnd_between; [apply gf_0|apply (gf_IZR 1); reflexivity|].
    split.
    - apply Rmult_le_pos; [lra|]. apply Rlt_le, Rinv_0_lt_compat; lra.
    - apply (Rmult_le_reg_r (B2R (Prim2B lam))); [lra|]. unfold Rdiv. rewrite Rmult_assoc, Rinv_l by lra. lra. }
  rewrite no_overflow by lra.
  intros [E [F _]]. split; [rewrite F; exact Fa|]. rewrite E. exact Hr.
Qed.

(* halving *)
Lemma half_inR : forall a, inR 0 8 a -> inR 0 4 (a / 2)%float.
Proof.
  intros a [Fa [A1 A2]]. unfold inR, FIN, RV in *.
  rewrite div_equiv.
  assert (E2 : B2R (Prim2B 2%float) = 2%R) by exact RV_2.
  assert (Hnz : B2R (Prim2B 2%float) <> 0%R) by lra.
  generalize (Bdiv_correct prec emax _ _ mode_NE (Prim2B a) (Prim2B 2%float) Hnz).
  assert (Hr : (0 <= rnd (B2R (Prim2B a) / B2R (Prim2B 2%float)) <= 4)%R).
  { apply rnd_between; [apply gf_0|apply (gf_IZR 4); reflexivity|]. rewrite E2. lra. }
  rewrite no_overflow by lra.
  intros [E [F _]]. split; [rewrite F; exact Fa|]. rewrite E. exact Hr.
Qed.

(* multiplication by zero *)
Lemma mul0_inR : forall a, FIN a -> inR 0 1 (a * 0)%float.
Proof.
  intros a Fa. unfold inR, FIN, RV in *.
  rewrite mul_equiv.
  generalize (Bmult_correct prec emax _ _ mode_NE (Prim2B a) (Prim2B 0%float)).
  assert (E0 : B2R (Prim2B 0%float) = 0%R) by exact RV_0.
  rewrite E0, Rmult_0_r, round_0 by auto with typeclass_instances.
  rewrite no_overflow by lra.
  intros [E [F _]]. split.
  - rewrite F, Fa. exact FIN_0.
  - rewrite E. lra.
Qed.

(* abs *)
Lemma abs_inR : forall a, inR 0 1 a -> inR 0 1 (abs a).
Proof.
  intros a [Fa [A1 A2]]. unfold inR, FIN, RV in *.
  rewrite abs_equiv, is_finite_Babs, B2R_Babs. split; [exact Fa|]. rewrite Rabs_pos_eq; lra.
Qed.

Lemma ltb_leb_between : forall lo f hi, FIN lo -> FIN hi ->
  PrimFloat.ltb lo f = true -> PrimFloat.leb f hi = true -> FIN f /\ (RV lo < RV f <= RV hi)%R.
Proof.
  intros lo f hi Hlo Hhi H1 H2. unfold FIN, RV in *.
  rewrite ltb_equiv in H1. rewrite leb_equiv in H2.
  assert (Hf : is_finite (Prim2B f) = true).
  { unfold Bleb in H2. unfold Bltb in H1.
    destruct (Prim2B f) as [s|s| |s m e Hm]; try reflexivity.
    - destruct s.
      + destruct (Prim2B lo) as [s'|s'| |s' m' e' Hm']; try discriminate; destruct s'; discriminate.
      + destruct (Prim2B hi) as [s'|s'| |s' m' e' Hm']; try discriminate; destruct s'; discriminate.
    - destruct (Prim2B lo) as [s'|s'| |s' m' e' Hm']; try discriminate; destruct s'; discriminate. }
  split; [exact Hf|].
  rewrite Bltb_correct in H1 by assumption. rewrite Bleb_correct in H2 by assumption.
  split; [apply Rlt_bool_true_inv|apply Rle_bool_true_inv]; assumption.
Qed.

Lemma inR_0 : forall hi, (0 <= hi)%R -> inR 0 hi 0%float.
Proof. intros hi H. split; [exact FIN_0|rewrite RV_0; lra]. Qed.

Lemma inR4_leb : forall f, inR 0 4 f -> PrimFloat.leb 0 f = true /\ PrimFloat.leb f 4 = true.
Proof.
  intros f [Hf [H1 H2]]. split; apply leb_of_R; auto using FIN_0, FIN_4; rewrite ?RV_0, ?RV_4; assumption.
Qed.

Lemma nth_inR : forall lo hi l n, Forall (inR lo hi) l -> inR lo hi 0%float -> inR lo hi (nth n l 0%float).
Proof.
  intros lo hi l. induction l as [|a l IH]; intros n Hl H0.
  - destruct n; exact H0.
  - inversion Hl; subst. destruct n; simpl; auto.
Qed.

Lemma Forall_unit_inR : forall x, Forall unit_float x -> Forall (inR 0 1) x.
Proof. intros x H. eapply Forall_impl; [|exact H]. intros a Ha. apply unit_float_inR. exact Ha. Qed.
Lemma Forall_inR_unit : forall x, Forall (inR 0 1) x -> Forall unit_float x.
Proof. intros x H. eapply Forall_impl; [|exact H]. intros a Ha. apply unit_float_inR. exact Ha. Qed.

(* row_sum *)
Lemma row_sum_gen : forall x, Forall (inR 0 1) x -> forall row k s,
  inR 0 (IZR k) s -> (0 <= k)%Z -> (k + Z.of_nat (length row) <= 4)%Z ->
  inR 0 4 (fold_left (fun s e => if (0 <=? e)%Z then (s + nth (Z.to_nat e) x 0)%float else s) row s).
Proof.
  intros x Hx row. induction row as [|e row IH]; intros k s Hs Hk Hlen.
  - simpl in *. apply (inR_weaken _ _ _ _ _ Hs); [lra|]. apply IZR_le. lia.
  - cbn [fold_left]. cbn [length] in Hlen. destruct (0 <=? e)%Z.
    + apply (IH (k + 1)%Z); [|lia|lia].
      apply (add_inR (IZR k) 1); [exact Hs| |rewrite plus_IZR; lra| |].
      * apply nth_inR; [exact Hx|apply inR_0; lra].
      * apply IZR_le. lia.
      * apply gf_IZR. lia.
    + apply (IH k); [exact Hs|lia|lia].
Qed.

Lemma row_sum_inR : forall x row, Forall (inR 0 1) x -> (length row <= 4)%nat -> inR 0 4 (Capacity.row_sum x row).
Proof.
  intros x row Hx Hlen. unfold Capacity.row_sum.
  apply (row_sum_gen x Hx row 0%Z); [apply inR_0; lra|lia|lia].
Qed.

Theorem row_sum_le_four : forall x row, Forall unit_float x -> (length row <= 4)%nat ->
  PrimFloat.leb 0 (Capacity.row_sum x row) = true /\ PrimFloat.leb (Capacity.row_sum x row) 4 = true.
Proof.
  intros x row Hx Hlen. apply inR4_leb. apply row_sum_inR; [apply Forall_unit_inR; exact Hx|exact Hlen].
Qed.

(* normalisation *)
Lemma normalise_inR : forall ev lam, FIN lam -> (0 < RV lam)%R ->
  Forall (fun a => FIN a /\ (0 <= RV a <= RV lam)%R) ev ->
  Forall (inR 0 1) (map (fun a => PrimFloat.div a lam) ev).
Proof.
  intros ev lam Fl Hl Hev. apply Forall_map. eapply Forall_impl; [|exact Hev].
  intros a [Fa Ha]. apply div_inR; assumption.
Qed.

Theorem normalise_unit : forall ev lam, Forall (fun a => PrimFloat.leb 0 a = true /\ PrimFloat.leb a lam = true) ev ->
  PrimFloat.ltb 0 lam = true -> PrimFloat.leb lam 4 = true ->
  Forall unit_float (map (fun a => PrimFloat.div a lam) ev).
Proof.
  intros ev lam Hev Hlt Hle.
  destruct (ltb_leb_between 0%float lam 4%float FIN_0 FIN_4 Hlt Hle) as [Fl [Hl1 Hl2]].
  rewrite RV_0 in Hl1.
  apply Forall_inR_unit. apply normalise_inR; [exact Fl|exact Hl1|].
  eapply Forall_impl; [|exact Hev]. intros a [H1 H2].
  destruct (leb_between 0%float a lam FIN_0 Fl H1 H2) as [Fa Ha]. rewrite RV_0 in Ha. split; assumption.
Qed.

(* maximum *)
Lemma fmax_inR : forall a b, inR 0 4 a -> inR 0 4 b ->
  inR 0 4 (Capacity.fmax a b) /\ (RV a <= RV (Capacity.fmax a b))%R /\ (RV b <= RV (Capacity.fmax a b))%R.
Proof.
  intros a b [Fa Ha] [Fb Hb]. unfold Capacity.fmax. rewrite ltb_R by assumption.
  case Rlt_bool_spec; intros H.
  - split; [split; assumption|lra].
  - split; [split; assumption|lra].
Qed.

Lemma fold_fmax_inR : forall t h, inR 0 4 h -> Forall (inR 0 4) t ->
  inR 0 4 (fold_left Capacity.fmax t h) /\ (RV h <= RV (fold_left Capacity.fmax t h))%R /\
  Forall (fun a => (RV a <= RV (fold_left Capacity.fmax t h))%R) t.
Proof.
  intros t. induction t as [|b t IH]; intros h Hh Ht.
  - simpl. split; [exact Hh|split; [lra|constructor]].
  - inversion Ht as [|b' t' Hb Ht']; subst. cbn [fold_left].
    destruct (fmax_inR h b Hh Hb) as [Hm [M1 M2]].
    destruct (IH (Capacity.fmax h b) Hm Ht') as [I1 [I2 I3]].
    split; [exact I1|]. split; [lra|]. constructor; [lra|exact I3].
Qed.

Lemma vec_max_inR : forall v, Forall (inR 0 4) v ->
  inR 0 4 (Capacity.vec_max v) /\ Forall (fun a => (RV a <= RV (Capacity.vec_max v))%R) v.
Proof.
  intros v Hv. destruct v as [|h t].
  - simpl. split; [apply inR_0; lra|constructor].
  - inversion Hv as [|h' t' Hh Ht]; subst. unfold Capacity.vec_max.
    destruct (fold_fmax_inR t h Hh Ht) as [I1 [I2 I3]].
    split; [exact I1|]. constructor; assumption.
Qed.

Lemma mat_vec_inR : forall acc x, Forall (fun r => (length r <= 4)%nat) acc -> Forall (inR 0 1) x ->
  Forall (inR 0 4) (Capacity.mat_vec acc x).
Proof.
  intros acc x Hacc Hx. unfold Capacity.mat_vec. apply Forall_map.
  eapply Forall_impl; [|exact Hacc]. intros r Hr. apply row_sum_inR; assumption.
Qed.

(* one iteration: the eigenvalue estimate is in [0,4] and the next vector is in [0,1] *)
Lemma step_inR : forall acc x, Forall (fun r => (length r <= 4)%nat) acc -> Forall (inR 0 1) x ->
  let ev := Capacity.mat_vec acc x in
  let lam := Capacity.vec_max ev in
  inR 0 4 lam /\
  Forall (inR 0 1) (if PrimFloat.ltb 0 lam then map (fun a => PrimFloat.div a lam) ev
                    else map (fun a => PrimFloat.mul a 0) ev).
Proof.
  intros acc x Hacc Hx ev lam.
  assert (Hev : Forall (inR 0 4) ev) by (apply mat_vec_inR; assumption).
  destruct (vec_max_inR ev Hev) as [Hlam Hub]. fold lam in Hlam, Hub.
  split; [exact Hlam|].
  destruct Hlam as [Fl Hl]. rewrite ltb_R by auto using FIN_0. rewrite RV_0.
  case Rlt_bool_spec; intros H.
  - apply normalise_inR; [exact Fl|exact H|].
    rewrite Forall_forall in *. intros a Ha. destruct (Hev a Ha) as [Fa Ha']. split; [exact Fa|].
    split; [lra|apply Hub; exact Ha].
  - apply Forall_map. eapply Forall_impl; [|exact Hev]. intros a [Fa _]. apply mul0_inR. exact Fa.
Qed.

(* median *)
Lemma finsert_Forall : forall (P : PrimFloat.float -> Prop) x l, P x -> Forall P l -> Forall P (Capacity.finsert x l).
Proof.
  intros P x l Hx. induction l as [|h t IH]; intros Hl.
  - simpl. constructor; [exact Hx|constructor].
  - inversion Hl; subst. cbn [Capacity.finsert]. destruct (PrimFloat.leb x h).
    + constructor; assumption.
    + constructor; auto.
Qed.

Lemma fsort_Forall : forall (P : PrimFloat.float -> Prop) l, Forall P l -> Forall P (Capacity.fsort l).
Proof.
  intros P l. unfold Capacity.fsort.
  assert (G : forall l acc, Forall P acc -> Forall P l -> Forall P (fold_left (fun acc x => Capacity.finsert x acc) l acc)).
  { clear l. intros l. induction l as [|a l IH]; intros acc Hacc Hl.
    - exact Hacc.
    - inversion Hl; subst. cbn [fold_left]. apply IH; [apply finsert_Forall; assumption|assumption]. }
  intros Hl. apply G; [constructor|exact Hl].
Qed.

Lemma fmedian_inR : forall l, Forall (inR 0 4) l -> inR 0 4 (Capacity.fmedian l).
Proof.
  intros l Hl. unfold Capacity.fmedian.
  assert (Hs : Forall (inR 0 4) (Capacity.fsort l)) by (apply fsort_Forall; exact Hl).
  assert (H0 : inR 0 4 0%float) by (apply inR_0; lra).
  destruct (Nat.even (length (Capacity.fsort l))).
  - apply half_inR. apply (add_inR 4 4); [apply nth_inR; assumption|apply nth_inR; assumption|lra|lra|].
    apply (gf_IZR 8). reflexivity.
  - apply nth_inR; assumption.
Qed.

(* the power iteration *)
Lemma power_loop_inR : forall acc tol maxit, Forall (fun r => (length r <= 4)%nat) acc ->
  forall fuel x last queue record res rec,
  Forall (inR 0 1) x -> Forall (inR 0 4) queue -> Forall (inR 0 4) record ->
  Capacity.power_loop fuel acc tol maxit x last queue record = Some (res, rec) ->
  Forall (inR 0 4) res /\ Forall (inR 0 4) rec.
Proof.
  intros acc tol maxit Hacc fuel. induction fuel as [|f IH]; intros x last queue record res rec Hx Hq Hr H.
  - discriminate.
  - cbn [Capacity.power_loop] in H.
    destruct (step_inR acc x Hacc Hx) as [Hlam Hnext]. cbv zeta in Hlam, Hnext.
    set (ev := Capacity.mat_vec acc x) in *. set (lam := Capacity.vec_max ev) in *.
    assert (Hr' : Forall (inR 0 4) (lam :: record)) by (constructor; assumption).
    destruct last as [l0|].
    + assert (Hq' : Forall (inR 0 4) (queue ++ [lam])) by (apply Forall_app; split; [assumption|constructor; [assumption|constructor]]).
      match type of H with (if ?c then _ else _) = _ => destruct c end.
      * injection H as <- <-. split.
        -- apply Forall_app. split.
           ++ match goal with |- Forall _ (if ?c then _ else _) => destruct c end; [constructor; [exact Hlam|constructor]|constructor].
           ++ match goal with |- Forall _ (if ?c then _ else _) => destruct c end; [constructor; [apply fmedian_inR; exact Hq'|constructor]|constructor].
        -- change (Forall (inR 0 4) (rev (lam :: record))). apply Forall_rev. exact Hr'.
      * apply (IH _ _ _ _ _ _ Hnext Hq' Hr' H).
    + apply (IH _ _ _ _ _ _ Hnext Hq Hr' H).
Qed.

Lemma zero_dead_inR : forall acc x, Forall (inR 0 1) x -> Forall (inR 0 1) (Capacity.zero_dead acc x).
Proof.
  intros acc x Hx. unfold Capacity.zero_dead. apply Forall_map.
  rewrite Forall_forall. intros [r v] Hin. simpl.
  destruct (Capacity.dead_row r); [apply inR_0; lra|].
  apply in_combine_r in Hin. rewrite Forall_forall in Hx. apply Hx. exact Hin.
Qed.

Lemma repeats_loop_inR : forall acc tol maxit, Forall (fun r => (length r <= 4)%nat) acc ->
  forall starts res recs, Forall (Forall unit_float) starts ->
  Capacity.repeats_loop acc tol maxit starts = Some (res, recs) ->
  Forall (inR 0 4) res /\ Forall (Forall (inR 0 4)) recs.
Proof.
  intros acc tol maxit Hacc starts. induction starts as [|x0 rest IH]; intros res recs Hs H.
  - simpl in H. inversion H; subst. split; constructor.
  - inversion Hs as [|x0' rest' Hx0 Hrest]; subst. cbn [Capacity.repeats_loop] in H.
    destruct (Capacity.power_loop (S (S maxit)) acc tol maxit (Capacity.zero_dead acc (map abs x0)) None [] [])
      as [[res1 rec1]|] eqn:E1; [|discriminate].
    destruct (Capacity.repeats_loop acc tol maxit rest) as [[res2 recs2]|] eqn:E2; [|discriminate].
    inversion H; subst.
    assert (Hx : Forall (inR 0 1) (Capacity.zero_dead acc (map abs x0))).
    { apply zero_dead_inR. apply Forall_map. eapply Forall_impl; [|exact Hx0].
      intros a Ha. apply abs_inR. apply unit_float_inR. exact Ha. }
    destruct (power_loop_inR acc tol maxit Hacc _ _ _ _ _ _ _ Hx (Forall_nil _) (Forall_nil _) E1) as [P1 P2].
    destruct (IH res2 recs2 Hrest eq_refl) as [Q1 Q2].
    split; [apply Forall_app; split; assumption|constructor; assumption].
Qed.

Theorem capacity_le_four : forall acc tol maxit starts res recs,
  Forall (fun r => (length r <= 4)%nat) acc -> Forall (Forall unit_float) starts ->
  Capacity.approximate_capacity acc tol maxit starts = Some (Some (res, recs)) ->
  Forall (fun lam => PrimFloat.leb lam 4 = true) res /\ Forall (Forall (fun lam => PrimFloat.leb lam 4 = true)) recs.
Proof.
  intros acc tol maxit starts res recs Hacc Hs H. unfold Capacity.approximate_capacity in H.
  destruct (Capacity.all_minus_one acc); [discriminate|].
  destruct (Capacity.repeats_loop acc tol maxit starts) as [[res' recs']|] eqn:E; [|discriminate].
  inversion H; subst.
  destruct (repeats_loop_inR acc tol maxit Hacc starts res recs Hs E) as [P1 P2].
  assert (W : forall l, Forall (inR 0 4) l -> Forall (fun lam => PrimFloat.leb lam 4 = true) l).
  { intros l Hl. eapply Forall_impl; [|exact Hl]. intros a Ha. apply inR4_leb. exact Ha. }
  split; [apply W; exact P1|]. eapply Forall_impl; [|exact P2]. exact W.
Qed.

Print Assumptions row_sum_le_four.
Print Assumptions normalise_unit.
Print Assumptions capacity_le_four.
