(* TerminationProofs.v -- C04: on a graph in which every vertex reachable from the start vertex is
   live and reaches a branching vertex, encoding terminates within (message length) x (vertex count)
   steps and never meets a dead end; generated graphs are of that kind. *)
From Coq Require Import Lia ZifyBool Permutation.
From DSW Require Import Py Bignum Convert Kmer Graph Coder Spec GraphSpec CoderSpec FastSpec.
From DSW.Proofs Require Import KmerProofs GraphProofs ShuffleProofs.
Ltac Zify.zify_post_hook ::= Z.to_euclidean_division_equations.

(* ------------------------------------------------------------------------------------------ *)
(* live columns of a row                                                                        *)
(* ------------------------------------------------------------------------------------------ *)
Lemma used_from_in : forall row s j,
  In j (used_from row s) <-> s <= j /\ 0 <= nth (Z.to_nat (j - s)) row (-1).
Proof.
  induction row as [|x t IH]; intros s j; cbn [used_from].
  - split; [intros []|]. intros [_ H]. destruct (Z.to_nat (j - s)); cbn [nth] in H; lia.
  - assert (Hcase : j < s \/ j = s \/ s + 1 <= j) by lia.
    assert (Htail : In j (used_from t (s + 1)) <-> s <= j /\ s + 1 <= j /\ 0 <= nth (Z.to_nat (j - s)) (x :: t) (-1)).
    { rewrite IH. split.
      - intros [H1 H2]. split; [lia|]. split; [lia|].
        replace (Z.to_nat (j - s)) with (S (Z.to_nat (j - (s + 1)))) by lia. exact H2.
      - intros [H1 [H2 H3]]. split; [lia|].
        replace (Z.to_nat (j - s)) with (S (Z.to_nat (j - (s + 1)))) in H3 by lia. exact H3. }
    destruct (0 <=? x) eqn:E.
    + cbn [In]. rewrite Htail. split.
      * intros [H|H]; [subst j; split; [lia|]; rewrite Z.sub_diag; cbn [Z.to_nat nth]; lia|tauto].
      * intros [H1 H2]. destruct (Z.eq_dec s j) as [He|Hne]; [left; exact He|right].
        split; [lia|]. split; [lia|exact H2].
    + rewrite Htail. split; [tauto|]. intros [H1 H2].
      destruct (Z.eq_dec s j) as [He|Hne].
      * subst j. rewrite Z.sub_diag in H2. cbn [Z.to_nat nth] in H2. lia.
      * split; [lia|]. split; [lia|exact H2].
Qed.

Lemma used_from_length : forall row s, length (used_from row s) = length (live_entries row).
Proof.
  induction row as [|x t IH]; intros s; cbn [used_from live_entries filter]; [reflexivity|].
  fold (live_entries t). destruct (0 <=? x); cbn [length]; rewrite IH; reflexivity.
Qed.

Lemma used_from_nodup : forall row s, NoDup (used_from row s).
Proof.
  induction row as [|x t IH]; intros s; cbn [used_from]; [constructor|].
  destruct (0 <=? x); [|apply IH].
  constructor; [|apply IH]. rewrite used_from_in. lia.
Qed.

Lemma live_cols_in : forall acc v j, In j (live_cols acc v) <-> 0 <= j /\ 0 <= entry acc v j.
Proof.
  intros acc v j. unfold live_cols, used_indices, entry. rewrite used_from_in, Z.sub_0_r. tauto.
Qed.

Lemma live_cols_nodup : forall acc v, NoDup (live_cols acc v).
Proof. intros acc v. apply used_from_nodup. Qed.

Lemma radix_outdeg : forall acc v, radix acc v = outdeg acc v.
Proof.
  intros acc v. unfold radix, live_cols, used_indices, outdeg, out_degree.
  rewrite used_from_length. reflexivity.
Qed.

Lemma radix_nonneg : forall acc v, 0 <= radix acc v.
Proof. intros acc v. unfold radix. lia. Qed.

Lemma get_row_length : forall acc v, rows4 acc -> length (get_row acc v) = 4%nat.
Proof.
  intros acc v Hr. unfold get_row.
  destruct (Nat.lt_ge_cases (Z.to_nat v) (length acc)) as [Hlt|Hge].
  - unfold rows4 in Hr. rewrite Forall_forall in Hr. apply Hr. apply nth_In. exact Hlt.
  - rewrite nth_overflow by exact Hge. reflexivity.
Qed.

Lemma entry_col_lt4 : forall acc v j, rows4 acc -> 0 <= j -> 0 <= entry acc v j -> j < 4.
Proof.
  intros acc v j Hr Hj He. unfold entry in He.
  destruct (Z_lt_ge_dec j 4) as [Hlt|Hge]; [exact Hlt|].
  rewrite nth_overflow in He by (rewrite get_row_length by exact Hr; lia). lia.
Qed.

Lemma live_cols_range : forall acc v j, rows4 acc -> In j (live_cols acc v) -> 0 <= j < 4 /\ 0 <= entry acc v j.
Proof.
  intros acc v j Hr Hin. apply live_cols_in in Hin. destruct Hin as [H0 He].
  split; [|exact He]. split; [exact H0|]. eapply entry_col_lt4; eassumption.
Qed.

Lemma filter_length_le : forall (A : Type) (g : A -> bool) l, (length (filter g l) <= length l)%nat.
Proof.
  intros A g l; induction l as [|h t IH]; cbn [filter length]; [lia|].
  destruct (g h); cbn [length]; lia.
Qed.

Lemma radix_le4 : forall acc v, rows4 acc -> radix acc v <= 4.
Proof.
  intros acc v Hr. rewrite radix_outdeg. unfold outdeg, out_degree, live_entries.
  pose proof (filter_length_le _ (fun x => 0 <=? x) (get_row acc v)) as H.
  rewrite get_row_length in H by exact Hr. lia.
Qed.

(* at an out-degree-1 vertex the only live column is the head of live_cols *)
Lemma radix1_unique : forall acc v j, radix acc v = 1 -> 0 <= j -> 0 <= entry acc v j ->
  j = hd 0 (live_cols acc v).
Proof.
  intros acc v j Hr Hj He.
  assert (Hin : In j (live_cols acc v)) by (apply live_cols_in; split; assumption).
  unfold radix in Hr. destruct (live_cols acc v) as [|h [|h' t]]; cbn [length] in Hr; try lia.
  cbn [hd]. destruct Hin as [H|[]]. symmetry; exact H.
Qed.

Lemma radix_pos_live : forall acc v, 1 <= radix acc v -> In (hd 0 (live_cols acc v)) (live_cols acc v).
Proof.
  intros acc v Hr. unfold radix in Hr. destruct (live_cols acc v) as [|h t]; cbn [length] in Hr; [lia|].
  cbn [hd]. left; reflexivity.
Qed.

(* ------------------------------------------------------------------------------------------ *)
(* one step of the reference coders                                                             *)
(* ------------------------------------------------------------------------------------------ *)
Lemma ref_encode_zero : forall f acc v sh, ref_encode f 0 acc v sh = Ok [].
Proof. intros f acc v sh. destruct f; reflexivity. Qed.

Lemma ref_encode_S : forall f q acc v sh, q <> 0 ->
  ref_encode (S f) q acc v sh =
    if radix acc v =? 0 then Raise ValueError
    else if radix acc v =? 1 then
      rest <- ref_encode f q acc (entry acc v (hd 0 (live_cols acc v))) sh ;;
      Ok (nuc_char (hd 0 (live_cols acc v)) :: rest)
    else match select_arc (table_row sh v) (live_cols acc v) (q mod radix acc v) with
         | Some j => rest <- ref_encode f (q / radix acc v) acc (entry acc v j) sh ;; Ok (nuc_char j :: rest)
         | None => Raise IndexError
         end.
Proof.
  intros f q acc v sh Hq. cbn [ref_encode].
  destruct (q =? 0) eqn:E; [lia|]. reflexivity.
Qed.

Theorem ref_encode_fuel_mono : forall f1 f2 q acc v sh s, (f1 <= f2)%nat ->
  ref_encode f1 q acc v sh = Ok s -> ref_encode f2 q acc v sh = Ok s.
Proof.
  induction f1 as [|f IH]; intros f2 q acc v sh s Hle H.
  - destruct (Z.eq_dec q 0) as [Hq|Hq].
    + subst q. rewrite ref_encode_zero in *. exact H.
    + cbn [ref_encode] in H. destruct (q =? 0) eqn:E; [lia|discriminate H].
  - destruct (Z.eq_dec q 0) as [Hq|Hq].
    + subst q. rewrite ref_encode_zero in *. exact H.
    + destruct f2 as [|g]; [lia|].
      rewrite ref_encode_S in * by exact Hq.
      destruct (radix acc v =? 0); [exact H|].
      destruct (radix acc v =? 1).
      * destruct (ref_encode f q acc (entry acc v (hd 0 (live_cols acc v))) sh) as [r| |] eqn:Er;
          cbn [bind] in H; try discriminate H.
        rewrite (IH g _ _ _ _ r ltac:(lia) Er). exact H.
      * destruct (select_arc (table_row sh v) (live_cols acc v) (q mod radix acc v)) as [j|]; [|exact H].
        destruct (ref_encode f (q / radix acc v) acc (entry acc v j) sh) as [r| |] eqn:Er;
          cbn [bind] in H; try discriminate H.
        rewrite (IH g _ _ _ _ r ltac:(lia) Er). exact H.
Qed.

Lemma ref_encode_fast_nil : forall f acc v sh, ref_encode_fast f [] acc v sh = Ok [].
Proof. intros f acc v sh. destruct f; reflexivity. Qed.

Lemma ref_encode_fast_S : forall f b0 bits1 acc v sh,
  ref_encode_fast (S f) (b0 :: bits1) acc v sh =
    if radix acc v =? 4 then
      match select_arc (table_row sh v) (live_cols acc v)
              (fst (match bits1 with [] => (2 * b0, []) | b1 :: r => (2 * b0 + b1, r) end)) with
      | Some j => r <- ref_encode_fast f (snd (match bits1 with [] => (2 * b0, []) | b1 :: r => (2 * b0 + b1, r) end))
                         acc (entry acc v j) sh ;; Ok (nuc_char j :: r)
      | None => Raise IndexError
      end
    else if radix acc v =? 2 then
      match select_arc (table_row sh v) (live_cols acc v) b0 with
      | Some j => r <- ref_encode_fast f bits1 acc (entry acc v j) sh ;; Ok (nuc_char j :: r)
      | None => Raise IndexError
      end
    else if radix acc v =? 1 then
      r <- ref_encode_fast f (b0 :: bits1) acc (entry acc v (hd 0 (live_cols acc v))) sh ;;
      Ok (nuc_char (hd 0 (live_cols acc v)) :: r)
    else Raise ValueError.
Proof.
  intros f b0 bits1 acc v sh. cbn [ref_encode_fast].
  destruct (radix acc v =? 4); [|reflexivity].
  destruct bits1 as [|b1 r]; reflexivity.
Qed.

Theorem ref_encode_fast_fuel_mono : forall f1 f2 bits acc v sh s, (f1 <= f2)%nat ->
  ref_encode_fast f1 bits acc v sh = Ok s -> ref_encode_fast f2 bits acc v sh = Ok s.
Proof.
  induction f1 as [|f IH]; intros f2 bits acc v sh s Hle H.
  - destruct bits as [|b0 bits1].
    + rewrite ref_encode_fast_nil in *. exact H.
    + cbn [ref_encode_fast] in H. discriminate H.
  - destruct bits as [|b0 bits1].
    + rewrite ref_encode_fast_nil in *. exact H.
    + destruct f2 as [|g]; [lia|].
      rewrite ref_encode_fast_S in *.
      destruct (radix acc v =? 4).
      { destruct (select_arc (table_row sh v) (live_cols acc v) _) as [j|]; [|exact H].
        match type of H with bind ?X _ = _ => destruct X as [r| |] eqn:Er end;
          cbn [bind] in H; try discriminate H.
        rewrite (IH g _ _ _ _ r ltac:(lia) Er). exact H. }
      destruct (radix acc v =? 2).
      { destruct (select_arc (table_row sh v) (live_cols acc v) b0) as [j|]; [|exact H].
        match type of H with bind ?X _ = _ => destruct X as [r| |] eqn:Er end;
          cbn [bind] in H; try discriminate H.
        rewrite (IH g _ _ _ _ r ltac:(lia) Er). exact H. }
      destruct (radix acc v =? 1); [|exact H].
      match type of H with bind ?X _ = _ => destruct X as [r| |] eqn:Er end;
        cbn [bind] in H; try discriminate H.
      rewrite (IH g _ _ _ _ r ltac:(lia) Er). exact H.
Qed.

(* ------------------------------------------------------------------------------------------ *)
(* reachability                                                                                 *)
(* ------------------------------------------------------------------------------------------ *)
Lemma reach_trans : forall acc u v w, reach acc u v -> reach acc v w -> reach acc u w.
Proof.
  intros acc u v w H. induction H as [v|u j v Hj He Hr IH]; intros Hw; [exact Hw|].
  eapply reach_step; [exact Hj|exact He|apply IH; exact Hw].
Qed.

Lemma reach_one : forall acc v j, 0 <= j < 4 -> 0 <= entry acc v j -> reach acc v (entry acc v j).
Proof. intros acc v j Hj He. eapply reach_step; [exact Hj|exact He|apply reach_refl]. Qed.

Theorem wf_from_step : forall acc v j, wf_from acc v -> 0 <= j < 4 -> 0 <= entry acc v j -> wf_from acc (entry acc v j).
Proof.
  intros acc v j Hwf Hj He w Hw. apply Hwf. eapply reach_step; eassumption.
Qed.

Lemma wf_from_reach : forall acc v w, wf_from acc v -> reach acc v w -> wf_from acc w.
Proof.
  intros acc v w Hwf Hr u Hu. apply Hwf. eapply reach_trans; eassumption.
Qed.

(* ------------------------------------------------------------------------------------------ *)
(* runs of out-degree-1 vertices                                                                *)
(* ------------------------------------------------------------------------------------------ *)
Definition next1 (acc : accessor) (v : Z) : Z := entry acc v (hd 0 (live_cols acc v)).
Fixpoint iter1 (acc : accessor) (n : nat) (v : Z) : Z := match n with O => v | S m => iter1 acc m (next1 acc v) end.

Lemma iter1_add : forall acc a b v, iter1 acc (a + b) v = iter1 acc b (iter1 acc a v).
Proof.
  intros acc a. induction a as [|a IH]; intros b v; cbn [Nat.add iter1]; [reflexivity|]. apply IH.
Qed.

Lemma iter1_S_out : forall acc n v, iter1 acc (S n) v = next1 acc (iter1 acc n v).
Proof.
  intros acc n v. replace (S n) with (n + 1)%nat by lia. rewrite iter1_add. reflexivity.
Qed.

(* a derivation of reach to a branching vertex must follow next1 through out-degree-1 vertices *)
Lemma reach_branching_run : forall acc v w, reach acc v w -> branching acc w ->
  exists n, 2 <= radix acc (iter1 acc n v) /\ forall m, (m < n)%nat -> radix acc (iter1 acc m v) = 1.
Proof.
  intros acc v w H. induction H as [v|v j w Hj He Hr IH]; intros Hb.
  - exists 0%nat. cbn [iter1]. split; [rewrite radix_outdeg; exact Hb|]. intros m Hm; lia.
  - destruct (Z_lt_ge_dec (radix acc v) 2) as [Hlt|Hge].
    + assert (Hin : In j (live_cols acc v)) by (apply live_cols_in; split; lia).
      assert (H1 : radix acc v = 1).
      { unfold radix in *. destruct (live_cols acc v); [destruct Hin|]. cbn [length] in *. lia. }
      assert (Hjh : j = hd 0 (live_cols acc v)) by (apply radix1_unique; [exact H1|lia|exact He]).
      destruct (IH Hb) as [n [Hn Hm]]. exists (S n). cbn [iter1]. unfold next1. rewrite <- Hjh.
      split; [exact Hn|]. intros m Hlt'. destruct m as [|m]; cbn [iter1]; [exact H1|].
      unfold next1. rewrite <- Hjh. apply Hm. lia.
    + exists 0%nat. cbn [iter1]. split; [lia|]. intros m Hm; lia.
Qed.

Lemma run_reach : forall acc n v, rows4 acc -> (forall m, (m < n)%nat -> radix acc (iter1 acc m v) = 1) ->
  reach acc v (iter1 acc n v).
Proof.
  intros acc n. induction n as [|n IH]; intros v Hr Hrun; cbn [iter1]; [apply reach_refl|].
  assert (H1 : radix acc v = 1) by (apply (Hrun 0%nat); lia).
  pose proof (radix_pos_live acc v ltac:(lia)) as Hin.
  apply live_cols_range in Hin; [|exact Hr]. destruct Hin as [Hj He].
  eapply reach_step; [exact Hj|exact He|].
  apply IH; [exact Hr|]. intros m Hm. apply (Hrun (S m)). lia.
Qed.

Lemma nodup_map_seq : forall (f : nat -> Z) n,
  (forall a b, (a < b < n)%nat -> f a <> f b) -> NoDup (map f (seq 0 n)).
Proof.
  intros f n Hinj. apply (NoDup_nth _ 0). rewrite map_length, seq_length.
  intros i j Hi Hj E.
  rewrite (nth_map_lt _ _ f _ _ 0 0%nat) in E by (rewrite seq_length; exact Hi).
  rewrite (nth_map_lt _ _ f _ _ 0 0%nat) in E by (rewrite seq_length; exact Hj).
  rewrite !seq_nth in E by assumption. cbn [Nat.add] in E.
  destruct (Nat.lt_trichotomy i j) as [H|[H|H]]; [|exact H|].
  - exfalso. apply (Hinj i j); [lia|exact E].
  - exfalso. apply (Hinj j i); [lia|symmetry; exact E].
Qed.

Theorem deg1_run_bounded : forall acc v, shaped acc -> wf_from acc v ->
  exists n, Z.of_nat n < nrows acc /\ 2 <= radix acc (iter1 acc n v)
            /\ forall m, (m < n)%nat -> radix acc (iter1 acc m v) = 1.
Proof.
  intros acc v [Hr4 Hent] Hwf.
  destruct (Hwf v (reach_refl acc v)) as [_ [_ [w [Hvw Hbw]]]].
  destruct (reach_branching_run acc v w Hvw Hbw) as [n [Hn Hrun]].
  exists n. split; [|split; assumption].
  (* all iterates up to n are in range *)
  assert (Hrange : forall m, (m <= n)%nat -> in_range acc (iter1 acc m v)).
  { intros m Hm. apply Hwf. apply run_reach; [exact Hr4|]. intros i Hi. apply Hrun. lia. }
  (* and pairwise distinct *)
  assert (Hdist : forall a b, (a < b < S n)%nat -> iter1 acc a v <> iter1 acc b v).
  { intros a b Hab E.
    assert (Hper : forall m, (a <= m)%nat -> radix acc (iter1 acc m v) = 1).
    { intros m. induction m as [m IHm] using (well_founded_induction lt_wf). intros Ham.
      destruct (Nat.lt_ge_cases m b) as [Hlt|Hge]; [apply Hrun; lia|].
      replace m with (b + (m - b))%nat by lia. rewrite iter1_add, <- E, <- iter1_add.
      apply IHm; lia. }
    specialize (Hper n ltac:(lia)). lia. }
  pose proof (nodup_map_seq (fun m => iter1 acc m v) (S n) Hdist) as Hnd.
  assert (Hincl : incl (map (fun m => iter1 acc m v) (seq 0 (S n))) (zrange (length acc))).
  { intros x Hx. apply in_map_iff in Hx. destruct Hx as [m [Hx Hm]]. apply in_seq in Hm.
    unfold zrange. apply zrange_from_in. specialize (Hrange m ltac:(lia)).
    unfold in_range, nrows in Hrange. subst x. lia. }
  pose proof (NoDup_incl_length Hnd Hincl) as Hlen.
  rewrite map_length, seq_length in Hlen. unfold zrange in Hlen. rewrite zrange_from_len in Hlen.
  unfold nrows. lia.
Qed.

(* ------------------------------------------------------------------------------------------ *)
(* arc selection is total under a permutation table                                             *)
(* ------------------------------------------------------------------------------------------ *)
Lemma nodup_map_inj_on : forall (f : Z -> Z) l, NoDup l ->
  (forall a b, In a l -> In b l -> f a = f b -> a = b) -> NoDup (map f l).
Proof.
  intros f l Hnd. induction Hnd as [|x l Hx Hnd IH]; intros Hinj; cbn [map]; [constructor|].
  constructor.
  - intro Hin. apply in_map_iff in Hin. destruct Hin as [y [Hy Hyl]].
    assert (y = x) by (apply Hinj; [right; exact Hyl|left; reflexivity|exact Hy]).
    subst y. contradiction.
  - apply IH. intros a b Ha Hb. apply Hinj; right; assumption.
Qed.

Lemma keys_nodup : forall acc v sh, rows4 acc -> in_range acc v -> perm_table sh (nrows acc) ->
  NoDup (map (key_of (table_row sh v)) (live_cols acc v)).
Proof.
  intros acc v sh Hr4 Hv Hp. apply nodup_map_inj_on; [apply live_cols_nodup|].
  intros a b Ha Hb E. destruct sh as [t|]; cbn [table_row key_of] in E; [|exact E].
  cbn [perm_table] in Hp. destruct Hp as [Hlen Hperm].
  unfold in_range in Hv. rewrite <- Hlen in Hv.
  assert (Hin : In (nth (Z.to_nat v) t []) t) by (apply nth_In; lia).
  rewrite Forall_forall in Hperm. specialize (Hperm _ Hin).
  set (r := nth (Z.to_nat v) t []) in *.
  assert (Hnd : NoDup r).
  { apply (Permutation_NoDup (Permutation_sym Hperm)).
    repeat constructor; cbn [In]; lia. }
  assert (Hl : length r = 4%nat) by (rewrite (Permutation_length Hperm); reflexivity).
  apply (live_cols_range _ _ _ Hr4) in Ha. apply (live_cols_range _ _ _ Hr4) in Hb.
  rewrite (NoDup_nth r (-1)) in Hnd.
  specialize (Hnd (Z.to_nat a) (Z.to_nat b) ltac:(lia) ltac:(lia) E). lia.
Qed.

Lemma select_total : forall acc v sh d, rows4 acc -> in_range acc v -> perm_table sh (nrows acc) ->
  0 <= d < radix acc v ->
  exists j, select_arc (table_row sh v) (live_cols acc v) d = Some j /\ 0 <= j < 4 /\ 0 <= entry acc v j.
Proof.
  intros acc v sh d Hr4 Hv Hp Hd.
  destruct (select_rank_bijection _ _ (keys_nodup acc v sh Hr4 Hv Hp)) as [Hsel _].
  destruct (Hsel d Hd) as [j [Hj [Hin _]]]. exists j. split; [exact Hj|].
  apply live_cols_range; assumption.
Qed.

(* ------------------------------------------------------------------------------------------ *)
(* C04, normal mode                                                                             *)
(* ------------------------------------------------------------------------------------------ *)
Lemma ref_encode_run : forall acc sh q n v f s, q <> 0 ->
  (forall m, (m < n)%nat -> radix acc (iter1 acc m v) = 1) ->
  ref_encode f q acc (iter1 acc n v) sh = Ok s ->
  exists s', ref_encode (n + f) q acc v sh = Ok s' /\ length s' = (n + length s)%nat.
Proof.
  intros acc sh q n. induction n as [|n IH]; intros v f s Hq Hrun H; cbn [iter1] in H.
  - exists s. split; [exact H|reflexivity].
  - assert (H1 : radix acc v = 1) by (apply (Hrun 0%nat); lia).
    destruct (IH (next1 acc v) f s Hq) as [s' [Hs' Hl]]; [|exact H|].
    { intros m Hm. apply (Hrun (S m)). lia. }
    unfold next1 in Hs'.
    exists (nuc_char (hd 0 (live_cols acc v)) :: s'). cbn [Nat.add].
    rewrite ref_encode_S by exact Hq.
    destruct (radix acc v =? 0) eqn:E0; [lia|]. destruct (radix acc v =? 1) eqn:E1; [|lia].
    rewrite Hs'. cbn [bind length]. split; [reflexivity|lia].
Qed.

Lemma ref_encode_total_nat : forall acc sh, shaped acc -> perm_table sh (nrows acc) ->
  forall L q v0, wf_from acc v0 -> 0 <= q < 2 ^ Z.of_nat L ->
  exists s, ref_encode (L * length acc) q acc v0 sh = Ok s /\ (length s <= L * length acc)%nat.
Proof.
  intros acc sh Hsh Hp. pose proof Hsh as [Hr4 _].
  induction L as [|L IH]; intros q v0 Hwf Hq.
  - assert (q = 0) by (cbn in Hq; lia). subst q. exists []. rewrite ref_encode_zero. split; [reflexivity|cbn; lia].
  - destruct (Z.eq_dec q 0) as [Hq0|Hq0].
    { subst q. exists []. rewrite ref_encode_zero. split; [reflexivity|cbn [length]; lia]. }
    destruct (deg1_run_bounded acc v0 Hsh Hwf) as [n [Hn [Hd Hrun]]].
    set (u := iter1 acc n v0) in *.
    assert (Hvu : reach acc v0 u) by (apply run_reach; assumption).
    assert (Hwfu : wf_from acc u) by (eapply wf_from_reach; eassumption).
    destruct (Hwf u Hvu) as [Hu _].
    set (d := radix acc u) in *.
    destruct (select_total acc u sh (q mod d) Hr4 Hu Hp ltac:(fold d; lia)) as [j [Hsel [Hj He]]].
    assert (Hwfj : wf_from acc (entry acc u j)) by (apply wf_from_step; assumption).
    assert (Hq' : 0 <= q / d < 2 ^ Z.of_nat L).
    { rewrite Nat2Z.inj_succ, Z.pow_succ_r in Hq by lia.
      pose proof (Z.pow_pos_nonneg 2 (Z.of_nat L) ltac:(lia) ltac:(lia)) as HP.
      set (P := 2 ^ Z.of_nat L) in *. clearbody P. split.
      - apply Z.div_pos; lia.
      - apply Z.div_lt_upper_bound; [lia|].
        assert (2 * P <= d * P) by (apply Z.mul_le_mono_nonneg_r; lia). lia. }
    destruct (IH (q / d) (entry acc u j) Hwfj Hq') as [s [Hs Hl]].
    assert (Hstep : ref_encode (S (L * length acc)) q acc u sh = Ok (nuc_char j :: s)).
    { rewrite ref_encode_S by exact Hq0. fold d.
      destruct (d =? 0) eqn:E0; [lia|]. destruct (d =? 1) eqn:E1; [lia|].
      rewrite Hsel, Hs. reflexivity. }
    destruct (ref_encode_run acc sh q n v0 _ _ Hq0 Hrun Hstep) as [s' [Hs' Hl']].
    exists s'. unfold nrows in Hn. split.
    + eapply ref_encode_fuel_mono; [|exact Hs']. cbn [Nat.mul]. lia.
    + rewrite Hl'. cbn [length Nat.mul]. lia.
Qed.

Lemma to_nat_mul_nrows : forall L acc, 0 <= L -> Z.to_nat (L * nrows acc) = (Z.to_nat L * length acc)%nat.
Proof.
  intros L acc HL. unfold nrows. rewrite Z2Nat.inj_mul by lia. rewrite Nat2Z.id. reflexivity.
Qed.

Theorem ref_encode_total : forall acc v0 sh q L, shaped acc -> wf_from acc v0 -> perm_table sh (nrows acc) ->
  0 <= L -> 0 <= q < 2 ^ L ->
  exists s, ref_encode (Z.to_nat (L * nrows acc)) q acc v0 sh = Ok s /\ Z.of_nat (length s) <= L * nrows acc.
Proof.
  intros acc v0 sh q L Hsh Hwf Hp HL Hq.
  destruct (ref_encode_total_nat acc sh Hsh Hp (Z.to_nat L) q v0 Hwf ltac:(rewrite Z2Nat.id by lia; exact Hq))
    as [s [Hs Hl]].
  exists s. rewrite to_nat_mul_nrows by exact HL. split; [exact Hs|].
  apply Nat2Z.inj_le in Hl. rewrite Nat2Z.inj_mul, Z2Nat.id in Hl by lia. exact Hl.
Qed.

(* ------------------------------------------------------------------------------------------ *)
(* C04, fast mode                                                                               *)
(* ------------------------------------------------------------------------------------------ *)
Lemma ref_encode_fast_run : forall acc sh b0 bits1 n v f s,
  (forall m, (m < n)%nat -> radix acc (iter1 acc m v) = 1) ->
  ref_encode_fast f (b0 :: bits1) acc (iter1 acc n v) sh = Ok s ->
  exists s', ref_encode_fast (n + f) (b0 :: bits1) acc v sh = Ok s' /\ length s' = (n + length s)%nat.
Proof.
  intros acc sh b0 bits1 n. induction n as [|n IH]; intros v f s Hrun H; cbn [iter1] in H.
  - exists s. split; [exact H|reflexivity].
  - assert (H1 : radix acc v = 1) by (apply (Hrun 0%nat); lia).
    destruct (IH (next1 acc v) f s) as [s' [Hs' Hl]]; [|exact H|].
    { intros m Hm. apply (Hrun (S m)). lia. }
    unfold next1 in Hs'.
    exists (nuc_char (hd 0 (live_cols acc v)) :: s'). cbn [Nat.add].
    rewrite ref_encode_fast_S.
    destruct (radix acc v =? 4) eqn:E4; [lia|]. destruct (radix acc v =? 2) eqn:E2; [lia|].
    destruct (radix acc v =? 1) eqn:E1; [|lia].
    rewrite Hs'. cbn [bind length]. split; [reflexivity|lia].
Qed.

(* one branching step of the fast coder: it consumes one or two bits and moves along a live arc *)
Lemma fast_branch_step : forall acc sh b0 bits1 u, rows4 acc -> in_range acc u -> perm_table sh (nrows acc) ->
  no_outdeg3 acc -> 2 <= radix acc u -> bits_ok (b0 :: bits1) ->
  exists j rest, 0 <= j < 4 /\ 0 <= entry acc u j /\ (length rest <= length bits1)%nat /\ bits_ok rest /\
    forall f r, ref_encode_fast f rest acc (entry acc u j) sh = Ok r ->
                ref_encode_fast (S f) (b0 :: bits1) acc u sh = Ok (nuc_char j :: r).
Proof.
  intros acc sh b0 bits1 u Hr4 Hu Hp Hno Hd Hbits.
  pose proof (radix_le4 acc u Hr4) as H4. pose proof (Hno u Hu) as H3.
  inversion Hbits as [|? ? Hb0 Hbits1]; subst. unfold bit in Hb0.
  destruct (Z.eq_dec (radix acc u) 4) as [E|E].
  - destruct bits1 as [|b1 r1].
    + destruct (select_total acc u sh (2 * b0) Hr4 Hu Hp ltac:(lia)) as [j [Hsel [Hj He]]].
      exists j, []. split; [exact Hj|]. split; [exact He|]. split; [cbn [length]; lia|].
      split; [constructor|]. intros f r Hr. rewrite ref_encode_fast_S.
      destruct (radix acc u =? 4) eqn:E4; [|lia]. cbn [fst snd]. rewrite Hsel, Hr. reflexivity.
    + inversion Hbits1 as [|? ? Hb1 Hr1]; subst. unfold bit in Hb1.
      destruct (select_total acc u sh (2 * b0 + b1) Hr4 Hu Hp ltac:(lia)) as [j [Hsel [Hj He]]].
      exists j, r1. split; [exact Hj|]. split; [exact He|]. split; [cbn [length]; lia|].
      split; [exact Hr1|]. intros f r Hr. rewrite ref_encode_fast_S.
      destruct (radix acc u =? 4) eqn:E4; [|lia]. cbn [fst snd]. rewrite Hsel, Hr. reflexivity.
  - destruct (select_total acc u sh b0 Hr4 Hu Hp ltac:(lia)) as [j [Hsel [Hj He]]].
    exists j, bits1. split; [exact Hj|]. split; [exact He|]. split; [lia|].
    split; [exact Hbits1|]. intros f r Hr. rewrite ref_encode_fast_S.
    destruct (radix acc u =? 4) eqn:E4; [lia|]. destruct (radix acc u =? 2) eqn:E2; [|lia].
    rewrite Hsel, Hr. reflexivity.
Qed.

Lemma ref_encode_fast_total_nat : forall acc sh, shaped acc -> perm_table sh (nrows acc) -> no_outdeg3 acc ->
  forall N bits v0, (length bits <= N)%nat -> wf_from acc v0 -> bits_ok bits ->
  exists s, ref_encode_fast (length bits * length acc) bits acc v0 sh = Ok s
            /\ (length s <= length bits * length acc)%nat.
Proof.
  intros acc sh Hsh Hp Hno. pose proof Hsh as [Hr4 _].
  induction N as [|N IH]; intros bits v0 HN Hwf Hbits.
  - destruct bits; [|cbn [length] in HN; lia]. exists []. rewrite ref_encode_fast_nil.
    split; [reflexivity|cbn; lia].
  - destruct bits as [|b0 bits1].
    { exists []. rewrite ref_encode_fast_nil. split; [reflexivity|cbn; lia]. }
    cbn [length] in HN.
    destruct (deg1_run_bounded acc v0 Hsh Hwf) as [n [Hn [Hd Hrun]]].
    set (u := iter1 acc n v0) in *.
    assert (Hvu : reach acc v0 u) by (apply run_reach; assumption).
    assert (Hwfu : wf_from acc u) by (eapply wf_from_reach; eassumption).
    destruct (Hwf u Hvu) as [Hu _].
    destruct (fast_branch_step acc sh b0 bits1 u Hr4 Hu Hp Hno Hd Hbits)
      as [j [rest [Hj [He [Hlen [Hrest Hstep]]]]]].
    assert (Hwfj : wf_from acc (entry acc u j)) by (apply wf_from_step; assumption).
    destruct (IH rest (entry acc u j) ltac:(lia) Hwfj Hrest) as [s [Hs Hl]].
    assert (Hmul : (length rest * length acc <= length bits1 * length acc)%nat)
      by (apply Nat.mul_le_mono_r; exact Hlen).
    pose proof (ref_encode_fast_fuel_mono _ (length bits1 * length acc) _ _ _ _ _ Hmul Hs) as Hs2.
    specialize (Hstep _ _ Hs2).
    destruct (ref_encode_fast_run acc sh b0 bits1 n v0 _ _ Hrun Hstep) as [s' [Hs' Hl']].
    exists s'. unfold nrows in Hn. split.
    + eapply ref_encode_fast_fuel_mono; [|exact Hs']. cbn [length Nat.mul]. lia.
    + rewrite Hl'. cbn [length Nat.mul]. lia.
Qed.

Theorem ref_encode_fast_total : forall acc v0 sh bits, shaped acc -> wf_from acc v0 -> perm_table sh (nrows acc) ->
  no_outdeg3 acc -> bits_ok bits ->
  exists s, ref_encode_fast (Z.to_nat (Z.of_nat (length bits) * nrows acc)) bits acc v0 sh = Ok s
            /\ Z.of_nat (length s) <= Z.of_nat (length bits) * nrows acc.
Proof.
  intros acc v0 sh bits Hsh Hwf Hp Hno Hbits.
  destruct (ref_encode_fast_total_nat acc sh Hsh Hp Hno (length bits) bits v0 ltac:(lia) Hwf Hbits)
    as [s [Hs Hl]].
  exists s. rewrite to_nat_mul_nrows by lia. rewrite Nat2Z.id. split; [exact Hs|].
  apply Nat2Z.inj_le in Hl. rewrite Nat2Z.inj_mul in Hl. exact Hl.
Qed.

(* ------------------------------------------------------------------------------------------ *)
(* the vertex-induced sub-graph on a closed set                                                 *)
(* ------------------------------------------------------------------------------------------ *)
Definition induced_on_row (k : nat) (X : vset) (v : Z) : list Z :=
  if X v then map (fun l => if X l then l else -1) (obtain_latters v k) else empty_row.

Lemma get_row_induced_on : forall k X v, 0 <= v < pow4 k ->
  get_row (induced_on k X) v = induced_on_row k X v.
Proof.
  intros k X v Hv. unfold get_row.
  change (induced_on k X) with (map (induced_on_row k X) (vertices_of k)).
  apply nth_map_vertices. exact Hv.
Qed.

Theorem induced_on_entry : forall k X v j, 0 <= v < pow4 k -> 0 <= j < 4 ->
  entry (induced_on k X) v j = if X v && X ((4 * v + j) mod pow4 k) then (4 * v + j) mod pow4 k else -1.
Proof.
  intros k X v j Hv Hj. unfold entry. rewrite get_row_induced_on by exact Hv.
  unfold induced_on_row. destruct (X v); cbn [andb].
  - rewrite (nth_map_lt _ _ (fun l => if X l then l else -1) _ _ (-1) (-1))
      by (unfold obtain_latters; cbn [map length]; lia).
    rewrite nth_latters by exact Hj. reflexivity.
  - apply nth_empty_row.
Qed.

Lemma induced_on_legal : forall k X, legal k (induced_on k X).
Proof.
  intros k X. split; [|split].
  - unfold induced_on. rewrite map_length. apply vertices_length.
  - unfold rows4, induced_on. apply Forall_forall. intros r Hin.
    apply in_map_iff in Hin. destruct Hin as [v [Hr _]]. subst r.
    destruct (X v); [|reflexivity]. rewrite map_length. reflexivity.
  - intros v j Hv Hj. rewrite induced_on_entry by assumption.
    destruct (X v && X ((4 * v + j) mod pow4 k)); [right|left]; reflexivity.
Qed.

Lemma live_filter_length : forall (X : vset) l, Forall (fun w => 0 <= w) l ->
  length (live_entries (map (fun w => if X w then w else -1) l)) = length (filter X l).
Proof.
  intros X l H. induction H as [|w l Hw Hl IH]; cbn [map live_entries filter]; [reflexivity|].
  fold (live_entries (map (fun w => if X w then w else -1) l)).
  destruct (X w) eqn:E.
  - destruct (0 <=? w) eqn:E0; [|lia]. cbn [length]. rewrite IH. reflexivity.
  - destruct (0 <=? -1) eqn:E0; [lia|]. exact IH.
Qed.

Theorem induced_on_radix : forall k X v, (1 <= k)%nat -> vin k X v -> radix (induced_on k X) v = succ_count k X v.
Proof.
  intros k X v _ [Hv HX]. rewrite radix_outdeg. unfold outdeg, out_degree, succ_count.
  rewrite get_row_induced_on by exact Hv. unfold induced_on_row. rewrite HX.
  rewrite live_filter_length; [reflexivity|].
  eapply Forall_impl; [|apply latters_in_range; exact Hv]. cbv beta. intros w Hw. lia.
Qed.

(* an arc of the induced graph out of a member leads to a member *)
Lemma induced_on_arc : forall k X v j, vin k X v -> 0 <= j < 4 -> 0 <= entry (induced_on k X) v j ->
  vin k X (entry (induced_on k X) v j).
Proof.
  intros k X v j [Hv HX] Hj He. pose proof (pow4_pos k) as Hp.
  rewrite induced_on_entry in * by assumption. rewrite HX in *. cbn [andb] in *.
  destruct (X ((4 * v + j) mod pow4 k)) eqn:E; [|lia].
  split; [apply Z.mod_pos_bound; exact Hp|exact E].
Qed.

Lemma induced_on_reach_vin : forall k X v w, reach (induced_on k X) v w -> vin k X v -> vin k X w.
Proof.
  intros k X v w H. induction H as [v|v j w Hj He Hr IH]; intros Hv; [exact Hv|].
  apply IH. apply induced_on_arc; assumption.
Qed.

(* reach_branch in X is reachability to a branching vertex in the induced graph *)
Lemma reach_branch_reach : forall k X v, (1 <= k)%nat -> reach_branch k X v ->
  exists w, reach (induced_on k X) v w /\ branching (induced_on k X) w.
Proof.
  intros k X v Hk H. induction H as [v Hv Hs|v w Hv Hin Hw Hrb IH].
  - exists v. split; [apply reach_refl|]. unfold branching. rewrite <- radix_outdeg.
    rewrite induced_on_radix by assumption. exact Hs.
  - destruct IH as [b [Hwb Hb]]. exists b. split; [|exact Hb].
    unfold obtain_latters in Hin. apply in_map4 in Hin. destruct Hin as [j [Hj Ew]].
    replace (v * 4 + j) with (4 * v + j) in Ew by lia.
    destruct Hv as [Hv HXv]. destruct Hw as [Hw HXw].
    assert (Ee : entry (induced_on k X) v j = w).
    { rewrite induced_on_entry by assumption. rewrite <- Ew, HXv, HXw. reflexivity. }
    apply (reach_step _ v j b Hj); rewrite Ee; [lia|exact Hwb].
Qed.

Theorem closed_wf : forall k t X v0, (1 <= k)%nat -> 1 <= t -> closed k t X -> vin k X v0 ->
  wf_from (induced_on k X) v0 /\ shaped (induced_on k X) /\ nrows (induced_on k X) = pow4 k.
Proof.
  intros k t X v0 Hk Ht [Hdeg Hrb] Hv0.
  destruct (legal_shaped k _ (induced_on_legal k X)) as [Hsh Hn].
  split; [|split; assumption].
  intros v Hr. pose proof (induced_on_reach_vin k X v0 v Hr Hv0) as Hv.
  pose proof (Hdeg v Hv) as Hs. rewrite <- induced_on_radix in Hs by assumption.
  split; [unfold in_range; rewrite Hn; exact (proj1 Hv)|]. split.
  - pose proof (radix_pos_live (induced_on k X) v ltac:(lia)) as Hin.
    apply live_cols_range in Hin; [|exact (proj1 Hsh)].
    exists (hd 0 (live_cols (induced_on k X) v)). exact Hin.
  - destruct (Z_lt_ge_dec t 2) as [Hlt|Hge].
    + apply reach_branch_reach; [exact Hk|]. apply Hrb; [lia|exact Hv].
    + exists v. split; [apply reach_refl|]. unfold branching. rewrite <- radix_outdeg. lia.
Qed.

Theorem closed_all_branching : forall k t X v0 v, (1 <= k)%nat -> 2 <= t -> closed k t X -> vin k X v0 ->
  reach (induced_on k X) v0 v -> t <= radix (induced_on k X) v.
Proof.
  intros k t X v0 v Hk Ht [Hdeg _] Hv0 Hr.
  pose proof (induced_on_reach_vin k X v0 v Hr Hv0) as Hv.
  rewrite induced_on_radix by assumption. apply Hdeg. exact Hv.
Qed.

Print Assumptions ref_encode_fuel_mono.
Print Assumptions ref_encode_fast_fuel_mono.
Print Assumptions wf_from_step.
Print Assumptions deg1_run_bounded.
Print Assumptions ref_encode_total.
Print Assumptions ref_encode_fast_total.
Print Assumptions induced_on_entry.
Print Assumptions induced_on_radix.
Print Assumptions closed_wf.
Print Assumptions closed_all_branching.
