(* FilterProofs.v -- C12: the local filter implements its documented window predicate, for every
   string of code points and every configuration (integer thresholds: see Filter.v). *)
From Coq Require Import Lia ZifyBool.
From DSW Require Import Py Filter Spec FilterSpec.
Ltac Zify.zify_post_hook ::= Z.to_euclidean_division_equations.

(* ------------------------------------------------------------------------------------------ *)
(* substring test                                                                              *)

Lemma prefixZ_spec : forall p s, prefixZ p s = true <-> exists b, s = p ++ b.
Proof.
  induction p as [|x p IH]; intros s.
  - cbn [prefixZ app]. split; [intros _; exists s; reflexivity | reflexivity].
  - destruct s as [|y s].
    + cbn [prefixZ]. split; [discriminate | intros [b Hb]; discriminate].
    + cbn [prefixZ]. rewrite andb_true_iff, Z.eqb_eq, IH. split.
      * intros [-> [b ->]]. exists b. reflexivity.
      * intros [b Hb]. cbn [app] in Hb. injection Hb as -> ->.
        split; [reflexivity | exists b; reflexivity].
Qed.

(* substring test = contiguous occurrence *)
Theorem infixZ_occurs : forall m s, infixZ m s = true <-> occurs m s.
Proof.
  intros m s. unfold occurs. induction s as [|y s IH].
  - cbn [infixZ]. rewrite orb_false_r, prefixZ_spec. split.
    + intros [b Hb]. exists [], b. exact Hb.
    + intros [a [b H]]. destruct a as [|z a]; [exists b; exact H | discriminate].
  - cbn [infixZ]. rewrite orb_true_iff, prefixZ_spec, IH. split.
    + intros [[b Hb] | [a [b H]]].
      * exists [], b; exact Hb.
      * exists (y :: a), b. rewrite H; reflexivity.
    + intros [a [b H]]. destruct a as [|z a].
      * left; exists b; exact H.
      * right. cbn [app] in H. injection H as -> ->. exists a, b; reflexivity.
Qed.

Lemma infixZ_false_iff : forall m s, infixZ m s = false <-> ~ occurs m s.
Proof.
  intros m s. rewrite <- infixZ_occurs. destruct (infixZ m s); split; congruence.
Qed.

Lemma negb_existsb_iff : forall (A : Type) (f : A -> bool) (l : list A),
  negb (existsb f l) = true <-> forall x, In x l -> f x = false.
Proof.
  intros A f l. rewrite negb_true_iff. induction l as [|y l IH].
  - cbn [existsb In]. split; [intros _ x [] | reflexivity].
  - cbn [existsb In]. rewrite orb_false_iff, IH. split.
    + intros [Hy H] x [<- | Hx]; [exact Hy | apply H; exact Hx].
    + intros H. split; [apply H; left; reflexivity | intros x Hx; apply H; right; exact Hx].
Qed.

(* ------------------------------------------------------------------------------------------ *)
(* the four blocks of [valid] and the four clauses of [window_pred]                            *)

Definition chars_b (s : list Z) : bool := forallb is_acgt s.
Definition runs_b (c : cfg) (s : list Z) : bool :=
  match f_run c with
  | Some r => negb (existsb (fun n => infixZ (repeat n (Z.to_nat (1 + r))) s) [chA; chC; chG; chT])
  | None => true end.
Definition motifs_b (c : cfg) (s : list Z) : bool :=
  match f_motifs c with
  | Some ms => negb (existsb (fun m => infixZ m s || infixZ (reverse_complement m) s) ms)
  | None => true end.
Definition gc_b (c : cfg) (s : list Z) : bool :=
  match f_gc c with
  | Some (gmin, gmax, amax) =>
      let n := Z.of_nat (length s) in
      if f_k c <=? n
      then windows_ok (Z.to_nat (n - f_k c + 1)) (Z.to_nat (f_k c)) gmin gmax s
      else negb (gmax <? gc_count s) && negb (amax <? at_count s)
  | None => true end.

Lemma valid_false_eq : forall c s,
  valid c false s = chars_b s && runs_b c s && motifs_b c s && gc_b c s.
Proof. reflexivity. Qed.

Definition chars_P (s : list Z) : Prop := Forall (fun ch => is_acgt ch = true) s.
Definition runs_P (c : cfg) (s : list Z) : Prop :=
  forall r, f_run c = Some r -> forall n, In n nucleotides -> ~ occurs (repeat n (Z.to_nat (1 + r))) s.
Definition motifs_P (c : cfg) (s : list Z) : Prop :=
  forall ms, f_motifs c = Some ms -> forall m, In m ms -> ~ occurs m s /\ ~ occurs (reverse_complement m) s.
Definition gc_P (c : cfg) (s : list Z) : Prop :=
  forall gmin gmax amax, f_gc c = Some (gmin, gmax, amax) ->
        (f_k c <= Z.of_nat (length s) ->
           forall i, (i + Z.to_nat (f_k c) <= length s)%nat ->
                     gmin <= gc_count (window (Z.to_nat (f_k c)) i s) <= gmax)
        /\ (Z.of_nat (length s) < f_k c -> gc_count s <= gmax /\ at_count s <= amax).

Lemma window_pred_eq : forall c s,
  window_pred c s <-> chars_P s /\ runs_P c s /\ motifs_P c s /\ gc_P c s.
Proof. intros c s. reflexivity. Qed.

Lemma chars_b_iff : forall s, chars_b s = true <-> chars_P s.
Proof.
  intros s. unfold chars_b, chars_P. rewrite forallb_forall, Forall_forall. reflexivity.
Qed.

Lemma runs_b_iff : forall c s, runs_b c s = true <-> runs_P c s.
Proof.
  intros c s. unfold runs_b, runs_P. destruct (f_run c) as [r|].
  - rewrite negb_existsb_iff. split.
    + intros H r0 E n Hn. injection E as <-. apply infixZ_false_iff. apply H. exact Hn.
    + intros H n Hn. apply infixZ_false_iff. apply (H r eq_refl). exact Hn.
  - split; [intros _ r E; discriminate | reflexivity].
Qed.

Lemma motifs_b_iff : forall c s, motifs_b c s = true <-> motifs_P c s.
Proof.
  intros c s. unfold motifs_b, motifs_P. destruct (f_motifs c) as [ms|].
  - rewrite negb_existsb_iff. split.
    + intros H ms0 E m Hm. injection E as <-. specialize (H m Hm).
      rewrite orb_false_iff, !infixZ_false_iff in H. exact H.
    + intros H m Hm. rewrite orb_false_iff, !infixZ_false_iff. apply (H ms eq_refl). exact Hm.
  - split; [intros _ r E; discriminate | reflexivity].
Qed.

Lemma windows_ok_iff : forall fuel k gmin gmax obs,
  windows_ok fuel k gmin gmax obs = true <->
  forall i, (i < fuel)%nat -> (i <= length obs)%nat ->
            gmin <= gc_count (firstn k (skipn i obs)) <= gmax.
Proof.
  induction fuel as [|f IH]; intros k gmin gmax obs.
  - cbn [windows_ok]. split; [intros _ i Hi; lia | reflexivity].
  - cbn [windows_ok].
    destruct (gmax <? gc_count (firstn k obs)) eqn:E1.
    { split; [discriminate|]. intros H.
      specialize (H O ltac:(lia) ltac:(lia)). cbn [skipn] in H. lia. }
    destruct (gc_count (firstn k obs) <? gmin) eqn:E2.
    { split; [discriminate|]. intros H.
      specialize (H O ltac:(lia) ltac:(lia)). cbn [skipn] in H. lia. }
    destruct obs as [|x t].
    + split; [|reflexivity]. intros _ i Hi Hle. cbn [length] in Hle.
      assert (i = O) by lia. subst i. cbn [skipn]. lia.
    + rewrite IH. split.
      * intros H i Hi Hle. destruct i as [|i].
        -- cbn [skipn]. lia.
        -- cbn [skipn]. apply H; cbn [length] in Hle; lia.
      * intros H i Hi Hle. apply (H (S i)); cbn [length]; lia.
Qed.

Lemma gc_b_iff : forall c s, gc_b c s = true <-> gc_P c s.
Proof.
  intros c s. unfold gc_b, gc_P. destruct (f_gc c) as [[[gmin gmax] amax]|].
  - cbv zeta. destruct (f_k c <=? Z.of_nat (length s)) eqn:Ek.
    + rewrite windows_ok_iff. split.
      * intros H a b d E. injection E as <- <- <-. split; [|lia].
        intros _ i Hi. unfold window. apply H; lia.
      * intros H i Hi Hle. destruct (H _ _ _ eq_refl) as [H1 _].
        apply H1; lia.
    + rewrite andb_true_iff, !negb_true_iff, !Z.ltb_ge. split.
      * intros H a b d E. injection E as <- <- <-. split; [lia|]. intros _. exact H.
      * intros H. destruct (H _ _ _ eq_refl) as [_ H2]. apply H2. lia.
  - split; [intros _ a b d E; discriminate | reflexivity].
Qed.

(* the whole-sequence verdict is the documented predicate *)
Theorem valid_whole : forall c s, 1 <= f_k c -> (valid c false s = true <-> window_pred c s).
Proof.
  intros c s Hk. rewrite valid_false_eq, window_pred_eq, !andb_true_iff.
  rewrite chars_b_iff, runs_b_iff, motifs_b_iff, gc_b_iff. tauto.
Qed.

(* the last-window verdict equals the whole-sequence verdict of the final window *)
Theorem valid_last : forall c s, valid c true s = valid c false (py_slice_from s (- f_k c)).
Proof. intros c s. reflexivity. Qed.


(* Theorem last_window_is_suffix : forall (s : list Z) k, 0 <= k ->
     py_slice_from s (- k) = skipn (length s - Z.to_nat k) s.
   FALSE of the model for k = 0 and a nonempty s: Python's s[-0:] is s[0:], the whole string, while
   skipn (length s - 0) s is empty.  Counterexample (s = "A", k = 0): *)
Eval vm_compute in (py_slice_from [65] (- 0), skipn (length [65] - Z.to_nat 0) [65]).
(*   = ([65], [])  *)
Theorem last_window_is_suffix_counterexample :
  0 <= 0 /\ py_slice_from [65] (- 0) <> skipn (length [65] - Z.to_nat 0) [65].
Proof. split; [lia | vm_compute; discriminate]. Qed.

Ltac split_ifs :=
  repeat (match goal with
          | |- context[if ?b then _ else _] =>
              lazymatch b with
              | context[if _ then _ else _] => fail
              | _ => destruct b eqn:?
              end
          end; cbv iota).

Lemma clampZ_self : forall n, 0 <= n -> clampZ n n = n.
Proof. intros n Hn. unfold clampZ. cbv zeta. split_ifs; lia. Qed.
Lemma clampZ_neg : forall n k, 0 <= n -> 1 <= k -> clampZ n (- k) = Z.max 0 (n - k).
Proof. intros n k Hn Hk. unfold clampZ. cbv zeta. split_ifs; lia. Qed.

(* true with the extra hypothesis 1 <= k (which every use has: the window length is >= 1) *)
Theorem last_window_is_suffix_partial : forall (s : list Z) k, 1 <= k ->
  py_slice_from s (- k) = skipn (length s - Z.to_nat k) s.
Proof.
  intros s k Hk. unfold py_slice_from, py_slice.
  rewrite clampZ_self, clampZ_neg by lia.
  replace (Z.to_nat (Z.max 0 (Z.of_nat (length s) - k))) with (length s - Z.to_nat k)%nat by lia.
  destruct (Z.of_nat (length s) <=? Z.max 0 (Z.of_nat (length s) - k)) eqn:E.
  - assert (length s = O) as H0 by lia. destruct s; [reflexivity | discriminate].
  - apply firstn_all2. rewrite skipn_length. lia.
Qed.

(* and for k = 0 the slice is the whole string *)
Lemma last_window_zero : forall (s : list Z), py_slice_from s (- 0) = s.
Proof.
  intros s. unfold py_slice_from, py_slice.
  rewrite clampZ_self by lia. change (clampZ (Z.of_nat (length s)) (- 0)) with
    (if Z.of_nat (length s) <? 0 then Z.of_nat (length s) else 0).
  destruct (Z.of_nat (length s) <? 0) eqn:E1; [lia|].
  destruct (Z.of_nat (length s) <=? 0) eqn:E.
  - assert (length s = O) as H0 by lia. destruct s; [reflexivity | discriminate].
  - change (Z.to_nat 0) with O. cbn [skipn]. apply firstn_all2. lia.
Qed.

(* ------------------------------------------------------------------------------------------ *)
(* windows                                                                                     *)

Lemma window_decomp : forall (k i : nat) (s : list Z),
  s = firstn i s ++ window k i s ++ skipn k (skipn i s).
Proof.
  intros k i s. unfold window. rewrite (firstn_skipn k (skipn i s)), firstn_skipn. reflexivity.
Qed.

Lemma window_length : forall (k i : nat) (s : list Z),
  (i + k <= length s)%nat -> length (window k i s) = k.
Proof.
  intros k i s H. unfold window. rewrite firstn_length, skipn_length. lia.
Qed.

Lemma skipn_length_app : forall (a b : list Z), skipn (length a) (a ++ b) = b.
Proof. induction a as [|x a IH]; intros b; [reflexivity | cbn [length app skipn]; apply IH]. Qed.
Lemma firstn_length_app : forall (a b : list Z), firstn (length a) (a ++ b) = a.
Proof.
  induction a as [|x a IH]; intros b; [reflexivity | cbn [length app firstn]; rewrite IH; reflexivity].
Qed.

Lemma window_app : forall (x y z : list Z), window (length y) (length x) (x ++ y ++ z) = y.
Proof. intros x y z. unfold window. rewrite skipn_length_app, firstn_length_app. reflexivity. Qed.

Lemma occurs_window : forall m k i s, occurs m (window k i s) -> occurs m s.
Proof.
  intros m k i s [a [b H]]. rewrite (window_decomp k i s), H.
  exists (firstn i s ++ a), (b ++ skipn k (skipn i s)). rewrite <- !app_assoc. reflexivity.
Qed.

Lemma occurs_some_window : forall m (k : nat) s,
  (length m <= k)%nat -> (k <= length s)%nat -> occurs m s ->
  exists i, (i + k <= length s)%nat /\ occurs m (window k i s).
Proof.
  intros m k s Hm Hk [a [b H]].
  assert (Hlen : length s = (length a + (length m + length b))%nat)
    by (rewrite H, !app_length; reflexivity).
  destruct (Nat.le_gt_cases (length a + k) (length s)) as [Hc|Hc].
  - exists (length a). split; [exact Hc|]. unfold window. rewrite H, skipn_length_app.
    rewrite firstn_app, (firstn_all2 m) by exact Hm.
    exists [], (firstn (k - length m) b). reflexivity.
  - exists (length s - k)%nat. split; [lia|]. unfold window. rewrite H at 2.
    rewrite skipn_app. replace (length s - k - length a)%nat with O by lia. cbn [skipn].
    rewrite firstn_all2.
    + exists (skipn (length s - k) a), b. reflexivity.
    + rewrite !app_length, skipn_length. lia.
Qed.

Lemma not_occurs_windows : forall m (k : nat) s,
  (length m <= k)%nat -> (k <= length s)%nat ->
  (~ occurs m s <-> forall i, (i + k <= length s)%nat -> ~ occurs m (window k i s)).
Proof.
  intros m k s Hm Hk. split.
  - intros H i Hi Ho. apply H. apply (occurs_window m k i s Ho).
  - intros H Ho. destruct (occurs_some_window m k s Hm Hk Ho) as [i [Hi Hw]]. exact (H i Hi Hw).
Qed.

Lemma occurs_singleton_In : forall x s, occurs [x] s <-> In x s.
Proof.
  intros x s. split.
  - intros [a [b ->]]. apply in_or_app. right. left. reflexivity.
  - intros H. destruct (in_split x s H) as [a [b ->]]. exists a, b. reflexivity.
Qed.

Lemma chars_P_windows : forall (k : nat) s, (1 <= k)%nat -> (k <= length s)%nat ->
  (chars_P s <-> forall i, (i + k <= length s)%nat -> chars_P (window k i s)).
Proof.
  intros k s H1 Hk. unfold chars_P. split.
  - intros H i Hi. rewrite (window_decomp k i s), !Forall_app in H. tauto.
  - intros H. apply Forall_forall. intros x Hx. apply occurs_singleton_In in Hx.
    destruct (occurs_some_window [x] k s H1 Hk Hx) as [i [Hi Hw]].
    apply occurs_singleton_In in Hw. specialize (H i Hi). rewrite Forall_forall in H.
    apply H. exact Hw.
Qed.

Lemma rc_length : forall m, length (reverse_complement m) = length m.
Proof. intros m. unfold reverse_complement. rewrite rev_length, map_length. reflexivity. Qed.

Lemma runs_P_windows : forall c (k : nat) s, k = Z.to_nat (f_k c) -> window_decidable c ->
  (k <= length s)%nat ->
  (runs_P c s <-> forall i, (i + k <= length s)%nat -> runs_P c (window k i s)).
Proof.
  intros c k s Ek [Hd _] Hk. unfold runs_P. split.
  - intros H i Hi r Er n Hn. 
    assert (Hl : (length (repeat n (Z.to_nat (1 + r))) <= k)%nat).
    { rewrite repeat_length. specialize (Hd r Er). lia. }
    apply (proj1 (not_occurs_windows _ k s Hl Hk) (H r Er n Hn) i Hi).
  - intros H r Er n Hn.
    assert (Hl : (length (repeat n (Z.to_nat (1 + r))) <= k)%nat).
    { rewrite repeat_length. specialize (Hd r Er). lia. }
    apply (not_occurs_windows _ k s Hl Hk). intros i Hi. apply (H i Hi r Er n Hn).
Qed.

Lemma motifs_P_windows : forall c (k : nat) s, k = Z.to_nat (f_k c) -> window_decidable c ->
  (k <= length s)%nat ->
  (motifs_P c s <-> forall i, (i + k <= length s)%nat -> motifs_P c (window k i s)).
Proof.
  intros c k s Ek [_ Hd] Hk. unfold motifs_P. split.
  - intros H i Hi ms Ems m Hm.
    assert (Hl : (length m <= k)%nat).
    { specialize (Hd ms Ems). rewrite Forall_forall in Hd. specialize (Hd m Hm). lia. }
    assert (Hl' : (length (reverse_complement m) <= k)%nat) by (rewrite rc_length; exact Hl).
    destruct (H ms Ems m Hm) as [Ha Hb]. split.
    + apply (proj1 (not_occurs_windows _ k s Hl Hk) Ha i Hi).
    + apply (proj1 (not_occurs_windows _ k s Hl' Hk) Hb i Hi).
  - intros H ms Ems m Hm.
    assert (Hl : (length m <= k)%nat).
    { specialize (Hd ms Ems). rewrite Forall_forall in Hd. specialize (Hd m Hm). lia. }
    assert (Hl' : (length (reverse_complement m) <= k)%nat) by (rewrite rc_length; exact Hl).
    split.
    + apply (not_occurs_windows _ k s Hl Hk). intros i Hi. apply (H i Hi ms Ems m Hm).
    + apply (not_occurs_windows _ k s Hl' Hk). intros i Hi. apply (H i Hi ms Ems m Hm).
Qed.

Lemma window_0_all : forall (k : nat) (w : list Z), (length w <= k)%nat -> window k 0 w = w.
Proof. intros k w H. unfold window. cbn [skipn]. apply firstn_all2. exact H. Qed.

Lemma gc_P_windows : forall c (k : nat) s, k = Z.to_nat (f_k c) -> 1 <= f_k c ->
  (k <= length s)%nat ->
  (gc_P c s <-> forall i, (i + k <= length s)%nat -> gc_P c (window k i s)).
Proof.
  intros c k s Ek H1 Hk. unfold gc_P. rewrite <- Ek. split.
  - intros H i Hi gmin gmax amax Eg. rewrite (window_length k i s Hi). split; [|lia].
    intros _ j Hj. assert (j = O) by lia. subst j.
    rewrite window_0_all by (rewrite window_length; lia).
    destruct (H gmin gmax amax Eg) as [Ha _]. apply Ha; [lia | exact Hi].
  - intros H gmin gmax amax Eg. split; [|lia]. intros _ i Hi.
    destruct (H i Hi gmin gmax amax Eg) as [Ha _]. rewrite (window_length k i s Hi) in Ha.
    specialize (Ha ltac:(lia) O ltac:(lia)).
    rewrite window_0_all in Ha by (rewrite window_length; lia). exact Ha.
Qed.

Lemma window_pred_windows : forall c s, 1 <= f_k c -> window_decidable c ->
  f_k c <= Z.of_nat (length s) ->
  (window_pred c s <->
   forall i, (i + Z.to_nat (f_k c) <= length s)%nat -> window_pred c (window (Z.to_nat (f_k c)) i s)).
Proof.
  intros c s H1 Hd Hk.
  assert (Hk' : (Z.to_nat (f_k c) <= length s)%nat) by lia.
  assert (H1' : (1 <= Z.to_nat (f_k c))%nat) by lia.
  rewrite window_pred_eq.
  rewrite (chars_P_windows _ s H1' Hk').
  rewrite (runs_P_windows c _ s eq_refl Hd Hk').
  rewrite (motifs_P_windows c _ s eq_refl Hd Hk').
  rewrite (gc_P_windows c _ s eq_refl H1 Hk').
  split.
  - intros [Ha [Hb [Hc Hg]]] i Hi. apply window_pred_eq. auto.
  - intros H. split; [|split; [|split]]; intros i Hi; specialize (H i Hi);
      apply window_pred_eq in H; destruct H as [Ha [Hb [Hc Hg]]]; assumption.
Qed.

Lemma In_windows : forall (k : nat) s w, (k <= length s)%nat ->
  (In w (windows k s) <-> exists i, (i + k <= length s)%nat /\ w = window k i s).
Proof.
  intros k s w Hk. unfold windows. rewrite in_map_iff. split.
  - intros [i [Hw Hi]]. apply in_seq in Hi. exists i. split; [lia | symmetry; exact Hw].
  - intros [i [Hi Hw]]. exists i. split; [symmetry; exact Hw | apply in_seq; lia].
Qed.

(* for strings at least one window long and window-decidable configurations the whole-sequence verdict is the
   conjunction of the verdicts of all windows *)
Theorem valid_local_global : forall c s, 1 <= f_k c -> window_decidable c -> f_k c <= Z.of_nat (length s) ->
  valid c false s = forallb (valid c false) (windows (Z.to_nat (f_k c)) s).
Proof.
  intros c s H1 Hd Hk. apply Bool.eq_true_iff_eq.
  assert (Hk' : (Z.to_nat (f_k c) <= length s)%nat) by lia.
  rewrite (valid_whole c s H1), (window_pred_windows c s H1 Hd Hk), forallb_forall. split.
  - intros H w Hw. apply (In_windows _ s w Hk') in Hw. destruct Hw as [i [Hi ->]].
    apply (valid_whole c _ H1). apply H. exact Hi.
  - intros H i Hi. apply (valid_whole c _ H1). apply H. apply (In_windows _ s _ Hk').
    exists i. split; [exact Hi | reflexivity].
Qed.

(* ------------------------------------------------------------------------------------------ *)
(* reverse complement                                                                          *)

Lemma is_acgt_cases : forall ch, is_acgt ch = true -> ch = 65 \/ ch = 67 \/ ch = 71 \/ ch = 84.
Proof.
  intros ch. unfold is_acgt, nuc_index.
  destruct (ch =? 65) eqn:E1; [lia|]. destruct (ch =? 67) eqn:E2; [lia|].
  destruct (ch =? 71) eqn:E3; [lia|]. destruct (ch =? 84) eqn:E4; [lia|]. discriminate.
Qed.

Lemma comp_involutive : forall ch, is_acgt ch = true -> comp_upper (comp_upper ch) = ch.
Proof.
  intros ch H. destruct (is_acgt_cases ch H) as [-> | [-> | [-> | ->]]]; reflexivity.
Qed.
Lemma comp_acgt : forall ch, is_acgt ch = true -> is_acgt (comp_upper ch) = true.
Proof.
  intros ch H. destruct (is_acgt_cases ch H) as [-> | [-> | [-> | ->]]]; reflexivity.
Qed.
Lemma comp_nucleotide : forall n, In n nucleotides -> In (comp_upper n) nucleotides.
Proof.
  intros n H. unfold nucleotides in H. cbn [In] in H.
  destruct H as [<- | [<- | [<- | [<- | []]]]]; vm_compute; tauto.
Qed.
Lemma nucleotide_acgt : forall n, In n nucleotides -> is_acgt n = true.
Proof.
  intros n H. unfold nucleotides in H. cbn [In] in H.
  destruct H as [<- | [<- | [<- | [<- | []]]]]; reflexivity.
Qed.

Lemma rc_app : forall a b, reverse_complement (a ++ b) = reverse_complement b ++ reverse_complement a.
Proof. intros a b. unfold reverse_complement. rewrite map_app, rev_app_distr. reflexivity. Qed.

Lemma rc_acgt : forall s, chars_P s -> chars_P (reverse_complement s).
Proof.
  intros s H. unfold chars_P, reverse_complement. apply Forall_rev. apply Forall_map.
  apply (Forall_impl _ comp_acgt H).
Qed.

Lemma rc_involutive : forall s, chars_P s -> reverse_complement (reverse_complement s) = s.
Proof.
  intros s H. unfold reverse_complement. rewrite map_rev, rev_involutive, map_map.
  induction H as [|x l Hx Hl IH]; [reflexivity|].
  cbn [map]. rewrite comp_involutive by exact Hx. rewrite IH. reflexivity.
Qed.

Lemma occurs_rc : forall m s, occurs m s -> occurs (reverse_complement m) (reverse_complement s).
Proof.
  intros m s [a [b ->]]. exists (reverse_complement b), (reverse_complement a).
  rewrite !rc_app, <- app_assoc. reflexivity.
Qed.

Lemma rev_repeat' : forall (x : Z) n, rev (repeat x n) = repeat x n.
Proof.
  intros x. induction n as [|n IH]; [reflexivity|].
  cbn [repeat rev]. rewrite IH. symmetry. apply repeat_cons.
Qed.
Lemma rc_repeat : forall x n, reverse_complement (repeat x n) = repeat (comp_upper x) n.
Proof.
  intros x n. unfold reverse_complement.
  replace (map comp_upper (repeat x n)) with (repeat (comp_upper x) n).
  - apply rev_repeat'.
  - induction n as [|n IH]; [reflexivity | cbn [repeat map]; rewrite IH; reflexivity].
Qed.

Lemma countZ_app : forall x a b, countZ x (a ++ b) = countZ x a + countZ x b.
Proof.
  intros x a b. induction a as [|y a IH]; [reflexivity|].
  cbn [app countZ]. rewrite IH. lia.
Qed.
Lemma countZ_rev : forall x l, countZ x (rev l) = countZ x l.
Proof.
  intros x l. induction l as [|y l IH]; [reflexivity|].
  cbn [rev]. rewrite countZ_app, IH. cbn [countZ]. lia.
Qed.

Lemma gc_char : forall ch, is_acgt ch = true ->
  (if chC =? comp_upper ch then 1 else 0) + (if chG =? comp_upper ch then 1 else 0)
  = (if chC =? ch then 1 else 0) + (if chG =? ch then 1 else 0).
Proof.
  intros ch H. destruct (is_acgt_cases ch H) as [-> | [-> | [-> | ->]]]; reflexivity.
Qed.
Lemma at_char : forall ch, is_acgt ch = true ->
  (if chA =? comp_upper ch then 1 else 0) + (if chT =? comp_upper ch then 1 else 0)
  = (if chA =? ch then 1 else 0) + (if chT =? ch then 1 else 0).
Proof.
  intros ch H. destruct (is_acgt_cases ch H) as [-> | [-> | [-> | ->]]]; reflexivity.
Qed.

Lemma gc_count_rc : forall s, chars_P s -> gc_count (reverse_complement s) = gc_count s.
Proof.
  intros s H. unfold gc_count, reverse_complement. rewrite !countZ_rev.
  induction H as [|x l Hx Hl IH]; [reflexivity|].
  cbn [map countZ]. pose proof (gc_char x Hx). lia.
Qed.
Lemma at_count_rc : forall s, chars_P s -> at_count (reverse_complement s) = at_count s.
Proof.
  intros s H. unfold at_count, reverse_complement. rewrite !countZ_rev.
  induction H as [|x l Hx Hl IH]; [reflexivity|].
  cbn [map countZ]. pose proof (at_char x Hx). lia.
Qed.

(* window i of rc s is rc of window (len - k - i) of s *)
Lemma window_rc : forall (k i : nat) s, (i + k <= length s)%nat ->
  window k i (reverse_complement s) = reverse_complement (window k (length s - k - i) s).
Proof.
  intros k i s Hi. set (j := (length s - k - i)%nat).
  assert (Hj : (j + k <= length s)%nat) by (unfold j; lia).
  pose proof (window_decomp k j s) as Hd.
  pose proof (window_length k j s Hj) as Hw.
  assert (Hb : length (skipn k (skipn j s)) = i) by (rewrite !skipn_length; unfold j; lia).
  rewrite Hd at 1. rewrite !rc_app, <- app_assoc.
  rewrite <- Hb at 1. rewrite <- Hw at 1.
  rewrite <- (rc_length (skipn k (skipn j s))), <- (rc_length (window k j s)).
  apply window_app.
Qed.

Lemma window_acgt : forall (k i : nat) s, chars_P s -> chars_P (window k i s).
Proof.
  intros k i s H. unfold chars_P in *. rewrite (window_decomp k i s), !Forall_app in H. tauto.
Qed.

Lemma window_pred_rc : forall c s, chars_P s -> motifs_acgt c ->
  window_pred c s -> window_pred c (reverse_complement s).
Proof.
  intros c s Hs Hm H. apply window_pred_eq in H. destruct H as [_ [Hr [Hmo Hg]]].
  apply window_pred_eq. split; [|split; [|split]].
  - apply rc_acgt. exact Hs.
  - intros r Er n Hn Ho. apply occurs_rc in Ho.
    rewrite rc_repeat, (rc_involutive s Hs) in Ho.
    apply (Hr r Er (comp_upper n) (comp_nucleotide n Hn) Ho).
  - intros ms Ems m Hin. destruct (Hmo ms Ems m Hin) as [Ha Hb].
    assert (Hma : chars_P m).
    { specialize (Hm ms Ems). rewrite Forall_forall in Hm. apply Hm. exact Hin. }
    split.
    + intros Ho. apply occurs_rc in Ho. rewrite (rc_involutive s Hs) in Ho. exact (Hb Ho).
    + intros Ho. apply occurs_rc in Ho.
      rewrite (rc_involutive s Hs), (rc_involutive m Hma) in Ho. exact (Ha Ho).
  - intros gmin gmax amax Eg. destruct (Hg gmin gmax amax Eg) as [Ha Hb].
    rewrite rc_length. split.
    + intros Hk i Hi. rewrite (window_rc _ i s Hi).
      rewrite gc_count_rc by (apply window_acgt; exact Hs).
      apply (Ha Hk). lia.
    + intros Hk. rewrite gc_count_rc, at_count_rc by exact Hs. apply Hb. exact Hk.
Qed.

(* an A/C/G/T string and its reverse complement always get the same verdict *)
Theorem valid_revcomp : forall c s, 1 <= f_k c -> Forall (fun ch => is_acgt ch = true) s -> motifs_acgt c ->
  valid c false (reverse_complement s) = valid c false s.
Proof.
  intros c s H1 Hs Hm. apply Bool.eq_true_iff_eq.
  rewrite (valid_whole c _ H1), (valid_whole c s H1). split.
  - intros H. rewrite <- (rc_involutive s Hs).
    apply (window_pred_rc c _ (rc_acgt s Hs) Hm H).
  - apply (window_pred_rc c s Hs Hm).
Qed.

(* ------------------------------------------------------------------------------------------ *)
(* the constructor                                                                             *)

(* what the constructor checks *)
Theorem ctor_spec : forall c, ctor_accepts c = true <->
  ((forall r, f_run c = Some r -> r <= f_k c) /\
   (forall ms, f_motifs c = Some ms -> Forall (fun m => Z.of_nat (length m) <= f_k c) ms)).
Proof.
  intros c. unfold ctor_accepts. rewrite andb_true_iff.
  assert (A : (match f_run c with Some r => negb (f_k c <? r) | None => true end) = true
              <-> forall r, f_run c = Some r -> r <= f_k c).
  { destruct (f_run c) as [r|].
    - rewrite negb_true_iff, Z.ltb_ge. split.
      + intros H r0 E. injection E as <-. exact H.
      + intros H. apply H. reflexivity.
    - split; [intros _ r E; discriminate | reflexivity]. }
  assert (B : (match f_motifs c with
               | Some ms => forallb (fun m => negb (f_k c <? Z.of_nat (length m))) ms
               | None => true end) = true
              <-> forall ms, f_motifs c = Some ms ->
                             Forall (fun m => Z.of_nat (length m) <= f_k c) ms).
  { destruct (f_motifs c) as [ms|].
    - rewrite forallb_forall. split.
      + intros H ms0 E. injection E as <-. apply Forall_forall. intros m Hin.
        specialize (H m Hin). rewrite negb_true_iff, Z.ltb_ge in H. exact H.
      + intros H m Hin. specialize (H ms eq_refl). rewrite Forall_forall in H.
        rewrite negb_true_iff, Z.ltb_ge. apply H. exact Hin.
    - split; [intros _ r E; discriminate | reflexivity]. }
  rewrite A, B. reflexivity.
Qed.

(* C02, last sentence, is FALSE of the code: the constructor accepts a maximum run equal to the window length,
   which is not window-decidable (a run of k+1 cannot be seen inside a k-window) *)
Theorem ctor_accepts_undecidable : exists c, ctor_accepts c = true /\ ~ window_decidable c
  /\ exists s, f_k c <= Z.of_nat (length s) /\ valid c false s = false
               /\ forallb (valid c false) (windows (Z.to_nat (f_k c)) s) = true.
Proof.
  exists {| f_k := 2; f_run := Some 2; f_motifs := None; f_gc := None |}.
  split; [reflexivity|]. split.
  - intros [H _]. cbn [f_run f_k] in H. specialize (H 2 eq_refl). lia.
  - exists [65; 65; 65]. split; [cbn [f_k length]; lia|].
    split; vm_compute; reflexivity.
Qed.

Print Assumptions infixZ_occurs.
Print Assumptions valid_whole.
Print Assumptions valid_last.
Print Assumptions last_window_is_suffix_counterexample.
Print Assumptions last_window_is_suffix_partial.
Print Assumptions valid_local_global.
Print Assumptions valid_revcomp.
Print Assumptions ctor_spec.
Print Assumptions ctor_accepts_undecidable.
