(* TrimMapProofs.v -- C03, last clause: trimming a latter map to threshold t >= 2 (remove_useless, through
   latter_map_to_accessor) gives the same graph as connect_coding_graph on the same mask. *)
From Coq Require Import Lia ZifyBool Permutation Sorting.Sorted.
From DSW Require Import Py Bignum Convert Kmer Graph Spec GraphSpec.
From DSW.Proofs Require Import KmerProofs GraphProofs ReprProofs GenerateProofs.
Ltac Zify.zify_post_hook ::= Z.to_euclidean_division_equations.

(* TARGET STATEMENTS (to be proved, do not change the statements):

(* what remove_useless computes on the latter map of a vertex-induced graph: the latter map of the induced graph on the
   largest subset in which every member has at least t successors *)
Theorem remove_useless_spec : forall k t mask, (1 <= k)%nat -> length mask = Z.to_nat (pow4 k) -> Forall bit mask -> 1 <= t ->
  exists X : vset,
    closed_deg k t X /\ vsub k X (maskb mask)
    /\ (forall Y, closed_deg k t Y -> vsub k Y (maskb mask) -> vsub k Y X)
    /\ remove_useless (accessor_to_latter_map (induced k mask)) t = Ok (accessor_to_latter_map (induced_on k X)).

(* the two implementations agree for t >= 2 (when the graph is empty the mask version raises ValueError, the latter-map
   version returns the arc-less accessor) *)
Theorem latter_map_trimming_agrees : forall k t mask, (1 <= k)%nat -> length mask = Z.to_nat (pow4 k) -> Forall bit mask ->
  2 <= t ->
  match connect_coding_graph k mask t with
  | Ok (V, acc) => latter_map_to_accessor (accessor_to_latter_map (induced k mask)) k (Some t) = Ok acc
  | Raise ValueError => latter_map_to_accessor (accessor_to_latter_map (induced k mask)) k (Some t) = Ok (blank_accessor k)
  | _ => False
  end.
*)
