(* TrimMapProofs.v -- C03, last clause: trimming a latter map to threshold t >= 2 (remove_useless, through
   latter_map_to_accessor) gives the same graph as connect_coding_graph on the same mask. *)
From Coq Require Import Lia ZifyBool Permutation Sorting.Sorted.
From DSW Require Import Py Bignum Convert Kmer Graph Spec GraphSpec.
From DSW.Proofs Require Import KmerProofs GraphProofs ReprProofs GenerateProofs.
Ltac Zify.zify_post_hook ::= Z.to_euclidean_division_equations.

(* TARGET STATEMENTS: remove_useless_spec and latter_map_trimming_agrees, both proved below exactly as stated. *)

(* ======================================================================================== *)
(* generic list lemmas                                                                      *)
(* ======================================================================================== *)
Lemma filter_map_swap : forall (A B : Type) (g : A -> B) (p : B -> bool) L,
  filter p (map g L) = map g (filter (fun x => p (g x)) L).
Proof.
  intros A B g p. induction L as [|x xs IH]; [reflexivity|]. cbn [map filter].
  destruct (p (g x)); cbn [map]; rewrite IH; reflexivity.
Qed.

Lemma filter_filter2 : forall (A : Type) (p q : A -> bool) L,
  filter p (filter q L) = filter (fun x => q x && p x) L.
Proof.
  intros A p q. induction L as [|x xs IH]; [reflexivity|]. cbn [filter].
  destruct (q x); cbn [andb filter]; [destruct (p x)|]; rewrite IH; reflexivity.
Qed.

Lemma filter_none : forall (A : Type) (L : list A), filter (fun _ => false) L = [].
Proof. intros A. induction L as [|x xs IH]; [reflexivity|]. cbn [filter]. exact IH. Qed.

Lemma memZ_filter : forall (p : Z -> bool) L x, memZ x (filter p L) = memZ x L && p x.
Proof.
  intros p. induction L as [|y ys IH]; intros x; [reflexivity|]. cbn [filter memZ].
  destruct (x =? y) eqn:E.
  - apply Z.eqb_eq in E. subst y. cbn [orb andb]. destruct (p x) eqn:Ep.
    + cbn [memZ]. rewrite Z.eqb_refl. reflexivity.
    + rewrite IH, Ep. apply andb_false_r.
  - cbn [orb]. destruct (p y); [cbn [memZ]; rewrite E; cbn [orb]|]; apply IH.
Qed.

Lemma memZ_vertices : forall k v, 0 <= v < pow4 k -> memZ v (vertices_of k) = true.
Proof. intros k v Hv. apply memZ_In. apply In_vertices. exact Hv. Qed.

(* ======================================================================================== *)
(* the size of a latter map and its decrease in a flagged round                             *)
(* ======================================================================================== *)
Lemma list_sum_cons : forall x l, list_sum (x :: l) = (x + list_sum l)%nat.
Proof. reflexivity. Qed.

Lemma lmap_size_sum : forall m, lmap_size m = list_sum (map (fun kv => length (snd kv)) m).
Proof.
  intros m. unfold lmap_size.
  assert (G : forall (l : lmap) a, fold_left (fun a kv => (a + length (snd kv))%nat) l a
                          = (a + list_sum (map (fun kv => length (snd kv)) l))%nat).
  { induction l as [|x xs IH]; intros a; cbn [fold_left map]; [cbn; lia|]. rewrite IH, list_sum_cons. lia. }
  rewrite G. lia.
Qed.

Lemma filter_length_strict : forall (ok : Z -> bool) ls, existsb (fun l => negb (ok l)) ls = true ->
  (length (filter ok ls) < length ls)%nat.
Proof.
  intros ok. induction ls as [|x xs IH]; intros H; cbn [existsb] in H; [discriminate|].
  cbn [filter]. pose proof (filter_length_bound ok xs) as Hb.
  destruct (ok x); cbn [negb orb] in H; cbn [length]; [apply IH in H; lia | lia].
Qed.

Lemma sum_filter_le : forall (ok : Z -> bool) (L : lmap),
  (list_sum (map (fun kv => length (filter ok (snd kv))) L) <= list_sum (map (fun kv => length (snd kv)) L))%nat.
Proof.
  intros ok. induction L as [|x xs IH]; cbn [map]; [lia|]. rewrite !list_sum_cons.
  pose proof (filter_length_bound ok (snd x)). lia.
Qed.

Lemma sum_filter_lt : forall (ok : Z -> bool) (L : lmap),
  existsb (fun kv => existsb (fun l => negb (ok l)) (snd kv)) L = true ->
  (list_sum (map (fun kv => length (filter ok (snd kv))) L) < list_sum (map (fun kv => length (snd kv)) L))%nat.
Proof.
  intros ok. induction L as [|x xs IH]; intros H; cbn [existsb] in H; [discriminate|].
  cbn [map]. rewrite !list_sum_cons. pose proof (sum_filter_le ok xs) as Hle.
  pose proof (filter_length_bound ok (snd x)) as Hb.
  destruct (existsb (fun l => negb (ok l)) (snd x)) eqn:E.
  - apply filter_length_strict in E. lia.
  - cbn [orb] in H. apply IH in H. lia.
Qed.

Lemma sum_sub_le : forall (p : Z * list Z -> bool) (L : lmap),
  (list_sum (map (fun kv => length (snd kv)) (filter p L)) <= list_sum (map (fun kv => length (snd kv)) L))%nat.
Proof.
  intros p. induction L as [|x xs IH]; cbn [filter map]; [lia|].
  destruct (p x); cbn [map]; rewrite ?list_sum_cons; lia.
Qed.

Lemma round_decrease : forall m t, snd (useless_round m t) = true ->
  (lmap_size (fst (useless_round m t)) < lmap_size m)%nat.
Proof.
  intros m t. unfold useless_round. cbv zeta. cbn [fst snd].
  set (removed := keys (filter (fun kv => Z.of_nat (length (snd kv)) <? t) m)).
  set (saved := keys (filter (fun kv => negb (Z.of_nat (length (snd kv)) <? t)) m)).
  set (ok := fun l : Z => negb (memZ l removed) && memZ l saved).
  set (kept := filter (fun kv => negb (memZ (fst kv) removed)) m).
  intros H. rewrite !lmap_size_sum. rewrite map_map. cbn [snd].
  pose proof (sum_filter_lt ok kept H) as H1.
  pose proof (sum_sub_le (fun kv => negb (memZ (fst kv) removed)) m) as H2.
  fold kept in H2. lia.
Qed.

(* ======================================================================================== *)
(* maps described by a key set K and a successor set S                                      *)
(* ======================================================================================== *)
Definition st (k : nat) (K S : vset) : lmap :=
  map (fun v => (v, filter S (obtain_latters v k))) (filter K (vertices_of k)).

Lemma st_ext : forall k K1 S1 K2 S2,
  (forall v, 0 <= v < pow4 k -> K1 v = K2 v) ->
  (forall v, 0 <= v < pow4 k -> K1 v = true -> forall l, In l (obtain_latters v k) -> S1 l = S2 l) ->
  st k K1 S1 = st k K2 S2.
Proof.
  intros k K1 S1 K2 S2 HK HS. unfold st.
  rewrite <- (filter_ext_in K1 K2 (vertices_of k)) by (intros v Hv; apply HK; apply In_vertices; exact Hv).
  apply map_ext_in. intros v Hv. apply filter_In in Hv. destruct Hv as [Hv HKv]. apply In_vertices in Hv.
  f_equal. apply filter_ext_in. intros l Hl. apply (HS v Hv HKv l Hl).
Qed.

Lemma lmap_from_map : forall (f : Z -> list Z) n s,
  lmap_from (map f (zrange_from s n)) s
  = map (fun v => (v, live_entries (f v))) (filter (fun v => row_listed (f v)) (zrange_from s n)).
Proof.
  intros f. induction n as [|n IH]; intros s; [reflexivity|].
  cbn [zrange_from map lmap_from filter]. destruct (row_listed (f s)); cbn [map]; rewrite IH; reflexivity.
Qed.

Lemma latter_map_induced_on : forall k X,
  accessor_to_latter_map (induced_on k X) = st k (fun v => X v && existsb X (obtain_latters v k)) X.
Proof.
  intros k X. unfold accessor_to_latter_map. rewrite induced_on_unfold. unfold st, vertices_of, zrange.
  rewrite lmap_from_map.
  assert (HF : forall v, row_listed (on_row k X v) = X v && existsb X (obtain_latters v k)).
  { intros v. unfold on_row. destruct (X v); cbn [andb]; [|reflexivity].
    apply row_listed_sel. apply latters_nonneg. }
  rewrite (filter_ext _ _ HF).
  apply map_ext_in. intros v Hv. apply filter_In in Hv. destruct Hv as [_ Hv].
  apply andb_true_iff in Hv. destruct Hv as [HX _]. f_equal. unfold on_row. rewrite HX.
  apply live_entries_sel. apply latters_nonneg.
Qed.

(* ---- one round on such a map ------------------------------------------------------------- *)
Definition lo (k : nat) (S : vset) (t : Z) (v : Z) : bool :=
  Z.of_nat (length (filter S (obtain_latters v k))) <? t.
Definition nextK (k : nat) (K S : vset) (t : Z) : vset := fun v => K v && negb (lo k S t v).
Definition nextS (k : nat) (K S : vset) (t : Z) : vset := fun l => S l && nextK k K S t l.

Lemma keys_filter_st : forall (p : list Z -> bool) k K S,
  keys (filter (fun kv => p (snd kv)) (st k K S))
  = filter (fun v => p (filter S (obtain_latters v k))) (filter K (vertices_of k)).
Proof.
  intros p k K S. unfold st, keys. rewrite filter_map_swap. cbn [snd]. rewrite map_map. cbn [fst].
  apply map_id.
Qed.

Lemma removed_st : forall k K S t,
  keys (filter (fun kv => Z.of_nat (length (snd kv)) <? t) (st k K S))
  = filter (lo k S t) (filter K (vertices_of k)).
Proof. intros k K S t. exact (keys_filter_st (fun ls => Z.of_nat (length ls) <? t) k K S). Qed.

Lemma saved_st : forall k K S t,
  keys (filter (fun kv => negb (Z.of_nat (length (snd kv)) <? t)) (st k K S))
  = filter (fun v => negb (lo k S t v)) (filter K (vertices_of k)).
Proof. intros k K S t. exact (keys_filter_st (fun ls => negb (Z.of_nat (length ls) <? t)) k K S). Qed.

Lemma mem_removed : forall k K S t l, 0 <= l < pow4 k ->
  memZ l (filter (lo k S t) (filter K (vertices_of k))) = K l && lo k S t l.
Proof. intros k K S t l Hl. rewrite !memZ_filter, memZ_vertices by exact Hl. reflexivity. Qed.

Lemma mem_saved : forall k K S t l, 0 <= l < pow4 k ->
  memZ l (filter (fun v => negb (lo k S t v)) (filter K (vertices_of k))) = K l && negb (lo k S t l).
Proof. intros k K S t l Hl. rewrite !memZ_filter, memZ_vertices by exact Hl. reflexivity. Qed.

Lemma ok_st : forall k K S t l, 0 <= l < pow4 k ->
  negb (memZ l (filter (lo k S t) (filter K (vertices_of k))))
  && memZ l (filter (fun v => negb (lo k S t v)) (filter K (vertices_of k))) = nextK k K S t l.
Proof.
  intros k K S t l Hl. rewrite mem_removed, mem_saved by exact Hl. unfold nextK.
  destruct (K l), (lo k S t l); reflexivity.
Qed.

Lemma kept_st : forall k K S t,
  filter (fun kv => negb (memZ (fst kv) (filter (lo k S t) (filter K (vertices_of k))))) (st k K S)
  = st k (nextK k K S t) S.
Proof.
  intros k K S t. unfold st. rewrite filter_map_swap. cbn [fst]. f_equal. rewrite filter_filter2.
  apply filter_ext_in. intros v Hv. apply In_vertices in Hv. rewrite mem_removed by exact Hv.
  unfold nextK. destruct (K v), (lo k S t v); reflexivity.
Qed.

Lemma round_fst : forall k K S t,
  fst (useless_round (st k K S) t) = st k (nextK k K S t) (nextS k K S t).
Proof.
  intros k K S t. unfold useless_round. cbv zeta. cbn [fst].
  rewrite removed_st, saved_st, kept_st. unfold st. rewrite map_map. cbn [fst snd].
  apply map_ext_in. intros v Hv. f_equal. rewrite filter_filter2. apply filter_ext_in. intros l Hl.
  rewrite ok_st by (apply (latters_range k v l Hl)). reflexivity.
Qed.

Lemma round_snd : forall k K S t, snd (useless_round (st k K S) t) = false ->
  forall v, 0 <= v < pow4 k -> nextK k K S t v = true ->
  forall l, In l (obtain_latters v k) -> S l = true -> nextK k K S t l = true.
Proof.
  intros k K S t. unfold useless_round. cbv zeta. cbn [snd].
  rewrite removed_st, saved_st, kept_st. intros H v Hv HK l Hl HS.
  destruct (nextK k K S t l) eqn:E; [reflexivity|]. exfalso.
  rewrite <- Bool.not_true_iff_false in H. apply H. apply existsb_exists.
  exists (v, filter S (obtain_latters v k)). split.
  - unfold st. apply in_map_iff. exists v. split; [reflexivity|]. apply filter_In. split; [|exact HK].
    apply In_vertices. exact Hv.
  - cbn [snd]. apply existsb_exists. exists l. split; [apply filter_In; split; assumption|].
    rewrite ok_st by (apply (latters_range k v l Hl)). rewrite E. reflexivity.
Qed.

(* ======================================================================================== *)
(* the iteration                                                                            *)
(* ======================================================================================== *)
Lemma fuel_spec : forall k t (M : vset), 1 <= t -> forall fuel K S,
  (forall v, 0 <= v < pow4 k -> K v = true -> M v = true) ->
  (forall v, 0 <= v < pow4 k -> K v = true -> S v = true) ->
  (forall Y, closed_deg k t Y -> vsub k Y M -> forall v, vin k Y v -> K v = true /\ S v = true) ->
  (lmap_size (st k K S) < fuel)%nat ->
  exists X : vset,
    closed_deg k t X /\ vsub k X M
    /\ (forall Y, closed_deg k t Y -> vsub k Y M -> vsub k Y X)
    /\ remove_useless_fuel fuel (st k K S) t = Ok (accessor_to_latter_map (induced_on k X)).
Proof.
  intros k t M Ht. induction fuel as [|f IH]; intros K S HKM HKS HY Hsz; [lia|].
  cbn [remove_useless_fuel].
  pose proof (round_fst k K S t) as Hf. pose proof (round_snd k K S t) as Hs.
  pose proof (round_decrease (st k K S) t) as Hd.
  destruct (useless_round (st k K S) t) as [m' flag]. cbn [fst snd] in Hf, Hs, Hd. subst m'.
  assert (HYK : forall Y, closed_deg k t Y -> vsub k Y M -> forall v, vin k Y v -> nextK k K S t v = true).
  { intros Y Hc Hsub v Hv. destruct (HY Y Hc Hsub v Hv) as [HKv _].
    assert (HYS : vsub k Y S).
    { intros w Hw. split; [apply Hw|]. apply (HY Y Hc Hsub w Hw). }
    pose proof (succ_count_mono k Y S v HYS) as Hm. pose proof (Hc v Hv) as Hcv.
    unfold succ_count in Hm, Hcv. unfold nextK, lo. rewrite HKv. cbn [andb].
    destruct (Z.of_nat (length (filter S (obtain_latters v k))) <? t) eqn:E; [lia|reflexivity]. }
  assert (HK'K : forall v, nextK k K S t v = true -> K v = true).
  { intros v H. unfold nextK in H. apply andb_true_iff in H. apply H. }
  destruct flag.
  - apply IH.
    + intros v Hv H. apply HKM; [exact Hv|]. apply HK'K. exact H.
    + intros v Hv H. unfold nextS. rewrite H. rewrite (HKS v Hv (HK'K v H)). reflexivity.
    + intros Y Hc Hsub v Hv. pose proof (HYK Y Hc Hsub v Hv) as H1. split; [exact H1|].
      unfold nextS. rewrite H1. destruct (HY Y Hc Hsub v Hv) as [_ H2]. rewrite H2. reflexivity.
    + specialize (Hd eq_refl). lia.
  - specialize (Hs eq_refl). exists (nextK k K S t).
    assert (Hcd : closed_deg k t (nextK k K S t)).
    { intros v [Hv HK']. unfold succ_count.
      pose proof (filter_length_le S (nextK k K S t) (obtain_latters v k) (fun l Hl HS => Hs v Hv HK' l Hl HS)) as Hle.
      unfold nextK, lo in HK'. apply andb_true_iff in HK'. destruct HK' as [_ HK'].
      destruct (Z.of_nat (length (filter S (obtain_latters v k))) <? t) eqn:E; [discriminate|]. lia. }
    split; [exact Hcd|]. split; [|split].
    + intros v [Hv H]. split; [exact Hv|]. apply HKM; [exact Hv|]. apply HK'K. exact H.
    + intros Y Hc Hsub v Hv. split; [apply Hv|]. apply (HYK Y Hc Hsub v Hv).
    + f_equal. rewrite latter_map_induced_on. apply st_ext.
      * intros v Hv. destruct (nextK k K S t v) eqn:E; [|reflexivity]. cbn [andb].
        rewrite existsb_filter. pose proof (Hcd v (conj Hv E)) as H. unfold succ_count in H. lia.
      * intros v Hv HK' l Hl. unfold nextS. destruct (nextK k K S t l) eqn:E; [|apply andb_false_r].
        rewrite (HKS l (latters_range k v l Hl) (HK'K l E)). reflexivity.
Qed.

Theorem remove_useless_spec : forall k t mask, (1 <= k)%nat -> length mask = Z.to_nat (pow4 k) -> Forall bit mask -> 1 <= t ->
  exists X : vset,
    closed_deg k t X /\ vsub k X (maskb mask)
    /\ (forall Y, closed_deg k t Y -> vsub k Y (maskb mask) -> vsub k Y X)
    /\ remove_useless (accessor_to_latter_map (induced k mask)) t = Ok (accessor_to_latter_map (induced_on k X)).
Proof.
  intros k t mask _ _ _ Ht. rewrite induced_eq_induced_on. rewrite latter_map_induced_on.
  unfold remove_useless. apply fuel_spec; [exact Ht| | | |lia].
  - intros v _ H. apply andb_true_iff in H. apply H.
  - intros v _ H. apply andb_true_iff in H. apply H.
  - intros Y Hc Hsub v Hv. destruct (Hsub v Hv) as [Hr HM]. rewrite HM. cbn [andb]. split; [|reflexivity].
    rewrite existsb_filter.
    pose proof (succ_count_mono k Y (maskb mask) v Hsub) as Hm. pose proof (Hc v Hv) as Hcv.
    unfold succ_count in Hm, Hcv. lia.
Qed.

Theorem latter_map_trimming_agrees : forall k t mask, (1 <= k)%nat -> length mask = Z.to_nat (pow4 k) -> Forall bit mask ->
  2 <= t ->
  match connect_coding_graph k mask t with
  | Ok (V, acc) => latter_map_to_accessor (accessor_to_latter_map (induced k mask)) k (Some t) = Ok acc
  | Raise ValueError => latter_map_to_accessor (accessor_to_latter_map (induced k mask)) k (Some t) = Ok (blank_accessor k)
  | _ => False
  end.
Proof.
  intros k t mask Hk Hl Hb Ht.
  destruct (remove_useless_spec k t mask Hk Hl Hb ltac:(lia)) as [X [Hcd [Hsub [Hmax Heq]]]].
  assert (HLC : largest_closed k t (maskb mask) X).
  { split; [split; [exact Hcd | intros H; lia]|]. split; [exact Hsub|].
    intros Y [HYc _] HYs. apply Hmax; assumption. }
  pose proof (coding_graph_t2 k t mask Hk Hl Hb Ht) as HC.
  unfold latter_map_to_accessor. rewrite Heq. cbn [bind].
  destruct (connect_coding_graph k mask t) as [[V acc]|e|].
  - destruct HC as [HL [Hacc [Hleg _]]].
    pose proof (largest_closed_unique k t (maskb mask) X (live_set acc) HLC HL) as Hiff.
    assert (Hveq : veq k X (live_set acc)).
    { intros v Hv. destruct (X v) eqn:E1, (live_set acc v) eqn:E2; try reflexivity.
      - destruct (proj1 (Hiff v) (conj Hv E1)) as [_ H]. congruence.
      - destruct (proj2 (Hiff v) (conj Hv E2)) as [_ H]. congruence. }
    rewrite (induced_on_ext k X (live_set acc) Hveq). rewrite <- Hacc.
    apply (latter_map_roundtrip_partial k acc Hk Hleg).
  - destruct e; try exact HC.
    assert (Hemp : vempty k X).
    { apply HC; [|exact Hsub]. destruct HLC as [H _]. exact H. }
    rewrite latter_map_induced_on.
    rewrite (st_ext k _ X (fun _ => false) X).
    + unfold st. rewrite filter_none. reflexivity.
    + intros v Hv. destruct (X v) eqn:E; [|reflexivity]. exfalso. apply (Hemp v). split; assumption.
    + intros v _ _ l _. reflexivity.
  - exact HC.
Qed.

Print Assumptions remove_useless_spec.
Print Assumptions latter_map_trimming_agrees.
