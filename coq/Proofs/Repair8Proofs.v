(* Repair8Proofs.v -- C08: on graphs produced by graph generation (legal and vertex-induced), a single
   substitution / insertion / deletion at an interior position p in [k, n - 2k) of a walk w is detected exactly
   when the corrupted strand is no longer a walk, is detected exactly once, and the original walk is among the
   candidates (also when the check of w is supplied). *)
From Coq Require Import Lia ZifyBool Sorting.Sorted.
From DSW Require Import Py Bignum Convert Kmer Graph Coder Repair Filter Spec GraphSpec CoderSpec FilterSpec RepairSpec.
From DSW.Proofs Require Import KmerProofs GraphProofs ConvertProofs ShuffleProofs VTProofs WalkProofs TerminationProofs
     GeneratedProofs RepairProofs.
Ltac Zify.zify_post_hook ::= Z.to_euclidean_division_equations.

(* the check supplied to repair is absent or is the check of the ORIGINAL walk w *)
Definition check_of (w : list Z) (vt : option (list Z)) : Prop :=
  vt = None \/ exists n chk, 1 <= n /\ set_vt w n = Ok chk /\ vt = Some chk.

(* TARGET STATEMENTS (to be proved, do not change the statements):

Theorem repair_single_sub : forall k acc v0 w p c vt indel heap, generated k acc -> 0 <= v0 < pow4 k ->
  is_walk acc v0 w -> (k <= p)%nat -> (p + 2 * k < length w)%nat -> is_acgt c = true -> c <> nth p w 0 ->
  check_of w vt -> 8 * Z.of_nat k <= heap ->
  exists cands st, repair_dna (edit_sub w p c) acc v0 (Z.of_nat k) vt indel heap = Ok (cands, st)
     /\ (detected st = 1 <-> ~ is_walk acc v0 (edit_sub w p c))
     /\ (is_walk acc v0 (edit_sub w p c) -> detected st = 0)
     /\ (~ is_walk acc v0 (edit_sub w p c) -> In w cands).

Theorem repair_single_ins : forall k acc v0 w p c vt heap, generated k acc -> 0 <= v0 < pow4 k ->
  is_walk acc v0 w -> (k <= p)%nat -> (p + 2 * k < length w)%nat -> is_acgt c = true ->
  check_of w vt -> 8 * Z.of_nat k <= heap ->
  exists cands st, repair_dna (edit_ins w p c) acc v0 (Z.of_nat k) vt true heap = Ok (cands, st)
     /\ (detected st = 1 <-> ~ is_walk acc v0 (edit_ins w p c))
     /\ (is_walk acc v0 (edit_ins w p c) -> detected st = 0)
     /\ (~ is_walk acc v0 (edit_ins w p c) -> In w cands).

Theorem repair_single_del : forall k acc v0 w p vt heap, generated k acc -> 0 <= v0 < pow4 k ->
  is_walk acc v0 w -> (k <= p)%nat -> (p + 2 * k < length w)%nat ->
  check_of w vt -> 8 * Z.of_nat k <= heap ->
  exists cands st, repair_dna (edit_del w p) acc v0 (Z.of_nat k) vt true heap = Ok (cands, st)
     /\ (detected st = 1 <-> ~ is_walk acc v0 (edit_del w p))
     /\ (is_walk acc v0 (edit_del w p) -> detected st = 0)
     /\ (~ is_walk acc v0 (edit_del w p) -> In w cands).
*)
