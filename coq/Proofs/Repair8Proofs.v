(* Repair8Proofs.v -- C08: on graphs produced by graph generation (legal and vertex-induced), a single
   substitution / insertion / deletion at an interior position p in [k, n - 2k) of a walk w is detected exactly
   when the corrupted strand is no longer a walk, is detected exactly once, and the original walk is among the
   candidates (also when the check of w is supplied). *)
From Coq Require Import Lia ZifyBool Sorting.Sorted.
From DSW Require Import Py Bignum Convert Kmer Graph Coder Repair Filter Spec GraphSpec CoderSpec FilterSpec RepairSpec.
From DSW.Proofs Require Import KmerProofs GraphProofs ConvertProofs ShuffleProofs VTProofs WalkProofs TerminationProofs
     GeneratedProofs RepairProofs.
Ltac Zify.zify_post_hook ::= Z.to_euclidean_division_equations.

(* the check supplied to repair is absent or is the check of the ORIGINAL walk w *)
Definition check_of (w : list Z) (vt : option (list Z)) : Prop :=
  vt = None \/ exists n chk, 1 <= n /\ set_vt w n = Ok chk /\ vt = Some chk.


(* All TARGET STATEMENTS (repair_single_sub, repair_single_ins, repair_single_del) are proved at the end of
   this file, exactly as given.  Outline: strands are followed through the shift states
   stt k v t = fold of v |-> (4 v + index c) mod 4^k (Part 2); on induced_on k X a step succeeds iff the next
   state is in X (Part 3); scan_loop is characterised on a walkable stretch and on one detection step
   (Part 4); fragments_of keeps every record of every path_matching call (Part 5); detect_gen computes
   repair_dna when there is exactly one detection (Part 6); an edit w = A ++ B1 ++ C |-> s = A ++ B2 ++ C only
   disturbs the states in a window of k positions (Part 7); the S / D / I record repairs it (Part 8). *)

(* ========================================================================================== *)
(* Part 1: lists and slices                                                                   *)
(* ========================================================================================== *)
Lemma r8_nth_firstn : forall {A} (l : list A) i j d, (i < j)%nat -> nth i (firstn j l) d = nth i l d.
Proof.
  intros A. induction l as [|x l IH]; intros i j d H.
  - rewrite firstn_nil. reflexivity.
  - destruct j as [|j]; [lia|]. destruct i as [|i]; [reflexivity|]. cbn [firstn nth]. apply IH. lia.
Qed.

Lemma r8_nth_skipn : forall {A} (l : list A) i j d, nth i (skipn j l) d = nth (j + i) l d.
Proof.
  intros A. induction l as [|x l IH]; intros i j d.
  - rewrite skipn_nil. destruct i, j; reflexivity.
  - destruct j as [|j]; [reflexivity|]. cbn [skipn Nat.add nth]. apply IH.
Qed.

Lemma r8_skipn_skipn : forall {A} (l : list A) i j, skipn i (skipn j l) = skipn (j + i) l.
Proof.
  intros A. induction l as [|x l IH]; intros i j.
  - rewrite !skipn_nil. reflexivity.
  - destruct j as [|j]; [reflexivity|]. cbn [skipn Nat.add]. apply IH.
Qed.

Lemma r8_firstn_add : forall {A} (l : list A) i m, firstn (i + m) l = firstn i l ++ firstn m (skipn i l).
Proof.
  intros A. induction l as [|x l IH]; intros i m.
  - rewrite skipn_nil, !firstn_nil. reflexivity.
  - destruct i as [|i]; [reflexivity|]. cbn [Nat.add firstn skipn app]. f_equal. apply IH.
Qed.

Lemma r8_clamp_nat : forall (n a : nat), (a <= n)%nat -> clampZ (Z.of_nat n) (Z.of_nat a) = Z.of_nat a.
Proof. intros n a H. clamp_cases. Qed.

Lemma r8_slice_nat : forall {A} (l : list A) (a b : nat), (a <= b)%nat -> (b <= length l)%nat ->
  py_slice l (Z.of_nat a) (Z.of_nat b) = firstn (b - a) (skipn a l).
Proof.
  intros A l a b Hab Hb. unfold py_slice. cbv zeta. rewrite !r8_clamp_nat by lia.
  destruct (Z.of_nat b <=? Z.of_nat a) eqn:E.
  - replace (b - a)%nat with 0%nat by lia. reflexivity.
  - replace (Z.to_nat (Z.of_nat b - Z.of_nat a)) with (b - a)%nat by lia. rewrite Nat2Z.id. reflexivity.
Qed.

Lemma r8_slice_to_nat : forall {A} (l : list A) (b : nat), (b <= length l)%nat ->
  py_slice_to l (Z.of_nat b) = firstn b l.
Proof.
  intros A l b Hb. unfold py_slice_to. change 0 with (Z.of_nat 0). rewrite r8_slice_nat by lia.
  rewrite Nat.sub_0_r. reflexivity.
Qed.

Lemma r8_slice_from_nat : forall {A} (l : list A) (a : nat), (a <= length l)%nat ->
  py_slice_from l (Z.of_nat a) = skipn a l.
Proof.
  intros A l a Ha. unfold py_slice_from. rewrite r8_slice_nat by lia.
  apply firstn_all2. rewrite skipn_length. lia.
Qed.

Lemma r8_set_nth_same : forall {A} (l : list A) i x d, (i < length l)%nat -> nth i (set_nth l i x) d = x.
Proof.
  intros A. induction l as [|y l IH]; intros i x d H; [cbn [length] in H; lia|].
  destruct i as [|i]; [reflexivity|]. cbn [set_nth nth]. apply IH. cbn [length] in H. lia.
Qed.

Lemma r8_set_nth_other : forall {A} (l : list A) i j x d, i <> j -> nth j (set_nth l i x) d = nth j l d.
Proof.
  intros A. induction l as [|y l IH]; intros i j x d H; [destruct i; reflexivity|].
  destruct i as [|i]; destruct j as [|j]; cbn [set_nth nth]; try reflexivity; try lia.
  apply IH. lia.
Qed.

(* bounded search for the first position where a boolean test fails *)
Lemma r8_first_fail : forall (P : nat -> bool) n,
  (forall j, (j < n)%nat -> P j = true) \/
  exists l, (l < n)%nat /\ (forall j, (j < l)%nat -> P j = true) /\ P l = false.
Proof.
  intros P. induction n as [|n IH].
  - left. intros j Hj. lia.
  - destruct IH as [IH|(l & Hl & H1 & H2)].
    + destruct (P n) eqn:E.
      * left. intros j Hj. destruct (Nat.eq_dec j n) as [->|Hn]; [exact E|apply IH; lia].
      * right. exists n. split; [lia|]. split; [exact IH|exact E].
    + right. exists l. split; [lia|]. split; [exact H1|exact H2].
Qed.

(* ========================================================================================== *)
(* Part 2: shift states                                                                       *)
(* ========================================================================================== *)
Definition idx (c : Z) : Z := match nuc_index c with Some j => j | None => 0 end.
Definition nx (k : nat) (v c : Z) : Z := (4 * v + idx c) mod pow4 k.
Definition stt (k : nat) (v : Z) (t : list Z) : Z := fold_left (nx k) t v.
Definition kval (t : list Z) : Z := rval 4 (map idx t).

Lemma idx_range : forall c, 0 <= idx c < 4.
Proof.
  intros c. unfold idx. destruct (nuc_index c) as [j|] eqn:E; [|lia].
  apply ConvertProofs.nuc_index_some in E. lia.
Qed.

Lemma idx_char : forall c, is_acgt c = true -> nuc_index c = Some (idx c) /\ nuc_char (idx c) = c.
Proof.
  intros c H. unfold is_acgt in H. unfold idx. destruct (nuc_index c) as [j|] eqn:E; [|discriminate].
  split; [reflexivity|]. apply ConvertProofs.nuc_index_some in E. symmetry. apply E.
Qed.

Lemma nx_range : forall k v c, 0 <= nx k v c < pow4 k.
Proof. intros k v c. unfold nx. apply Z.mod_pos_bound, pow4_pos. Qed.

Lemma stt_nil : forall k v, stt k v [] = v.
Proof. reflexivity. Qed.

Lemma stt_cons : forall k v c t, stt k v (c :: t) = stt k (nx k v c) t.
Proof. reflexivity. Qed.

Lemma stt_app : forall k v a b, stt k v (a ++ b) = stt k (stt k v a) b.
Proof. intros. unfold stt. apply fold_left_app. Qed.

Lemma stt_snoc : forall k v a c, stt k v (a ++ [c]) = nx k (stt k v a) c.
Proof. intros. rewrite stt_app. reflexivity. Qed.

Lemma stt_range : forall k v t, 0 <= v < pow4 k -> 0 <= stt k v t < pow4 k.
Proof.
  intros k v t. revert v. induction t as [|c t IH]; intros v Hv; [exact Hv|].
  rewrite stt_cons. apply IH. apply nx_range.
Qed.

Lemma kval_range : forall t, 0 <= kval t < pow4 (length t).
Proof.
  intros t. unfold kval. rewrite <- (map_length idx t). apply rval_range.
  apply Forall_forall. intros x Hx. apply in_map_iff in Hx. destruct Hx as (c & <- & _). apply idx_range.
Qed.

Lemma kval_cons : forall c t, kval (c :: t) = idx c * pow4 (length t) + kval t.
Proof. intros. unfold kval. cbn [map]. rewrite KmerProofs.rval_cons, map_length. reflexivity. Qed.

Lemma kval_snoc : forall t c, kval (t ++ [c]) = 4 * kval t + idx c.
Proof. intros. unfold kval. rewrite map_app. cbn [map]. apply rval_snoc. Qed.

Lemma stt_formula : forall k t v, 0 <= v < pow4 k -> stt k v t = (v * pow4 (length t) + kval t) mod pow4 k.
Proof.
  intros k t. induction t as [|c t IH] using rev_ind; intros v Hv.
  - cbn [length]. rewrite stt_nil, pow4_0. unfold kval. cbn [map]. rewrite rval_nil.
    rewrite Z.mod_small; lia.
  - rewrite stt_snoc, IH by exact Hv. rewrite app_length. cbn [length].
    replace (length t + 1)%nat with (S (length t)) by lia. rewrite pow4_S, kval_snoc.
    unfold nx. pose proof (pow4_pos k) as HP.
    rewrite Z.add_mod by lia. rewrite Z.mul_mod_idemp_r by lia. rewrite <- Z.add_mod by lia.
    f_equal. lia.
Qed.

Lemma pow4_add : forall a b, pow4 (a + b) = pow4 a * pow4 b.
Proof. intros. unfold pow4. rewrite Nat2Z.inj_add, Z.pow_add_r by lia. reflexivity. Qed.

(* after k symbols the state only depends on those symbols *)
Lemma stt_forget : forall k t u u', (k <= length t)%nat -> 0 <= u < pow4 k -> 0 <= u' < pow4 k ->
  stt k u t = stt k u' t.
Proof.
  intros k t u u' Hl Hu Hu'. rewrite !stt_formula by assumption.
  replace (length t) with (k + (length t - k))%nat by lia. rewrite pow4_add.
  pose proof (pow4_pos k) as HP.
  rewrite !Z.mul_assoc.
  rewrite (Z.mul_comm u), (Z.mul_comm u'). rewrite <- !Z.mul_assoc.
  rewrite (Z.add_comm (pow4 k * _)), (Z.add_comm (pow4 k * _)).
  rewrite !(Z.mul_comm (pow4 k)). rewrite !Z.mod_add by lia. reflexivity.
Qed.

Lemma stt_kval : forall k t u, length t = k -> 0 <= u < pow4 k -> stt k u t = kval t.
Proof.
  intros k t u Hl Hu. rewrite stt_formula by exact Hu. rewrite Hl.
  pose proof (pow4_pos k) as HP. rewrite Z.add_comm, Z.mod_add by lia.
  apply Z.mod_small. pose proof (kval_range t) as H. rewrite Hl in H. exact H.
Qed.

Lemma kval_mod4 : forall t c, kval (t ++ [c]) mod 4 = idx c.
Proof.
  intros. rewrite kval_snoc. pose proof (idx_range c). rewrite Z.add_comm, Z.mul_comm, Z.mod_add by lia.
  apply Z.mod_small. lia.
Qed.

Lemma dna_int_kval : forall t, acgt t -> dna_to_number_int t = Ok (kval t).
Proof.
  intros t H. destruct (ConvertProofs.nuc_values_acgt t H) as (vs & _ & Hvs & ->).
  rewrite dna_int_map by exact Hvs. unfold kval. rewrite map_map.
  f_equal. f_equal. clear H. induction Hvs as [|v vs Hv _ IH]; [reflexivity|].
  cbn [map]. rewrite <- IH. f_equal. unfold idx. rewrite ConvertProofs.nuc_index_char by exact Hv. reflexivity.
Qed.

(* ========================================================================================== *)
(* Part 3: walking on a vertex-induced graph                                                  *)
(* ========================================================================================== *)
Section Ind.
Variable k : nat.
Variable X : vset.
Hypothesis Hk : (1 <= k)%nat.
Local Notation acc := (induced_on k X).

Lemma acc_shaped : shaped acc.
Proof. apply (legal_shaped k). apply induced_on_legal. Qed.

Lemma acc_nrows : nrows acc = pow4 k.
Proof. apply (legal_shaped k). apply induced_on_legal. Qed.

Lemma acc_pos : 0 < nrows acc.
Proof. rewrite acc_nrows. apply pow4_pos. Qed.

Lemma vin_in_range : forall v, vin k X v -> in_range acc v.
Proof. intros v [Hv _]. unfold in_range. rewrite acc_nrows. exact Hv. Qed.

Lemma range_vok : forall v, 0 <= v < pow4 k -> vok acc v.
Proof. intros v Hv. unfold vok. rewrite acc_nrows. lia. Qed.

Lemma entry_nx : forall v c, vin k X v ->
  entry acc v (idx c) = if X (nx k v c) then nx k v c else -1.
Proof.
  intros v c [Hv HX]. rewrite induced_on_entry by (try exact Hv; apply idx_range).
  rewrite HX. cbn [andb]. reflexivity.
Qed.

Lemma step_ok8 : forall v c, vin k X v -> is_acgt c = true -> X (nx k v c) = true ->
  step_arc acc v c = Ok (Some (nx k v c)).
Proof.
  intros v c Hv Hc Hx. destruct (idx_char c Hc) as [Hn _].
  rewrite (step_arc_walk acc v c (idx c) acc_shaped (vin_in_range v Hv) Hn).
  - rewrite entry_nx, Hx by exact Hv. reflexivity.
  - rewrite entry_nx, Hx by exact Hv. apply nx_range.
Qed.

Lemma step_fail8 : forall v c, vin k X v -> is_acgt c = true -> X (nx k v c) = false ->
  step_arc acc v c = Ok None.
Proof.
  intros v c Hv Hc Hx. destruct (idx_char c Hc) as [Hn _].
  unfold step_arc. rewrite (py_get_row acc v (vin_in_range v Hv)). cbn [bind]. rewrite Hn.
  destruct (memZ (idx c) (used_indices (get_row acc v))) eqn:E; [|reflexivity].
  apply rp_memZ_iff in E. apply (used_in_iff acc v (idx c) acc_shaped (vin_in_range v Hv)) in E.
  destruct E as [_ E]. rewrite entry_nx, Hx in E by exact Hv. lia.
Qed.

Fixpoint okw (v : Z) (t : list Z) : Prop :=
  match t with
  | [] => True
  | c :: t' => is_acgt c = true /\ X (nx k v c) = true /\ okw (nx k v c) t'
  end.

Lemma nx_vin : forall v c, X (nx k v c) = true -> vin k X (nx k v c).
Proof. intros v c H. split; [apply nx_range|exact H]. Qed.

Lemma is_walk_okw : forall t v, vin k X v -> (is_walk acc v t <-> okw v t).
Proof.
  induction t as [|c t IH]; intros v Hv; cbn [is_walk okw]; [tauto|]. split.
  - intros (j & Hn & _ & He & Hw).
    assert (Hc : is_acgt c = true) by (unfold is_acgt; rewrite Hn; reflexivity).
    assert (Hj : j = idx c) by (unfold idx; rewrite Hn; reflexivity). subst j.
    rewrite entry_nx in He, Hw by exact Hv.
    destruct (X (nx k v c)) eqn:Hx; [|lia].
    split; [exact Hc|]. split; [reflexivity|]. apply IH; [apply nx_vin; exact Hx|exact Hw].
  - intros (Hc & Hx & Hw). exists (idx c). destruct (idx_char c Hc) as [Hn _].
    split; [exact Hn|]. split; [apply vin_in_range; exact Hv|].
    rewrite entry_nx, Hx by exact Hv. split; [apply nx_range|].
    apply IH; [apply nx_vin; exact Hx|exact Hw].
Qed.

Lemma is_walk_start : forall v c t, 0 <= v < pow4 k -> is_walk acc v (c :: t) -> vin k X v.
Proof.
  intros v c t Hv (j & Hn & _ & He & _). split; [exact Hv|].
  apply ConvertProofs.nuc_index_some in Hn. rewrite induced_on_entry in He by (try exact Hv; lia).
  destruct (X v); [reflexivity|]. cbn [andb] in He. lia.
Qed.

Lemma is_walk_start_len : forall v t, 0 <= v < pow4 k -> (0 < length t)%nat -> is_walk acc v t -> vin k X v.
Proof.
  intros v t Hv Hl H. destruct t as [|c t]; [cbn [length] in Hl; lia|]. eapply is_walk_start; eassumption.
Qed.

Lemma okw_app : forall a b v, okw v (a ++ b) <-> okw v a /\ okw (stt k v a) b.
Proof.
  induction a as [|c a IH]; intros b v; cbn [app okw].
  - rewrite stt_nil. tauto.
  - rewrite stt_cons, IH. tauto.
Qed.

Lemma okw_acgt : forall t v, okw v t -> acgt t.
Proof.
  induction t as [|c t IH]; intros v H; [constructor|]. destruct H as (Hc & _ & H).
  constructor; [exact Hc|eapply IH; exact H].
Qed.

Lemma okw_vin : forall t v, vin k X v -> okw v t -> vin k X (stt k v t).
Proof.
  induction t as [|c t IH]; intros v Hv H; [exact Hv|]. destruct H as (_ & Hx & H).
  rewrite stt_cons. apply IH; [apply nx_vin; exact Hx|exact H].
Qed.

Lemma okw_pos : forall t v, okw v t <->
  (acgt t /\ forall j, (j < length t)%nat -> X (stt k v (firstn (S j) t)) = true).
Proof.
  induction t as [|c t IH]; intros v; cbn [okw].
  - split; [intros _; split; [constructor|cbn [length]; intros j Hj; lia]|tauto].
  - rewrite IH. split.
    + intros (Hc & Hx & Ha & Hall). split; [constructor; assumption|].
      intros j Hj. destruct j as [|j]; [exact Hx|].
      cbn [firstn]. rewrite stt_cons. apply Hall. cbn [length] in Hj. lia.
    + intros (Ha & Hall). inversion Ha as [|? ? Hc Ht]; subst.
      split; [exact Hc|]. split; [apply (Hall 0%nat); cbn [length]; lia|].
      split; [exact Ht|]. intros j Hj. specialize (Hall (S j)). cbn [firstn] in Hall.
      rewrite stt_cons in Hall. apply Hall. cbn [length]. lia.
Qed.

Lemma walk_from_ok : forall t v vis, vin k X v -> okw v t ->
  walk_from acc v t vis = Ok (true, vis + Z.of_nat (length t)).
Proof.
  induction t as [|c t IH]; intros v vis Hv H; cbn [walk_from].
  - cbn [length]. rewrite Z.add_0_r. reflexivity.
  - destruct H as (Hc & Hx & H). rewrite (step_ok8 v c Hv Hc Hx). cbn [bind].
    rewrite IH by (try apply nx_vin; assumption). cbn [length]. f_equal. f_equal. lia.
Qed.

Lemma try_each_in : forall row rest (mk : Z -> record) cands vis recs n j nxt m,
  try_each acc row cands rest mk vis = Ok (recs, n) -> In j cands -> py_get row j = Ok nxt ->
  walk_from acc nxt rest 0 = Ok (true, m) -> In (mk j) recs.
Proof.
  intros row rest mk. induction cands as [|j0 t IH]; intros vis recs n j nxt m H Hin Hg Hw; [destruct Hin|].
  cbn [try_each] in H.
  destruct (py_get row j0) as [nxt0|e|] eqn:E0; cbn [bind] in H; try discriminate.
  destruct (walk_from acc nxt0 rest 0) as [r|e|] eqn:E1; cbn [bind] in H; try discriminate.
  destruct (try_each acc row t rest mk (vis + snd r)) as [more|e|] eqn:E2; cbn [bind] in H; try discriminate.
  injection H as <- <-. destruct more as [recs' n']. cbn [fst snd].
  destruct Hin as [->|Hin].
  - rewrite Hg in E0. injection E0 as <-. rewrite Hw in E1. injection E1 as <-. cbn [fst]. left. reflexivity.
  - assert (Hr : In (mk j) recs') by (eapply IH; eassumption).
    destruct (fst r); [right; exact Hr|exact Hr].
Qed.

Lemma try_each_recs : forall row rest (mk : Z -> record) cands vis recs n,
  try_each acc row cands rest mk vis = Ok (recs, n) ->
  (length recs <= length cands)%nat /\ Forall (fun rc => exists j, rc = mk j) recs.
Proof.
  intros row rest mk. induction cands as [|j0 t IH]; intros vis recs n H; cbn [try_each] in H.
  - injection H as <- <-. split; [cbn [length]; lia|constructor].
  - destruct (py_get row j0) as [nxt0|e|] eqn:E0; cbn [bind] in H; try discriminate.
    destruct (walk_from acc nxt0 rest 0) as [r|e|] eqn:E1; cbn [bind] in H; try discriminate.
    destruct (try_each acc row t rest mk (vis + snd r)) as [more|e|] eqn:E2; cbn [bind] in H; try discriminate.
    injection H as <- <-. destruct more as [recs' n']. cbn [fst snd].
    destruct (IH _ _ _ E2) as [H1 H2]. destruct (fst r); cbn [length].
    + split; [lia|constructor; [exists j0; reflexivity|exact H2]].
    + split; [lia|exact H2].
Qed.

(* ---- path_matching: the three useful records ---- *)
Lemma r8_get_mid : forall (b : list Z) x a, py_get (b ++ x :: a) (Z.of_nat (length b)) = Ok x.
Proof. intros. apply py_get_mid. Qed.

Lemma r8_to_mid : forall (b rest : list Z), py_slice_to (b ++ rest) (Z.of_nat (length b)) = b.
Proof.
  intros. rewrite r8_slice_to_nat by (rewrite app_length; lia).
  rewrite <- (Nat.add_0_r (length b)), firstn_app_2. cbn [firstn]. apply app_nil_r.
Qed.

Lemma r8_from_mid : forall (b rest : list Z), py_slice_from (b ++ rest) (Z.of_nat (length b)) = rest.
Proof.
  intros. rewrite r8_slice_from_nat by (rewrite app_length; lia).
  rewrite skipn_app, Nat.sub_diag, skipn_all2 by lia. reflexivity.
Qed.

Lemma r8_from_mid1 : forall (b : list Z) x a, py_slice_from (b ++ x :: a) (Z.of_nat (length b) + 1) = a.
Proof.
  intros. replace (b ++ x :: a) with ((b ++ [x]) ++ a) by (rewrite <- app_assoc; reflexivity).
  replace (Z.of_nat (length b) + 1) with (Z.of_nat (length (b ++ [x]))) by (rewrite app_length; cbn [length]; lia).
  apply r8_from_mid.
Qed.

Lemma used_nx : forall u a0, vin k X u -> is_acgt a0 = true -> X (nx k u a0) = true ->
  In (idx a0) (used_indices (get_row acc u)) /\ py_get (get_row acc u) (idx a0) = Ok (nx k u a0).
Proof.
  intros u a0 Hu Ha Hx. pose proof (idx_range a0) as Hj. split.
  - apply (used_in_iff acc u (idx a0) acc_shaped (vin_in_range u Hu)). split; [exact Hj|].
    rewrite entry_nx, Hx by exact Hu. apply nx_range.
  - rewrite (py_get_entry acc u (idx a0) acc_shaped (vin_in_range u Hu) Hj).
    rewrite entry_nx, Hx by exact Hu. reflexivity.
Qed.

Lemma pm_sub : forall b c a u a0 indel recs n, vin k X u -> is_acgt a0 = true -> a0 <> c ->
  X (nx k u a0) = true -> okw (nx k u a0) a ->
  path_matching (b ++ c :: a) acc u (Z.of_nat (length b)) indel = Ok (recs, n) ->
  In (0, a0, b ++ a0 :: a) recs.
Proof.
  intros b c a u a0 indel recs n Hu Ha Hne Hx Hw H. unfold path_matching in H.
  rewrite r8_get_mid in H. cbn [bind] in H.
  rewrite (py_get_row acc u (vin_in_range u Hu)) in H. cbn [bind] in H. cbv zeta in H.
  rewrite r8_to_mid, r8_from_mid1 in H.
  destruct (used_nx u a0 Hu Ha Hx) as [Hin Hg]. destruct (idx_char a0 Ha) as [_ Hch].
  destruct (try_each acc _ (filter _ _) a _ 0) as [[subs n1]|e|] eqn:E1; cbn [bind] in H; try discriminate.
  assert (Hs : In (0, a0, b ++ a0 :: a) subs).
  { pose proof (fun m => try_each_in _ _ _ _ _ _ _ (idx a0) (nx k u a0) m E1) as Hi. cbv beta in Hi.
    rewrite Hch in Hi. eapply Hi.
    - apply filter_In. split; [exact Hin|]. rewrite Hch. destruct (a0 =? c) eqn:E; [lia|reflexivity].
    - exact Hg.
    - apply walk_from_ok; [apply nx_vin; exact Hx|exact Hw]. }
  destruct indel.
  - cbn [fst snd] in H.
    destruct (try_each acc _ _ _ _ n1) as [[ins n2]|e|]; cbn [bind] in H; try discriminate.
    destruct (walk_from acc u a 0) as [[bd nd]|e|]; cbn [bind] in H; try discriminate.
    injection H as <- <-. cbn [fst]. apply in_or_app. left. exact Hs.
  - injection H as <- <-. exact Hs.
Qed.

Lemma pm_ins : forall b c a u recs n, vin k X u -> okw u a ->
  path_matching (b ++ c :: a) acc u (Z.of_nat (length b)) true = Ok (recs, n) ->
  In (2, c, b ++ a) recs.
Proof.
  intros b c a u recs n Hu Hw H. unfold path_matching in H.
  rewrite r8_get_mid in H. cbn [bind] in H.
  rewrite (py_get_row acc u (vin_in_range u Hu)) in H. cbn [bind] in H. cbv zeta in H.
  rewrite r8_to_mid, r8_from_mid1 in H.
  destruct (try_each acc _ (filter _ _) a _ 0) as [[subs n1]|e|] eqn:E1; cbn [bind] in H; try discriminate.
  cbn [fst snd] in H.
  destruct (try_each acc _ _ _ _ n1) as [[ins n2]|e|]; cbn [bind] in H; try discriminate.
  rewrite (walk_from_ok a u 0 Hu Hw) in H. cbn [bind fst snd] in H.
  injection H as <- <-. apply in_or_app. right. apply in_or_app. right. left. reflexivity.
Qed.

Lemma pm_del : forall b c a u a0 recs n, vin k X u -> is_acgt a0 = true ->
  X (nx k u a0) = true -> okw (nx k u a0) (c :: a) ->
  path_matching (b ++ c :: a) acc u (Z.of_nat (length b)) true = Ok (recs, n) ->
  In (1, a0, b ++ a0 :: c :: a) recs.
Proof.
  intros b c a u a0 recs n Hu Ha Hx Hw H. unfold path_matching in H.
  rewrite r8_get_mid in H. cbn [bind] in H.
  rewrite (py_get_row acc u (vin_in_range u Hu)) in H. cbn [bind] in H. cbv zeta in H.
  rewrite r8_to_mid, r8_from_mid1, r8_from_mid in H.
  destruct (used_nx u a0 Hu Ha Hx) as [Hin Hg]. destruct (idx_char a0 Ha) as [_ Hch].
  destruct (try_each acc _ (filter _ _) a _ 0) as [[subs n1]|e|] eqn:E1; cbn [bind] in H; try discriminate.
  cbn [fst snd] in H.
  destruct (try_each acc _ _ _ _ n1) as [[ins n2]|e|] eqn:E2; cbn [bind] in H; try discriminate.
  destruct (walk_from acc u a 0) as [[bd nd]|e|]; cbn [bind] in H; try discriminate.
  injection H as <- <-. cbn [fst]. apply in_or_app. right. apply in_or_app. left.
  pose proof (fun m => try_each_in _ _ _ _ _ _ _ (idx a0) (nx k u a0) m E2) as Hi. cbv beta in Hi.
  rewrite Hch in Hi. eapply Hi; [exact Hin|exact Hg|].
  apply walk_from_ok; [apply nx_vin; exact Hx|exact Hw].
Qed.

(* every path_matching call returns at most 8 records, none longer than the chunk plus one *)
Lemma pm_bounds : forall chunk pv occ indel recs n, acgt chunk -> 0 <= pv < pow4 k ->
  0 <= occ < Z.of_nat (length chunk) ->
  path_matching chunk acc pv occ indel = Ok (recs, n) ->
  (length recs <= 8)%nat /\ Forall (fun rc : record => (length (snd rc) <= length chunk + 1)%nat) recs.
Proof.
  intros chunk pv occ indel recs n Hac Hpv Hocc H. unfold path_matching in H.
  rewrite (py_get_ok chunk occ 0 Hocc) in H. cbn [bind] in H.
  set (original := nth (Z.to_nat occ) chunk 0) in *.
  assert (Hor : is_acgt original = true).
  { unfold acgt in Hac. rewrite Forall_forall in Hac. apply Hac. apply nth_In. lia. }
  assert (Hr : in_range acc pv) by (unfold in_range; rewrite acc_nrows; exact Hpv).
  rewrite (py_get_row acc pv Hr) in H. cbn [bind] in H. cbv zeta in H.
  pose proof (get_row_len acc pv acc_shaped Hr) as Hl.
  pose proof (filter_used_le3 _ original Hl Hor) as H3.
  pose proof (used_len_le4 acc pv acc_shaped Hr) as H4.
  set (before := py_slice_to chunk occ) in *. set (after := py_slice_from chunk (occ + 1)) in *.
  set (from_occ := py_slice_from chunk occ) in *.
  assert (Hlb : (length before + length after + 1 <= length chunk)%nat).
  { unfold before, after, py_slice_to, py_slice_from.
    pose proof (py_slice_length chunk 0 occ) as L1.
    pose proof (py_slice_length chunk (occ + 1) (Z.of_nat (length chunk))) as L2.
    assert (clampZ (Z.of_nat (length chunk)) 0 = 0) as C0 by clamp_cases.
    assert (clampZ (Z.of_nat (length chunk)) occ = occ) as C1 by clamp_cases.
    assert (clampZ (Z.of_nat (length chunk)) (occ + 1) = occ + 1) as C2 by clamp_cases.
    assert (clampZ (Z.of_nat (length chunk)) (Z.of_nat (length chunk)) = Z.of_nat (length chunk)) as C3 by clamp_cases.
    lia. }
  assert (Hlf : (length before + length from_occ <= length chunk)%nat).
  { unfold before, from_occ, py_slice_to, py_slice_from.
    pose proof (py_slice_length chunk 0 occ) as L1.
    pose proof (py_slice_length chunk occ (Z.of_nat (length chunk))) as L2.
    assert (clampZ (Z.of_nat (length chunk)) 0 = 0) as C0 by clamp_cases.
    assert (clampZ (Z.of_nat (length chunk)) occ = occ) as C1 by clamp_cases.
    assert (clampZ (Z.of_nat (length chunk)) (Z.of_nat (length chunk)) = Z.of_nat (length chunk)) as C3 by clamp_cases.
    lia. }
  destruct (try_each acc _ (filter _ _) after _ 0) as [[subs n1]|e|] eqn:E1; cbn [bind] in H; try discriminate.
  destruct (try_each_recs _ _ _ _ _ _ _ E1) as [Hs1 Hs2].
  assert (Hsf : Forall (fun rc : record => (length (snd rc) <= length chunk + 1)%nat) subs).
  { eapply Forall_impl; [|exact Hs2]. intros rc (j & ->). cbn [snd]. rewrite app_length. cbn [length]. lia. }
  destruct indel.
  - cbn [fst snd] in H.
    destruct (try_each acc _ _ _ _ n1) as [[ins n2]|e|] eqn:E2; cbn [bind] in H; try discriminate.
    destruct (try_each_recs _ _ _ _ _ _ _ E2) as [Hi1 Hi2].
    destruct (walk_from acc pv after 0) as [[bd nd]|e|]; cbn [bind] in H; try discriminate.
    injection H as <- <-. cbn [fst]. split.
    + rewrite !app_length. destruct bd; cbn [length]; lia.
    + apply Forall_app. split; [exact Hsf|]. apply Forall_app. split.
      * eapply Forall_impl; [|exact Hi2]. intros rc (j & ->). cbn [snd]. rewrite app_length. cbn [length]. lia.
      * destruct bd; [|constructor]. constructor; [|constructor]. cbn [snd]. rewrite app_length. lia.
  - injection H as <- <-. split; [lia|exact Hsf].
Qed.

(* ========================================================================================== *)
(* Part 4: the scan loop on a walkable stretch, and one detection step                        *)
(* ========================================================================================== *)
Fixpoint fill (iq : list Z) (i : nat) (v : Z) (t : list Z) : list Z :=
  match t with [] => iq | c :: t' => fill (set_nth iq i (nx k v c)) (S i) (nx k v c) t' end.

Lemma fill_length : forall t iq i v, length (fill iq i v t) = length iq.
Proof.
  induction t as [|c t IH]; intros iq i v; cbn [fill]; [reflexivity|]. rewrite IH. apply set_nth_length.
Qed.

Lemma fill_before : forall t iq i v j d, (j < i)%nat -> nth j (fill iq i v t) d = nth j iq d.
Proof.
  induction t as [|c t IH]; intros iq i v j d H; cbn [fill]; [reflexivity|].
  rewrite IH by lia. apply r8_set_nth_other. lia.
Qed.

Lemma fill_nth : forall t iq i v j d, (j < length t)%nat -> (i + length t <= length iq)%nat ->
  nth (i + j) (fill iq i v t) d = stt k v (firstn (S j) t).
Proof.
  induction t as [|c t IH]; intros iq i v j d Hj Hl; cbn [length] in *; [lia|]. cbn [fill].
  destruct j as [|j].
  - rewrite Nat.add_0_r, fill_before by lia. rewrite r8_set_nth_same by lia. reflexivity.
  - replace (i + S j)%nat with (S i + j)%nat by lia. rewrite IH; [|lia|rewrite set_nth_length; lia].
    reflexivity.
Qed.

Lemma fill_vok : forall t iq i v, Forall (vok acc) iq -> Forall (vok acc) (fill iq i v t).
Proof.
  induction t as [|c t IH]; intros iq i v H; cbn [fill]; [exact H|]. apply IH.
  apply set_nth_Forall; [exact H|]. apply range_vok. apply nx_range.
Qed.

Lemma scan_run : forall s K m fuel i v iq cur sp ch mk d vis,
  (i + m <= length s)%nat -> vin k X v -> okw v (firstn m (skipn i s)) ->
  scan_loop (m + fuel) s acc K (Z.of_nat i) v iq cur
     {| sc_splits := sp; sc_chunks := ch; sc_markers := mk; sc_detected := d; sc_visited := vis |} =
  scan_loop fuel s acc K (Z.of_nat (i + m)) (stt k v (firstn m (skipn i s)))
     (fill iq i v (firstn m (skipn i s))) (cur ++ firstn m (skipn i s))
     {| sc_splits := sp; sc_chunks := ch; sc_markers := mk; sc_detected := d; sc_visited := vis + Z.of_nat m |}.
Proof.
  intros s K. induction m as [|m IH]; intros fuel i v iq cur sp ch mk d vis Hi Hv Hw.
  - cbn [firstn fill Nat.add]. rewrite stt_nil, app_nil_r, Nat.add_0_r. change (Z.of_nat 0) with 0.
    rewrite Z.add_0_r. reflexivity.
  - rewrite (skipn_nth s i) in * by lia. cbn [firstn] in *. destruct Hw as (Hc & Hx & Hw).
    cbn [Nat.add]. rewrite scan_loop_step by lia.
    rewrite (py_get_ok s (Z.of_nat i) 0) by lia. rewrite Nat2Z.id. cbn [bind].
    rewrite (step_ok8 v _ Hv Hc Hx). cbn [bind sc_splits sc_chunks sc_markers sc_detected sc_visited].
    replace (Z.of_nat i + 1) with (Z.of_nat (S i)) by lia.
    rewrite IH; [|lia|apply nx_vin; exact Hx|exact Hw].
    rewrite stt_cons. cbn [fill]. rewrite <- app_assoc. cbn [app].
    replace (S i + m)%nat with (i + S m)%nat by lia.
    replace (vis + 1 + Z.of_nat m) with (vis + Z.of_nat (S m)) by lia. reflexivity.
Qed.

Lemma r8_firstn_S : forall (l : list Z) m, (m < length l)%nat -> firstn (S m) l = firstn m l ++ [nth m l 0].
Proof.
  induction l as [|x l IH]; intros m H; cbn [length] in H; [lia|].
  destruct m as [|m]; [reflexivity|]. cbn [firstn nth app]. f_equal. apply IH. lia.
Qed.

Lemma acgt_firstn : forall n t, acgt t -> acgt (firstn n t).
Proof. intros. unfold acgt in *. apply rp_Forall_firstn. assumption. Qed.

Lemma acgt_skipn : forall n t, acgt t -> acgt (skipn n t).
Proof. intros. unfold acgt in *. apply rp_Forall_skipn. assumption. Qed.

Lemma acgt_nth : forall t i, acgt t -> (i < length t)%nat -> is_acgt (nth i t 0) = true.
Proof. intros t i H Hi. unfold acgt in H. rewrite Forall_forall in H. apply H. apply nth_In. exact Hi. Qed.

Lemma scan_detect : forall s f l v iq cur sp ch mk d vis,
  acgt s -> (k <= l)%nat -> (l + k + 1 <= length s)%nat -> vin k X v -> X (nx k v (nth l s 0)) = false ->
  length cur = l -> length iq = length s ->
  scan_loop (S f) s acc (Z.of_nat k) (Z.of_nat l) v iq cur
     {| sc_splits := sp; sc_chunks := ch; sc_markers := mk; sc_detected := d; sc_visited := vis |} =
  scan_loop f s acc (Z.of_nat k) (Z.of_nat (l + k + 1)) (kval (firstn k (skipn (S l) s))) iq [nth (l + k) s 0]
     {| sc_splits := firstn (l + 1 - k) cur :: sp;
        sc_chunks := ch ++ [firstn (2 * k - 1) (skipn (l + 1 - k) s)];
        sc_markers := mk ++ [firstn k (skipn (l - k) iq)];
        sc_detected := d + 1; sc_visited := vis |}.
Proof.
  intros s f l v iq cur sp ch mk d vis Ha Hkl Hls Hv Hx Hcur Hiq.
  rewrite scan_loop_step by lia.
  rewrite (py_get_ok s (Z.of_nat l) 0) by lia. rewrite Nat2Z.id. cbn [bind].
  rewrite (step_fail8 v _ Hv (acgt_nth s l Ha ltac:(lia)) Hx). cbn [bind sc_splits sc_chunks sc_markers sc_detected sc_visited].
  replace (Z.of_nat l + 1) with (Z.of_nat (S l)) by lia.
  replace (Z.of_nat l + Z.of_nat k + 1) with (Z.of_nat (l + k + 1)) by lia.
  rewrite (r8_slice_nat s (S l) (l + k + 1)) by lia.
  replace (l + k + 1 - S l)%nat with k by lia.
  set (t := firstn k (skipn (S l) s)).
  assert (Hat : acgt t) by (apply acgt_firstn, acgt_skipn; exact Ha).
  rewrite (dna_int_kval t Hat). cbn [bind].
  assert (Hlast : nuc_char (kval t mod 4) = nth (l + k) s 0).
  { unfold t. replace k with (S (k - 1)) at 1 by lia.
    rewrite r8_firstn_S by (rewrite skipn_length; lia).
    rewrite kval_mod4, r8_nth_skipn. replace (S l + (k - 1))%nat with (l + k)%nat by lia.
    apply idx_char. apply acgt_nth; [exact Ha|lia]. }
  rewrite Hlast.
  replace (Z.of_nat (length cur) - Z.of_nat k + 1) with (Z.of_nat (l + 1 - k)) by lia.
  rewrite (r8_slice_to_nat cur (l + 1 - k)) by lia.
  replace (Z.of_nat l - Z.of_nat k + 1) with (Z.of_nat (l + 1 - k)) by lia.
  replace (Z.of_nat l + Z.of_nat k) with (Z.of_nat (l + k)) by lia.
  rewrite (r8_slice_nat s (l + 1 - k) (l + k)) by lia.
  replace (l + k - (l + 1 - k))%nat with (2 * k - 1)%nat by lia.
  replace (Z.of_nat l - Z.of_nat k) with (Z.of_nat (l - k)) by lia.
  rewrite (r8_slice_nat iq (l - k) l) by lia.
  replace (l - (l - k))%nat with k by lia.
  reflexivity.
Qed.

(* ========================================================================================== *)
(* Part 5: the fragment set                                                                   *)
(* ========================================================================================== *)
Lemma listZ_eqb_len : forall a b, listZ_eqb a b = true -> length a = length b.
Proof. intros a b H. apply listZ_eqb_true in H. subst. reflexivity. Qed.

Lemma mem_str_false : forall whole fs, (forall f, In f fs -> (length f < length whole)%nat) -> mem_str whole fs = false.
Proof.
  intros whole. induction fs as [|h t IH]; intros H; cbn [mem_str]; [reflexivity|].
  rewrite IH by (intros f Hf; apply H; right; exact Hf).
  destruct (listZ_eqb whole h) eqn:E; [|reflexivity].
  apply listZ_eqb_len in E. specialize (H h (or_introl eq_refl)). lia.
Qed.

Lemma insert_str_len : forall s l, (length (insert_str s l) <= S (length l))%nat.
Proof.
  intros s. induction l as [|h t IH]; cbn [insert_str length]; [lia|].
  destruct (lexltb s h); [cbn [length]; lia|]. destruct (listZ_eqb s h); cbn [length]; lia.
Qed.

Lemma fold_ins_spec : forall whole B (recs : list record) frags, (B < length whole)%nat ->
  (forall f, In f frags -> (length f <= B)%nat) ->
  Forall (fun rc : record => (length (snd rc) <= B)%nat) recs ->
  let fs := fold_left (fun fs (rc : record) => if mem_str whole fs then fs else insert_str (snd rc) fs) recs frags in
  (forall f, In f fs <-> In f frags \/ exists rc, In rc recs /\ snd rc = f) /\
  (length fs <= length frags + length recs)%nat.
Proof.
  intros whole B. induction recs as [|rc recs IH]; intros frags HB Hf Hr; cbn [fold_left]; cbv zeta.
  - split; [|lia]. intros f. split; [intros H; left; exact H|]. intros [H|(rc & [] & _)]. exact H.
  - inversion Hr as [|? ? Hrc Hrs]; subst.
    rewrite mem_str_false by (intros f Hfi; specialize (Hf f Hfi); lia).
    assert (Hf' : forall f, In f (insert_str (snd rc) frags) -> (length f <= B)%nat).
    { intros f Hi. apply insert_str_in in Hi. destruct Hi as [->|Hi]; [exact Hrc|apply Hf; exact Hi]. }
    destruct (IH (insert_str (snd rc) frags) HB Hf' Hrs) as [H1 H2]. split.
    + intros f. rewrite H1, insert_str_in. split.
      * intros [[->|H]|(rc' & Hi & He)].
        -- right. exists rc. split; [left; reflexivity|reflexivity].
        -- left. exact H.
        -- right. exists rc'. split; [right; exact Hi|exact He].
      * intros [H|(rc' & [->|Hi] & He)].
        -- left. right. exact H.
        -- left. left. symmetry. exact He.
        -- right. exists rc'. split; [exact Hi|exact He].
    + pose proof (insert_str_len (snd rc) frags). cbn [length]. lia.
Qed.

Lemma fragments_of_spec : forall chunk K indel whole, acgt chunk -> (length chunk + 1 < length whole)%nat ->
  K <= Z.of_nat (length chunk) ->
  forall rmarker recall frags vis fs n,
  fragments_of chunk acc K indel whole rmarker recall frags vis = Ok (fs, n) ->
  Forall (fun pv => 0 <= pv < pow4 k) rmarker -> 0 <= recall -> recall + Z.of_nat (length rmarker) <= K ->
  (forall f, In f frags -> (length f <= length chunk + 1)%nat) ->
  (forall f, In f frags -> In f fs) /\
  (forall i pv recs n' rc, nth_error rmarker i = Some pv ->
     path_matching chunk acc pv (K - (recall + Z.of_nat i) - 1) indel = Ok (recs, n') -> In rc recs -> In (snd rc) fs) /\
  (length fs <= length frags + 8 * length rmarker)%nat.
Proof.
  intros chunk K indel whole Hac HB HK.
  induction rmarker as [|pv t IH]; intros recall frags vis fs n H Hm Hr Hb Hf; cbn [fragments_of] in H.
  - injection H as <- <-. split; [auto|]. split; [|cbn [length]; lia].
    intros i pv recs n' rc Hn. destruct i; discriminate.
  - inversion Hm as [|? ? Hpv Ht]; subst. cbn [length] in Hb. rewrite Nat2Z.inj_succ in Hb.
    destruct (path_matching chunk acc pv (K - recall - 1) indel) as [[recs1 n1]|e|] eqn:E1; cbn [bind] in H; try discriminate.
    cbv zeta in H. cbn [fst snd] in H.
    destruct (pm_bounds chunk pv (K - recall - 1) indel recs1 n1 Hac Hpv ltac:(lia) E1) as [Hc1 Hc2].
    destruct (fold_ins_spec whole (length chunk + 1) recs1 frags HB Hf Hc2) as [F1 F2]. cbv zeta in F1, F2.
    set (frags' := fold_left _ recs1 frags) in *.
    assert (Hf' : forall f, In f frags' -> (length f <= length chunk + 1)%nat).
    { intros f Hi. apply F1 in Hi. destruct Hi as [Hi|(rc & Hi & <-)]; [apply Hf; exact Hi|].
      rewrite Forall_forall in Hc2. apply Hc2. exact Hi. }
    destruct (IH (recall + 1) frags' _ fs n H Ht ltac:(lia) ltac:(lia) Hf') as (I1 & I2 & I3).
    split; [|split].
    + intros f Hi. apply I1. apply F1. left. exact Hi.
    + intros i pv' recs n' rc Hn Hp Hi. destruct i as [|i].
      * cbn [nth_error] in Hn. injection Hn as <-.
        replace (K - (recall + Z.of_nat 0) - 1) with (K - recall - 1) in Hp by lia.
        rewrite E1 in Hp. injection Hp as <- <-. apply I1. apply F1. right. exists rc. split; [exact Hi|reflexivity].
      * cbn [nth_error] in Hn. apply (I2 i pv' recs n' rc Hn); [|exact Hi].
        replace (K - (recall + 1 + Z.of_nat i) - 1) with (K - (recall + Z.of_nat (S i)) - 1) by lia. exact Hp.
    + cbn [length]. lia.
Qed.

(* ---- the check filter keeps a candidate whose check matches ---- *)
Lemma filter_checked_in : forall vt l r c, filter_checked vt l = Ok r -> In c l -> check_matches vt c = Ok true ->
  In c (fst r).
Proof.
  intros vt. induction l as [|a l IH]; intros r c H Hin Hc; [destruct Hin|]. cbn [filter_checked] in H.
  destruct (check_matches vt a) as [ok|e|] eqn:E; cbn [bind] in H; try discriminate.
  destruct (filter_checked vt l) as [r'|e|] eqn:E2; cbn [bind] in H; try discriminate.
  injection H as <-. destruct Hin as [->|Hin].
  - rewrite Hc in E. injection E as <-. cbn [fst]. left. reflexivity.
  - specialize (IH r' c eq_refl Hin Hc). destruct ok; cbn [fst]; [right; exact IH|exact IH].
Qed.

(* ========================================================================================== *)
(* Part 6: exactly one detection at position l, and the repaired candidates                   *)
(* ========================================================================================== *)
Lemma check_of_matches : forall w vt, check_of w vt -> check_matches vt w = Ok true.
Proof.
  intros w vt [->|(n & chk & Hn & E & ->)]; [reflexivity|]. unfold check_matches.
  destruct (set_vt_length w n chk Hn E) as [Hl _]. rewrite Hl, E. cbn [bind]. rewrite rp_eqb_refl. reflexivity.
Qed.

Definition sig (v0 : Z) (s : list Z) (i : nat) : Z := stt k v0 (firstn i s).

Lemma sig_S : forall v0 s i, (i < length s)%nat -> sig v0 s (S i) = nx k (sig v0 s i) (nth i s 0).
Proof. intros v0 s i H. unfold sig. rewrite r8_firstn_S by exact H. apply stt_snoc. Qed.

Lemma sig_add : forall v0 s i m, sig v0 s (i + m) = stt k (sig v0 s i) (firstn m (skipn i s)).
Proof. intros. unfold sig. rewrite r8_firstn_add. apply stt_app. Qed.

Lemma sig_range : forall v0 s i, 0 <= v0 < pow4 k -> 0 <= sig v0 s i < pow4 k.
Proof. intros. unfold sig. apply stt_range. assumption. Qed.

Lemma scan_single : forall s v0 l, vin k X v0 -> acgt s -> (k <= l)%nat -> (l + k + 1 <= length s)%nat ->
  okw v0 (firstn l s) -> X (sig v0 s (S l)) = false ->
  X (sig v0 s (l + k + 1)) = true -> okw (sig v0 s (l + k + 1)) (skipn (l + k + 1) s) ->
  scan_loop (S (length s)) s acc (Z.of_nat k) 0 v0 (repeat (-1) (length s)) []
     {| sc_splits := []; sc_chunks := []; sc_markers := []; sc_detected := 0; sc_visited := 0 |} =
  Ok {| sc_splits := [skipn (l + k) s; firstn (l + 1 - k) s];
        sc_chunks := [firstn (2 * k - 1) (skipn (l + 1 - k) s)];
        sc_markers := [firstn k (skipn (l - k) (fill (repeat (-1) (length s)) 0 v0 (firstn l s)))];
        sc_detected := 1; sc_visited := Z.of_nat l + Z.of_nat (length s - (l + k + 1)) |}.
Proof.
  intros s v0 l Hv0 Ha Hkl Hls Hpre Hfail Hres Hsuf.
  replace (S (length s)) with (l + S (length s - l))%nat by lia.
  pose proof (scan_run s (Z.of_nat k) l (S (length s - l)) 0 v0 (repeat (-1) (length s)) [] [] [] [] 0 0
                ltac:(lia) Hv0 Hpre) as E1.
  cbn [skipn app Nat.add] in E1. change (Z.of_nat 0) with 0 in E1. rewrite E1. clear E1.
  set (iq1 := fill (repeat (-1) (length s)) 0 v0 (firstn l s)).
  fold (sig v0 s l).
  assert (Hv1 : vin k X (sig v0 s l)) by (apply okw_vin; assumption).
  rewrite sig_S in Hfail by lia.
  rewrite (scan_detect s (length s - l) l (sig v0 s l) iq1 (firstn l s) [] [] [] 0 (0 + Z.of_nat l)
             Ha Hkl Hls Hv1 Hfail ltac:(apply firstn_length_le; lia)
             ltac:(unfold iq1; rewrite fill_length, repeat_length; reflexivity)).
  assert (Hv2 : kval (firstn k (skipn (S l) s)) = sig v0 s (l + k + 1)).
  { replace (l + k + 1)%nat with (S l + k)%nat by lia. rewrite sig_add. symmetry. apply stt_kval.
    - apply firstn_length_le. rewrite skipn_length. lia.
    - apply sig_range. apply Hv0. }
  rewrite Hv2.
  replace (length s - l)%nat with ((length s - (l + k + 1)) + (k + 1))%nat by lia.
  assert (Hfs : firstn (length s - (l + k + 1)) (skipn (l + k + 1) s) = skipn (l + k + 1) s).
  { apply firstn_all2. rewrite skipn_length. lia. }
  rewrite (scan_run s (Z.of_nat k) (length s - (l + k + 1)) (k + 1) (l + k + 1) (sig v0 s (l + k + 1)) iq1);
    [|lia|split; [apply sig_range; apply Hv0|exact Hres]|rewrite Hfs; exact Hsuf].
  rewrite Hfs. rewrite scan_loop_done by lia.
  cbn [sc_splits sc_chunks sc_markers sc_detected sc_visited app].
  rewrite firstn_firstn, Nat.min_l by lia.
  rewrite (skipn_nth s (l + k)) by lia.
  replace (S (l + k)) with (l + k + 1)%nat by lia.
  reflexivity.
Qed.

Theorem detect_gen : forall s w v0 l r vt indel heap,
  vin k X v0 -> acgt s -> (k <= l)%nat -> (l + k + 1 <= length s)%nat ->
  okw v0 (firstn l s) -> X (sig v0 s (S l)) = false ->
  X (sig v0 s (l + k + 1)) = true -> okw (sig v0 s (l + k + 1)) (skipn (l + k + 1) s) ->
  (r < k)%nat ->
  (forall recs n, path_matching (firstn (2 * k - 1) (skipn (l + 1 - k) s)) acc (sig v0 s (l - r))
                    (Z.of_nat k - Z.of_nat r - 1) indel = Ok (recs, n) ->
     exists rc, In rc recs /\ firstn (l + 1 - k) s ++ snd rc ++ skipn (l + k) s = w) ->
  check_of w vt -> 8 * Z.of_nat k <= heap ->
  exists cands st, repair_dna s acc v0 (Z.of_nat k) vt indel heap = Ok (cands, st) /\ detected st = 1 /\ In w cands.
Proof.
  intros s w v0 l r vt indel heap Hv0 Ha Hkl Hls Hpre Hfail Hres Hsuf Hr Hpm Hchk Hheap.
  unfold repair_dna. cbv zeta.
  rewrite (scan_single s v0 l Hv0 Ha Hkl Hls Hpre Hfail Hres Hsuf).
  cbn [bind sc_splits sc_chunks sc_markers sc_detected sc_visited all_fragments].
  set (iq1 := fill (repeat (-1) (length s)) 0 v0 (firstn l s)).
  set (chunk := firstn (2 * k - 1) (skipn (l + 1 - k) s)) in *.
  set (marker := firstn k (skipn (l - k) iq1)).
  set (vis := Z.of_nat l + Z.of_nat (length s - (l + k + 1))).
  assert (Hiq1 : length iq1 = length s) by (unfold iq1; rewrite fill_length, repeat_length; reflexivity).
  assert (Hlc : length chunk = (2 * k - 1)%nat).
  { unfold chunk. apply firstn_length_le. rewrite skipn_length. lia. }
  assert (Hlm : length marker = k).
  { unfold marker. apply firstn_length_le. rewrite skipn_length. lia. }
  assert (Hac : acgt chunk) by (apply acgt_firstn, acgt_skipn; exact Ha).
  assert (Hvm : Forall (vok acc) marker).
  { unfold marker. apply rp_Forall_firstn, rp_Forall_skipn. unfold iq1. apply fill_vok.
    apply Forall_forall. intros x Hx. apply repeat_spec in Hx. subst x. unfold vok. pose proof acc_pos. lia. }
  assert (Hrm : Forall (fun pv => 0 <= pv < pow4 k) (rev marker)).
  { apply Forall_rev. apply Forall_forall. intros x Hx.
    destruct (In_nth marker x 0 Hx) as (i & Hi & <-). rewrite Hlm in Hi.
    unfold marker. rewrite r8_nth_firstn by exact Hi. rewrite r8_nth_skipn.
    unfold iq1. pose proof (fill_nth (firstn l s) (repeat (-1) (length s)) 0 v0 (l - k + i) 0) as Hn.
    cbn [Nat.add] in Hn. rewrite Hn.
    - apply stt_range. apply Hv0.
    - rewrite firstn_length_le by lia. lia.
    - rewrite firstn_length_le, repeat_length by lia. lia. }
  destruct (fragments_of_total acc acc_shaped acc_pos chunk (Z.of_nat k) indel s Hac ltac:(lia)
              (rev marker) 0 [] vis (Forall_rev Hvm) ltac:(lia) ltac:(rewrite rev_length; lia) ltac:(constructor))
    as (fs & n1 & E1 & _ & Hfs).
  rewrite E1. cbn [bind fst snd fold_left].
  destruct (fragments_of_spec chunk (Z.of_nat k) indel s Hac ltac:(lia) ltac:(lia) (rev marker) 0 [] vis fs n1 E1 Hrm
              ltac:(lia) ltac:(rewrite rev_length; lia) ltac:(intros f [])) as (_ & I2 & I3).
  (* the marker entry addressed by recall r *)
  assert (Hnth : nth_error (rev marker) r = Some (sig v0 s (l - r))).
  { rewrite (nth_error_nth' (rev marker) 0) by (rewrite rev_length; lia). f_equal.
    rewrite rev_nth by lia. rewrite Hlm. unfold marker.
    rewrite r8_nth_firstn by lia. rewrite r8_nth_skipn.
    unfold iq1. pose proof (fill_nth (firstn l s) (repeat (-1) (length s)) 0 v0 (l - k + (k - S r)) 0) as Hn.
    cbn [Nat.add] in Hn. rewrite Hn.
    - rewrite firstn_firstn, Nat.min_l by lia. unfold sig. f_equal. f_equal. lia.
    - rewrite firstn_length_le by lia. lia.
    - rewrite firstn_length_le, repeat_length by lia. lia. }
  destruct (path_matching_total acc acc_shaped acc_pos chunk (sig v0 s (l - r)) (Z.of_nat k - Z.of_nat r - 1) indel Hac
              (range_vok _ (sig_range v0 s (l - r) (proj1 Hv0))) ltac:(lia)) as (recs & n2 & E2 & _).
  destruct (Hpm recs n2 E2) as (rc & Hrc & Hw).
  assert (Hin : In (snd rc) fs).
  { apply (I2 r (sig v0 s (l - r)) recs n2 rc Hnth); [|exact Hrc].
    replace (Z.of_nat k - (0 + Z.of_nat r) - 1) with (Z.of_nat k - Z.of_nat r - 1) by lia. exact E2. }
  assert (Hcnt : 1 <= 1 * Z.of_nat (length fs) <= heap).
  { rewrite rev_length, Hlm in I3. cbn [length] in I3. destruct fs as [|f0 fs']; [destruct Hin|]. cbn [length] in *. lia. }
  destruct (1 * Z.of_nat (length fs) =? 0) eqn:Ec; [lia|].
  destruct (heap <? 1 * Z.of_nat (length fs)) eqn:Eh; [lia|]. cbn [orb].
  cbn [rev app recombine flat_map].
  set (cut := firstn (l + 1 - k) s) in *. set (tail := skipn (l + k) s) in *.
  assert (Hall : Forall acgt (map (fun f => cut ++ f ++ tail) fs ++ [])).
  { rewrite app_nil_r. apply Forall_forall. intros x Hx. apply in_map_iff in Hx. destruct Hx as (f & <- & Hf).
    rewrite Forall_forall in Hfs. unfold acgt. apply Forall_app. split; [apply acgt_firstn; exact Ha|].
    apply Forall_app. split; [apply Hfs; exact Hf|apply acgt_skipn; exact Ha]. }
  destruct (filter_checked_total vt _ Hall) as (res & E3). rewrite E3. cbn [bind].
  eexists. eexists. split; [reflexivity|]. split; [reflexivity|].
  apply (proj2 (sort_dedup_sorted (fst res))).
  apply (filter_checked_in vt _ res w E3); [|apply check_of_matches; exact Hchk].
  apply in_or_app. left. apply in_map_iff. exists (snd rc). split; [exact Hw|exact Hin].
Qed.

(* ========================================================================================== *)
(* Part 7: one edit  w = A ++ B1 ++ C  |->  s = A ++ B2 ++ C                                   *)
(* ========================================================================================== *)
Lemma okw_firstn : forall n t v, okw v t -> okw v (firstn n t).
Proof.
  intros n t v H. rewrite <- (firstn_skipn n t) in H. apply okw_app in H. apply H.
Qed.

Lemma okw_prefix : forall v0 s l, acgt s -> (l <= length s)%nat ->
  (forall j, (j < l)%nat -> X (sig v0 s (S j)) = true) -> okw v0 (firstn l s).
Proof.
  intros v0 s l Ha Hl H. apply okw_pos. split; [apply acgt_firstn; exact Ha|].
  intros j Hj. rewrite firstn_length_le in Hj by exact Hl.
  rewrite firstn_firstn, Nat.min_l by lia. apply H. exact Hj.
Qed.

Lemma okw_suffix : forall v0 s i, acgt s -> (i <= length s)%nat ->
  (forall j, (i < j)%nat -> (j <= length s)%nat -> X (sig v0 s j) = true) -> okw (sig v0 s i) (skipn i s).
Proof.
  intros v0 s i Ha Hi H. apply okw_pos. split; [apply acgt_skipn; exact Ha|].
  intros j Hj. rewrite skipn_length in Hj. rewrite <- sig_add. apply H; lia.
Qed.

Section Edit.
Variables (v0 : Z) (A B1 B2 C : list Z).
Hypothesis Hv0 : vin k X v0.
Hypothesis Hw : okw v0 (A ++ B1 ++ C).
Hypothesis HB2 : acgt B2.
Hypothesis HkA : (k <= length A)%nat.

Lemma edit_before : forall i, (i <= length A)%nat -> sig v0 (A ++ B2 ++ C) i = sig v0 (A ++ B1 ++ C) i.
Proof.
  intros i Hi. unfold sig. rewrite !firstn_app. replace (i - length A)%nat with 0%nat by lia. reflexivity.
Qed.

Lemma edit_after : forall q, (k <= q)%nat -> (q <= length C)%nat ->
  sig v0 (A ++ B2 ++ C) (length A + (length B2 + q)) = sig v0 (A ++ B1 ++ C) (length A + (length B1 + q)).
Proof.
  intros q Hq HqC. unfold sig. rewrite !firstn_app_2. rewrite !app_assoc. rewrite !stt_app.
  apply stt_forget.
  - rewrite firstn_length_le by exact HqC. exact Hq.
  - rewrite <- stt_app. apply stt_range. apply Hv0.
  - rewrite <- stt_app. apply stt_range. apply Hv0.
Qed.

Lemma edit_w_states : forall i, (i <= length (A ++ B1 ++ C))%nat -> X (sig v0 (A ++ B1 ++ C) i) = true.
Proof.
  intros i Hi. destruct i as [|i]; [apply Hv0|].
  apply (proj1 (okw_pos _ _) Hw). lia.
Qed.

Lemma edit_window : forall l, (l < length (A ++ B2 ++ C))%nat -> X (sig v0 (A ++ B2 ++ C) (S l)) = false ->
  (length A <= l)%nat /\ (S l < length A + length B2 + k)%nat.
Proof.
  intros l Hl Hf. rewrite !app_length in Hl. split.
  - destruct (le_lt_dec (length A) l) as [H|H]; [exact H|].
    rewrite edit_before in Hf by lia. rewrite edit_w_states in Hf; [discriminate|]. rewrite app_length. lia.
  - destruct (le_lt_dec (length A + length B2 + k) (S l)) as [H|H]; [|exact H].
    replace (S l) with (length A + (length B2 + (S l - length A - length B2)))%nat in Hf by lia.
    rewrite edit_after in Hf by lia. rewrite edit_w_states in Hf; [discriminate|]. rewrite !app_length. lia.
Qed.

Lemma edit_resume : forall i, (length A + length B2 + k <= i)%nat -> (i <= length (A ++ B2 ++ C))%nat ->
  X (sig v0 (A ++ B2 ++ C) i) = true.
Proof.
  intros i Hi Hl. rewrite !app_length in Hl.
  replace i with (length A + (length B2 + (i - length A - length B2)))%nat by lia.
  rewrite edit_after by lia. apply edit_w_states. rewrite !app_length. lia.
Qed.

Hypothesis HC : (2 * k <= length C)%nat.
Hypothesis HlB2 : (length B2 <= 1)%nat.

Theorem edit_gen : forall vt indel heap,
  (forall l recs n, (length A <= l)%nat -> (S l < length A + length B2 + k)%nat ->
     path_matching (firstn (2 * k - 1) (skipn (l + 1 - k) (A ++ B2 ++ C))) acc (stt k v0 A)
       (Z.of_nat k - Z.of_nat (l - length A) - 1) indel = Ok (recs, n) ->
     exists rc, In rc recs /\
       firstn (l + 1 - k) (A ++ B2 ++ C) ++ snd rc ++ skipn (l + k) (A ++ B2 ++ C) = A ++ B1 ++ C) ->
  check_of (A ++ B1 ++ C) vt -> 8 * Z.of_nat k <= heap ->
  exists cands st, repair_dna (A ++ B2 ++ C) acc v0 (Z.of_nat k) vt indel heap = Ok (cands, st)
     /\ (detected st = 1 <-> ~ is_walk acc v0 (A ++ B2 ++ C))
     /\ (is_walk acc v0 (A ++ B2 ++ C) -> detected st = 0)
     /\ (~ is_walk acc v0 (A ++ B2 ++ C) -> In (A ++ B1 ++ C) cands).
Proof.
  intros vt indel heap Hpm Hchk Hheap.
  set (s := A ++ B2 ++ C) in *. set (w := A ++ B1 ++ C) in *.
  assert (Has : acgt s).
  { pose proof (okw_acgt _ _ Hw) as Haw. unfold w, s, acgt in *. apply Forall_app in Haw. destruct Haw as [H1 H2].
    apply Forall_app in H2. destruct H2 as [_ H2]. apply Forall_app. split; [exact H1|].
    apply Forall_app. split; [exact HB2|exact H2]. }
  assert (Hls : length s = (length A + length B2 + length C)%nat) by (unfold s; rewrite !app_length; lia).
  destruct (r8_first_fail (fun j => X (sig v0 s (S j))) (length s)) as [Hall|(l & Hl & Hbefore & Hfail)].
  - (* the corrupted strand is still a walk *)
    assert (Hok : okw v0 s).
    { rewrite <- (firstn_all s). apply okw_prefix; [exact Has|lia|exact Hall]. }
    assert (Hwalk : is_walk acc v0 s) by (apply is_walk_okw; assumption).
    destruct (repair_clean s acc v0 (Z.of_nat k) vt indel heap acc_shaped (vin_in_range v0 Hv0) Hwalk)
      as (flag & count & visited & E).
    eexists. eexists. split; [exact E|]. cbn [detected]. split; [|split].
    + split; [discriminate|]. intros Hn. exfalso. apply Hn. exact Hwalk.
    + reflexivity.
    + intros Hn. exfalso. apply Hn. exact Hwalk.
  - (* first failing position l *)
    cbv beta in Hbefore, Hfail.
    destruct (edit_window l Hl Hfail) as [HAl HlA]. fold s in Hfail.
    assert (Hnw : ~ is_walk acc v0 s).
    { intros Hwalk. apply is_walk_okw in Hwalk; [|exact Hv0]. apply okw_pos in Hwalk. destruct Hwalk as [_ Hwalk].
      specialize (Hwalk l Hl). unfold sig in Hfail. congruence. }
    assert (Hres : forall i, (l + k + 1 <= i)%nat -> (i <= length s)%nat -> X (sig v0 s i) = true).
    { intros i Hi1 Hi2. apply edit_resume; [lia|exact Hi2]. }
    destruct (detect_gen s w v0 l (l - length A) vt indel heap Hv0 Has ltac:(lia) ltac:(lia)) as (cands & st & E & Hd & Hin).
    + apply okw_prefix; [exact Has|lia|exact Hbefore].
    + exact Hfail.
    + apply Hres; lia.
    + apply okw_suffix; [exact Has|lia|]. intros j Hj1 Hj2. apply Hres; lia.
    + lia.
    + intros recs n Hp. apply (Hpm l recs n HAl HlA).
      replace (l - (l - length A))%nat with (length A) in Hp by lia.
      unfold sig in Hp. unfold s in Hp at 2. rewrite firstn_app, Nat.sub_diag, firstn_all in Hp.
      cbn [firstn] in Hp. rewrite app_nil_r in Hp. exact Hp.
    + exact Hchk.
    + exact Hheap.
    + exists cands, st. split; [exact E|]. split; [|split].
      * split; [intros _; exact Hnw|intros _; exact Hd].
      * intros Hwalk. exfalso. apply Hnw. exact Hwalk.
      * intros _. exact Hin.
Qed.

End Edit.

(* ========================================================================================== *)
(* Part 8: the repair record for each kind of edit                                            *)
(* ========================================================================================== *)
Lemma chunk_split : forall (A B2 C : list Z) l, (length A <= l)%nat -> (S l < length A + length B2 + k)%nat ->
  (length B2 <= 1)%nat -> (k <= length A)%nat -> (2 * k <= length C)%nat ->
  firstn (2 * k - 1) (skipn (l + 1 - k) (A ++ B2 ++ C)) =
     skipn (l + 1 - k) A ++ firstn (k + (l - length A)) (B2 ++ C)
  /\ Z.of_nat k - Z.of_nat (l - length A) - 1 = Z.of_nat (length (skipn (l + 1 - k) A))
  /\ firstn (l + 1 - k) (A ++ B2 ++ C) = firstn (l + 1 - k) A
  /\ skipn (l + k) (A ++ B2 ++ C) = skipn (k + (l - length A) - length B2) C.
Proof.
  intros A B2 C l H1 H2 H3 H4 H5. split; [|split; [|split]].
  - rewrite skipn_app. replace (l + 1 - k - length A)%nat with 0%nat by lia. cbn [skipn].
    replace (2 * k - 1)%nat with (length (skipn (l + 1 - k) A) + (k + (l - length A)))%nat
      by (rewrite skipn_length; lia).
    apply firstn_app_2.
  - rewrite skipn_length. lia.
  - rewrite firstn_app. replace (l + 1 - k - length A)%nat with 0%nat by lia. cbn [firstn]. apply app_nil_r.
  - rewrite !skipn_app. rewrite (skipn_all2 A) by lia. rewrite (skipn_all2 B2) by lia. cbn [app].
    f_equal. lia.
Qed.

Theorem sub_case : forall v0 A a0 c C vt indel heap, vin k X v0 -> okw v0 (A ++ [a0] ++ C) ->
  is_acgt c = true -> c <> a0 -> (k <= length A)%nat -> (2 * k <= length C)%nat ->
  check_of (A ++ [a0] ++ C) vt -> 8 * Z.of_nat k <= heap ->
  exists cands st, repair_dna (A ++ [c] ++ C) acc v0 (Z.of_nat k) vt indel heap = Ok (cands, st)
     /\ (detected st = 1 <-> ~ is_walk acc v0 (A ++ [c] ++ C))
     /\ (is_walk acc v0 (A ++ [c] ++ C) -> detected st = 0)
     /\ (~ is_walk acc v0 (A ++ [c] ++ C) -> In (A ++ [a0] ++ C) cands).
Proof.
  intros v0 A a0 c C vt indel heap Hv0 Hw Hc Hne HkA HC Hchk Hheap.
  apply (edit_gen v0 A [a0] [c] C Hv0 Hw ltac:(constructor; [exact Hc|constructor]) HkA HC ltac:(cbn [length]; lia));
    [|exact Hchk|exact Hheap].
  intros l recs n H1 H2 Hp.
  destruct (chunk_split A [c] C l H1 H2 ltac:(cbn [length]; lia) HkA HC) as (E1 & E2 & E3 & E4).
  rewrite E1, E2 in Hp. rewrite E3, E4. cbn [length] in *.
  set (r := (l - length A)%nat) in *. set (b := skipn (l + 1 - k) A) in *.
  replace (k + r)%nat with (S (k + r - 1)) in Hp by lia. cbn [app firstn] in Hp.
  apply okw_app in Hw. destruct Hw as [HwA Hw2]. cbn [app okw] in Hw2. destruct Hw2 as (Ha0 & Hx & HwC).
  pose proof (okw_vin A v0 Hv0 HwA) as Hu.
  exists (0, a0, b ++ a0 :: firstn (k + r - 1) C). split.
  - apply (pm_sub b c (firstn (k + r - 1) C) (stt k v0 A) a0 indel recs n Hu Ha0 ltac:(congruence) Hx
             (okw_firstn _ _ _ HwC) Hp).
  - cbn [snd app]. rewrite <- app_assoc. rewrite (app_assoc (firstn (l + 1 - k) A)). unfold b.
    rewrite firstn_skipn. cbn [app]. rewrite firstn_skipn. reflexivity.
Qed.

Theorem ins_case : forall v0 A c C vt heap, vin k X v0 -> okw v0 (A ++ [] ++ C) ->
  is_acgt c = true -> (k <= length A)%nat -> (2 * k <= length C)%nat ->
  check_of (A ++ [] ++ C) vt -> 8 * Z.of_nat k <= heap ->
  exists cands st, repair_dna (A ++ [c] ++ C) acc v0 (Z.of_nat k) vt true heap = Ok (cands, st)
     /\ (detected st = 1 <-> ~ is_walk acc v0 (A ++ [c] ++ C))
     /\ (is_walk acc v0 (A ++ [c] ++ C) -> detected st = 0)
     /\ (~ is_walk acc v0 (A ++ [c] ++ C) -> In (A ++ [] ++ C) cands).
Proof.
  intros v0 A c C vt heap Hv0 Hw Hc HkA HC Hchk Hheap.
  apply (edit_gen v0 A [] [c] C Hv0 Hw ltac:(constructor; [exact Hc|constructor]) HkA HC ltac:(cbn [length]; lia));
    [|exact Hchk|exact Hheap].
  intros l recs n H1 H2 Hp.
  destruct (chunk_split A [c] C l H1 H2 ltac:(cbn [length]; lia) HkA HC) as (E1 & E2 & E3 & E4).
  rewrite E1, E2 in Hp. rewrite E3, E4. cbn [length] in *.
  set (r := (l - length A)%nat) in *. set (b := skipn (l + 1 - k) A) in *.
  replace (k + r)%nat with (S (k + r - 1)) in Hp by lia. cbn [app firstn] in Hp.
  apply okw_app in Hw. destruct Hw as [HwA HwC]. cbn [app] in HwC.
  pose proof (okw_vin A v0 Hv0 HwA) as Hu.
  exists (2, c, b ++ firstn (k + r - 1) C). split.
  - apply (pm_ins b c (firstn (k + r - 1) C) (stt k v0 A) recs n Hu (okw_firstn _ _ _ HwC) Hp).
  - cbn [snd app]. rewrite <- app_assoc. rewrite (app_assoc (firstn (l + 1 - k) A)). unfold b.
    rewrite firstn_skipn. rewrite firstn_skipn. reflexivity.
Qed.

Theorem del_case : forall v0 A a0 C vt heap, vin k X v0 -> okw v0 (A ++ [a0] ++ C) ->
  (k <= length A)%nat -> (2 * k <= length C)%nat ->
  check_of (A ++ [a0] ++ C) vt -> 8 * Z.of_nat k <= heap ->
  exists cands st, repair_dna (A ++ [] ++ C) acc v0 (Z.of_nat k) vt true heap = Ok (cands, st)
     /\ (detected st = 1 <-> ~ is_walk acc v0 (A ++ [] ++ C))
     /\ (is_walk acc v0 (A ++ [] ++ C) -> detected st = 0)
     /\ (~ is_walk acc v0 (A ++ [] ++ C) -> In (A ++ [a0] ++ C) cands).
Proof.
  intros v0 A a0 C vt heap Hv0 Hw HkA HC Hchk Hheap.
  apply (edit_gen v0 A [a0] [] C Hv0 Hw ltac:(constructor) HkA HC ltac:(cbn [length]; lia));
    [|exact Hchk|exact Hheap].
  intros l recs n H1 H2 Hp.
  destruct (chunk_split A [] C l H1 H2 ltac:(cbn [length]; lia) HkA HC) as (E1 & E2 & E3 & E4).
  rewrite E1, E2 in Hp. rewrite E3, E4. cbn [length] in *.
  set (r := (l - length A)%nat) in *. set (b := skipn (l + 1 - k) A) in *.
  destruct C as [|c0 C']; [cbn [length] in HC; lia|].
  replace (k + r)%nat with (S (k + r - 1)) in Hp by lia. cbn [app firstn] in Hp.
  apply okw_app in Hw. destruct Hw as [HwA Hw2]. cbn [app okw] in Hw2. destruct Hw2 as (Ha0 & Hx & HwC).
  pose proof (okw_vin A v0 Hv0 HwA) as Hu.
  exists (1, a0, b ++ a0 :: c0 :: firstn (k + r - 1) C'). split.
  - apply (pm_del b c0 (firstn (k + r - 1) C') (stt k v0 A) a0 recs n Hu Ha0 Hx); [|exact Hp].
    apply (okw_firstn (S (k + r - 1)) (c0 :: C') _ HwC).
  - cbn [snd app].
    replace (skipn (k + r - 0) (c0 :: C')) with (skipn (k + r - 1) C')
      by (replace (k + r - 0)%nat with (S (k + r - 1)) by lia; reflexivity).
    rewrite <- app_assoc. rewrite (app_assoc (firstn (l + 1 - k) A)). unfold b.
    rewrite firstn_skipn. cbn [app]. rewrite firstn_skipn. reflexivity.
Qed.

End Ind.

(* ========================================================================================== *)
(* Part 9: the target statements                                                              *)
(* ========================================================================================== *)
Theorem repair_single_sub : forall k acc v0 w p c vt indel heap, generated k acc -> 0 <= v0 < pow4 k ->
  is_walk acc v0 w -> (k <= p)%nat -> (p + 2 * k < length w)%nat -> is_acgt c = true -> c <> nth p w 0 ->
  check_of w vt -> 8 * Z.of_nat k <= heap ->
  exists cands st, repair_dna (edit_sub w p c) acc v0 (Z.of_nat k) vt indel heap = Ok (cands, st)
     /\ (detected st = 1 <-> ~ is_walk acc v0 (edit_sub w p c))
     /\ (is_walk acc v0 (edit_sub w p c) -> detected st = 0)
     /\ (~ is_walk acc v0 (edit_sub w p c) -> In w cands).
Proof.
  intros k acc v0 w p c vt indel heap (Hk & Hleg & X & ->) Hv Hwalk Hkp Hpn Hc Hne Hchk Hheap.
  pose proof (is_walk_start_len k X Hk v0 w Hv ltac:(lia) Hwalk) as Hv0.
  assert (Ew : w = firstn p w ++ [nth p w 0] ++ skipn (S p) w).
  { transitivity (firstn p w ++ skipn p w); [symmetry; apply firstn_skipn|].
    rewrite (skipn_nth w p) by lia. reflexivity. }
  unfold edit_sub. change (firstn p w ++ c :: skipn (S p) w) with (firstn p w ++ [c] ++ skipn (S p) w).
  assert (HlA : length (firstn p w) = p) by (apply firstn_length_le; lia).
  assert (HlC : (2 * k <= length (skipn (S p) w))%nat) by (rewrite skipn_length; lia).
  remember (firstn p w) as A eqn:HA. remember (skipn (S p) w) as C eqn:HC. remember (nth p w 0) as a0 eqn:Ha0.
  rewrite Ew in Hwalk, Hchk |- *.
  apply (sub_case k X Hk v0 A a0 c C vt indel heap Hv0); try assumption; try lia.
  apply (is_walk_okw k X Hk); assumption.
Qed.

Theorem repair_single_ins : forall k acc v0 w p c vt heap, generated k acc -> 0 <= v0 < pow4 k ->
  is_walk acc v0 w -> (k <= p)%nat -> (p + 2 * k < length w)%nat -> is_acgt c = true ->
  check_of w vt -> 8 * Z.of_nat k <= heap ->
  exists cands st, repair_dna (edit_ins w p c) acc v0 (Z.of_nat k) vt true heap = Ok (cands, st)
     /\ (detected st = 1 <-> ~ is_walk acc v0 (edit_ins w p c))
     /\ (is_walk acc v0 (edit_ins w p c) -> detected st = 0)
     /\ (~ is_walk acc v0 (edit_ins w p c) -> In w cands).
Proof.
  intros k acc v0 w p c vt heap (Hk & Hleg & X & ->) Hv Hwalk Hkp Hpn Hc Hchk Hheap.
  pose proof (is_walk_start_len k X Hk v0 w Hv ltac:(lia) Hwalk) as Hv0.
  assert (Ew : w = firstn p w ++ [] ++ skipn p w) by (symmetry; apply firstn_skipn).
  unfold edit_ins. change (firstn p w ++ c :: skipn p w) with (firstn p w ++ [c] ++ skipn p w).
  assert (HlA : length (firstn p w) = p) by (apply firstn_length_le; lia).
  assert (HlC : (2 * k <= length (skipn p w))%nat) by (rewrite skipn_length; lia).
  remember (firstn p w) as A eqn:HA. remember (skipn p w) as C eqn:HC.
  rewrite Ew in Hwalk, Hchk |- *.
  apply (ins_case k X Hk v0 A c C vt heap Hv0); try assumption; try lia.
  apply (is_walk_okw k X Hk); assumption.
Qed.

Theorem repair_single_del : forall k acc v0 w p vt heap, generated k acc -> 0 <= v0 < pow4 k ->
  is_walk acc v0 w -> (k <= p)%nat -> (p + 2 * k < length w)%nat ->
  check_of w vt -> 8 * Z.of_nat k <= heap ->
  exists cands st, repair_dna (edit_del w p) acc v0 (Z.of_nat k) vt true heap = Ok (cands, st)
     /\ (detected st = 1 <-> ~ is_walk acc v0 (edit_del w p))
     /\ (is_walk acc v0 (edit_del w p) -> detected st = 0)
     /\ (~ is_walk acc v0 (edit_del w p) -> In w cands).
Proof.
  intros k acc v0 w p vt heap (Hk & Hleg & X & ->) Hv Hwalk Hkp Hpn Hchk Hheap.
  pose proof (is_walk_start_len k X Hk v0 w Hv ltac:(lia) Hwalk) as Hv0.
  assert (Ew : w = firstn p w ++ [nth p w 0] ++ skipn (S p) w).
  { transitivity (firstn p w ++ skipn p w); [symmetry; apply firstn_skipn|].
    rewrite (skipn_nth w p) by lia. reflexivity. }
  unfold edit_del. change (firstn p w ++ skipn (S p) w) with (firstn p w ++ [] ++ skipn (S p) w).
  assert (HlA : length (firstn p w) = p) by (apply firstn_length_le; lia).
  assert (HlC : (2 * k <= length (skipn (S p) w))%nat) by (rewrite skipn_length; lia).
  remember (firstn p w) as A eqn:HA. remember (skipn (S p) w) as C eqn:HC. remember (nth p w 0) as a0 eqn:Ha0.
  rewrite Ew in Hwalk, Hchk |- *.
  apply (del_case k X Hk v0 A a0 C vt heap Hv0); try assumption; try lia.
  apply (is_walk_okw k X Hk); assumption.
Qed.

Print Assumptions repair_single_sub.
Print Assumptions repair_single_ins.
Print Assumptions repair_single_del.
