(* CoderProofs.v -- C05 (the strand is the documented mixed-radix walk, independent of the
   decimal-string arithmetic and of argsort) and the round-trip core of C01. *)
From Coq Require Import Lia ZifyBool Permutation Sorting.Sorted.
From DSW Require Import Py Bignum Convert Kmer Graph Coder Spec GraphSpec CoderSpec FastSpec.
From DSW.Proofs Require Import BignumProofs ConvertProofs ShuffleProofs VTProofs.
Ltac Zify.zify_post_hook ::= Z.to_euclidean_division_equations.

(* All target statements (C05 normal/fast refinement, soundness, tightness, decode of any walk,
   and the C01 round trips) are proved below with Qed; see the Print Assumptions at the end. *)

(* ------------------------------------------------------------------------------------------ *)
(* shape facts (own copies, cp_ prefix)                                                         *)
(* ------------------------------------------------------------------------------------------ *)
Lemma cp_used_from_in : forall row j0 j,
  In j (used_from row j0) <->
  exists n, j = j0 + Z.of_nat n /\ (n < length row)%nat /\ 0 <= nth n row (-1).
Proof.
  induction row as [|x t IH]; intros j0 j; cbn [used_from].
  - split; [intros []|intros (n & _ & Hn & _); cbn [length] in Hn; lia].
  - assert (Ht : In j (used_from t (j0 + 1)) <->
                 exists n, j = j0 + Z.of_nat (S n) /\ (S n < length (x :: t))%nat
                           /\ 0 <= nth (S n) (x :: t) (-1)).
    { rewrite IH. split; intros (n & H1 & H2 & H3); exists n; cbn [length nth] in *;
        (split; [lia|split; [lia|exact H3]]). }
    destruct (0 <=? x) eqn:E.
    + cbn [In]. rewrite Ht. split.
      * intros [H|(n & H)].
        -- exists 0%nat. cbn [length nth]. split; [lia|split; lia].
        -- exists (S n). exact H.
      * intros (n & H1 & H2 & H3). destruct n as [|n]; [left; lia|right; exists n; auto].
    + rewrite Ht. split.
      * intros (n & H). exists (S n). exact H.
      * intros (n & H1 & H2 & H3). destruct n as [|n]; [cbn [nth] in H3; lia|exists n; auto].
Qed.

Lemma cp_used_from_sorted : forall row j0, StronglySorted Z.lt (used_from row j0).
Proof.
  induction row as [|x t IH]; intros j0; cbn [used_from]; [constructor|].
  destruct (0 <=? x); [|apply IH].
  constructor; [apply IH|]. apply Forall_forall. intros j Hj.
  apply cp_used_from_in in Hj. destruct Hj as (n & H & _). lia.
Qed.

Lemma cp_used_from_len : forall row j0, (length (used_from row j0) <= length row)%nat.
Proof.
  induction row as [|x t IH]; intros j0; cbn [used_from length]; [lia|].
  specialize (IH (j0 + 1)). destruct (0 <=? x); cbn [length]; lia.
Qed.

Lemma cp_row_in : forall acc v, in_range acc v -> In (get_row acc v) acc.
Proof.
  intros acc v H. unfold get_row. apply nth_In. unfold in_range, nrows in H. lia.
Qed.

Lemma cp_row_len : forall acc v, shaped acc -> in_range acc v -> length (get_row acc v) = 4%nat.
Proof.
  intros acc v [H _] Hv. unfold rows4 in H. rewrite Forall_forall in H.
  apply H. apply cp_row_in. exact Hv.
Qed.

Lemma cp_py_get_row : forall acc v, in_range acc v -> py_get acc v = Ok (get_row acc v).
Proof. intros acc v H. unfold get_row. apply py_get_ok. exact H. Qed.

Lemma cp_live_in : forall acc v j, shaped acc -> in_range acc v ->
  (In j (live_cols acc v) <-> 0 <= j < 4 /\ 0 <= entry acc v j).
Proof.
  intros acc v j Hs Hv. unfold live_cols, used_indices, entry. rewrite cp_used_from_in.
  pose proof (cp_row_len acc v Hs Hv) as Hl. rewrite Hl. split.
  - intros (n & H1 & H2 & H3). subst j. rewrite Z.add_0_l, Nat2Z.id. split; [lia|exact H3].
  - intros (H1 & H2). exists (Z.to_nat j). split; [lia|split; [lia|exact H2]].
Qed.

Lemma cp_live_sorted : forall acc v, StronglySorted Z.lt (live_cols acc v).
Proof. intros. apply cp_used_from_sorted. Qed.

Lemma cp_live_nodup : forall acc v, NoDup (live_cols acc v).
Proof.
  intros. exact (strict_sorted_nodup (fun u : Z => u) _ (cp_live_sorted acc v))
    || (rewrite <- (map_id (live_cols acc v));
        exact (strict_sorted_nodup (fun u : Z => u) _ (cp_live_sorted acc v))).
Qed.

Lemma cp_radix_bound : forall acc v, shaped acc -> in_range acc v -> 0 <= radix acc v <= 4.
Proof.
  intros acc v Hs Hv. unfold radix, live_cols, used_indices.
  pose proof (cp_used_from_len (get_row acc v) 0) as H.
  rewrite (cp_row_len acc v Hs Hv) in H. lia.
Qed.

Lemma cp_entry_in_range : forall acc v j, shaped acc -> in_range acc v -> 0 <= j < 4 ->
  0 <= entry acc v j -> in_range acc (entry acc v j).
Proof.
  intros acc v j Hs Hv Hj He. pose proof (cp_row_len acc v Hs Hv) as Hl.
  destruct Hs as [_ He2]. unfold entries_in_range in He2. rewrite Forall_forall in He2.
  specialize (He2 _ (cp_row_in acc v Hv)). rewrite Forall_forall in He2.
  unfold entry in *.
  assert (Hin : In (nth (Z.to_nat j) (get_row acc v) (-1)) (get_row acc v)) by (apply nth_In; lia).
  specialize (He2 _ Hin). unfold in_range. lia.
Qed.

Lemma cp_py_get_entry : forall acc v j, shaped acc -> in_range acc v -> 0 <= j < 4 ->
  py_get (get_row acc v) j = Ok (entry acc v j).
Proof.
  intros acc v j Hs Hv Hj. unfold entry. apply py_get_ok. rewrite cp_row_len by assumption. lia.
Qed.

Lemma cp_nuc_index_char : forall j, 0 <= j < 4 -> nuc_index (nuc_char j) = Some j.
Proof.
  intros j Hj. assert (H : j = 0 \/ j = 1 \/ j = 2 \/ j = 3) by lia.
  destruct H as [H|[H|[H|H]]]; subst j; reflexivity.
Qed.

(* everything a coder step needs to know about a live column *)
Lemma cp_live_step : forall acc v j, shaped acc -> in_range acc v -> In j (live_cols acc v) ->
  0 <= j < 4 /\ 0 <= entry acc v j /\ py_get (get_row acc v) j = Ok (entry acc v j)
  /\ in_range acc (entry acc v j) /\ nuc_index (nuc_char j) = Some j.
Proof.
  intros acc v j Hs Hv Hin. apply (cp_live_in acc v j Hs Hv) in Hin. destruct Hin as [Hj He].
  split; [exact Hj|]. split; [exact He|]. split; [apply cp_py_get_entry; assumption|].
  split; [apply cp_entry_in_range; assumption|apply cp_nuc_index_char; exact Hj].
Qed.

Lemma cp_py_get_nth : forall (l : list Z) i, 0 <= i < Z.of_nat (length l) ->
  py_get l i = Ok (nth (Z.to_nat i) l 0) /\ In (nth (Z.to_nat i) l 0) l.
Proof.
  intros l i Hi. split; [apply py_get_ok; exact Hi|apply nth_In; lia].
Qed.

Lemma cp_is_zero : forall d, canonical d -> is_zero_str d = (dval d =? 0).
Proof.
  intros d Hc. destruct (is_zero_str d) eqn:E.
  - apply is_zero_str_spec in E. subst d. reflexivity.
  - pose proof (not_zero_str_pos d Hc E). lia.
Qed.

(* ------------------------------------------------------------------------------------------ *)
(* the shuffle table at a vertex                                                                *)
(* ------------------------------------------------------------------------------------------ *)
Lemma cp_perm_shape : forall sh n, perm_table sh n -> shape_table sh n.
Proof.
  intros [t|] n H; [|exact I]. destruct H as [Hl Hf]. split; [exact Hl|].
  rewrite Forall_forall in *. intros r Hr. rewrite (Permutation_length (Hf r Hr)). reflexivity.
Qed.

Lemma cp_table_get : forall t acc v, shape_table (Some t) (nrows acc) -> in_range acc v ->
  py_get t v = Ok (nth (Z.to_nat v) t []) /\ length (nth (Z.to_nat v) t []) = 4%nat.
Proof.
  intros t acc v [Hl Hf] Hv. unfold in_range in Hv. split.
  - apply py_get_ok. lia.
  - rewrite Forall_forall in Hf. apply Hf. apply nth_In. lia.
Qed.

Lemma cp_table_in_range : forall sh acc v, shape_table sh (nrows acc) -> in_range acc v ->
  match sh with None => True | Some t => 0 <= v < Z.of_nat (length t) end.
Proof.
  intros [t|] acc v H Hv; [|exact I]. destruct H as [Hl _]. unfold in_range in Hv. lia.
Qed.

Lemma cp_nodup_map_nth : forall (r used : list Z), NoDup r -> NoDup used ->
  Forall (fun u => 0 <= u < Z.of_nat (length r)) used ->
  NoDup (map (fun u => nth (Z.to_nat u) r (-1)) used).
Proof.
  intros r used Hr; induction used as [|u t IH]; intros Hn Hf; cbn [map]; [constructor|].
  apply NoDup_cons_iff in Hn. destruct Hn as [Hni Hnt].
  pose proof (Forall_inv Hf) as Hu. pose proof (Forall_inv_tail Hf) as Hft.
  constructor; [|apply IH; assumption].
  intro Hin. apply in_map_iff in Hin. destruct Hin as (u' & E & Hu').
  rewrite Forall_forall in Hft. specialize (Hft u' Hu'). cbv beta in Hu, Hft.
  rewrite (NoDup_nth r (-1)) in Hr. specialize (Hr (Z.to_nat u') (Z.to_nat u) ltac:(lia) ltac:(lia) E).
  apply Hni. replace u with u' by lia. exact Hu'.
Qed.

Lemma cp_keys_nodup : forall acc v sh, shaped acc -> in_range acc v -> perm_table sh (nrows acc) ->
  NoDup (map (key_of (table_row sh v)) (live_cols acc v)).
Proof.
  intros acc v sh Hs Hv Ht. destruct sh as [t|].
  - cbn [table_row]. unfold key_of.
    destruct Ht as [Hl Hf]. rewrite Forall_forall in Hf.
    assert (HP : Permutation (nth (Z.to_nat v) t []) [0; 1; 2; 3]).
    { apply Hf. apply nth_In. unfold in_range in Hv. lia. }
    apply cp_nodup_map_nth.
    + apply (Permutation_NoDup (Permutation_sym HP)).
      repeat constructor; cbn [In]; lia.
    + apply cp_live_nodup.
    + rewrite (Permutation_length HP). apply Forall_forall. intros u Hu.
      apply (cp_live_in acc v u Hs Hv) in Hu. cbn [length]. lia.
  - cbn [table_row]. exact (strict_sorted_nodup (key_of None) _ (cp_live_sorted acc v)).
Qed.

Lemma cp_py_get_nth_error : forall (l : list Z) i x, 0 <= i -> nth_error l (Z.to_nat i) = Some x ->
  py_get l i = Ok x.
Proof.
  intros l i x Hi H.
  assert (Hlen : (Z.to_nat i < length l)%nat) by (apply nth_error_Some; congruence).
  rewrite (py_get_ok l i 0) by lia. f_equal. apply nth_error_nth. exact H.
Qed.

(* encoder side: the code's digit -> arc path is the specification's select_arc *)
Lemma cp_shuffle_select : forall acc v sh r, shaped acc -> in_range acc v ->
  perm_table sh (nrows acc) -> 0 <= r < radix acc v ->
  exists rem' j, shuffle_digit sh v (live_cols acc v) r = Ok rem'
                 /\ py_get (live_cols acc v) rem' = Ok j
                 /\ select_arc (table_row sh v) (live_cols acc v) r = Some j
                 /\ In j (live_cols acc v)
                 /\ rank_in (table_row sh v) (live_cols acc v) j = r.
Proof.
  intros acc v sh r Hs Hv Ht Hr. unfold radix in Hr.
  pose proof (cp_keys_nodup acc v sh Hs Hv Ht) as Hnd.
  destruct (proj1 (select_rank_bijection _ _ Hnd) r Hr) as (u & Hsel & Hin & Hrank).
  destruct sh as [t|].
  - destruct (cp_table_get t acc v (cp_perm_shape _ _ Ht) Hv) as [Hg Hl4].
    cbn [table_row] in *. set (srow := nth (Z.to_nat v) t []) in *.
    assert (Hfa : Forall (fun u => 0 <= u < Z.of_nat (length srow)) (live_cols acc v)).
    { apply Forall_forall. intros x Hx. apply (cp_live_in acc v x Hs Hv) in Hx. lia. }
    destruct (code_select_is_spec srow (live_cols acc v) r Hnd Hr Hfa) as (p & Hp & Hsel').
    assert (Hpin : In p (argsort (pick srow (live_cols acc v)))) by (eapply nth_error_In; exact Hp).
    apply argsort_in in Hpin. unfold pick in Hpin at 1. rewrite map_length in Hpin.
    exists p, u. unfold shuffle_digit. rewrite Hg. cbn [bind].
    split; [apply cp_py_get_nth_error; [lia|exact Hp]|].
    split; [|auto].
    rewrite Hsel in Hsel'. inversion Hsel' as [Hu]. apply py_get_ok. exact Hpin.
  - cbn [table_row] in *.
    destruct (select_no_table (live_cols acc v) r (cp_live_sorted acc v) Hr) as [Hsel' _].
    exists r, u. cbn [shuffle_digit]. split; [reflexivity|]. split; [|auto].
    rewrite Hsel in Hsel'. inversion Hsel' as [Hu]. apply py_get_ok. exact Hr.
Qed.

(* decoder side: the code's arc -> digit path is the specification's rank_in *)
Lemma cp_first_pos_in : forall (used : list Z) j, NoDup used -> In j used ->
  exists n, (n < length used)%nat /\ nth n used 0 = j /\ first_pos j used 0 = Some (Z.of_nat n).
Proof.
  intros used j Hn Hin. destruct (In_nth used j 0 Hin) as (n & Hlt & Hx).
  exists n. split; [exact Hlt|]. split; [exact Hx|].
  rewrite <- Hx. rewrite first_pos_nodup by assumption. f_equal.
Qed.

Lemma cp_unshuffle_rank : forall acc v sh j, shaped acc -> in_range acc v ->
  perm_table sh (nrows acc) -> In j (live_cols acc v) ->
  exists pos, first_pos j (live_cols acc v) 0 = Some pos
              /\ unshuffle_digit sh v (live_cols acc v) pos
                 = Ok (rank_in (table_row sh v) (live_cols acc v) j).
Proof.
  intros acc v sh j Hs Hv Ht Hin.
  pose proof (cp_keys_nodup acc v sh Hs Hv Ht) as Hnd.
  destruct (cp_first_pos_in _ j (cp_live_nodup acc v) Hin) as (n & Hlt & Hx & Hf).
  exists (Z.of_nat n). split; [exact Hf|].
  destruct sh as [t|].
  - destruct (cp_table_get t acc v (cp_perm_shape _ _ Ht) Hv) as [Hg Hl4].
    cbn [table_row] in *. set (srow := nth (Z.to_nat v) t []) in *.
    assert (Hfa : Forall (fun u => 0 <= u < Z.of_nat (length srow)) (live_cols acc v)).
    { apply Forall_forall. intros x Hx'. apply (cp_live_in acc v x Hs Hv) in Hx'. lia. }
    unfold unshuffle_digit. rewrite Hg. cbn [bind].
    rewrite (code_rank_is_spec srow (live_cols acc v) n Hnd Hlt Hfa). rewrite Hx. reflexivity.
  - cbn [table_row unshuffle_digit] in *. f_equal.
    destruct (select_no_table (live_cols acc v) (Z.of_nat n) (cp_live_sorted acc v) ltac:(lia)) as [_ Hr].
    rewrite Nat2Z.id, Hx in Hr. symmetry. exact Hr.
Qed.

(* ------------------------------------------------------------------------------------------ *)
(* C05, normal mode                                                                             *)
(* ------------------------------------------------------------------------------------------ *)
Theorem encode_normal_refines : forall fuel d acc v sh, shaped acc -> in_range acc v -> perm_table sh (nrows acc) ->
  canonical d -> encode_normal fuel d acc v sh = ref_encode fuel (dval d) acc v sh.
Proof.
  induction fuel as [|f IH]; intros d acc v sh Hs Hv Ht Hc.
  - cbn [encode_normal ref_encode]. rewrite (cp_is_zero d Hc). reflexivity.
  - cbn [encode_normal ref_encode]. rewrite (cp_is_zero d Hc).
    destruct (dval d =? 0) eqn:E0; [reflexivity|].
    rewrite (cp_py_get_row acc v Hv). cbn [bind].
    change (used_indices (get_row acc v)) with (live_cols acc v).
    pose proof (cp_radix_bound acc v Hs Hv) as Hrb.
    pose proof (cp_shuffle_select acc v sh) as Hsel.
    pose proof (cp_live_step acc v) as Hstep.
    assert (Hrad : radix acc v = Z.of_nat (length (live_cols acc v))) by reflexivity.
    remember (live_cols acc v) as U eqn:EU in *.
    destruct U as [|j1 [|j2 rest]].
    + cbn [length] in Hrad. rewrite Hrad. reflexivity.
    + cbn [length] in Hrad. rewrite Hrad. cbn [hd].
      change (Z.of_nat 1 =? 0) with false. change (Z.of_nat 1 =? 1) with true. cbv iota.
      destruct (Hstep j1 Hs Hv (or_introl eq_refl)) as (Hj & He & Hg & Hn & _).
      rewrite Hg. cbn [bind]. rewrite (IH d acc _ sh Hs Hn Ht Hc). reflexivity.
    + rewrite <- Hrad.
      assert (Hr2 : 2 <= radix acc v) by (rewrite Hrad; cbn [length]; lia).
      destruct (radix acc v =? 0) eqn:E1; [lia|]. destruct (radix acc v =? 1) eqn:E2; [lia|].
      destruct (div_correct d (radix acc v) Hc ltac:(lia)) as (Hqc & Hqv & Hrv).
      destruct (calculus_division d (radix acc v)) as [q' rem]. cbn [fst snd] in Hqc, Hqv, Hrv.
      subst rem.
      destruct (Hsel (dval d mod radix acc v) Hs Hv Ht ltac:(lia)) as (rem' & j & H1 & H2 & H3 & H4 & _).
      rewrite H1. cbn [bind]. rewrite H2. cbn [bind]. rewrite H3.
      destruct (Hstep j Hs Hv H4) as (Hj & He & Hg & Hn & _).
      rewrite Hg. cbn [bind]. rewrite (IH q' acc _ sh Hs Hn Ht Hqc). rewrite Hqv. reflexivity.
Qed.

(* one step of the reference coder, as an inversion principle *)
Lemma cp_ref_encode_inv : forall f q acc v sh s, shaped acc -> in_range acc v ->
  perm_table sh (nrows acc) -> 0 < q -> ref_encode (S f) q acc v sh = Ok s ->
  exists j rest q', s = nuc_char j :: rest /\ In j (live_cols acc v)
    /\ ref_encode f q' acc (entry acc v j) sh = Ok rest
    /\ ((radix acc v = 1 /\ q' = q) \/
        (2 <= radix acc v <= 4 /\ q' = q / radix acc v
         /\ rank_in (table_row sh v) (live_cols acc v) j = q mod radix acc v)).
Proof.
  intros f q acc v sh s Hs Hv Ht Hq H. cbn [ref_encode] in H.
  destruct (q =? 0) eqn:E0; [lia|].
  pose proof (cp_radix_bound acc v Hs Hv) as Hrb.
  destruct (radix acc v =? 0) eqn:E1; [discriminate|].
  destruct (radix acc v =? 1) eqn:E2.
  - assert (Hin : In (hd 0 (live_cols acc v)) (live_cols acc v)).
    { unfold radix in E2. destruct (live_cols acc v) as [|j1 t]; [cbn [length] in E2; lia|].
      left. reflexivity. }
    destruct (ref_encode f q acc (entry acc v (hd 0 (live_cols acc v))) sh) as [rest|e|] eqn:ER;
      cbn [bind] in H; try discriminate.
    inversion H; subst s. exists (hd 0 (live_cols acc v)), rest, q.
    split; [reflexivity|]. split; [exact Hin|]. split; [exact ER|]. left. split; [lia|reflexivity].
  - destruct (cp_shuffle_select acc v sh (q mod radix acc v) Hs Hv Ht ltac:(lia))
      as (rem' & j & _ & _ & H3 & H4 & H5).
    rewrite H3 in H.
    destruct (ref_encode f (q / radix acc v) acc (entry acc v j) sh) as [rest|e|] eqn:ER;
      cbn [bind] in H; try discriminate.
    inversion H; subst s. exists j, rest, (q / radix acc v).
    split; [reflexivity|]. split; [exact H4|]. split; [exact ER|]. right.
    split; [lia|]. split; [reflexivity|exact H5].
Qed.

Lemma cp_ref_encode_zero : forall fuel acc v sh, ref_encode fuel 0 acc v sh = Ok [].
Proof. intros [|f] acc v sh; reflexivity. Qed.

Theorem ref_encode_sound : forall fuel q acc v sh s, shaped acc -> in_range acc v -> perm_table sh (nrows acc) -> 0 <= q ->
  ref_encode fuel q acc v sh = Ok s -> is_walk acc v s /\ walk_value acc v sh s = q.
Proof.
  induction fuel as [|f IH]; intros q acc v sh s Hs Hv Ht Hq H.
  - cbn [ref_encode] in H. destruct (q =? 0) eqn:E0; [|discriminate].
    inversion H; subst s. cbn [is_walk walk_value]. split; [exact I|lia].
  - destruct (Z.eq_dec q 0) as [Hz|Hz].
    + subst q. rewrite cp_ref_encode_zero in H. inversion H; subst s.
      cbn [is_walk walk_value]. split; [exact I|reflexivity].
    + destruct (cp_ref_encode_inv f q acc v sh s Hs Hv Ht ltac:(lia) H)
        as (j & rest & q' & Es & Hin & ER & Hcase).
      destruct (cp_live_step acc v j Hs Hv Hin) as (Hj & He & Hg & Hn & Hnc).
      assert (Hq' : 0 <= q') by (destruct Hcase as [[_ E]|[Hr [E _]]]; subst q'; [lia|]; apply Z.div_pos; lia).
      destruct (IH q' acc _ sh rest Hs Hn Ht Hq' ER) as [Hw Hval].
      subst s. split.
      * cbn [is_walk]. exists j. auto.
      * cbn [walk_value]. rewrite Hnc. rewrite Hval.
        destruct Hcase as [[Hr E]|[Hr [E Hrk]]].
        -- destruct (radix acc v <=? 1) eqn:E1; [exact E|lia].
        -- destruct (radix acc v <=? 1) eqn:E1; [lia|]. rewrite Hrk, E.
           pose proof (Z.div_mod q (radix acc v) ltac:(lia)). lia.
Qed.

Theorem ref_encode_tight : forall fuel q acc v sh s, shaped acc -> in_range acc v -> perm_table sh (nrows acc) -> 0 < q ->
  ref_encode fuel q acc v sh = Ok s ->
  s <> [] /\ radix_product acc v (removelast s) <= q /\ 2 <= radix acc (walk_end acc v (removelast s)).
Proof.
  induction fuel as [|f IH]; intros q acc v sh s Hs Hv Ht Hq H.
  - cbn [ref_encode] in H. destruct (q =? 0) eqn:E0; [lia|discriminate].
  - destruct (cp_ref_encode_inv f q acc v sh s Hs Hv Ht Hq H)
      as (j & rest & q' & Es & Hin & ER & Hcase).
    destruct (cp_live_step acc v j Hs Hv Hin) as (Hj & He & Hg & Hn & Hnc).
    subst s. split; [discriminate|].
    destruct (Z.eq_dec q' 0) as [Hz|Hz].
    + subst q'. rewrite cp_ref_encode_zero in ER. inversion ER; subst rest.
      cbn [removelast radix_product walk_end].
      destruct Hcase as [[Hr E]|[Hr _]]; lia.
    + assert (Hq' : 0 < q').
      { destruct Hcase as [[_ E]|[Hr [E _]]]; [lia|].
        assert (0 <= q / radix acc v) by (apply Z.div_pos; lia). lia. }
      destruct (IH q' acc _ sh rest Hs Hn Ht Hq' ER) as (Hne & Hrp & Hend).
      destruct rest as [|c rest']; [contradiction|].
      change (removelast (nuc_char j :: c :: rest')) with (nuc_char j :: removelast (c :: rest')).
      cbn [radix_product walk_end]. rewrite Hnc. split; [|exact Hend].
      destruct Hcase as [[Hr E]|[Hr [E _]]].
      * rewrite Hr. subst q'. lia.
      * replace (Z.max 1 (radix acc v)) with (radix acc v) by lia.
        assert (radix acc v * radix_product acc (entry acc v j) (removelast (c :: rest'))
                <= radix acc v * q') by (apply Z.mul_le_mono_nonneg_l; lia).
        subst q'. pose proof (Z.div_mod q (radix acc v) ltac:(lia)).
        pose proof (Z.mod_pos_bound q (radix acc v) ltac:(lia)). lia.
Qed.

Theorem walk_value_nonneg : forall s acc v sh, 0 <= walk_value acc v sh s.
Proof.
  induction s as [|c t IH]; intros acc v sh; cbn [walk_value]; [lia|].
  destruct (nuc_index c) as [j|]; [|lia].
  specialize (IH acc (entry acc v j) sh).
  destruct (radix acc v <=? 1) eqn:E; [exact IH|].
  assert (0 <= rank_in (table_row sh v) (live_cols acc v) j) by (unfold rank_in; lia).
  assert (0 <= radix acc v * walk_value acc (entry acc v j) sh t) by (apply Z.mul_nonneg_nonneg; lia).
  lia.
Qed.

(* ------------------------------------------------------------------------------------------ *)
(* decoding a walk                                                                              *)
(* ------------------------------------------------------------------------------------------ *)
Lemma cp_horner_nil : horner_str [] = [0].
Proof. reflexivity. Qed.

Lemma cp_horner_cons : forall d n saved,
  horner_str ((d, n) :: saved) = calculus_addition (calculus_multiplication (horner_str saved) d) n.
Proof.
  intros d n saved. unfold horner_str. cbn [rev]. rewrite fold_left_app. reflexivity.
Qed.

Lemma cp_horner_step : forall d n saved, canonical (horner_str saved) -> 2 <= d <= 4 -> 0 <= n < d ->
  canonical (horner_str ((d, n) :: saved))
  /\ dval (horner_str ((d, n) :: saved)) = n + d * dval (horner_str saved).
Proof.
  intros d n saved Hc Hd Hn. rewrite cp_horner_cons.
  destruct (mul_correct (horner_str saved) d Hc ltac:(unfold digit; lia)) as [Hmc Hmv].
  destruct (add_correct _ n Hmc ltac:(unfold digit; lia)) as [Hac Hav].
  split; [exact Hac|]. rewrite Hav, Hmv. lia.
Qed.

Lemma cp_rank_bound : forall srow used u, In u used -> 0 <= rank_in srow used u < Z.of_nat (length used).
Proof.
  intros srow used u Hin. unfold rank_in.
  pose proof (filter_length_lt (fun u' => key_of srow u' <? key_of srow u) used u Hin
                ltac:(apply Z.ltb_irrefl)).
  lia.
Qed.

Theorem decode_walk_value : forall s acc v sh, shaped acc -> in_range acc v -> perm_table sh (nrows acc) -> is_walk acc v s ->
  exists saved, decode_walk s acc v sh = Ok saved /\ canonical (horner_str saved)
                /\ dval (horner_str saved) = walk_value acc v sh s.
Proof.
  induction s as [|c t IH]; intros acc v sh Hs Hv Ht Hw.
  - exists []. cbn [decode_walk walk_value]. rewrite cp_horner_nil.
    split; [reflexivity|]. split; [apply canonical_0|reflexivity].
  - cbn [is_walk] in Hw. destruct Hw as (j & Hnc & _ & He & Hw).
    destruct (nuc_index_some c j Hnc) as (Hj & Hc & _). unfold nuc in Hj.
    assert (Hin : In j (live_cols acc v)) by (apply cp_live_in; auto).
    destruct (cp_live_step acc v j Hs Hv Hin) as (_ & _ & Hg & Hn & _).
    destruct (IH acc _ sh Hs Hn Ht Hw) as (saved & Hd & Hcan & Hval).
    destruct (cp_unshuffle_rank acc v sh j Hs Hv Ht Hin) as (pos & Hfp & Hun).
    pose proof (cp_rank_bound (table_row sh v) _ j Hin) as Hrk.
    pose proof (cp_radix_bound acc v Hs Hv) as Hrb.
    cbn [decode_walk walk_value]. rewrite Hnc.
    rewrite (cp_py_get_row acc v Hv). cbn [bind].
    change (used_indices (get_row acc v)) with (live_cols acc v).
    assert (Hrad : radix acc v = Z.of_nat (length (live_cols acc v))) by reflexivity.
    remember (live_cols acc v) as U eqn:EU in *.
    destruct U as [|j1 [|j2 rest]].
    + destruct Hin.
    + destruct Hin as [Hin|[]]. subst j1.
      rewrite Hc, Z.eqb_refl. rewrite Hg. cbn [bind].
      exists saved. split; [exact Hd|]. split; [exact Hcan|].
      cbn [length] in Hrad. destruct (radix acc v <=? 1) eqn:E1; [exact Hval|lia].
    + rewrite Hfp. rewrite Hun. cbn [bind]. rewrite Hg. cbn [bind]. rewrite Hd. cbn [bind].
      rewrite <- Hrad in *.
      assert (Hr2 : 2 <= radix acc v) by (rewrite Hrad; cbn [length]; lia).
      destruct (cp_horner_step (radix acc v) (rank_in (table_row sh v) (j1 :: j2 :: rest) j) saved Hcan
                  ltac:(lia) ltac:(lia)) as [Hc2 Hv2].
      eexists. split; [reflexivity|]. split; [exact Hc2|].
      rewrite Hv2, Hval. destruct (radix acc v <=? 1) eqn:E1; [lia|reflexivity].
Qed.

Theorem decode_any_walk : forall s L acc v0 sh, shaped acc -> in_range acc v0 -> perm_table sh (nrows acc) ->
  is_walk acc v0 s -> 0 <= L -> walk_value acc v0 sh s < 2 ^ L ->
  exists bits, decode s L acc v0 false None sh = Ok bits /\ Z.of_nat (length bits) = L /\ bits_ok bits
               /\ rval 2 bits = walk_value acc v0 sh s.
Proof.
  intros s L acc v0 sh Hs Hv Ht Hw HL Hlt.
  destruct (decode_walk_value s acc v0 sh Hs Hv Ht Hw) as (saved & Hd & Hcan & Hval).
  destruct (number_to_bit_str_render (horner_str saved) L Hcan HL ltac:(lia))
    as (l & Hl & Hlen & Hok & Hrv & _).
  exists l. unfold decode. cbn [bind negb]. rewrite Hd. cbn [bind].
  split; [exact Hl|]. split; [exact Hlen|]. split; [exact Hok|]. lia.
Qed.

Lemma cp_listZ_eqb_refl : forall l, listZ_eqb l l = true.
Proof.
  induction l as [|x t IH]; cbn [listZ_eqb]; [reflexivity|]. rewrite Z.eqb_refl, IH. reflexivity.
Qed.

(* the check produced by encode is accepted by decode *)
Lemma cp_check_passes : forall s vt_len (chk : option (list Z)) (X : Type) (k : result X),
  (if 0 <? vt_len then c <- set_vt s vt_len ;; Ok (s, Some c) else Ok (s, None)) = Ok (s, chk) ->
  (chk_ok <- (match chk with
              | None => Ok true
              | Some chk => c <- set_vt s (Z.of_nat (length chk)) ;; Ok (listZ_eqb c chk)
              end) ;; if negb chk_ok then Raise ValueError else k) = k.
Proof.
  intros s vt_len chk X k H. destruct (0 <? vt_len) eqn:E.
  - destruct (set_vt s vt_len) as [c|e|] eqn:Ec; cbn [bind] in H; try discriminate.
    inversion H; subst chk.
    destruct (set_vt_length s vt_len c ltac:(lia) Ec) as [Hlen _].
    rewrite Hlen, Ec. cbn [bind]. rewrite cp_listZ_eqb_refl. reflexivity.
  - inversion H; subst chk. reflexivity.
Qed.

Lemma cp_encode_inv : forall bits acc v faster vt_len sh fuel s chk,
  encode bits acc v faster vt_len sh fuel = Ok (s, chk) ->
  (if faster then encode_fast fuel bits acc v sh
   else encode_normal fuel (bit_to_number_str bits) acc v sh) = Ok s
  /\ (if 0 <? vt_len then c <- set_vt s vt_len ;; Ok (s, Some c) else Ok (s, None)) = Ok (s, chk).
Proof.
  intros bits acc v faster vt_len sh fuel s chk H. unfold encode in H.
  destruct (if faster then encode_fast fuel bits acc v sh
            else encode_normal fuel (bit_to_number_str bits) acc v sh) as [s0|e|];
    cbn [bind] in H; try discriminate.
  assert (s0 = s).
  { destruct (0 <? vt_len); [|inversion H; reflexivity].
    destruct (set_vt s0 vt_len); cbn [bind] in H; try discriminate. inversion H; reflexivity. }
  subst s0. split; [reflexivity|exact H].
Qed.

Theorem roundtrip_normal : forall fuel bits acc v0 sh vt_len s chk, shaped acc -> in_range acc v0 ->
  perm_table sh (nrows acc) -> bits_ok bits ->
  encode bits acc v0 false vt_len sh fuel = Ok (s, chk) ->
  decode s (Z.of_nat (length bits)) acc v0 false chk sh = Ok bits.
Proof.
  intros fuel bits acc v0 sh vt_len s chk Hs Hv Ht Hb H.
  destruct (cp_encode_inv _ _ _ _ _ _ _ _ _ H) as [He Hchk].
  destruct (bit_to_number_str_spec bits Hb) as [Hcan Hval].
  rewrite (encode_normal_refines fuel _ acc v0 sh Hs Hv Ht Hcan) in He.
  pose proof (canonical_nonneg _ Hcan) as Hnn.
  destruct (ref_encode_sound fuel _ acc v0 sh s Hs Hv Ht Hnn He) as [Hw Hwv].
  destruct (decode_walk_value s acc v0 sh Hs Hv Ht Hw) as (saved & Hd & Hcan2 & Hval2).
  unfold decode. rewrite (cp_check_passes s vt_len chk _ _ Hchk).
  rewrite Hd. cbn [bind].
  rewrite (number_to_bit_paths_agree _ _ Hcan2). rewrite Hval2, Hwv, Hval.
  rewrite <- bit_to_number_int_spec. apply bits_roundtrip_int. exact Hb.
Qed.

(* ------------------------------------------------------------------------------------------ *)
(* C05 / C01, fast mode                                                                         *)
(* ------------------------------------------------------------------------------------------ *)
Lemma cp_radix1 : forall acc v, radix acc v = 1 -> exists j, live_cols acc v = [j].
Proof.
  intros acc v H. unfold radix in H. destruct (live_cols acc v) as [|j [|j2 t]]; cbn [length] in H; try lia.
  exists j. reflexivity.
Qed.

Lemma cp_encode_fast_nil : forall f acc v sh, encode_fast f [] acc v sh = Ok [].
Proof. intros [|f] acc v sh; reflexivity. Qed.

Lemma cp_ref_encode_fast_nil : forall f acc v sh, ref_encode_fast f [] acc v sh = Ok [].
Proof. intros [|f] acc v sh; reflexivity. Qed.

Theorem encode_fast_refines : forall fuel bits acc v sh, shaped acc -> in_range acc v -> perm_table sh (nrows acc) ->
  bits_ok bits -> encode_fast fuel bits acc v sh = ref_encode_fast fuel bits acc v sh.
Proof.
  induction fuel as [|f IH]; intros bits acc v sh Hs Hv Ht Hb.
  - destruct bits; reflexivity.
  - destruct bits as [|b0 bits1]; [reflexivity|].
    cbn [encode_fast ref_encode_fast].
    rewrite (cp_py_get_row acc v Hv). cbn [bind].
    change (used_indices (get_row acc v)) with (live_cols acc v).
    change (Z.of_nat (length (live_cols acc v))) with (radix acc v).
    pose proof (Forall_inv Hb) as Hb0. pose proof (Forall_inv_tail Hb) as Hb1. unfold bit in Hb0.
    assert (Hfin : forall r bits', 0 <= r < radix acc v -> bits_ok bits' ->
              (rem' <- shuffle_digit sh v (live_cols acc v) r ;;
               j <- py_get (live_cols acc v) rem' ;; nxt <- py_get (get_row acc v) j ;;
               rest <- encode_fast f bits' acc nxt sh ;; Ok (nuc_char j :: rest))
              = match select_arc (table_row sh v) (live_cols acc v) r with
                | Some j => r <- ref_encode_fast f bits' acc (entry acc v j) sh ;; Ok (nuc_char j :: r)
                | None => Raise IndexError
                end).
    { intros r bits' Hr Hb'.
      destruct (cp_shuffle_select acc v sh r Hs Hv Ht Hr) as (rem' & j & H1 & H2 & H3 & H4 & _).
      rewrite H1. cbn [bind]. rewrite H2. cbn [bind]. rewrite H3.
      destruct (cp_live_step acc v j Hs Hv H4) as (_ & _ & Hg & Hn & _).
      rewrite Hg. cbn [bind]. rewrite (IH bits' acc _ sh Hs Hn Ht Hb'). reflexivity. }
    destruct (radix acc v =? 4) eqn:E4.
    + destruct bits1 as [|b1 bits2].
      * replace (b0 * 2) with (2 * b0) by lia. apply Hfin; [lia|constructor].
      * pose proof (Forall_inv Hb1) as Hb1'. unfold bit in Hb1'.
        replace (b0 * 2 + b1) with (2 * b0 + b1) by lia.
        apply Hfin; [lia|exact (Forall_inv_tail Hb1)].
    + destruct (radix acc v =? 2) eqn:E2; [apply Hfin; [lia|exact Hb1]|].
      destruct (radix acc v =? 1) eqn:E1; [|reflexivity].
      destruct (cp_radix1 acc v ltac:(lia)) as [j Hj].
      assert (Hin : In j (live_cols acc v)) by (rewrite Hj; left; reflexivity).
      destruct (cp_live_step acc v j Hs Hv Hin) as (_ & _ & Hg & Hn & _).
      rewrite Hj. cbn [hd]. change (py_get [j] 0) with (Ok j). cbn [bind].
      rewrite Hg. cbn [bind]. rewrite (IH (b0 :: bits1) acc _ sh Hs Hn Ht Hb). reflexivity.
Qed.

(* what an accepted digit tells the decoder; no hypothesis on the table entries *)
Lemma cp_fast_tail : forall acc v sh r f bits' s, shaped acc -> in_range acc v -> 0 <= r < radix acc v ->
  (rem' <- shuffle_digit sh v (live_cols acc v) r ;;
   j <- py_get (live_cols acc v) rem' ;; nxt <- py_get (get_row acc v) j ;;
   rest <- encode_fast f bits' acc nxt sh ;; Ok (nuc_char j :: rest)) = Ok s ->
  exists j rest rem', s = nuc_char j :: rest /\ In j (live_cols acc v)
    /\ encode_fast f bits' acc (entry acc v j) sh = Ok rest
    /\ first_pos j (live_cols acc v) 0 = Some rem'
    /\ unshuffle_digit sh v (live_cols acc v) rem' = Ok r.
Proof.
  intros acc v sh r f bits' s Hs Hv Hr H. unfold radix in Hr.
  destruct (shuffle_digit sh v (live_cols acc v) r) as [rem'|e|] eqn:Hsh; cbn [bind] in H; try discriminate.
  destruct (shuffle_unshuffle sh v _ r Hr rem' Hsh) as [Hrem' Hun].
  destruct (cp_py_get_nth (live_cols acc v) rem' Hrem') as [Hpg Hin].
  rewrite Hpg in H. cbn [bind] in H.
  set (j := nth (Z.to_nat rem') (live_cols acc v) 0) in *.
  destruct (cp_live_step acc v j Hs Hv Hin) as (_ & _ & Hg & Hn & _).
  rewrite Hg in H. cbn [bind] in H.
  destruct (encode_fast f bits' acc (entry acc v j) sh) as [rest|e|] eqn:ER; cbn [bind] in H; try discriminate.
  inversion H; subst s. exists j, rest, rem'.
  split; [reflexivity|]. split; [exact Hin|]. split; [exact ER|]. split; [|exact Hun].
  unfold j. rewrite first_pos_nodup by (apply cp_live_nodup || lia). f_equal. lia.
Qed.

Lemma cp_encode_fast_inv : forall f b0 bits1 acc v sh s, shaped acc -> in_range acc v ->
  bits_ok (b0 :: bits1) -> encode_fast (S f) (b0 :: bits1) acc v sh = Ok s ->
  exists j rest bits' r rem',
    s = nuc_char j :: rest /\ In j (live_cols acc v) /\ bits_ok bits'
    /\ encode_fast f bits' acc (entry acc v j) sh = Ok rest
    /\ first_pos j (live_cols acc v) 0 = Some rem'
    /\ ((radix acc v = 4 /\ unshuffle_digit sh v (live_cols acc v) rem' = Ok r
         /\ ((bits1 = [] /\ bits' = [] /\ r = b0 * 2)
             \/ (exists b1, bits1 = b1 :: bits' /\ r = b0 * 2 + b1 /\ bit b1)))
        \/ (radix acc v = 2 /\ unshuffle_digit sh v (live_cols acc v) rem' = Ok r
            /\ bits' = bits1 /\ r = b0)
        \/ (radix acc v = 1 /\ bits' = b0 :: bits1 /\ rem' = 0)).
Proof.
  intros f b0 bits1 acc v sh s Hs Hv Hb H. cbn [encode_fast] in H.
  rewrite (cp_py_get_row acc v Hv) in H. cbn [bind] in H.
  change (used_indices (get_row acc v)) with (live_cols acc v) in H.
  change (Z.of_nat (length (live_cols acc v))) with (radix acc v) in H.
  pose proof (Forall_inv Hb) as Hb0. pose proof (Forall_inv_tail Hb) as Hb1. unfold bit in Hb0.
  destruct (radix acc v =? 4) eqn:E4.
  - destruct bits1 as [|b1 bits2].
    + destruct (cp_fast_tail acc v sh (b0 * 2) f [] s Hs Hv ltac:(lia) H) as (j & rest & rem' & A1 & A2 & A3 & A4 & A5).
      exists j, rest, [], (b0 * 2), rem'. repeat (split; [assumption || constructor|]).
      left. split; [lia|]. split; [exact A5|]. left. auto.
    + pose proof (Forall_inv Hb1) as Hb1'. pose proof Hb1' as Hbit. unfold bit in Hb1'.
      destruct (cp_fast_tail acc v sh (b0 * 2 + b1) f bits2 s Hs Hv ltac:(lia) H) as (j & rest & rem' & A1 & A2 & A3 & A4 & A5).
      exists j, rest, bits2, (b0 * 2 + b1), rem'.
      split; [exact A1|]. split; [exact A2|]. split; [exact (Forall_inv_tail Hb1)|].
      split; [exact A3|]. split; [exact A4|].
      left. split; [lia|]. split; [exact A5|]. right. exists b1. auto.
  - destruct (radix acc v =? 2) eqn:E2.
    + destruct (cp_fast_tail acc v sh b0 f bits1 s Hs Hv ltac:(lia) H) as (j & rest & rem' & A1 & A2 & A3 & A4 & A5).
      exists j, rest, bits1, b0, rem'.
      split; [exact A1|]. split; [exact A2|]. split; [exact Hb1|].
      split; [exact A3|]. split; [exact A4|].
      right. left. split; [lia|]. auto.
    + destruct (radix acc v =? 1) eqn:E1; [|discriminate].
      destruct (cp_radix1 acc v ltac:(lia)) as [j Hj].
      assert (Hin : In j (live_cols acc v)) by (rewrite Hj; left; reflexivity).
      destruct (cp_live_step acc v j Hs Hv Hin) as (_ & _ & Hg & Hn & _).
      rewrite Hj in H. change (py_get [j] 0) with (Ok j) in H. cbn [bind] in H.
      rewrite Hg in H. cbn [bind] in H.
      destruct (encode_fast f (b0 :: bits1) acc (entry acc v j) sh) as [rest|e|] eqn:ER; cbn [bind] in H; try discriminate.
      inversion H; subst s. exists j, rest, (b0 :: bits1), 0, 0.
      split; [reflexivity|]. split; [exact Hin|]. split; [exact Hb|]. split; [exact ER|].
      split; [rewrite Hj; cbn [first_pos]; rewrite Z.eqb_refl; reflexivity|].
      right. right. split; [lia|]. auto.
Qed.

Theorem encode_fast_walk : forall fuel bits acc v sh s, shaped acc -> in_range acc v -> shape_table sh (nrows acc) ->
  bits_ok bits -> encode_fast fuel bits acc v sh = Ok s ->
  is_walk acc v s /\ (bits_carried acc v s = Z.of_nat (length bits) \/ bits_carried acc v s = Z.of_nat (length bits) + 1).
Proof.
  induction fuel as [|f IH]; intros bits acc v sh s Hs Hv Ht Hb H.
  - destruct bits as [|b0 bits1]; [|discriminate]. inversion H; subst s.
    cbn [is_walk bits_carried length]. split; [exact I|left; reflexivity].
  - destruct bits as [|b0 bits1].
    { inversion H; subst s. cbn [is_walk bits_carried length]. split; [exact I|left; reflexivity]. }
    destruct (cp_encode_fast_inv f b0 bits1 acc v sh s Hs Hv Hb H)
      as (j & rest & bits' & r & rem' & Es & Hin & Hb' & ER & _ & Hcase).
    destruct (cp_live_step acc v j Hs Hv Hin) as (Hj & He & Hg & Hn & Hnc).
    destruct (IH bits' acc _ sh rest Hs Hn Ht Hb' ER) as [Hw Hbc].
    subst s. split; [cbn [is_walk]; exists j; auto|].
    cbn [bits_carried]. rewrite Hnc.
    assert (Hcond : (0 <=? v) && (v <? nrows acc) && (0 <=? entry acc v j) = true)
      by (unfold in_range in Hv; lia).
    rewrite Hcond. unfold step_bits.
    destruct Hcase as [(Hr & _ & [(E1 & E2 & _)|(b1 & E1 & _)])|[(Hr & _ & E1 & _)|(Hr & E1 & _)]].
    + subst bits1 bits'. destruct (radix acc v =? 4) eqn:E4; [|lia].
      rewrite cp_encode_fast_nil in ER. inversion ER; subst rest. cbn [length bits_carried]. lia.
    + subst bits1. destruct (radix acc v =? 4) eqn:E4; [|lia]. cbn [length] in *. lia.
    + subst bits'. destruct (radix acc v =? 4) eqn:E4; [lia|].
      destruct (radix acc v =? 2) eqn:E2; [|lia]. cbn [length] in *. lia.
    + subst bits'. destruct (radix acc v =? 4) eqn:E4; [lia|].
      destruct (radix acc v =? 2) eqn:E2; [lia|]. cbn [length] in *. lia.
Qed.

Lemma cp_set_nth_app : forall (P : list Z) x Q y, set_nth (P ++ x :: Q) (length P) y = P ++ y :: Q.
Proof.
  induction P as [|p P IH]; intros x Q y; cbn [app length set_nth]; [reflexivity|].
  rewrite IH. reflexivity.
Qed.

Lemma cp_write_bit : forall (P : list Z) x Q y pos, pos = Z.of_nat (length P) ->
  write_bit (P ++ x :: Q) pos y = Ok (P ++ y :: Q).
Proof.
  intros P x Q y pos Hpos. unfold write_bit.
  destruct ((pos <? 0) || (Z.of_nat (length (P ++ x :: Q)) <=? pos)) eqn:E.
  - rewrite app_length in E. cbn [length] in E. lia.
  - subst pos. rewrite Nat2Z.id. rewrite cp_set_nth_app. reflexivity.
Qed.

Lemma cp_decode_fast_inverts : forall fuel bs acc v sh P s, shaped acc -> in_range acc v ->
  shape_table sh (nrows acc) -> bits_ok bs -> encode_fast fuel bs acc v sh = Ok s ->
  decode_fast s acc v sh (P ++ repeat 0 (length bs)) (Z.of_nat (length P)) = Ok (P ++ bs).
Proof.
  induction fuel as [|f IH]; intros bs acc v sh P s Hs Hv Ht Hb H.
  - destruct bs as [|b0 bits1]; [|discriminate]. inversion H; subst s. reflexivity.
  - destruct bs as [|b0 bits1].
    { inversion H; subst s. reflexivity. }
    destruct (cp_encode_fast_inv f b0 bits1 acc v sh s Hs Hv Hb H)
      as (j & rest & bits' & r & rem' & Es & Hin & Hb' & ER & Hfp & Hcase).
    destruct (cp_live_step acc v j Hs Hv Hin) as (Hj & He & Hg & Hn & Hnc).
    pose proof (Forall_inv Hb) as Hb0. unfold bit in Hb0.
    subst s. cbn [decode_fast]. rewrite (cp_py_get_row acc v Hv). cbn [bind].
    change (used_indices (get_row acc v)) with (live_cols acc v).
    change (Z.of_nat (length (live_cols acc v))) with (radix acc v).
    rewrite Hnc, Hfp.
    destruct Hcase as [(Hr & Hun & [(E1 & E2 & Er)|(b1 & E1 & Er & Hb1)])|[(Hr & Hun & E1 & Er)|(Hr & E1 & Er)]].
    + (* 4-way vertex, one bit left *)
      subst bits1 bits' r. rewrite Hun. cbn [bind]. rewrite Hg. cbn [bind].
      destruct (radix acc v =? 4) eqn:E4; [|lia].
      rewrite cp_encode_fast_nil in ER. inversion ER; subst rest.
      cbn [length repeat].
      rewrite (cp_write_bit P 0 [] (b0 * 2 / 2) _ eq_refl). cbn [bind].
      destruct (Z.of_nat (length P) + 1 <? Z.of_nat (length (P ++ [0]))) eqn:E.
      { rewrite app_length in E. cbn [length] in E. lia. }
      cbn [bind decode_fast]. replace (b0 * 2 / 2) with b0 by lia. reflexivity.
    + (* 4-way vertex, two bits *)
      subst bits1 r. unfold bit in Hb1. rewrite Hun. cbn [bind]. rewrite Hg. cbn [bind].
      destruct (radix acc v =? 4) eqn:E4; [|lia].
      cbn [length repeat].
      rewrite (cp_write_bit P 0 (0 :: repeat 0 (length bits')) ((b0 * 2 + b1) / 2) _ eq_refl). cbn [bind].
      destruct (Z.of_nat (length P) + 1 <? Z.of_nat (length (P ++ 0 :: 0 :: repeat 0 (length bits')))) eqn:E.
      2:{ rewrite app_length in E. cbn [length] in E. lia. }
      replace ((b0 * 2 + b1) / 2) with b0 by lia. replace ((b0 * 2 + b1) mod 2) with b1 by lia.
      change (P ++ b0 :: 0 :: repeat 0 (length bits')) with (P ++ [b0] ++ 0 :: repeat 0 (length bits')).
      rewrite app_assoc.
      rewrite (cp_write_bit (P ++ [b0]) 0 (repeat 0 (length bits')) b1)
        by (rewrite app_length; cbn [length]; lia).
      cbn [bind].
      replace ((P ++ [b0]) ++ b1 :: repeat 0 (length bits')) with ((P ++ [b0; b1]) ++ repeat 0 (length bits'))
        by (rewrite <- !app_assoc; reflexivity).
      replace (Z.of_nat (length P) + 2) with (Z.of_nat (length (P ++ [b0; b1])))
        by (rewrite app_length; cbn [length]; lia).
      rewrite (IH bits' acc _ sh (P ++ [b0; b1]) rest Hs Hn Ht Hb' ER).
      rewrite <- app_assoc. reflexivity.
    + (* 2-way vertex *)
      subst bits' r. rewrite Hun. cbn [bind]. rewrite Hg. cbn [bind].
      destruct (radix acc v =? 4) eqn:E4; [lia|]. destruct (radix acc v =? 2) eqn:E2; [|lia].
      cbn [length repeat].
      rewrite (cp_write_bit P 0 (repeat 0 (length bits1)) (b0 mod 2) _ eq_refl). cbn [bind].
      replace (b0 mod 2) with b0 by lia.
      replace (P ++ b0 :: repeat 0 (length bits1)) with ((P ++ [b0]) ++ repeat 0 (length bits1))
        by (rewrite <- app_assoc; reflexivity).
      replace (Z.of_nat (length P) + 1) with (Z.of_nat (length (P ++ [b0])))
        by (rewrite app_length; cbn [length]; lia).
      rewrite (IH bits1 acc _ sh (P ++ [b0]) rest Hs Hn Ht Hb' ER).
      rewrite <- app_assoc. reflexivity.
    + (* vertex with a single arc *)
      subst bits' rem'.
      destruct (unshuffle_digit_total sh v (live_cols acc v) 0
                  ltac:(change (Z.of_nat (length (live_cols acc v))) with (radix acc v); lia)
                  (cp_table_in_range sh acc v Ht Hv)) as (x & Hx & _).
      rewrite Hx. cbn [bind]. rewrite Hg. cbn [bind].
      destruct (radix acc v =? 4) eqn:E4; [lia|]. destruct (radix acc v =? 2) eqn:E2; [lia|].
      destruct (radix acc v =? 1) eqn:E1'; [|lia].
      exact (IH (b0 :: bits1) acc _ sh P rest Hs Hn Ht Hb' ER).
Qed.

Theorem roundtrip_fast : forall fuel bits acc v0 sh vt_len s chk, shaped acc -> in_range acc v0 ->
  shape_table sh (nrows acc) -> bits_ok bits ->
  encode bits acc v0 true vt_len sh fuel = Ok (s, chk) ->
  decode s (Z.of_nat (length bits)) acc v0 true chk sh = Ok bits.
Proof.
  intros fuel bits acc v0 sh vt_len s chk Hs Hv Ht Hb H.
  destruct (cp_encode_inv _ _ _ _ _ _ _ _ _ H) as [He Hchk].
  unfold decode. rewrite (cp_check_passes s vt_len chk _ _ Hchk). rewrite Nat2Z.id.
  exact (cp_decode_fast_inverts fuel bits acc v0 sh [] s Hs Hv Ht Hb He).
Qed.

Print Assumptions encode_normal_refines.
Print Assumptions ref_encode_sound.
Print Assumptions ref_encode_tight.
Print Assumptions decode_walk_value.
Print Assumptions decode_any_walk.
Print Assumptions walk_value_nonneg.
Print Assumptions roundtrip_normal.
Print Assumptions encode_fast_refines.
Print Assumptions encode_fast_walk.
Print Assumptions roundtrip_fast.
