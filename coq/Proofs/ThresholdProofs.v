(* ThresholdProofs.v -- C12 / C02: the three binary64 comparisons of LocalBioFilter.valid are equivalent, for integer counts, to
   comparisons with the integer thresholds of Thresholds.v (gc_min = ceil, gc_max = floor, at_max = floor), so the filter
   model with integer thresholds (Filter.v) IS the filter with floats.  Uses the standard library's specification of primitive
   floats (FloatAxioms) and Flocq. *)
From Coq Require Import ZArith List Bool Lia Lra Reals Floats.
From Flocq Require Import Core BinarySingleNaN PrimFloat.
From DSW Require Import Thresholds.
Import ListNotations.

(* a finite, non-negative float *)
Definition fin_nonneg (x : PrimFloat.float) : Prop := PrimFloat.leb 0 x = true /\ PrimFloat.ltb x infinity = true.

(* the comparisons exactly as the Python performs them (count converted to binary64: exact below 2^53) *)
Definition window_ok_float (lo hi : PrimFloat.float) (k g : Z) : bool :=
  negb (PrimFloat.ltb (hi * fz k)%float (fz g)) && negb (PrimFloat.ltb (fz g) (lo * fz k)%float).
Definition short_ok_float (lo hi : PrimFloat.float) (k g a : Z) : bool :=
  negb (PrimFloat.ltb (hi * fz k)%float (fz g)) && negb (PrimFloat.ltb ((1 - lo) * fz k)%float (fz a)).


Local Existing Instance Flocq.IEEE754.PrimFloat.Hprec.
Local Existing Instance Flocq.IEEE754.PrimFloat.Hmax.
Local Instance Hvexp : Valid_exp (fexp prec emax) := FLT_exp_valid (SpecFloat.emin prec emax) prec.

Notation fx := (fexp prec emax).

(* Proof plan: floats are mapped to Flocq's binary_float by Prim2B; FIN f: f is finite, RV f: its real value.
   (1) fparts_spec: for a finite non-negative x with (m, s) = fparts x: 0 <= m < 2^53 and RV x = m * 2^s (SpecFloat level:
       frshiftexp_spec / normfr_mantissa_spec, case analysis on Prim2SF x);
   (2) fz_spec: fz g is finite with value g (0 <= g <= 2^52: no rounding);
   (3) ltb_R: ltb on finite floats is Rlt_bool on the values;
   (4) floor_lt_arith / ceil_gt_arith: the comparisons of m * 2^s with an integer are the integer comparisons with
       floor / ceil as computed by ffloor / fceil. *)

Definition FIN (f : PrimFloat.float) : Prop := is_finite (Prim2B f) = true.
Definition RV (f : PrimFloat.float) : R := B2R (Prim2B f).

Lemma gf_IZR : forall n : Z, (Z.abs n < 2 ^ 53)%Z -> generic_format radix2 fx (IZR n).
Proof.
  intros n Hn. apply (generic_format_FLT radix2 (SpecFloat.emin prec emax) prec).
  apply (FLT_spec radix2 _ _ _ (Float radix2 n 0)).
  - unfold F2R. simpl. ring.
  - exact Hn.
  - vm_compute. discriminate.
Qed.

Lemma ltb_R : forall a b, FIN a -> FIN b -> PrimFloat.ltb a b = Rlt_bool (RV a) (RV b).
Proof.
  intros a b Ha Hb. rewrite ltb_equiv, Bltb_correct by assumption. reflexivity.
Qed.

Lemma RV_SF : forall x, RV x = SF2R radix2 (Prim2SF x).
Proof. intros x. unfold RV, Prim2B. apply B2R_SF2B. Qed.
Lemma FIN_SF : forall x, is_finite (Prim2B x) = is_finite_SF (Prim2SF x).
Proof. intros x. unfold Prim2B. apply is_finite_SF2B. Qed.

(* (4) arithmetic *)
Lemma Rlt_bool_IZR : forall a b, Rlt_bool (IZR a) (IZR b) = (a <? b)%Z.
Proof.
  intros a b. case Rlt_bool_spec; intros H.
  - apply lt_IZR in H. symmetry. apply Z.ltb_lt. exact H.
  - apply le_IZR in H. symmetry. apply Z.ltb_ge. exact H.
Qed.

Lemma bpow_nonneg_IZR : forall s, (0 <= s)%Z -> bpow radix2 s = IZR (2 ^ s).
Proof. intros s Hs. rewrite <- IZR_Zpower by exact Hs. reflexivity. Qed.

Lemma bpow_neg_IZR : forall s, (s < 0)%Z -> bpow radix2 s = (/ IZR (2 ^ (- s)))%R.
Proof.
  intros s Hs. replace s with (- (- s))%Z at 1 by lia. rewrite bpow_opp. rewrite bpow_nonneg_IZR by lia. reflexivity.
Qed.

Lemma Rlt_bool_iff : forall a b (c : bool), ((a < b)%R <-> c = true) -> Rlt_bool a b = c.
Proof.
  intros a b c H. case Rlt_bool_spec; intros H1.
  - symmetry. apply H. exact H1.
  - destruct c; [|reflexivity]. exfalso. apply (Rlt_irrefl a). apply Rlt_le_trans with b; [apply H; reflexivity|exact H1].
Qed.

Lemma scaled_lt_iff : forall m P g, (0 < P)%Z -> ((IZR m * / IZR P < IZR g)%R <-> (m < g * P)%Z).
Proof.
  intros m P g HP. assert (HP' : (0 < IZR P)%R) by (apply IZR_lt; exact HP).
  split; intros H.
  - apply lt_IZR. rewrite mult_IZR. apply (Rmult_lt_compat_r (IZR P)) in H; [|exact HP'].
    rewrite Rmult_assoc, Rinv_l, Rmult_1_r in H by lra. exact H.
  - apply IZR_lt in H. rewrite mult_IZR in H. apply (Rmult_lt_reg_r (IZR P)); [exact HP'|].
    rewrite Rmult_assoc, Rinv_l, Rmult_1_r by lra. exact H.
Qed.

Lemma scaled_gt_iff : forall m P g, (0 < P)%Z -> ((IZR g < IZR m * / IZR P)%R <-> (g * P < m)%Z).
Proof.
  intros m P g HP. assert (HP' : (0 < IZR P)%R) by (apply IZR_lt; exact HP).
  split; intros H.
  - apply lt_IZR. rewrite mult_IZR. apply (Rmult_lt_compat_r (IZR P)) in H; [|exact HP'].
    rewrite Rmult_assoc, Rinv_l, Rmult_1_r in H by lra. exact H.
  - apply IZR_lt in H. rewrite mult_IZR in H. apply (Rmult_lt_reg_r (IZR P)); [exact HP'|].
    rewrite Rmult_assoc, Rinv_l, Rmult_1_r by lra. exact H.
Qed.

Lemma floor_lt_arith : forall m s g,
  Rlt_bool (IZR m * bpow radix2 s) (IZR g) = ((if (0 <=? s)%Z then m * 2 ^ s else m / 2 ^ (- s)) <? g)%Z.
Proof.
  intros m s g. destruct (0 <=? s)%Z eqn:E.
  - apply Z.leb_le in E. rewrite bpow_nonneg_IZR by exact E. rewrite <- mult_IZR. apply Rlt_bool_IZR.
  - apply Z.leb_gt in E. rewrite bpow_neg_IZR by exact E.
    assert (HP : (0 < 2 ^ (- s))%Z) by (apply Z.pow_pos_nonneg; lia).
    apply Rlt_bool_iff. rewrite scaled_lt_iff by exact HP. rewrite Z.ltb_lt.
    set (P := (2 ^ (- s))%Z) in *. split; intros H.
    + apply Z.div_lt_upper_bound; [exact HP|]. lia.
    + destruct (Z.lt_ge_cases m (g * P)) as [H1|H1]; [exact H1|]. exfalso.
      assert (g <= m / P)%Z by (apply Z.div_le_lower_bound; [exact HP|lia]). lia.
Qed.

Lemma ceil_gt_arith : forall m s g,
  Rlt_bool (IZR g) (IZR m * bpow radix2 s) =
  (g <? (if (0 <=? s)%Z then m * 2 ^ s else (m + 2 ^ (- s) - 1) / 2 ^ (- s)))%Z.
Proof.
  intros m s g. destruct (0 <=? s)%Z eqn:E.
  - apply Z.leb_le in E. rewrite bpow_nonneg_IZR by exact E. rewrite <- mult_IZR. apply Rlt_bool_IZR.
  - apply Z.leb_gt in E. rewrite bpow_neg_IZR by exact E.
    assert (HP : (0 < 2 ^ (- s))%Z) by (apply Z.pow_pos_nonneg; lia).
    apply Rlt_bool_iff. rewrite scaled_gt_iff by exact HP. rewrite Z.ltb_lt.
    set (P := (2 ^ (- s))%Z) in *. split; intros H.
    + assert (g + 1 <= (m + P - 1) / P)%Z by (apply Z.div_le_lower_bound; [exact HP|lia]). lia.
    + destruct (Z.lt_ge_cases (g * P) m) as [H1|H1]; [exact H1|]. exfalso.
      assert ((m + P - 1) / P < g + 1)%Z by (apply Z.div_lt_upper_bound; [exact HP|lia]). lia.
Qed.

(* (1) shape and value of a finite non-negative float *)
Lemma fin_nonneg_SF : forall x, fin_nonneg x ->
  (exists s, Prim2SF x = S754_zero s) \/ (exists m e, Prim2SF x = S754_finite false m e).
Proof.
  intros x [H1 H2]. rewrite leb_spec in H1. rewrite ltb_spec in H2.
  change (Prim2SF 0) with (S754_zero false) in H1. change (Prim2SF infinity) with (S754_infinity false) in H2.
  destruct (Prim2SF x) as [s|s| |s m e].
  - left. exists s. reflexivity.
  - destruct s; discriminate.
  - discriminate.
  - destruct s; [discriminate|]. right. exists m, e. reflexivity.
Qed.

Lemma fin_nonneg_FIN : forall x, fin_nonneg x -> FIN x.
Proof.
  intros x Hx. unfold FIN. rewrite FIN_SF.
  destruct (fin_nonneg_SF x Hx) as [[s E]|[m [e E]]]; rewrite E; reflexivity.
Qed.

Lemma digits_bound : forall m e, SpecFloat.valid_binary prec emax (S754_finite false m e) = true ->
  (Z.pos (digits2_pos m) <= 53)%Z /\ (Z.pos m < 2 ^ Z.pos (digits2_pos m))%Z.
Proof.
  intros m e H. split.
  - cbn [SpecFloat.valid_binary] in H. unfold bounded, canonical_mantissa in H.
    apply andb_prop in H. destruct H as [H _]. apply Zeq_bool_eq in H.
    unfold SpecFloat.fexp, SpecFloat.emin, prec, emax in H. lia.
  - rewrite Zpos_digits2_pos. generalize (Zdigits_correct radix2 (Z.pos m)). intros [_ H2].
    rewrite Z.abs_eq in H2 by lia. exact H2.
Qed.

Lemma fparts_spec : forall x, fin_nonneg x ->
  (0 <= fst (fparts x) < 2 ^ 53)%Z /\ RV x = (IZR (fst (fparts x)) * bpow radix2 (snd (fparts x)))%R.
Proof.
  intros x Hx. unfold fparts. generalize (frshiftexp_spec x). destruct (frshiftexp x) as [fm e].
  rewrite normfr_mantissa_spec. rewrite RV_SF. generalize (Prim2SF_valid x).
  destruct (fin_nonneg_SF x Hx) as [[s E]|[m [ex E]]]; rewrite E; intros Hv H.
  - cbn [SFfrexp] in H. injection H as H1 H2. rewrite H1. cbn [fst snd SFnormfr_mantissa Z.of_N SF2R].
    split; [lia|]. lra.
  - destruct (digits_bound m ex Hv) as [D1 D2].
    unfold SFfrexp in H. cbn [fst snd SF2R cond_Zopp]. unfold F2R. cbn [Fnum Fexp].
    destruct (Z.to_pos prec <=? digits2_pos m)%positive eqn:D; injection H as H1 H2; rewrite H1;
      unfold shift, prec in H2; cbn [SFnormfr_mantissa]; rewrite Z.eqb_refl; cbn [Z.of_N].
    + apply Pos.leb_le in D. change (Z.to_pos prec) with 53%positive in D.
      assert (D3 : Z.pos (digits2_pos m) = 53%Z) by lia. rewrite D3 in D2.
      split; [lia|]. replace (Uint63.to_Z e - 2101 - 53)%Z with ex by lia. reflexivity.
    + apply Pos.leb_gt in D. change (Z.to_pos prec) with 53%positive in D.
      set (d := (prec - Z.pos (digits2_pos m))%Z) in *.
      assert (Hd : (0 < d)%Z) by (unfold d, prec; lia).
      change (Z.pos_sub 53 (digits2_pos m)) with d in *.
      rewrite shift_pos_correct. rewrite Z.pow_pos_fold. rewrite Z2Pos.id by exact Hd.
      replace (Uint63.to_Z e - 2101 - 53)%Z with (ex - d)%Z by lia.
      split.
      * split; [apply Z.mul_nonneg_nonneg; [apply Z.pow_nonneg|]; lia|].
        replace 53%Z with (d + Z.pos (digits2_pos m))%Z by (unfold d, prec; lia).
        rewrite Z.pow_add_r by lia. apply Z.mul_lt_mono_pos_l; [apply Z.pow_pos_nonneg; lia|exact D2].
      * rewrite mult_IZR. rewrite <- bpow_nonneg_IZR by lia. unfold Zminus. rewrite bpow_plus, bpow_opp.
        field. apply Rgt_not_eq. apply bpow_gt_0.
Qed.

(* (2) an integer below 2^53 converts exactly *)
Lemma fz_spec : forall g, (0 <= g <= 2 ^ 52)%Z -> FIN (fz g) /\ RV (fz g) = IZR g.
Proof.
  intros g Hg. unfold FIN, RV, fz. rewrite of_int63_equiv.
  rewrite Uint63.of_Z_spec. rewrite Z.mod_small by (change Uint63.wB with (2 ^ 63)%Z; lia).
  generalize (binary_normalize_correct prec emax Hprec Hmax mode_NE g 0 false). cbv zeta.
  replace (F2R (Float radix2 g 0)) with (IZR g) by (unfold F2R; cbn [Fnum Fexp bpow]; ring).
  rewrite round_generic; [|auto with typeclass_instances|apply gf_IZR; lia].
  rewrite Rlt_bool_true.
  - intros [H1 [H2 _]]. split; assumption.
  - rewrite Rabs_pos_eq by (apply IZR_le; lia).
    apply Rle_lt_trans with (IZR (2 ^ 52)); [apply IZR_le; lia|].
    rewrite <- bpow_nonneg_IZR by lia. apply bpow_lt. reflexivity.
Qed.

(* count > x  <->  count > floor x ;  count < x  <->  count < ceil x   (x finite and non-negative, 0 <= count <= 2^52) *)
Theorem gt_float_is_gt_floor : forall x g, fin_nonneg x -> (0 <= g <= 2 ^ 52)%Z ->
  PrimFloat.ltb x (fz g) = (ffloor x <? g)%Z.
Proof.
  intros x g Hx Hg. destruct (fparts_spec x Hx) as [_ Hr]. destruct (fz_spec g Hg) as [Fg Rg].
  rewrite ltb_R by (auto using fin_nonneg_FIN). rewrite Hr, Rg. unfold ffloor.
  destruct (fparts x) as [m s]. cbn [fst snd]. apply floor_lt_arith.
Qed.

Theorem lt_float_is_lt_ceil : forall x g, fin_nonneg x -> (0 <= g <= 2 ^ 52)%Z ->
  PrimFloat.ltb (fz g) x = (g <? fceil x)%Z.
Proof.
  intros x g Hx Hg. destruct (fparts_spec x Hx) as [_ Hr]. destruct (fz_spec g Hg) as [Fg Rg].
  rewrite ltb_R by (auto using fin_nonneg_FIN). rewrite Hr, Rg. unfold fceil.
  destruct (fparts x) as [m s]. cbn [fst snd]. apply ceil_gt_arith.
Qed.

(* hence the window rule and the short-string rule with floats equal the rules with the integer thresholds *)
Theorem window_rule_thresholds : forall lo hi k g, fin_nonneg (lo * fz k)%float -> fin_nonneg (hi * fz k)%float ->
  (0 <= g <= 2 ^ 52)%Z ->
  window_ok_float lo hi k g =
    (let '(gmin, gmax, amax) := thresholds lo hi k in negb (gmax <? g)%Z && negb (g <? gmin)%Z).
Proof.
  intros lo hi k g Hlo Hhi Hg. unfold window_ok_float, thresholds.
  rewrite (gt_float_is_gt_floor _ g Hhi Hg), (lt_float_is_lt_ceil _ g Hlo Hg). reflexivity.
Qed.

Theorem short_rule_thresholds : forall lo hi k g a, fin_nonneg (hi * fz k)%float -> fin_nonneg ((1 - lo) * fz k)%float ->
  (0 <= g <= 2 ^ 52)%Z -> (0 <= a <= 2 ^ 52)%Z ->
  short_ok_float lo hi k g a =
    (let '(gmin, gmax, amax) := thresholds lo hi k in negb (gmax <? g)%Z && negb (amax <? a)%Z).
Proof.
  intros lo hi k g a Hhi Hat Hg Ha. unfold short_ok_float, thresholds.
  rewrite (gt_float_is_gt_floor _ g Hhi Hg), (gt_float_is_gt_floor _ a Hat Ha). reflexivity.
Qed.

Print Assumptions gt_float_is_gt_floor.
Print Assumptions lt_float_is_lt_ceil.
Print Assumptions window_rule_thresholds.
Print Assumptions short_rule_thresholds.
