(* MiniPyLemmas.v -- reasoning principles for the interpreter of MiniPy.v: the loops of [exec] as top-level functions,
   invariant rules for them, fuel monotonicity helpers and the representation functions used by the statements in
   coq/Generated/*GenProofs.v.  Nothing here depends on a generated program. *)
From Coq Require Import Lia.
From DSW Require Import MiniPyE.
Open Scope Z_scope.

(* ---- representation of model data as MiniPy values ------------------------------------------------------------- *)
(* a decimal string from digit VALUES (the convention of Bignum.v / Convert.v) *)
Definition dchr (d : Z) : Z := 48 + d.
Definition dstr (ds : list Z) : val := VStr (map dchr ds).
Definition vints (l : list Z) : val := VList (map VInt l).
Definition digits_ok (ds : list Z) : Prop := Forall (fun d => 0 <= d <= 9) ds.

Section Loops.
  Variable ce : string -> list val -> res val.

  (* the two local fixpoints of [exec], as functions one can do induction on *)
  Fixpoint for_loop (fuel : nat) (t : target) (bd : stmt) (l : list val) (en : env) : outcome :=
    match l with
    | [] => ONormal en
    | v :: rest => seq (seq (assign ce t v en) (exec ce fuel bd)) (for_loop fuel t bd rest)
    end.

  Fixpoint while_loop (fuel : nat) (c : expr) (bd : stmt) (n : nat) (en : env) : outcome :=
    match n with
    | O => OFuel
    | S m => lift (eval ce en c) (fun v => lift (truthy v) (fun t =>
               if t then seq (exec ce fuel bd en) (while_loop fuel c bd m) else ONormal en))
    end.

  Lemma exec_for fuel t it bd en :
    exec ce fuel (SFor t it bd) en =
    lift (eval ce en it) (fun src => lift (items src) (fun l => for_loop fuel t bd l en)).
  Proof.
    cbn [exec]. destruct (eval ce en it) as [src| | |]; cbn [lift]; try reflexivity.
    destruct (items src) as [l| | |]; cbn [lift]; try reflexivity.
    revert en. induction l as [|v rest IH]; intro en; cbn [for_loop]; [reflexivity|].
    destruct (seq (assign ce t v en) (exec ce fuel bd)) as [en'| | | | |]; cbn [seq]; try reflexivity. apply IH.
  Qed.

  Lemma exec_while fuel c bd en :
    exec ce fuel (SWhile c bd) en = while_loop fuel c bd fuel en.
  Proof.
    cbn [exec]. generalize fuel at 2 4 as n. intro n. revert en.
    induction n as [|m IH]; intro en; cbn [while_loop]; [reflexivity|].
    destruct (eval ce en c) as [v| | |]; cbn [lift]; try reflexivity.
    destruct (truthy v) as [b| | |]; cbn [lift]; try reflexivity.
    destruct b; [|reflexivity].
    destruct (exec ce fuel bd en) as [en'| | | | |]; cbn [seq]; try reflexivity. apply IH.
  Qed.

  (* ---- loops whose body may break (SForB / SWhileB) ---------------------------------------------------------------- *)
  Fixpoint for_loop_b (fuel : nat) (t : target) (bd : stmt) (l : list val) (en : env) : outcome :=
    match l with
    | [] => ONormal en
    | v :: rest => loop_seq (seq (assign ce t v en) (exec ce fuel bd)) (for_loop_b fuel t bd rest)
    end.

  Fixpoint while_loop_b (fuel : nat) (c : expr) (bd : stmt) (n : nat) (en : env) : outcome :=
    match n with
    | O => OFuel
    | S m => lift (eval ce en c) (fun v => lift (truthy v) (fun t =>
               if t then loop_seq (exec ce fuel bd en) (while_loop_b fuel c bd m) else ONormal en))
    end.

  Lemma exec_for_b fuel t it bd en :
    exec ce fuel (SForB t it bd) en =
    lift (eval ce en it) (fun src => lift (items src) (fun l => for_loop_b fuel t bd l en)).
  Proof.
    cbn [exec]. destruct (eval ce en it) as [src| | |]; cbn [lift]; try reflexivity.
    destruct (items src) as [l| | |]; cbn [lift]; try reflexivity.
    revert en. induction l as [|v rest IH]; intro en; cbn [for_loop_b]; [reflexivity|].
    destruct (seq (assign ce t v en) (exec ce fuel bd)) as [en'| | | | |]; cbn [loop_seq]; try reflexivity. apply IH.
  Qed.

  Lemma exec_while_b fuel c bd en :
    exec ce fuel (SWhileB c bd) en = while_loop_b fuel c bd fuel en.
  Proof.
    cbn [exec]. generalize fuel at 2 4 as n. intro n. revert en.
    induction n as [|m IH]; intro en; cbn [while_loop_b]; [reflexivity|].
    destruct (eval ce en c) as [v| | |]; cbn [lift]; try reflexivity.
    destruct (truthy v) as [b| | |]; cbn [lift]; try reflexivity.
    destruct b; [|reflexivity].
    destruct (exec ce fuel bd en) as [en'| | | | |]; cbn [loop_seq]; try reflexivity. apply IH.
  Qed.

  Lemma for_loop_b_cons fuel t bd v rest en :
    for_loop_b fuel t bd (v :: rest) en = loop_seq (seq (assign ce t v en) (exec ce fuel bd)) (for_loop_b fuel t bd rest).
  Proof. reflexivity. Qed.

  Lemma while_loop_b_S fuel c bd m en :
    while_loop_b fuel c bd (S m) en =
    lift (eval ce en c) (fun v => lift (truthy v) (fun t =>
      if t then loop_seq (exec ce fuel bd en) (while_loop_b fuel c bd m) else ONormal en)).
  Proof. reflexivity. Qed.

  Lemma exec_seq fuel a b en : exec ce fuel (SSeq a b) en = seq (exec ce fuel a en) (exec ce fuel b).
  Proof. reflexivity. Qed.

  Lemma exec_if fuel c a b en :
    exec ce fuel (SIf c a b) en =
    lift (eval ce en c) (fun v => lift (truthy v) (fun t => if t then exec ce fuel a en else exec ce fuel b en)).
  Proof. reflexivity. Qed.

  (* one unfolding of each loop *)
  Lemma for_loop_cons fuel t bd v rest en :
    for_loop fuel t bd (v :: rest) en = seq (seq (assign ce t v en) (exec ce fuel bd)) (for_loop fuel t bd rest).
  Proof. reflexivity. Qed.

  Lemma for_loop_app fuel t bd l1 l2 en :
    for_loop fuel t bd (l1 ++ l2) en = seq (for_loop fuel t bd l1 en) (for_loop fuel t bd l2).
  Proof.
    revert en; induction l1 as [|v l1 IH]; intro en; cbn [for_loop app seq]; [reflexivity|].
    destruct (seq (assign ce t v en) (exec ce fuel bd)) as [en'| | | | |]; cbn [seq]; try reflexivity. apply IH.
  Qed.

  (* ---- invariant rule for a for loop whose body always completes normally ------------------------------------- *)
  (* Inv is indexed by the items still to be processed *)
  Lemma for_loop_normal fuel t bd (Inv : list val -> env -> Prop) :
    (forall v rest en, Inv (v :: rest) en ->
       exists en', seq (assign ce t v en) (exec ce fuel bd) = ONormal en' /\ Inv rest en') ->
    forall l en, Inv l en -> exists en', for_loop fuel t bd l en = ONormal en' /\ Inv [] en'.
  Proof.
    intros Hstep l; induction l as [|v rest IH]; intros en HI; cbn [for_loop].
    - exists en; split; [reflexivity|exact HI].
    - destruct (Hstep _ _ _ HI) as [en' [E HI']]. rewrite E; cbn [seq]. apply IH, HI'.
  Qed.

  (* ---- invariant rule for a while loop that terminates normally ----------------------------------------------- *)
  Definition cond_is (c : expr) (en : env) (b : bool) : Prop :=
    exists v, eval ce en c = Ret v /\ truthy v = Ret b.

  Lemma while_loop_normal fuel c bd (Inv : env -> Prop) (m : env -> nat) :
    (forall en, Inv en ->
       cond_is c en false \/
       (cond_is c en true /\ exists en', exec ce fuel bd en = ONormal en' /\ Inv en' /\ (m en' < m en)%nat)) ->
    forall n en, Inv en -> (m en < n)%nat ->
      exists en', while_loop fuel c bd n en = ONormal en' /\ Inv en' /\ cond_is c en' false.
  Proof.
    intros Hstep n; induction n as [|k IH]; intros en HI Hm; [lia|].
    cbn [while_loop]. destruct (Hstep _ HI) as [[v [E T]]|[[v [E T]] [en' [X [HI' Hd]]]]]; rewrite E; cbn [lift]; rewrite T; cbn [lift].
    - exists en; split; [reflexivity|split; [exact HI|exists v; split; assumption]].
    - rewrite X; cbn [seq]. apply IH; [exact HI'|lia].
  Qed.
End Loops.

(* ---- environments ------------------------------------------------------------------------------------------------ *)
Lemma lookup_update_same x v en : lookup x (update x v en) = Ret v.
Proof.
  induction en as [|[y w] t IH]; cbn [update lookup].
  - rewrite String.eqb_refl; reflexivity.
  - destruct (String.eqb x y) eqn:E; cbn [lookup]; rewrite E; [reflexivity|exact IH].
Qed.

Lemma lookup_update_other x y v en : x <> y -> lookup x (update y v en) = lookup x en.
Proof.
  intro N. induction en as [|[z w] t IH]; cbn [update lookup].
  - destruct (String.eqb x y) eqn:E; [apply String.eqb_eq in E; contradiction|reflexivity].
  - destruct (String.eqb y z) eqn:E; cbn [lookup].
    + apply String.eqb_eq in E; subst z. destruct (String.eqb x y) eqn:F; [apply String.eqb_eq in F; contradiction|reflexivity].
    + destruct (String.eqb x z); [reflexivity|exact IH].
Qed.

(* ---- small facts about the primitive operations ------------------------------------------------------------------- *)
Lemma items_dstr ds : items (dstr ds) = Ret (map (fun d => VStr [dchr d]) ds).
Proof. unfold dstr, items, chars. rewrite map_map. reflexivity. Qed.

Lemma is_digit_dchr d : 0 <= d <= 9 -> is_digit (dchr d) = true.
Proof. unfold is_digit, dchr; intros; apply andb_true_intro; split; apply Z.leb_le; lia. Qed.

Lemma to_int_digit d : 0 <= d <= 9 -> to_int (VStr [dchr d]) = Ret (VInt d).
Proof.
  intro H. unfold to_int, Z_of_str. cbn [forallb]. rewrite (is_digit_dchr d H). cbn [andb fold_left rbind].
  unfold dchr. f_equal. f_equal. lia.
Qed.

Lemma str_of_Z_digit d : 0 <= d <= 9 -> str_of_Z d = [dchr d].
Proof.
  intro H. unfold str_of_Z. destruct (d <? 0) eqn:E; [apply Z.ltb_lt in E; lia|].
  cbn [dec_digits]. destruct (d <? 10) eqn:F; [reflexivity|apply Z.ltb_ge in F; lia].
Qed.

Lemma to_str_digit d : 0 <= d <= 9 -> to_str (VInt d) = Ret (VStr [dchr d]).
Proof. intro H. unfold to_str. rewrite (str_of_Z_digit d H). reflexivity. Qed.

(* ---- representation of graphs, tables and bit arrays (NumPy arrays) ---------------------------------------------- *)
Definition varr (l : list Z) : val := VArr (map VInt l).
Definition varr2 (a : list (list Z)) : val := VArr (map varr a).
Definition v_table (sh : option (list (list Z))) : val := match sh with Some t => varr2 t | None => VNone end.
Definition v_optstr (o : option (list Z)) : val := match o with Some s => VStr s | None => VNone end.

(* the shape of an accessor: rows of four entries, each -1 or the index of a row *)
Definition acc_shape (acc : list (list Z)) : Prop :=
  Forall (fun row => length row = 4%nat /\ Forall (fun x => -1 <= x < Z.of_nat (length acc)) row) acc.
(* a shuffle table for it: one row of four DISTINCT integers per vertex (NumPy's argsort is unspecified on ties) *)
Definition table_shape (n : nat) (sh : option (list (list Z))) : Prop :=
  match sh with
  | None => True
  | Some t => length t = n /\ Forall (fun r => length r = 4%nat /\ NoDup r) t
  end.

Lemma items_varr l : items (varr l) = Ret (map VInt l).
Proof. reflexivity. Qed.
