(* FilterFloatProofs.v -- C12 / C02: the filter with its comparisons in binary64 (FilterFloat.valid_float) equals the filter
   with the integer thresholds of Thresholds.v (Filter.valid), for every string shorter than 2^52 symbols whenever the three
   products are finite and non-negative.  Hence every theorem about Filter.valid (C12, C02) speaks about the float filter. *)
From Coq Require Import ZArith List Bool Lia Reals Floats.
From DSW Require Import Py Filter Thresholds FilterFloat.
From DSW.Proofs Require Import ThresholdProofs.
Import ListNotations.

(* the three products LocalBioFilter.valid compares counts with are finite and non-negative (true for 0 <= lo <= hi <= 1 and any
   positive window length below 2^52; stated as a hypothesis because gc_range is not validated by the constructor) *)
Definition products_ok (c : fcfg) : Prop :=
  match ff_gc c with
  | Some (lo, hi) => fin_nonneg (lo * fz (ff_k c))%float /\ fin_nonneg (hi * fz (ff_k c))%float
                     /\ fin_nonneg ((1 - lo) * fz (ff_k c))%float
  | None => True
  end.

Local Open Scope Z_scope.

Lemma countZ_bounds : forall x w, 0 <= countZ x w <= Z.of_nat (length w).
Proof.
  intros x w. induction w as [|y t IH].
  - cbn [countZ length]. lia.
  - cbn [countZ length]. rewrite Nat2Z.inj_succ. destruct (x =? y); lia.
Qed.

Lemma countZ_two : forall a b w, a <> b -> countZ a w + countZ b w <= Z.of_nat (length w).
Proof.
  intros a b w Hab. induction w as [|y t IH].
  - cbn [countZ length]. lia.
  - cbn [countZ length]. rewrite Nat2Z.inj_succ.
    destruct (a =? y) eqn:E1; destruct (b =? y) eqn:E2; lia.
Qed.

Theorem gc_count_bounds : forall w, (0 <= gc_count w <= Z.of_nat (length w))%Z /\ (0 <= at_count w <= Z.of_nat (length w))%Z.
Proof.
  intros w. unfold gc_count, at_count.
  pose proof (countZ_bounds chC w) as HC. pose proof (countZ_bounds chG w) as HG.
  pose proof (countZ_bounds chA w) as HA. pose proof (countZ_bounds chT w) as HT.
  assert (HCG : chC <> chG) by (unfold chC, chG; lia).
  assert (HAT : chA <> chT) by (unfold chA, chT; lia).
  pose proof (countZ_two chC chG w HCG) as H1. pose proof (countZ_two chA chT w HAT) as H2.
  lia.
Qed.

Lemma py_slice_from_length : forall (s : list Z) i, (length (py_slice_from s i) <= length s)%nat.
Proof.
  intros s i. unfold py_slice_from, py_slice.
  destruct (clampZ (Z.of_nat (length s)) (Z.of_nat (length s)) <=? clampZ (Z.of_nat (length s)) i).
  - cbn [length]. lia.
  - rewrite firstn_length. etransitivity; [apply Nat.le_min_r|]. rewrite skipn_length. apply Nat.le_sub_l.
Qed.

Lemma gc_firstn_range : forall kk obs, Z.of_nat (length obs) <= 2 ^ 52 -> 0 <= gc_count (firstn kk obs) <= 2 ^ 52.
Proof.
  intros kk obs Hlen. destruct (gc_count_bounds (firstn kk obs)) as [Hg _].
  assert (Hf : (length (firstn kk obs) <= length obs)%nat) by (rewrite firstn_length; apply Nat.le_min_r). lia.
Qed.

Lemma windows_float_is_windows : forall lo hi kz kk fuel obs,
  fin_nonneg (lo * fz kz)%float -> fin_nonneg (hi * fz kz)%float ->
  Z.of_nat (length obs) <= 2 ^ 52 ->
  windows_ok_float fuel kk lo hi kz obs = windows_ok fuel kk (fceil (lo * fz kz)%float) (ffloor (hi * fz kz)%float) obs.
Proof.
  intros lo hi kz kk fuel obs Hlo Hhi. revert obs.
  induction fuel as [|f IH]; intros obs Hlen.
  - reflexivity.
  - cbn [windows_ok_float windows_ok]. cbv zeta.
    pose proof (gc_firstn_range kk obs Hlen) as Hg.
    rewrite (gt_float_is_gt_floor _ _ Hhi Hg). rewrite (lt_float_is_lt_ceil _ _ Hlo Hg).
    destruct (ffloor (hi * fz kz)%float <? gc_count (firstn kk obs)); [reflexivity|].
    destruct (gc_count (firstn kk obs) <? fceil (lo * fz kz)%float); [reflexivity|].
    destruct obs as [|x t]; [reflexivity|].
    apply IH. cbn [length] in Hlen. lia.
Qed.

Theorem valid_float_is_valid : forall c only_last s, products_ok c -> (Z.of_nat (length s) <= 2 ^ 52)%Z ->
  valid_float c only_last s = valid (to_cfg c) only_last s.
Proof.
  intros c only_last s Hp Hlen. unfold valid_float, valid, to_cfg. cbn [f_k f_run f_motifs f_gc]. cbv zeta.
  set (obs := if only_last then py_slice_from s (- ff_k c) else s).
  assert (Hobs : Z.of_nat (length obs) <= 2 ^ 52).
  { subst obs. destruct only_last; [|exact Hlen]. pose proof (py_slice_from_length s (- ff_k c)). lia. }
  f_equal.
  unfold products_ok in Hp. destruct (ff_gc c) as [[lo hi]|]; [|reflexivity].
  destruct Hp as [Hlo [Hhi Hat]]. unfold thresholds.
  destruct (ff_k c <=? Z.of_nat (length obs)).
  - apply windows_float_is_windows; assumption.
  - destruct (gc_count_bounds obs) as [Hg Ha].
    rewrite (gt_float_is_gt_floor _ (gc_count obs) Hhi) by lia.
    rewrite (gt_float_is_gt_floor _ (at_count obs) Hat) by lia.
    reflexivity.
Qed.

Print Assumptions gc_count_bounds.
Print Assumptions valid_float_is_valid.
