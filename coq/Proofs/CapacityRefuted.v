(* CapacityRefuted.v -- the finding F12 as a kernel-checked statement about the binary64 model of approximate_capacity:
   on the order-2 graph f12_acc (one aperiodic strongly connected cyclic part {0,3,7,8,13,14,15}) and the three start vectors NumPy
   draws after numpy.random.seed(1472), every repeat stops after its third estimate with the estimate exactly 1.0 (capacity
   log2 1 = 0), although the lower Collatz-Wielandt certificate shows that the number of walks grows at least like (p/q)^n with
   p / q > 1.29 (log2 > 0.37).  Evaluated by vm_compute; no proof search. *)
From Coq Require Import ZArith List PrimFloat.
From DSW Require Import Py Kmer Graph Spec GraphSpec CapacitySpec.
From DSW Require Capacity.
From DSW.Proofs Require Import CapacityFloatProofs.
Import ListNotations.
Open Scope Z_scope.

Definition f12_acc : list (list Z) := [[-1; -1; -1; 3]; [-1; -1; -1; -1]; [-1; -1; -1; -1]; [-1; 13; -1; 15]; [-1; -1; 2; -1]; [-1; -1; -1; -1]; [-1; -1; -1; -1]; [-1; -1; -1; 15]; [0; -1; -1; 3]; [-1; -1; -1; -1]; [-1; -1; -1; -1]; [-1; -1; -1; -1]; [-1; 1; 2; -1]; [4; -1; -1; 7]; [8; -1; -1; -1]; [-1; -1; 14; -1]].
Definition f12_starts : list (list float) := ([[0x1.c481f3dc888c1p-1; 0x1.cbfe0daef8834p-3; 0x1.2d1d5a14fa070p-1; 0x1.71ce2c3d46188p-3; 0x1.c6fc171cdb534p-1; 0x1.9777504d8f1ccp-2; 0x1.7dcca86bdce26p-1; 0x1.3176e15b7b178p-1; 0x1.4093ccb4958f5p-1; 0x1.5f320e5c45c82p-2; 0x1.419f890580080p-3; 0x1.ced1a23d27836p-2; 0x1.94c986e1b2360p-4; 0x1.df99e0eaf7bafp-1; 0x1.7047f2c796b10p-5; 0x1.1d6d20d54431cp-3]; [0x1.3f1f75b7e00b4p-3; 0x1.b3f8e95c97846p-1; 0x1.17c91bbb18378p-1; 0x1.e5fb8b98cf850p-4; 0x1.36dc58d2479fep-2; 0x1.58c98d04df518p-2; 0x1.a4bcd34da198ap-1; 0x1.271b5dac3df7ap-2; 0x1.ed02cd35b7f90p-4; 0x1.e403716c5a9a0p-4; 0x1.d453f044fdbe7p-1; 0x1.5d2ea8a036456p-1; 0x1.e3b6e0324ee7bp-1; 0x1.34a5166b2289fp-1; 0x1.2f3e4abb5e080p-7; 0x1.4b22d6ce3c4ecp-2]; [0x1.1a6781a3d4798p-3; 0x1.49a0fe1be8045p-1; 0x1.18134b5b1b719p-1; 0x1.9398e1210cbc4p-2; 0x1.c70775a510302p-1; 0x1.421ebaa43ebf7p-1; 0x1.90cbe72166dc0p-2; 0x1.0d0bd8868239cp-1; 0x1.d334f0dfa68b8p-2; 0x1.1129b176c32dep-1; 0x1.3f55e7af8a540p-3; 0x1.6c2e163573c80p-2; 0x1.f0a3100a68200p-2; 0x1.30061a9eac460p-4; 0x1.5ec6ec9956fbcp-2; 0x1.9760740769810p-2]])%float.
Definition f12_tol : float := 0x1.b7cdfd9d7bdbbp-34%float.
Definition f12_S : list Z := [0; 3; 7; 8; 13; 14; 15].
Definition f12_x : list Z := [1753661713947; 0; 0; 2273563206379; 0; 0; 0; 1425479704562; 3106309134671; 0; 0; 0; 0; 1099511627776; 2395981508616; 1848086311036].
Definition f12_p : Z := 2273563206379.
Definition f12_q : Z := 1753661713947.

Theorem capacity_random_start_refuted :
  shaped f12_acc /\ Forall (Forall unit_float) f12_starts /\
  (exists r3 recs, Capacity.approximate_capacity f12_acc f12_tol 500 f12_starts = Some (Some ([1; 1; r3]%float, recs))
                   /\ PrimFloat.ltb 1 r3 = true) /\
  cert_lower f12_acc f12_S f12_x f12_p f12_q = true /\ 129 * f12_q < 100 * f12_p.
Proof.
  split; [|split; [|split; [|split]]].
  - split.
    + unfold GraphSpec.rows4. repeat constructor.
    + unfold entries_in_range. repeat (constructor; [repeat (constructor; [vm_compute; split; congruence|])|]); constructor.
  - unfold unit_float. repeat (constructor; [repeat (constructor; [split; vm_compute; reflexivity|])|]); constructor.
  - eexists; eexists. split; vm_compute; reflexivity.
  - vm_compute; reflexivity.
  - vm_compute; reflexivity.
Qed.

Print Assumptions capacity_random_start_refuted.
