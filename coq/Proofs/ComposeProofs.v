(* ComposeProofs.v -- C01 (round trip, with termination) and the tightness / length clauses of C04,
   on every graph that is well formed from the start vertex: composition of CoderProofs,
   TerminationProofs, WalkProofs and VTProofs. *)
From Coq Require Import Lia ZifyBool Permutation.
From DSW Require Import Py Bignum Convert Kmer Graph Coder Spec GraphSpec CoderSpec FastSpec.
From DSW.Proofs Require Import BignumProofs ConvertProofs ShuffleProofs VTProofs WalkProofs CoderProofs TerminationProofs.
Ltac Zify.zify_post_hook ::= Z.to_euclidean_division_equations.

(* All target statements are proved below with Qed; see the Print Assumptions at the end. *)

Theorem rval2_bound : forall bits, bits_ok bits -> 0 <= rval 2 bits < 2 ^ Z.of_nat (length bits).
Proof.
  intros bits H. apply rval_bound; [lia|]. apply bits_dig. exact H.
Qed.

Theorem perm_table_shape : forall sh n, perm_table sh n -> shape_table sh n.
Proof. exact cp_perm_shape. Qed.

Theorem walk_is_acgt : forall s acc v, is_walk acc v s -> acgt s.
Proof.
  induction s as [|c t IH]; intros acc v H; [constructor|].
  cbn [is_walk] in H. destruct H as (j & Hn & _ & _ & Hw).
  constructor; [|exact (IH acc _ Hw)].
  destruct (VTProofs.nuc_index_some c j Hn) as (_ & _ & Ha). exact Ha.
Qed.

Lemma co_wf_in_range : forall acc v0, wf_from acc v0 -> in_range acc v0.
Proof. intros acc v0 Hwf. destruct (Hwf v0 (reach_refl acc v0)) as [Hv _]. exact Hv. Qed.

(* C04 (normal mode) on well-formed graphs *)
Theorem encode_normal_total : forall acc v0 sh bits, shaped acc -> wf_from acc v0 -> perm_table sh (nrows acc) -> bits_ok bits ->
  exists s, encode_normal (Z.to_nat (Z.of_nat (length bits) * nrows acc)) (bit_to_number_str bits) acc v0 sh = Ok s
            /\ Z.of_nat (length s) <= Z.of_nat (length bits) * nrows acc
            /\ is_walk acc v0 s /\ walk_value acc v0 sh s = rval 2 bits.
Proof.
  intros acc v0 sh bits Hs Hwf Ht Hb.
  pose proof (co_wf_in_range acc v0 Hwf) as Hv.
  destruct (bit_to_number_str_spec bits Hb) as [Hcan Hval].
  pose proof (rval2_bound bits Hb) as Hbd.
  destruct (ref_encode_total acc v0 sh (rval 2 bits) (Z.of_nat (length bits)) Hs Hwf Ht ltac:(lia) Hbd)
    as (s & He & Hl).
  exists s. rewrite encode_normal_refines by assumption. rewrite Hval.
  split; [exact He|]. split; [exact Hl|].
  eapply ref_encode_sound; [exact Hs|exact Hv|exact Ht| |exact He]. lia.
Qed.

Theorem encode_normal_tight : forall fuel acc v0 sh bits s, shaped acc -> in_range acc v0 -> perm_table sh (nrows acc) ->
  bits_ok bits -> 0 < rval 2 bits ->
  encode_normal fuel (bit_to_number_str bits) acc v0 sh = Ok s ->
  s <> [] /\ radix_product acc v0 (removelast s) <= rval 2 bits /\ 2 <= radix acc (walk_end acc v0 (removelast s)).
Proof.
  intros fuel acc v0 sh bits s Hs Hv Ht Hb Hpos He.
  destruct (bit_to_number_str_spec bits Hb) as [Hcan Hval].
  rewrite encode_normal_refines in He by assumption. rewrite Hval in He.
  exact (ref_encode_tight fuel _ acc v0 sh s Hs Hv Ht Hpos He).
Qed.

Theorem encode_normal_zero : forall fuel acc v0 sh bits, bits_ok bits -> rval 2 bits = 0 ->
  encode_normal fuel (bit_to_number_str bits) acc v0 sh = Ok [].
Proof.
  intros fuel acc v0 sh bits Hb Hz.
  destruct (bit_to_number_str_spec bits Hb) as [Hcan Hval].
  assert (E : bit_to_number_str bits = [0]) by (apply canonical_zero; [exact Hcan|lia]).
  rewrite E. destruct fuel; reflexivity.
Qed.

Theorem radix_product_lower : forall s acc v0 d, shaped acc -> in_range acc v0 -> 1 <= d ->
  (forall v, reach acc v0 v -> d <= radix acc v) -> is_walk acc v0 s ->
  d ^ Z.of_nat (length s) <= radix_product acc v0 s.
Proof.
  induction s as [|c t IH]; intros acc v0 d Hs Hv Hd Hall Hw.
  - cbn [length radix_product]. change (Z.of_nat 0) with 0. rewrite Z.pow_0_r. lia.
  - cbn [is_walk] in Hw. destruct Hw as (j & Hn & _ & He & Hw).
    destruct (VTProofs.nuc_index_some c j Hn) as (Hj & _ & _). unfold nuc in Hj.
    cbn [radix_product length]. rewrite Hn. rewrite Nat2Z.inj_succ, Z.pow_succ_r by lia.
    pose proof (Hall v0 (reach_refl acc v0)) as Hr0.
    assert (Hn' : in_range acc (entry acc v0 j)) by (apply cp_entry_in_range; assumption).
    assert (IH' : d ^ Z.of_nat (length t) <= radix_product acc (entry acc v0 j) t).
    { apply IH; try assumption. intros v Hr. apply Hall. eapply reach_step; eassumption. }
    assert (H0 : 0 <= d ^ Z.of_nat (length t)) by (apply Z.pow_nonneg; lia).
    replace (Z.max 1 (radix acc v0)) with (radix acc v0) by lia.
    apply Z.mul_le_mono_nonneg; lia.
Qed.

Lemma co_walk_removelast : forall s acc v, is_walk acc v s -> is_walk acc v (removelast s).
Proof.
  induction s as [|c t IH]; intros acc v H; [exact I|].
  destruct t as [|c' t']; [exact I|].
  change (removelast (c :: c' :: t')) with (c :: removelast (c' :: t')).
  cbn [is_walk] in H. destruct H as (j & Hn & Hv & He & Hw).
  cbn [is_walk]. exists j. split; [exact Hn|]. split; [exact Hv|]. split; [exact He|].
  apply IH. exact Hw.
Qed.

Lemma co_removelast_length : forall (s : list Z), s <> [] -> length s = S (length (removelast s)).
Proof.
  intros s H. pose proof (app_removelast_last 0 H) as E. apply (f_equal (@length Z)) in E.
  rewrite app_length in E. cbn [length] in E. rewrite E. apply Nat.add_1_r.
Qed.

Lemma co_strand_core : forall fuel acc v0 sh bits s d, shaped acc -> in_range acc v0 -> perm_table sh (nrows acc) ->
  bits_ok bits -> 2 <= d -> (forall v, reach acc v0 v -> d <= radix acc v) ->
  encode_normal fuel (bit_to_number_str bits) acc v0 sh = Ok s ->
  s = [] \/ (1 <= Z.of_nat (length s) /\ d ^ (Z.of_nat (length s) - 1) < 2 ^ Z.of_nat (length bits)).
Proof.
  intros fuel acc v0 sh bits s d Hs Hv Ht Hb Hd Hall He.
  pose proof (rval2_bound bits Hb) as Hbd.
  destruct (Z.eq_dec (rval 2 bits) 0) as [Hz|Hz].
  - left. rewrite (encode_normal_zero fuel acc v0 sh bits Hb Hz) in He. inversion He. reflexivity.
  - right.
    destruct (encode_normal_tight fuel acc v0 sh bits s Hs Hv Ht Hb ltac:(lia) He) as (Hne & Hrp & _).
    destruct (bit_to_number_str_spec bits Hb) as [Hcan Hval].
    rewrite encode_normal_refines in He by assumption. rewrite Hval in He.
    destruct (ref_encode_sound fuel (rval 2 bits) acc v0 sh s Hs Hv Ht ltac:(lia) He) as [Hw _].
    pose proof (co_walk_removelast s acc v0 Hw) as Hw'.
    pose proof (radix_product_lower (removelast s) acc v0 d Hs Hv ltac:(lia) Hall Hw') as Hlow.
    pose proof (co_removelast_length s Hne) as Hlen.
    rewrite Hlen. rewrite Nat2Z.inj_succ.
    replace (Z.succ (Z.of_nat (length (removelast s))) - 1) with (Z.of_nat (length (removelast s))) by lia.
    split; lia.
Qed.

Theorem strand_length_t2 : forall fuel acc v0 sh bits s, shaped acc -> in_range acc v0 -> perm_table sh (nrows acc) ->
  bits_ok bits -> (forall v, reach acc v0 v -> 2 <= radix acc v) ->
  encode_normal fuel (bit_to_number_str bits) acc v0 sh = Ok s -> (length s <= length bits)%nat.
Proof.
  intros fuel acc v0 sh bits s Hs Hv Ht Hb Hall He.
  destruct (co_strand_core fuel acc v0 sh bits s 2 Hs Hv Ht Hb ltac:(lia) Hall He) as [E|[H1 Hlt]].
  - subst s. cbn [length]. lia.
  - apply Z.pow_lt_mono_r_iff in Hlt; lia.
Qed.

Theorem strand_length_complete : forall fuel acc v0 sh bits s, shaped acc -> in_range acc v0 -> perm_table sh (nrows acc) ->
  bits_ok bits -> (forall v, reach acc v0 v -> 4 <= radix acc v) ->
  encode_normal fuel (bit_to_number_str bits) acc v0 sh = Ok s -> (2 * length s <= length bits + 1)%nat.
Proof.
  intros fuel acc v0 sh bits s Hs Hv Ht Hb Hall He.
  destruct (co_strand_core fuel acc v0 sh bits s 4 Hs Hv Ht Hb ltac:(lia) Hall He) as [E|[H1 Hlt]].
  - subst s. cbn [length]. lia.
  - change 4 with (2 ^ 2) in Hlt. rewrite <- Z.pow_mul_r in Hlt by lia.
    apply Z.pow_lt_mono_r_iff in Hlt; lia.
Qed.

(* the check of encode on a walk *)
Lemma co_check_total : forall s vt_len acc v0, is_walk acc v0 s ->
  exists chk, (if 0 <? vt_len then c <- set_vt s vt_len ;; Ok (s, Some c) else Ok (s, None)) = Ok (s, chk)
              /\ (chk = None <-> vt_len <= 0).
Proof.
  intros s vt_len acc v0 Hw. destruct (0 <? vt_len) eqn:E.
  - destruct (set_vt_total s vt_len (walk_is_acgt s acc v0 Hw) ltac:(lia)) as (c & Hc).
    exists (Some c). rewrite Hc. cbn [bind]. split; [reflexivity|]. split; [discriminate|lia].
  - exists None. split; [reflexivity|]. split; [lia|reflexivity].
Qed.

Lemma co_encode_unfold : forall bits acc v faster vt_len sh fuel,
  encode bits acc v faster vt_len sh fuel =
  (s <- (if faster then encode_fast fuel bits acc v sh
         else encode_normal fuel (bit_to_number_str bits) acc v sh) ;;
   if 0 <? vt_len then chk <- set_vt s vt_len ;; Ok (s, Some chk) else Ok (s, None)).
Proof. reflexivity. Qed.

Theorem C01_normal_wf : forall acc v0 sh bits vt_len, shaped acc -> wf_from acc v0 -> perm_table sh (nrows acc) -> bits_ok bits ->
  exists s chk, encode bits acc v0 false vt_len sh (Z.to_nat (Z.of_nat (length bits) * nrows acc)) = Ok (s, chk)
                /\ (chk = None <-> vt_len <= 0)
                /\ decode s (Z.of_nat (length bits)) acc v0 false chk sh = Ok bits.
Proof.
  intros acc v0 sh bits vt_len Hs Hwf Ht Hb.
  pose proof (co_wf_in_range acc v0 Hwf) as Hv.
  destruct (encode_normal_total acc v0 sh bits Hs Hwf Ht Hb) as (s & He & _ & Hw & _).
  destruct (co_check_total s vt_len acc v0 Hw) as (chk & Hc & Hchk).
  assert (Henc : encode bits acc v0 false vt_len sh (Z.to_nat (Z.of_nat (length bits) * nrows acc)) = Ok (s, chk)).
  { rewrite co_encode_unfold. cbv iota. rewrite He. cbn [bind]. exact Hc. }
  exists s, chk. split; [exact Henc|]. split; [exact Hchk|].
  exact (roundtrip_normal _ bits acc v0 sh vt_len s chk Hs Hv Ht Hb Henc).
Qed.

Theorem C01_fast_wf : forall acc v0 sh bits vt_len, shaped acc -> wf_from acc v0 -> perm_table sh (nrows acc) -> bits_ok bits ->
  no_outdeg3 acc ->
  exists s chk, encode bits acc v0 true vt_len sh (Z.to_nat (Z.of_nat (length bits) * nrows acc)) = Ok (s, chk)
                /\ (chk = None <-> vt_len <= 0)
                /\ is_walk acc v0 s
                /\ (bits_carried acc v0 s = Z.of_nat (length bits) \/ bits_carried acc v0 s = Z.of_nat (length bits) + 1)
                /\ decode s (Z.of_nat (length bits)) acc v0 true chk sh = Ok bits.
Proof.
  intros acc v0 sh bits vt_len Hs Hwf Ht Hb Hno.
  pose proof (co_wf_in_range acc v0 Hwf) as Hv.
  pose proof (cp_perm_shape _ _ Ht) as Hsh.
  destruct (ref_encode_fast_total acc v0 sh bits Hs Hwf Ht Hno Hb) as (s & He & _).
  rewrite <- encode_fast_refines in He by assumption.
  destruct (encode_fast_walk _ bits acc v0 sh s Hs Hv Hsh Hb He) as [Hw Hbc].
  destruct (co_check_total s vt_len acc v0 Hw) as (chk & Hc & Hchk).
  assert (Henc : encode bits acc v0 true vt_len sh (Z.to_nat (Z.of_nat (length bits) * nrows acc)) = Ok (s, chk)).
  { rewrite co_encode_unfold. cbv iota. rewrite He. cbn [bind]. exact Hc. }
  exists s, chk. split; [exact Henc|]. split; [exact Hchk|]. split; [exact Hw|]. split; [exact Hbc|].
  exact (roundtrip_fast _ bits acc v0 sh vt_len s chk Hs Hv Hsh Hb Henc).
Qed.

Print Assumptions rval2_bound.
Print Assumptions perm_table_shape.
Print Assumptions walk_is_acgt.
Print Assumptions encode_normal_total.
Print Assumptions encode_normal_tight.
Print Assumptions encode_normal_zero.
Print Assumptions radix_product_lower.
Print Assumptions strand_length_t2.
Print Assumptions strand_length_complete.
Print Assumptions C01_normal_wf.
Print Assumptions C01_fast_wf.
