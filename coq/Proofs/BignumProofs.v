(* BignumProofs.v -- C15: the digit-serial helpers of Bignum.v compute exact integer
   arithmetic on canonical decimal strings of ANY length. *)
From Coq Require Import Lia ZifyBool.
From DSW Require Import Py Bignum Spec.
Ltac Zify.zify_post_hook ::= Z.to_euclidean_division_equations.

(* ---- little-endian value and the Horner value ---------------------------------------- *)
Fixpoint lval (l : list Z) : Z := match l with [] => 0 | d :: t => d + 10 * lval t end.

Lemma dval_app1 : forall l d, dval (l ++ [d]) = 10 * dval l + d.
Proof. intros. unfold dval. rewrite fold_left_app. reflexivity. Qed.

Lemma dval_rev : forall l, dval (rev l) = lval l.
Proof.
  induction l as [|x xs IH]; [reflexivity|].
  cbn [rev lval]. rewrite dval_app1, IH. lia.
Qed.

Lemma dval_lval : forall l, dval l = lval (rev l).
Proof. intros. rewrite <- dval_rev, rev_involutive. reflexivity. Qed.

Lemma dval_fold : forall t a,
  fold_left (fun a d => 10 * a + d) t a = a * 10 ^ Z.of_nat (length t) + dval t.
Proof.
  unfold dval. induction t as [|x xs IH]; intros a.
  - cbn [fold_left length]. change (Z.of_nat 0) with 0. rewrite Z.pow_0_r. lia.
  - cbn [fold_left length]. rewrite Nat2Z.inj_succ, Z.pow_succ_r by lia.
    rewrite (IH (10 * a + x)), (IH (10 * 0 + x)). lia.
Qed.

Lemma dval_cons : forall d t, dval (d :: t) = d * 10 ^ Z.of_nat (length t) + dval t.
Proof.
  intros. unfold dval at 1. cbn [fold_left]. rewrite dval_fold. lia.
Qed.

Lemma dval_app : forall x y, dval (x ++ y) = dval x * 10 ^ Z.of_nat (length y) + dval y.
Proof.
  intros. unfold dval at 1. rewrite fold_left_app. rewrite dval_fold. reflexivity.
Qed.

Lemma dval_nil : dval [] = 0.
Proof. reflexivity. Qed.

Lemma dval_single : forall d, dval [d] = d.
Proof. intros. unfold dval. cbn [fold_left]. lia. Qed.

Lemma pow10_pos : forall k, 0 < 10 ^ Z.of_nat k.
Proof. intros. apply Z.pow_pos_nonneg; lia. Qed.

Lemma dval_bound : forall l, Forall digit l -> 0 <= dval l < 10 ^ Z.of_nat (length l).
Proof.
  induction l as [|d t IH]; intros H.
  - cbn. lia.
  - inversion H as [|? ? Hd Ht]; subst. specialize (IH Ht). unfold digit in Hd.
    rewrite dval_cons. cbn [length]. rewrite Nat2Z.inj_succ, Z.pow_succ_r by lia.
    pose proof (pow10_pos (length t)) as HP.
    set (P := 10 ^ Z.of_nat (length t)) in *. nia.
Qed.

Lemma lval_nonneg : forall l, Forall digit l -> 0 <= lval l.
Proof.
  intros l H. rewrite <- dval_rev. apply Forall_rev in H. apply dval_bound in H. lia.
Qed.

(* ---- canonical strings ---------------------------------------------------------------- *)
Lemma canonical_0 : canonical [0].
Proof.
  split; [discriminate|]. split.
  - constructor; [unfold digit; lia|constructor].
  - intros t H. injection H as H. auto.
Qed.

Lemma canonical_lead : forall d t, Forall digit (d :: t) -> d <> 0 -> canonical (d :: t).
Proof.
  intros d t H Hd. split; [discriminate|]. split; [exact H|].
  intros t' E. injection E as E1 E2. contradiction.
Qed.

Lemma canonical_digits : forall l, canonical l -> Forall digit l.
Proof. intros l (_ & H & _). exact H. Qed.

Lemma canonical_len : forall l, canonical l -> (1 <= length l)%nat.
Proof. intros l (H & _). destruct l; [contradiction|cbn; lia]. Qed.

Lemma canon_lower : forall l, canonical l ->
  length l = 1%nat \/ 10 ^ (Z.of_nat (length l) - 1) <= dval l.
Proof.
  intros l (Hne & Hd & Hz). destruct l as [|d t]; [contradiction|].
  destruct t as [|e t']; [left; reflexivity|right].
  inversion Hd as [|? ? Hd0 Ht]; subst. unfold digit in Hd0.
  assert (d <> 0) as Hnz. { intros ->. specialize (Hz _ eq_refl). discriminate. }
  rewrite dval_cons. apply dval_bound in Ht.
  replace (Z.of_nat (length (d :: e :: t')) - 1) with (Z.of_nat (length (e :: t')))
    by (cbn [length]; lia).
  pose proof (pow10_pos (length (e :: t'))) as HP.
  set (P := 10 ^ Z.of_nat (length (e :: t'))) in *. nia.
Qed.

Lemma canonical_of_bound : forall l, Forall digit l -> l <> [] ->
  (length l = 1%nat \/ 10 ^ (Z.of_nat (length l) - 1) <= dval l) -> canonical l.
Proof.
  intros l Hd Hne Hb. split; [exact Hne|]. split; [exact Hd|].
  intros t ->. destruct Hb as [Hb|Hb].
  - cbn [length] in Hb. destruct t; [reflexivity|discriminate].
  - exfalso. inversion Hd as [|? ? _ Ht]; subst. apply dval_bound in Ht.
    rewrite dval_cons in Hb.
    replace (Z.of_nat (length (0 :: t)) - 1) with (Z.of_nat (length t)) in Hb
      by (cbn [length]; lia).
    lia.
Qed.

Lemma canonical_nonneg : forall a, canonical a -> 0 <= dval a.
Proof. intros a (_ & Hd & _). apply dval_bound in Hd. lia. Qed.

Lemma canonical_zero : forall a, canonical a -> (dval a = 0 <-> a = [0]).
Proof.
  intros a (Hne & Hd & Hz). split.
  - intros Hv. destruct a as [|d t]; [contradiction|].
    inversion Hd as [|? ? Hd0 Ht]; subst. unfold digit in Hd0.
    rewrite dval_cons in Hv. apply dval_bound in Ht.
    pose proof (pow10_pos (length t)) as HP.
    set (P := 10 ^ Z.of_nat (length t)) in *.
    assert (d = 0) by nia. subst d. rewrite (Hz t eq_refl). reflexivity.
  - intros ->. reflexivity.
Qed.

Lemma dval_inj_len : forall a b, Forall digit a -> Forall digit b -> length a = length b ->
  dval a = dval b -> a = b.
Proof.
  induction a as [|x a IH]; intros [|y b] Ha Hb Hl Hv; try discriminate; [reflexivity|].
  inversion Ha as [|? ? Hx Ha']; inversion Hb as [|? ? Hy Hb']; subst.
  cbn [length] in Hl. injection Hl as Hl.
  rewrite !dval_cons, Hl in Hv.
  pose proof (dval_bound a Ha') as Ba. pose proof (dval_bound b Hb') as Bb.
  rewrite Hl in Ba. unfold digit in Hx, Hy.
  set (P := 10 ^ Z.of_nat (length b)) in *.
  assert (x = y) by nia. subst y.
  f_equal. apply IH; auto. lia.
Qed.

Lemma canon_len_lt : forall a b, canonical a -> canonical b -> (length a < length b)%nat ->
  dval a < dval b.
Proof.
  intros a b Ha Hb Hl. pose proof (canonical_len a Ha) as La.
  destruct (canon_lower b Hb) as [Hb1|Hb1]; [lia|].
  pose proof (dval_bound a (canonical_digits a Ha)) as Ba.
  assert (10 ^ Z.of_nat (length a) <= 10 ^ (Z.of_nat (length b) - 1)).
  { apply Z.pow_le_mono_r; lia. }
  lia.
Qed.

Lemma canonical_unique : forall a b, canonical a -> canonical b -> dval a = dval b -> a = b.
Proof.
  intros a b Ha Hb Hv.
  apply dval_inj_len; auto using canonical_digits.
  destruct (lt_eq_lt_dec (length a) (length b)) as [[H|H]|H]; [|exact H|].
  - pose proof (canon_len_lt a b Ha Hb H). lia.
  - pose proof (canon_len_lt b a Hb Ha H). lia.
Qed.

(* ---- strip0 ---------------------------------------------------------------------------- *)
Lemma strip0_correct : forall l, Forall digit l ->
  canonical (strip0 l) /\ dval (strip0 l) = dval l.
Proof.
  induction l as [|d t IH]; intros H.
  - cbn [strip0]. split; [apply canonical_0|reflexivity].
  - inversion H as [|? ? Hd Ht]; subst. cbn [strip0].
    destruct (d =? 0) eqn:E.
    + assert (d = 0) by lia. subst d. destruct (IH Ht) as [IH1 IH2].
      split; [exact IH1|]. rewrite IH2, dval_cons. lia.
    + split; [|reflexivity]. apply canonical_lead; [exact H|lia].
Qed.

(* ---- addition --------------------------------------------------------------------------- *)
Lemma add_rev_val : forall ds bs c, length ds = length bs -> Forall digit ds -> Forall digit bs ->
  0 <= c <= 1 ->
  lval (add_rev ds bs c) = lval ds + lval bs + c /\ Forall digit (add_rev ds bs c)
  /\ length (add_rev ds bs c) = S (length ds).
Proof.
  induction ds as [|d ds IH]; intros [|b bs] c Hl Hd Hb Hc; cbn [add_rev lval]; try discriminate.
  - split; [lia|]. split; [|reflexivity]. constructor; [unfold digit; lia|constructor].
  - inversion Hd as [|? ? Hd0 Hds]; inversion Hb as [|? ? Hb0 Hbs]; subst.
    unfold digit in Hd0, Hb0.
    cbn [length] in Hl. injection Hl as Hl.
    destruct (d + b + c <? 10) eqn:E; cbn [lval length].
    + destruct (IH bs 0 Hl Hds Hbs ltac:(lia)) as (IHv & IHd & IHl). rewrite IHv, IHl.
      split; [lia|]. split; [|reflexivity]. constructor; [unfold digit; lia|assumption].
    + destruct (IH bs ((d+b+c)/10) Hl Hds Hbs ltac:(lia)) as (IHv & IHd & IHl). rewrite IHv, IHl.
      split; [lia|]. split; [|reflexivity]. constructor; [unfold digit; lia|assumption].
Qed.

Lemma firstn_zfill : forall n b, (1 <= n)%nat -> firstn n (zfill1 n b) = repeat 0 (n - 1) ++ [b].
Proof.
  intros n b H. unfold zfill1. apply firstn_all2.
  rewrite app_length, repeat_length. cbn [length]. lia.
Qed.

Lemma dval_repeat0 : forall k, dval (repeat 0 k) = 0.
Proof.
  induction k as [|k IH]; [reflexivity|]. cbn [repeat]. rewrite dval_cons, IH. lia.
Qed.

Lemma digits_repeat0 : forall k, Forall digit (repeat 0 k).
Proof.
  induction k as [|k IH]; cbn [repeat]; constructor; [unfold digit; lia|exact IH].
Qed.

Theorem add_correct : forall n b, canonical n -> digit b ->
  canonical (calculus_addition n b) /\ dval (calculus_addition n b) = dval n + b.
Proof.
  intros n b Hc Hb.
  pose proof (canonical_len n Hc) as Hn.
  pose proof (canonical_digits n Hc) as Hnd.
  unfold calculus_addition. cbv zeta. rewrite firstn_zfill by exact Hn.
  set (z := repeat 0 (length n - 1) ++ [b]).
  assert (Hzd : Forall digit z).
  { unfold z. apply Forall_app. split; [apply digits_repeat0|]. constructor; [exact Hb|constructor]. }
  assert (Hzl : length z = length n).
  { unfold z. rewrite app_length, repeat_length. cbn [length]. lia. }
  assert (Hzv : dval z = b).
  { unfold z. rewrite dval_app1, dval_repeat0. lia. }
  clearbody z.
  destruct (add_rev_val (rev n) (rev z) 0) as (Hv & Hd & Hl).
  { rewrite !rev_length. lia. }
  { apply Forall_rev. exact Hnd. }
  { apply Forall_rev. exact Hzd. }
  { lia. }
  rewrite <- !dval_lval, Hzv in Hv. rewrite rev_length in Hl.
  set (r := rev (add_rev (rev n) (rev z) 0)).
  assert (Hrv : dval r = dval n + b). { unfold r. rewrite dval_rev. lia. }
  assert (Hrd : Forall digit r). { unfold r. apply Forall_rev. exact Hd. }
  assert (Hrl : length r = S (length n)). { unfold r. rewrite rev_length. exact Hl. }
  clearbody r. clear Hv Hd Hl.
  destruct r as [|x t]; [discriminate|].
  cbn [length] in Hrl. injection Hrl as Hrl.
  unfold digit in Hb.
  destruct x as [|p|p].
  - rewrite dval_cons in Hrv. inversion Hrd as [|? ? _ Ht]; subst.
    split; [|lia]. apply canonical_of_bound; [exact Ht| |].
    + intros ->. cbn [length] in Hrl. lia.
    + rewrite Hrl. destruct (canon_lower n Hc) as [H1|H1]; [left; exact H1|right; lia].
  - split; [|exact Hrv]. apply canonical_lead; [exact Hrd|lia].
  - split; [|exact Hrv]. apply canonical_lead; [exact Hrd|lia].
Qed.

(* ---- multiplication ------------------------------------------------------------------- *)
Lemma mul_rev_val : forall ds b rem, Forall digit ds -> 0 <= b < 10 -> 0 <= rem < 10 ->
  forall q f, mul_rev ds b rem = (q, f) ->
  lval q + f * 10 ^ Z.of_nat (length ds) = lval ds * b + rem /\ Forall digit q
  /\ length q = length ds /\ 0 <= f < 10.
Proof.
  induction ds as [|d ds IH]; intros b rem Hd Hb Hr q f E.
  - cbn [mul_rev] in E. injection E as <- <-. cbn. split; [lia|]. split; [constructor|]. split; [reflexivity|lia].
  - inversion Hd as [|? ? Hd0 Hds]; subst. unfold digit in Hd0.
    cbn [mul_rev] in E.
    assert (0 <= d * b <= 81) as Hdb by nia.
    set (db := d * b) in *.
    destruct (10 <=? db + rem) eqn:E10.
    + destruct (mul_rev ds b ((db + rem) / 10)) as [rest final] eqn:Em.
      injection E as <- <-.
      destruct (IH b ((db + rem) / 10) Hds Hb ltac:(lia) _ _ Em) as (IHv & IHd & IHl & IHf).
      cbn [lval length]. rewrite Nat2Z.inj_succ, Z.pow_succ_r by lia.
      set (P := 10 ^ Z.of_nat (length ds)) in *.
      split; [|split; [constructor; [unfold digit; lia|exact IHd]|split; [lia|exact IHf]]].
      replace ((d + 10 * lval ds) * b) with (db + 10 * (lval ds * b)) by (unfold db; ring).
      lia.
    + destruct (mul_rev ds b 0) as [rest final] eqn:Em.
      injection E as <- <-.
      destruct (IH b 0 Hds Hb ltac:(lia) _ _ Em) as (IHv & IHd & IHl & IHf).
      cbn [lval length]. rewrite Nat2Z.inj_succ, Z.pow_succ_r by lia.
      set (P := 10 ^ Z.of_nat (length ds)) in *.
      split; [|split; [constructor; [unfold digit; lia|exact IHd]|split; [lia|exact IHf]]].
      replace ((d + 10 * lval ds) * b) with (db + 10 * (lval ds * b)) by (unfold db; ring).
      lia.
Qed.

Lemma rem_digits_small : forall r, 0 <= r < 10 ->
  rem_digits (Z.to_nat r) r [] = if r =? 0 then [] else [r].
Proof.
  intros r Hr. destruct (r =? 0) eqn:E.
  - assert (r = 0) by lia. subst. reflexivity.
  - destruct (Z.to_nat r) as [|k] eqn:Ek; [lia|].
    cbn [rem_digits]. destruct (0 <? r) eqn:E1; [|lia].
    replace (r / 10) with 0 by lia. replace (r mod 10) with r by lia.
    destruct k; cbn [rem_digits]; reflexivity.
Qed.

Theorem mul_correct : forall n b, canonical n -> digit b ->
  canonical (calculus_multiplication n b) /\ dval (calculus_multiplication n b) = dval n * b.
Proof.
  intros n b Hc Hb. unfold digit in Hb. unfold calculus_multiplication.
  destruct (b =? 0) eqn:E0.
  { assert (b = 0) by lia. subst. split; [apply canonical_0|]. rewrite dval_single. lia. }
  destruct (b =? 1) eqn:E1.
  { assert (b = 1) by lia. subst. split; [exact Hc|lia]. }
  destruct (mul_rev (rev n) b 0) as [ds rm] eqn:Em.
  pose proof (canonical_digits n Hc) as Hnd.
  pose proof (canonical_len n Hc) as Hnl.
  pose proof (canonical_nonneg n Hc) as Hn0.
  apply mul_rev_val in Em; [|apply Forall_rev; exact Hnd|lia|lia].
  destruct Em as (Hv & Hd & Hl & Hf).
  rewrite rev_length in Hv, Hl. rewrite <- dval_lval in Hv.
  rewrite rem_digits_small by exact Hf.
  assert (Hrd : Forall digit (rev ds)) by (apply Forall_rev; exact Hd).
  assert (Hrl : length (rev ds) = length n) by (rewrite rev_length; exact Hl).
  assert (Hrv : dval (rev ds) = lval ds) by apply dval_rev.
  destruct (rm =? 0) eqn:Er.
  - assert (rm = 0) by lia. subst rm. cbn [app].
    split; [|lia].
    apply canonical_of_bound; [exact Hrd| |].
    + intros H. rewrite H in Hrl. cbn [length] in Hrl. lia.
    + rewrite Hrl. destruct (canon_lower n Hc) as [H1|H1]; [left; exact H1|right].
      assert (dval n <= dval n * b) by nia. lia.
  - cbn [app]. split.
    + apply canonical_lead; [constructor; [unfold digit; lia|exact Hrd]|lia].
    + rewrite dval_cons, Hrl. lia.
Qed.

(* ---- division ---------------------------------------------------------------------------- *)
Lemma div_loop_val : forall ds b rem, Forall digit ds -> 1 <= b < 10 -> 0 <= rem < b ->
  forall q f, div_loop ds b rem = (q, f) ->
  rem * 10 ^ Z.of_nat (length ds) + dval ds = dval q * b + f /\ Forall digit q
  /\ length q = length ds /\ 0 <= f < b.
Proof.
  induction ds as [|d ds IH]; intros b rem Hd Hb Hr q f E.
  - cbn [div_loop] in E. injection E as <- <-. cbn. split; [lia|]. split; [constructor|]. split; [reflexivity|lia].
  - inversion Hd as [|? ? Hd0 Hds]; subst. unfold digit in Hd0.
    cbn [div_loop] in E.
    set (cur := d + rem * 10) in *.
    assert (0 <= cur < 10 * b) as Hcur by (unfold cur; lia).
    assert (cur = (cur / b) * b + cur mod b /\ 0 <= cur mod b < b /\ 0 <= cur / b < 10) as Hdm.
    { pose proof (Z.div_mod cur b ltac:(lia)) as H1.
      pose proof (Z.mod_pos_bound cur b ltac:(lia)) as H2.
      split; [lia|]. split; [lia|]. split.
      - apply Z.div_pos; lia.
      - apply Z.div_lt_upper_bound; lia. }
    destruct Hdm as (Hdm1 & Hdm2 & Hdm3).
    set (qd := cur / b) in *. set (md := cur mod b) in *.
    destruct (b <=? cur) eqn:Eb.
    + replace (cur - qd * b) with md in E by lia.
      destruct (div_loop ds b md) as [rest final] eqn:Em.
      injection E as <- <-.
      destruct (IH b md Hds Hb Hdm2 _ _ Em) as (IHv & IHd & IHl & IHf).
      rewrite !dval_cons, IHl. cbn [length]. rewrite Nat2Z.inj_succ, Z.pow_succ_r by lia.
      set (P := 10 ^ Z.of_nat (length ds)) in *.
      split; [|split; [constructor; [unfold digit; lia|exact IHd]|split; [lia|exact IHf]]].
      assert (HP : cur * P = (qd * b + md) * P) by (rewrite <- Hdm1; reflexivity).
      unfold cur in HP.
      replace ((qd * P + dval rest) * b) with (qd * b * P + dval rest * b) by ring.
      lia.
    + destruct (div_loop ds b cur) as [rest final] eqn:Em.
      injection E as <- <-.
      destruct (IH b cur Hds Hb ltac:(lia) _ _ Em) as (IHv & IHd & IHl & IHf).
      rewrite !dval_cons, IHl. cbn [length]. rewrite Nat2Z.inj_succ, Z.pow_succ_r by lia.
      set (P := 10 ^ Z.of_nat (length ds)) in *.
      split; [|split; [constructor; [unfold digit; lia|exact IHd]|split; [lia|exact IHf]]].
      unfold cur in IHv. lia.
Qed.

Lemma div_general : forall n b, canonical n -> 2 <= b < 10 ->
  forall q r, div_loop n b 0 = (q, r) ->
  canonical (strip0 q) /\ dval (strip0 q) = dval n / b /\ r = dval n mod b.
Proof.
  intros n b Hc Hb q r E.
  apply div_loop_val in E; [|apply canonical_digits; exact Hc|lia|lia].
  destruct E as (Hv & Hd & Hl & Hf).
  destruct (strip0_correct q Hd) as (S1 & S2).
  split; [exact S1|]. rewrite S2.
  split.
  - apply Z.div_unique with (r := r); [lia|lia].
  - apply Z.mod_unique with (q := dval q); [lia|lia].
Qed.

Theorem div_correct : forall n b, canonical n -> 1 <= b < 10 ->
  canonical (fst (calculus_division n b)) /\ dval (fst (calculus_division n b)) = dval n / b
  /\ snd (calculus_division n b) = dval n mod b.
Proof.
  intros n b Hc Hb. unfold calculus_division.
  destruct (b =? 0) eqn:E0; [lia|].
  destruct (b =? 1) eqn:E1.
  { assert (b = 1) by lia. subst. cbn [fst snd]. split; [exact Hc|]. split; lia. }
  assert (Hg : forall q r, div_loop n b 0 = (q, r) ->
    canonical (strip0 q) /\ dval (strip0 q) = dval n / b /\ r = dval n mod b).
  { apply div_general; [exact Hc|lia]. }
  destruct n as [|d [|d' t]].
  - destruct (div_loop [] b 0) as [q r] eqn:Em. cbn [fst snd]. apply Hg. reflexivity.
  - destruct (d <? b) eqn:Ed.
    + cbn [fst snd]. split; [apply canonical_0|].
      pose proof (canonical_digits _ Hc) as Hd. inversion Hd as [|? ? Hd0 _]; subst.
      unfold digit in Hd0. rewrite !dval_single.
      rewrite Z.div_small by lia. rewrite Z.mod_small by lia. split; reflexivity.
    + destruct (div_loop [d] b 0) as [q r] eqn:Em. cbn [fst snd]. apply Hg. reflexivity.
  - destruct (div_loop (d :: d' :: t) b 0) as [q r] eqn:Em. cbn [fst snd]. apply Hg. reflexivity.
Qed.

Theorem div_zero_documented : forall n, calculus_division n 0 = ([0], 0).
Proof. intros. reflexivity. Qed.

(* ---- subtraction ------------------------------------------------------------------------ *)
Lemma borrow_val : forall t, Forall digit t -> 1 <= lval t ->
  lval (borrow t) = lval t - 1 /\ Forall digit (borrow t).
Proof.
  induction t as [|d t IH]; intros Hd Hv.
  - cbn [lval] in Hv. lia.
  - inversion Hd as [|? ? Hd0 Ht]; subst. unfold digit in Hd0.
    cbn [borrow]. cbn [lval] in Hv.
    destruct (d =? 0) eqn:E.
    + destruct (IH Ht ltac:(lia)) as (IHv & IHd).
      cbn [lval]. rewrite IHv. split; [lia|]. constructor; [unfold digit; lia|exact IHd].
    + cbn [lval]. split; [lia|]. constructor; [unfold digit; lia|exact Ht].
Qed.

Theorem sub_correct : forall n b, canonical n -> digit b -> b <= dval n ->
  canonical (calculus_subtraction n b) /\ dval (calculus_subtraction n b) = dval n - b.
Proof.
  intros n b Hc Hb Hle. unfold digit in Hb.
  pose proof (canonical_digits n Hc) as Hnd. apply Forall_rev in Hnd.
  pose proof (dval_lval n) as Hdv. unfold calculus_subtraction.
  destruct (rev n) as [|d t] eqn:Er.
  - rewrite Hdv in Hle |- *. cbn [lval] in *. split; [apply canonical_0|]. rewrite dval_single. lia.
  - rewrite Hdv in Hle |- *. clear Hdv.
    inversion Hnd as [|? ? Hd0 Ht]; subst. unfold digit in Hd0.
    pose proof (lval_nonneg t Ht) as Ht0. cbn [lval] in Hle.
    assert (Hgoal : forall le, Forall digit le -> lval le = lval (d :: t) - b ->
      canonical (strip0 (rev le)) /\ dval (strip0 (rev le)) = lval (d :: t) - b).
    { intros le Hld Hlv. apply Forall_rev in Hld.
      destruct (strip0_correct _ Hld) as (S1 & S2). split; [exact S1|].
      rewrite S2, dval_rev. exact Hlv. }
    destruct (b <=? d) eqn:E.
    + apply Hgoal.
      * constructor; [unfold digit; lia|exact Ht].
      * cbn [lval]. lia.
    + destruct (borrow_val t Ht ltac:(lia)) as (Bv & Bd).
      apply Hgoal.
      * constructor; [unfold digit; lia|exact Bd].
      * cbn [lval]. rewrite Bv. lia.
Qed.

Print Assumptions canonical_unique.
Print Assumptions canonical_nonneg.
Print Assumptions canonical_zero.
Print Assumptions add_correct.
Print Assumptions mul_correct.
Print Assumptions div_correct.
Print Assumptions div_zero_documented.
Print Assumptions sub_correct.
