(* LegalProofs.v -- C13, last sentence: every graph the library builds or converts holds in column j either -1 or the
   j-th shift successor (legality), for the builders not already covered in GraphProofs / ReprProofs / ScoreProofs. *)
From Coq Require Import Lia ZifyBool.
From DSW Require Import Py Bignum Convert Kmer Graph Score Spec GraphSpec.
From DSW.Proofs Require Import KmerProofs GraphProofs ReprProofs GenerateProofs ScoreProofs.
Ltac Zify.zify_post_hook ::= Z.to_euclidean_division_equations.

(* a latter map of the order-k de Bruijn graph: keys are vertices, listed successors are shift successors of their key *)
Definition de_bruijn_lmap (k : nat) (m : lmap) : Prop :=
  Forall (fun kv => 0 <= fst kv < pow4 k /\ Forall (fun l => In l (obtain_latters (fst kv) k)) (snd kv)) m.

(* TARGET STATEMENTS: matrix_to_accessor_legal, latter_map_to_accessor_legal, coding_graph_legal, arc_removal_legal --
   all proved below exactly as stated. *)

(* ---- legality from row-wise goodness ---------------------------------------------------------- *)
Lemma good_rows_legal : forall k acc, length acc = Z.to_nat (pow4 k) ->
  (forall v, 0 <= v < pow4 k -> ReprProofs.good_row k v (get_row acc v)) -> legal k acc.
Proof.
  intros k acc Hlen Hg. pose proof (pow4_pos k) as Hp. split; [exact Hlen|]. split.
  - unfold rows4. rewrite Forall_forall. intros r Hr.
    destruct (In_nth acc r empty_row Hr) as [i [Hi Hn]].
    destruct (Hg (Z.of_nat i) ltac:(lia)) as [a [b [c [d [E _]]]]].
    unfold get_row in E. rewrite Nat2Z.id, Hn in E. rewrite E. reflexivity.
  - intros v j Hv Hj. destruct (Hg v Hv) as [a [b [c [d [E [Ha [Hb [Hc Hd]]]]]]]].
    unfold entry. rewrite E.
    assert (Hc4 : j = 0 \/ j = 1 \/ j = 2 \/ j = 3) by lia.
    destruct Hc4 as [H|[H|[H|H]]]; subst j.
    + change (Z.to_nat 0) with 0%nat. cbn [nth]. exact Ha.
    + change (Z.to_nat 1) with 1%nat. cbn [nth]. exact Hb.
    + change (Z.to_nat 2) with 2%nat. cbn [nth]. exact Hc.
    + change (Z.to_nat 3) with 3%nat. cbn [nth]. exact Hd.
Qed.

(* ---- matrix -> accessor ------------------------------------------------------------------------ *)
Lemma masked_latters_good : forall k v next,
  ReprProofs.good_row k v (map (fun x => if memZ x next then x else -1) (obtain_latters v k)).
Proof.
  intros k v next. unfold obtain_latters. cbn [map].
  replace (v * 4 + 0) with (4 * v + 0) by lia. replace (v * 4 + 1) with (4 * v + 1) by lia.
  replace (v * 4 + 2) with (4 * v + 2) by lia. replace (v * 4 + 3) with (4 * v + 3) by lia.
  do 4 eexists. split; [reflexivity|].
  repeat split.
  - destruct (memZ ((4 * v + 0) mod pow4 k) next); [right|left]; reflexivity.
  - destruct (memZ ((4 * v + 1) mod pow4 k) next); [right|left]; reflexivity.
  - destruct (memZ ((4 * v + 2) mod pow4 k) next); [right|left]; reflexivity.
  - destruct (memZ ((4 * v + 3) mod pow4 k) next); [right|left]; reflexivity.
Qed.

Lemma matrix_rows_good : forall k rows s acc, matrix_rows rows s k = Ok acc ->
  length acc = length rows /\
  forall i, (i < length rows)%nat -> ReprProofs.good_row k (s + Z.of_nat i) (nth i acc empty_row).
Proof.
  intros k. induction rows as [|r t IH]; intros s acc H; cbn [matrix_rows] in H.
  - inversion H; subst. split; [reflexivity|]. intros i Hi. cbn [length] in Hi. lia.
  - destruct (forallb (fun x => memZ x (obtain_latters s k)) (ones_from r 0)); [|discriminate H].
    destruct (matrix_rows t (s + 1) k) as [rest| |] eqn:ER; cbn [bind] in H; try discriminate H.
    inversion H; subst. destruct (IH (s + 1) rest ER) as [Hlen Hrows].
    split; [cbn [length]; rewrite Hlen; reflexivity|].
    intros i Hi. cbn [length] in Hi. destruct i as [|i]; cbn [nth].
    + replace (s + Z.of_nat 0) with s by lia. apply masked_latters_good.
    + replace (s + Z.of_nat (S i)) with (s + 1 + Z.of_nat i) by lia. apply Hrows. lia.
Qed.

Theorem matrix_to_accessor_legal : forall k M acc, (1 <= k)%nat -> length M = Z.to_nat (pow4 k) ->
  adjacency_matrix_to_accessor M = Ok acc -> legal k acc.
Proof.
  intros k M acc Hk Hlen H. pose proof (pow4_pos k) as Hp.
  unfold adjacency_matrix_to_accessor in H.
  rewrite Hlen, Z2Nat.id, log4_pow4 in H by lia.
  destruct (matrix_rows_good k M 0 acc H) as [Hl Hrows].
  apply good_rows_legal; [congruence|].
  intros v Hv. specialize (Hrows (Z.to_nat v) ltac:(lia)).
  rewrite Z2Nat.id in Hrows by lia. replace (0 + v) with v in Hrows by lia. exact Hrows.
Qed.

(* ---- latter map -> accessor -------------------------------------------------------------------- *)
Lemma blank_legal : forall k, legal k (blank_accessor k).
Proof.
  intros k. unfold blank_accessor. split; [apply repeat_length|]. split.
  - unfold rows4. rewrite Forall_forall. intros r Hr. apply repeat_spec in Hr. subst r. reflexivity.
  - intros v j Hv Hj. left. unfold entry, get_row. rewrite nth_repeat. apply nth_empty_row.
Qed.

Lemma In_latters : forall k v l, (1 <= k)%nat -> 0 <= v < pow4 k -> In l (obtain_latters v k) ->
  exists j, 0 <= j < 4 /\ l = (4 * v + j) mod pow4 k /\ l mod 4 = j.
Proof.
  intros k v l Hk Hv Hin. unfold obtain_latters in Hin. cbn [map In] in Hin.
  assert (Hgen : forall j, 0 <= j < 4 -> (v * 4 + j) mod pow4 k = l ->
            exists j, 0 <= j < 4 /\ l = (4 * v + j) mod pow4 k /\ l mod 4 = j).
  { intros j Hj H. destruct (latter_column k v j Hk Hv Hj) as [_ C]. exists j. split; [exact Hj|].
    assert (El : l = (4 * v + j) mod pow4 k) by (rewrite <- H; f_equal; lia).
    split; [exact El|]. rewrite El. exact C. }
  destruct Hin as [H|[H|[H|[H|[]]]]].
  - apply (Hgen 0); [lia|exact H].
  - apply (Hgen 1); [lia|exact H].
  - apply (Hgen 2); [lia|exact H].
  - apply (Hgen 3); [lia|exact H].
Qed.

Lemma put_arc_legal : forall k acc f l acc', (1 <= k)%nat -> legal k acc -> 0 <= f < pow4 k ->
  In l (obtain_latters f k) -> put_arc acc f l = Ok acc' -> legal k acc'.
Proof.
  intros k acc f l acc' Hk HL Hf Hin H. pose proof (legal_len k acc HL) as Hlen.
  unfold put_arc in H. rewrite Hlen in H.
  replace (f <? 0) with false in H by lia. replace (f <? 0) with false in H by lia.
  replace (pow4 k <=? f) with false in H by lia. cbn [orb] in H. inversion H; subst acc'. clear H.
  destruct (In_latters k f l Hk Hf Hin) as [j [Hj [El Ej]]].
  rewrite Ej. unfold set_entry.
  pose proof (legal_row_length k acc f HL Hf) as H4.
  apply legal_set_row; [exact HL | exact Hf | |].
  - rewrite set_nth_length. exact H4.
  - intros j' Hj'. destruct (j' =? j) eqn:E.
    + assert (j' = j) by lia. subst j'. right. rewrite nth_set_nth_eq by lia. unfold lat. exact El.
    + rewrite nth_set_nth_neq by lia. apply (legal_entry k acc f j' HL Hf Hj').
Qed.

Lemma put_arcs_legal : forall k f ls acc acc', (1 <= k)%nat -> legal k acc -> 0 <= f < pow4 k ->
  Forall (fun l => In l (obtain_latters f k)) ls -> put_arcs acc f ls = Ok acc' -> legal k acc'.
Proof.
  intros k f. induction ls as [|l t IH]; intros acc acc' Hk HL Hf HF H; cbn [put_arcs] in H.
  - inversion H; subst. exact HL.
  - inversion HF as [|? ? Hl Ht]; subst.
    destruct (put_arc acc f l) as [a| |] eqn:EA; cbn [bind] in H; try discriminate H.
    apply (IH a acc' Hk); try assumption. apply (put_arc_legal k acc f l a); assumption.
Qed.

Lemma put_map_legal : forall k m acc acc', (1 <= k)%nat -> legal k acc -> de_bruijn_lmap k m ->
  put_map acc m = Ok acc' -> legal k acc'.
Proof.
  intros k. induction m as [|[f ls] t IH]; intros acc acc' Hk HL HM H; cbn [put_map] in H.
  - inversion H; subst. exact HL.
  - unfold de_bruijn_lmap in HM. inversion HM as [|? ? Hkv Ht]; subst. cbn [fst snd] in Hkv.
    destruct Hkv as [Hf Hls].
    destruct (put_arcs acc f ls) as [a| |] eqn:EA; cbn [bind] in H; try discriminate H.
    apply (IH a acc' Hk); try assumption. apply (put_arcs_legal k f ls acc a); assumption.
Qed.

Theorem latter_map_to_accessor_legal : forall k m acc, (1 <= k)%nat -> de_bruijn_lmap k m ->
  latter_map_to_accessor m k None = Ok acc -> legal k acc.
Proof.
  intros k m acc Hk HM H. unfold latter_map_to_accessor in H. cbn [bind] in H.
  apply (put_map_legal k m (blank_accessor k) acc Hk (blank_legal k) HM H).
Qed.

(* ---- graph generation and arc removal ------------------------------------------------------------ *)
Theorem coding_graph_legal : forall k t mask V acc, (1 <= k)%nat -> length mask = Z.to_nat (pow4 k) -> Forall bit mask ->
  1 <= t -> connect_coding_graph k mask t = Ok (V, acc) -> legal k acc.
Proof.
  intros k t mask V acc Hk Hlen Hb Ht H.
  destruct (Z.eq_dec t 1) as [->|Hne].
  - pose proof (coding_graph_t1 k mask Hk Hlen Hb) as HT. rewrite H in HT.
    destruct HT as [_ [_ [HL _]]]. exact HL.
  - pose proof (coding_graph_t2 k t mask Hk Hlen Hb ltac:(lia)) as HT. rewrite H in HT.
    destruct HT as [_ [_ [HL _]]]. exact HL.
Qed.

Theorem arc_removal_legal : forall k acc ins del acc' m' arc scs, (1 <= k)%nat -> legal k acc ->
  remove_nasty_arc acc (accessor_to_latter_map acc) ins del = Ok (acc', m', arc, scs) -> legal k acc'.
Proof.
  intros k acc ins del acc' m' [u v] scs Hk HL H.
  destruct (remove_step k acc ins del acc' m' u v scs Hk HL H) as [HL' _]. exact HL'.
Qed.

Print Assumptions matrix_to_accessor_legal.
Print Assumptions latter_map_to_accessor_legal.
Print Assumptions coding_graph_legal.
Print Assumptions arc_removal_legal.
