(* RepairProofs.v -- C10 (repair always returns, with a polynomial number of graph look-ups) and
   C09 (clean strands are left alone; the candidate list is sorted, duplicate-free and
   check-consistent). *)
From Coq Require Import Lia ZifyBool Sorting.Sorted.
From DSW Require Import Py Bignum Convert Kmer Graph Coder Repair Spec GraphSpec CoderSpec RepairSpec.
From DSW.Proofs Require Import KmerProofs VTProofs ShuffleProofs ConvertProofs WalkProofs.
Ltac Zify.zify_post_hook ::= Z.to_euclidean_division_equations.

(* All TARGET STATEMENTS (check_okb_spec, lexlt_irrefl, lexlt_trans, lexlt_total, sort_dedup_sorted,
   repair_total, repair_clean, repair_output_shape) are proved below, exactly as stated. *)

(* ------------------------------------------------------------------------------------------ *)
(* check_okb                                                                                    *)
(* ------------------------------------------------------------------------------------------ *)
Lemma rp_eqb_refl : forall a, listZ_eqb a a = true.
Proof.
  induction a as [|x a IH]; [reflexivity|]. cbn [listZ_eqb]. rewrite Z.eqb_refl, IH. reflexivity.
Qed.

Theorem check_okb_spec : forall vt s, check_okb vt s = true <-> check_ok vt s.
Proof.
  intros [chk|] s; unfold check_okb, check_ok.
  - destruct (set_vt s (Z.of_nat (length chk))) as [c|e|].
    + split; intros H.
      * f_equal. apply listZ_eqb_true. exact H.
      * injection H as ->. apply rp_eqb_refl.
    + split; discriminate.
    + split; discriminate.
  - split; auto.
Qed.

(* ------------------------------------------------------------------------------------------ *)
(* lexicographic order                                                                          *)
(* ------------------------------------------------------------------------------------------ *)
Lemma lexltb_irrefl : forall a, lexltb a a = false.
Proof.
  induction a as [|x a IH]; cbn [lexltb]; [reflexivity|]. rewrite Z.ltb_irrefl. exact IH.
Qed.

Theorem lexlt_irrefl : forall a, ~ lexlt a a.
Proof. intros a. unfold lexlt. rewrite lexltb_irrefl. discriminate. Qed.

Theorem lexlt_trans : forall a b c, lexlt a b -> lexlt b c -> lexlt a c.
Proof.
  unfold lexlt. induction a as [|x a IH]; intros [|y b] [|z c] H1 H2; cbn [lexltb] in *;
    try discriminate; try reflexivity.
  destruct (x <? y) eqn:E1.
  - destruct (y <? z) eqn:E2.
    + replace (x <? z) with true by lia. reflexivity.
    + destruct (z <? y) eqn:E3; [discriminate|]. replace (x <? z) with true by lia. reflexivity.
  - destruct (y <? x) eqn:E2; [discriminate|].
    destruct (y <? z) eqn:E3.
    + replace (x <? z) with true by lia. reflexivity.
    + destruct (z <? y) eqn:E4; [discriminate|].
      replace (x <? z) with false by lia. replace (z <? x) with false by lia.
      eapply IH; eassumption.
Qed.

Theorem lexlt_total : forall a b, lexlt a b \/ a = b \/ lexlt b a.
Proof.
  unfold lexlt. induction a as [|x a IH]; intros [|y b]; cbn [lexltb].
  - right; left; reflexivity.
  - left; reflexivity.
  - right; right; reflexivity.
  - destruct (x <? y) eqn:E1; [left; reflexivity|].
    destruct (y <? x) eqn:E2; [right; right; reflexivity|].
    assert (Hxy : x = y) by lia. subst y.
    destruct (IH b) as [H|[H|H]].
    + left; exact H.
    + right; left; f_equal; exact H.
    + right; right; exact H.
Qed.

(* ------------------------------------------------------------------------------------------ *)
(* sort_dedup                                                                                   *)
(* ------------------------------------------------------------------------------------------ *)
Lemma insert_str_in : forall s l x, In x (insert_str s l) <-> x = s \/ In x l.
Proof.
  intros s. induction l as [|h t IH]; intros x; cbn [insert_str In].
  - split; [intros [H|[]]; left; auto|intros [H|[]]; left; auto].
  - destruct (lexltb s h) eqn:E1.
    + cbn [In]. split; [intros [H|H]; [left; auto|right; exact H]|intros [H|H]; [left; auto|right; exact H]].
    + destruct (listZ_eqb s h) eqn:E2.
      * apply listZ_eqb_true in E2. subst h. cbn [In]. split; [intros H; right; exact H|].
        intros [H|H]; [left; auto|exact H].
      * cbn [In]. rewrite IH. split.
        -- intros [H|[H|H]]; [right; left; exact H|left; exact H|right; right; exact H].
        -- intros [H|[H|H]]; [right; left; exact H|left; exact H|right; right; exact H].
Qed.

Lemma insert_str_sorted : forall s l, StronglySorted lexlt l -> StronglySorted lexlt (insert_str s l).
Proof.
  intros s. induction l as [|h t IH]; intros Hs; cbn [insert_str].
  - constructor; [constructor|constructor].
  - inversion Hs as [|? ? Hst Hall]; subst.
    destruct (lexltb s h) eqn:E1.
    + constructor; [exact Hs|]. constructor; [exact E1|].
      rewrite Forall_forall in Hall |- *. intros y Hy. eapply lexlt_trans; [exact E1|apply Hall; exact Hy].
    + destruct (listZ_eqb s h) eqn:E2; [exact Hs|].
      constructor; [apply IH; exact Hst|].
      rewrite Forall_forall in Hall |- *. intros y Hy. apply insert_str_in in Hy.
      destruct Hy as [->|Hy]; [|apply Hall; exact Hy].
      destruct (lexlt_total s h) as [H|[H|H]].
      * unfold lexlt in H. congruence.
      * subst h. rewrite rp_eqb_refl in E2. discriminate.
      * exact H.
Qed.

Lemma sort_dedup_gen : forall l acc, StronglySorted lexlt acc ->
  StronglySorted lexlt (fold_left (fun acc s => insert_str s acc) l acc) /\
  (forall x, In x (fold_left (fun acc s => insert_str s acc) l acc) <-> In x acc \/ In x l).
Proof.
  induction l as [|s l IH]; intros acc Hs; cbn [fold_left].
  - split; [exact Hs|]. intros x. cbn [In]. tauto.
  - destruct (IH (insert_str s acc) (insert_str_sorted s acc Hs)) as [H1 H2].
    split; [exact H1|]. intros x. rewrite H2, insert_str_in. cbn [In]. intuition congruence.
Qed.

Theorem sort_dedup_sorted : forall l, StronglySorted lexlt (sort_dedup l) /\ (forall x, In x (sort_dedup l) <-> In x l).
Proof.
  intros l. unfold sort_dedup. destruct (sort_dedup_gen l [] ltac:(constructor)) as [H1 H2].
  split; [exact H1|]. intros x. rewrite H2. cbn [In]. tauto.
Qed.

(* ------------------------------------------------------------------------------------------ *)
(* the check filter                                                                             *)
(* ------------------------------------------------------------------------------------------ *)
Lemma check_matches_okb : forall vt c b, check_matches vt c = Ok b -> check_okb vt c = b.
Proof.
  intros [chk|] c b; unfold check_matches, check_okb.
  - destruct (set_vt c (Z.of_nat (length chk))) as [x|e|]; cbn [bind]; intros H; try discriminate.
    injection H as <-. reflexivity.
  - intros H. injection H as <-. reflexivity.
Qed.

Lemma filter_checked_spec : forall vt l r, filter_checked vt l = Ok r ->
  forall c, In c (fst r) -> check_okb vt c = true.
Proof.
  intros vt. induction l as [|a l IH]; intros r H c Hin; cbn [filter_checked] in H.
  - injection H as <-. destruct Hin.
  - destruct (check_matches vt a) as [ok|e|] eqn:E; cbn [bind] in H; try discriminate.
    destruct (filter_checked vt l) as [r'|e|] eqn:E2; cbn [bind] in H; try discriminate.
    injection H as <-. destruct ok; cbn [fst] in Hin.
    + destruct Hin as [<-|Hin]; [apply check_matches_okb in E; exact E|].
      eapply IH; [reflexivity|exact Hin].
    + eapply IH; [reflexivity|exact Hin].
Qed.

(* ---- C09: whenever repair returns, the candidates are sorted, duplicate-free and check-consistent --------- *)
Theorem repair_output_shape : forall s acc v0 k vt indel heap cands st,
  repair_dna s acc v0 k vt indel heap = Ok (cands, st) ->
  StronglySorted lexlt cands /\ (forall c, In c cands -> check_okb vt c = true).
Proof.
  intros s acc v0 k vt indel heap cands st H. unfold repair_dna in H.
  destruct (scan_loop _ _ _ _ _ _ _ _ _) as [sc|e|]; cbn [bind] in H; try discriminate.
  destruct (all_fragments _ _ _ _ _ _ _) as [fr|e|]; cbn [bind] in H; try discriminate.
  cbv zeta in H.
  destruct (_ || _).
  - destruct vt as [chk|].
    + destruct (check_matches (Some chk) s) as [ok|e|] eqn:E; cbn [bind] in H; try discriminate.
      destruct ok; injection H as <- <-.
      * split; [constructor; constructor|]. intros c [<-|[]]. apply check_matches_okb in E. exact E.
      * split; [constructor|]. intros c [].
    + injection H as <- <-. split; [constructor; constructor|]. intros c [<-|[]]. reflexivity.
  - destruct (filter_checked _ _) as [r|e|] eqn:E; cbn [bind] in H; try discriminate.
    injection H as <- <-. destruct (sort_dedup_sorted (fst r)) as [H1 H2].
    split; [exact H1|]. intros c Hc. apply H2 in Hc. eapply filter_checked_spec; eassumption.
Qed.

(* ------------------------------------------------------------------------------------------ *)
(* basic facts about the model functions                                                        *)
(* ------------------------------------------------------------------------------------------ *)
Lemma rp_memZ_iff : forall x l, memZ x l = true <-> In x l.
Proof.
  intros x. induction l as [|y t IH]; cbn [memZ In]; [split; [discriminate|intros []]|].
  rewrite Bool.orb_true_iff, IH. split; (intros [H|H]; [left; lia|right; exact H]).
Qed.

Lemma scan_loop_done : forall fuel s acc k loc v iq cur st, Z.of_nat (length s) <= loc ->
  scan_loop fuel s acc k loc v iq cur st =
  Ok {| sc_splits := cur :: sc_splits st; sc_chunks := sc_chunks st; sc_markers := sc_markers st;
        sc_detected := sc_detected st; sc_visited := sc_visited st |}.
Proof.
  intros fuel s acc k loc v iq cur st H.
  destruct fuel; cbn [scan_loop]; destruct (Z.of_nat (length s) <=? loc) eqn:E; try lia; reflexivity.
Qed.

Lemma scan_loop_step : forall f s acc k loc v iq cur st, loc < Z.of_nat (length s) ->
  scan_loop (S f) s acc k loc v iq cur st =
  (c <- py_get s loc ;;
   o <- step_arc acc v c ;;
   match o with
   | Some nxt =>
       scan_loop f s acc k (loc + 1) nxt (set_nth iq (Z.to_nat loc) nxt) (cur ++ [c])
                 {| sc_splits := sc_splits st; sc_chunks := sc_chunks st; sc_markers := sc_markers st;
                    sc_detected := sc_detected st; sc_visited := sc_visited st + 1 |}
   | None =>
       v' <- dna_to_number_int (py_slice s (loc + 1) (loc + k + 1)) ;;
       scan_loop f s acc k (loc + k + 1) v' iq [nuc_char (v' mod 4)]
                 {| sc_splits := py_slice_to cur (Z.of_nat (length cur) - k + 1) :: sc_splits st;
                    sc_chunks := sc_chunks st ++ [py_slice s (loc - k + 1) (loc + k)];
                    sc_markers := sc_markers st ++ [py_slice iq (loc - k) loc];
                    sc_detected := sc_detected st + 1; sc_visited := sc_visited st |}
   end).
Proof.
  intros f s acc k loc v iq cur st H. cbn [scan_loop].
  destruct (Z.of_nat (length s) <=? loc) eqn:E; [lia|reflexivity].
Qed.

Lemma py_get_mid : forall {A} (pre : list A) c t, py_get (pre ++ c :: t) (Z.of_nat (length pre)) = Ok c.
Proof.
  intros A pre c t. rewrite (py_get_ok _ _ c).
  - rewrite Nat2Z.id, app_nth2, Nat.sub_diag by lia. reflexivity.
  - rewrite app_length. cbn [length]. lia.
Qed.

Lemma step_arc_walk : forall acc v c j, shaped acc -> in_range acc v -> nuc_index c = Some j ->
  0 <= entry acc v j -> step_arc acc v c = Ok (Some (entry acc v j)).
Proof.
  intros acc v c j Hs Hv Hn He. unfold step_arc. rewrite (py_get_row acc v Hv). cbn [bind]. rewrite Hn.
  destruct (VTProofs.nuc_index_some c j Hn) as (Hj & _). unfold nuc in Hj.
  assert (Hin : In j (used_indices (get_row acc v))) by (apply used_in_iff; auto).
  apply rp_memZ_iff in Hin. rewrite Hin. rewrite (py_get_entry acc v j Hs Hv Hj). reflexivity.
Qed.

Lemma is_walk_acgt : forall acc s v, is_walk acc v s -> acgt s.
Proof.
  intros acc. induction s as [|c t IH]; intros v Hw; [constructor|].
  destruct Hw as (j & Hn & _ & _ & Hw). constructor; [|eapply IH; exact Hw].
  apply (VTProofs.nuc_index_some c j Hn).
Qed.

Lemma check_matches_total : forall vt c, acgt c -> check_matches vt c = Ok (check_okb vt c).
Proof.
  intros [chk|] c Ha; unfold check_matches, check_okb; [|reflexivity].
  assert (Hx : exists x, set_vt c (Z.of_nat (length chk)) = Ok x).
  { destruct (Z.eq_dec (Z.of_nat (length chk)) 0) as [Hz|Hz].
    - rewrite Hz. unfold set_vt. destruct (VTProofs.nuc_values_acgt c Ha) as (vs & E & _).
      rewrite E. cbn [bind]. change (0 =? 0) with true. cbv iota. eexists; reflexivity.
    - apply set_vt_total; [exact Ha|lia]. }
  destruct Hx as [x E]. rewrite E. reflexivity.
Qed.

(* ------------------------------------------------------------------------------------------ *)
(* C09: clean strands                                                                           *)
(* ------------------------------------------------------------------------------------------ *)
Lemma scan_walk : forall acc k, shaped acc -> forall t fuel pre v iq cur st,
  in_range acc v -> is_walk acc v t -> (length t <= fuel)%nat ->
  scan_loop fuel (pre ++ t) acc k (Z.of_nat (length pre)) v iq cur st =
  Ok {| sc_splits := (cur ++ t) :: sc_splits st; sc_chunks := sc_chunks st; sc_markers := sc_markers st;
        sc_detected := sc_detected st; sc_visited := sc_visited st + Z.of_nat (length t) |}.
Proof.
  intros acc k Hs. induction t as [|c t IH]; intros fuel pre v iq cur st Hv Hw Hf.
  - rewrite scan_loop_done by (rewrite app_nil_r; lia). rewrite app_nil_r. cbn [length].
    change (Z.of_nat 0) with 0. rewrite Z.add_0_r. reflexivity.
  - destruct fuel as [|f]; [cbn [length] in Hf; lia|].
    rewrite scan_loop_step by (rewrite app_length; cbn [length]; lia).
    rewrite py_get_mid. cbn [bind]. destruct Hw as (j & Hn & _ & He & Hw).
    rewrite (step_arc_walk acc v c j Hs Hv Hn He). cbn [bind].
    destruct (VTProofs.nuc_index_some c j Hn) as (Hj & _). unfold nuc in Hj.
    pose proof (entry_in_range acc v j Hs Hv Hj He) as Hv'.
    replace (pre ++ c :: t) with ((pre ++ [c]) ++ t) by (rewrite <- app_assoc; reflexivity).
    replace (Z.of_nat (length pre) + 1) with (Z.of_nat (length (pre ++ [c])))
      by (rewrite app_length; cbn [length]; lia).
    rewrite IH; [|exact Hv'|exact Hw|cbn [length] in Hf; lia].
    cbn [sc_splits sc_chunks sc_markers sc_detected sc_visited].
    f_equal. f_equal; [rewrite <- app_assoc; reflexivity|cbn [length]; lia].
Qed.

Theorem repair_clean : forall s acc v0 k vt indel heap, shaped acc -> in_range acc v0 -> is_walk acc v0 s ->
  exists flag count visited,
    repair_dna s acc v0 k vt indel heap = Ok ((if check_okb vt s then [s] else []), (0, flag, count, visited)).
Proof.
  intros s acc v0 k vt indel heap Hs Hv Hw.
  pose proof (is_walk_acgt acc s v0 Hw) as Ha.
  unfold repair_dna.
  pose proof (scan_walk acc k Hs s (S (length s)) [] v0 (repeat (-1) (length s)) []
                {| sc_splits := []; sc_chunks := []; sc_markers := []; sc_detected := 0; sc_visited := 0 |}
                Hv Hw ltac:(lia)) as E.
  cbn [app length sc_splits sc_chunks sc_markers sc_detected sc_visited] in E.
  change (Z.of_nat 0) with 0 in E. rewrite E. clear E.
  cbn [bind sc_splits sc_chunks sc_markers sc_detected sc_visited all_fragments fst snd fold_left rev app recombine].
  destruct ((1 =? 0) || (heap <? 1)).
  - destruct vt as [chk|].
    + rewrite (check_matches_total (Some chk) s Ha). cbn [bind].
      destruct (check_okb (Some chk) s); do 3 eexists; reflexivity.
    + cbn [check_okb]. do 3 eexists; reflexivity.
  - cbn [filter_checked]. rewrite (check_matches_total vt s Ha). cbn [bind fst snd].
    destruct (check_okb vt s); cbn [fst snd]; do 3 eexists; reflexivity.
Qed.

(* ------------------------------------------------------------------------------------------ *)
(* slices                                                                                       *)
(* ------------------------------------------------------------------------------------------ *)
Lemma rp_Forall_firstn : forall {A} (P : A -> Prop) n l, Forall P l -> Forall P (firstn n l).
Proof.
  intros A P. induction n as [|n IH]; intros l H; [constructor|].
  destruct l as [|x l]; [constructor|]. inversion H; subst. cbn [firstn]. constructor; [assumption|].
  apply IH. assumption.
Qed.

Lemma rp_Forall_skipn : forall {A} (P : A -> Prop) n l, Forall P l -> Forall P (skipn n l).
Proof.
  intros A P. induction n as [|n IH]; intros l H; [exact H|].
  destruct l as [|x l]; [constructor|]. inversion H; subst. cbn [skipn]. apply IH. assumption.
Qed.

Lemma Forall_py_slice : forall {A} (P : A -> Prop) l lo hi, Forall P l -> Forall P (py_slice l lo hi).
Proof.
  intros A P l lo hi H. unfold py_slice. cbv zeta.
  destruct (_ <=? _); [constructor|]. apply rp_Forall_firstn. apply rp_Forall_skipn. exact H.
Qed.

Lemma clampZ_range : forall n i, 0 <= n -> 0 <= clampZ n i <= n.
Proof.
  intros n i Hn. unfold clampZ. cbv zeta.
  destruct (i <? 0) eqn:E1.
  - destruct (i + n <? 0) eqn:E2; [lia|]. destruct (n <? i + n) eqn:E3; lia.
  - destruct (i <? 0) eqn:E2; [lia|]. destruct (n <? i) eqn:E3; lia.
Qed.

Lemma py_slice_length : forall {A} (l : list A) lo hi,
  Z.of_nat (length (py_slice l lo hi)) =
  Z.max 0 (clampZ (Z.of_nat (length l)) hi - clampZ (Z.of_nat (length l)) lo).
Proof.
  intros A l lo hi. unfold py_slice. cbv zeta.
  pose proof (clampZ_range (Z.of_nat (length l)) lo ltac:(lia)) as Ha.
  pose proof (clampZ_range (Z.of_nat (length l)) hi ltac:(lia)) as Hb.
  destruct (_ <=? _) eqn:E.
  - cbn [length]. lia.
  - rewrite firstn_length, skipn_length. lia.
Qed.

Lemma py_slice_length_le : forall {A} (l : list A) lo hi, (length (py_slice l lo hi) <= length l)%nat.
Proof.
  intros A l lo hi. pose proof (py_slice_length l lo hi) as H.
  pose proof (clampZ_range (Z.of_nat (length l)) lo ltac:(lia)) as Ha.
  pose proof (clampZ_range (Z.of_nat (length l)) hi ltac:(lia)) as Hb. lia.
Qed.

Ltac clamp_cases :=
  unfold clampZ; cbv zeta;
  repeat match goal with |- context [if ?b then _ else _] =>
    lazymatch b with context [if _ then _ else _] => fail | _ => destruct b eqn:? end end; lia.

(* ------------------------------------------------------------------------------------------ *)
(* C10: everything below is relative to a fixed well-shaped, non-empty graph                    *)
(* ------------------------------------------------------------------------------------------ *)
Definition vok (acc : accessor) (v : Z) : Prop := -1 <= v < nrows acc.

Lemma in_range_vok : forall acc v, in_range acc v -> vok acc v.
Proof. intros acc v H. unfold in_range, vok in *. lia. Qed.

Section Total.
Variable acc : accessor.
Hypothesis Hs : shaped acc.
Hypothesis Hpos : 0 < nrows acc.

Lemma py_get_vok : forall v, vok acc v -> exists row, py_get acc v = Ok row /\ In row acc.
Proof.
  intros v Hv. unfold vok, nrows in *. unfold py_get. cbv zeta.
  destruct (v <? 0) eqn:E1.
  - destruct (v + Z.of_nat (length acc) <? 0) eqn:E2; [lia|].
    destruct (Z.of_nat (length acc) <=? v + Z.of_nat (length acc)) eqn:E3; [lia|]. cbn [orb].
    rewrite (nthZ_nth acc _ []) by lia. eexists. split; [reflexivity|]. apply nth_In. lia.
  - destruct (v <? 0) eqn:E2; [lia|].
    destruct (Z.of_nat (length acc) <=? v) eqn:E3; [lia|]. cbn [orb].
    rewrite (nthZ_nth acc _ []) by lia. eexists. split; [reflexivity|]. apply nth_In. lia.
Qed.

Lemma row_ok : forall row, In row acc -> length row = 4%nat /\ Forall (fun x => -1 <= x < nrows acc) row.
Proof.
  intros row Hin. destruct Hs as [Hr He]. unfold rows4 in Hr. unfold entries_in_range in He.
  rewrite Forall_forall in Hr, He. split; [apply Hr; exact Hin|apply He; exact Hin].
Qed.

Lemma used_row : forall row j, In row acc -> In j (used_indices row) ->
  0 <= j < 4 /\ exists nxt, py_get row j = Ok nxt /\ in_range acc nxt.
Proof.
  intros row j Hin Hj. destruct (row_ok row Hin) as [Hl Hf].
  apply (proj2 (used_indices_spec row Hl)) in Hj. destruct Hj as [Hj He].
  split; [exact Hj|]. exists (nth (Z.to_nat j) row (-1)). split.
  - apply py_get_ok. lia.
  - rewrite Forall_forall in Hf. assert (Hi : In (nth (Z.to_nat j) row (-1)) row) by (apply nth_In; lia).
    specialize (Hf _ Hi). unfold in_range. lia.
Qed.

Lemma step_arc_total : forall v c, vok acc v ->
  exists o, step_arc acc v c = Ok o /\ (forall nxt, o = Some nxt -> in_range acc nxt).
Proof using Hs Hpos.
  intros v c Hv. unfold step_arc. destruct (py_get_vok v Hv) as (row & E & Hin). rewrite E. cbn [bind].
  destruct (nuc_index c) as [j|]; [|exists None; split; [reflexivity|discriminate]].
  destruct (memZ j (used_indices row)) eqn:Em; [|exists None; split; [reflexivity|discriminate]].
  apply rp_memZ_iff in Em. destruct (used_row row j Hin Em) as (_ & nxt & E2 & Hr).
  rewrite E2. cbn [bind]. exists (Some nxt). split; [reflexivity|]. intros n' H. injection H as <-. exact Hr.
Qed.

Lemma walk_from_total : forall s v visited, vok acc v ->
  exists b n, walk_from acc v s visited = Ok (b, n) /\ visited <= n <= visited + Z.of_nat (length s).
Proof.
  induction s as [|c t IH]; intros v visited Hv; cbn [walk_from].
  - exists true, visited. split; [reflexivity|cbn [length]; lia].
  - destruct (step_arc_total v c Hv) as (o & E & Ho). rewrite E. cbn [bind].
    destruct o as [nxt|].
    + destruct (IH nxt (visited + 1) (in_range_vok _ _ (Ho nxt eq_refl))) as (b & n & E2 & Hb).
      exists b, n. split; [exact E2|cbn [length]; lia].
    + exists false, visited. split; [reflexivity|cbn [length]; lia].
Qed.

Lemma try_each_total : forall row rest (mk : Z -> record) cands visited, In row acc ->
  (forall j, In j cands -> In j (used_indices row)) ->
  exists recs n, try_each acc row cands rest mk visited = Ok (recs, n) /\
    visited <= n <= visited + Z.of_nat (length cands) * Z.of_nat (length rest) /\
    Forall (fun rc => exists j, rc = mk j) recs.
Proof.
  intros row rest mk. induction cands as [|j t IH]; intros visited Hin Hc; cbn [try_each].
  - exists [], visited. split; [reflexivity|]. split; [cbn [length]; lia|constructor].
  - destruct (used_row row j Hin (Hc j (or_introl eq_refl))) as (_ & nxt & E & Hr). rewrite E. cbn [bind].
    destruct (walk_from_total rest nxt 0 (in_range_vok _ _ Hr)) as (b & n1 & E1 & Hb1). rewrite E1. cbn [bind snd fst].
    destruct (IH (visited + n1) Hin (fun j' H => Hc j' (or_intror H))) as (recs & n & E2 & Hb2 & Hf).
    rewrite E2. cbn [bind fst snd].
    exists (if b then mk j :: recs else recs), n. split; [reflexivity|]. split.
    + cbn [length]. rewrite Nat2Z.inj_succ. lia.
    + destruct b; [constructor; [exists j; reflexivity|exact Hf]|exact Hf].
Qed.

Lemma acgt_char : forall c, is_acgt c = true -> exists j, 0 <= j < 4 /\ c = nuc_char j.
Proof.
  intros c H. unfold is_acgt in H. destruct (nuc_index c) as [j|] eqn:E; [|discriminate].
  exists j. destruct (VTProofs.nuc_index_some c j E) as (Hj & Hc & _). split; [exact Hj|exact Hc].
Qed.

Lemma filter_used_le3 : forall row original, length row = 4%nat -> is_acgt original = true ->
  (length (filter (fun j => negb (nuc_char j =? original)%Z) (used_indices row)) <= 3)%nat.
Proof.
  intros row original Hl Ho. destruct (acgt_char original Ho) as (j0 & Hj0 & ->).
  destruct row as [|a [|b [|c [|d [|e r]]]]]; cbn [length] in Hl; try lia.
  unfold used_indices. cbn [used_from].
  assert (Hc : j0 = 0 \/ j0 = 1 \/ j0 = 2 \/ j0 = 3) by lia.
  destruct Hc as [->|[->|[->| ->]]];
    destruct (0 <=? a); destruct (0 <=? b); destruct (0 <=? c); destruct (0 <=? d); vm_compute; lia.
Qed.

Lemma acgt_slice : forall l lo hi, acgt l -> acgt (py_slice l lo hi).
Proof. intros l lo hi H. unfold acgt in *. apply Forall_py_slice. exact H. Qed.

Lemma path_matching_total : forall chunk pv occ indel, acgt chunk -> vok acc pv ->
  0 <= occ < Z.of_nat (length chunk) ->
  exists recs n, path_matching chunk acc pv occ indel = Ok (recs, n) /\
    0 <= n <= 8 * Z.of_nat (length chunk) /\ Forall (fun rc : record => acgt (snd rc)) recs.
Proof.
  intros chunk pv occ indel Ha Hv Hocc. unfold path_matching.
  rewrite (py_get_ok chunk occ 0 Hocc). cbn [bind].
  set (original := nth (Z.to_nat occ) chunk 0).
  assert (Hor : is_acgt original = true).
  { unfold acgt in Ha. rewrite Forall_forall in Ha. apply Ha. apply nth_In. lia. }
  destruct (py_get_vok pv Hv) as (row & E & Hin). rewrite E. cbn [bind]. cbv zeta.
  destruct (row_ok row Hin) as [Hl _].
  set (before := py_slice_to chunk occ). set (after := py_slice_from chunk (occ + 1)).
  set (from_occ := py_slice_from chunk occ).
  assert (Hab : acgt before) by (apply acgt_slice; exact Ha).
  assert (Haa : acgt after) by (apply acgt_slice; exact Ha).
  assert (Haf : acgt from_occ) by (apply acgt_slice; exact Ha).
  assert (Hla : (length after <= length chunk)%nat) by apply py_slice_length_le.
  assert (Hlf : (length from_occ <= length chunk)%nat) by apply py_slice_length_le.
  pose proof (filter_used_le3 row original Hl Hor) as H3.
  assert (H4 : (length (used_indices row) <= 4)%nat) by (rewrite <- Hl; apply used_from_len).
  destruct (try_each_total row after (fun j => (0, nuc_char j, before ++ nuc_char j :: after))
              (filter (fun j => negb (nuc_char j =? original)) (used_indices row)) 0 Hin
              ltac:(intros j Hj; apply filter_In in Hj; apply Hj)) as (r1 & n1 & E1 & Hb1 & Hf1).
  rewrite E1. cbn [bind fst snd].
  assert (Hmk : forall k0 j, acgt (snd ((k0, nuc_char j, before ++ nuc_char j :: after) : record))).
  { intros k0 j. cbn [snd]. unfold acgt in *. apply Forall_app. split; [exact Hab|].
    constructor; [apply nuc_char_acgt|exact Haa]. }
  assert (Hmk2 : forall k0 j, acgt (snd ((k0, nuc_char j, before ++ nuc_char j :: from_occ) : record))).
  { intros k0 j. cbn [snd]. unfold acgt in *. apply Forall_app. split; [exact Hab|].
    constructor; [apply nuc_char_acgt|exact Haf]. }
  assert (Hr1 : Forall (fun rc : record => acgt (snd rc)) r1).
  { eapply Forall_impl; [|exact Hf1]. intros rc (j & ->). apply Hmk. }
  assert (Hn1 : 0 <= n1 <= 3 * Z.of_nat (length chunk)) by nia.
  destruct indel.
  - destruct (try_each_total row from_occ (fun j => (1, nuc_char j, before ++ nuc_char j :: from_occ))
                (used_indices row) n1 Hin ltac:(intros j Hj; exact Hj)) as (r2 & n2 & E2 & Hb2 & Hf2).
    rewrite E2. cbn [bind fst snd].
    destruct (walk_from_total after pv 0 Hv) as (b & n3 & E3 & Hb3). rewrite E3. cbn [bind fst snd].
    eexists. eexists. split; [reflexivity|]. split; [nia|].
    apply Forall_app. split; [exact Hr1|]. apply Forall_app. split.
    + eapply Forall_impl; [|exact Hf2]. intros rc (j & ->). apply Hmk2.
    + destruct b; [|constructor]. constructor; [|constructor]. cbn [snd].
      unfold acgt in *. apply Forall_app. split; assumption.
  - exists r1, n1. split; [reflexivity|]. split; [lia|exact Hr1].
Qed.

Lemma fold_insert_acgt : forall whole (recs : list record) frags,
  Forall (fun rc : record => acgt (snd rc)) recs -> Forall acgt frags ->
  Forall acgt (fold_left (fun fs (rc : record) => if mem_str whole fs then fs else insert_str (snd rc) fs) recs frags).
Proof.
  intros whole. induction recs as [|rc recs IH]; intros frags Hr Hf; cbn [fold_left]; [exact Hf|].
  inversion Hr as [|? ? Hrc Hrs]; subst. apply IH; [exact Hrs|].
  destruct (mem_str whole frags); [exact Hf|].
  rewrite Forall_forall in Hf |- *. intros x Hx. apply insert_str_in in Hx.
  destruct Hx as [->|Hx]; [exact Hrc|apply Hf; exact Hx].
Qed.

Lemma fragments_of_total : forall chunk k indel whole, acgt chunk -> k <= Z.of_nat (length chunk) ->
  forall rmarker recall frags visited,
  Forall (vok acc) rmarker -> 0 <= recall -> recall + Z.of_nat (length rmarker) <= k ->
  Forall acgt frags ->
  exists fs n, fragments_of chunk acc k indel whole rmarker recall frags visited = Ok (fs, n) /\
    visited <= n <= visited + Z.of_nat (length rmarker) * (8 * Z.of_nat (length chunk)) /\ Forall acgt fs.
Proof.
  intros chunk k indel whole Ha Hk. induction rmarker as [|pv t IH]; intros recall frags visited Hv Hr Hb Hf;
    cbn [fragments_of].
  - exists frags, visited. split; [reflexivity|]. split; [cbn [length]; lia|exact Hf].
  - inversion Hv as [|? ? Hpv Ht]; subst. cbn [length] in Hb. rewrite Nat2Z.inj_succ in Hb.
    destruct (path_matching_total chunk pv (k - recall - 1) indel Ha Hpv ltac:(lia)) as (recs & n1 & E1 & Hb1 & Hf1).
    rewrite E1. cbn [bind fst snd]. cbv zeta.
    destruct (IH (recall + 1) _ (visited + n1) Ht ltac:(lia) ltac:(lia)
                 (fold_insert_acgt whole recs frags Hf1 Hf)) as (fs & n & E2 & Hb2 & Hf2).
    rewrite E2. exists fs, n. split; [reflexivity|]. split; [|exact Hf2].
    cbn [length]. rewrite Nat2Z.inj_succ. lia.
Qed.

Definition pair_ok (k : Z) (ch mk : list Z) : Prop :=
  acgt ch /\ Forall (vok acc) mk /\
  (mk = [] \/ (Z.of_nat (length mk) <= k /\ k <= Z.of_nat (length ch) <= 2 * k)).

Lemma all_fragments_total : forall k indel whole chunks markers visited, Forall2 (pair_ok k) chunks markers ->
  exists fr n, all_fragments chunks markers acc k indel whole visited = Ok (fr, n) /\
    visited <= n <= visited + Z.of_nat (length chunks) * (16 * k * k) /\ Forall (Forall acgt) fr.
Proof using Hs Hpos.
  intros k indel whole chunks markers visited H. revert visited.
  induction H as [|ch mk cs ms Hp Hrest IH]; intros visited; cbn [all_fragments].
  - exists [], visited. split; [reflexivity|]. split; [cbn [length]; lia|constructor].
  - destruct Hp as (Ha & Hv & Hd).
    assert (Hfr : exists fs n, fragments_of ch acc k indel whole (rev mk) 0 [] visited = Ok (fs, n) /\
                    visited <= n <= visited + 16 * k * k /\ Forall acgt fs).
    { destruct Hd as [->|(H1 & H2)].
      - cbn [rev fragments_of]. exists [], visited. split; [reflexivity|]. split; [nia|constructor].
      - destruct (fragments_of_total ch k indel whole Ha ltac:(lia) (rev mk) 0 [] visited
                    (Forall_rev Hv) ltac:(lia) ltac:(rewrite rev_length; lia) ltac:(constructor))
          as (fs & n & E & Hb & Hf).
        exists fs, n. split; [exact E|]. split; [|exact Hf]. rewrite rev_length in Hb. nia. }
    destruct Hfr as (fs & n1 & E1 & Hb1 & Hf1). rewrite E1. cbn [bind fst snd].
    destruct (IH n1) as (fr & n & E2 & Hb2 & Hf2). rewrite E2. cbn [bind fst snd].
    exists (fs :: fr), n. split; [reflexivity|]. split; [|constructor; assumption].
    cbn [length]. rewrite Nat2Z.inj_succ. lia.
Qed.

Lemma recombine_acgt : forall splits frags, Forall acgt splits -> Forall (Forall acgt) frags ->
  Forall acgt (recombine splits frags).
Proof.
  induction splits as [|sp sps IH]; intros frags Hsp Hfr; cbn [recombine].
  - destruct frags; constructor; constructor.
  - inversion Hsp as [|? ? Hsp1 Hsps]; subst. destruct frags as [|fs fss].
    + constructor; [exact Hsp1|constructor].
    + inversion Hfr as [|? ? Hfs Hfss]; subst. specialize (IH fss Hsps Hfss).
      rewrite Forall_forall in IH, Hfs |- *. intros x Hx. apply in_flat_map in Hx.
      destruct Hx as (tail & Ht & Hx). apply in_map_iff in Hx. destruct Hx as (f & <- & Hf).
      unfold acgt in *. apply Forall_app. split; [exact Hsp1|]. apply Forall_app. split; [apply Hfs; exact Hf|].
      apply IH. exact Ht.
Qed.

Lemma filter_checked_total : forall vt l, Forall acgt l -> exists r, filter_checked vt l = Ok r.
Proof.
  intros vt. induction l as [|c l IH]; intros H; cbn [filter_checked]; [eexists; reflexivity|].
  inversion H as [|? ? Hc Hl]; subst. rewrite (check_matches_total vt c Hc). cbn [bind].
  destruct (IH Hl) as (r & E). rewrite E. cbn [bind]. eexists; reflexivity.
Qed.

End Total.

(* ------------------------------------------------------------------------------------------ *)
(* the scan loop                                                                                *)
(* ------------------------------------------------------------------------------------------ *)
Lemma set_nth_Forall : forall {A} (P : A -> Prop) l i x, Forall P l -> P x -> Forall P (set_nth l i x).
Proof.
  intros A P. induction l as [|y t IH]; intros i x Hl Hx; [destruct i; constructor|].
  inversion Hl; subst. destruct i as [|i]; cbn [set_nth]; constructor; try assumption.
  apply IH; assumption.
Qed.

Lemma nrows_pos : forall acc k, nrows acc = pow4 k -> 0 < nrows acc.
Proof. intros acc k Hn. rewrite Hn. unfold pow4. apply Z.pow_pos_nonneg; lia. Qed.

Section Scan.
Variable acc : accessor.
Variable k : nat.
Variable s : list Z.
Hypothesis Hs : shaped acc.
Hypothesis Hk : (1 <= k)%nat.
Hypothesis Hn : nrows acc = pow4 k.
Hypothesis Ha : acgt s.
Hypothesis Hks : (k <= length s)%nat.

Definition scan_ok (bound : Z) (st : scan) : Prop :=
  Forall acgt (sc_splits st) /\ Forall2 (pair_ok acc (Z.of_nat k)) (sc_chunks st) (sc_markers st) /\
  0 <= sc_visited st /\ sc_detected st = Z.of_nat (length (sc_chunks st)) /\
  sc_visited st + sc_detected st <= bound.

Lemma scan_done_ok : forall fuel loc v iq cur st, Z.of_nat (length s) <= loc -> acgt cur ->
  scan_ok (Z.min loc (Z.of_nat (length s))) st ->
  exists st', scan_loop fuel s acc (Z.of_nat k) loc v iq cur st = Ok st' /\ scan_ok (Z.of_nat (length s)) st'.
Proof.
  intros fuel loc v iq cur st Hloc Hcur (H1 & H2 & H3 & H4 & H5).
  eexists. split; [apply scan_loop_done; exact Hloc|].
  unfold scan_ok. cbn [sc_splits sc_chunks sc_markers sc_detected sc_visited].
  refine (conj _ (conj H2 (conj H3 (conj H4 _)))); [constructor; assumption|lia].
Qed.

Lemma scan_total : forall fuel loc v iq cur st, 0 <= loc -> Z.of_nat (length s) <= Z.of_nat fuel + loc ->
  in_range acc v -> length iq = length s -> Forall (vok acc) iq -> acgt cur ->
  scan_ok (Z.min loc (Z.of_nat (length s))) st ->
  exists st', scan_loop fuel s acc (Z.of_nat k) loc v iq cur st = Ok st' /\ scan_ok (Z.of_nat (length s)) st'.
Proof using Hs Hk Hn Ha Hks.
  induction fuel as [|f IH]; intros loc v iq cur st Hloc Hfuel Hv Hiq Hvi Hcur Hst.
  - apply scan_done_ok; [lia|exact Hcur|exact Hst].
  - destruct (Z_lt_le_dec loc (Z.of_nat (length s))) as [Hlt|Hge];
      [|apply scan_done_ok; [lia|exact Hcur|exact Hst]].
    rewrite scan_loop_step by lia.
    rewrite (py_get_ok s loc 0) by lia. cbn [bind].
    set (c := nth (Z.to_nat loc) s 0).
    assert (Hc : is_acgt c = true).
    { unfold acgt in Ha. rewrite Forall_forall in Ha. apply Ha. apply nth_In. lia. }
    destruct (step_arc_total acc Hs (nrows_pos acc k Hn) v c (in_range_vok acc v Hv)) as (o & E & Ho).
    rewrite E. cbn [bind]. destruct Hst as (H1 & H2 & H3 & H4 & H5).
    destruct o as [nxt|].
    + apply IH.
      * lia.
      * lia.
      * apply Ho. reflexivity.
      * rewrite set_nth_length. exact Hiq.
      * apply set_nth_Forall; [exact Hvi|]. apply in_range_vok. apply Ho. reflexivity.
      * unfold acgt in *. apply Forall_app. split; [exact Hcur|]. constructor; [exact Hc|constructor].
      * unfold scan_ok. cbn [sc_splits sc_chunks sc_markers sc_detected sc_visited].
        refine (conj H1 (conj H2 (conj _ (conj H4 _)))); lia.
    + set (sl := py_slice s (loc + 1) (loc + Z.of_nat k + 1)).
      assert (Hsl : acgt sl) by (apply acgt_slice; exact Ha).
      assert (Hlen : Z.of_nat (length sl) <= Z.of_nat k).
      { unfold sl. rewrite py_slice_length. clamp_cases. }
      destruct (dna_paths_agree sl Hsl) as (d & v' & _ & E2 & _ & _ & Hb).
      rewrite E2. cbn [bind].
      assert (Hv' : in_range acc v').
      { unfold in_range. rewrite Hn. unfold pow4.
        pose proof (Z.pow_le_mono_r 4 (Z.of_nat (length sl)) (Z.of_nat k) ltac:(lia) Hlen). lia. }
      apply IH.
      * lia.
      * lia.
      * exact Hv'.
      * exact Hiq.
      * exact Hvi.
      * constructor; [apply nuc_char_acgt|constructor].
      * unfold scan_ok. cbn [sc_splits sc_chunks sc_markers sc_detected sc_visited].
        refine (conj _ (conj _ (conj H3 (conj _ _)))).
        -- constructor; [|exact H1]. unfold py_slice_to. apply acgt_slice. exact Hcur.
        -- apply Forall2_app; [exact H2|]. constructor; [|constructor].
           unfold pair_ok. split; [apply acgt_slice; exact Ha|]. split; [apply Forall_py_slice; exact Hvi|].
           destruct (Z_lt_le_dec loc (Z.of_nat k)) as [Hlk|Hlk].
           ++ left. apply length_zero_iff_nil.
              assert (Hz : Z.of_nat (length (py_slice iq (loc - Z.of_nat k) loc)) = 0).
              { rewrite py_slice_length, Hiq. clamp_cases. }
              lia.
           ++ right. split; [rewrite py_slice_length, Hiq; clamp_cases|rewrite py_slice_length; clamp_cases].
        -- rewrite app_length. cbn [length]. lia.
        -- lia.
Qed.

End Scan.

Lemma bound_arith : forall V D m N K, 0 <= V -> 0 <= D -> V + D <= N -> V <= m <= V + D * (16 * K * K) ->
  0 <= m <= N * (1 + 16 * K * K).
Proof.
  intros V D m N K HV HD HN Hm.
  assert (HX : 0 <= 16 * K * K) by nia. set (X := 16 * K * K) in *.
  assert (HDX : D * X <= N * X) by (apply Z.mul_le_mono_nonneg_r; lia). lia.
Qed.

(* ---- C10: repair always returns --------------------------------------------------------------- *)
Theorem repair_total : forall s acc v0 (k : nat) vt indel heap, (1 <= k)%nat -> shaped acc -> nrows acc = pow4 k ->
  in_range acc v0 -> acgt s -> (k <= length s)%nat ->
  exists cands st, repair_dna s acc v0 (Z.of_nat k) vt indel heap = Ok (cands, st)
                   /\ 0 <= lookups st <= Z.of_nat (length s) * (1 + 16 * Z.of_nat k * Z.of_nat k)
                   /\ 0 <= detected st <= Z.of_nat (length s).
Proof.
  intros s acc v0 k vt indel heap Hk Hs Hn Hv Ha Hks.
  assert (Hpos : 0 < nrows acc) by (unfold in_range in Hv; lia).
  assert (Hiq : Forall (vok acc) (repeat (-1) (length s))).
  { apply Forall_forall. intros x Hx. apply repeat_spec in Hx. subst x. unfold vok. lia. }
  assert (H0 : scan_ok acc k (Z.min 0 (Z.of_nat (length s)))
                 {| sc_splits := []; sc_chunks := []; sc_markers := []; sc_detected := 0; sc_visited := 0 |}).
  { unfold scan_ok. cbn [sc_splits sc_chunks sc_markers sc_detected sc_visited length].
    refine (conj _ (conj _ (conj _ (conj _ _)))); [constructor|constructor|lia|reflexivity|lia]. }
  destruct (scan_total acc k s Hs Hk Hn Ha Hks (S (length s)) 0 v0 (repeat (-1) (length s)) [] _
              ltac:(lia) ltac:(lia) Hv (repeat_length _ _) Hiq ltac:(constructor) H0) as (st & E & Hst).
  unfold repair_dna. cbv zeta. rewrite E. cbn [bind].
  destruct Hst as (H1 & H2 & H3 & H4 & H5).
  destruct (all_fragments_total acc Hs Hpos (Z.of_nat k) indel s _ _ (sc_visited st) H2) as (fr & m & E2 & Hb & Hf).
  rewrite E2. cbn [bind fst snd].
  assert (Hm : 0 <= m <= Z.of_nat (length s) * (1 + 16 * Z.of_nat k * Z.of_nat k)).
  { apply (bound_arith (sc_visited st) (sc_detected st)); [exact H3|lia|lia|]. rewrite H4. exact Hb. }
  destruct (_ || _).
  - destruct vt as [chk|].
    + rewrite (check_matches_total (Some chk) s Ha). cbn [bind].
      destruct (check_okb (Some chk) s); eexists; eexists; (split; [reflexivity|]);
        cbn [lookups detected]; (split; [exact Hm|lia]).
    + eexists; eexists; (split; [reflexivity|]); cbn [lookups detected]; (split; [exact Hm|lia]).
  - destruct (filter_checked_total vt (recombine (rev (sc_splits st)) fr)) as (r & E3).
    { apply recombine_acgt; [apply Forall_rev; exact H1|exact Hf]. }
    rewrite E3. cbn [bind]. eexists; eexists; (split; [reflexivity|]); cbn [lookups detected].
    split; [exact Hm|lia].
Qed.

Print Assumptions check_okb_spec.
Print Assumptions lexlt_irrefl.
Print Assumptions lexlt_trans.
Print Assumptions lexlt_total.
Print Assumptions sort_dedup_sorted.
Print Assumptions repair_total.
Print Assumptions repair_clean.
Print Assumptions repair_output_shape.
