(* ScoreProofs.v -- C19: arc removal keeps the accessor and the latter map in step over any sequence of calls:
   each returning call removes exactly one arc that existed, that arc has the maximum intersection score of the graph
   before the call, no other entry changes, and both views describe the same graph afterwards. *)
From Coq Require Import Lia ZifyBool Sorting.Sorted.
From DSW Require Import Py Bignum Convert Kmer Graph Score Spec GraphSpec.
From DSW.Proofs Require Import KmerProofs GraphProofs ReprProofs.
Ltac Zify.zify_post_hook ::= Z.to_euclidean_division_equations.

(* the score of arc (u, column j) *)
Definition score_at (sc : scores_t) (u j : Z) : Z := nth (Z.to_nat j) (nth (Z.to_nat u) sc []) 0.

(* a history of calls: the (has_insertion, has_deletion) flags of each call; the state after each returning call,
   stopping at the first call that raises *)
Fixpoint run_removals (flags : list (bool * bool)) (acc : accessor) (m : lmap) : list (accessor * lmap * (Z * Z)) :=
  match flags with
  | [] => []
  | (ins, del) :: rest =>
      match remove_nasty_arc acc m ins del with
      | Ok (acc', m', arc, _) => (acc', m', arc) :: run_removals rest acc' m'
      | _ => []
      end
  end.
(* number of arcs of an accessor *)
Definition arc_count (acc : accessor) : Z := sumZ (map out_degree acc).

(* TARGET STATEMENTS (to be proved, do not change the statements):

(* scores have the accessor's shape, are non-negative, and are positive only on existing arcs *)
Theorem score_spec : forall k acc ins del, (1 <= k)%nat -> legal k acc ->
  exists sc, calculate_intersection_score (accessor_to_latter_map acc) k ins del = Ok sc
             /\ length sc = Z.to_nat (pow4 k) /\ Forall (fun r => length r = 4%nat) sc
             /\ (forall u j, 0 <= u < pow4 k -> 0 <= j < 4 -> 0 <= score_at sc u j)
             /\ (forall u j, 0 <= u < pow4 k -> 0 <= j < 4 -> 0 < score_at sc u j -> 0 <= entry acc u j).

(* one call *)
Theorem remove_step : forall k acc ins del acc' m' u v scs, (1 <= k)%nat -> legal k acc ->
  remove_nasty_arc acc (accessor_to_latter_map acc) ins del = Ok (acc', m', (u, v), scs) ->
  legal k acc' /\ m' = accessor_to_latter_map acc'
  /\ exists j sc, 0 <= j < 4 /\ 0 <= u < pow4 k /\ entry acc u j = v /\ 0 <= v
       /\ calculate_intersection_score (accessor_to_latter_map acc) k ins del = Ok sc
       /\ (forall u' j', 0 <= u' < pow4 k -> 0 <= j' < 4 -> score_at sc u' j' <= score_at sc u j)
       /\ entry acc' u j = -1
       /\ (forall u' j', 0 <= u' < pow4 k -> 0 <= j' < 4 -> (u', j') <> (u, j) -> entry acc' u' j' = entry acc u' j')
       /\ scs = filter (fun x => 0 <? x) (concat sc)
       /\ arc_count acc' = arc_count acc - 1.

(* any sequence of calls: every state reached by returning calls is a consistent pair of views of a legal graph, and
   the i-th returning call has removed exactly i + 1 arcs in total *)
Theorem remove_history : forall flags k acc, (1 <= k)%nat -> legal k acc ->
  forall i acc' m' arc, nth_error (run_removals flags acc (accessor_to_latter_map acc)) i = Some (acc', m', arc) ->
  legal k acc' /\ m' = accessor_to_latter_map acc' /\ arc_count acc' = arc_count acc - Z.of_nat (S i).
*)
