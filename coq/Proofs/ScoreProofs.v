(* ScoreProofs.v -- C19: arc removal keeps the accessor and the latter map in step over any sequence of calls:
   each returning call removes exactly one arc that existed, that arc has the maximum intersection score of the graph
   before the call, no other entry changes, and both views describe the same graph afterwards. *)
From Coq Require Import Lia ZifyBool Sorting.Sorted.
From DSW Require Import Py Bignum Convert Kmer Graph Score Spec GraphSpec.
From DSW.Proofs Require Import KmerProofs GraphProofs ReprProofs.
Ltac Zify.zify_post_hook ::= Z.to_euclidean_division_equations.

(* the score of arc (u, column j) *)
Definition score_at (sc : scores_t) (u j : Z) : Z := nth (Z.to_nat j) (nth (Z.to_nat u) sc []) 0.

(* a history of calls: the (has_insertion, has_deletion) flags of each call; the state after each returning call,
   stopping at the first call that raises *)
Fixpoint run_removals (flags : list (bool * bool)) (acc : accessor) (m : lmap) : list (accessor * lmap * (Z * Z)) :=
  match flags with
  | [] => []
  | (ins, del) :: rest =>
      match remove_nasty_arc acc m ins del with
      | Ok (acc', m', arc, _) => (acc', m', arc) :: run_removals rest acc' m'
      | _ => []
      end
  end.
(* number of arcs of an accessor *)
Definition arc_count (acc : accessor) : Z := sumZ (map out_degree acc).

(* ---- set_nth -------------------------------------------------------------------------------- *)
Lemma set_nth_length : forall (A : Type) (l : list A) i x, length (set_nth l i x) = length l.
Proof.
  intros A. induction l as [|y t IH]; intros i x; [reflexivity|].
  destruct i as [|i]; cbn [set_nth length]; [reflexivity|]. rewrite IH. reflexivity.
Qed.

Lemma nth_set_nth_eq : forall (A : Type) (l : list A) i x d, (i < length l)%nat -> nth i (set_nth l i x) d = x.
Proof.
  intros A. induction l as [|y t IH]; intros i x d Hi; cbn [length] in Hi; [lia|].
  destruct i as [|i]; cbn [set_nth nth]; [reflexivity|]. apply IH. lia.
Qed.

Lemma nth_set_nth_neq : forall (A : Type) (l : list A) i j x d, i <> j -> nth j (set_nth l i x) d = nth j l d.
Proof.
  intros A. induction l as [|y t IH]; intros i j x d Hne; [reflexivity|].
  destruct i as [|i], j as [|j]; cbn [set_nth nth]; try reflexivity; [lia|]. apply IH. lia.
Qed.

Lemma Forall_set_nth : forall (A : Type) (P : A -> Prop) l i x, Forall P l -> P x -> Forall P (set_nth l i x).
Proof.
  intros A P. induction l as [|y t IH]; intros i x HF Hx; [constructor|].
  inversion HF as [|? ? Hy Ht]; subst.
  destruct i as [|i]; cbn [set_nth]; constructor; try assumption. apply IH; assumption.
Qed.

(* two-level update *)
Lemma nth2_set : forall (sc : list (list Z)) v c y u j d1 d2 e,
  (v < length sc)%nat -> (c < length (nth v sc d1))%nat ->
  nth j (nth u (set_nth sc v (set_nth (nth v sc d1) c y)) d2) e =
  if Nat.eqb u v && Nat.eqb j c then y else nth j (nth u sc d2) e.
Proof.
  intros sc v c y u j d1 d2 e Hv Hc.
  destruct (Nat.eqb_spec u v) as [->|Hne]; cbn [andb].
  - rewrite nth_set_nth_eq by exact Hv.
    destruct (Nat.eqb_spec j c) as [->|Hne].
    + apply nth_set_nth_eq. exact Hc.
    + rewrite nth_set_nth_neq by lia. rewrite (nth_indep sc d1 d2 Hv). reflexivity.
  - rewrite nth_set_nth_neq by lia. reflexivity.
Qed.

(* ---- the score table ---------------------------------------------------------------------- *)
Definition sc_ok (k : nat) (acc : accessor) (sc : scores_t) : Prop :=
  length sc = Z.to_nat (pow4 k) /\ Forall (fun r => length r = 4%nat) sc
  /\ (forall u j, 0 <= u < pow4 k -> 0 <= j < 4 -> 0 <= score_at sc u j)
  /\ (forall u j, 0 <= u < pow4 k -> 0 <= j < 4 -> 0 < score_at sc u j -> 0 <= entry acc u j).

Lemma sc_row_len : forall k acc sc u d, sc_ok k acc sc -> 0 <= u < pow4 k -> length (nth (Z.to_nat u) sc d) = 4%nat.
Proof.
  intros k acc sc u d [Hlen [HF _]] Hu. rewrite Forall_forall in HF. apply HF. apply nth_In. lia.
Qed.

Lemma add_score_ok : forall k acc sc v c x, sc_ok k acc sc ->
  0 <= v < pow4 k -> 0 <= c < 4 -> 0 <= x -> 0 <= entry acc v c ->
  exists sc', add_score sc v c x = Ok sc' /\ sc_ok k acc sc'.
Proof.
  intros k acc sc v c x Hok Hv Hc Hx He.
  pose proof (sc_row_len k acc sc v [0; 0; 0; 0] Hok Hv) as Hrl.
  destruct Hok as [Hlen [HF [Hnn Hpos]]].
  unfold add_score. rewrite Hlen, Z2Nat.id by lia.
  replace (v <? 0) with false by lia. replace (v <? 0) with false by lia.
  replace (pow4 k <=? v) with false by lia. cbn [orb].
  eexists. split; [reflexivity|].
  assert (Hcell : forall u j, 0 <= u < pow4 k -> 0 <= j < 4 ->
    score_at (set_nth sc (Z.to_nat v) (set_nth (nth (Z.to_nat v) sc [0; 0; 0; 0]) (Z.to_nat c)
                 (nth (Z.to_nat c) (nth (Z.to_nat v) sc [0; 0; 0; 0]) 0 + x))) u j =
    if (u =? v) && (j =? c) then score_at sc v c + x else score_at sc u j).
  { intros u j Hu Hj. unfold score_at. rewrite nth2_set by lia.
    destruct (Nat.eqb_spec (Z.to_nat u) (Z.to_nat v)) as [E1|E1];
    destruct (Nat.eqb_spec (Z.to_nat j) (Z.to_nat c)) as [E2|E2]; cbn [andb].
    - replace (u =? v) with true by lia. replace (j =? c) with true by lia. cbn [andb].
      rewrite (nth_indep sc [0; 0; 0; 0] []) by lia. reflexivity.
    - replace (j =? c) with false by lia. rewrite andb_false_r. reflexivity.
    - replace (u =? v) with false by lia. reflexivity.
    - replace (u =? v) with false by lia. reflexivity. }
  split; [rewrite set_nth_length; exact Hlen|].
  split; [apply Forall_set_nth; [exact HF|rewrite set_nth_length; exact Hrl]|].
  split.
  - intros u j Hu Hj. rewrite Hcell by assumption.
    destruct ((u =? v) && (j =? c)); [|apply Hnn; assumption].
    specialize (Hnn v c Hv Hc). lia.
  - intros u j Hu Hj. rewrite Hcell by assumption.
    destruct ((u =? v) && (j =? c)) eqn:E; [|apply Hpos; assumption].
    intros _. assert (u = v) by lia. assert (j = c) by lia. subst. exact He.
Qed.

Lemma add_all_ok : forall k acc v items sc, sc_ok k acc sc -> 0 <= v < pow4 k ->
  Forall (fun it => 0 <= fst it < 4 /\ 0 <= snd it /\ 0 <= entry acc v (fst it)) items ->
  exists sc', add_all sc v items = Ok sc' /\ sc_ok k acc sc'.
Proof.
  intros k acc v. induction items as [|[c x] t IH]; intros sc Hok Hv HF; cbn [add_all].
  - exists sc. split; [reflexivity|exact Hok].
  - inversion HF as [|? ? [Hc [Hx He]] Ht]; subst. cbn [fst snd] in *.
    destruct (add_score_ok k acc sc v c x Hok Hv Hc Hx He) as [s [Es Hs]].
    rewrite Es. cbn [bind]. apply IH; assumption.
Qed.

Lemma pairs_of_In : forall (A : Type) (l : list A) a b, In (a, b) (pairs_of l) -> In a l /\ In b l.
Proof.
  intros A. induction l as [|x t IH]; intros a b H; cbn [pairs_of] in H; [contradiction|].
  apply in_app_or in H. destruct H as [H|H].
  - apply in_map_iff in H. destruct H as [y [E Hy]]. inversion E; subst.
    split; [left; reflexivity|right; exact Hy].
  - destruct (IH a b H) as [H1 H2]. split; right; assumption.
Qed.

Lemma union_len_nonneg : forall a b, 0 <= union_len a b.
Proof. intros a b. unfold union_len. lia. Qed.

Lemma vertex_scores_items : forall m depth ins del cur lats,
  Forall (fun it => exists l, In l lats /\ fst it = l mod 4 /\ 0 <= snd it) (vertex_scores m depth ins del cur lats).
Proof.
  intros m depth ins del cur lats. unfold vertex_scores.
  set (branches := map (fun l => (l, leaves_map depth m [l])) lats).
  assert (HB : forall l b, In (l, b) branches -> In l lats).
  { intros l b H. unfold branches in H. apply in_map_iff in H. destruct H as [l' [E Hl]].
    inversion E; subst. exact Hl. }
  rewrite Forall_forall. intros it Hit.
  apply in_app_or in Hit. destruct Hit as [Hit|Hit]; [|apply in_app_or in Hit; destruct Hit as [Hit|Hit]].
  - apply in_flat_map in Hit. destruct Hit as [[[l1 b1] [l2 b2]] [Hp Hit]].
    apply pairs_of_In in Hp. destruct Hp as [H1 H2]. cbn [In] in Hit.
    destruct Hit as [E|[E|[]]]; subst it; cbn [fst snd].
    + exists l1. split; [apply (HB l1 b1 H1)|]. split; [reflexivity|apply union_len_nonneg].
    + exists l2. split; [apply (HB l2 b2 H2)|]. split; [reflexivity|apply union_len_nonneg].
  - destruct ins; [|contradiction]. apply in_flat_map in Hit. destruct Hit as [[l b] [Hlb Hit]].
    destruct (lookup m l) as [ls|]; [|contradiction].
    apply in_map_iff in Hit. destruct Hit as [l2 [E _]]. subst it. cbn [fst snd].
    exists l. split; [apply (HB l b Hlb)|]. split; [reflexivity|apply union_len_nonneg].
  - destruct del; [|contradiction]. apply in_map_iff in Hit. destruct Hit as [[l b] [E Hlb]].
    subst it. cbn [fst snd]. exists l. split; [apply (HB l b Hlb)|]. split; [reflexivity|apply union_len_nonneg].
Qed.

(* a live successor sits in the column given by its last digit *)
Lemma live_entry_col : forall k acc u l, (1 <= k)%nat -> legal k acc -> 0 <= u < pow4 k ->
  In l (live_entries (get_row acc u)) -> 0 <= l mod 4 < 4 /\ entry acc u (l mod 4) = l /\ 0 <= l.
Proof.
  intros k acc u l Hk HL Hu Hin.
  pose proof (good_row_col_row k u _ Hk Hu (legal_good_row k acc u HL Hu)) as [a [b [c [d [E [Ha [Hb [Hc Hd]]]]]]]].
  unfold entry. rewrite E in Hin |- *. unfold live_entries in Hin. apply filter_In in Hin.
  destruct Hin as [Hin Hge]. cbn [In] in Hin.
  destruct Hin as [H|[H|[H|[H|[]]]]]; subst l.
  - assert (M : a mod 4 = 0) by lia. rewrite M. change (Z.to_nat 0) with 0%nat. cbn [nth]. lia.
  - assert (M : b mod 4 = 1) by lia. rewrite M. change (Z.to_nat 1) with 1%nat. cbn [nth]. lia.
  - assert (M : c mod 4 = 2) by lia. rewrite M. change (Z.to_nat 2) with 2%nat. cbn [nth]. lia.
  - assert (M : d mod 4 = 3) by lia. rewrite M. change (Z.to_nat 3) with 3%nat. cbn [nth]. lia.
Qed.

Lemma score_keys_ok : forall k acc m depth ins del, (1 <= k)%nat -> legal k acc ->
  forall todo sc,
  (forall cur lats, In (cur, lats) todo -> 0 <= cur < pow4 k /\ lats = live_entries (get_row acc cur)) ->
  sc_ok k acc sc ->
  exists sc', score_keys m todo depth ins del sc = Ok sc' /\ sc_ok k acc sc'.
Proof.
  intros k acc m depth ins del Hk HL.
  induction todo as [|[cur lats] t IH]; intros sc Htodo Hok; cbn [score_keys].
  - exists sc. split; [reflexivity|exact Hok].
  - destruct (Htodo cur lats (or_introl eq_refl)) as [Hcur Hlats].
    destruct (add_all_ok k acc cur (vertex_scores m depth ins del cur lats) sc Hok Hcur) as [s [Es Hs]].
    { pose proof (vertex_scores_items m depth ins del cur lats) as HV.
      rewrite Forall_forall in HV |- *. intros it Hit.
      destruct (HV it Hit) as [l [Hl [Hf Hsn]]]. rewrite Hlats in Hl.
      destruct (live_entry_col k acc cur l Hk HL Hcur Hl) as [H1 [H2 H3]].
      rewrite Hf. split; [exact H1|]. split; [exact Hsn|]. rewrite H2. exact H3. }
    rewrite Es. cbn [bind]. apply IH; [|exact Hs].
    intros c ls Hin. apply Htodo. right. exact Hin.
Qed.

Lemma lmap_from_In : forall acc s v ls, In (v, ls) (lmap_from acc s) ->
  s <= v < s + Z.of_nat (length acc) /\ ls = live_entries (nth (Z.to_nat (v - s)) acc empty_row).
Proof.
  induction acc as [|row t IH]; intros s v ls H; cbn [lmap_from] in H; [contradiction|].
  cbn [length]. rewrite Nat2Z.inj_succ.
  assert (Hrec : In (v, ls) (lmap_from t (s + 1)) ->
    s <= v < s + Z.succ (Z.of_nat (length t)) /\ ls = live_entries (nth (Z.to_nat (v - s)) (row :: t) empty_row)).
  { intros H'. destruct (IH (s + 1) v ls H') as [H1 H2]. split; [lia|].
    rewrite nth_shift by lia. exact H2. }
  destruct (row_listed row); [|apply Hrec; exact H].
  destruct H as [H|H]; [|apply Hrec; exact H].
  inversion H; subst. split; [lia|]. replace (v - v) with 0 by lia. reflexivity.
Qed.

Lemma nth_zero_row : forall n, nth n [0; 0; 0; 0] 0 = 0.
Proof. intros n. do 5 (destruct n as [|n]; [reflexivity|]). reflexivity. Qed.

Lemma sc_ok_init : forall k acc, sc_ok k acc (repeat [0; 0; 0; 0] (Z.to_nat (pow4 k))).
Proof.
  intros k acc.
  assert (Hz : forall u j, score_at (repeat [0; 0; 0; 0] (Z.to_nat (pow4 k))) u j = 0).
  { intros u j. unfold score_at.
    destruct (Nat.lt_ge_cases (Z.to_nat u) (Z.to_nat (pow4 k))) as [Hlt|Hge].
    - rewrite (nth_indep _ [] [0; 0; 0; 0]) by (rewrite repeat_length; exact Hlt).
      rewrite nth_repeat. apply nth_zero_row.
    - rewrite (nth_overflow (repeat [0; 0; 0; 0] (Z.to_nat (pow4 k))) [])
        by (rewrite repeat_length; exact Hge).
      destruct (Z.to_nat j); reflexivity. }
  split; [apply repeat_length|]. split.
  - rewrite Forall_forall. intros r Hr. apply repeat_spec in Hr. subst r. reflexivity.
  - split; intros u j _ _; rewrite Hz; lia.
Qed.

(* scores have the accessor's shape, are non-negative, and are positive only on existing arcs *)
Theorem score_spec : forall k acc ins del, (1 <= k)%nat -> legal k acc ->
  exists sc, calculate_intersection_score (accessor_to_latter_map acc) k ins del = Ok sc
             /\ length sc = Z.to_nat (pow4 k) /\ Forall (fun r => length r = 4%nat) sc
             /\ (forall u j, 0 <= u < pow4 k -> 0 <= j < 4 -> 0 <= score_at sc u j)
             /\ (forall u j, 0 <= u < pow4 k -> 0 <= j < 4 -> 0 < score_at sc u j -> 0 <= entry acc u j).
Proof.
  intros k acc ins del Hk HL. unfold calculate_intersection_score.
  destruct (score_keys_ok k acc (accessor_to_latter_map acc) (k - 1) ins del Hk HL
              (accessor_to_latter_map acc) (repeat [0; 0; 0; 0] (Z.to_nat (pow4 k)))) as [sc [E Hok]].
  - intros cur lats Hin. unfold accessor_to_latter_map in Hin. apply lmap_from_In in Hin.
    rewrite (legal_len k acc HL) in Hin. replace (cur - 0) with cur in Hin by lia.
    split; [lia|]. apply (proj2 Hin).
  - apply sc_ok_init.
  - exists sc. split; [exact E|]. exact Hok.
Qed.

(* ---- maximum, argmax ------------------------------------------------------------------------ *)
Lemma maxZ_ge : forall l d, d <= maxZ l d /\ forall x, In x l -> x <= maxZ l d.
Proof.
  unfold maxZ. induction l as [|y t IH]; intros d; cbn [fold_left].
  - split; [lia|]. intros x [].
  - destruct (IH (Z.max d y)) as [H1 H2]. split; [lia|].
    intros x [Hx|Hx]; [subst; lia|apply H2; exact Hx].
Qed.

Lemma first_pos_In : forall l x s, In x l ->
  exists p, first_pos x l s = Some p /\ s <= p < s + Z.of_nat (length l) /\ nth (Z.to_nat (p - s)) l 0 = x.
Proof.
  induction l as [|y t IH]; intros x s Hin; [contradiction|].
  cbn [first_pos length]. rewrite Nat2Z.inj_succ. destruct (x =? y) eqn:E.
  - exists s. split; [reflexivity|]. split; [lia|]. replace (s - s) with 0 by lia. cbn. lia.
  - destruct Hin as [Hin|Hin]; [lia|].
    destruct (IH x (s + 1) Hin) as [p [H1 [H2 H3]]]. exists p. split; [exact H1|]. split; [lia|].
    rewrite nth_shift by lia. exact H3.
Qed.

Lemma argmax_spec : forall row mx, In mx row -> (forall x, In x row -> x <= mx) ->
  0 <= argmaxZ row < Z.of_nat (length row) /\ nth (Z.to_nat (argmaxZ row)) row 0 = mx.
Proof.
  intros row mx Hin Hle. unfold argmaxZ.
  assert (Hmax : maxZ row (hd 0 row) = mx).
  { destruct (maxZ_ge row (hd 0 row)) as [_ H2]. specialize (H2 mx Hin).
    assert (maxZ row (hd 0 row) <= mx); [|lia].
    unfold maxZ. apply fold_max_le.
    - destruct row as [|y t]; [contradiction|]. cbn [hd]. apply Hle. left. reflexivity.
    - rewrite Forall_forall. exact Hle. }
  rewrite Hmax. destruct (first_pos_In row mx 0 Hin) as [p [H1 [H2 H3]]]. rewrite H1.
  replace (p - 0) with p in H3 by lia. split; [lia|exact H3].
Qed.

(* ---- clearing one live cell of a row ---------------------------------------------------------- *)
Ltac decide_eqb :=
  repeat match goal with
  | |- context [?x =? ?y] =>
      first [ replace (x =? y) with true by lia | replace (x =? y) with false by lia ]
  end.

Lemma row_clear : forall a b c d j,
  (a = -1 \/ 0 <= a) -> (b = -1 \/ 0 <= b) -> (c = -1 \/ 0 <= c) -> (d = -1 \/ 0 <= d) ->
  (0 <= a -> a <> b /\ a <> c /\ a <> d) -> (0 <= b -> b <> c /\ b <> d) -> (0 <= c -> c <> d) ->
  0 <= j < 4 -> 0 <= nth (Z.to_nat j) [a; b; c; d] (-1) ->
  remove_first (nth (Z.to_nat j) [a; b; c; d] (-1)) (live_entries [a; b; c; d])
    = live_entries (set_nth [a; b; c; d] (Z.to_nat j) (-1))
  /\ row_listed (set_nth [a; b; c; d] (Z.to_nat j) (-1))
     = negb (match live_entries (set_nth [a; b; c; d] (Z.to_nat j) (-1)) with [] => true | _ => false end)
  /\ out_degree (set_nth [a; b; c; d] (Z.to_nat j) (-1)) = out_degree [a; b; c; d] - 1.
Proof.
  intros a b c d j Ha Hb Hc Hd Dab Dbc Dcd Hj Hlive.
  assert (Hc4 : j = 0 \/ j = 1 \/ j = 2 \/ j = 3) by lia.
  destruct Hc4 as [H|[H|[H|H]]]; subst j;
  [change (Z.to_nat 0) with 0%nat in *|change (Z.to_nat 1) with 1%nat in *
  |change (Z.to_nat 2) with 2%nat in *|change (Z.to_nat 3) with 3%nat in *];
  cbn [nth set_nth] in *; unfold out_degree, live_entries, row_listed; cbn [filter existsb];
  change (0 <=? -1) with false; cbn iota;
  (destruct (0 <=? a) eqn:Ea; [|assert (a = -1) by lia; subst a]);
  (destruct (0 <=? b) eqn:Eb; [|assert (b = -1) by lia; subst b]);
  (destruct (0 <=? c) eqn:Ec; [|assert (c = -1) by lia; subst c]);
  (destruct (0 <=? d) eqn:Ed; [|assert (d = -1) by lia; subst d]);
  try lia; cbn [remove_first]; decide_eqb; cbn [negb orb length];
  (split; [reflexivity|split; [reflexivity|lia]]).
Qed.

Lemma lmap_remove_set : forall acc s i row' latter, (i < length acc)%nat ->
  row_listed (nth i acc empty_row) = true ->
  remove_first latter (live_entries (nth i acc empty_row)) = live_entries row' ->
  row_listed row' = negb (match live_entries row' with [] => true | _ => false end) ->
  lmap_remove (lmap_from acc s) (s + Z.of_nat i) latter = lmap_from (set_nth acc i row') s.
Proof.
  induction acc as [|r t IH]; intros s i row' latter Hi HL Hrem Hlisted; cbn [length] in Hi; [lia|].
  destruct i as [|i]; cbn [nth] in HL, Hrem; cbn [lmap_from set_nth].
  - rewrite HL. cbn [lmap_remove]. replace (s =? s + Z.of_nat 0) with true by lia.
    rewrite Hrem, Hlisted. destruct (live_entries row'); reflexivity.
  - assert (Hrec : lmap_remove (lmap_from t (s + 1)) (s + Z.of_nat (S i)) latter = lmap_from (set_nth t i row') (s + 1)).
    { replace (s + Z.of_nat (S i)) with (s + 1 + Z.of_nat i) by lia. apply IH; [lia|assumption..]. }
    destruct (row_listed r); [|exact Hrec].
    cbn [lmap_remove]. replace (s =? s + Z.of_nat (S i)) with false by lia. rewrite Hrec. reflexivity.
Qed.

Lemma arc_count_set : forall acc i row', (i < length acc)%nat ->
  arc_count (set_nth acc i row') = arc_count acc - out_degree (nth i acc empty_row) + out_degree row'.
Proof.
  unfold arc_count. induction acc as [|r t IH]; intros i row' Hi; cbn [length] in Hi; [lia|].
  destruct i as [|i]; cbn [set_nth map nth]; rewrite !sumZ_cons; [lia|]. rewrite IH by lia. lia.
Qed.

Lemma entry_set_entry : forall acc v c x u j, 0 <= v -> (Z.to_nat v < length acc)%nat ->
  0 <= c -> (Z.to_nat c < length (get_row acc v))%nat -> 0 <= u -> 0 <= j ->
  entry (set_entry acc v c x) u j = if (u =? v) && (j =? c) then x else entry acc u j.
Proof.
  intros acc v c x u j Hv Hvl Hc Hcl Hu Hj. unfold entry, set_entry, get_row in *.
  rewrite nth2_set by assumption.
  destruct (Nat.eqb_spec (Z.to_nat u) (Z.to_nat v)) as [E1|E1];
  destruct (Nat.eqb_spec (Z.to_nat j) (Z.to_nat c)) as [E2|E2]; cbn [andb].
  - replace (u =? v) with true by lia. replace (j =? c) with true by lia. reflexivity.
  - replace (j =? c) with false by lia. rewrite andb_false_r. reflexivity.
  - replace (u =? v) with false by lia. reflexivity.
  - replace (u =? v) with false by lia. reflexivity.
Qed.

Lemma filter_head_In : forall (A : Type) (f : A -> bool) l x rest, filter f l = x :: rest -> In x l /\ f x = true.
Proof.
  intros A f l x rest H. apply filter_In. rewrite H. left. reflexivity.
Qed.

Lemma score_at_In : forall k acc sc u j, sc_ok k acc sc -> 0 <= u < pow4 k -> 0 <= j < 4 ->
  In (score_at sc u j) (nth (Z.to_nat u) sc []) /\ In (nth (Z.to_nat u) sc []) sc.
Proof.
  intros k acc sc u j Hok Hu Hj. pose proof (sc_row_len k acc sc u [] Hok Hu) as Hrl.
  destruct Hok as [Hlen _]. split.
  - unfold score_at. apply nth_In. lia.
  - apply nth_In. lia.
Qed.

Lemma live_at_col : forall k acc u j, (1 <= k)%nat -> legal k acc -> 0 <= u < pow4 k -> 0 <= j < 4 ->
  memZ ((u * 4 + j) mod pow4 k) (live_entries (get_row acc u)) = true ->
  entry acc u j = (u * 4 + j) mod pow4 k /\ 0 <= (u * 4 + j) mod pow4 k.
Proof.
  intros k acc u j Hk HL Hu Hj Hm. apply memZ_In in Hm.
  destruct (live_entry_col k acc u _ Hk HL Hu Hm) as [_ [H2 H3]].
  destruct (latter_column k u j Hk Hu Hj) as [_ C].
  replace (u * 4 + j) with (4 * u + j) in * by lia. rewrite C in H2. split; assumption.
Qed.

(* one call *)
Theorem remove_step : forall k acc ins del acc' m' u v scs, (1 <= k)%nat -> legal k acc ->
  remove_nasty_arc acc (accessor_to_latter_map acc) ins del = Ok (acc', m', (u, v), scs) ->
  legal k acc' /\ m' = accessor_to_latter_map acc'
  /\ exists j sc, 0 <= j < 4 /\ 0 <= u < pow4 k /\ entry acc u j = v /\ 0 <= v
       /\ calculate_intersection_score (accessor_to_latter_map acc) k ins del = Ok sc
       /\ (forall u' j', 0 <= u' < pow4 k -> 0 <= j' < 4 -> score_at sc u' j' <= score_at sc u j)
       /\ entry acc' u j = -1
       /\ (forall u' j', 0 <= u' < pow4 k -> 0 <= j' < 4 -> (u', j') <> (u, j) -> entry acc' u' j' = entry acc u' j')
       /\ scs = filter (fun x => 0 <? x) (concat sc)
       /\ arc_count acc' = arc_count acc - 1.
Proof.
  intros k acc ins del acc' m' u v scs Hk HL H.
  pose proof (legal_len k acc HL) as Hlen. pose proof (pow4_pos k) as Hp.
  destruct (score_spec k acc ins del Hk HL) as [sc [Esc Hok]].
  unfold remove_nasty_arc in H. rewrite Hlen, log4_pow4, Esc in H. cbn [bind] in H. cbv zeta in H.
  set (flat := concat sc) in *. set (mx := maxZ flat (hd 0 flat)) in *.
  match type of H with context [match ?X with [] => _ | _ => _ end] => destruct X as [|former rest] eqn:EF end;
    [discriminate|].
  apply filter_head_In in EF. destruct EF as [Hfin Hfmem].
  apply memZ_In in Hfmem. apply filter_In in Hfmem. destruct Hfmem as [_ Hrowmx]. apply memZ_In in Hrowmx.
  unfold obtain_vertices in Hfin. apply listed_from_In in Hfin. rewrite Hlen in Hfin.
  replace (former - 0) with former in Hfin by lia. destruct Hfin as [Hfr Hlisted].
  assert (Hfr' : 0 <= former < pow4 k) by lia. clear Hfr.
  fold (get_row acc former) in Hlisted.
  set (row := nth (Z.to_nat former) sc []) in *.
  assert (Hrow_sc : In row sc) by (apply nth_In; destruct Hok as [Hl _]; lia).
  assert (Hflat : forall x, In x flat -> x <= mx).
  { intros x Hx. apply (proj2 (maxZ_ge flat (hd 0 flat))). exact Hx. }
  assert (Hrow_le : forall x, In x row -> x <= mx).
  { intros x Hx. apply Hflat. unfold flat. apply in_concat. exists row. split; assumption. }
  destruct (argmax_spec row mx Hrowmx Hrow_le) as [Hcol Hcolmx].
  assert (Hrowlen : length row = 4%nat) by (apply (sc_row_len k acc sc former [] Hok Hfr')).
  rewrite Hrowlen in Hcol.
  set (col := argmaxZ row) in *.
  destruct (latter_map_content k acc HL) as [_ Hlook]. rewrite Hlook in H.
  replace (0 <=? former) with true in H by lia. replace (former <? pow4 k) with true in H by lia.
  rewrite Hlisted in H. cbn [andb] in H.
  destruct (memZ ((former * 4 + col) mod pow4 k) (live_entries (get_row acc former))) eqn:EM; [|discriminate].
  destruct (filter (fun x => 0 <? x) flat) as [|p0 ps] eqn:EP; [discriminate|].
  inversion H; subst acc' m' u v scs. clear H.
  destruct (live_at_col k acc former col Hk HL Hfr' ltac:(lia) EM) as [Hent Hlat].
  set (latter := (former * 4 + col) mod pow4 k) in *.
  pose proof (good_row_col_row k former _ Hk Hfr' (legal_good_row k acc former HL Hfr'))
    as [a [b [c [d [E [Ha [Hb [Hc Hd]]]]]]]].
  assert (Hrl : length (get_row acc former) = 4%nat) by (rewrite E; reflexivity).
  assert (Hnth : nth (Z.to_nat col) [a; b; c; d] (-1) = latter) by (rewrite <- E; exact Hent).
  destruct (row_clear a b c d col) as [Hrem [Hlst Hdeg]]; try lia.
  rewrite Hnth in Hrem. rewrite <- E in Hrem, Hlst, Hdeg.
  assert (Hentry : forall u' j', 0 <= u' < pow4 k -> 0 <= j' < 4 ->
            entry (set_entry acc former col (-1)) u' j' =
            if (u' =? former) && (j' =? col) then -1 else entry acc u' j').
  { intros u' j' Hu' Hj'. apply entry_set_entry; lia. }
  split; [|split].
  - (* legality *)
    destruct HL as [HLlen [HLrows HLent]]. split; [|split].
    + unfold set_entry. rewrite set_nth_length. exact HLlen.
    + unfold set_entry. apply Forall_set_nth; [exact HLrows|]. rewrite set_nth_length. exact Hrl.
    + intros u' j' Hu' Hj'. rewrite Hentry by assumption.
      destruct ((u' =? former) && (j' =? col)); [left; reflexivity|apply HLent; assumption].
  - (* the two views agree *)
    unfold accessor_to_latter_map, set_entry.
    replace former with (0 + Z.of_nat (Z.to_nat former)) at 1 by lia.
    apply lmap_remove_set; [lia|exact Hlisted|exact Hrem|exact Hlst].
  - exists col, sc. split; [lia|]. split; [exact Hfr'|]. split; [exact Hent|]. split; [exact Hlat|].
    split; [exact Esc|]. split; [|split; [|split; [|split]]].
    + intros u' j' Hu' Hj'. unfold score_at at 2. fold row. rewrite Hcolmx.
      destruct (score_at_In k acc sc u' j' Hok Hu' Hj') as [H1 H2].
      apply Hflat. unfold flat. apply in_concat. eexists. split; [exact H2|exact H1].
    + rewrite Hentry by lia. rewrite !Z.eqb_refl. reflexivity.
    + intros u' j' Hu' Hj' Hne. rewrite Hentry by assumption.
      destruct ((u' =? former) && (j' =? col)) eqn:Eb; [|reflexivity].
      exfalso. apply Hne. f_equal; lia.
    + symmetry. exact EP.
    + unfold set_entry. rewrite arc_count_set by lia. fold (get_row acc former). lia.
Qed.

(* TARGET STATEMENTS: score_spec, remove_step, remove_history -- all proved in this file exactly as stated. *)

(* any sequence of calls: every state reached by returning calls is a consistent pair of views of a legal graph, and
   the i-th returning call has removed exactly i + 1 arcs in total *)
Theorem remove_history : forall flags k acc, (1 <= k)%nat -> legal k acc ->
  forall i acc' m' arc, nth_error (run_removals flags acc (accessor_to_latter_map acc)) i = Some (acc', m', arc) ->
  legal k acc' /\ m' = accessor_to_latter_map acc' /\ arc_count acc' = arc_count acc - Z.of_nat (S i).
Proof.
  induction flags as [|[ins del] rest IH]; intros k acc Hk HL i acc' m' arc H; cbn [run_removals] in H.
  - destruct i; discriminate.
  - destruct (remove_nasty_arc acc (accessor_to_latter_map acc) ins del) as [[[[acc1 m1] [u v]] scs]| |] eqn:ER;
      [|destruct i; discriminate..].
    destruct (remove_step k acc ins del acc1 m1 u v scs Hk HL ER) as [HL1 [Em1 [j [sc Hrest]]]].
    assert (Hcount : arc_count acc1 = arc_count acc - 1) by (decompose [and] Hrest; assumption).
    destruct i as [|i]; cbn [nth_error] in H.
    + inversion H; subst. split; [exact HL1|]. split; [reflexivity|]. lia.
    + rewrite Em1 in H. destruct (IH k acc1 Hk HL1 i acc' m' arc H) as [H1 [H2 H3]].
      split; [exact H1|]. split; [exact H2|]. lia.
Qed.

Print Assumptions score_spec.
Print Assumptions remove_step.
Print Assumptions remove_history.
