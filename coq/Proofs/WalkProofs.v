(* WalkProofs.v -- C06: decoding accepts exactly the strands that are walks of the graph (and
   whose check matches), returns an array of exactly the requested length, and raises ValueError
   and nothing else otherwise.  Shape hypotheses only: no de Bruijn legality is needed, so the
   equivalence also covers graphs after arc removal; strands range over arbitrary code points. *)
From Coq Require Import Lia ZifyBool Permutation Sorted.
From DSW Require Import Py Bignum Convert Kmer Graph Coder Spec GraphSpec CoderSpec.
From DSW.Proofs Require Import BignumProofs ConvertProofs ShuffleProofs VTProofs.
Ltac Zify.zify_post_hook ::= Z.to_euclidean_division_equations.

(* ------------------------------------------------------------------------------------------ *)
(* shape facts                                                                                  *)
(* ------------------------------------------------------------------------------------------ *)
Lemma used_from_spec : forall row j0,
  StronglySorted Z.lt (used_from row j0) /\
  forall j, In j (used_from row j0) <->
            (j0 <= j < j0 + Z.of_nat (length row) /\ 0 <= nth (Z.to_nat (j - j0)) row (-1)).
Proof.
  induction row as [|x t IH]; intros j0.
  - cbn [used_from length]. split; [constructor|]. intros j. split; [intros []|].
    change (Z.of_nat 0) with 0. lia.
  - destruct (IH (j0 + 1)) as [IHs IHi]. cbn [used_from].
    assert (Hnth : forall j, j0 + 1 <= j ->
              nth (Z.to_nat (j - j0)) (x :: t) (-1) = nth (Z.to_nat (j - (j0 + 1))) t (-1)).
    { intros j Hj. replace (Z.to_nat (j - j0)) with (S (Z.to_nat (j - (j0 + 1)))) by lia. reflexivity. }
    assert (Hall : Forall (Z.lt j0) (used_from t (j0 + 1))).
    { apply Forall_forall. intros y Hy. apply IHi in Hy. lia. }
    assert (Hlen : Z.of_nat (length (x :: t)) = Z.of_nat (length t) + 1) by (cbn [length]; lia).
    rewrite Hlen.
    destruct (0 <=? x) eqn:E.
    + split; [constructor; assumption|].
      intros j. cbn [In]. rewrite IHi. split.
      * intros [H|[H1 H2]].
        -- subst j. replace (Z.to_nat (j0 - j0)) with 0%nat by lia. cbn [nth]. lia.
        -- rewrite Hnth by lia. split; [lia|exact H2].
      * intros [H1 H2]. destruct (Z.eq_dec j0 j) as [Hj|Hj]; [left; exact Hj|right].
        rewrite <- Hnth by lia. split; [lia|exact H2].
    + split; [exact IHs|].
      intros j. rewrite IHi. split.
      * intros [H1 H2]. rewrite Hnth by lia. split; [lia|exact H2].
      * intros [H1 H2]. destruct (Z.eq_dec j0 j) as [Hj|Hj].
        -- subst j. replace (Z.to_nat (j0 - j0)) with 0%nat in H2 by lia. cbn [nth] in H2. lia.
        -- rewrite <- Hnth by lia. split; [lia|exact H2].
Qed.

Theorem used_indices_spec : forall row, length row = 4%nat ->
  StronglySorted Z.lt (used_indices row) /\
  forall j, In j (used_indices row) <-> (0 <= j < 4 /\ 0 <= nth (Z.to_nat j) row (-1)).
Proof.
  intros row Hl. unfold used_indices. destruct (used_from_spec row 0) as [Hs Hi].
  split; [exact Hs|]. intros j. rewrite Hi, Hl. replace (j - 0) with j by lia.
  change (Z.of_nat 4) with 4. split; intros [H1 H2]; (split; [lia|exact H2]).
Qed.

Lemma used_from_len : forall row j0, (length (used_from row j0) <= length row)%nat.
Proof.
  induction row as [|x t IH]; intros j0; cbn [used_from length]; [lia|].
  specialize (IH (j0 + 1)). destruct (0 <=? x); cbn [length]; lia.
Qed.

Theorem py_get_row : forall acc v, in_range acc v -> py_get acc v = Ok (get_row acc v).
Proof.
  intros acc v Hv. unfold in_range, nrows in Hv. unfold get_row.
  apply py_get_ok. exact Hv.
Qed.

Lemma get_row_in : forall acc v, in_range acc v -> In (get_row acc v) acc.
Proof.
  intros acc v Hv. unfold in_range, nrows in Hv. unfold get_row. apply nth_In. lia.
Qed.

Lemma get_row_len : forall acc v, shaped acc -> in_range acc v -> length (get_row acc v) = 4%nat.
Proof.
  intros acc v [Hr _] Hv. unfold rows4 in Hr. rewrite Forall_forall in Hr.
  apply Hr. apply get_row_in. exact Hv.
Qed.

Theorem entry_in_range : forall acc v j, shaped acc -> in_range acc v -> 0 <= j < 4 -> 0 <= entry acc v j ->
  in_range acc (entry acc v j).
Proof.
  intros acc v j Hs Hv Hj He. pose proof (get_row_len acc v Hs Hv) as Hl.
  destruct Hs as [_ Hr]. unfold entries_in_range in Hr. rewrite Forall_forall in Hr.
  specialize (Hr _ (get_row_in acc v Hv)). rewrite Forall_forall in Hr.
  unfold in_range. unfold entry in *.
  assert (Hin : In (nth (Z.to_nat j) (get_row acc v) (-1)) (get_row acc v)) by (apply nth_In; lia).
  specialize (Hr _ Hin). lia.
Qed.

Lemma py_get_entry : forall acc v j, shaped acc -> in_range acc v -> 0 <= j < 4 ->
  py_get (get_row acc v) j = Ok (entry acc v j).
Proof.
  intros acc v j Hs Hv Hj. unfold entry. apply py_get_ok. rewrite (get_row_len acc v Hs Hv). lia.
Qed.

Lemma used_in_iff : forall acc v j, shaped acc -> in_range acc v ->
  (In j (used_indices (get_row acc v)) <-> (0 <= j < 4 /\ 0 <= entry acc v j)).
Proof.
  intros acc v j Hs Hv. unfold entry.
  exact (proj2 (used_indices_spec _ (get_row_len acc v Hs Hv)) j).
Qed.

Lemma used_len_le4 : forall acc v, shaped acc -> in_range acc v ->
  (length (used_indices (get_row acc v)) <= 4)%nat.
Proof.
  intros acc v Hs Hv. rewrite <- (get_row_len acc v Hs Hv). apply used_from_len.
Qed.

(* ------------------------------------------------------------------------------------------ *)
(* first_pos                                                                                    *)
(* ------------------------------------------------------------------------------------------ *)
Lemma first_pos_in : forall l x i, In x l ->
  exists r, first_pos x l i = Some r /\ i <= r < i + Z.of_nat (length l).
Proof.
  induction l as [|y t IH]; intros x i Hin; [destruct Hin|].
  cbn [first_pos length]. destruct (x =? y) eqn:E.
  - exists i. split; [reflexivity|lia].
  - destruct Hin as [Hy|Hin]; [lia|].
    destruct (IH x (i + 1) Hin) as (r & Hr & Hb). exists r. split; [exact Hr|lia].
Qed.

Lemma first_pos_notin : forall l x i, ~ In x l -> first_pos x l i = None.
Proof.
  induction l as [|y t IH]; intros x i Hn; [reflexivity|].
  cbn [first_pos]. destruct (x =? y) eqn:E.
  - exfalso. apply Hn. left. lia.
  - apply IH. intros H. apply Hn. right. exact H.
Qed.

(* ------------------------------------------------------------------------------------------ *)
(* one step of the scan                                                                         *)
(* ------------------------------------------------------------------------------------------ *)
Lemma table_row_ok : forall (sh : table) acc v, shape_table sh (nrows acc) -> in_range acc v ->
  match sh with None => True | Some t => 0 <= v < Z.of_nat (length t) end.
Proof.
  intros sh acc v Ht Hv. destruct sh as [t|]; [|exact I].
  destruct Ht as [Hl _]. unfold in_range in Hv. lia.
Qed.

Lemma step_ok : forall acc (sh : table) v c j, shaped acc -> in_range acc v -> shape_table sh (nrows acc) ->
  nuc_index c = Some j -> 0 <= entry acc v j ->
  exists rem rem',
    first_pos j (used_indices (get_row acc v)) 0 = Some rem /\
    unshuffle_digit sh v (used_indices (get_row acc v)) rem = Ok rem' /\
    0 <= rem' < Z.of_nat (length (used_indices (get_row acc v))) /\
    (length (used_indices (get_row acc v)) <= 4)%nat /\
    py_get (get_row acc v) j = Ok (entry acc v j) /\
    0 <= j < 4 /\ c = nuc_char j /\ In j (used_indices (get_row acc v)).
Proof.
  intros acc sh v c j Hs Hv Ht Hn He.
  destruct (ConvertProofs.nuc_index_some c j Hn) as [Hj Hc].
  assert (Hin : In j (used_indices (get_row acc v))) by (apply used_in_iff; auto).
  destruct (first_pos_in _ j 0 Hin) as (rem & Hfp & Hb).
  destruct (unshuffle_digit_total sh v (used_indices (get_row acc v)) rem ltac:(lia)
              (table_row_ok sh acc v Ht Hv)) as (rem' & Hu & Hb').
  exists rem, rem'. repeat split; try assumption; try lia.
  - apply used_len_le4; assumption.
  - apply py_get_entry; assumption.
Qed.

Lemma step_bad : forall acc v c, shaped acc -> in_range acc v ->
  (forall j, nuc_index c = Some j -> ~ 0 <= entry acc v j) ->
  forall j, nuc_index c = Some j -> ~ In j (used_indices (get_row acc v)).
Proof.
  intros acc v c Hs Hv Hb j Hn Hin. apply (Hb j Hn).
  apply (used_in_iff acc v j Hs Hv) in Hin. apply Hin.
Qed.

Lemma radix_unfold : forall acc v, radix acc v = Z.of_nat (length (used_indices (get_row acc v))).
Proof. reflexivity. Qed.

(* ------------------------------------------------------------------------------------------ *)
(* set_vt / number_to_bit                                                                       *)
(* ------------------------------------------------------------------------------------------ *)
Theorem set_vt_ok_or_valueerror : forall s n, 0 <= n -> (exists c, set_vt s n = Ok c) \/ set_vt s n = Raise ValueError.
Proof.
  intros s n Hn. destruct (Z.eq_dec n 0) as [->|Hz].
  - unfold set_vt. destruct (nuc_values_cases s) as [(vs & H1 & _) | (H1 & _)]; rewrite H1; cbn [bind].
    + left. eexists. reflexivity.
    + right. reflexivity.
  - destruct (set_vt_cases s n ltac:(lia)) as [(vs & ds & _ & _ & _ & _ & H) | H].
    + left. eexists. exact H.
    + right. exact H.
Qed.

Lemma fit_bits_length : forall one L, 0 <= L -> Z.of_nat (length (fit_bits one L)) = L.
Proof.
  intros one L HL. unfold fit_bits. cbv zeta.
  destruct (Z.of_nat (length one) =? L) eqn:E1; [lia|].
  destruct (Z.of_nat (length one) <? L) eqn:E2.
  - rewrite app_length, repeat_length. lia.
  - unfold py_slice_to, py_slice, clampZ. cbv zeta.
    destruct (0 <? 0) eqn:E3; [lia|]. rewrite E3.
    destruct (Z.of_nat (length one) <? 0) eqn:E4; [lia|].
    destruct (L <? 0) eqn:E5; [lia|]. rewrite E5.
    destruct (Z.of_nat (length one) <? L) eqn:E6; [lia|].
    destruct (L <=? 0) eqn:E7; [cbn [length]; lia|].
    rewrite firstn_length. change (Z.to_nat 0) with 0%nat. cbn [skipn]. lia.
Qed.

Theorem number_to_bit_str_total : forall d L, canonical d -> 0 <= L ->
  exists l, number_to_bit_str d L = Ok l /\ Z.of_nat (length l) = L.
Proof.
  intros d L Hc HL. rewrite number_to_bit_paths_agree by exact Hc.
  pose proof (canonical_nonneg d Hc) as H0.
  unfold number_to_bit_int.
  rewrite (to_radix_int_spec 2 ltac:(lia) _ _ _ (fuel_int_ok 2 (dval d) ltac:(lia) H0)).
  cbn [bind]. eexists. split; [reflexivity|]. apply fit_bits_length. exact HL.
Qed.

(* ------------------------------------------------------------------------------------------ *)
(* decode_walk                                                                                  *)
(* ------------------------------------------------------------------------------------------ *)
Lemma decode_walk_good : forall acc (sh : table) v c t j, shaped acc -> in_range acc v -> shape_table sh (nrows acc) ->
  nuc_index c = Some j -> 0 <= entry acc v j ->
  decode_walk (c :: t) acc v sh = decode_walk t acc (entry acc v j) sh \/
  exists d n, 2 <= d <= 4 /\ 0 <= n < d /\
    decode_walk (c :: t) acc v sh = (rest <- decode_walk t acc (entry acc v j) sh ;; Ok ((d, n) :: rest)).
Proof.
  intros acc sh v c t j Hs Hv Ht Hn He.
  destruct (step_ok acc sh v c j Hs Hv Ht Hn He) as (rem & rem' & Hfp & Hu & Hb & Hl4 & Hpg & Hj & Hc & Hin).
  cbn [decode_walk]. rewrite (py_get_row acc v Hv). cbn [bind].
  destruct (used_indices (get_row acc v)) as [|j0 [|j1 rest]] eqn:Eu.
  - destruct Hin.
  - left. destruct Hin as [Hin|[]]. subst j0. rewrite Hc, Z.eqb_refl, Hpg. reflexivity.
  - right. rewrite Hn, Hfp, Hu. cbn [bind]. rewrite Hpg. cbn [bind].
    exists (Z.of_nat (length (j0 :: j1 :: rest))), rem'.
    split; [cbn [length] in *; lia|]. split; [exact Hb|reflexivity].
Qed.

Lemma decode_walk_bad : forall acc (sh : table) v c t, shaped acc -> in_range acc v ->
  (forall j, nuc_index c = Some j -> ~ 0 <= entry acc v j) ->
  decode_walk (c :: t) acc v sh = Raise ValueError.
Proof.
  intros acc sh v c t Hs Hv Hb.
  pose proof (step_bad acc v c Hs Hv Hb) as Hni.
  cbn [decode_walk]. rewrite (py_get_row acc v Hv). cbn [bind].
  destruct (used_indices (get_row acc v)) as [|j0 [|j1 rest]] eqn:Eu.
  - reflexivity.
  - destruct (c =? nuc_char j0) eqn:E; [|reflexivity].
    exfalso. assert (Hj0 : 0 <= j0 < 4).
    { apply (used_in_iff acc v j0 Hs Hv). rewrite Eu. left. reflexivity. }
    apply (Hni j0); [|left; reflexivity].
    replace c with (nuc_char j0) by lia. apply nuc_index_char. exact Hj0.
  - destruct (nuc_index c) as [j|] eqn:Hn; [|reflexivity].
    rewrite (first_pos_notin _ j 0 (Hni j eq_refl)). reflexivity.
Qed.

Lemma walk_step_dec : forall acc v c,
  (exists j, nuc_index c = Some j /\ 0 <= entry acc v j) \/
  (forall j, nuc_index c = Some j -> ~ 0 <= entry acc v j).
Proof.
  intros acc v c. destruct (nuc_index c) as [j|] eqn:Hn.
  - destruct (Z_le_dec 0 (entry acc v j)) as [He|He].
    + left. exists j. split; [reflexivity|exact He].
    + right. intros j' Hj'. injection Hj' as <-. exact He.
  - right. intros j' Hj'. discriminate.
Qed.

Theorem decode_walk_accepts : forall s acc sh v, shaped acc -> in_range acc v -> shape_table sh (nrows acc) ->
  is_walk acc v s ->
  exists saved, decode_walk s acc v sh = Ok saved /\
                Forall (fun dn => 2 <= fst dn <= 4 /\ 0 <= snd dn < fst dn) saved.
Proof.
  induction s as [|c t IH]; intros acc sh v Hs Hv Ht Hw.
  - exists []. split; [reflexivity|constructor].
  - destruct Hw as (j & Hn & _ & He & Hw).
    assert (Hj : 0 <= j < 4) by (apply (ConvertProofs.nuc_index_some c j Hn)).
    pose proof (entry_in_range acc v j Hs Hv Hj He) as Hv'.
    destruct (IH acc sh _ Hs Hv' Ht Hw) as (saved & E & Hf).
    destruct (decode_walk_good acc sh v c t j Hs Hv Ht Hn He) as [Eq | (d & n & Hd & Hnn & Eq)]; rewrite Eq.
    + exists saved. split; assumption.
    + rewrite E. cbn [bind]. exists ((d, n) :: saved). split; [reflexivity|].
      constructor; [cbn [fst snd]; lia|exact Hf].
Qed.

Theorem decode_walk_rejects : forall s acc sh v, shaped acc -> in_range acc v -> shape_table sh (nrows acc) ->
  ~ is_walk acc v s -> decode_walk s acc v sh = Raise ValueError.
Proof.
  induction s as [|c t IH]; intros acc sh v Hs Hv Ht Hw.
  - exfalso. apply Hw. exact I.
  - destruct (walk_step_dec acc v c) as [(j & Hn & He) | Hb].
    + assert (Hj : 0 <= j < 4) by (apply (ConvertProofs.nuc_index_some c j Hn)).
      pose proof (entry_in_range acc v j Hs Hv Hj He) as Hv'.
      assert (Hw' : ~ is_walk acc (entry acc v j) t).
      { intros H. apply Hw. exists j. split; [exact Hn|]. split; [exact Hv|]. split; [exact He|exact H]. }
      pose proof (IH acc sh _ Hs Hv' Ht Hw') as E.
      destruct (decode_walk_good acc sh v c t j Hs Hv Ht Hn He) as [Eq | (d & n & Hd & Hnn & Eq)]; rewrite Eq, E; reflexivity.
    + apply decode_walk_bad; assumption.
Qed.

Lemma horner_fold_canonical : forall l q, canonical q ->
  Forall (fun dn : Z * Z => 2 <= fst dn <= 4 /\ 0 <= snd dn < fst dn) l ->
  canonical (fold_left (fun q dn => calculus_addition (calculus_multiplication q (fst dn)) (snd dn)) l q).
Proof.
  induction l as [|dn l IH]; intros q Hq Hf; [exact Hq|].
  cbn [fold_left]. apply IH; [|exact (Forall_inv_tail Hf)].
  apply Forall_inv in Hf.
  apply add_correct; [apply mul_correct; [exact Hq|]|]; unfold digit; lia.
Qed.

Theorem horner_canonical : forall saved, Forall (fun dn => 2 <= fst dn <= 4 /\ 0 <= snd dn < fst dn) saved ->
  canonical (horner_str saved).
Proof.
  intros saved Hf. unfold horner_str. apply horner_fold_canonical; [exact canonical_0|].
  apply Forall_rev. exact Hf.
Qed.

(* ------------------------------------------------------------------------------------------ *)
(* the check                                                                                    *)
(* ------------------------------------------------------------------------------------------ *)
Lemma listZ_eqb_refl : forall a, listZ_eqb a a = true.
Proof.
  induction a as [|x a IH]; [reflexivity|]. cbn [listZ_eqb]. rewrite Z.eqb_refl, IH. reflexivity.
Qed.

Lemma decode_check_pass : forall s L acc v f vt sh, check_ok vt s ->
  decode s L acc v f vt sh =
  if f then decode_fast s acc v sh (repeat 0 (Z.to_nat L)) 0
  else saved <- decode_walk s acc v sh ;; number_to_bit_str (horner_str saved) L.
Proof.
  intros s L acc v f vt sh Hc. unfold decode. destruct vt as [chk|].
  - unfold check_ok in Hc. rewrite Hc. cbn [bind]. rewrite listZ_eqb_refl. reflexivity.
  - reflexivity.
Qed.

Lemma decode_check_fail : forall s L acc v f vt sh, ~ check_ok vt s ->
  decode s L acc v f vt sh = Raise ValueError.
Proof.
  intros s L acc v f vt sh Hc. unfold decode. destruct vt as [chk|].
  - unfold check_ok in Hc.
    destruct (set_vt_ok_or_valueerror s (Z.of_nat (length chk)) ltac:(lia)) as [(c & E) | E]; rewrite E; cbn [bind].
    + destruct (listZ_eqb c chk) eqn:Eb; [|reflexivity].
      exfalso. apply Hc. rewrite E. f_equal. apply listZ_eqb_true. exact Eb.
    + reflexivity.
  - exfalso. apply Hc. exact I.
Qed.

Lemma check_ok_dec : forall vt s, check_ok vt s \/ ~ check_ok vt s.
Proof.
  intros vt s. destruct vt as [chk|]; [|left; exact I].
  unfold check_ok.
  destruct (set_vt_ok_or_valueerror s (Z.of_nat (length chk)) ltac:(lia)) as [(c & E) | E]; rewrite E.
  - destruct (listZ_eqb c chk) eqn:Eb.
    + left. f_equal. apply listZ_eqb_true. exact Eb.
    + right. intros H. injection H as ->. rewrite listZ_eqb_refl in Eb. discriminate.
  - right. discriminate.
Qed.

(* ------------------------------------------------------------------------------------------ *)
(* C06, arbitrary-precision mode                                                                *)
(* ------------------------------------------------------------------------------------------ *)
Theorem decode_normal_iff : forall acc v0 sh s L vt, shaped acc -> in_range acc v0 -> shape_table sh (nrows acc) -> 0 <= L ->
  (is_walk acc v0 s /\ check_ok vt s ->
     exists bits, decode s L acc v0 false vt sh = Ok bits /\ Z.of_nat (length bits) = L) /\
  (~ (is_walk acc v0 s /\ check_ok vt s) -> decode s L acc v0 false vt sh = Raise ValueError).
Proof.
  intros acc v0 sh s L vt Hs Hv Ht HL. split.
  - intros [Hw Hc]. rewrite (decode_check_pass _ _ _ _ _ _ _ Hc).
    destruct (decode_walk_accepts s acc sh v0 Hs Hv Ht Hw) as (saved & E & Hf).
    rewrite E. cbn [bind].
    apply number_to_bit_str_total; [apply horner_canonical; exact Hf|exact HL].
  - intros Hn. destruct (check_ok_dec vt s) as [Hc|Hc].
    + rewrite (decode_check_pass _ _ _ _ _ _ _ Hc).
      rewrite (decode_walk_rejects s acc sh v0 Hs Hv Ht); [reflexivity|].
      intros Hw. apply Hn. split; assumption.
    + apply decode_check_fail. exact Hc.
Qed.

(* ------------------------------------------------------------------------------------------ *)
(* decode_fast                                                                                  *)
(* ------------------------------------------------------------------------------------------ *)
Lemma set_nth_length : forall {A} (l : list A) i x, length (set_nth l i x) = length l.
Proof.
  intros A. induction l as [|y t IH]; intros i x; [destruct i; reflexivity|].
  destruct i as [|i]; cbn [set_nth length]; [reflexivity|]. rewrite IH. reflexivity.
Qed.

Lemma write_bit_ok : forall bits pos x, 0 <= pos < Z.of_nat (length bits) ->
  exists b, write_bit bits pos x = Ok b /\ length b = length bits.
Proof.
  intros bits pos x Hp. unfold write_bit.
  destruct (pos <? 0) eqn:E1; [lia|]. destruct (Z.of_nat (length bits) <=? pos) eqn:E2; [lia|].
  cbn [orb]. eexists. split; [reflexivity|]. apply set_nth_length.
Qed.

Lemma decode_fast_good : forall acc (sh : table) v c t j bits loc, shaped acc -> in_range acc v -> shape_table sh (nrows acc) ->
  nuc_index c = Some j -> 0 <= entry acc v j ->
  exists n, 0 <= n < radix acc v /\ radix acc v <= 4 /\
    decode_fast (c :: t) acc v sh bits loc =
    (if radix acc v =? 4 then
       b1 <- write_bit bits loc (n / 2) ;;
       b2 <- (if loc + 1 <? Z.of_nat (length bits) then write_bit b1 (loc + 1) (n mod 2) else Ok b1) ;;
       decode_fast t acc (entry acc v j) sh b2 (loc + 2)
     else if radix acc v =? 2 then
       b1 <- write_bit bits loc (n mod 2) ;;
       decode_fast t acc (entry acc v j) sh b1 (loc + 1)
     else if radix acc v =? 1 then decode_fast t acc (entry acc v j) sh bits loc
     else Raise ValueError).
Proof.
  intros acc sh v c t j bits loc Hs Hv Ht Hn He.
  destruct (step_ok acc sh v c j Hs Hv Ht Hn He) as (rem & rem' & Hfp & Hu & Hb & Hl4 & Hpg & Hj & Hc & Hin).
  exists rem'. rewrite radix_unfold. split; [exact Hb|]. split; [lia|].
  cbn [decode_fast]. rewrite (py_get_row acc v Hv). cbn [bind].
  rewrite Hn, Hfp, Hu. cbn [bind]. rewrite Hpg. cbn [bind]. reflexivity.
Qed.

Lemma decode_fast_bad : forall acc (sh : table) v c t bits loc, shaped acc -> in_range acc v ->
  (forall j, nuc_index c = Some j -> ~ 0 <= entry acc v j) ->
  decode_fast (c :: t) acc v sh bits loc = Raise ValueError.
Proof.
  intros acc sh v c t bits loc Hs Hv Hb.
  pose proof (step_bad acc v c Hs Hv Hb) as Hni.
  cbn [decode_fast]. rewrite (py_get_row acc v Hv). cbn [bind].
  destruct (nuc_index c) as [j|] eqn:Hn; [|reflexivity].
  rewrite (first_pos_notin _ j 0 (Hni j eq_refl)). reflexivity.
Qed.

Lemma bits_carried_nonneg : forall acc s v, 0 <= bits_carried acc v s.
Proof.
  intros acc. induction s as [|c t IH]; intros v; cbn [bits_carried]; [lia|].
  destruct (nuc_index c) as [j|]; [|lia].
  destruct ((0 <=? v) && (v <? nrows acc) && (0 <=? entry acc v j)); [|lia].
  specialize (IH (entry acc v j)). unfold step_bits.
  destruct (radix acc v =? 4); [lia|]. destruct (radix acc v =? 2); lia.
Qed.

Lemma decode_fast_main : forall acc (sh : table), shaped acc -> shape_table sh (nrows acc) -> no_outdeg3 acc ->
  forall s v bits loc, in_range acc v -> 0 <= loc ->
  loc + bits_carried acc v s <= Z.of_nat (length bits) ->
  (is_walk acc v s -> exists out, decode_fast s acc v sh bits loc = Ok out /\ length out = length bits) /\
  (~ is_walk acc v s -> decode_fast s acc v sh bits loc = Raise ValueError).
Proof.
  intros acc sh Hs Ht H3. induction s as [|c t IH]; intros v bits loc Hv Hloc HL.
  - split.
    + intros _. exists bits. split; reflexivity.
    + intros H. exfalso. apply H. exact I.
  - destruct (walk_step_dec acc v c) as [(j & Hn & He) | Hb].
    + assert (Hj : 0 <= j < 4) by (apply (ConvertProofs.nuc_index_some c j Hn)).
      pose proof (entry_in_range acc v j Hs Hv Hj He) as Hv'.
      assert (Hiff : is_walk acc v (c :: t) <-> is_walk acc (entry acc v j) t).
      { split.
        - intros (j' & Hn' & _ & _ & Hw). rewrite Hn in Hn'. injection Hn' as <-. exact Hw.
        - intros Hw. exists j. split; [exact Hn|]. split; [exact Hv|]. split; [exact He|exact Hw]. }
      cbn [bits_carried] in HL. rewrite Hn in HL.
      assert (Hcond : (0 <=? v) && (v <? nrows acc) && (0 <=? entry acc v j) = true).
      { unfold in_range in Hv. lia. }
      rewrite Hcond in HL. clear Hcond.
      destruct (decode_fast_good acc sh v c t j bits loc Hs Hv Ht Hn He) as (n & Hnr & Hr4 & Eq).
      rewrite Eq. clear Eq. rewrite Hiff. unfold step_bits in HL.
      pose proof (H3 v Hv) as Hne3.
      pose proof (bits_carried_nonneg acc t (entry acc v j)) as Hnn.
      destruct (radix acc v =? 4) eqn:E4.
      { destruct (write_bit_ok bits loc (n / 2) ltac:(lia)) as (b1 & W1 & L1). rewrite W1. cbn [bind].
        destruct (loc + 1 <? Z.of_nat (length bits)) eqn:E5; [|lia].
        destruct (write_bit_ok b1 (loc + 1) (n mod 2) ltac:(lia)) as (b2 & W2 & L2). rewrite W2. cbn [bind].
        rewrite <- L1, <- L2. apply IH; [exact Hv'|lia|lia]. }
      destruct (radix acc v =? 2) eqn:E2.
      { destruct (write_bit_ok bits loc (n mod 2) ltac:(lia)) as (b1 & W1 & L1). rewrite W1. cbn [bind].
        rewrite <- L1. apply IH; [exact Hv'|lia|lia]. }
      destruct (radix acc v =? 1) eqn:E1.
      { apply IH; [exact Hv'|lia|lia]. }
      split; [|reflexivity]. intros _. exfalso. lia.
    + rewrite (decode_fast_bad acc sh v c t bits loc Hs Hv Hb). split; [|reflexivity].
      intros (j & Hn & _ & He & _). exfalso. exact (Hb j Hn He).
Qed.

(* C06, fast mode *)
Theorem decode_fast_iff : forall acc v0 sh s L vt, shaped acc -> in_range acc v0 -> shape_table sh (nrows acc) ->
  no_outdeg3 acc -> 0 <= L -> bits_carried acc v0 s <= L ->
  (is_walk acc v0 s /\ check_ok vt s ->
     exists bits, decode s L acc v0 true vt sh = Ok bits /\ Z.of_nat (length bits) = L) /\
  (~ (is_walk acc v0 s /\ check_ok vt s) -> decode s L acc v0 true vt sh = Raise ValueError).
Proof.
  intros acc v0 sh s L vt Hs Hv Ht H3 HL Hbc.
  assert (Hlen : Z.of_nat (length (repeat 0 (Z.to_nat L))) = L) by (rewrite repeat_length; lia).
  destruct (decode_fast_main acc sh Hs Ht H3 s v0 (repeat 0 (Z.to_nat L)) 0 Hv ltac:(lia) ltac:(lia)) as [Ha Hr].
  split.
  - intros [Hw Hc]. rewrite (decode_check_pass _ _ _ _ _ _ _ Hc).
    destruct (Ha Hw) as (out & E & Hl). exists out. split; [exact E|]. rewrite Hl. exact Hlen.
  - intros Hn. destruct (check_ok_dec vt s) as [Hc|Hc].
    + rewrite (decode_check_pass _ _ _ _ _ _ _ Hc). apply Hr.
      intros Hw. apply Hn. split; assumption.
    + apply decode_check_fail. exact Hc.
Qed.

Print Assumptions used_indices_spec.
Print Assumptions py_get_row.
Print Assumptions entry_in_range.
Print Assumptions set_vt_ok_or_valueerror.
Print Assumptions number_to_bit_str_total.
Print Assumptions decode_walk_accepts.
Print Assumptions decode_walk_rejects.
Print Assumptions horner_canonical.
Print Assumptions decode_normal_iff.
Print Assumptions decode_fast_iff.
