(* CapacityProofs.v -- C17: certified brackets on the walk-growth rate (Collatz-Wielandt, integers only), and the exact
   clauses of the property on the binary64 model: arc-less graphs give 0, regular graphs give exactly the degree. *)
From Coq Require Import Lia ZifyBool PrimFloat.
From DSW Require Import Py Kmer Graph Spec GraphSpec CapacitySpec.
From DSW Require Capacity.
Ltac Zify.zify_post_hook ::= Z.to_euclidean_division_equations.

(* ================================================================================================================ *)
(* ---- part A: Collatz-Wielandt bounds on walk counts, for every n (integers) ------------------------------- *)

(* ---- sums ---- *)
Lemma cap_sumZ_acc : forall l a, fold_left Z.add l a = a + sumZ l.
Proof.
  induction l as [|x xs IH]; intros a.
  - unfold sumZ. cbn [fold_left]. lia.
  - unfold sumZ. cbn [fold_left]. rewrite (IH (a + x)), (IH (0 + x)). lia.
Qed.

Lemma cap_sumZ_nil : sumZ [] = 0.
Proof. reflexivity. Qed.

Lemma cap_sumZ_cons : forall x l, sumZ (x :: l) = x + sumZ l.
Proof. intros x l. unfold sumZ at 1. cbn [fold_left]. rewrite cap_sumZ_acc. lia. Qed.

Lemma sum_map_le : forall (f g : Z -> Z) l, (forall u, In u l -> f u <= g u) ->
  sumZ (map f l) <= sumZ (map g l).
Proof.
  intros f g. induction l as [|a l IH]; intros H; cbn [map].
  - lia.
  - rewrite !cap_sumZ_cons.
    assert (H1 : f a <= g a) by (apply H; left; reflexivity).
    assert (H2 : sumZ (map f l) <= sumZ (map g l)) by (apply IH; intros u Hu; apply H; right; exact Hu).
    lia.
Qed.

Lemma sum_map_scale : forall (f : Z -> Z) c l, sumZ (map (fun u => c * f u) l) = c * sumZ (map f l).
Proof.
  intros f c. induction l as [|a l IH]; cbn [map].
  - rewrite cap_sumZ_nil. lia.
  - rewrite !cap_sumZ_cons, IH. lia.
Qed.

Lemma sum_map_nonneg : forall (f : Z -> Z) l, (forall u, In u l -> 0 <= f u) -> 0 <= sumZ (map f l).
Proof.
  intros f. induction l as [|a l IH]; intros H; cbn [map].
  - rewrite cap_sumZ_nil. lia.
  - rewrite cap_sumZ_cons.
    assert (H1 : 0 <= f a) by (apply H; left; reflexivity).
    assert (H2 : 0 <= sumZ (map f l)) by (apply IH; intros u Hu; apply H; right; exact Hu).
    lia.
Qed.

Lemma sum_filter_le : forall (f g : Z -> Z) (P : Z -> bool) l, (forall u, 0 <= f u <= g u) ->
  0 <= sumZ (map f (filter P l)) <= sumZ (map g l).
Proof.
  intros f g P. induction l as [|a l IH]; intros H; cbn [map filter].
  - rewrite cap_sumZ_nil. lia.
  - specialize (IH H). pose proof (H a) as Ha. rewrite cap_sumZ_cons.
    destruct (P a); cbn [map]; [rewrite cap_sumZ_cons|]; lia.
Qed.

Theorem walks_nonneg : forall acc n v, 0 <= walks acc n v.
Proof.
  intros acc. induction n as [|n IH]; intros v; cbn [walks].
  - lia.
  - apply sum_map_nonneg. intros u _. apply IH.
Qed.

Theorem walks_in_le_walks : forall acc S n v, 0 <= walks_in acc S n v <= walks acc n v.
Proof.
  intros acc St. induction n as [|n IH]; intros v; cbn [walks walks_in].
  - lia.
  - apply sum_filter_le. exact IH.
Qed.

(* ---- reading the certificates ---- *)
Lemma cap_zrange_from_In : forall n s x, s <= x < s + Z.of_nat n -> In x (zrange_from s n).
Proof.
  induction n as [|n IH]; intros s x Hx; cbn [zrange_from].
  - lia.
  - destruct (Z.eq_dec s x) as [He|Hne]; [left; exact He|].
    right. apply IH. lia.
Qed.

Lemma cap_memZ_In : forall x l, memZ x l = true -> In x l.
Proof.
  intros x. induction l as [|y t IH]; intros H; cbn [memZ] in H.
  - discriminate.
  - apply orb_true_iff in H. destruct H as [H|H]; [left; lia | right; apply IH; exact H].
Qed.

Lemma cert_upper_inv : forall acc x p q, cert_upper acc x p q = true ->
  0 < q /\ 0 <= p /\ forall v, in_range acc v -> q * sumZ (map (xat x) (succs acc v)) <= p * xat x v.
Proof.
  intros acc x p q H. unfold cert_upper in H.
  apply andb_true_iff in H. destruct H as [H Hall].
  apply andb_true_iff in H. destruct H as [H _].
  apply andb_true_iff in H. destruct H as [Hq Hp].
  split; [lia|]. split; [lia|]. intros v Hv.
  rewrite forallb_forall in Hall.
  assert (Hin : In v (zrange (length acc))).
  { unfold zrange. apply cap_zrange_from_In. unfold in_range, nrows in Hv. lia. }
  specialize (Hall v Hin). apply andb_true_iff in Hall. destruct Hall as [_ Hle]. lia.
Qed.

Lemma cert_lower_inv : forall acc St x p q, cert_lower acc St x p q = true ->
  0 < q /\ 0 <= p /\ forall v, In v St -> 0 < xat x v /\
     p * xat x v <= q * sumZ (map (xat x) (filter (fun u => memZ u St) (succs acc v))).
Proof.
  intros acc St x p q H. unfold cert_lower in H.
  apply andb_true_iff in H. destruct H as [H Hall].
  apply andb_true_iff in H. destruct H as [Hq Hp].
  split; [lia|]. split; [lia|]. intros v Hv.
  rewrite forallb_forall in Hall. specialize (Hall v Hv).
  apply andb_true_iff in Hall. destruct Hall as [Hall Hle].
  apply andb_true_iff in Hall. destruct Hall as [_ Hpos].
  split; lia.
Qed.

Lemma get_row_In : forall acc v, in_range acc v -> In (get_row acc v) acc.
Proof.
  intros acc v Hv. unfold get_row. apply nth_In. unfold in_range, nrows in Hv. lia.
Qed.

Lemma row_entries_range : forall acc v, shaped acc -> in_range acc v ->
  Forall (fun e => -1 <= e < nrows acc) (get_row acc v).
Proof.
  intros acc v [_ He] Hv. unfold entries_in_range in He.
  rewrite Forall_forall in He. apply He. apply get_row_In. exact Hv.
Qed.

Lemma succs_in_range : forall acc v u, shaped acc -> in_range acc v -> In u (succs acc v) -> in_range acc u.
Proof.
  intros acc v u Hsh Hv Hu. unfold succs, live_entries in Hu.
  apply filter_In in Hu. destruct Hu as [Hin Hge].
  pose proof (row_entries_range acc v Hsh Hv) as HF. rewrite Forall_forall in HF.
  specialize (HF u Hin). unfold in_range. lia.
Qed.

Theorem cert_upper_sound : forall acc x p q m, shaped acc -> cert_upper acc x p q = true -> 0 < m ->
  (forall v, in_range acc v -> m <= xat x v) ->
  forall n v, in_range acc v -> walks acc n v * m * q ^ Z.of_nat n <= p ^ Z.of_nat n * xat x v.
Proof.
  intros acc x p q m Hsh Hc Hm Hx.
  destruct (cert_upper_inv _ _ _ _ Hc) as [Hq [Hp Hup]].
  induction n as [|n IH]; intros v Hv.
  - cbn [walks Z.of_nat]. rewrite !Z.pow_0_r. specialize (Hx v Hv). lia.
  - cbn [walks]. rewrite Nat2Z.inj_succ, !Z.pow_succ_r by lia.
    assert (H1 : sumZ (map (walks acc n) (succs acc v)) * m * q ^ Z.of_nat n
                 <= p ^ Z.of_nat n * sumZ (map (xat x) (succs acc v))).
    { rewrite <- (sum_map_scale (xat x)).
      replace (sumZ (map (walks acc n) (succs acc v)) * m * q ^ Z.of_nat n)
        with (sumZ (map (fun u => (m * q ^ Z.of_nat n) * walks acc n u) (succs acc v)))
        by (rewrite sum_map_scale; lia).
      apply sum_map_le. intros u Hu.
      assert (Hru : in_range acc u) by (apply (succs_in_range acc v u Hsh Hv Hu)).
      specialize (IH u Hru). lia. }
    assert (HP : 0 <= p ^ Z.of_nat n) by (apply Z.pow_nonneg; lia).
    specialize (Hup v Hv).
    set (W := sumZ (map (walks acc n) (succs acc v))) in *.
    set (Sx := sumZ (map (xat x) (succs acc v))) in *.
    set (P := p ^ Z.of_nat n) in *. set (Qn := q ^ Z.of_nat n) in *.
    assert (H2 : W * m * Qn * q <= P * Sx * q) by (apply Z.mul_le_mono_nonneg_r; lia).
    assert (H3 : P * (q * Sx) <= P * (p * xat x v)) by (apply Z.mul_le_mono_nonneg_l; lia).
    lia.
Qed.

Lemma cert_lower_in : forall acc St x p q M, cert_lower acc St x p q = true ->
  (forall v, In v St -> xat x v <= M) ->
  forall n v, In v St -> p ^ Z.of_nat n * xat x v <= walks_in acc St n v * M * q ^ Z.of_nat n.
Proof.
  intros acc St x p q M Hc HM.
  destruct (cert_lower_inv _ _ _ _ _ Hc) as [Hq [Hp Hlow]].
  induction n as [|n IH]; intros v Hv.
  - cbn [walks_in Z.of_nat]. rewrite !Z.pow_0_r. specialize (HM v Hv). lia.
  - cbn [walks_in]. rewrite Nat2Z.inj_succ, !Z.pow_succ_r by lia.
    set (F := filter (fun u => memZ u St) (succs acc v)).
    assert (H1 : p ^ Z.of_nat n * sumZ (map (xat x) F)
                 <= sumZ (map (walks_in acc St n) F) * M * q ^ Z.of_nat n).
    { rewrite <- (sum_map_scale (xat x)).
      replace (sumZ (map (walks_in acc St n) F) * M * q ^ Z.of_nat n)
        with (sumZ (map (fun u => (M * q ^ Z.of_nat n) * walks_in acc St n u) F))
        by (rewrite sum_map_scale; lia).
      apply sum_map_le. intros u Hu. unfold F in Hu. apply filter_In in Hu. destruct Hu as [_ Hm].
      apply cap_memZ_In in Hm. specialize (IH u Hm). lia. }
    assert (HP : 0 <= p ^ Z.of_nat n) by (apply Z.pow_nonneg; lia).
    destruct (Hlow v Hv) as [_ Hl]. fold F in Hl.
    set (W := sumZ (map (walks_in acc St n) F)) in *.
    set (Sx := sumZ (map (xat x) F)) in *.
    set (P := p ^ Z.of_nat n) in *. set (Qn := q ^ Z.of_nat n) in *.
    assert (H2 : P * Sx * q <= W * M * Qn * q) by (apply Z.mul_le_mono_nonneg_r; lia).
    assert (H3 : P * (p * xat x v) <= P * (q * Sx)) by (apply Z.mul_le_mono_nonneg_l; lia).
    lia.
Qed.

Theorem cert_lower_sound : forall acc S x p q M, cert_lower acc S x p q = true ->
  (forall v, In v S -> xat x v <= M) ->
  forall n v, In v S -> p ^ Z.of_nat n * xat x v <= walks acc n v * M * q ^ Z.of_nat n.
Proof.
  intros acc St x p q M Hc HM n v Hv.
  pose proof (cert_lower_in acc St x p q M Hc HM n v Hv) as H1.
  destruct (cert_lower_inv _ _ _ _ _ Hc) as [Hq [Hp Hlow]].
  destruct (Hlow v Hv) as [Hpos _]. specialize (HM v Hv).
  pose proof (walks_in_le_walks acc St n v) as Hw.
  assert (HQ : 0 <= q ^ Z.of_nat n) by (apply Z.pow_nonneg; lia).
  set (Qn := q ^ Z.of_nat n) in *. set (P := p ^ Z.of_nat n) in *.
  assert (HK : 0 <= M * Qn) by (apply Z.mul_nonneg_nonneg; lia).
  assert (H2 : walks_in acc St n v * (M * Qn) <= walks acc n v * (M * Qn))
    by (apply Z.mul_le_mono_nonneg_r; lia).
  lia.
Qed.

(* ================================================================================================================ *)
(* ---- part B: exact clauses on the binary64 model (Capacity.v) ---------------------------------------------- *)

(* the arc-less graph: the code returns 0.0 without iterating *)
Theorem capacity_arcless : forall acc tol maxit starts, Capacity.all_minus_one acc = true ->
  Capacity.approximate_capacity acc tol maxit starts = Some None.
Proof.
  intros acc tol maxit starts H. unfold Capacity.approximate_capacity. rewrite H. reflexivity.
Qed.

(* small non-negative integers are exact in binary64 *)
Definition fz (d : Z) : float := PrimFloat.of_uint63 (Uint63.of_Z d).

Theorem small_int_floats : forall a b, 0 <= a -> 0 <= b -> a + b <= 4 -> (fz a + fz b)%float = fz (a + b).
Proof.
  intros a b Ha Hb Hab.
  assert (Ca : a = 0 \/ a = 1 \/ a = 2 \/ a = 3 \/ a = 4) by lia.
  assert (Cb : b = 0 \/ b = 1 \/ b = 2 \/ b = 3 \/ b = 4) by lia.
  destruct Ca as [Ca|[Ca|[Ca|[Ca|Ca]]]]; destruct Cb as [Cb|[Cb|[Cb|[Cb|Cb]]]]; subst a b;
    try lia; vm_compute; reflexivity.
Qed.

Theorem small_int_div : forall d, 1 <= d <= 4 -> (fz d / fz d)%float = fz 1 /\ (fz 0 / fz d)%float = fz 0.
Proof.
  intros d Hd.
  assert (Cd : d = 1 \/ d = 2 \/ d = 3 \/ d = 4) by lia.
  destruct Cd as [Cd|[Cd|[Cd|Cd]]]; subst d; split; vm_compute; reflexivity.
Qed.

Definition live_row (acc : accessor) (v : Z) : bool := negb (Capacity.dead_row (get_row acc v)).
Definition live_succ_count (acc : accessor) (v : Z) : Z :=
  Z.of_nat (length (filter (live_row acc) (succs acc v))).

(* ---- closed float facts (by computation) ---- *)
Lemma fz0_eq : 0%float = fz 0.
Proof. vm_compute. reflexivity. Qed.

Lemma abs_one : abs 1 = fz 1.
Proof. vm_compute. reflexivity. Qed.

Lemma fz_pos : forall d, 1 <= d <= 4 -> (0 <? fz d)%float = true.
Proof.
  intros d Hd.
  assert (Cd : d = 1 \/ d = 2 \/ d = 3 \/ d = 4) by lia.
  destruct Cd as [Cd|[Cd|[Cd|Cd]]]; subst d; vm_compute; reflexivity.
Qed.

Lemma rel_zero : forall d, 1 <= d <= 4 ->
  (if 0 <? fz d then abs (fz d - fz d) / fz d else 0)%float = 0%float.
Proof.
  intros d Hd.
  assert (Cd : d = 1 \/ d = 2 \/ d = 3 \/ d = 4) by lia.
  destruct Cd as [Cd|[Cd|[Cd|Cd]]]; subst d; vm_compute; reflexivity.
Qed.

Lemma fmax_cases : forall d, 1 <= d <= 4 ->
  Capacity.fmax (fz d) (fz 0) = fz d /\ Capacity.fmax (fz d) (fz d) = fz d /\
  Capacity.fmax (fz 0) (fz d) = fz d /\ Capacity.fmax (fz 0) (fz 0) = fz 0.
Proof.
  intros d Hd.
  assert (Cd : d = 1 \/ d = 2 \/ d = 3 \/ d = 4) by lia.
  destruct Cd as [Cd|[Cd|[Cd|Cd]]]; subst d; repeat split; vm_compute; reflexivity.
Qed.

(* ---- dead rows ---- *)
Lemma all_m1_sum : forall row a, forallb (fun e => e =? -1) row = true ->
  fold_left Z.add row a = a - Z.of_nat (length row).
Proof.
  induction row as [|e row IH]; intros a H; cbn [fold_left length].
  - lia.
  - cbn [forallb] in H. apply andb_true_iff in H. destruct H as [He H].
    rewrite (IH (a + e) H). lia.
Qed.

Lemma sum_ge_m1 : forall row a, Forall (fun e => -1 <= e) row ->
  a - Z.of_nat (length row) <= fold_left Z.add row a /\
  (fold_left Z.add row a = a - Z.of_nat (length row) -> live_entries row = []).
Proof.
  induction row as [|e row IH]; intros a HF; cbn [fold_left length].
  - split; [lia | reflexivity].
  - inversion HF as [|e' row' He HF']; subst.
    destruct (IH (a + e) HF') as [H1 H2].
    split; [lia|]. intros Heq.
    assert (Hem : e = -1) by lia. subst e.
    unfold live_entries. cbn [filter]. change (0 <=? -1) with false. cbv iota.
    apply H2. lia.
Qed.

Lemma dead_no_live : forall row, length row = 4%nat -> Forall (fun e => -1 <= e) row ->
  Capacity.dead_row row = true -> live_entries row = [].
Proof.
  intros row Hlen HF Hd. unfold Capacity.dead_row in Hd.
  destruct (sum_ge_m1 row 0 HF) as [_ H]. apply H. rewrite Hlen. lia.
Qed.

Lemma get_row_len4 : forall acc v, shaped acc -> in_range acc v -> length (get_row acc v) = 4%nat.
Proof.
  intros acc v [Hr _] Hv. unfold rows4 in Hr. rewrite Forall_forall in Hr.
  apply Hr. apply get_row_In. exact Hv.
Qed.

Lemma not_all_minus_one : forall acc v, shaped acc -> in_range acc v -> live_row acc v = true ->
  Capacity.all_minus_one acc = false.
Proof.
  intros acc v Hsh Hv Hl. destruct (Capacity.all_minus_one acc) eqn:E; [|reflexivity].
  unfold Capacity.all_minus_one in E. rewrite forallb_forall in E.
  specialize (E (get_row acc v) (get_row_In acc v Hv)).
  pose proof (all_m1_sum (get_row acc v) 0 E) as Hs.
  rewrite (get_row_len4 acc v Hsh Hv) in Hs.
  unfold live_row, Capacity.dead_row in Hl. rewrite Hs in Hl. discriminate Hl.
Qed.

(* ---- the 0/c indicator vector of the live rows ---- *)
Definition gind (c : float) (row : list Z) : float := if Capacity.dead_row row then fz 0 else c.
Definition ind (c : float) (acc : accessor) : list float := map (gind c) acc.

Lemma zero_dead_ones : forall acc : accessor,
  Capacity.zero_dead acc (map abs (Capacity.ones (length acc))) = ind (fz 1) acc.
Proof.
  intros acc. unfold Capacity.zero_dead, Capacity.ones, ind.
  induction acc as [|row acc IH]; cbn [length repeat map combine].
  - reflexivity.
  - cbn [fst snd]. rewrite IH.
    assert (Hh : (if Capacity.dead_row row then 0%float else abs 1) = gind (fz 1) row).
    { unfold gind. destruct (Capacity.dead_row row); [exact fz0_eq | exact abs_one]. }
    rewrite Hh. reflexivity.
Qed.

Lemma nth_ind : forall acc c e, 0 <= e < nrows acc ->
  nth (Z.to_nat e) (ind c acc) 0%float = gind c (get_row acc e).
Proof.
  intros acc c e He. unfold ind, get_row.
  rewrite (nth_indep _ 0%float (gind c empty_row)) by (rewrite map_length; unfold nrows in He; lia).
  apply map_nth.
Qed.

Definition rs_step (x : list float) (s : float) (e : Z) : float :=
  if 0 <=? e then (s + nth (Z.to_nat e) x 0)%float else s.

Lemma row_sum_fold : forall x row, Capacity.row_sum x row = fold_left (rs_step x) row 0%float.
Proof. reflexivity. Qed.

Definition cnt (acc : accessor) (row : list Z) : Z :=
  Z.of_nat (length (filter (live_row acc) (live_entries row))).

Lemma cnt_nil : forall acc, cnt acc [] = 0.
Proof. reflexivity. Qed.

Lemma cnt_cons : forall acc e row,
  cnt acc (e :: row) = (if 0 <=? e then (if live_row acc e then 1 else 0) else 0) + cnt acc row.
Proof.
  intros acc e row. unfold cnt, live_entries. cbn [filter].
  destruct (0 <=? e); [|lia]. cbn [filter].
  destruct (live_row acc e); cbn [length]; lia.
Qed.

Lemma filter_len_le : forall (A : Type) (P : A -> bool) l, (length (filter P l) <= length l)%nat.
Proof.
  intros A P. induction l as [|a l IH]; cbn [filter length]; [lia|].
  destruct (P a); cbn [length]; lia.
Qed.

Lemma cnt_le_len : forall acc row, 0 <= cnt acc row <= Z.of_nat (length row).
Proof.
  intros acc row. unfold cnt, live_entries.
  pose proof (filter_len_le Z (live_row acc) (filter (fun x => 0 <=? x) row)) as H1.
  pose proof (filter_len_le Z (fun x => 0 <=? x) row) as H2. lia.
Qed.

Lemma row_fold_count : forall acc row a, Forall (fun e => -1 <= e < nrows acc) row -> 0 <= a ->
  a + cnt acc row <= 4 ->
  fold_left (rs_step (ind (fz 1) acc)) row (fz a) = fz (a + cnt acc row).
Proof.
  intros acc. induction row as [|e row IH]; intros a HF Ha Hb.
  - cbn [fold_left]. rewrite cnt_nil. f_equal. lia.
  - inversion HF as [|e' row' He HF']; subst.
    pose proof (cnt_le_len acc row) as Hc.
    rewrite cnt_cons in Hb |- *. cbn [fold_left]. unfold rs_step at 2.
    destruct (0 <=? e) eqn:E.
    + rewrite nth_ind by lia. unfold gind. unfold live_row in Hb |- *.
      destruct (Capacity.dead_row (get_row acc e)); cbn [negb] in Hb |- *.
      * rewrite small_int_floats by lia. rewrite (IH (a + 0)) by (try exact HF'; lia). f_equal. lia.
      * rewrite small_int_floats by lia. rewrite (IH (a + 1)) by (try exact HF'; lia). f_equal. lia.
    + rewrite (IH a) by (try exact HF'; lia). f_equal.
Qed.

(* one multiplication step: the live-row indicator is mapped to d times itself *)
Lemma row_sum_ind : forall acc d v, shaped acc -> in_range acc v ->
  (live_row acc v = true -> live_succ_count acc v = d) ->
  Capacity.row_sum (ind (fz 1) acc) (get_row acc v) = gind (fz d) (get_row acc v).
Proof.
  intros acc d v Hsh Hv Hreg.
  pose proof (row_entries_range acc v Hsh Hv) as HF.
  pose proof (get_row_len4 acc v Hsh Hv) as Hlen.
  pose proof (cnt_le_len acc (get_row acc v)) as Hc. rewrite Hlen in Hc.
  rewrite row_sum_fold, fz0_eq.
  rewrite (row_fold_count acc (get_row acc v) 0 HF) by lia.
  unfold gind. destruct (Capacity.dead_row (get_row acc v)) eqn:D.
  - assert (HF1 : Forall (fun e => -1 <= e) (get_row acc v)).
    { eapply Forall_impl; [|exact HF]. cbv beta. intros; lia. }
    unfold cnt. rewrite (dead_no_live _ Hlen HF1 D). reflexivity.
  - assert (Hl : live_row acc v = true) by (unfold live_row; rewrite D; reflexivity).
    specialize (Hreg Hl). unfold live_succ_count, succs in Hreg. fold (cnt acc (get_row acc v)) in Hreg.
    rewrite Hreg. f_equal.
Qed.

Theorem mat_vec_indicator : forall acc d, shaped acc ->
  (forall v, in_range acc v -> live_row acc v = true -> live_succ_count acc v = d) ->
  Capacity.mat_vec acc (ind (fz 1) acc) = ind (fz d) acc.
Proof.
  intros acc d Hsh Hreg. unfold Capacity.mat_vec, ind. apply map_ext_in. intros row Hin.
  destruct (In_nth _ _ empty_row Hin) as [i [Hi Heq]].
  assert (Hv : in_range acc (Z.of_nat i)) by (unfold in_range, nrows; lia).
  assert (Hrow : get_row acc (Z.of_nat i) = row) by (unfold get_row; rewrite Nat2Z.id; exact Heq).
  rewrite <- Hrow. apply row_sum_ind; [exact Hsh | exact Hv | apply Hreg; exact Hv].
Qed.

(* ---- max and normalisation ---- *)
Lemma fold_fmax_d : forall d l, 1 <= d <= 4 -> Forall (fun y => y = fz 0 \/ y = fz d) l ->
  fold_left Capacity.fmax l (fz d) = fz d.
Proof.
  intros d l Hd. destruct (fmax_cases d Hd) as [F1 [F2 _]].
  induction l as [|y l IH]; intros HF; cbn [fold_left].
  - reflexivity.
  - inversion HF as [|y' l' Hy HF']; subst.
    destruct Hy as [Hy|Hy]; subst y; [rewrite F1 | rewrite F2]; apply IH; exact HF'.
Qed.

Lemma fold_fmax_0 : forall d l, 1 <= d <= 4 -> Forall (fun y => y = fz 0 \/ y = fz d) l ->
  In (fz d) l -> fold_left Capacity.fmax l (fz 0) = fz d.
Proof.
  intros d l Hd. destruct (fmax_cases d Hd) as [_ [_ [F3 F4]]].
  induction l as [|y l IH]; intros HF Hin; cbn [fold_left].
  - contradiction.
  - inversion HF as [|y' l' Hy HF']; subst.
    destruct Hin as [Hin|Hin].
    + subst y. rewrite F3. apply fold_fmax_d; assumption.
    + destruct Hy as [Hy|Hy]; subst y.
      * rewrite F4. apply IH; assumption.
      * rewrite F3. apply fold_fmax_d; assumption.
Qed.

Lemma vec_max_0d : forall d l, 1 <= d <= 4 -> Forall (fun y => y = fz 0 \/ y = fz d) l ->
  In (fz d) l -> Capacity.vec_max l = fz d.
Proof.
  intros d l Hd HF Hin. destruct l as [|h t]; [contradiction|]. cbn [Capacity.vec_max].
  inversion HF as [|h' t' Hh HF']; subst.
  destruct Hin as [Hin|Hin].
  - subst h. apply fold_fmax_d; assumption.
  - destruct Hh as [Hh|Hh]; subst h; [apply fold_fmax_0 | apply fold_fmax_d]; assumption.
Qed.

Lemma vec_max_ind : forall acc d v, 1 <= d <= 4 -> in_range acc v -> live_row acc v = true ->
  Capacity.vec_max (ind (fz d) acc) = fz d.
Proof.
  intros acc d v Hd Hv Hl. apply vec_max_0d; [exact Hd | |].
  - unfold ind. rewrite Forall_forall. intros y Hy. apply in_map_iff in Hy.
    destruct Hy as [row [Hy _]]. subst y. unfold gind.
    destruct (Capacity.dead_row row); [left | right]; reflexivity.
  - unfold ind. apply in_map_iff. exists (get_row acc v). split; [|apply get_row_In; exact Hv].
    unfold gind. unfold live_row in Hl. destruct (Capacity.dead_row (get_row acc v)); [discriminate Hl | reflexivity].
Qed.

Lemma normalise_ind : forall acc d, 1 <= d <= 4 ->
  map (fun a => (a / fz d)%float) (ind (fz d) acc) = ind (fz 1) acc.
Proof.
  intros acc d Hd. destruct (small_int_div d Hd) as [D1 D0].
  unfold ind. rewrite map_map. apply map_ext. intros row. unfold gind.
  destruct (Capacity.dead_row row); [exact D0 | exact D1].
Qed.

(* ---- the two iterations of power_loop ---- *)
Lemma pl_none : forall f acc tol maxit x q r lam x',
  Capacity.vec_max (Capacity.mat_vec acc x) = lam -> (0 <? lam)%float = true ->
  map (fun a => (a / lam)%float) (Capacity.mat_vec acc x) = x' ->
  Capacity.power_loop (S f) acc tol maxit x None q r =
  Capacity.power_loop f acc tol maxit x' (Some lam) q (lam :: r).
Proof.
  intros f acc tol maxit x q r lam x' Hl Hp Hx.
  cbn [Capacity.power_loop]. rewrite Hl, Hp, Hx. reflexivity.
Qed.

Lemma pl_stop : forall f acc tol maxit x l0 q r lam,
  Capacity.vec_max (Capacity.mat_vec acc x) = lam ->
  ((if 0 <? l0 then abs (lam - l0) / l0 else 0) <? tol)%float = true ->
  Nat.ltb maxit (length (q ++ [lam])) = false ->
  Capacity.power_loop (S f) acc tol maxit x (Some l0) q r = Some ([lam], rev (lam :: r)).
Proof.
  intros f acc tol maxit x l0 q r lam Hl Hrel Hover.
  cbn [Capacity.power_loop]. rewrite Hl, Hrel, Hover. reflexivity.
Qed.

Theorem capacity_regular : forall acc d tol maxit, shaped acc -> 1 <= d <= 4 -> (1 <= maxit)%nat -> (0 <? tol)%float = true ->
  (exists v, in_range acc v /\ live_row acc v = true) ->
  (forall v, in_range acc v -> live_row acc v = true -> live_succ_count acc v = d) ->
  Capacity.approximate_capacity acc tol maxit [Capacity.ones (length acc)] = Some (Some ([fz d], [[fz d; fz d]])).
Proof.
  intros acc d tol maxit Hsh Hd Hmax Htol [v0 [Hv0 Hl0]] Hreg.
  unfold Capacity.approximate_capacity.
  rewrite (not_all_minus_one acc v0 Hsh Hv0 Hl0).
  cbn [Capacity.repeats_loop].
  rewrite zero_dead_ones.
  pose proof (mat_vec_indicator acc d Hsh Hreg) as Hmv.
  pose proof (vec_max_ind acc d v0 Hd Hv0 Hl0) as Hvm.
  pose proof (fz_pos d Hd) as Hpos.
  pose proof (normalise_ind acc d Hd) as Hnorm.
  rewrite (pl_none (S maxit) acc tol maxit (ind (fz 1) acc) [] [] (fz d) (ind (fz 1) acc));
    [ | rewrite Hmv; exact Hvm | exact Hpos | rewrite Hmv; exact Hnorm ].
  rewrite (pl_stop maxit acc tol maxit (ind (fz 1) acc) (fz d) [] [fz d] (fz d)).
  - reflexivity.
  - rewrite Hmv. exact Hvm.
  - rewrite (rel_zero d Hd). exact Htol.
  - cbn [length app]. apply Nat.ltb_ge. lia.
Qed.

Print Assumptions walks_nonneg.
Print Assumptions walks_in_le_walks.
Print Assumptions cert_upper_sound.
Print Assumptions cert_lower_sound.
Print Assumptions capacity_arcless.
Print Assumptions small_int_floats.
Print Assumptions small_int_div.
Print Assumptions capacity_regular.
