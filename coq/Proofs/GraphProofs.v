(* GraphProofs.v -- C11 (vertex discovery and the valid graph mirror the filter), the legality
   invariant of C13 for the graph builders, and basic facts about accessors. *)
From Coq Require Import Lia ZifyBool.
From DSW Require Import Py Bignum Convert Kmer Graph Spec GraphSpec.
From DSW.Proofs Require Import KmerProofs.
Ltac Zify.zify_post_hook ::= Z.to_euclidean_division_equations.

(* ---- vertices_of ------------------------------------------------------------------------ *)
Lemma vertices_length : forall k, length (vertices_of k) = Z.to_nat (pow4 k).
Proof. intros k. unfold vertices_of, zrange. apply zrange_from_length. Qed.

Lemma vertices_nth : forall k v d, 0 <= v < pow4 k -> nth (Z.to_nat v) (vertices_of k) d = v.
Proof.
  intros k v d Hv. unfold vertices_of, zrange. rewrite zrange_from_nth by lia. lia.
Qed.

Lemma nth_map_vertices : forall (B : Type) (g : Z -> B) k v d, 0 <= v < pow4 k ->
  nth (Z.to_nat v) (map g (vertices_of k)) d = g v.
Proof.
  intros B g k v d Hv.
  rewrite (nth_map_lt _ _ g _ _ d 0) by (rewrite vertices_length; lia).
  rewrite vertices_nth by exact Hv. reflexivity.
Qed.

Lemma zrange_from_In : forall n s x, In x (zrange_from s n) -> s <= x < s + Z.of_nat n.
Proof.
  induction n as [|n IH]; intros s x Hin; cbn [zrange_from In] in Hin.
  - contradiction.
  - destruct Hin as [He|Hin]; [lia|]. apply IH in Hin. lia.
Qed.

Lemma In_vertices : forall k v, In v (vertices_of k) <-> 0 <= v < pow4 k.
Proof.
  intros k v. pose proof (pow4_pos k) as Hp. split.
  - intros Hin. unfold vertices_of, zrange in Hin. apply zrange_from_In in Hin. lia.
  - intros Hv. rewrite <- (vertices_nth k v 0 Hv) at 1. apply nth_In.
    rewrite vertices_length. lia.
Qed.

(* ---- kmer_string ------------------------------------------------------------------------- *)
(* the k-mer string handed to the filter for vertex v is the k-mer whose index is v *)
Theorem kmer_string_spec : forall k v, 0 <= v < pow4 k ->
  exists km, is_kmer k km /\ kmer_index km = v /\ kmer_string k v = map nuc_char km.
Proof.
  intros k v Hv. destruct (kmer_index_surj k v Hv) as [km [Hk [Hi Hn]]].
  exists km. split; [exact Hk|]. split; [exact Hi|].
  unfold kmer_string. rewrite Hn. reflexivity.
Qed.

(* ---- find_vertices ----------------------------------------------------------------------- *)
Lemma forallb_false_ex : forall (A : Type) (p : A -> bool) l, forallb p l = false ->
  exists x, In x l /\ p x = false.
Proof.
  intros A p. induction l as [|x xs IH]; intros H; cbn [forallb] in H.
  - discriminate.
  - destruct (p x) eqn:E.
    + cbn [andb] in H. destruct (IH H) as [y [Hy Hp]]. exists y. split; [right; exact Hy | exact Hp].
    + exists x. split; [left; reflexivity | exact E].
Qed.

(* C11, first half: for ANY filter f (user-defined ones included) *)
Theorem find_vertices_spec : forall k (f : list Z -> bool),
  match find_vertices k f with
  | Ok mask => length mask = Z.to_nat (pow4 k)
               /\ (forall v, 0 <= v < pow4 k -> nth (Z.to_nat v) mask 0 = if f (kmer_string k v) then 1 else 0)
               /\ (exists v, 0 <= v < pow4 k /\ f (kmer_string k v) = true)
  | Raise ValueError => forall v, 0 <= v < pow4 k -> f (kmer_string k v) = false
  | _ => False
  end.
Proof.
  intros k f. unfold find_vertices.
  set (g := fun v : Z => if f (kmer_string k v) then 1 else 0).
  destruct (forallb (fun x => x =? 0) (map g (vertices_of k))) eqn:E.
  - intros v Hv. rewrite forallb_forall in E.
    assert (Hin : In (g v) (map g (vertices_of k))).
    { apply in_map. apply In_vertices. exact Hv. }
    specialize (E (g v) Hin). unfold g in E.
    destruct (f (kmer_string k v)); [discriminate E | reflexivity].
  - split; [|split].
    + rewrite map_length. apply vertices_length.
    + intros v Hv. rewrite nth_map_vertices by exact Hv. reflexivity.
    + apply forallb_false_ex in E. destruct E as [x [Hin Hx]].
      apply in_map_iff in Hin. destruct Hin as [v [Hgv Hv]].
      apply In_vertices in Hv. exists v. split; [exact Hv|].
      unfold g in Hgv. destruct (f (kmer_string k v)); [reflexivity|].
      subst x. discriminate Hx.
Qed.

(* ---- induced ----------------------------------------------------------------------------- *)
Lemma induced_row_length : forall k mask v, length (induced_row k mask v) = 4%nat.
Proof.
  intros k mask v. unfold induced_row. destruct (maskb mask v).
  - rewrite map_length. unfold obtain_latters. reflexivity.
  - reflexivity.
Qed.

Lemma get_row_induced : forall k mask v, 0 <= v < pow4 k ->
  get_row (induced k mask) v = induced_row k mask v.
Proof.
  intros k mask v Hv. unfold get_row, induced. apply nth_map_vertices. exact Hv.
Qed.

Lemma nth_latters : forall k v j, 0 <= j < 4 ->
  nth (Z.to_nat j) (obtain_latters v k) (-1) = (4 * v + j) mod pow4 k.
Proof.
  intros k v j Hj. unfold obtain_latters. cbn [map].
  assert (H : j = 0 \/ j = 1 \/ j = 2 \/ j = 3) by lia.
  destruct H as [H|[H|[H|H]]]; subst j.
  - change (Z.to_nat 0) with 0%nat. cbn [nth]. f_equal. lia.
  - change (Z.to_nat 1) with 1%nat. cbn [nth]. f_equal. lia.
  - change (Z.to_nat 2) with 2%nat. cbn [nth]. f_equal. lia.
  - change (Z.to_nat 3) with 3%nat. cbn [nth]. f_equal. lia.
Qed.

Lemma nth_empty_row : forall j, nth j empty_row (-1) = -1.
Proof.
  intros j. unfold empty_row.
  do 4 (destruct j as [|j]; [reflexivity|]). destruct j; reflexivity.
Qed.

(* the induced sub-graph of a mask *)
Theorem induced_shape : forall k mask, length (induced k mask) = Z.to_nat (pow4 k) /\ rows4 (induced k mask).
Proof.
  intros k mask. split.
  - unfold induced. rewrite map_length. apply vertices_length.
  - unfold rows4, induced. apply Forall_forall. intros r Hin.
    apply in_map_iff in Hin. destruct Hin as [v [Hr _]]. subst r. apply induced_row_length.
Qed.

Theorem induced_entry : forall k mask v j, 0 <= v < pow4 k -> 0 <= j < 4 ->
  entry (induced k mask) v j =
    if maskb mask v && maskb mask ((4 * v + j) mod pow4 k) then (4 * v + j) mod pow4 k else -1.
Proof.
  intros k mask v j Hv Hj. unfold entry. rewrite get_row_induced by exact Hv.
  unfold induced_row. destruct (maskb mask v); cbn [andb].
  - rewrite (nth_map_lt _ _ (fun l => if maskb mask l then l else -1) _ _ (-1) (-1))
      by (unfold obtain_latters; cbn [map length]; lia).
    rewrite nth_latters by exact Hj. reflexivity.
  - apply nth_empty_row.
Qed.

Theorem induced_legal : forall k mask, legal k (induced k mask).
Proof.
  intros k mask. destruct (induced_shape k mask) as [Hl Hr].
  split; [exact Hl|]. split; [exact Hr|].
  intros v j Hv Hj. rewrite induced_entry by assumption.
  destruct (maskb mask v && maskb mask ((4 * v + j) mod pow4 k)); [right | left]; reflexivity.
Qed.

Theorem induced_eq_induced_on : forall k mask, induced k mask = induced_on k (maskb mask).
Proof. intros k mask. reflexivity. Qed.

(* ---- connect_valid_graph ----------------------------------------------------------------- *)
Lemma sumZ_acc : forall l a, fold_left Z.add l a = a + sumZ l.
Proof.
  induction l as [|x xs IH]; intros a.
  - unfold sumZ. cbn [fold_left]. lia.
  - unfold sumZ. cbn [fold_left]. rewrite (IH (a + x)), (IH (0 + x)). lia.
Qed.

Lemma sumZ_cons : forall x l, sumZ (x :: l) = x + sumZ l.
Proof. intros x l. unfold sumZ at 1. cbn [fold_left]. rewrite sumZ_acc. lia. Qed.

Lemma sumZ_nonneg_cases : forall l, Forall (fun x => 0 <= x) l ->
  0 <= sumZ l /\
  (0 < sumZ l -> exists i, (i < length l)%nat /\ nth i l 0 <> 0) /\
  (sumZ l <= 0 -> forall i, nth i l 0 = 0).
Proof.
  induction l as [|x xs IH]; intros HF.
  - split; [unfold sumZ; cbn [fold_left]; lia|]. split.
    + unfold sumZ. cbn [fold_left]. lia.
    + intros _ i. destruct i; reflexivity.
  - inversion HF as [|? ? Hx Hxs]; subst. destruct (IH Hxs) as [H0 [Hpos Hzero]].
    rewrite sumZ_cons. split; [lia|]. split.
    + intros Hs. destruct (Z.eq_dec x 0) as [Hx0|Hx0].
      * destruct Hpos as [i [Hi Hn]]; [lia|]. exists (S i). cbn [length nth]. split; [lia | exact Hn].
      * exists 0%nat. cbn [length nth]. split; [lia | exact Hx0].
    + intros Hs i. destruct i as [|i]; cbn [nth]; [lia|]. apply Hzero. lia.
Qed.

(* C11, second half *)
Theorem connect_valid_graph_spec : forall k mask, Forall (fun x => 0 <= x) mask ->
  length mask = Z.to_nat (pow4 k) ->
  match connect_valid_graph k mask with
  | Ok acc => acc = induced k mask /\ legal k acc /\ (exists v, 0 <= v < pow4 k /\ maskb mask v = true)
  | Raise ValueError => forall v, 0 <= v < pow4 k -> maskb mask v = false
  | _ => False
  end.
Proof.
  intros k mask HF Hlen. unfold connect_valid_graph.
  destruct (sumZ_nonneg_cases mask HF) as [_ [Hpos Hzero]].
  destruct (0 <? sumZ mask) eqn:E.
  - split; [reflexivity|]. split; [apply induced_legal|].
    destruct Hpos as [i [Hi Hn]]; [lia|].
    exists (Z.of_nat i). split; [lia|].
    unfold maskb. rewrite Nat2Z.id.
    destruct (nth i mask 0 =? 0) eqn:E0; [lia | reflexivity].
  - intros v Hv. unfold maskb. rewrite Hzero by lia. reflexivity.
Qed.

(* ---- legality ---------------------------------------------------------------------------- *)
(* legality gives the shape facts the coder theorems need *)
Theorem legal_shaped : forall k acc, legal k acc -> shaped acc /\ nrows acc = pow4 k.
Proof.
  intros k acc [Hlen [Hr Hent]]. pose proof (pow4_pos k) as Hp.
  assert (Hn : nrows acc = pow4 k) by (unfold nrows; rewrite Hlen; lia).
  split; [|exact Hn]. split; [exact Hr|].
  unfold entries_in_range. rewrite Hn.
  apply Forall_forall. intros row Hrow. apply Forall_forall. intros x Hx.
  destruct (In_nth _ _ empty_row Hrow) as [i [Hi Hnr]].
  destruct (In_nth _ _ (-1) Hx) as [j [Hj Hnx]].
  unfold rows4 in Hr. rewrite Forall_forall in Hr. rewrite (Hr row Hrow) in Hj.
  assert (Hv : 0 <= Z.of_nat i < pow4 k) by lia.
  assert (Hj4 : 0 <= Z.of_nat j < 4) by lia.
  specialize (Hent (Z.of_nat i) (Z.of_nat j) Hv Hj4).
  unfold entry, get_row in Hent. rewrite !Nat2Z.id, Hnr, Hnx in Hent.
  pose proof (Z.mod_pos_bound (4 * Z.of_nat i + Z.of_nat j) (pow4 k) Hp) as Hm.
  destruct Hent as [He|He]; rewrite He; lia.
Qed.

Theorem complete_legal : forall k, legal k (get_complete_accessor k).
Proof.
  intros k. unfold legal, get_complete_accessor. split; [|split].
  - rewrite map_length. apply vertices_length.
  - unfold rows4. apply Forall_forall. intros r Hin.
    apply in_map_iff in Hin. destruct Hin as [v [Hr _]]. subst r. reflexivity.
  - intros v j Hv Hj. right. unfold entry, get_row.
    rewrite (nth_map_vertices _ (fun w => obtain_latters w k)) by exact Hv.
    apply nth_latters. exact Hj.
Qed.

Print Assumptions kmer_string_spec.
Print Assumptions find_vertices_spec.
Print Assumptions induced_shape.
Print Assumptions induced_entry.
Print Assumptions induced_legal.
Print Assumptions induced_eq_induced_on.
Print Assumptions connect_valid_graph_spec.
Print Assumptions legal_shaped.
Print Assumptions complete_legal.
