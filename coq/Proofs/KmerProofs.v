(* KmerProofs.v -- C13: vertex indices are k-mers and arcs are shift-append, for every k >= 1
   and every vertex (pure Z arithmetic against list manipulation on k-mers). *)
From Coq Require Import Lia ZifyBool.
From DSW Require Import Py Bignum Convert Kmer Spec.
Ltac Zify.zify_post_hook ::= Z.to_euclidean_division_equations.

(* ---- pow4 ---------------------------------------------------------------------------- *)
Lemma pow4_0 : pow4 0 = 1.
Proof. reflexivity. Qed.

Lemma pow4_S : forall k, pow4 (S k) = 4 * pow4 k.
Proof. intros k. unfold pow4. rewrite Nat2Z.inj_succ, Z.pow_succ_r by lia. reflexivity. Qed.

Lemma pow4_pos : forall k, 0 < pow4 k.
Proof. intros k. unfold pow4. apply Z.pow_pos_nonneg; lia. Qed.

(* ---- rval 4 -------------------------------------------------------------------------- *)
Lemma rval_nil : rval 4 [] = 0.
Proof. reflexivity. Qed.

Lemma rval_snoc : forall l c, rval 4 (l ++ [c]) = 4 * rval 4 l + c.
Proof. intros l c. unfold rval. rewrite fold_left_app. reflexivity. Qed.

Lemma rval_acc : forall l a,
  fold_left (fun a d => 4 * a + d) l a = a * pow4 (length l) + rval 4 l.
Proof.
  induction l as [|x xs IH]; intros a.
  - cbn [fold_left length]. rewrite pow4_0, rval_nil. lia.
  - unfold rval. cbn [fold_left length].
    rewrite (IH (4 * a + x)), (IH (4 * 0 + x)), pow4_S. ring.
Qed.

Lemma rval_cons : forall c l, rval 4 (c :: l) = c * pow4 (length l) + rval 4 l.
Proof.
  intros c l. unfold rval at 1. cbn [fold_left]. rewrite rval_acc.
  replace (4 * 0 + c) with c by lia. reflexivity.
Qed.

Lemma rval_range : forall l, Forall nuc l -> 0 <= rval 4 l < pow4 (length l).
Proof.
  induction l as [|x xs IH] using rev_ind; intros HF.
  - rewrite rval_nil. cbn [length]. rewrite pow4_0. lia.
  - apply Forall_app in HF. destruct HF as [HF Hx].
    inversion Hx as [|? ? Hn _]; subst. unfold nuc in Hn.
    specialize (IH HF).
    rewrite rval_snoc, app_length. cbn [length]. rewrite Nat.add_1_r, pow4_S. lia.
Qed.

Lemma rval_zero_cons : forall l, rval 4 (0 :: l) = rval 4 l.
Proof. intros l. rewrite rval_cons. lia. Qed.

Lemma rval_zeros_app : forall n l, rval 4 (repeat 0 n ++ l) = rval 4 l.
Proof.
  induction n as [|n IH]; intros l.
  - reflexivity.
  - cbn [repeat app]. rewrite rval_zero_cons. apply IH.
Qed.

Lemma rval_rev_inj : forall a b, length a = length b -> Forall nuc a -> Forall nuc b ->
  rval 4 (rev a) = rval 4 (rev b) -> a = b.
Proof.
  induction a as [|x xs IH]; intros b Hlen Ha Hb He.
  - destruct b as [|y ys]; [reflexivity|]. cbn [length] in Hlen. discriminate.
  - destruct b as [|y ys]; [cbn [length] in Hlen; discriminate|].
    cbn [length] in Hlen. injection Hlen as Hlen.
    inversion Ha as [|? ? Hx Hxs]; subst. inversion Hb as [|? ? Hy Hys]; subst.
    cbn [rev] in He. rewrite !rval_snoc in He. unfold nuc in Hx, Hy.
    assert (Hxy : x = y) by lia.
    assert (Hr : rval 4 (rev xs) = rval 4 (rev ys)) by lia.
    rewrite (IH ys Hlen Hxs Hys Hr). rewrite Hxy. reflexivity.
Qed.

(* ---- targets: kmer_index is a bijection onto [0, 4^k) --------------------------------- *)
Theorem kmer_index_range : forall k km, is_kmer k km -> 0 <= kmer_index km < pow4 k.
Proof.
  intros k km [Hlen HF]. unfold kmer_index. rewrite <- Hlen. apply rval_range. exact HF.
Qed.

Theorem kmer_index_inj : forall k a b, is_kmer k a -> is_kmer k b -> kmer_index a = kmer_index b -> a = b.
Proof.
  intros k a b [Hla Ha] [Hlb Hb] He. unfold kmer_index in He.
  rewrite <- (rev_involutive a), <- (rev_involutive b).
  f_equal. apply rval_rev_inj.
  - rewrite !rev_length. congruence.
  - apply Forall_rev. exact Ha.
  - apply Forall_rev. exact Hb.
  - rewrite !rev_involutive. exact He.
Qed.

(* ---- to_radix_int in base 4 ------------------------------------------------------------ *)
Lemma to_radix_int_4 : forall fuel n acc, 0 <= n < 2 ^ Z.of_nat fuel ->
  exists ds, to_radix_int fuel 4 n acc = Ok (ds ++ acc) /\ Forall nuc ds /\ rval 4 ds = n /\
             (forall m, n < pow4 m -> (length ds <= m)%nat).
Proof.
  induction fuel as [|f IH]; intros n acc Hn.
  - change (2 ^ Z.of_nat 0) with 1 in Hn. assert (n = 0) by lia. subst n.
    exists []. cbn [to_radix_int]. change (0 <=? 0) with true. cbn [app length].
    split; [reflexivity|]. split; [constructor|]. split; [reflexivity|]. intros; lia.
  - cbn [to_radix_int]. destruct (n <=? 0) eqn:E.
    + assert (n = 0) by lia. subst n. exists []. cbn [app length].
      split; [reflexivity|]. split; [constructor|]. split; [reflexivity|]. intros; lia.
    + rewrite Nat2Z.inj_succ, Z.pow_succ_r in Hn by lia.
      assert (Hq : 0 <= n / 4 < 2 ^ Z.of_nat f) by lia.
      destruct (IH (n / 4) (n mod 4 :: acc) Hq) as [ds [Hr [HF [Hv Hl]]]].
      exists (ds ++ [n mod 4]). rewrite Hr, <- app_assoc. cbn [app].
      split; [reflexivity|]. split; [|split].
      * apply Forall_app. split; [exact HF|]. constructor; [unfold nuc; lia|constructor].
      * rewrite rval_snoc, Hv. lia.
      * intros m Hm. rewrite app_length. cbn [length].
        destruct m as [|m'].
        -- rewrite pow4_0 in Hm. lia.
        -- rewrite pow4_S in Hm. assert (Hm' : n / 4 < pow4 m') by lia.
           specialize (Hl m' Hm'). lia.
Qed.

Lemma fuel_int_enough : forall n, 0 <= n -> 0 <= n < 2 ^ Z.of_nat (fuel_int n).
Proof.
  intros n Hn. unfold fuel_int.
  pose proof (Z.log2_up_nonneg (n + 1)) as HL.
  assert (Hs : n + 1 <= 2 ^ Z.log2_up (n + 1)).
  { destruct (Z.log2_log2_up_spec (n + 1)) as [_ H]; [lia | exact H]. }
  rewrite Nat2Z.inj_succ, Z2Nat.id by lia. rewrite Z.pow_succ_r by lia. lia.
Qed.

Lemma map_nuc_char_zeros : forall n, map nuc_char (repeat 0 n) = repeat chA n.
Proof.
  induction n as [|n IH]; [reflexivity|]. cbn [repeat map]. rewrite IH. reflexivity.
Qed.

Lemma Forall_nuc_zeros : forall n, Forall nuc (repeat 0 n).
Proof.
  induction n as [|n IH]; cbn [repeat]; constructor; [unfold nuc; lia | exact IH].
Qed.

Theorem kmer_index_surj : forall k v, 0 <= v < pow4 k ->
  exists km, is_kmer k km /\ kmer_index km = v /\ number_to_dna_int v (Z.of_nat k) = Ok (map nuc_char km).
Proof.
  intros k v Hv.
  assert (Hf : 0 <= v < 2 ^ Z.of_nat (fuel_int v)) by (apply fuel_int_enough; lia).
  destruct (to_radix_int_4 (fuel_int v) v [] Hf) as [ds [Hr [HF [Hval Hl]]]].
  rewrite app_nil_r in Hr.
  assert (Hlen : (length ds <= k)%nat) by (apply Hl; lia).
  exists (repeat 0 (k - length ds) ++ ds). split; [|split].
  - split.
    + rewrite app_length, repeat_length. lia.
    + apply Forall_app. split; [apply Forall_nuc_zeros | exact HF].
  - unfold kmer_index. rewrite rval_zeros_app. exact Hval.
  - unfold number_to_dna_int. rewrite Hr. cbn [bind]. unfold fit_dna.
    rewrite map_app, map_nuc_char_zeros.
    replace (Z.to_nat (Z.of_nat k - Z.of_nat (length ds))) with (k - length ds)%nat by lia.
    reflexivity.
Qed.

(* ---- dna_to_number_int ------------------------------------------------------------------ *)
Lemma nuc_index_char : forall x, nuc x -> nuc_index (nuc_char x) = Some x.
Proof.
  intros x Hx. unfold nuc in Hx.
  assert (H : x = 0 \/ x = 1 \/ x = 2 \/ x = 3) by lia.
  destruct H as [H|[H|[H|H]]]; subst x; reflexivity.
Qed.

Lemma nuc_values_chars : forall km, Forall nuc km -> nuc_values (map nuc_char km) = Ok km.
Proof.
  induction km as [|x xs IH]; intros HF.
  - reflexivity.
  - inversion HF as [|? ? Hx Hxs]; subst.
    cbn [map nuc_values]. rewrite (nuc_index_char x Hx), (IH Hxs). reflexivity.
Qed.

Lemma fold_horner_comm : forall l a,
  fold_left (fun d v => d * 4 + v) l a = fold_left (fun a d => 4 * a + d) l a.
Proof.
  induction l as [|x xs IH]; intros a.
  - reflexivity.
  - cbn [fold_left]. rewrite IH. f_equal. lia.
Qed.

Theorem dna_to_number_kmer : forall k km, is_kmer k km -> dna_to_number_int (map nuc_char km) = Ok (kmer_index km).
Proof.
  intros k km [_ HF]. unfold dna_to_number_int. rewrite (nuc_values_chars km HF).
  cbn [bind]. rewrite fold_horner_comm. reflexivity.
Qed.

(* ---- successors / predecessors ----------------------------------------------------------- *)
Lemma shift_mod : forall h p r c, 0 <= r < p -> 0 <= c < 4 ->
  ((h * p + r) * 4 + c) mod (4 * p) = 4 * r + c.
Proof.
  intros h p r c Hr Hc. symmetry. apply Z.mod_unique with (q := h); [lia | ring].
Qed.

Theorem latters_spec : forall k km, (1 <= k)%nat -> is_kmer k km ->
  obtain_latters (kmer_index km) k = map (fun c => kmer_index (tl km ++ [c])) [0; 1; 2; 3].
Proof.
  intros k km Hk [Hlen HF].
  destruct km as [|h t]; [cbn [length] in Hlen; lia|].
  cbn [length] in Hlen. subst k.
  inversion HF as [|? ? Hh Ht]; subst.
  pose proof (rval_range t Ht) as Hr.
  unfold obtain_latters, kmer_index. cbn [map tl].
  rewrite !rval_snoc, rval_cons, pow4_S.
  rewrite !shift_mod by lia. reflexivity.
Qed.

Theorem formers_spec : forall k km, (1 <= k)%nat -> is_kmer k km ->
  obtain_formers (kmer_index km) k = map (fun c => kmer_index (c :: removelast km)) [0; 1; 2; 3].
Proof.
  intros k km Hk [Hlen HF].
  assert (Hne : km <> []) by (intros ->; cbn [length] in Hlen; lia).
  destruct (exists_last Hne) as [rl [x Hkm]]. subst km.
  rewrite app_length in Hlen. cbn [length] in Hlen. rewrite Nat.add_1_r in Hlen. subst k.
  apply Forall_app in HF. destruct HF as [_ Hx].
  inversion Hx as [|? ? Hn _]; subst. unfold nuc in Hn.
  rewrite removelast_last.
  unfold obtain_formers, kmer_index. cbn [map pow4_pred].
  rewrite !rval_cons, rval_snoc.
  replace ((4 * rval 4 rl + x) / 4) with (rval 4 rl) by lia.
  repeat (f_equal; try lia).
Qed.

Theorem latters_in_range : forall k v, 0 <= v < pow4 k -> Forall (fun w => 0 <= w < pow4 k) (obtain_latters v k).
Proof.
  intros k v Hv. pose proof (pow4_pos k) as Hp.
  unfold obtain_latters. cbn [map].
  repeat constructor; apply Z.mod_pos_bound; exact Hp.
Qed.

Theorem formers_in_range : forall k v, (1 <= k)%nat -> 0 <= v < pow4 k -> Forall (fun w => 0 <= w < pow4 k) (obtain_formers v k).
Proof.
  intros k v Hk Hv. destruct k as [|n]; [lia|].
  rewrite pow4_S in *. pose proof (pow4_pos n) as Hp.
  unfold obtain_formers. cbn [map pow4_pred].
  repeat constructor; lia.
Qed.

Lemma in_map4 : forall (f : Z -> Z) x,
  In x (map f [0; 1; 2; 3]) <-> exists j, 0 <= j < 4 /\ x = f j.
Proof.
  intros f x. cbn [map In]. split.
  - intros [H|[H|[H|[H|[]]]]]; [exists 0|exists 1|exists 2|exists 3]; (split; [lia | symmetry; exact H]).
  - intros [j [Hj He]].
    assert (H : j = 0 \/ j = 1 \/ j = 2 \/ j = 3) by lia.
    destruct H as [H|[H|[H|H]]]; subst j; rewrite He; tauto.
Qed.

Theorem pred_succ : forall k u v, (1 <= k)%nat -> 0 <= u < pow4 k -> 0 <= v < pow4 k ->
  (In u (obtain_formers v k) <-> In v (obtain_latters u k)).
Proof.
  intros k u v Hk Hu Hv. destruct k as [|n]; [lia|].
  unfold obtain_formers, obtain_latters. cbn [pow4_pred].
  rewrite (in_map4 (fun j => v / 4 + j * pow4 n) u).
  rewrite (in_map4 (fun j => (u * 4 + j) mod pow4 (S n)) v).
  rewrite pow4_S in *. pose proof (pow4_pos n) as Hp.
  set (P := pow4 n) in *. clearbody P.
  split; intros [j [Hj He]].
  - exists (v mod 4). split; [lia|].
    apply Z.mod_unique with (q := j); [lia|].
    rewrite He. replace ((v / 4 + j * P) * 4) with (4 * (v / 4) + 4 * P * j) by ring. lia.
  - pose proof (Z.div_mod (u * 4 + j) (4 * P)) as Hd.
    assert (Hm : 0 <= (u * 4 + j) mod (4 * P) < 4 * P) by (apply Z.mod_pos_bound; lia).
    assert (Hq0 : 0 <= (u * 4 + j) / (4 * P)) by (apply Z.div_pos; lia).
    assert (Hq4 : (u * 4 + j) / (4 * P) < 4) by (apply Z.div_lt_upper_bound; lia).
    rewrite <- He in Hd, Hm.
    set (q := (u * 4 + j) / (4 * P)) in *. clearbody q.
    specialize (Hd ltac:(lia)).
    exists q. split; [lia|].
    assert (H : q = 0 \/ q = 1 \/ q = 2 \/ q = 3) by lia.
    destruct H as [H|[H|[H|H]]]; subst q; lia.
Qed.

Theorem latter_column : forall k v j, (1 <= k)%nat -> 0 <= v < pow4 k -> 0 <= j < 4 ->
  nth (Z.to_nat j) (obtain_latters v k) (-1) = (4 * v + j) mod pow4 k /\ ((4 * v + j) mod pow4 k) mod 4 = j.
Proof.
  intros k v j Hk Hv Hj. split.
  - unfold obtain_latters. cbn [map].
    assert (H : j = 0 \/ j = 1 \/ j = 2 \/ j = 3) by lia.
    destruct H as [H|[H|[H|H]]]; subst j.
    + change (Z.to_nat 0) with 0%nat. cbn [nth]. f_equal. lia.
    + change (Z.to_nat 1) with 1%nat. cbn [nth]. f_equal. lia.
    + change (Z.to_nat 2) with 2%nat. cbn [nth]. f_equal. lia.
    + change (Z.to_nat 3) with 3%nat. cbn [nth]. f_equal. lia.
  - destruct k as [|n]; [lia|]. rewrite pow4_S in *. pose proof (pow4_pos n) as Hp.
    set (P := pow4 n) in *. clearbody P.
    rewrite (Z.mod_eq (4 * v + j) (4 * P)) by lia.
    set (q := (4 * v + j) / (4 * P)). clearbody q.
    replace (4 * v + j - 4 * P * q) with (j + (v - P * q) * 4) by ring.
    rewrite Z_mod_plus_full. apply Z.mod_small. lia.
Qed.

(* ---- the complete accessor --------------------------------------------------------------- *)
Lemma zrange_from_length : forall n s, length (zrange_from s n) = n.
Proof.
  induction n as [|n IH]; intros s; cbn [zrange_from length]; [reflexivity|].
  rewrite IH. reflexivity.
Qed.

Lemma zrange_from_nth : forall n s i d, (i < n)%nat -> nth i (zrange_from s n) d = s + Z.of_nat i.
Proof.
  induction n as [|n IH]; intros s i d Hi; [lia|].
  destruct i as [|i]; cbn [zrange_from nth].
  - lia.
  - rewrite IH by lia. lia.
Qed.

Lemma nth_map_lt : forall (A B : Type) (f : A -> B) l i d d', (i < length l)%nat ->
  nth i (map f l) d = f (nth i l d').
Proof.
  intros A B f. induction l as [|x xs IH]; intros i d d' Hi; cbn [length] in Hi; [lia|].
  destruct i as [|i]; cbn [map nth]; [reflexivity|]. apply IH. lia.
Qed.

Theorem complete_spec : forall k v, 0 <= v < pow4 k ->
  length (get_complete_accessor k) = Z.to_nat (pow4 k) /\
  nth (Z.to_nat v) (get_complete_accessor k) [] = obtain_latters v k.
Proof.
  intros k v Hv. unfold get_complete_accessor, vertices_of, zrange. split.
  - rewrite map_length, zrange_from_length. reflexivity.
  - rewrite (nth_map_lt _ _ (fun w => obtain_latters w k) _ _ [] 0)
      by (rewrite zrange_from_length; lia).
    rewrite zrange_from_nth by lia. f_equal. lia.
Qed.

Print Assumptions kmer_index_range.
Print Assumptions kmer_index_inj.
Print Assumptions kmer_index_surj.
Print Assumptions dna_to_number_kmer.
Print Assumptions latters_spec.
Print Assumptions formers_spec.
Print Assumptions latters_in_range.
Print Assumptions formers_in_range.
Print Assumptions pred_succ.
Print Assumptions latter_column.
Print Assumptions complete_spec.
