(* CorollaryProofs.v -- consequences of the main theorems stated directly on the library functions. *)
From Coq Require Import Lia ZifyBool Permutation.
From DSW Require Import Py Bignum Convert Kmer Graph Coder Spec GraphSpec CoderSpec FastSpec.
From DSW.Proofs Require Import KmerProofs GraphProofs GenerateProofs GeneratedProofs ComposeProofs CoderProofs WalkProofs.
Ltac Zify.zify_post_hook ::= Z.to_euclidean_division_equations.

(* pointwise inclusion of 0/1 masks *)
Definition mask_le (k : nat) (m1 m2 : list Z) : Prop := forall v, 0 <= v < pow4 k -> maskb m1 v = true -> maskb m2 v = true.

(* All TARGET STATEMENTS are proved below with Qed, exactly as given: coding_graph_monotone, coding_graph_no_dead_end,
   roundtrip_on_generated_graph. *)

(* coding_graph_t1 and coding_graph_t2 in one statement *)
Lemma cp_coding_graph : forall k t mask, (1 <= k)%nat -> length mask = Z.to_nat (pow4 k) -> Forall bit mask -> 1 <= t ->
  match connect_coding_graph k mask t with
  | Ok (V, acc) => largest_closed k t (maskb mask) (live_set acc)
                   /\ acc = induced_on k (live_set acc) /\ legal k acc
                   /\ (forall v, In v V <-> vin k (live_set acc) v)
                   /\ (exists v, vin k (live_set acc) v)
  | Raise ValueError => forall Y, closed k t Y -> vsub k Y (maskb mask) -> vempty k Y
  | _ => False
  end.
Proof.
  intros k t mask Hk Hl Hb Ht. destruct (Z.eq_dec t 1) as [E|E].
  - subst t. apply (coding_graph_t1 k mask Hk Hl Hb).
  - apply (coding_graph_t2 k t mask Hk Hl Hb). lia.
Qed.

Lemma cp_mask_le_vsub : forall k m1 m2, mask_le k m1 m2 -> vsub k (maskb m1) (maskb m2).
Proof. intros k m1 m2 H v [Hv Hm]. split; [exact Hv|]. apply H; assumption. Qed.

(* C03: a smaller mask never yields a larger graph, stated on connect_coding_graph itself: if the smaller mask gives a graph then
   so does the larger one and every vertex (and every arc) of the smaller graph is in the larger graph; if the larger mask raises
   ValueError, so does the smaller one *)
Theorem coding_graph_monotone : forall k t m1 m2, (1 <= k)%nat -> 1 <= t ->
  length m1 = Z.to_nat (pow4 k) -> length m2 = Z.to_nat (pow4 k) -> Forall bit m1 -> Forall bit m2 -> mask_le k m1 m2 ->
  match connect_coding_graph k m1 t, connect_coding_graph k m2 t with
  | Ok (V1, acc1), Ok (V2, acc2) =>
      (forall v, In v V1 -> In v V2) /\
      (forall v j, 0 <= v < pow4 k -> 0 <= j < 4 -> 0 <= entry acc1 v j -> entry acc2 v j = entry acc1 v j)
  | Raise ValueError, _ => True
  | Ok _, Raise ValueError => False
  | _, _ => False
  end.
Proof.
  intros k t m1 m2 Hk Ht Hl1 Hl2 Hb1 Hb2 Hle.
  pose proof (cp_coding_graph k t m1 Hk Hl1 Hb1 Ht) as H1.
  pose proof (cp_coding_graph k t m2 Hk Hl2 Hb2 Ht) as H2.
  pose proof (cp_mask_le_vsub k m1 m2 Hle) as HM.
  destruct (connect_coding_graph k m1 t) as [[V1 acc1]|e1|].
  - destruct H1 as [LC1 [A1 [_ [HV1 [v1 Hv1]]]]].
    remember (live_set acc1) as X1 eqn:EX1.
    destruct (connect_coding_graph k m2 t) as [[V2 acc2]|e2|].
    + destruct H2 as [LC2 [A2 [_ [HV2 _]]]].
      remember (live_set acc2) as X2 eqn:EX2.
      pose proof (largest_closed_monotone k t (maskb m1) (maskb m2) X1 X2 LC1 LC2 HM) as Hsub.
      split.
      * intros v Hin. apply HV2. apply Hsub. apply HV1. exact Hin.
      * intros v j Hv Hj. rewrite A1, A2.
        rewrite !GenerateProofs.induced_on_entry by assumption.
        pose proof (pow4_pos k) as Hp.
        assert (Hw : 0 <= (4 * v + j) mod pow4 k < pow4 k) by (apply Z.mod_pos_bound; exact Hp).
        destruct (X1 v) eqn:E1; cbn [andb]; [|lia].
        destruct (X1 ((4 * v + j) mod pow4 k)) eqn:E2; [|lia].
        intros _.
        destruct (Hsub v (conj Hv E1)) as [_ F1].
        destruct (Hsub _ (conj Hw E2)) as [_ F2].
        rewrite F1, F2. reflexivity.
    + destruct e2; try exact H2.
      destruct LC1 as [Hc1 [Hs1 _]].
      apply (H2 X1 Hc1 (fun v Hv => HM v (Hs1 v Hv)) v1 Hv1).
    + exact H2.
  - destruct e1; try exact H1. exact I.
  - exact H1.
Qed.

(* C03: the returned graph has no dead end and no information-free trap: from every retained vertex some branching vertex is
   reachable, and every arc leads to a retained vertex *)
Theorem coding_graph_no_dead_end : forall k t mask V acc, (1 <= k)%nat -> 1 <= t ->
  length mask = Z.to_nat (pow4 k) -> Forall bit mask -> connect_coding_graph k mask t = Ok (V, acc) ->
  forall v, In v V ->
    (exists j, 0 <= j < 4 /\ 0 <= entry acc v j) /\
    (forall j, 0 <= j < 4 -> 0 <= entry acc v j -> In (entry acc v j) V) /\
    (exists w, reach acc v w /\ branching acc w).
Proof.
  intros k t mask V acc Hk Ht Hl Hb Hc v Hin.
  destruct (generated_wf k t mask V acc v Hk Hl Hb Ht Hc Hin) as [_ [_ [_ [Hwf _]]]].
  destruct (gp_core k t mask V acc Hk Hl Hb Ht Hc) as [[[Hcd _] _] [Hacc [_ HV]]].
  destruct (Hwf v (reach_refl acc v)) as [_ [Hlive Hbr]].
  split; [exact Hlive|]. split; [|exact Hbr].
  intros j Hj He. apply HV.
  assert (Hv : vin k (live_set acc) v) by (apply HV; exact Hin).
  remember (live_set acc) as X eqn:EX.
  destruct (induced_on_closed_live k t X v Hk Ht Hcd Hv) as [_ [_ Harc]].
  rewrite Hacc in He |- *. apply Harc; assumption.
Qed.

(* C01 on generated graphs: the full pipeline round trip (normal mode), from a retained start vertex, with a permutation table and
   any check length *)
Theorem roundtrip_on_generated_graph : forall k t mask V acc v0 sh bits vt_len, (1 <= k)%nat -> 1 <= t ->
  length mask = Z.to_nat (pow4 k) -> Forall bit mask -> connect_coding_graph k mask t = Ok (V, acc) -> In v0 V ->
  perm_table sh (nrows acc) -> bits_ok bits ->
  exists s chk, encode bits acc v0 false vt_len sh (Z.to_nat (Z.of_nat (length bits) * nrows acc)) = Ok (s, chk)
                /\ decode s (Z.of_nat (length bits)) acc v0 false chk sh = Ok bits.
Proof.
  intros k t mask V acc v0 sh bits vt_len Hk Ht Hl Hb Hc Hin Hp Hbits.
  destruct (generated_wf k t mask V acc v0 Hk Hl Hb Ht Hc Hin) as [_ [Hsh [_ [Hwf _]]]].
  destruct (C01_normal_wf acc v0 sh bits vt_len Hsh Hwf Hp Hbits) as (s & chk & He & _ & Hd).
  exists s, chk. split; [exact He|exact Hd].
Qed.

Print Assumptions coding_graph_monotone.
Print Assumptions coding_graph_no_dead_end.
Print Assumptions roundtrip_on_generated_graph.
