(* FastSpec.v -- layer 1: the published fast mode, stated with rank-based arc selection (C05):
   each 4-way vertex consumes two message bits most-significant first (a missing last bit counts
   as 0), each 2-way vertex one bit, vertices with one arc none.  Definitions only. *)
From DSW Require Import Py Kmer Graph Coder Spec GraphSpec CoderSpec.

Fixpoint ref_encode_fast (fuel : nat) (bits : list Z) (acc : accessor) (v : Z) (sh : table) : result (list Z) :=
  match bits with
  | [] => Ok []
  | b0 :: bits1 =>
      match fuel with
      | O => OutOfFuel
      | S f =>
          let used := live_cols acc v in
          let d := radix acc v in
          if d =? 4 then
            let '(dgt, rest) := match bits1 with [] => (2 * b0, []) | b1 :: r => (2 * b0 + b1, r) end in
            match select_arc (table_row sh v) used dgt with
            | Some j => r <- ref_encode_fast f rest acc (entry acc v j) sh ;; Ok (nuc_char j :: r)
            | None => Raise IndexError
            end
          else if d =? 2 then
            match select_arc (table_row sh v) used b0 with
            | Some j => r <- ref_encode_fast f bits1 acc (entry acc v j) sh ;; Ok (nuc_char j :: r)
            | None => Raise IndexError
            end
          else if d =? 1 then
            let j := hd 0 used in
            r <- ref_encode_fast f bits acc (entry acc v j) sh ;; Ok (nuc_char j :: r)
          else Raise ValueError
      end
  end.
