(* Repair.v -- layer 0: path_matching (dsw/graphized.py 685-777) and repair_dna
   (dsw/spiderweb.py 340-445, repaired scan loop and prefix cut).  Python slice clamping and
   NumPy negative-row wrap are reproduced through Py.py_slice / Py.py_get. *)
From DSW Require Import Py Bignum Convert Kmer Coder.

(* nucleotide in [nucleotides[i] for i in where(accessor[v] >= 0)[0]] ; then accessor[v][index] *)
Definition step_arc (acc : accessor) (v : Z) (c : Z) : result (option Z) :=
  row <- py_get acc v ;;
  match nuc_index c with
  | None => Ok None
  | Some j => if memZ j (used_indices row) then nxt <- py_get row j ;; Ok (Some nxt) else Ok None
  end.

(* walk s from v: (reached the end?, number of successful steps) *)
Fixpoint walk_from (acc : accessor) (v : Z) (s : list Z) (visited : Z) : result (bool * Z) :=
  match s with
  | [] => Ok (true, visited)
  | c :: t => o <- step_arc acc v c ;;
              match o with
              | Some nxt => walk_from acc nxt t (visited + 1)
              | None => Ok (false, visited)
              end
  end.

(* one repair record: kind (0 = S, 1 = I, 2 = D), nucleotide, repaired string *)
Definition record := (Z * Z * list Z)%type.

Fixpoint try_each (acc : accessor) (row : list Z) (cands : list Z) (rest : list Z)
         (mk : Z -> record) (visited : Z) : result (list record * Z) :=
  match cands with
  | [] => Ok ([], visited)
  | j :: t =>
      nxt <- py_get row j ;;
      r <- walk_from acc nxt rest 0 ;;
      more <- try_each acc row t rest mk (visited + snd r) ;;
      Ok (if fst r then mk j :: fst more else fst more, snd more)
  end.

Definition path_matching (s : list Z) (acc : accessor) (prev : Z) (occ : Z) (has_indel : bool)
  : result (list record * Z) :=
  original <- py_get s occ ;;
  row <- py_get acc prev ;;
  let used := used_indices row in
  let before := py_slice_to s occ in
  let after := py_slice_from s (occ + 1) in
  let from_occ := py_slice_from s occ in
  subs <- try_each acc row (filter (fun j => negb (nuc_char j =? original)) used) after
            (fun j => (0, nuc_char j, before ++ nuc_char j :: after)) 0 ;;
  if has_indel then
    ins <- try_each acc row used from_occ (fun j => (1, nuc_char j, before ++ nuc_char j :: from_occ)) (snd subs) ;;
    del <- walk_from acc prev after 0 ;;
    Ok (fst subs ++ fst ins ++ (if fst del then [(2, original, before ++ after)] else []), snd ins + snd del)
  else Ok subs.

(* ---- repair_dna ------------------------------------------------------------------------ *)
Record scan := { sc_splits : list (list Z);      (* reversed: head = split_sequences[-1] *)
                 sc_chunks : list (list Z);      (* in order of detection *)
                 sc_markers : list (list Z);
                 sc_detected : Z; sc_visited : Z }.

Fixpoint scan_loop (fuel : nat) (s : list Z) (acc : accessor) (k : Z) (loc v : Z) (iq : list Z)
         (cur : list Z) (st : scan) : result scan :=
  let n := Z.of_nat (length s) in
  if n <=? loc then Ok {| sc_splits := cur :: sc_splits st; sc_chunks := sc_chunks st;
                          sc_markers := sc_markers st; sc_detected := sc_detected st;
                          sc_visited := sc_visited st |}
  else match fuel with
  | O => OutOfFuel
  | S f =>
      c <- py_get s loc ;;
      o <- step_arc acc v c ;;
      match o with
      | Some nxt =>
          scan_loop f s acc k (loc + 1) nxt (set_nth iq (Z.to_nat loc) nxt) (cur ++ [c])
                    {| sc_splits := sc_splits st; sc_chunks := sc_chunks st; sc_markers := sc_markers st;
                       sc_detected := sc_detected st; sc_visited := sc_visited st + 1 |}
      | None =>
          let cut := py_slice_to cur (Z.of_nat (length cur) - k + 1) in
          v' <- dna_to_number_int (py_slice s (loc + 1) (loc + k + 1)) ;;
          scan_loop f s acc k (loc + k + 1) v' iq [nuc_char (v' mod 4)]
                    {| sc_splits := cut :: sc_splits st;
                       sc_chunks := sc_chunks st ++ [py_slice s (loc - k + 1) (loc + k)];
                       sc_markers := sc_markers st ++ [py_slice iq (loc - k) loc];
                       sc_detected := sc_detected st + 1; sc_visited := sc_visited st |}
      end
  end.

(* for recall, vertex_index in enumerate(index_marker[::-1]): path_matching(chunk, ..., occ = k - recall - 1) *)
Fixpoint fragments_of (chunk : list Z) (acc : accessor) (k : Z) (has_indel : bool) (whole : list Z)
         (rmarker : list Z) (recall : Z) (frags : list (list Z)) (visited : Z) : result (list (list Z) * Z) :=
  match rmarker with
  | [] => Ok (frags, visited)
  | pv :: t =>
      r <- path_matching chunk acc pv (k - recall - 1) has_indel ;;
      (* if dna_sequence not in repaired_fragment_set[index]: add(fragment) *)
      let frags' := fold_left (fun fs (rc : record) => if mem_str whole fs then fs else insert_str (snd rc) fs)
                              (fst r) frags in
      fragments_of chunk acc k has_indel whole t (recall + 1) frags' (visited + snd r)
  end.

Fixpoint all_fragments (chunks markers : list (list Z)) (acc : accessor) (k : Z) (has_indel : bool)
         (whole : list Z) (visited : Z) : result (list (list (list Z)) * Z) :=
  match chunks, markers with
  | ch :: cs, mk :: ms =>
      r <- fragments_of ch acc k has_indel whole (rev mk) 0 [] visited ;;
      more <- all_fragments cs ms acc k has_indel whole (snd r) ;;
      Ok (fst r :: fst more, snd more)
  | _, _ => Ok ([], visited)
  end.

(* itertools.product over the fragment sets, recombined with the split sequences *)
Fixpoint recombine (splits : list (list Z)) (frags : list (list (list Z))) : list (list Z) :=
  match splits, frags with
  | sp :: sps, fs :: fss =>
      flat_map (fun tail => map (fun f => sp ++ f ++ tail) fs) (recombine sps fss)
  | sp :: _, [] => [sp]
  | [], _ => [[]]
  end.

Definition check_matches (vt : option (list Z)) (s : list Z) : result bool :=
  match vt with
  | None => Ok true
  | Some chk => c <- set_vt s (Z.of_nat (length chk)) ;; Ok (listZ_eqb c chk)
  end.

Fixpoint filter_checked (vt : option (list Z)) (cands : list (list Z)) : result (list (list Z) * bool) :=
  match cands with
  | [] => Ok ([], false)
  | c :: t => ok <- check_matches vt c ;; r <- filter_checked vt t ;;
              Ok (if ok then (c :: fst r, snd r) else (fst r, true))
  end.

(* result: candidates, (detected_count, chuck_flag, count, visited_times); heap = floor(heap_size) *)
Definition repair_dna (s : list Z) (acc : accessor) (v0 : Z) (k : Z) (vt : option (list Z))
           (has_indel : bool) (heap : Z) : result (list (list Z) * (Z * bool * Z * Z)) :=
  let n := length s in
  st <- scan_loop (S n) s acc k 0 v0 (repeat (-1) n) [] {| sc_splits := []; sc_chunks := []; sc_markers := [];
                                                           sc_detected := 0; sc_visited := 0 |} ;;
  fr <- all_fragments (sc_chunks st) (sc_markers st) acc k has_indel s (sc_visited st) ;;
  let frags := fst fr in let visited := snd fr in
  let count := fold_left (fun a f => a * Z.of_nat (length f)) frags 1 in
  if (count =? 0) || (heap <? count) then
    match vt with
    | Some _ => ok <- check_matches vt s ;;
                if ok then Ok ([s], (0, false, 0, visited)) else Ok ([], (0, true, 0, visited))
    | None => Ok ([s], (0, false, 0, visited))
    end
  else
    r <- filter_checked vt (recombine (rev (sc_splits st)) frags) ;;
    Ok (sort_dedup (fst r), (sc_detected st, snd r, count, visited)).
