(* MiniPyF.v -- MiniPy.v extended with what dsw/biofilter.py needs: binary64 floats (Coq's primitive floats), None tests,
   substring tests, str.count / replace / upper.  A separate copy, so that the float-free MiniPy.v (and every theorem about
   dsw/operation.py) does not mention the primitive float type.  Everything below the next paragraph is MiniPy.v's text.

   MiniPy.v -- a deep embedding of the fragment of Python that dsw/operation.py is written in, with an executable
   big-step interpreter.  harness/translate.py turns the CURRENT source text of a function into a term of type
   [fundef] by a purely syntactic walk over Python's ast (one constructor per ast node, nothing is interpreted by
   the translator); the meaning of the term is what [run_fun] computes.  coq/Generated/*Proofs.v prove, for all
   inputs, that running the regenerated term gives the result of the hand-written model (Bignum.v, Convert.v) the
   property theorems are about.  So for these functions the model is regenerated from the code on every run.

   Values are immutable (a Python list is a Coq list); this is sound because the translator refuses any function in
   which a list that is mutated in place could be reached through a second name (see translate.py, "aliasing").
   [Stuck] is returned for anything outside the modelled semantics (never for a Python exception), so that no theorem
   can be true through an unmodelled corner.  Executable definitions only, no proofs. *)
From Coq Require Export String.
From Coq Require Import PrimFloat Uint63.
From DSW Require Export Py.
From DSW Require Import Thresholds.
Open Scope Z_scope.

(* ---- values -------------------------------------------------------------------------------------------------- *)
Inductive val :=
| VInt (z : Z)
| VBool (b : bool)
| VStr (s : list Z)            (* code points *)
| VList (l : list val)
| VTuple (l : list val)
| VNone
| VOpaque                      (* an object the model does not look into: Monitor() *)
| VFloat (f : float).          (* binary64 *)

Inductive res (A : Type) :=
| Ret (a : A)                  (* normal result *)
| Exn (e : exn)                (* a Python exception *)
| Fuel                         (* a while loop used up its iteration budget *)
| Stuck.                       (* outside the modelled fragment *)
Arguments Ret {A} a.  Arguments Exn {A} e.  Arguments Fuel {A}.  Arguments Stuck {A}.

Definition rbind {A B} (r : res A) (f : A -> res B) : res B :=
  match r with Ret a => f a | Exn e => Exn e | Fuel => Fuel | Stuck => Stuck end.
Notation "x <~ r ;; k" := (rbind r (fun x => k)) (at level 61, r at next level, right associativity).

(* ---- syntax -------------------------------------------------------------------------------------------------- *)
Inductive binop := Add | Sub | Mul | FloorDiv | Mod | Pow.
Inductive cmpop := CEq | CNe | CLt | CLe | CGt | CGe | CIn | CNotIn.   (* in / not in: substring tests on str *)
Inductive ty := TStr | TInt | TList.
Inductive builtin1 :=
| BLen | BInt | BStr | BList | BRange | BEnumerate
| BRev                         (* x[::-1] *)
| BMapStr | BMapInt            (* list(map(str, x)), list(map(int, x)); map objects are only ever consumed once *)
| BUpper                       (* x.upper() on ASCII *)
| BIsNone.                     (* x is None *)
Inductive builtin2 :=
| BDivmod
| BZfill                       (* a.zfill(b) *)
| BJoin                        (* a.join(b) *)
| BMapIndex                    (* map(a.index, b) *)
| BCount.                      (* a.count(b) for a one-character b *)

Inductive expr :=
| EInt (z : Z) | EStr (s : list Z) | ENone | EBoolLit (b : bool) | EOpaque
| EVar (x : string)
| EBin (o : binop) (a b : expr)
| ECmp (o : cmpop) (a b : expr)
| ENot (a : expr) | EAnd (a b : expr) | EOr (a b : expr)
| EIf (c a b : expr)                               (* a if c else b *)
| EB1 (f : builtin1) (a : expr)
| EB2 (f : builtin2) (a b : expr)
| ERange3 (a b c : expr)
| EIndex (a i : expr)
| ESlice (a : expr) (lo hi : option expr)          (* a[lo:hi] *)
| EList (l : list expr) | ETuple (l : list expr)
| EComp (body : expr) (x : string) (iter : expr)   (* [body for x in iter] *)
| ETypeIs (a : expr) (t : ty)                      (* type(a) == t *)
| ECall (f : string) (args : list expr)            (* another function of the same module, positional *)
| EReplace (a b c : expr).                         (* a.replace(b, c) for a one-character b *)

Inductive target :=
| TVar (x : string)
| TTuple (xs : list string)                         (* a, b = ... *)
| TIndex (x : string) (i : expr).                   (* x[i] = ... *)

Inductive stmt :=
| SSkip
| SSeq (a b : stmt)
| SAssign (t : target) (e : expr)
| SAug (t : target) (o : binop) (e : expr)          (* t op= e ; t is TVar or TIndex *)
| SExpr (e : expr)                                  (* evaluated, result dropped *)
| SAppend (x : string) (e : expr)                   (* x.append(e) *)
| SInsert (x : string) (i e : expr)                 (* x.insert(i, e) *)
| SIf (c : expr) (a b : stmt)
| SFor (t : target) (iter : expr) (body : stmt)
| SWhile (c : expr) (body : stmt)
| SReturn (e : expr)
| SRaise (e : exn).

Record fundef := { params : list string; body : stmt }.

(* ---- environments --------------------------------------------------------------------------------------------- *)
Definition env := list (string * val).

Fixpoint lookup (x : string) (en : env) : res val :=
  match en with
  | [] => Stuck                                     (* NameError / UnboundLocalError: not modelled *)
  | (y, v) :: t => if String.eqb x y then Ret v else lookup x t
  end.

(* update in place if bound, else append: the order of an environment never depends on values *)
Fixpoint update (x : string) (v : val) (en : env) : env :=
  match en with
  | [] => [(x, v)]
  | (y, w) :: t => if String.eqb x y then (y, v) :: t else (y, w) :: update x v t
  end.

(* ---- primitive operations ----------------------------------------------------------------------------------- *)
Fixpoint val_eqb (a b : val) : bool :=
  match a, b with
  | VInt x, VInt y => x =? y
  | VBool x, VBool y => Bool.eqb x y
  | VStr x, VStr y => listZ_eqb x y
  | VList x, VList y | VTuple x, VTuple y =>
      (fix go (p q : list val) : bool :=
         match p, q with
         | [], [] => true
         | u :: p', w :: q' => val_eqb u w && go p' q'
         | _, _ => false
         end) x y
  | VNone, VNone => true
  | _, _ => false
  end.

Definition has_float (a b : val) : bool :=
  match a, b with VFloat _, _ | _, VFloat _ => true | _, _ => false end.

(* an int as a float: exact below 2^53, which is all the fragment is trusted for (Python compares an int with a float
   exactly, without converting; below 2^53 the two coincide) *)
Definition float_of_int (z : Z) : res float :=
  if (0 <=? z) && (z <? 2 ^ 53) then Ret (fz z) else Stuck.

(* ints and bools compare numerically in Python (True == 1); the fragment never needs it, so it is Stuck *)
Definition mixes_bool (a b : val) : bool :=
  match a, b with VInt _, VBool _ | VBool _, VInt _ => true | _, _ => false end.

Definition truthy (v : val) : res bool :=
  match v with
  | VBool b => Ret b
  | VInt z => Ret (negb (z =? 0))
  | VStr s => Ret (negb (Nat.eqb (length s) 0))
  | VList l | VTuple l => Ret (negb (Nat.eqb (length l) 0))
  | VNone => Ret false
  | VOpaque => Stuck
  | VFloat _ => Stuck
  end.

Definition lexleb (a b : list Z) : bool := negb (lexltb b a).

Definition as_float (v : val) : res float :=
  match v with VFloat f => Ret f | VInt z => float_of_int z | _ => Stuck end.

Definition cmp_vals (o : cmpop) (a b : val) : res val :=
  if mixes_bool a b then Stuck else
  if has_float a b then
    (* NaN compares false with everything, like PrimFloat.ltb / leb *)
    x <~ as_float a ;; y <~ as_float b ;;
    match o with
    | CLt => Ret (VBool (PrimFloat.ltb x y)) | CLe => Ret (VBool (PrimFloat.leb x y))
    | CGt => Ret (VBool (PrimFloat.ltb y x)) | CGe => Ret (VBool (PrimFloat.leb y x))
    | _ => Stuck
    end
  else
  match o with
  | CEq => Ret (VBool (val_eqb a b))
  | CNe => Ret (VBool (negb (val_eqb a b)))
  | CIn => match a, b with VStr x, VStr y => Ret (VBool (infixZ x y)) | _, _ => Stuck end
  | CNotIn => match a, b with VStr x, VStr y => Ret (VBool (negb (infixZ x y))) | _, _ => Stuck end
  | _ =>
    match a, b with
    | VInt x, VInt y =>
        Ret (VBool (match o with CLt => x <? y | CLe => x <=? y | CGt => y <? x | _ => y <=? x end))
    | VStr x, VStr y =>
        Ret (VBool (match o with CLt => lexltb x y | CLe => lexleb x y | CGt => lexltb y x | _ => lexleb y x end))
    | _, _ => Stuck
    end
  end.

Fixpoint repeat_list {A} (n : nat) (l : list A) : list A :=
  match n with O => [] | S m => l ++ repeat_list m l end.

Definition binop_vals (o : binop) (a b : val) : res val :=
  if has_float a b then
    x <~ as_float a ;; y <~ as_float b ;;
    match o with
    | Add => Ret (VFloat (x + y)%float) | Sub => Ret (VFloat (x - y)%float) | Mul => Ret (VFloat (x * y)%float)
    | _ => Stuck
    end
  else
  match o, a, b with
  | Add, VInt x, VInt y => Ret (VInt (x + y))
  | Add, VStr x, VStr y => Ret (VStr (x ++ y))
  | Add, VList x, VList y => Ret (VList (x ++ y))
  | Add, VStr _, (VInt _ | VList _) | Add, VInt _, (VStr _ | VList _) | Add, VList _, (VInt _ | VStr _) => Exn TypeError
  | Sub, VInt x, VInt y => Ret (VInt (x - y))
  | Mul, VInt x, VInt y => Ret (VInt (x * y))
  | Mul, VStr x, VInt n => Ret (VStr (repeat_list (Z.to_nat n) x))
  | Mul, VList x, VInt n => Ret (VList (repeat_list (Z.to_nat n) x))
  | FloorDiv, VInt x, VInt y => if y =? 0 then Exn OtherExn (* ZeroDivisionError *) else Ret (VInt (x / y))
  | Mod, VInt x, VInt y => if y =? 0 then Exn OtherExn else Ret (VInt (x mod y))
  | Pow, VInt x, VInt y => if y <? 0 then Stuck (* a float *) else Ret (VInt (x ^ y))
  | _, _, _ => Stuck
  end.

(* str(n) for an integer: decimal digits as code points *)
Fixpoint dec_digits (fuel : nat) (n : Z) (acc : list Z) : list Z :=
  match fuel with
  | O => acc
  | S f => if n <? 10 then (48 + n) :: acc else dec_digits f (n / 10) ((48 + n mod 10) :: acc)
  end.
Definition str_of_Z (n : Z) : list Z :=
  if n <? 0 then 45 :: dec_digits (S (Z.to_nat (Z.log2 (- n)))) (- n) []
  else dec_digits (S (Z.to_nat (Z.log2 n))) n [].

(* int(s) for a non-empty string of ASCII digits; anything else (sign, blanks, underscores, other scripts, "")
   is outside the fragment *)
Definition is_digit (c : Z) : bool := (48 <=? c) && (c <=? 57).
Definition Z_of_str (s : list Z) : res Z :=
  match s with
  | [] => Stuck
  | _ => if forallb is_digit s then Ret (fold_left (fun a c => a * 10 + (c - 48)) s 0) else Stuck
  end.

Definition chars (s : list Z) : list val := map (fun c => VStr [c]) s.

(* the items a for loop / comprehension / list() / enumerate() sees *)
Definition items (v : val) : res (list val) :=
  match v with
  | VStr s => Ret (chars s)
  | VList l | VTuple l => Ret l
  | _ => Exn TypeError
  end.

Fixpoint zrange_up (n : nat) (a step : Z) : list val :=
  match n with O => [] | S m => VInt a :: zrange_up m (a + step) step end.

(* range(a, b, c) as the list of its elements *)
Definition range3 (a b c : Z) : res (list val) :=
  if c =? 0 then Exn ValueError
  else if 0 <? c then Ret (zrange_up (Z.to_nat ((b - a + c - 1) / c)) a c)
  else Ret (zrange_up (Z.to_nat ((a - b + (- c) - 1) / (- c))) a c).

Fixpoint enumerate_from (i : Z) (l : list val) : list val :=
  match l with [] => [] | x :: t => VTuple [VInt i; x] :: enumerate_from (i + 1) t end.

Fixpoint map_res {A B} (f : A -> res B) (l : list A) : res (list B) :=
  match l with
  | [] => Ret []
  | x :: t => y <~ f x ;; ys <~ map_res f t ;; Ret (y :: ys)
  end.

Definition to_str (v : val) : res val :=
  match v with VInt z => Ret (VStr (str_of_Z z)) | VStr s => Ret (VStr s) | _ => Stuck end.
Definition to_int (v : val) : res val :=
  match v with
  | VInt z => Ret (VInt z)
  | VBool b => Ret (VInt (if b then 1 else 0))
  | VStr s => z <~ Z_of_str s ;; Ret (VInt z)
  | _ => Stuck
  end.

Definition builtin1_val (f : builtin1) (a : val) : res val :=
  match f with
  | BLen => match a with
            | VStr s => Ret (VInt (Z.of_nat (length s)))
            | VList l | VTuple l => Ret (VInt (Z.of_nat (length l)))
            | _ => Exn TypeError
            end
  | BInt => to_int a
  | BStr => to_str a
  | BList => l <~ items a ;; Ret (VList l)
  | BRange => match a with VInt n => l <~ range3 0 n 1 ;; Ret (VList l) | _ => Stuck end
  | BEnumerate => l <~ items a ;; Ret (VList (enumerate_from 0 l))
  | BRev => match a with
            | VStr s => Ret (VStr (rev s))
            | VList l => Ret (VList (rev l))
            | VTuple l => Ret (VTuple (rev l))
            | _ => Exn TypeError
            end
  | BMapStr => l <~ items a ;; r <~ map_res to_str l ;; Ret (VList r)
  | BMapInt => l <~ items a ;; r <~ map_res to_int l ;; Ret (VList r)
  | BUpper => match a with
              | VStr s => if forallb (fun c => c <? 128) s
                          then Ret (VStr (map (fun c => if (97 <=? c) && (c <=? 122) then c - 32 else c) s))
                          else Stuck                      (* non-ASCII case mapping is not modelled *)
              | _ => Stuck
              end
  | BIsNone => match a with VNone => Ret (VBool true) | VOpaque => Stuck | _ => Ret (VBool false) end
  end.

(* s.index(c) for a one-character c *)
Definition str_index (s : list Z) (v : val) : res val :=
  match v with
  | VStr [c] => match indexZ c s with Some i => Ret (VInt (Z.of_nat i)) | None => Exn ValueError end
  | _ => Stuck
  end.

Fixpoint join_strs (sep : list Z) (l : list val) : res (list Z) :=
  match l with
  | [] => Ret []
  | [VStr s] => Ret s
  | VStr s :: t => r <~ join_strs sep t ;; Ret (s ++ sep ++ r)
  | _ => Exn TypeError
  end.

Definition builtin2_val (f : builtin2) (a b : val) : res val :=
  match f, a, b with
  | BDivmod, VInt x, VInt y => if y =? 0 then Exn OtherExn else Ret (VTuple [VInt (x / y); VInt (x mod y)])
  | BZfill, VStr s, VInt n =>
      match s with
      | c :: _ => if (c =? 43) || (c =? 45) then Stuck     (* sign-aware padding: not modelled *)
                  else Ret (VStr (repeat 48 (Z.to_nat (n - Z.of_nat (length s))) ++ s))
      | [] => Ret (VStr (repeat 48 (Z.to_nat n)))
      end
  | BJoin, VStr sep, _ => l <~ items b ;; r <~ join_strs sep l ;; Ret (VStr r)
  | BMapIndex, VStr s, _ => l <~ items b ;; r <~ map_res (str_index s) l ;; Ret (VList r)
  | BCount, VStr s, VStr [c] => Ret (VInt (countZ c s))
  | _, _, _ => Stuck
  end.

(* a.replace(b, c) for a one-character b: every occurrence, left to right *)
Definition replace_val (a b c : val) : res val :=
  match a, b, c with
  | VStr s, VStr [x], VStr y => Ret (VStr (flat_map (fun ch => if ch =? x then y else [ch]) s))
  | _, _, _ => Stuck
  end.

Definition index_val (a i : val) : res val :=
  match i with
  | VInt j =>
      match a with
      | VStr s => match py_get s j with Ok c => Ret (VStr [c]) | _ => Exn IndexError end
      | VList l | VTuple l => match py_get l j with Ok v => Ret v | _ => Exn IndexError end
      | _ => Exn TypeError
      end
  | _ => Stuck
  end.

Definition opt_int (v : option val) (default : Z) : res Z :=
  match v with None => Ret default | Some (VInt z) => Ret z | Some VNone => Ret default | Some _ => Stuck end.

Definition slice_val (a : val) (lo hi : option val) : res val :=
  match a with
  | VStr s => l <~ opt_int lo 0 ;; h <~ opt_int hi (Z.of_nat (length s)) ;; Ret (VStr (py_slice s l h))
  | VList s => l <~ opt_int lo 0 ;; h <~ opt_int hi (Z.of_nat (length s)) ;; Ret (VList (py_slice s l h))
  | VTuple s => l <~ opt_int lo 0 ;; h <~ opt_int hi (Z.of_nat (length s)) ;; Ret (VTuple (py_slice s l h))
  | _ => Exn TypeError
  end.

(* x[i] = v on a list *)
Definition store_val (a i v : val) : res val :=
  match a, i with
  | VList l, VInt j =>
      let n := Z.of_nat (length l) in
      let j' := if j <? 0 then j + n else j in
      if (j' <? 0) || (n <=? j') then Exn IndexError else Ret (VList (set_nth l (Z.to_nat j') v))
  | VList _, _ => Stuck
  | _, _ => Exn TypeError
  end.

(* x.insert(i, v): the position is clamped like a slice bound *)
Definition insert_val (a i v : val) : res val :=
  match a, i with
  | VList l, VInt j =>
      let p := Z.to_nat (clampZ (Z.of_nat (length l)) j) in Ret (VList (firstn p l ++ v :: skipn p l))
  | _, _ => Stuck
  end.

Definition type_is (v : val) (t : ty) : res val :=
  match v, t with
  | VStr _, TStr | VInt _, TInt | VList _, TList => Ret (VBool true)
  | VOpaque, _ => Stuck
  | VFloat _, _ => Stuck
  | _, _ => Ret (VBool false)
  end.

(* ---- expressions ---------------------------------------------------------------------------------------------- *)
Section Interp.
  (* the other functions of the module: name -> arguments -> result (instantiated bottom-up, no recursion in dsw) *)
  Variable callenv : string -> list val -> res val.

  Fixpoint eval (en : env) (e : expr) {struct e} : res val :=
    match e with
    | EInt z => Ret (VInt z)
    | EStr s => Ret (VStr s)
    | ENone => Ret VNone
    | EBoolLit b => Ret (VBool b)
    | EOpaque => Ret VOpaque
    | EVar x => lookup x en
    | EBin o a b => x <~ eval en a ;; y <~ eval en b ;; binop_vals o x y
    | ECmp o a b => x <~ eval en a ;; y <~ eval en b ;; cmp_vals o x y
    | ENot a => x <~ eval en a ;; t <~ truthy x ;; Ret (VBool (negb t))
    | EAnd a b => x <~ eval en a ;; t <~ truthy x ;; if t then eval en b else Ret x
    | EOr a b => x <~ eval en a ;; t <~ truthy x ;; if t then Ret x else eval en b
    | EIf c a b => x <~ eval en c ;; t <~ truthy x ;; if t then eval en a else eval en b
    | EB1 f a => x <~ eval en a ;; builtin1_val f x
    | EB2 f a b => x <~ eval en a ;; y <~ eval en b ;; builtin2_val f x y
    | ERange3 a b c =>
        x <~ eval en a ;; y <~ eval en b ;; z <~ eval en c ;;
        match x, y, z with VInt x, VInt y, VInt z => l <~ range3 x y z ;; Ret (VList l) | _, _, _ => Stuck end
    | EIndex a i => x <~ eval en a ;; j <~ eval en i ;; index_val x j
    | ESlice a lo hi =>
        x <~ eval en a ;;
        l <~ match lo with None => Ret None | Some e' => v <~ eval en e' ;; Ret (Some v) end ;;
        h <~ match hi with None => Ret None | Some e' => v <~ eval en e' ;; Ret (Some v) end ;;
        slice_val x l h
    | EList l =>
        vs <~ (fix go (l : list expr) : res (list val) :=
                 match l with [] => Ret [] | e' :: t => v <~ eval en e' ;; vs <~ go t ;; Ret (v :: vs) end) l ;;
        Ret (VList vs)
    | ETuple l =>
        vs <~ (fix go (l : list expr) : res (list val) :=
                 match l with [] => Ret [] | e' :: t => v <~ eval en e' ;; vs <~ go t ;; Ret (v :: vs) end) l ;;
        Ret (VTuple vs)
    | EComp bd x it =>
        src <~ eval en it ;; l <~ items src ;;
        (* Python 3: the comprehension variable lives in its own scope *)
        vs <~ map_res (fun v => eval (update x v en) bd) l ;; Ret (VList vs)
    | ETypeIs a t => x <~ eval en a ;; type_is x t
    | ECall f l =>
        vs <~ (fix go (l : list expr) : res (list val) :=
                 match l with [] => Ret [] | e' :: t => v <~ eval en e' ;; vs <~ go t ;; Ret (v :: vs) end) l ;;
        callenv f vs
    | EReplace a b c => x <~ eval en a ;; y <~ eval en b ;; z <~ eval en c ;; replace_val x y z
    end.

  (* ---- statements ---------------------------------------------------------------------------------------------- *)
  Inductive outcome :=
  | ONormal (en : env)
  | OReturn (v : val)
  | OExn (e : exn)
  | OFuel
  | OStuck.

  Definition lift {A} (r : res A) (k : A -> outcome) : outcome :=
    match r with Ret a => k a | Exn e => OExn e | Fuel => OFuel | Stuck => OStuck end.

  Fixpoint bind_tuple (xs : list string) (vs : list val) (en : env) : option env :=
    match xs, vs with
    | [], [] => Some en
    | x :: xs', v :: vs' => bind_tuple xs' vs' (update x v en)
    | _, _ => None
    end.

  Definition assign (t : target) (v : val) (en : env) : outcome :=
    match t with
    | TVar x => ONormal (update x v en)
    | TTuple xs =>
        lift (items v) (fun vs =>
          match bind_tuple xs vs en with Some en' => ONormal en' | None => OExn ValueError end)
    | TIndex x i =>
        lift (eval en i) (fun j => lift (lookup x en) (fun a => lift (store_val a j v) (fun a' =>
          ONormal (update x a' en))))
    end.

  Definition seq (o : outcome) (k : env -> outcome) : outcome :=
    match o with ONormal en => k en | _ => o end.

  Fixpoint exec (fuel : nat) (s : stmt) (en : env) {struct s} : outcome :=
    match s with
    | SSkip => ONormal en
    | SSeq a b => seq (exec fuel a en) (exec fuel b)
    | SAssign t e => lift (eval en e) (fun v => assign t v en)
    | SAug t o e =>
        match t with
        | TVar x => lift (lookup x en) (fun a => lift (eval en e) (fun b => lift (binop_vals o a b) (fun v =>
                      ONormal (update x v en))))
        | TIndex x i =>
            lift (lookup x en) (fun a => lift (eval en i) (fun j => lift (index_val a j) (fun old =>
            lift (eval en e) (fun b => lift (binop_vals o old b) (fun v => lift (store_val a j v) (fun a' =>
              ONormal (update x a' en)))))))
        | TTuple _ => OStuck
        end
    | SExpr e => lift (eval en e) (fun _ => ONormal en)
    | SAppend x e =>
        lift (lookup x en) (fun a => lift (eval en e) (fun v =>
          match a with VList l => ONormal (update x (VList (l ++ [v])) en) | _ => OStuck end))
    | SInsert x i e =>
        lift (lookup x en) (fun a => lift (eval en i) (fun j => lift (eval en e) (fun v =>
          lift (insert_val a j v) (fun a' => ONormal (update x a' en)))))
    | SIf c a b => lift (eval en c) (fun v => lift (truthy v) (fun t => if t then exec fuel a en else exec fuel b en))
    | SFor t it bd =>
        lift (eval en it) (fun src => lift (items src) (fun l =>
          (fix loop (l : list val) (en : env) : outcome :=
             match l with
             | [] => ONormal en
             | v :: rest => seq (seq (assign t v en) (exec fuel bd)) (loop rest)
             end) l en))
    | SWhile c bd =>
        (fix loop (n : nat) (en : env) : outcome :=
           match n with
           | O => OFuel
           | S m => lift (eval en c) (fun v => lift (truthy v) (fun t =>
                      if t then seq (exec fuel bd en) (loop m) else ONormal en))
           end) fuel en
    | SReturn e => lift (eval en e) OReturn
    | SRaise e => OExn e
    end.

  Fixpoint bind_params (ps : list string) (vs : list val) : option env :=
    match ps, vs with
    | [], [] => Some []
    | p :: ps', v :: vs' => match bind_params ps' vs' with Some en => Some ((p, v) :: en) | None => None end
    | _, _ => None
    end.

  (* every while loop of the call may run [fuel] iterations *)
  Definition run_fun (fuel : nat) (f : fundef) (args : list val) : res val :=
    match bind_params (params f) args with
    | None => Stuck
    | Some en =>
        match exec fuel (body f) en with
        | ONormal _ => Ret VNone
        | OReturn v => Ret v
        | OExn e => Exn e
        | OFuel => Fuel
        | OStuck => Stuck
        end
    end.
  (* a procedure run for its effect on the variables (a constructor: the variables "self.x" are the object's fields) *)
  Definition run_proc (fuel : nat) (f : fundef) (args : list val) : res env :=
    match bind_params (params f) args with
    | None => Stuck
    | Some en =>
        match exec fuel (body f) en with
        | ONormal en' => Ret en'
        | OReturn _ => Stuck
        | OExn e => Exn e
        | OFuel => Fuel
        | OStuck => Stuck
        end
    end.
End Interp.

(* a module: named functions, resolved bottom-up (a function may call those AFTER it in the list: callers first) *)
Definition module := list (string * fundef).

Fixpoint call_in (m : module) (fuel : nat) (f : string) (args : list val) {struct m} : res val :=
  match m with
  | [] => Stuck
  | (g, fd) :: rest =>
      if String.eqb f g then run_fun (call_in rest fuel) fuel fd args else call_in rest fuel f args
  end.
