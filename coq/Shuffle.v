(* Shuffle.v -- layer 0: create_random_shuffles (dsw/spiderweb.py 807-874).  NumPy's generator is not modelled: the i-th
   in-place row shuffle performed under the given seed is an oracle argument.  The table starts with every row equal to
   [0; 1; 2; 3] and row i is replaced by its shuffle. *)
From DSW Require Import Py Kmer.

Definition create_random_shuffles (k : nat) (shuffle : nat -> list Z -> list Z) : list (list Z) :=
  map (fun i => shuffle i [0; 1; 2; 3]) (seq 0 (Z.to_nat (pow4 k))).
