(* RepairSpec.v -- layer 1 vocabulary for the repair properties C08 / C09 / C10.  Definitions only. *)
From DSW Require Import Py Bignum Convert Kmer Graph Coder Repair Spec GraphSpec CoderSpec.

(* the supplied check matches the strand (boolean form of CoderSpec.check_ok) *)
Definition check_okb (vt : option (list Z)) (s : list Z) : bool :=
  match vt with
  | None => true
  | Some chk => match set_vt s (Z.of_nat (length chk)) with Ok c => listZ_eqb c chk | _ => false end
  end.

(* strict lexicographic order on strings of code points *)
Definition lexlt (a b : list Z) : Prop := lexltb a b = true.

(* the three single edits at position p *)
Definition edit_sub (w : list Z) (p : nat) (c : Z) : list Z := firstn p w ++ c :: skipn (S p) w.
Definition edit_ins (w : list Z) (p : nat) (c : Z) : list Z := firstn p w ++ c :: skipn p w.
Definition edit_del (w : list Z) (p : nat) : list Z := firstn p w ++ skipn (S p) w.

(* a graph produced by graph generation with observed length k: legal and vertex-induced *)
Definition generated (k : nat) (acc : accessor) : Prop :=
  (1 <= k)%nat /\ legal k acc /\ exists X : vset, acc = induced_on k X.

Definition detected (st : Z * bool * Z * Z) : Z := let '(d, _, _, _) := st in d.
Definition lookups (st : Z * bool * Z * Z) : Z := let '(_, _, _, v) := st in v.
