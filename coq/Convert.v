(* Convert.v -- layer 0: bit_to_number, number_to_bit, dna_to_number, number_to_dna
   (dsw/operation.py 265-427).  The str-typed code path works on digit lists through
   Bignum, the int-typed path on Z.  DNA strings are lists of code points. *)
From DSW Require Import Py Bignum.

(* ---- bit_to_number ------------------------------------------------------------------ *)
Definition bit_to_number_str (bits : list Z) : list Z :=
  fold_left (fun d a => calculus_addition (calculus_multiplication d 2) a) bits [0].

Definition bit_to_number_int (bits : list Z) : Z :=
  fold_left (fun d a => d * 2 + a) bits 0.

(* ---- number_to_bit ------------------------------------------------------------------ *)
(* while decimal_number != "0": (decimal_number, r) = calculus_division(decimal_number, "2");
   one_array.insert(0, r) *)
Fixpoint to_radix_str (fuel : nat) (b : Z) (d : list Z) (acc : list Z) : result (list Z) :=
  if is_zero_str d then Ok acc else
  match fuel with
  | O => OutOfFuel
  | S f => let '(q, r) := calculus_division d b in to_radix_str f b q (r :: acc)
  end.

Fixpoint to_radix_int (fuel : nat) (b : Z) (n : Z) (acc : list Z) : result (list Z) :=
  if n <=? 0 then Ok acc else
  match fuel with
  | O => OutOfFuel
  | S f => to_radix_int f b (n / b) ((n mod b) :: acc)
  end.

(* the final pad / truncate of number_to_bit *)
Definition fit_bits (one : list Z) (len : Z) : list Z :=
  let n := Z.of_nat (length one) in
  if n =? len then one
  else if n <? len then repeat 0 (Z.to_nat (len - n)) ++ one
  else py_slice_to one len.

(* enough iterations for any decimal string: each digit carries < 4 bits *)
Definition fuel_str (d : list Z) : nat := 4 * length d + 1.
(* enough iterations for any Z: its binary size *)
Definition fuel_int (n : Z) : nat := S (Z.to_nat (Z.log2_up (n + 1))).

Definition number_to_bit_str (d : list Z) (len : Z) : result (list Z) :=
  one <- to_radix_str (fuel_str d) 2 d [] ;; Ok (fit_bits one len).
Definition number_to_bit_int (n : Z) (len : Z) : result (list Z) :=
  one <- to_radix_int (fuel_int n) 2 n [] ;; Ok (fit_bits one len).

(* ---- dna_to_number ------------------------------------------------------------------ *)
(* list(map("ACGT".index, dna)) : ValueError on the first foreign character *)
Fixpoint nuc_values (s : list Z) : result (list Z) :=
  match s with
  | [] => Ok []
  | c :: t => match nuc_index c with
              | None => Raise ValueError
              | Some v => vs <- nuc_values t ;; Ok (v :: vs)
              end
  end.

Definition dna_to_number_str (s : list Z) : result (list Z) :=
  vs <- nuc_values s ;;
  Ok (fold_left (fun d v => calculus_addition (calculus_multiplication d 4) v) vs [0]).

Definition dna_to_number_int (s : list Z) : result Z :=
  vs <- nuc_values s ;; Ok (fold_left (fun d v => d * 4 + v) vs 0).

(* ---- number_to_dna ------------------------------------------------------------------ *)
(* "A" * (dna_length - len(one_array)) + one_array : no truncation when too wide *)
Definition fit_dna (one : list Z) (len : Z) : list Z :=
  repeat chA (Z.to_nat (len - Z.of_nat (length one))) ++ map nuc_char one.

Definition number_to_dna_str (d : list Z) (len : Z) : result (list Z) :=
  one <- to_radix_str (fuel_str d) 4 d [] ;; Ok (fit_dna one len).
Definition number_to_dna_int (n : Z) (len : Z) : result (list Z) :=
  one <- to_radix_int (fuel_int n) 4 n [] ;; Ok (fit_dna one len).
