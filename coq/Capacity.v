(* Capacity.v -- layer 0: approximate_capacity (dsw/graphized.py 562-683) over Coq's primitive
   binary64 floats (the same IEEE-754 operations NumPy executes).  Evaluated with vm_compute inside
   coqc (not extracted).  log2 is applied outside (by the harness) to the eigenvalue estimates this
   model returns; everything else - accumulation order, max, normalisation, stopping rule, median
   fallback - is here. *)
From Coq Require Import ZArith List Bool PrimFloat Uint63.
Import ListNotations.
Open Scope float_scope.

Definition accessor := list (list Z).

(* eigenvector = zeros; for each column j in order: eigenvector[live] += last[entry]  -- per vertex a left-to-right
   sum over its live entries, starting from 0.0 *)
Definition row_sum (x : list float) (row : list Z) : float :=
  fold_left (fun s e => if (0 <=? e)%Z then s + nth (Z.to_nat e) x 0 else s) row 0.
Definition mat_vec (acc : accessor) (x : list float) : list float := map (row_sum x) acc.

(* numpy.max of a non-empty array of non-NaN values *)
Definition fmax (a b : float) : float := if a <? b then b else a.
Definition vec_max (v : list float) : float := match v with [] => 0 | h :: t => fold_left fmax t h end.

(* insertion sort, for numpy.median of the queue *)
Fixpoint finsert (x : float) (l : list float) : list float :=
  match l with [] => [x] | h :: t => if x <=? h then x :: l else h :: finsert x t end.
Definition fsort (l : list float) : list float := fold_left (fun acc x => finsert x acc) l [].
Definition fmedian (l : list float) : float :=
  let s := fsort l in
  let n := length s in
  if Nat.even n then (nth (n / 2 - 1) s 0 + nth (n / 2) s 0) / 2
  else nth (n / 2) s 0.

(* one repeat: returns (eigenvalue estimates appended to results, record of per-iteration eigenvalues).
   state: last eigenvector, last eigenvalue (None at the first iteration), queue (in the order of the code: oldest first),
   record (reversed) *)
Fixpoint power_loop (fuel : nat) (acc : accessor) (tol : float) (maxit : nat)
         (x : list float) (last : option float) (queue : list float) (record : list float)
  : option (list float * list float) :=
  match fuel with
  | O => None
  | S f =>
      let ev := mat_vec acc x in
      let lam := vec_max ev in
      let ev' := if 0 <? lam then map (fun a => a / lam) ev else map (fun a => a * 0) ev in
      let record' := lam :: record in
      match last with
      | None => power_loop f acc tol maxit ev' (Some lam) queue record'
      | Some l0 =>
          let rel := if 0 <? l0 then abs (lam - l0) / l0 else 0 in
          let queue' := queue ++ [lam] in
          let r1 := if rel <? tol then [lam] else [] in
          let over := Nat.ltb maxit (length queue') in
          let r2 := if over then [fmedian queue'] else [] in
          if (rel <? tol) || over then Some (r1 ++ r2, rev record')
          else power_loop f acc tol maxit ev' (Some lam) queue' record'
      end
  end.

(* rows without any arc: where(sum(accessor, axis=1) == -4) *)
Definition dead_row (row : list Z) : bool := (fold_left Z.add row 0 =? -4)%Z.
Definition zero_dead (acc : accessor) (x : list float) : list float :=
  map (fun rv => if dead_row (fst rv) then 0 else snd rv) (combine acc x).

Definition all_minus_one (acc : accessor) : bool := forallb (forallb (fun e => (e =? -1)%Z)) acc.

(* starts: one initial vector per repeat (all ones for the single-start mode, |random| otherwise, supplied by the caller) *)
Fixpoint repeats_loop (acc : accessor) (tol : float) (maxit : nat) (starts : list (list float))
  : option (list float * list (list float)) :=
  match starts with
  | [] => Some ([], [])
  | x0 :: rest =>
      match power_loop (S (S maxit)) acc tol maxit (zero_dead acc (map abs x0)) None [] [] with
      | None => None
      | Some (res, rec) =>
          match repeats_loop acc tol maxit rest with
          | None => None
          | Some (res', recs) => Some (res ++ res', rec :: recs)
          end
      end
  end.

(* result: None = arc-less graph (the code returns 0.0 without iterating); otherwise the eigenvalue estimates whose
   log2 the code takes the median of, and the per-iteration eigenvalues of each repeat *)
Definition approximate_capacity (acc : accessor) (tol : float) (maxit : nat) (starts : list (list float))
  : option (option (list float * list (list float))) :=
  if all_minus_one acc then Some None
  else match repeats_loop acc tol maxit starts with
       | None => None
       | Some r => Some (Some r)
       end.

Definition ones (n : nat) : list float := repeat 1 n.

(* exact output of a float as (mantissa * 2^53, exponent): value = m * 2^(e - 53), for finite non-negative floats *)
Definition dump (f : float) : Z * Z :=
  let '(m, e) := frshiftexp f in (Uint63.to_Z (normfr_mantissa m), (Uint63.to_Z e - 2101)%Z).
