(* FilterSpec.v -- layer 1: the documented window predicate of the local filter (C12), as
   quantified formulas.  Definitions only. *)
From DSW Require Import Py Filter Spec.

(* m occurs in s as a contiguous substring *)
Definition occurs (m s : list Z) : Prop := exists a b, s = a ++ m ++ b.
(* the window of length k starting at position i *)
Definition window (k i : nat) (s : list Z) : list Z := firstn k (skipn i s).
(* all windows of length k of a string at least k long, left to right *)
Definition windows (k : nat) (s : list Z) : list (list Z) :=
  map (fun i => window k i s) (seq 0 (length s - k + 1)).
Definition nucleotides : list Z := [chA; chC; chG; chT].

Definition window_pred (c : cfg) (s : list Z) : Prop :=
  (* all characters are A/C/G/T *)
  Forall (fun ch => is_acgt ch = true) s
  (* no nucleotide repeats more than the allowed run *)
  /\ (forall r, f_run c = Some r -> forall n, In n nucleotides -> ~ occurs (repeat n (Z.to_nat (1 + r))) s)
  (* neither an undesired motif nor its reverse complement occurs *)
  /\ (forall ms, f_motifs c = Some ms -> forall m, In m ms -> ~ occurs m s /\ ~ occurs (reverse_complement m) s)
  (* every window of the observed length has its G+C count within the bounds; a shorter string is judged by its
     G+C count against the upper bound and its A+T count against the complement of the lower bound *)
  /\ (forall gmin gmax amax, f_gc c = Some (gmin, gmax, amax) ->
        (f_k c <= Z.of_nat (length s) ->
           forall i, (i + Z.to_nat (f_k c) <= length s)%nat ->
                     gmin <= gc_count (window (Z.to_nat (f_k c)) i s) <= gmax)
        /\ (Z.of_nat (length s) < f_k c -> gc_count s <= gmax /\ at_count s <= amax)).

(* the filter's rules are decidable inside one window: maximum run shorter than the window, motifs no longer
   than the window *)
Definition window_decidable (c : cfg) : Prop :=
  (forall r, f_run c = Some r -> 0 <= r /\ 1 + r <= f_k c)
  /\ (forall ms, f_motifs c = Some ms -> Forall (fun m => Z.of_nat (length m) <= f_k c) ms).
Definition motifs_acgt (c : cfg) : Prop :=
  forall ms, f_motifs c = Some ms -> Forall (fun m => Forall (fun ch => is_acgt ch = true) m) ms.
