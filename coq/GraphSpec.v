(* GraphSpec.v -- layer 1 vocabulary for graphs: shapes, legality (C13), walks, closed vertex
   sets (C03), well-formed coding graphs (C01/C04).  Definitions only. *)
From DSW Require Import Py Kmer Graph Spec.

Definition rows4 (acc : accessor) : Prop := Forall (fun r => length r = 4%nat) acc.
Definition nrows (acc : accessor) : Z := Z.of_nat (length acc).
(* accessor[v][j] for an in-range row v and 0 <= j < 4 *)
Definition entry (acc : accessor) (v j : Z) : Z := nth (Z.to_nat j) (get_row acc v) (-1).
(* every entry is -1 or a valid row index *)
Definition entries_in_range (acc : accessor) : Prop :=
  Forall (Forall (fun x => -1 <= x < nrows acc)) acc.
Definition in_range (acc : accessor) (v : Z) : Prop := 0 <= v < nrows acc.
Definition shaped (acc : accessor) : Prop := rows4 acc /\ entries_in_range acc.

(* C13: column j of row v holds -1 or the j-th shift successor of v *)
Definition legal (k : nat) (acc : accessor) : Prop :=
  length acc = Z.to_nat (pow4 k) /\ rows4 acc /\
  forall v j, 0 <= v < pow4 k -> 0 <= j < 4 -> entry acc v j = -1 \/ entry acc v j = (4 * v + j) mod pow4 k.

Definition live (acc : accessor) (v : Z) : Prop := exists j, 0 <= j < 4 /\ 0 <= entry acc v j.
Definition outdeg (acc : accessor) (v : Z) : Z := out_degree (get_row acc v).
Definition branching (acc : accessor) (v : Z) : Prop := 2 <= outdeg acc v.

(* s (code points) is a walk of the graph from v *)
Fixpoint is_walk (acc : accessor) (v : Z) (s : list Z) : Prop :=
  match s with
  | [] => True
  | c :: t => exists j, nuc_index c = Some j /\ in_range acc v /\ 0 <= entry acc v j
                        /\ is_walk acc (entry acc v j) t
  end.
(* the vertex a walk ends in *)
Fixpoint walk_end (acc : accessor) (v : Z) (s : list Z) : Z :=
  match s with
  | [] => v
  | c :: t => match nuc_index c with Some j => walk_end acc (entry acc v j) t | None => v end
  end.

(* reachability along arcs *)
Inductive reach (acc : accessor) : Z -> Z -> Prop :=
| reach_refl v : reach acc v v
| reach_step v j w : 0 <= j < 4 -> 0 <= entry acc v j -> reach acc (entry acc v j) w -> reach acc v w.

(* the hypothesis of C01 / C04: every vertex reachable from v0 is in range, has an arc, and can
   reach a branching vertex *)
Definition wf_from (acc : accessor) (v0 : Z) : Prop :=
  forall v, reach acc v0 v -> in_range acc v /\ live acc v /\ exists w, reach acc v w /\ branching acc w.

(* ---- vertex sets of the order-k de Bruijn graph, as boolean predicates ------------------- *)
Definition vset := Z -> bool.
Definition vin (k : nat) (X : vset) (v : Z) : Prop := 0 <= v < pow4 k /\ X v = true.
Definition vsub (k : nat) (A B : vset) : Prop := forall v, vin k A v -> vin k B v.
Definition vempty (k : nat) (A : vset) : Prop := forall v, ~ vin k A v.
(* number of shift successors of v that belong to X *)
Definition succ_count (k : nat) (X : vset) (v : Z) : Z := Z.of_nat (length (filter X (obtain_latters v k))).

(* every member has at least t successors inside the set *)
Definition closed_deg (k : nat) (t : Z) (X : vset) : Prop := forall v, vin k X v -> t <= succ_count k X v.
(* inside X, v reaches a member with two or more successors in X *)
Inductive reach_branch (k : nat) (X : vset) : Z -> Prop :=
| rb_here v : vin k X v -> 2 <= succ_count k X v -> reach_branch k X v
| rb_step v w : vin k X v -> In w (obtain_latters v k) -> vin k X w -> reach_branch k X w -> reach_branch k X v.
(* the closure condition of C03 for threshold t *)
Definition closed (k : nat) (t : Z) (X : vset) : Prop :=
  closed_deg k t X /\ (t = 1 -> forall v, vin k X v -> reach_branch k X v).
(* X is the largest closed subset of M *)
Definition largest_closed (k : nat) (t : Z) (M X : vset) : Prop :=
  closed k t X /\ vsub k X M /\ forall Y, closed k t Y -> vsub k Y M -> vsub k Y X.

(* the vertex-induced sub-graph on X, as an accessor *)
Definition induced_on (k : nat) (X : vset) : accessor :=
  map (fun v => if X v then map (fun l => if X l then l else -1) (obtain_latters v k) else empty_row) (vertices_of k).
Definition live_set (acc : accessor) : vset := fun v => row_listed (get_row acc v).
