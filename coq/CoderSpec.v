(* CoderSpec.v -- layer 1: the published coding scheme stated over integers, independent of the
   decimal-string arithmetic and of argsort (C05), plus the vocabulary of C01/C04/C06/C18.
   Definitions only. *)
From Coq Require Import Permutation.
From DSW Require Import Py Kmer Graph Coder Spec GraphSpec.

(* ---- digit <-> arc under a shuffle table --------------------------------------------------- *)
Definition table := option (list (list Z)).
(* the table row of vertex v (None: no table) *)
Definition table_row (sh : table) (v : Z) : option (list Z) :=
  match sh with None => None | Some t => Some (nth (Z.to_nat v) t []) end.
(* the sort key of live column u: the column itself without a table, its table entry with one *)
Definition key_of (srow : option (list Z)) (u : Z) : Z :=
  match srow with None => u | Some r => nth (Z.to_nat u) r (-1) end.
(* number of live columns whose key is smaller *)
Definition rank_in (srow : option (list Z)) (used : list Z) (u : Z) : Z :=
  Z.of_nat (length (filter (fun u' => key_of srow u' <? key_of srow u) used)).
(* "digit d selects the live arc whose table entry is d-th smallest" *)
Definition select_arc (srow : option (list Z)) (used : list Z) (d : Z) : option Z :=
  find (fun u => rank_in srow used u =? d) used.

(* a table with one row per vertex, each row a permutation of 0..3 *)
Definition perm_table (sh : table) (n : Z) : Prop :=
  match sh with
  | None => True
  | Some t => Z.of_nat (length t) = n /\ Forall (fun r => Permutation r [0; 1; 2; 3]) t
  end.
(* a table of the right shape, whatever its entries *)
Definition shape_table (sh : table) (n : Z) : Prop :=
  match sh with
  | None => True
  | Some t => Z.of_nat (length t) = n /\ Forall (fun r => length r = 4%nat) t
  end.

Definition live_cols (acc : accessor) (v : Z) : list Z := used_indices (get_row acc v).
Definition radix (acc : accessor) (v : Z) : Z := Z.of_nat (length (live_cols acc v)).

(* ---- the reference coder, normal mode: mixed radix over Z ---------------------------------- *)
Fixpoint ref_encode (fuel : nat) (q : Z) (acc : accessor) (v : Z) (sh : table) : result (list Z) :=
  if q =? 0 then Ok [] else
  match fuel with
  | O => OutOfFuel
  | S f =>
      let used := live_cols acc v in
      let d := radix acc v in
      if d =? 0 then Raise ValueError
      else if d =? 1 then
        let j := hd 0 used in
        rest <- ref_encode f q acc (entry acc v j) sh ;; Ok (nuc_char j :: rest)
      else match select_arc (table_row sh v) used (q mod d) with
           | Some j => rest <- ref_encode f (q / d) acc (entry acc v j) sh ;; Ok (nuc_char j :: rest)
           | None => Raise IndexError
           end
  end.

(* the value a walk denotes: little-endian mixed radix in the out-degrees met, vertices with one
   arc contribute no digit *)
Fixpoint walk_value (acc : accessor) (v : Z) (sh : table) (s : list Z) : Z :=
  match s with
  | [] => 0
  | c :: t =>
      match nuc_index c with
      | None => 0
      | Some j =>
          let rest := walk_value acc (entry acc v j) sh t in
          if radix acc v <=? 1 then rest
          else rank_in (table_row sh v) (live_cols acc v) j + radix acc v * rest
      end
  end.

(* product of the out-degrees met along a walk (C04 tightness) *)
Fixpoint radix_product (acc : accessor) (v : Z) (s : list Z) : Z :=
  match s with
  | [] => 1
  | c :: t => match nuc_index c with
              | None => 1
              | Some j => Z.max 1 (radix acc v) * radix_product acc (entry acc v j) t
              end
  end.

(* ---- fast mode ----------------------------------------------------------------------------- *)
Definition no_outdeg3 (acc : accessor) : Prop := forall v, in_range acc v -> radix acc v <> 3.
Definition step_bits (acc : accessor) (v : Z) : Z :=
  if radix acc v =? 4 then 2 else if radix acc v =? 2 then 1 else 0.
(* bits carried by the walkable prefix of s *)
Fixpoint bits_carried (acc : accessor) (v : Z) (s : list Z) : Z :=
  match s with
  | [] => 0
  | c :: t => match nuc_index c with
              | None => 0
              | Some j => if (0 <=? v) && (v <? nrows acc) && (0 <=? entry acc v j)
                          then step_bits acc v + bits_carried acc (entry acc v j) t else 0
              end
  end.

(* the check supplied to decode matches the strand *)
Definition check_ok (vt : option (list Z)) (s : list Z) : Prop :=
  match vt with None => True | Some chk => set_vt s (Z.of_nat (length chk)) = Ok chk end.
