(* Bignum.v -- layer 0: dsw/operation.py calculus_addition / subtraction / multiplication /
   division.  A decimal string is the big-endian list of its digit VALUES (0..9); the
   small operand ("base") is a single digit value b, which is what every caller in dsw
   passes (str(len(used_indices)), "2", "4", str(bit), str(remainder)).  Each function is
   the digit-serial loop of the Python, written as one pass over the reversed list. *)
From DSW Require Import Py.

(* ---- calculus_addition (operation.py 81-118) ------------------------------------ *)
(* loop over index = len-1 .. 0 with result[index+1] acting as carry *)
Fixpoint add_rev (ds bs : list Z) (carry : Z) : list Z :=
  match ds, bs with
  | d :: ds', b :: bs' =>
      let sv := d + b + carry in
      if sv <? 10 then sv :: add_rev ds' bs' 0
      else (sv mod 10) :: add_rev ds' bs' (sv / 10)    (* inner while: two writes, sum <= 19 *)
  | _, _ => [carry]
  end.

(* base.zfill(len(number)), of which the loop reads positions 0 .. len(number)-1 *)
Definition zfill1 (n : nat) (b : Z) : list Z := repeat 0 (n - 1) ++ [b].

Definition calculus_addition (number : list Z) (b : Z) : list Z :=
  let n := length number in
  let r := rev (add_rev (rev number) (rev (firstn n (zfill1 n b))) 0) in
  match r with 0 :: t => t | _ => r end.

(* ---- calculus_multiplication (166-211) ------------------------------------------- *)
Fixpoint mul_rev (ds : list Z) (b : Z) (rem : Z) : list Z * Z :=
  match ds with
  | [] => ([], rem)
  | d :: ds' =>
      let cur := d * b + rem in
      let '(dg, rm) := if 10 <=? cur then (cur mod 10, cur / 10) else (cur, 0) in
      let '(rest, final) := mul_rev ds' b rm in (dg :: rest, final)
  end.

(* while remainder > 0: number.insert(0, remainder % 10); remainder //= 10
   (remainder < 10 for single-digit operands; the fuel is the remainder itself) *)
Fixpoint rem_digits (fuel : nat) (r : Z) (acc : list Z) : list Z :=
  match fuel with
  | O => acc
  | S f => if 0 <? r then rem_digits f (r / 10) ((r mod 10) :: acc) else acc
  end.

Definition calculus_multiplication (number : list Z) (b : Z) : list Z :=
  if b =? 0 then [0] else if b =? 1 then number else
  let '(ds, rm) := mul_rev (rev number) b 0 in
  rem_digits (Z.to_nat rm) rm [] ++ rev ds.

(* ---- calculus_division (214-262) -------------------------------------------------- *)
Fixpoint div_loop (ds : list Z) (b : Z) (rem : Z) : list Z * Z :=
  match ds with
  | [] => ([], rem)
  | d :: ds' =>
      let cur := d + rem * 10 in
      let '(qd, rm) := if b <=? cur then (cur / b, cur - (cur / b) * b) else (0, cur) in
      let '(rest, final) := div_loop ds' b rm in (qd :: rest, final)
  end.

Fixpoint strip0 (l : list Z) : list Z :=
  match l with
  | [] => [0]
  | d :: t => if d =? 0 then strip0 t else l
  end.

Definition calculus_division (number : list Z) (b : Z) : list Z * Z :=
  if b =? 0 then ([0], 0) else if b =? 1 then (number, 0) else
  match number with
  | [d] => if d <? b then ([0], d) else let '(q, r) := div_loop number b 0 in (strip0 q, r)
  | _ => let '(q, r) := div_loop number b 0 in (strip0 q, r)
  end.

(* ---- calculus_subtraction (121-163), single-digit operand ------------------------- *)
(* borrow chain: while number[flag_a-1] == 0: set 9 ; then decrement *)
Fixpoint borrow (ds : list Z) : list Z :=
  match ds with
  | [] => []                       (* outside the domain b <= value: Python would wrap around *)
  | d :: t => if d =? 0 then 9 :: borrow t else (d - 1) :: t
  end.

Definition calculus_subtraction (number : list Z) (b : Z) : list Z :=
  match rev number with
  | [] => [0]
  | d :: t =>
      let le := if b <=? d then (d - b) :: t else (10 + d - b) :: borrow t in
      strip0 (rev le)
  end.

(* "0" test used by the while loops of the converters and of encode *)
Definition is_zero_str (l : list Z) : bool := match l with [0] => true | _ => false end.
