(* Thresholds.v -- layer 0: the three binary64 products of LocalBioFilter.valid turned into the integer thresholds used by
   Filter.v, computed with Coq's primitive floats exactly as CPython computes them:
     gc_count > hi * k   <->  gc_count > floor(fl(hi * k))          (gc_max)
     gc_count < lo * k   <->  gc_count < ceil (fl(lo * k))          (gc_min)
     at_count > (1 - lo) * k  <->  at_count > floor(fl(fl(1 - lo) * k))   (at_max)
   for integer counts and non-negative finite products.  Evaluated with vm_compute by the harness (not extracted). *)
From Coq Require Import ZArith PrimFloat Uint63.
Open Scope Z_scope.

(* a finite non-negative float is m * 2^(e - 53) with m = normfr_mantissa, e = frshiftexp exponent - 2101 *)
Definition fparts (f : float) : Z * Z :=
  let '(m, e) := frshiftexp f in (Uint63.to_Z (normfr_mantissa m), Uint63.to_Z e - 2101 - 53).
Definition ffloor (f : float) : Z :=
  let '(m, s) := fparts f in if 0 <=? s then m * 2 ^ s else m / 2 ^ (- s).
Definition fceil (f : float) : Z :=
  let '(m, s) := fparts f in if 0 <=? s then m * 2 ^ s else (m + 2 ^ (- s) - 1) / 2 ^ (- s).
Definition fz (k : Z) : float := of_uint63 (Uint63.of_Z k).

(* (gc_min, gc_max, at_max) *)
Definition thresholds (lo hi : float) (k : Z) : Z * Z * Z :=
  (fceil (lo * fz k)%float, ffloor (hi * fz k)%float, ffloor ((1 - lo) * fz k)%float).
