(* Filter.v -- layer 0: LocalBioFilter (dsw/biofilter.py 27-148).
   The three floating-point comparisons  gc > hi*k,  gc < lo*k,  at > (1-lo)*k  compare an
   INTEGER count with a binary64 product; for an integer g and any finite x,
   g > x <-> g > floor x  and  g < x <-> g < ceil x.  The configuration therefore carries the
   integer thresholds gc_max = floor(fl(hi*k)), gc_min = ceil(fl(lo*k)),
   at_max = floor(fl(fl(1-lo)*k)); they are computed from the floats outside this file. *)
From DSW Require Import Py.

Record cfg := { f_k : Z;
                f_run : option Z;
                f_motifs : option (list (list Z));
                f_gc : option (Z * Z * Z) (* gc_min, gc_max, at_max *) }.

(* constructor validation (75-83) *)
Definition ctor_accepts (c : cfg) : bool :=
  (match f_run c with Some r => negb (f_k c <? r) | None => true end) &&
  (match f_motifs c with Some ms => forallb (fun m => negb (f_k c <? Z.of_nat (length m))) ms | None => true end).

(* special.replace("A","t").replace("C","g").replace("G","c").replace("T","a")[::-1].upper(), ASCII *)
Definition comp_upper (c : Z) : Z :=
  if c =? 65 then 84 else if c =? 67 then 71 else if c =? 71 then 67 else if c =? 84 then 65
  else if (97 <=? c) && (c <=? 122) then c - 32 else c.
Definition reverse_complement (m : list Z) : list Z := rev (map comp_upper m).

Definition gc_count (w : list Z) : Z := countZ chC w + countZ chG w.
Definition at_count (w : list Z) : Z := countZ chA w + countZ chT w.

(* for index in range(len(obs) - k + 1): window = obs[index : index + k] *)
Fixpoint windows_ok (fuel : nat) (k : nat) (gmin gmax : Z) (obs : list Z) : bool :=
  match fuel with
  | O => true
  | S f =>
      let g := gc_count (firstn k obs) in
      if gmax <? g then false else if g <? gmin then false
      else match obs with [] => true | _ :: t => windows_ok f k gmin gmax t end
  end.

Definition valid (c : cfg) (only_last : bool) (s : list Z) : bool :=
  let obs := if only_last then py_slice_from s (- f_k c) else s in
  forallb is_acgt obs &&
  (match f_run c with
   | Some r => negb (existsb (fun n => infixZ (repeat n (Z.to_nat (1 + r))) obs) [chA; chC; chG; chT])
   | None => true end) &&
  (match f_motifs c with
   | Some ms => negb (existsb (fun m => infixZ m obs || infixZ (reverse_complement m) obs) ms)
   | None => true end) &&
  (match f_gc c with
   | Some (gmin, gmax, amax) =>
       let n := Z.of_nat (length obs) in
       if f_k c <=? n
       then windows_ok (Z.to_nat (n - f_k c + 1)) (Z.to_nat (f_k c)) gmin gmax obs
       else negb (gmax <? gc_count obs) && negb (amax <? at_count obs)
   | None => true end).
