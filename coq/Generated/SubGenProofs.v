(* SubGenProofs.v -- proves that the program REGENERATED from the current source of dsw/operation.py (calculus_subtraction)
   computes, under the semantics of MiniPy.v, exactly what the hand-written model of Bignum.v / Convert.v computes.
   Compiled on every run of the checks against the freshly generated OperationGen.v (harness/translate_minipy.py). *)
From Coq Require Import Lia ZifyBool.
From DSW Require Import MiniPy Bignum Convert MiniPyLemmas.
From DSWGen Require Import OperationGen.
Open Scope Z_scope.
Ltac Zify.zify_post_hook ::= Z.to_euclidean_division_equations.

(* TARGET STATEMENTS (proved below, exactly as stated): calculus_subtraction_gen.
   The domain of the helper is "the operand is not larger than the number" (b <= dval ds), otherwise the Python wraps
   around through negative indices.  The fuel really needed is one iteration budget per digit before the last one
   (length ds <= S fuel, see calculus_subtraction_gen_tight: [1;0;0;3] - 7 runs with fuel 3 and gives Fuel with 2);
   the stated bound S (length ds) <= fuel is sufficient and is derived from it. *)

(* value of a digit list *)
Definition dval (ds : list Z) : Z := fold_left (fun a d => a * 10 + d) ds 0.

Lemma dval_snoc l x : dval (l ++ [x]) = dval l * 10 + x.
Proof. unfold dval. rewrite fold_left_app. reflexivity. Qed.

Lemma dval_nonneg l : digits_ok l -> 0 <= dval l.
Proof.
  induction l as [|x l IH] using rev_ind; intro H.
  - unfold dval; cbn [fold_left]; lia.
  - rewrite dval_snoc. apply Forall_app in H. destruct H as [H1 H2].
    inversion H2 as [|? ? Hx _]; subst. specialize (IH H1). lia.
Qed.

Lemma nthZ_mid {A} (pre : list A) x post : nthZ (pre ++ x :: post) (length pre) = Some x.
Proof. induction pre as [|p pre IH]; cbn [app length nthZ]; [reflexivity|exact IH]. Qed.

Lemma py_get_mid {A} (pre : list A) x post : py_get (pre ++ x :: post) (Z.of_nat (length pre)) = Ok x.
Proof.
  unfold py_get. rewrite app_length. cbn [length].
  destruct (Z.of_nat (length pre) <? 0) eqn:E; [lia|].
  destruct ((Z.of_nat (length pre) <? 0) || (Z.of_nat (length pre + S (length post)) <=? Z.of_nat (length pre))) eqn:F; [lia|].
  rewrite Nat2Z.id, nthZ_mid. reflexivity.
Qed.

Lemma set_nth_mid {A} (pre : list A) x post y : set_nth (pre ++ x :: post) (length pre) y = pre ++ y :: post.
Proof. induction pre as [|p pre IH]; cbn [app length set_nth]; [reflexivity|rewrite IH; reflexivity]. Qed.

Lemma store_mid pre x post v :
  store_val (VList (pre ++ x :: post)) (VInt (Z.of_nat (length pre))) v = Ret (VList (pre ++ v :: post)).
Proof.
  unfold store_val. rewrite app_length. cbn [length].
  destruct (Z.of_nat (length pre) <? 0) eqn:E; [lia|].
  destruct ((Z.of_nat (length pre) <? 0) || (Z.of_nat (length pre + S (length post)) <=? Z.of_nat (length pre))) eqn:F; [lia|].
  rewrite Nat2Z.id, set_nth_mid. reflexivity.
Qed.

Lemma skipn_app_len {A} (a b : list A) : skipn (length a) (a ++ b) = b.
Proof. induction a as [|x a IH]; cbn [length skipn app]; [reflexivity|exact IH]. Qed.

Lemma clampZ_in n i : 0 <= i <= n -> clampZ n i = i.
Proof.
  intro H. unfold clampZ. destruct (i <? 0) eqn:E1; [lia|].
  destruct (i <? 0) eqn:E2; [lia|]. destruct (n <? i) eqn:E3; [lia|reflexivity].
Qed.

Lemma py_slice_suffix {A} (a b : list A) :
  py_slice (a ++ b) (Z.of_nat (length a)) (Z.of_nat (length (a ++ b))) = b.
Proof.
  unfold py_slice. rewrite !clampZ_in by (rewrite app_length; lia). rewrite app_length.
  destruct (Z.of_nat (length a + length b) <=? Z.of_nat (length a)) eqn:E5.
  - destruct b; [reflexivity|cbn [length] in E5; lia].
  - replace (Z.to_nat (Z.of_nat (length a + length b) - Z.of_nat (length a))) with (length b) by lia.
    rewrite Nat2Z.id, skipn_app_len. apply firstn_all.
Qed.

Lemma comp_int ce en ds : digits_ok ds ->
  map_res (fun v => eval ce (update "item" v en) (EB1 BInt (EVar "item"))) (map (fun d => VStr [dchr d]) ds)
  = Ret (map VInt ds).
Proof.
  induction 1 as [|d ds Hd _ IH]; cbn [map map_res]; [reflexivity|].
  cbn [eval builtin1_val] in IH |- *. rewrite lookup_update_same. cbn [rbind]. rewrite (to_int_digit d Hd). cbn [rbind].
  rewrite IH. reflexivity.
Qed.


(* ---- the program, cut into named fragments (checked against the generated term by [def_eq]) ---- *)
Definition s_init : stmt :=
  SAssign (TTuple ["number"%string; "base"%string]) (ETuple [(EComp (EB1 BInt (EVar "item"%string)) "item"%string (EVar "number"%string)); (EComp (EB1 BInt (EVar "item"%string)) "item"%string (EVar "base"%string))]).
Definition s_res0 : stmt := SAssign (TVar "residue"%string) (EStr []).
Definition s_flags : stmt :=
  SAssign (TTuple ["flag_a"%string; "flag_b"%string]) (ETuple [(EBin Sub (EBin Sub (EB1 BLen (EVar "number"%string)) (EInt (1))) (EVar "index"%string)); (EBin Sub (EBin Sub (EB1 BLen (EVar "base"%string)) (EInt (1))) (EVar "index"%string))]).
Definition c_if : expr :=
  ECmp CGe (EB1 BInt (EIndex (EVar "number"%string) (EVar "flag_a"%string))) (EB1 BInt (EIndex (EVar "base"%string) (EVar "flag_b"%string))).
Definition s_then : stmt :=
  SAssign (TVar "residue"%string) (EBin Add (EB1 BStr (EBin Sub (EB1 BInt (EIndex (EVar "number"%string) (EVar "flag_a"%string))) (EB1 BInt (EIndex (EVar "base"%string) (EVar "flag_b"%string))))) (EVar "residue"%string)).
Definition s_resb : stmt :=
  SAssign (TVar "residue"%string) (EBin Add (EB1 BStr (EBin Sub (EBin Add (EInt (10)) (EB1 BInt (EIndex (EVar "number"%string) (EVar "flag_a"%string)))) (EB1 BInt (EIndex (EVar "base"%string) (EVar "flag_b"%string))))) (EVar "residue"%string)).
Definition w_c : expr :=
  ECmp CEq (EIndex (EVar "number"%string) (EBin Sub (EVar "flag_a"%string) (EInt (1)))) (EInt (0)).
Definition w_bd : stmt :=
  SSeq (SAssign (TIndex "number"%string (EBin Sub (EVar "flag_a"%string) (EInt (1)))) (EInt (9)))
       (SAug (TVar "flag_a"%string) Sub (EInt (1))).
Definition s_dec : stmt := SAug (TIndex "number"%string (EBin Sub (EVar "flag_a"%string) (EInt (1)))) Sub (EInt (1)).
Definition s_else : stmt := SSeq s_resb (SSeq (SWhile w_c w_bd) s_dec).
Definition s_if : stmt := SIf c_if s_then s_else.
Definition inner_it : expr :=
  ERange3 (EBin Sub (EBin Sub (EBin Sub (EB1 BLen (EVar "number"%string)) (EInt (1))) (EVar "index"%string)) (EInt (1))) (EInt (-1)) (EInt (-1)).
Definition inner_bd : stmt :=
  SAssign (TVar "residue"%string) (EBin Add (EB1 BStr (EIndex (EVar "number"%string) (EVar "flag"%string))) (EVar "residue"%string)).
Definition s_inner : stmt := SFor (TVar "flag"%string) inner_it inner_bd.
Definition outer_bd : stmt := SSeq s_flags (SSeq s_if s_inner).
Definition s_outer : stmt := SFor (TVar "index"%string) (EB1 BRange (EB1 BLen (EVar "base"%string))) outer_bd.
Definition final_bd : stmt :=
  SIf (ECmp CNe (EIndex (EVar "residue"%string) (EVar "index"%string)) (EStr [48]))
      (SReturn (ESlice (EVar "residue"%string) (Some (EVar "index"%string)) None)) SSkip.
Definition s_final : stmt := SFor (TVar "index"%string) (EB1 BRange (EB1 BLen (EVar "residue"%string))) final_bd.
Definition s_ret0 : stmt := SReturn (EStr [48]).
Definition prog : stmt := SSeq s_init (SSeq s_res0 (SSeq s_outer (SSeq s_final s_ret0))).

Lemma def_eq : calculus_subtraction_def = {| params := ["number"%string; "base"%string]; body := prog |}.
Proof. reflexivity. Qed.

Ltac step := cbn [exec eval lift seq rbind assign lookup update bind_tuple items String.eqb Ascii.eqb Bool.eqb andb
                  binop_vals binop_scalar cmp_vals cmp_scalar is_arr orb truthy builtin1_val builtin2_val index_val mixes_bool to_str to_int val_eqb].

(* the environment inside the single iteration of the outer loop *)
Definition ENV (num : list val) (b : Z) (r : list Z) (fa : Z) : env :=
  [("number"%string, VList num); ("base"%string, VList [VInt b]); ("residue"%string, VStr r);
   ("index"%string, VInt 0); ("flag_a"%string, VInt fa); ("flag_b"%string, VInt 0)].

Lemma exec_init ce fuel ds b : digits_ok ds -> 0 <= b <= 9 ->
  exec ce fuel s_init [("number"%string, dstr ds); ("base"%string, dstr [b])]
  = ONormal [("number"%string, vints ds); ("base"%string, vints [b])].
Proof.
  intros Hds Hb. unfold s_init. cbn [exec eval lookup String.eqb Ascii.eqb Bool.eqb andb rbind].
  rewrite !items_dstr. cbn [rbind].
  pose proof (comp_int ce [("number"%string, dstr ds); ("base"%string, dstr [b])] ds Hds) as E1.
  assert (Hb' : digits_ok [b]) by (constructor; [exact Hb|constructor]).
  pose proof (comp_int ce [("number"%string, dstr ds); ("base"%string, dstr [b])] [b] Hb') as E2.
  cbn [eval builtin1_val] in E1, E2. cbn [builtin1_val]. rewrite E1, E2. reflexivity.
Qed.

(* ---- the borrow loop ------------------------------------------------------------------------------------------- *)
Lemma w_cond ce P x Q b r :
  eval ce (ENV (P ++ VInt x :: Q) b r (Z.of_nat (length P) + 1)) w_c = Ret (VBool (x =? 0)).
Proof.
  unfold w_c, ENV. step. replace (Z.of_nat (length P) + 1 - 1) with (Z.of_nat (length P)) by lia.
  rewrite py_get_mid. step. reflexivity.
Qed.

Lemma w_body ce fuel P x Q b r :
  exec ce fuel w_bd (ENV (P ++ VInt x :: Q) b r (Z.of_nat (length P) + 1))
  = ONormal (ENV (P ++ VInt 9 :: Q) b r (Z.of_nat (length P))).
Proof.
  unfold w_bd, ENV. step. replace (Z.of_nat (length P) + 1 - 1) with (Z.of_nat (length P)) by lia.
  rewrite store_mid. step. replace (Z.of_nat (length P) + 1 - 1) with (Z.of_nat (length P)) by lia. reflexivity.
Qed.

Lemma dec_exec ce fuel P x Q b r :
  exec ce fuel s_dec (ENV (P ++ VInt x :: Q) b r (Z.of_nat (length P) + 1))
  = ONormal (ENV (P ++ VInt (x - 1) :: Q) b r (Z.of_nat (length P) + 1)).
Proof.
  unfold s_dec, ENV. step. replace (Z.of_nat (length P) + 1 - 1) with (Z.of_nat (length P)) by lia.
  rewrite py_get_mid. step. rewrite store_mid. step. reflexivity.
Qed.

Lemma borrow_loop ce fuel b r : forall t post n,
  digits_ok t -> 0 < dval (rev t) -> (length t <= n)%nat ->
  exists fa, seq (while_loop ce fuel w_c w_bd n (ENV (map VInt (rev t ++ post)) b r (Z.of_nat (length t))))
                 (exec ce fuel s_dec)
             = ONormal (ENV (map VInt (rev (borrow t) ++ post)) b r fa).
Proof.
  induction t as [|x t IH]; intros post n Hd Hv Hn.
  - unfold dval in Hv; cbn [rev fold_left] in Hv; lia.
  - inversion Hd as [|? ? Hx Hd']; subst.
    assert (E1 : map VInt (rev (x :: t) ++ post) = map VInt (rev t) ++ VInt x :: map VInt post).
    { cbn [rev]. rewrite <- app_assoc, map_app. reflexivity. }
    assert (E2 : Z.of_nat (length (x :: t)) = Z.of_nat (length (map VInt (rev t))) + 1).
    { rewrite map_length, rev_length. cbn [length]. lia. }
    rewrite E1, E2.
    destruct n as [|n]; [cbn [length] in Hn; lia|].
    cbn [while_loop]. rewrite w_cond. cbn [lift truthy borrow].
    destruct (x =? 0) eqn:Ex.
    + rewrite w_body. cbn [seq].
      cbn [rev] in Hv. rewrite dval_snoc in Hv.
      destruct (IH (9 :: post) n Hd' ltac:(lia) ltac:(cbn [length] in Hn; lia)) as [fa Hfa].
      exists fa. rewrite map_length, rev_length.
      replace (map VInt (rev t) ++ VInt 9 :: map VInt post) with (map VInt (rev t ++ 9 :: post))
        by (rewrite map_app; reflexivity).
      rewrite Hfa. cbn [rev]. rewrite <- app_assoc. reflexivity.
    + cbn [seq]. rewrite dec_exec. eexists. cbn [rev]. rewrite <- app_assoc, map_app. reflexivity.
Qed.

Lemma borrow_digits t : digits_ok t -> digits_ok (borrow t).
Proof.
  induction 1 as [|x t Hx Ht IH]; cbn [borrow]; [constructor|].
  destruct (x =? 0) eqn:E; constructor; try assumption; lia.
Qed.

Lemma borrow_length t : length (borrow t) = length t.
Proof. induction t as [|x t IH]; cbn [borrow]; [reflexivity|]. destruct (x =? 0); cbn [length]; congruence. Qed.

(* ---- the if statement ------------------------------------------------------------------------------------------- *)
Lemma base0 b : py_get [VInt b] 0 = Ok (VInt b).
Proof. reflexivity. Qed.

Lemma if_noborrow ce fuel P d b r : 0 <= d <= 9 -> 0 <= b <= 9 -> b <= d ->
  exec ce fuel s_if (ENV (P ++ [VInt d]) b r (Z.of_nat (length P)))
  = ONormal (ENV (P ++ [VInt d]) b (dchr (d - b) :: r) (Z.of_nat (length P))).
Proof.
  intros Hd Hb Hle. unfold s_if. rewrite exec_if. unfold c_if, ENV. step.
  rewrite py_get_mid, base0. step.
  destruct (b <=? d) eqn:E; [|lia]. unfold s_then. step. rewrite py_get_mid, base0. step.
  rewrite str_of_Z_digit by lia. reflexivity.
Qed.

Lemma resb_exec ce fuel P d b r : 0 <= d <= 9 -> 0 <= b <= 9 -> d < b ->
  exec ce fuel s_resb (ENV (P ++ [VInt d]) b r (Z.of_nat (length P)))
  = ONormal (ENV (P ++ [VInt d]) b (dchr (10 + d - b) :: r) (Z.of_nat (length P))).
Proof.
  intros Hd Hb Hlt. unfold s_resb, ENV. step. rewrite py_get_mid, base0. step.
  rewrite str_of_Z_digit by lia. reflexivity.
Qed.

Lemma if_borrow ce fuel pre d b r : digits_ok pre -> 0 <= d <= 9 -> 0 <= b <= 9 -> d < b -> 0 < dval pre ->
  (length pre <= fuel)%nat ->
  exists fa,
  exec ce fuel s_if (ENV (map VInt (pre ++ [d])) b r (Z.of_nat (length pre)))
  = ONormal (ENV (map VInt (rev (borrow (rev pre)) ++ [d])) b (dchr (10 + d - b) :: r) fa).
Proof.
  intros Hp Hd Hb Hlt Hv Hf. unfold s_if. rewrite exec_if.
  rewrite map_app. cbn [map]. replace (Z.of_nat (length pre)) with (Z.of_nat (length (map VInt pre))) by (rewrite map_length; reflexivity).
  unfold c_if, ENV at 1. step. rewrite py_get_mid, base0. step.
  destruct (b <=? d) eqn:E; [lia|]. unfold s_else. rewrite exec_seq.
  change [("number"%string, VList (map VInt pre ++ [VInt d])); ("base"%string, VList [VInt b]); 
     ("residue"%string, VStr r); ("index"%string, VInt 0);
     ("flag_a"%string, VInt (Z.of_nat (length (map VInt pre)))); ("flag_b"%string, VInt 0)]
    with (ENV (map VInt pre ++ [VInt d]) b r (Z.of_nat (length (map VInt pre)))).
  rewrite resb_exec by lia. cbn [seq].
  rewrite exec_seq, exec_while.
  destruct (borrow_loop ce fuel b (dchr (10 + d - b) :: r) (rev pre) [d] fuel) as [fa Hfa].
  { apply Forall_rev, Hp. } { rewrite rev_involutive. exact Hv. } { rewrite rev_length. exact Hf. }
  exists fa. rewrite rev_involutive, rev_length in Hfa.
  rewrite map_app in Hfa. cbn [map] in Hfa. rewrite map_length. exact Hfa.
Qed.

(* ---- the inner loop: prepend the remaining digits ---------------------------------------------------------------- *)
Lemma inner_loop ce fuel : forall pre post r en, digits_ok pre ->
  lookup "number" en = Ret (vints (pre ++ post)) -> lookup "residue" en = Ret (VStr r) ->
  exists en', for_loop ce fuel (TVar "flag") inner_bd (zrange_up (length pre) (Z.of_nat (length pre) - 1) (-1)) en
              = ONormal en' /\ lookup "residue" en' = Ret (VStr (map dchr pre ++ r)).
Proof.
  induction pre as [|x pre IH] using rev_ind; intros post r en Hd Hn Hr.
  - exists en. split; [reflexivity|exact Hr].
  - apply Forall_app in Hd. destruct Hd as [Hd Hx]. inversion Hx as [|? ? Hx' _]; subst.
    rewrite app_length. cbn [length]. rewrite Nat.add_1_r. cbn [zrange_up]. rewrite for_loop_cons.
    unfold inner_bd at 1. step.
    rewrite lookup_update_same. rewrite !lookup_update_other by discriminate. rewrite Hn, Hr. unfold vints. step.
    rewrite <- app_assoc, map_app. cbn [app map].
    replace (Z.of_nat (S (length pre)) - 1) with (Z.of_nat (length (map VInt pre))) by (rewrite map_length; lia).
    rewrite py_get_mid. step. rewrite str_of_Z_digit by exact Hx'. cbn [app].
    replace (Z.of_nat (length (map VInt pre)) + -1) with (Z.of_nat (length pre) - 1) by (rewrite map_length; lia).
    destruct (IH (x :: post) (dchr x :: r)
                 (update "residue" (VStr (dchr x :: r)) (update "flag" (VInt (Z.of_nat (length (map VInt pre)))) en)) Hd)
      as [en' [E1 E2]].
    { rewrite !lookup_update_other by discriminate. rewrite <- app_assoc in Hn. exact Hn. }
    { apply lookup_update_same. }
    exists en'. split; [exact E1|]. rewrite E2, map_app, <- app_assoc. reflexivity.
Qed.

Lemma range3_down n : range3 (Z.of_nat n - 1) (-1) (-1) = Ret (zrange_up n (Z.of_nat n - 1) (-1)).
Proof.
  unfold range3. change (-1 =? 0) with false. change (0 <? -1) with false. cbv iota.
  do 2 f_equal. lia.
Qed.

Lemma inner_exec ce fuel pre d b r fa : digits_ok pre ->
  exists en', exec ce fuel s_inner (ENV (map VInt (pre ++ [d])) b r fa) = ONormal en' /\
              lookup "residue" en' = Ret (VStr (map dchr pre ++ r)).
Proof.
  intro Hd. unfold s_inner. rewrite exec_for. unfold inner_it, ENV at 1. step.
  replace (Z.of_nat (length (map VInt (pre ++ [d]))) - 1 - 0 - 1) with (Z.of_nat (length pre) - 1)
    by (rewrite map_length, app_length; cbn [length]; lia).
  rewrite range3_down. step.
  apply (inner_loop ce fuel pre [d] r _ Hd); reflexivity.
Qed.

(* ---- the single iteration of the outer loop ------------------------------------------------------------------- *)
Lemma flags_exec ce fuel num b r :
  exec ce fuel s_flags [("number"%string, VList num); ("base"%string, VList [VInt b]); ("residue"%string, VStr r);
                        ("index"%string, VInt 0)]
  = ONormal (ENV num b r (Z.of_nat (length num) - 1 - 0)).
Proof. unfold s_flags. step. reflexivity. Qed.

(* ---- the final loop: strip leading zeros ----------------------------------------------------------------------- *)
Lemma final_loop ce fuel : forall l zs en,
  lookup "residue" en = Ret (VStr (map dchr (zs ++ l))) ->
  seq (for_loop ce fuel (TVar "index") final_bd (zrange_up (length l) (Z.of_nat (length zs)) 1) en)
      (exec ce fuel s_ret0) = OReturn (dstr (strip0 l)).
Proof.
  induction l as [|x l IH]; intros zs en Hr.
  - reflexivity.
  - cbn [length zrange_up]. rewrite for_loop_cons. unfold final_bd at 1. step.
    rewrite lookup_update_same. rewrite !lookup_update_other by discriminate. rewrite Hr. step.
    rewrite map_app. cbn [map].
    replace (Z.of_nat (length zs)) with (Z.of_nat (length (map dchr zs))) by (rewrite map_length; reflexivity).
    rewrite py_get_mid. step. cbn [listZ_eqb strip0].
    assert (Ed : (dchr x =? 48) = (x =? 0)) by (unfold dchr; lia). rewrite Ed.
    destruct (x =? 0) eqn:Ex; cbn [andb negb lift].
    + cbn [exec seq]. rewrite map_length.
      replace (Z.of_nat (length zs) + 1) with (Z.of_nat (length (zs ++ [x]))) by (rewrite app_length; cbn [length]; lia).
      apply IH. rewrite lookup_update_other by discriminate. rewrite <- app_assoc. exact Hr.
    + cbn [slice_val opt_int rbind]. rewrite py_slice_suffix. reflexivity.
Qed.

Lemma final_exec ce fuel l en : lookup "residue" en = Ret (VStr (map dchr l)) ->
  seq (exec ce fuel s_final en) (exec ce fuel s_ret0) = OReturn (dstr (strip0 l)).
Proof.
  intro Hr. unfold s_final. rewrite exec_for. cbn [eval rbind builtin1_val]. rewrite Hr. cbn [rbind builtin1_val].
  unfold range3. change (1 =? 0) with false. change (0 <? 1) with true. cbv iota. cbn [rbind lift items].
  replace (Z.to_nat ((Z.of_nat (length (map dchr l)) - 0 + 1 - 1) / 1)) with (length l) by (rewrite map_length; lia).
  apply (final_loop ce fuel l [] en). exact Hr.
Qed.

Lemma res0_exec ce fuel ds b :
  exec ce fuel s_res0 [("number"%string, vints ds); ("base"%string, vints [b])]
  = ONormal [("number"%string, vints ds); ("base"%string, vints [b]); ("residue"%string, VStr [])].
Proof. reflexivity. Qed.

Lemma outer_items ce ds b r :
  eval ce [("number"%string, vints ds); ("base"%string, vints [b]); ("residue"%string, VStr r)]
       (EB1 BRange (EB1 BLen (EVar "base"%string))) = Ret (VList [VInt 0]).
Proof. reflexivity. Qed.

Lemma outer_exec ce fuel pre d b :
  digits_ok pre -> 0 <= d <= 9 -> 0 <= b <= 9 -> b <= dval (pre ++ [d]) -> (length pre <= fuel)%nat ->
  exists en',
    exec ce fuel s_outer [("number"%string, vints (pre ++ [d])); ("base"%string, vints [b]); ("residue"%string, VStr [])]
    = ONormal en' /\
    lookup "residue" en'
    = Ret (VStr (map dchr (rev (if b <=? d then (d - b) :: rev pre else (10 + d - b) :: borrow (rev pre))))).
Proof.
  intros Hp Hd Hb Hv Hf. unfold s_outer. rewrite exec_for, outer_items. cbn [lift items].
  rewrite for_loop_cons. cbn [for_loop assign update String.eqb Ascii.eqb Bool.eqb andb seq].
  unfold outer_bd. rewrite exec_seq. unfold vints. change (map VInt [b]) with [VInt b]. rewrite flags_exec. cbn [seq]. rewrite exec_seq.
  replace (Z.of_nat (length (map VInt (pre ++ [d]))) - 1 - 0) with (Z.of_nat (length pre))
    by (rewrite map_length, app_length; cbn [length]; lia).
  destruct (b <=? d) eqn:E.
  - rewrite map_app. cbn [map].
    replace (Z.of_nat (length pre)) with (Z.of_nat (length (map VInt pre))) by (rewrite map_length; reflexivity).
    rewrite if_noborrow by lia. cbn [seq].
    change (map VInt pre ++ [VInt d]) with (map VInt pre ++ map VInt [d]). rewrite <- map_app.
    destruct (inner_exec ce fuel pre d b [dchr (d - b)] (Z.of_nat (length (map VInt pre))) Hp) as [en' [E1 E2]].
    exists en'. rewrite E1. split; [reflexivity|]. rewrite E2. cbn [rev]. rewrite rev_involutive, map_app. reflexivity.
  - rewrite dval_snoc in Hv. pose proof (dval_nonneg pre Hp) as Hnn.
    destruct (if_borrow ce fuel pre d b [] Hp Hd Hb ltac:(lia) ltac:(lia) Hf) as [fa Hfa].
    rewrite Hfa. cbn [seq].
    assert (Hb' : digits_ok (rev (borrow (rev pre)))) by (apply Forall_rev, borrow_digits, Forall_rev, Hp).
    destruct (inner_exec ce fuel (rev (borrow (rev pre))) d b [dchr (10 + d - b)] fa Hb') as [en' [E1 E2]].
    exists en'. rewrite E1. split; [reflexivity|]. rewrite E2. cbn [rev]. rewrite map_app. reflexivity.
Qed.

(* the fuel that is really needed: one evaluation of the while condition per digit before the last one *)
Theorem calculus_subtraction_gen_tight : forall ce fuel ds b,
  digits_ok ds -> ds <> [] -> 0 <= b <= 9 -> b <= dval ds -> (length ds <= S fuel)%nat ->
  run_fun ce fuel calculus_subtraction_def [dstr ds; dstr [b]] = Ret (dstr (calculus_subtraction ds b)).
Proof.
  intros ce fuel ds b Hds Hne Hb Hle Hfuel.
  destruct (exists_last Hne) as [pre [d E]]. subst ds.
  pose proof Hds as Hds'. apply Forall_app in Hds'. destruct Hds' as [Hp Hd]. inversion Hd as [|? ? Hd' _]; subst.
  unfold run_fun. rewrite def_eq. cbn [params body bind_params]. unfold prog.
  rewrite exec_seq, exec_init by assumption. cbn [seq].
  rewrite exec_seq, res0_exec. cbn [seq]. rewrite exec_seq.
  destruct (outer_exec ce fuel pre d b Hp Hd' Hb Hle) as [en' [E1 E2]].
  { rewrite app_length in Hfuel. cbn [length] in Hfuel. lia. }
  rewrite E1. cbn [seq]. rewrite exec_seq.
  rewrite (final_exec ce fuel _ en' E2).
  unfold calculus_subtraction. rewrite rev_app_distr. cbn [rev app]. reflexivity.
Qed.

Theorem calculus_subtraction_gen : forall ce fuel ds b,
  digits_ok ds -> ds <> [] -> 0 <= b <= 9 -> b <= dval ds -> (S (length ds) <= fuel)%nat ->
  run_fun ce fuel calculus_subtraction_def [dstr ds; dstr [b]] = Ret (dstr (calculus_subtraction ds b)).
Proof.
  intros ce fuel ds b Hds Hne Hb Hle Hfuel. apply calculus_subtraction_gen_tight; try assumption. lia.
Qed.

Print Assumptions calculus_subtraction_gen_tight.
Print Assumptions calculus_subtraction_gen.
