(* CoderCallees.v -- what the proofs about the regenerated set_vt / encode / decode (dsw/spiderweb.py) assume of the functions
   they call: exactly the statements OperationGenProofs proves of the regenerated dsw/operation.py (CoderGenProofs.v discharges
   them for the callee environment that MiniPy.call_in builds from the generated modules). *)
From DSW Require Import MiniPy Bignum Convert Coder MiniPyLemmas.
Open Scope Z_scope.
Open Scope string_scope.

Definition res_of_str (r : result (list Z)) : res val :=
  match r with Ok s => Ret (VStr s) | Raise e => Exn e | OutOfFuel => Fuel end.

Definition callees_ok (ce : string -> list val -> res val) (fuel : nat) : Prop :=
  (forall bits verbose, Forall (fun a => 0 <= a <= 9) bits ->
     ce "bit_to_number" [varr bits; VBool true; VBool verbose] = Ret (dstr (bit_to_number_str bits)))
  /\ (forall ds b, digits_ok ds -> 0 <= b <= 9 ->
     ce "calculus_division" [dstr ds; dstr [b]] =
     Ret (VTuple [dstr (fst (calculus_division ds b)); dstr [snd (calculus_division ds b)]]))
  /\ (forall ds b, digits_ok ds -> 0 <= b <= 9 ->
     ce "calculus_multiplication" [dstr ds; dstr [b]] = Ret (dstr (calculus_multiplication ds b)))
  /\ (forall ds b, digits_ok ds -> 0 <= b <= 9 ->
     ce "calculus_addition" [dstr ds; dstr [b]] = Ret (dstr (calculus_addition ds b)))
  /\ (forall d len r, digits_ok d -> d <> [] -> number_to_bit_str d len = Ok r -> (fuel_str d < fuel)%nat ->
     ce "number_to_bit" [dstr d; VInt len] = Ret (vints r))
  /\ (forall n len r, number_to_dna_int n len = Ok r -> (fuel_int n < fuel)%nat ->
     ce "number_to_dna" [VInt n; VInt len] = Ret (VStr r)).

(* set_vt as encode / decode see it (proved of the regenerated set_vt in SetVtGenProofs.v) *)
Definition set_vt_callee (ce : string -> list val -> res val) (fuel : nat) : Prop :=
  forall s n, 1 <= n -> (2 * Z.to_nat n < fuel)%nat ->
    ce "set_vt" [VStr s; VInt n] = res_of_str (set_vt s n).

(* results of encode *)
Definition res_of_encode (r : list Z * option (list Z)) : val :=
  match r with (s, None) => VStr s | (s, Some c) => VTuple [VStr s; VStr c] end.
