(* DivGenProofs.v -- proves that the program REGENERATED from the current source of dsw/operation.py (calculus_division)
   computes, under the semantics of MiniPy.v, exactly what the hand-written model of Bignum.v / Convert.v computes.
   Compiled on every run of the checks against the freshly generated OperationGen.v (harness/translate_minipy.py). *)
From Coq Require Import Lia ZifyBool.
From DSW Require Import MiniPy Bignum Convert MiniPyLemmas Spec BignumProofs.
From DSWGen Require Import OperationGen.
Open Scope Z_scope.
Ltac Zify.zify_post_hook ::= Z.to_euclidean_division_equations.

(* Proved below (the TARGET STATEMENT; the Python returns a pair of strings (quotient, remainder), the model a pair
   (digit list, remainder value)):

     Theorem calculus_division_gen : forall ce fuel ds b,
       digits_ok ds -> 0 <= b <= 9 ->
       run_fun ce fuel calculus_division_def [dstr ds; dstr [b]] =
       Ret (VTuple [dstr (fst (calculus_division ds b)); dstr [snd (calculus_division ds b)]]).

   The hypothesis [ds <> []] of the original target is dropped: the equation also holds for the empty string
   (checked with vm_compute for b = 0, 1, 5 and proved here), so this statement implies the original one.
   No while loop: any fuel. *)

(* the sub-statements of the generated program the lemmas are about, cut out of the generated term itself (nothing is
   copied by hand: if the translator's output changes shape these become SSkip and the proofs fail) *)
Definition div_body : stmt :=
  Eval cbv in match body calculus_division_def with
  | SSeq _ (SSeq _ (SSeq _ (SSeq _ (SSeq (SFor _ _ bd) _)))) => bd | _ => SSkip end.
Definition strip_body : stmt :=
  Eval cbv in match body calculus_division_def with
  | SSeq _ (SSeq _ (SSeq _ (SSeq _ (SSeq _ (SSeq _ (SSeq (SFor _ _ bd) _)))))) => bd | _ => SSkip end.
Definition div_final : stmt :=
  Eval cbv in match body calculus_division_def with
  | SSeq _ (SSeq _ (SSeq _ (SSeq _ (SSeq _ (SSeq _ (SSeq _ fin)))))) => fin | _ => SSkip end.
Definition div_rest : stmt :=
  Eval cbv in match body calculus_division_def with
  | SSeq _ (SSeq _ (SSeq _ r)) => r | _ => SSkip end.

Lemma nthZ_app_mid {A} (pre : list A) x post : nthZ (pre ++ x :: post) (length pre) = Some x.
Proof. induction pre as [|y pre IH]; cbn [app length nthZ]; [reflexivity|exact IH]. Qed.

Lemma py_get_mid {A} (pre : list A) x post : py_get (pre ++ x :: post) (Z.of_nat (length pre)) = Ok x.
Proof.
  unfold py_get; cbv zeta. rewrite app_length. cbn [length].
  destruct (Z.of_nat (length pre) <? 0) eqn:E; [lia|].
  destruct ((Z.of_nat (length pre) <? 0) || (Z.of_nat (length pre + S (length post)) <=? Z.of_nat (length pre))) eqn:F; [lia|].
  rewrite Nat2Z.id, nthZ_app_mid. reflexivity.
Qed.

Lemma py_get_0 {A} (x : A) l : py_get (x :: l) 0 = Ok x.
Proof. apply (py_get_mid [] x l). Qed.

Lemma py_get_last {A} (l : list A) x : py_get (l ++ [x]) (-1) = Ok x.
Proof.
  unfold py_get; cbv zeta. change (-1 <? 0) with true. cbv iota. rewrite app_length. cbn [length].
  destruct ((-1 + Z.of_nat (length l + 1) <? 0) || (Z.of_nat (length l + 1) <=? -1 + Z.of_nat (length l + 1))) eqn:F; [lia|].
  replace (Z.to_nat (-1 + Z.of_nat (length l + 1))) with (length l) by lia.
  rewrite nthZ_app_mid. reflexivity.
Qed.

Lemma clampZ_id n i : 0 <= i <= n -> clampZ n i = i.
Proof.
  intro H. unfold clampZ; cbv zeta. destruct (i <? 0) eqn:E1; [lia|]. destruct (i <? 0) eqn:E2; [lia|].
  destruct (n <? i) eqn:E3; [lia|]. reflexivity.
Qed.

Lemma py_slice_suffix {A} (pre post : list A) :
  py_slice (pre ++ post) (Z.of_nat (length pre)) (Z.of_nat (length (pre ++ post))) = post.
Proof.
  unfold py_slice; cbv zeta. rewrite !clampZ_id by (rewrite app_length; lia).
  rewrite app_length, Nat2Z.inj_add.
  set (a := Z.of_nat (length pre)). set (p := Z.of_nat (length post)).
  destruct (a + p <=? a) eqn:E5.
  - destruct post; [reflexivity|cbn [length] in p; lia].
  - replace (Z.to_nat (a + p - a)) with (length post) by lia.
    replace (Z.to_nat a) with (length pre) by lia.
    rewrite skipn_app, skipn_all, Nat.sub_diag. cbn [skipn app]. apply firstn_all.
Qed.
Definition dstep (b d r : Z) : Z * Z :=
  let cur := d + r * 10 in if b <=? cur then (cur / b, cur - (cur / b) * b) else (0, cur).

Local Open Scope string_scope.
Local Open Scope Z_scope.

Ltac step := cbn [exec eval lift seq rbind assign lookup update bind_tuple items String.eqb Ascii.eqb Bool.eqb
  binop_vals binop_scalar cmp_vals cmp_scalar is_arr orb truthy builtin1_val builtin2_val index_val mixes_bool val_eqb listZ_eqb andb negb slice_val opt_int].

Definition denv (N : val) (b : Z) (q : list Z) (r : Z) (tail : env) : env :=
  ("number", N) :: ("base", VStr [dchr b]) :: ("new_number", VList (map VInt q)) :: ("remainder", VInt r) :: tail.

Definition good_tail (tail : env) : Prop :=
  tail = [] \/ exists i d c, tail = [("index", i); ("quotient", d); ("current", c)].

Lemma body_step ce fuel N b q r tail i d : (2 <= b <= 9)%Z -> good_tail tail ->
  seq (assign ce (TTuple ["index"; "quotient"]) (VTuple [VInt i; VInt d]) (denv N b q r tail)) (exec ce fuel div_body) =
  ONormal (denv N b (q ++ [fst (dstep b d r)])%list (snd (dstep b d r))
             [("index", VInt i); ("quotient", VInt d); ("current", VInt (d + r * 10))]).
Proof.
  intros Hb [->|(i0 & d0 & c0 & ->)]; unfold denv, div_body, dstep; cbv zeta; step;
  rewrite !to_int_digit by lia; step.
  all: destruct (b <=? d + r * 10)%Z eqn:E; cbn [fst snd]; [|rewrite map_app; reflexivity].
  all: destruct (b =? 0)%Z eqn:E0; [lia|]; step; rewrite py_get_last; step; rewrite to_int_digit by lia; step.
  all: rewrite map_app; reflexivity.
Qed.


Lemma dstep_div_loop d ds b r : div_loop (d :: ds) b r =
  (fst (dstep b d r) :: fst (div_loop ds b (snd (dstep b d r))), snd (div_loop ds b (snd (dstep b d r)))).
Proof.
  cbn [div_loop]. unfold dstep. cbv zeta. destruct (b <=? d + r * 10); cbn [fst snd];
  match goal with |- context [div_loop ds b ?x] => destruct (div_loop ds b x) end; reflexivity.
Qed.

Lemma div_for ce fuel N b : 2 <= b <= 9 -> forall ds i q r tail, good_tail tail ->
  exists tail', good_tail tail' /\
    for_loop ce fuel (TTuple ["index"; "quotient"]) div_body (enumerate_from i (map VInt ds)) (denv N b q r tail) =
    ONormal (denv N b (q ++ fst (div_loop ds b r))%list (snd (div_loop ds b r)) tail').
Proof.
  intros Hb; induction ds as [|d ds IH]; intros i q r tail Ht.
  - exists tail; split; [exact Ht|]. cbn [map enumerate_from for_loop div_loop fst snd]. rewrite app_nil_r. reflexivity.
  - cbn [map enumerate_from]. rewrite for_loop_cons, body_step by assumption. cbn [seq].
    destruct (IH (i + 1) (q ++ [fst (dstep b d r)])%list (snd (dstep b d r))
                 [("index", VInt i); ("quotient", VInt d); ("current", VInt (d + r * 10))]) as (tail' & G & E).
    { right. eauto. }
    exists tail'; split; [exact G|]. rewrite E, dstep_div_loop. cbn [fst snd]. rewrite <- app_assoc. reflexivity.
Qed.

Lemma strip_step ce fuel pre d post r en :
  lookup "quotient" en = Ret (VStr (map dchr (pre ++ d :: post))) ->
  lookup "remainder" en = Ret (VInt r) ->
  exec ce fuel strip_body (update "index" (VInt (Z.of_nat (length pre))) en) =
  if d =? 0 then ONormal (update "index" (VInt (Z.of_nat (length pre))) en)
  else OReturn (VTuple [dstr (d :: post); VStr (str_of_Z r)]).
Proof.
  intros HQ HR. unfold strip_body. step.
  rewrite (lookup_update_other "quotient" "index") by discriminate. rewrite HQ. step.
  rewrite lookup_update_same. step.
  rewrite map_app. cbn [map]. rewrite <- (map_length dchr pre). rewrite py_get_mid. step.
  rewrite (lookup_update_other "remainder" "index") by discriminate. rewrite HR. cbn [to_str rbind lift].
  change (dchr d :: map dchr post) with (map dchr (d :: post)). rewrite py_slice_suffix.
  destruct (d =? 0) eqn:E; destruct (dchr d =? 48) eqn:E'; try (unfold dchr in E'; lia); reflexivity.
Qed.

Lemma strip_for ce fuel r : forall post pre en,
  lookup "quotient" en = Ret (VStr (map dchr (pre ++ post))) ->
  lookup "remainder" en = Ret (VInt r) ->
  seq (for_loop ce fuel (TVar "index") strip_body (zrange_up (length post) (Z.of_nat (length pre)) 1) en)
      (exec ce fuel div_final) =
  OReturn (VTuple [dstr (strip0 post); VStr (str_of_Z r)]).
Proof.
  induction post as [|d post IH]; intros pre en HQ HR.
  - cbn [length zrange_up for_loop seq]. unfold div_final. step. rewrite HR. reflexivity.
  - cbn [length zrange_up]. rewrite for_loop_cons. cbn [assign seq]. rewrite (strip_step _ _ _ _ _ _ _ HQ HR).
    cbn [strip0]. destruct (d =? 0) eqn:E; [|reflexivity]. cbn [seq].
    replace (Z.of_nat (length pre) + 1) with (Z.of_nat (length (pre ++ [d]))) by (rewrite app_length; cbn [length]; lia).
    apply IH.
    + rewrite (lookup_update_other "quotient" "index") by discriminate. rewrite <- app_assoc. exact HQ.
    + rewrite (lookup_update_other "remainder" "index") by discriminate. exact HR.
Qed.


Lemma map_res_digits (f : val -> res val) ds :
  (forall d, 0 <= d <= 9 -> f (VStr [dchr d]) = Ret (VInt d)) -> digits_ok ds ->
  map_res f (chars (map dchr ds)) = Ret (map VInt ds).
Proof.
  intros Hf Hds. induction Hds as [|d ds Hd Hds IH]; [reflexivity|].
  cbn [map chars map_res] in *. rewrite (Hf d Hd). unfold chars in IH. cbn [rbind]. rewrite IH. reflexivity.
Qed.

Lemma map_res_to_str ds : digits_ok ds ->
  map_res to_str (map VInt ds) = Ret (map (fun d => VStr [dchr d]) ds).
Proof.
  intros Hds. induction Hds as [|d ds Hd Hds IH]; [reflexivity|].
  cbn [map map_res]. rewrite (to_str_digit d Hd), IH. reflexivity.
Qed.

Lemma join_digits ds : join_strs [] (map (fun d => VStr [dchr d]) ds) = Ret (map dchr ds).
Proof.
  induction ds as [|d ds IH]; [reflexivity|].
  destruct ds as [|d' ds]; [reflexivity|].
  cbn [map join_strs] in *. rewrite IH. reflexivity.
Qed.

Definition div_after : stmt :=
  Eval cbv in match body calculus_division_def with
  | SSeq _ (SSeq _ (SSeq _ (SSeq _ (SSeq _ r)))) => r | _ => SSkip end.

Ltac setK := match goal with |- seq _ ?k = _ => let K := fresh "K" in set (K := k) end.

Lemma after_loop ce fuel N b q r tail : digits_ok q -> good_tail tail ->
  exec ce fuel div_after (denv N b q r tail) = OReturn (VTuple [dstr (strip0 q); VStr (str_of_Z r)]).
Proof.
  intros Hq [->|(i0 & d0 & c0 & ->)]; unfold div_after, denv; rewrite exec_seq; setK; step;
  rewrite (map_res_to_str q Hq); step; rewrite join_digits; step; subst K; rewrite exec_seq, exec_for; setK; step.
  all: unfold range3; change (1 =? 0) with false; change (0 <? 1) with true; cbv iota.
  all: replace (Z.to_nat ((Z.of_nat (length (map dchr q)) - 0 + 1 - 1) / 1)) with (length q) by (rewrite map_length; lia).
  all: step; subst K.
  all: apply (strip_for ce fuel r q []); reflexivity.
Qed.


Lemma rest_correct ce fuel ds b : 2 <= b <= 9 -> digits_ok ds ->
  exec ce fuel div_rest [("number", VStr (map dchr ds)); ("base", VStr [dchr b])] =
  OReturn (VTuple [dstr (strip0 (fst (div_loop ds b 0))); dstr [snd (div_loop ds b 0)]]).
Proof.
  intros Hb Hds. unfold div_rest. rewrite exec_seq; setK; step.
  rewrite (map_res_digits _ ds); [|intros d Hd; apply to_int_digit; exact Hd|exact Hds].
  step. subst K. rewrite exec_seq, exec_for; setK; step.
  destruct (div_for ce fuel (VList (map VInt ds)) b Hb ds 0 [] 0 [] (or_introl eq_refl)) as (tail' & G & E).
  unfold denv in E at 1; unfold div_body in E; cbn [map app] in E. rewrite E. cbn [seq]. subst K.
  destruct (div_loop ds b 0) as [q f] eqn:Ed. cbn [fst snd].
  destruct (div_loop_val ds b 0) with (q := q) (f := f) as (_ & Hq & _ & Hf).
  { eapply Forall_impl; [|exact Hds]. unfold digit. cbv beta. intros; lia. }
  { lia. } { lia. } { exact Ed. }
  rewrite (after_loop ce fuel _ b q f tail'); [|eapply Forall_impl; [|exact Hq]; unfold digit; cbv beta; intros; lia|exact G].
  rewrite str_of_Z_digit by lia. reflexivity.
Qed.

Lemma fst_let (X : list Z * Z) : (let '(q, r) := X in (strip0 q, r)) = (strip0 (fst X), snd X).
Proof. destruct X; reflexivity. Qed.

Lemma exec_div ce fuel ds b : digits_ok ds -> 0 <= b <= 9 ->
  exec ce fuel (body calculus_division_def) [("number", dstr ds); ("base", dstr [b])] =
  OReturn (VTuple [dstr (fst (calculus_division ds b)); dstr [snd (calculus_division ds b)]]).
Proof.
  intros Hds Hb. assert (b = 0 \/ b = 1 \/ 2 <= b <= 9) as [->|[->|Hb2]] by lia.
  - vm_compute. reflexivity.
  - vm_compute. reflexivity.
  - change (dstr [b]) with (VStr [dchr b]); unfold dstr at 1. cbn [body calculus_division_def].
    rewrite exec_seq; setK; step. destruct (dchr b =? 48) eqn:E1; [unfold dchr in E1; lia|]. step. subst K.
    rewrite exec_seq; setK; step. destruct (dchr b =? 49) eqn:E2; [unfold dchr in E2; lia|]. step. subst K.
    rewrite exec_seq; setK; step.
    pose proof (rest_correct ce fuel ds b Hb2 Hds) as R.
    unfold calculus_division. destruct (b =? 0) eqn:Z0; [lia|]. destruct (b =? 1) eqn:Z1; [lia|].
    destruct ds as [|d [|d2 ds']].
    + cbn [map length]. change (Z.of_nat 0 =? 1) with false. step. subst K.
      rewrite fst_let. cbn [fst snd]. exact R.
    + cbn [map length]. change (Z.of_nat 1 =? 1) with true. rewrite py_get_0. step. cbn [lexltb].
      destruct (d <? b) eqn:Ed; destruct (dchr d <? dchr b) eqn:Ec; try (unfold dchr in Ec; lia).
      * step. reflexivity.
      * destruct (dchr b <? dchr d); step; subst K; rewrite fst_let; cbn [fst snd]; exact R.
    + destruct (Z.of_nat (length (map dchr (d :: d2 :: ds'))) =? 1) eqn:EL; [cbn [map length] in EL; lia|].
      step. subst K. rewrite fst_let. cbn [fst snd]. exact R.
Qed.

Theorem calculus_division_gen : forall ce fuel ds b,
  digits_ok ds -> 0 <= b <= 9 ->
  run_fun ce fuel calculus_division_def [dstr ds; dstr [b]] =
  Ret (VTuple [dstr (fst (calculus_division ds b)); dstr [snd (calculus_division ds b)]]).
Proof.
  intros ce fuel ds b Hds Hb. unfold run_fun. cbn [params bind_params calculus_division_def].
  rewrite (exec_div ce fuel ds b Hds Hb). reflexivity.
Qed.

Print Assumptions calculus_division_gen.

