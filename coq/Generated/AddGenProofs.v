(* AddGenProofs.v -- proves that the program REGENERATED from the current source of dsw/operation.py (calculus_addition)
   computes, under the semantics of MiniPy.v, exactly what the hand-written model of Bignum.v / Convert.v computes.
   Compiled on every run of the checks against the freshly generated OperationGen.v (harness/translate_minipy.py). *)
From Coq Require Import Lia ZifyBool.
From DSW Require Import MiniPy Bignum Convert MiniPyLemmas.
From DSWGen Require Import OperationGen.
Open Scope Z_scope.
Ltac Zify.zify_post_hook ::= Z.to_euclidean_division_equations.

(* ---- the pieces of the generated term (taken from the term itself, nothing is copied by hand) ---------------------- *)
Definition seq_l (s : stmt) : stmt := match s with SSeq a _ => a | _ => SSkip end.
Definition seq_r (s : stmt) : stmt := match s with SSeq _ b => b | _ => SSkip end.
Definition for_body (s : stmt) : stmt := match s with SFor _ _ bd => bd | _ => SSkip end.
Definition for_iter (s : stmt) : expr := match s with SFor _ it _ => it | _ => ENone end.
Definition if_cond (s : stmt) : expr := match s with SIf c _ _ => c | _ => ENone end.
Definition if_then (s : stmt) : stmt := match s with SIf _ a _ => a | _ => SSkip end.
Definition if_else (s : stmt) : stmt := match s with SIf _ _ b => b | _ => SSkip end.

Definition add_s1 : stmt := Eval cbv in seq_l (body calculus_addition_def).
Definition add_s2 : stmt := Eval cbv in seq_l (seq_r (body calculus_addition_def)).
Definition add_for : stmt := Eval cbv in seq_l (seq_r (seq_r (body calculus_addition_def))).
Definition add_s4 : stmt := Eval cbv in seq_l (seq_r (seq_r (seq_r (body calculus_addition_def)))).
Definition add_s5 : stmt := Eval cbv in seq_r (seq_r (seq_r (seq_r (body calculus_addition_def)))).
Definition add_iter : expr := Eval cbv in for_iter add_for.
Definition add_body : stmt := Eval cbv in for_body add_for.
Definition add_sum : stmt := Eval cbv in seq_l add_body.
Definition add_if : stmt := Eval cbv in seq_r add_body.
Definition add_cond : expr := Eval cbv in if_cond add_if.
Definition add_then : stmt := Eval cbv in if_then add_if.
Definition add_flag : stmt := Eval cbv in seq_l (if_else add_if).
Definition add_while : stmt := Eval cbv in seq_r (if_else add_if).

Lemma add_def_eq :
  body calculus_addition_def =
  SSeq add_s1 (SSeq add_s2 (SSeq add_for (SSeq add_s4 add_s5))).
Proof. reflexivity. Qed.

Lemma add_for_eq : add_for = SFor (TVar "index") add_iter add_body.
Proof. reflexivity. Qed.

Lemma add_body_eq : add_body = SSeq add_sum (SIf add_cond add_then (SSeq add_flag add_while)).
Proof. reflexivity. Qed.


(* ---- lists ------------------------------------------------------------------------------------------------------ *)
Lemma nthZ_app_len {A} (pre : list A) x post : nthZ (pre ++ x :: post) (length pre) = Some x.
Proof. induction pre as [|y pre IH]; cbn [app length nthZ]; [reflexivity|exact IH]. Qed.

Lemma py_get_app_len {A} (pre : list A) x post j :
  j = Z.of_nat (length pre) -> py_get (pre ++ x :: post) j = Ok x.
Proof.
  intros ->. unfold py_get. rewrite app_length. cbn [length].
  destruct (Z.of_nat (length pre) <? 0) eqn:E; [lia|].
  destruct ((Z.of_nat (length pre) <? 0) || (Z.of_nat (length pre + S (length post)) <=? Z.of_nat (length pre)))%bool eqn:F; [lia|].
  rewrite Nat2Z.id, nthZ_app_len. reflexivity.
Qed.

Lemma set_nth_app_len {A} (pre : list A) x post y : set_nth (pre ++ x :: post) (length pre) y = pre ++ y :: post.
Proof. induction pre as [|z pre IH]; cbn [app length set_nth]; [reflexivity|rewrite IH; reflexivity]. Qed.

Lemma index_val_app pre x post j :
  j = Z.of_nat (length pre) -> index_val (VList (pre ++ x :: post)) (VInt j) = Ret x.
Proof. intro H. unfold index_val. rewrite (py_get_app_len pre x post j H). reflexivity. Qed.

Lemma index_val_app2 pre x0 x post j :
  j = Z.of_nat (length pre) + 1 -> index_val (VList (pre ++ x0 :: x :: post)) (VInt j) = Ret x.
Proof.
  intro H. change (pre ++ x0 :: x :: post) with (pre ++ [x0] ++ x :: post). rewrite app_assoc.
  apply index_val_app. rewrite app_length. cbn [length]. lia.
Qed.

Lemma store_val_app pre x post j y :
  j = Z.of_nat (length pre) -> store_val (VList (pre ++ x :: post)) (VInt j) y = Ret (VList (pre ++ y :: post)).
Proof.
  intros ->. unfold store_val. rewrite app_length. cbn [length].
  destruct (Z.of_nat (length pre) <? 0) eqn:E; [lia|].
  destruct ((Z.of_nat (length pre) <? 0) || (Z.of_nat (length pre + S (length post)) <=? Z.of_nat (length pre)))%bool eqn:F; [lia|].
  rewrite Nat2Z.id, set_nth_app_len. reflexivity.
Qed.

Lemma store_val_app2 pre x0 x post j y :
  j = Z.of_nat (length pre) + 1 ->
  store_val (VList (pre ++ x0 :: x :: post)) (VInt j) y = Ret (VList (pre ++ x0 :: y :: post)).
Proof.
  intro H. change (pre ++ x0 :: x :: post) with (pre ++ [x0] ++ x :: post). rewrite app_assoc.
  rewrite store_val_app by (rewrite app_length; cbn [length]; lia).
  rewrite <- app_assoc. reflexivity.
Qed.

(* ---- environments of the loop ---------------------------------------------------------------------------------- *)
Definition cv (d : Z) : val := VStr [dchr d].

Definition env3 (N B R : list val) (tl : env) : env :=
  ("number"%string, VList N) :: ("base"%string, VList B) :: ("result"%string, VList R) :: tl.

(* the variables first assigned inside the loop are appended in the order index, sum_value, flag *)
Definition tail_ok (tl : env) : Prop :=
  tl = [] \/
  (exists i s, tl = [("index"%string, i); ("sum_value"%string, s)]) \/
  (exists i s f, tl = [("index"%string, i); ("sum_value"%string, s); ("flag"%string, f)]).

Ltac step :=
  cbn [exec eval lift seq rbind assign lookup update bind_tuple items String.eqb Ascii.eqb Bool.eqb
       binop_vals binop_scalar cmp_vals cmp_scalar is_arr orb truthy mixes_bool builtin1_val env3 Z.eqb Pos.eqb].

(* the inner while: two iterations *)
Lemma add_while_exec ce fuel N B rp x0 x rpost k sv :
  (3 <= fuel)%nat -> k = Z.of_nat (length rp) -> 10 <= sv < 100 ->
  exec ce fuel add_while
    [("number"%string, VList N); ("base"%string, VList B); ("result"%string, VList (rp ++ x0 :: x :: rpost));
     ("index"%string, VInt k); ("sum_value"%string, VInt sv); ("flag"%string, VInt 0)] =
  ONormal [("number"%string, VList N); ("base"%string, VList B);
           ("result"%string, VList (rp ++ VInt (sv / 10) :: VInt (sv mod 10) :: rpost));
           ("index"%string, VInt k); ("sum_value"%string, VInt (sv / 10 / 10)); ("flag"%string, VInt (0 + 1 + 1))].
Proof.
  intros Hf Hk Hs. unfold add_while. rewrite exec_while.
  assert (C1 : (0 <? sv) = true) by lia.
  assert (C2 : (0 <? sv / 10) = true) by lia.
  assert (C3 : (0 <? sv / 10 / 10) = false) by lia.
  generalize fuel at 1. intro fu.
  destruct fuel as [|m]; [lia|]. cbn [while_loop]. step. rewrite C1.
  rewrite store_val_app2 by lia. step.
  destruct m as [|m]; [lia|]. cbn [while_loop]. step. rewrite C2.
  rewrite store_val_app by lia. step.
  destruct m as [|m]; [lia|]. cbn [while_loop]. step. rewrite C3.
  replace ((sv / 10) mod 10) with (sv / 10) by lia. reflexivity.
Qed.

(* one iteration of the for loop *)
Lemma body_step ce fuel np d npost bp bq bpost rp carry rpost tl k :
  (3 <= fuel)%nat -> tail_ok tl ->
  k = Z.of_nat (length np) -> k = Z.of_nat (length bp) -> k = Z.of_nat (length rp) ->
  0 <= d <= 9 -> 0 <= bq <= 9 -> 0 <= carry <= 9 ->
  exists tl', tail_ok tl' /\
    seq (assign ce (TVar "index") (VInt k)
           (env3 (map cv (np ++ d :: npost)) (map cv (bp ++ bq :: bpost)) (map VInt (rp ++ 0 :: carry :: rpost)) tl))
        (exec ce fuel add_body) =
    ONormal (env3 (map cv (np ++ d :: npost)) (map cv (bp ++ bq :: bpost))
               (map VInt (rp ++ (if d + bq + carry <? 10 then 0 :: d + bq + carry :: rpost
                                 else (d + bq + carry) / 10 :: (d + bq + carry) mod 10 :: rpost))) tl').
Proof.
  intros Hf Htl Hn Hb Hr Hd Hbq Hc. rewrite add_body_eq. rewrite !map_app. cbn [map].
  destruct (d + bq + carry <? 10) eqn:E;
  destruct Htl as [->|[(i&s&->)|(i&s&f&->)]].
  all: eexists; split;
    [| cbn [assign seq update env3 String.eqb Ascii.eqb Bool.eqb]; rewrite exec_seq; unfold add_sum; step;
       rewrite (index_val_app (map cv np)) by (rewrite map_length; lia);
       rewrite (index_val_app (map cv bp)) by (rewrite map_length; lia);
       rewrite (index_val_app2 (map VInt rp)) by (rewrite map_length; lia);
       unfold cv; step; rewrite !to_int_digit by assumption; cbn [to_int]; step;
       unfold add_cond; step; rewrite E;
       first
       [ unfold add_then; step; rewrite store_val_app2 by (rewrite map_length; lia); step; cbn [map]; reflexivity
       | unfold add_flag; step;
         rewrite add_while_exec by (try rewrite map_length; lia); cbn [map env3]; reflexivity ] ].
  all: unfold tail_ok; eauto 7.
Qed.

(* ---- the model produces digits ------------------------------------------------------------------------------------ *)
Lemma add_rev_digits pr : forall qr c, digits_ok pr -> digits_ok qr -> 0 <= c <= 9 -> digits_ok (add_rev pr qr c).
Proof.
  unfold digits_ok. induction pr as [|d pr IH]; intros qr c Hp Hq Hc.
  - cbn [add_rev]. constructor; [exact Hc|constructor].
  - destruct qr as [|bq qr]; cbn [add_rev]; [constructor; [exact Hc|constructor]|].
    inversion Hp as [|? ? Hd Hp']; subst. inversion Hq as [|? ? Hbq Hq']; subst.
    destruct (d + bq + c <? 10) eqn:E; constructor; try lia; apply IH; try assumption; lia.
Qed.

Lemma add_rev_nonempty pr : forall qr c, add_rev pr qr c <> [].
Proof.
  destruct pr as [|d pr]; intros qr c; cbn [add_rev]; [discriminate|].
  destruct qr as [|bq qr]; [discriminate|]. destruct (d + bq + c <? 10); discriminate.
Qed.

(* ---- the for loop = add_rev ----------------------------------------------------------------------------------------- *)
Lemma add_loop ce fuel : (3 <= fuel)%nat ->
  forall pr qr, length pr = length qr -> digits_ok pr -> digits_ok qr ->
  forall npost bpost carry done tl, 0 <= carry <= 9 -> tail_ok tl ->
  exists tl', tail_ok tl' /\
  for_loop ce fuel (TVar "index") add_body (zrange_up (length pr) (Z.of_nat (length pr) - 1) (-1))
    (env3 (map cv (rev pr ++ npost)) (map cv (rev qr ++ bpost)) (map VInt (repeat 0 (length pr) ++ carry :: done)) tl)
  = ONormal (env3 (map cv (rev pr ++ npost)) (map cv (rev qr ++ bpost)) (map VInt (rev (add_rev pr qr carry) ++ done)) tl').
Proof.
  intros Hf pr. induction pr as [|d pr IH]; intros qr Hl Hp Hq npost bpost carry done tl Hc Htl.
  - destruct qr; [|discriminate]. exists tl. split; [exact Htl|]. reflexivity.
  - destruct qr as [|bq qr]; [discriminate|].
    inversion Hp as [|? ? Hd Hp']; subst. inversion Hq as [|? ? Hbq Hq']; subst.
    cbn [length] in Hl. injection Hl as Hl.
    cbn [length zrange_up]. rewrite for_loop_cons.
    cbn [rev]. rewrite <- !app_assoc. cbn [app].
    change (repeat 0 (S (length pr))) with (0 :: repeat 0 (length pr)). rewrite repeat_cons.
    rewrite <- app_assoc. cbn [app].
    replace (Z.of_nat (S (length pr)) - 1) with (Z.of_nat (length pr)) by lia.
    destruct (body_step ce fuel (rev pr) d npost (rev qr) bq bpost (repeat 0 (length pr)) carry done tl
                (Z.of_nat (length pr))) as [tl1 [Ht1 E1]];
      try assumption; rewrite ?rev_length, ?repeat_length; try lia.
    rewrite E1. cbn [seq].
    replace (Z.of_nat (length pr) + -1) with (Z.of_nat (length pr) - 1) by lia.
    cbn [add_rev]. destruct (d + bq + carry <? 10) eqn:E.
    + destruct (IH qr Hl Hp' Hq' (d :: npost) (bq :: bpost) 0 ((d + bq + carry) :: done) tl1) as [tl2 [Ht2 E2]];
        [lia|exact Ht1|].
      rewrite E2. exists tl2. split; [exact Ht2|]. cbn [rev]. rewrite <- app_assoc. reflexivity.
    + destruct (IH qr Hl Hp' Hq' (d :: npost) (bq :: bpost) ((d + bq + carry) / 10)
                  (((d + bq + carry) mod 10) :: done) tl1) as [tl2 [Ht2 E2]]; [lia|exact Ht1|].
      rewrite E2. exists tl2. split; [exact Ht2|]. cbn [rev]. rewrite <- app_assoc. reflexivity.
Qed.

(* ---- the primitives used before and after the loop -------------------------------------------------------------- *)
Lemma map_repeat' {A B} (f : A -> B) x n : map f (repeat x n) = repeat (f x) n.
Proof. induction n as [|n IH]; cbn [repeat map]; [reflexivity|rewrite IH; reflexivity]. Qed.

Lemma chars_dchr l : chars (map dchr l) = map cv l.
Proof. unfold chars. rewrite map_map. reflexivity. Qed.

Lemma zfill1_length n b : length (zfill1 n b) = (n - 1 + 1)%nat.
Proof. unfold zfill1. rewrite app_length, repeat_length. reflexivity. Qed.

Lemma zfill1_digits n b : 0 <= b <= 9 -> digits_ok (zfill1 n b).
Proof.
  intro H. unfold digits_ok, zfill1. apply Forall_app. split.
  - apply Forall_forall. intros x Hx. apply repeat_spec in Hx. lia.
  - constructor; [exact H|constructor].
Qed.

Lemma firstn_digits n l : digits_ok l -> digits_ok (firstn n l).
Proof.
  unfold digits_ok. revert l. induction n as [|n IH]; intros l H; cbn [firstn]; [constructor|].
  destruct l as [|x l]; [constructor|]. inversion H; subst. constructor; [assumption|apply IH; assumption].
Qed.

Lemma zfill_digit b n : 0 <= b <= 9 ->
  builtin2_val BZfill (VStr (map dchr [b])) (VInt (Z.of_nat n)) = Ret (VStr (map dchr (zfill1 n b))).
Proof.
  intro H. cbn [map builtin2_val length].
  destruct ((dchr b =? 43) || (dchr b =? 45))%bool eqn:E; [unfold dchr in E; lia|].
  unfold zfill1. rewrite map_app, map_repeat'. cbn [map]. change (dchr 0) with 48.
  replace (Z.to_nat (Z.of_nat n - Z.of_nat 1)) with (n - 1)%nat by lia. reflexivity.
Qed.

Lemma zrange_up_length n : forall a s, length (zrange_up n a s) = n.
Proof. induction n as [|n IH]; intros a s; cbn [zrange_up length]; [reflexivity|rewrite IH; reflexivity]. Qed.

Lemma range3_up n : range3 0 (Z.of_nat n + 1) 1 = Ret (zrange_up (S n) 0 1).
Proof.
  unfold range3. change (1 =? 0) with false. change (0 <? 1) with true. cbv iota.
  replace (Z.to_nat ((Z.of_nat n + 1 - 0 + 1 - 1) / 1)) with (S n) by lia. reflexivity.
Qed.

Lemma range3_down n : range3 (Z.of_nat n - 1) (-1) (-1) = Ret (zrange_up n (Z.of_nat n - 1) (-1)).
Proof.
  unfold range3. change (-1 =? 0) with false. change (0 <? -1) with false. cbv iota.
  change (- -1) with 1.
  replace (Z.to_nat ((Z.of_nat n - 1 - -1 + 1 - 1) / 1)) with n by lia. reflexivity.
Qed.

Lemma map_res_const {A} (c : val) (l : list A) : map_res (fun _ => Ret c) l = Ret (repeat c (length l)).
Proof. induction l as [|x l IH]; cbn [map_res length repeat rbind]; [reflexivity|rewrite IH; reflexivity]. Qed.

Lemma map_res_to_str l : digits_ok l -> map_res to_str (map VInt l) = Ret (map cv l).
Proof.
  unfold digits_ok. induction l as [|x l IH]; intro H; cbn [map map_res]; [reflexivity|].
  inversion H; subst. rewrite to_str_digit by assumption. cbn [rbind]. rewrite IH by assumption. reflexivity.
Qed.

Lemma join_cv l : join_strs [] (map cv l) = Ret (map dchr l).
Proof.
  induction l as [|x l IH]; [reflexivity|]. cbn [map]. unfold cv at 1. cbn [join_strs].
  destruct l as [|y l]; [reflexivity|]. cbn [map] in *. unfold cv at 1. unfold cv at 1 in IH.
  rewrite IH. reflexivity.
Qed.

Lemma index_val_str0 c t : index_val (VStr (c :: t)) (VInt 0) = Ret (VStr [c]).
Proof. unfold index_val. change (c :: t) with ([] ++ c :: t). rewrite (py_get_app_len [] c t 0) by reflexivity. reflexivity. Qed.

Lemma py_slice_tail (c : Z) t : py_slice (c :: t) 1 (Z.of_nat (length (c :: t))) = t.
Proof.
  unfold py_slice, clampZ. cbn [length]. set (n := Z.of_nat (S (length t))).
  assert (Hn : n = Z.of_nat (length t) + 1) by lia. clearbody n. cbv zeta.
  change (1 <? 0) with false. cbv iota. change (1 <? 0) with false. cbv iota.
  assert (E1 : (n <? 1) = false) by lia. assert (E2 : (n <? 0) = false) by lia. assert (E3 : (n <? n) = false) by lia.
  repeat (progress (rewrite ?E1, ?E2, ?E3; cbv iota)).
  destruct (n <=? 1) eqn:E4.
  - destruct t; [reflexivity|cbn [length] in Hn; lia].
  - replace (Z.to_nat (n - 1)) with (length t) by lia. change (Z.to_nat 1) with 1%nat. cbn [skipn]. apply firstn_all.
Qed.

(* ---- the theorem --------------------------------------------------------------------------------------------------- *)
Theorem calculus_addition_gen : forall ce fuel ds b,
  digits_ok ds -> 0 <= b <= 9 -> (3 <= fuel)%nat ->
  run_fun ce fuel calculus_addition_def [dstr ds; dstr [b]] = Ret (dstr (calculus_addition ds b)).
Proof.
  intros ce fuel ds b Hds Hb Hf. unfold run_fun. rewrite add_def_eq.
  cbn [params calculus_addition_def bind_params]. unfold dstr.
  (* number, base = list(number), list(base.zfill(len(number))) *)
  step. unfold add_s1. step. rewrite map_length, (zfill_digit b (length ds) Hb). step.
  rewrite !chars_dchr.
  (* result = [0 for _ in range(len(number) + 1)] *)
  unfold add_s2. step. rewrite map_length, range3_up. step.
  rewrite map_res_const, zrange_up_length. step.
  (* the loop *)
  rewrite add_for_eq, exec_for. unfold add_iter. step. rewrite map_length, range3_down. step.
  destruct (add_loop ce fuel Hf (rev ds) (rev (firstn (length ds) (zfill1 (length ds) b))))
    with (npost := @nil Z) (bpost := skipn (length ds) (zfill1 (length ds) b)) (carry := 0) (done := @nil Z)
         (tl := @nil (string * val)) as [tl' [Htl' EL]].
  { rewrite !rev_length, firstn_length, zfill1_length. lia. }
  { apply Forall_rev. exact Hds. }
  { apply Forall_rev. apply firstn_digits. apply zfill1_digits. exact Hb. }
  { lia. }
  { left. reflexivity. }
  rewrite !rev_involutive, app_nil_r, firstn_skipn, rev_length in EL. unfold env3 in EL.
  replace (repeat (VInt 0) (S (length ds))) with (map VInt (repeat 0 (length ds) ++ [0]))
    by (rewrite map_app, map_repeat', <- repeat_cons; reflexivity).
  rewrite EL. clear EL. rewrite app_nil_r.
  (* result = "".join(list(map(str, result))) *)
  unfold calculus_addition. cbv zeta.
  assert (HR : digits_ok (rev (add_rev (rev ds) (rev (firstn (length ds) (zfill1 (length ds) b))) 0))).
  { apply Forall_rev. apply add_rev_digits; [apply Forall_rev; exact Hds| |lia].
    apply Forall_rev. apply firstn_digits. apply zfill1_digits. exact Hb. }
  pose proof (add_rev_nonempty (rev ds) (rev (firstn (length ds) (zfill1 (length ds) b))) 0) as HN.
  remember (rev (add_rev (rev ds) (rev (firstn (length ds) (zfill1 (length ds) b))) 0)) as R eqn:ER.
  destruct R as [|c t].
  { exfalso. apply HN. apply (f_equal (@rev Z)) in ER. rewrite rev_involutive in ER. symmetry. exact ER. }
  clear ER HN. step. unfold add_s4. step. rewrite (map_res_to_str _ HR). step.
  cbn [builtin2_val items rbind]. rewrite join_cv. step.
  (* return result if result[0] != "0" else result[1:] *)
  unfold add_s5. step. cbn [map]. rewrite index_val_str0. step.
  cbn [val_eqb listZ_eqb]. inversion HR as [|? ? Hc Ht]; subst.
  destruct (dchr c =? 48) eqn:E; cbn [andb negb lift].
  - assert (c = 0) by (unfold dchr in E; lia). subst c.
    unfold slice_val. cbn [opt_int rbind lift].
    rewrite py_slice_tail. reflexivity.
  - destruct c as [|p|p]; [unfold dchr in E; lia|reflexivity|lia].
Qed.

Print Assumptions calculus_addition_gen.
