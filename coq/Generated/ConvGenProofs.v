(* ConvGenProofs.v -- the four converters of dsw/operation.py (bit_to_number, number_to_bit, dna_to_number, number_to_dna),
   REGENERATED from the current source, compute under the semantics of MiniPy.v what the hand-written model of Convert.v
   computes -- relative to an environment [ce] of callees that behaves like the model of Bignum.v on its domain (which
   AddGenProofs / MulGenProofs / DivGenProofs prove of the regenerated callees; OperationGenProofs.v ties the knot).
   Compiled on every run of the checks against the freshly generated OperationGen.v (harness/translate_minipy.py). *)
From Coq Require Import Lia ZifyBool.
From DSW Require Import MiniPy Bignum Convert MiniPyLemmas.
From DSWGen Require Import OperationGen.
Open Scope Z_scope.
Open Scope string_scope.
Ltac Zify.zify_post_hook ::= Z.to_euclidean_division_equations.

From DSW Require Import Spec BignumProofs ConvertProofs.

(* ---- tactics ------------------------------------------------------------------------------------------------------ *)
(* lookups through updates of an abstract environment *)
Ltac lk := repeat (rewrite lookup_update_same || (rewrite lookup_update_other by discriminate)).
(* full symbolic execution of a loop-free statement *)
Ltac step := cbn [exec eval lift seq rbind assign items bind_tuple builtin1_val builtin2_val binop_vals binop_scalar cmp_vals cmp_scalar is_arr orb
                  truthy mixes_bool type_is].

Section Conv.
  Variable ce : string -> list val -> res val.
  Hypothesis ce_add : forall ds b, digits_ok ds -> 0 <= b <= 9 ->
    ce "calculus_addition" [dstr ds; dstr [b]] = Ret (dstr (calculus_addition ds b)).
  Hypothesis ce_mul : forall ds b, digits_ok ds -> 0 <= b <= 9 ->
    ce "calculus_multiplication" [dstr ds; dstr [b]] = Ret (dstr (calculus_multiplication ds b)).
  Hypothesis ce_div : forall ds b, digits_ok ds -> ds <> [] -> 0 <= b <= 9 ->
    ce "calculus_division" [dstr ds; dstr [b]] =
    Ret (VTuple [dstr (fst (calculus_division ds b)); dstr [snd (calculus_division ds b)]]).
  Local Open Scope Z_scope.   (* string_scope was opened last: make <? =? mean Z again *)

  (* [exec] one statement at a time without unfolding the loops (plain cbn [exec] would expand SFor / SWhile) *)
  Lemma exec_assign fuel t e en : exec ce fuel (SAssign t e) en = lift (eval ce en e) (fun v => assign ce t v en).
  Proof. reflexivity. Qed.
  Lemma exec_return fuel e en : exec ce fuel (SReturn e) en = lift (eval ce en e) OReturn.
  Proof. reflexivity. Qed.
  Lemma exec_raise fuel e en : exec ce fuel (SRaise e) en = OExn e.
  Proof. reflexivity. Qed.
  Ltac ex := repeat first [rewrite exec_seq | rewrite exec_assign | rewrite exec_if | rewrite exec_for | rewrite exec_while
                          | rewrite exec_return | rewrite exec_raise].
  Ltac ev := cbn [eval lift seq rbind assign items bind_tuple builtin1_val builtin2_val binop_vals binop_scalar cmp_vals cmp_scalar is_arr orb
                  truthy mixes_bool type_is].
  Ltac evc := cbn [eval lift seq rbind assign items bind_tuple builtin1_val builtin2_val binop_vals binop_scalar cmp_vals cmp_scalar is_arr orb
                  truthy mixes_bool type_is lookup update String.eqb Ascii.eqb Bool.eqb].

  Lemma canonical_digits_ok d : canonical d -> digits_ok d.
  Proof.
    intro H. apply canonical_digits in H. unfold digits_ok. eapply Forall_impl; [|exact H].
    unfold digit. intros; lia.
  Qed.

  Definition b2n_str_body : stmt :=
    (SSeq (SAssign (TVar "decimal_number"%string) (ECall "calculus_multiplication"%string [(EVar "decimal_number"%string); (EStr [50])]))
    (SSeq (SAssign (TVar "decimal_number"%string) (ECall "calculus_addition"%string [(EVar "decimal_number"%string); (EB1 BStr (EVar "a_bit"%string))]))
    (SIf (EVar "verbose"%string)
      (SExpr (ETuple [(EBin Add (EVar "index"%string) (EInt (1))); (EB1 BLen (EVar "bit_array"%string))]))
      SSkip))).

  Lemma b2n_str_loop fuel verbose l0 : forall bits i d en,
    Forall (fun a => 0 <= a <= 9) bits -> canonical d ->
    lookup "decimal_number" en = Ret (dstr d) ->
    lookup "verbose" en = Ret (VBool verbose) ->
    (lookup "bit_array" en = Ret (VList l0) \/ lookup "bit_array" en = Ret (VArr l0)) ->
    exists en', for_loop ce fuel (TTuple ["index"; "a_bit"]) b2n_str_body (enumerate_from i (map VInt bits)) en = ONormal en'
      /\ lookup "decimal_number" en' = Ret (dstr (fold_left (fun d a => calculus_addition (calculus_multiplication d 2) a) bits d)).
  Proof.
    induction bits as [|a bits IH]; intros i d en HB HC HD HV HA.
    - exists en. split; [reflexivity|exact HD].
    - inversion HB as [|? ? Ha HB']; subst.
      cbn [map enumerate_from for_loop]. unfold b2n_str_body at 1. step. lk. rewrite HD. step.
      change (VStr [50]) with (dstr [2]). rewrite ce_mul by (try apply canonical_digits_ok; auto; lia).
      destruct (mul_correct d 2 HC ltac:(unfold digit; lia)) as [HM _].
      step. lk. step. rewrite (to_str_digit a Ha). step.
      change (VStr [dchr a]) with (dstr [a]). rewrite ce_add by (try apply canonical_digits_ok; auto; lia).
      destruct (add_correct _ a HM ltac:(unfold digit; lia)) as [HS _].
      step. lk. rewrite HV. step.
      (* the monitor call reads len(bit_array): a list or a NumPy array, same length *)
      destruct HA as [HA|HA]; rewrite HA; step;
        (match goal with |- context [ONormal ?E] => set (en1 := E) end;
         assert (EQ : (if verbose then ONormal en1 else ONormal en1) = ONormal en1) by (destruct verbose; reflexivity);
         rewrite EQ; cbn [seq fold_left]; apply IH; auto; unfold en1; lk; auto).
  Qed.

  Theorem bit_to_number_str_gen : forall fuel bits verbose, Forall (fun a => 0 <= a <= 9) bits ->
    run_fun ce fuel bit_to_number_def [vints bits; VBool true; VBool verbose] = Ret (dstr (bit_to_number_str bits)).
  Proof.
    intros fuel bits verbose HB. unfold run_fun. cbn [params body bind_params bit_to_number_def].
    ex. evc. ex. evc. ex. evc. unfold vints at 1. evc.
    destruct (b2n_str_loop fuel verbose (map VInt bits) bits 0 [0]
      [("bit_array", vints bits); ("is_string", VBool true);
                ("verbose", VBool verbose); ("monitor", VOpaque);
                ("decimal_number", VStr [48])] HB canonical_0 eq_refl eq_refl (or_introl eq_refl)) as [en' [EL HL]].
    unfold b2n_str_body in EL. rewrite EL. evc. ex. evc. rewrite HL. reflexivity.
  Qed.

  (* the same function on a NumPy array of bits (what encode of dsw/spiderweb.py passes) *)
  Theorem bit_to_number_str_gen_arr : forall fuel bits verbose, Forall (fun a => 0 <= a <= 9) bits ->
    run_fun ce fuel bit_to_number_def [varr bits; VBool true; VBool verbose] = Ret (dstr (bit_to_number_str bits)).
  Proof.
    intros fuel bits verbose HB. unfold run_fun. cbn [params body bind_params bit_to_number_def].
    ex. evc. ex. evc. ex. evc. unfold varr at 1. evc.
    destruct (b2n_str_loop fuel verbose (map VInt bits) bits 0 [0]
      [("bit_array", varr bits); ("is_string", VBool true);
                ("verbose", VBool verbose); ("monitor", VOpaque);
                ("decimal_number", VStr [48])] HB canonical_0 eq_refl eq_refl (or_intror eq_refl)) as [en' [EL HL]].
    unfold b2n_str_body in EL. rewrite EL. evc. ex. evc. rewrite HL. reflexivity.
  Qed.


  Definition b2n_int_body : stmt :=
    (SSeq (SAssign (TVar "decimal_number"%string) (EBin Add (EBin Mul (EVar "decimal_number"%string) (EInt (2))) (EB1 BInt (EVar "a_bit"%string))))
    (SIf (EVar "verbose"%string)
      (SExpr (ETuple [(EBin Add (EVar "index"%string) (EInt (1))); (EB1 BLen (EVar "bit_array"%string))]))
      SSkip)).

  Lemma b2n_int_loop fuel verbose l0 : forall bits i d en,
    lookup "decimal_number" en = Ret (VInt d) ->
    lookup "verbose" en = Ret (VBool verbose) ->
    lookup "bit_array" en = Ret (VList l0) ->
    exists en', for_loop ce fuel (TTuple ["index"; "a_bit"]) b2n_int_body (enumerate_from i (map VInt bits)) en = ONormal en'
      /\ lookup "decimal_number" en' = Ret (VInt (fold_left (fun d a => d * 2 + a) bits d)).
  Proof.
    induction bits as [|a bits IH]; intros i d en HD HV HA.
    - exists en. split; [reflexivity|exact HD].
    - cbn [map enumerate_from for_loop]. unfold b2n_int_body at 1. step. lk. rewrite HD. step. lk. cbn [to_int]. step. lk. rewrite HV. step.
      lk. rewrite HA. step.
      match goal with |- context [ONormal ?E] => set (en1 := E) end.
      assert (EQ : (if verbose then ONormal en1 else ONormal en1) = ONormal en1) by (destruct verbose; reflexivity).
      rewrite EQ. cbn [seq fold_left]. apply IH; auto; unfold en1; lk; auto.
  Qed.

  Theorem bit_to_number_int_gen : forall fuel bits verbose,
    run_fun ce fuel bit_to_number_def [vints bits; VBool false; VBool verbose] = Ret (VInt (bit_to_number_int bits)).
  Proof.
    intros fuel bits verbose. unfold run_fun. cbn [params body bind_params bit_to_number_def].
    ex. evc. ex. evc. ex. evc. unfold vints at 1. evc.
    destruct (b2n_int_loop fuel verbose (map VInt bits) bits 0 0
      [("bit_array", vints bits); ("is_string", VBool false);
                ("verbose", VBool verbose); ("monitor", VOpaque);
                ("decimal_number", VInt 0)] eq_refl eq_refl eq_refl) as [en' [EL HL]].
    unfold b2n_int_body in EL. rewrite EL. evc. ex. evc. rewrite HL. reflexivity.
  Qed.

  (* ---- facts about the model ------------------------------------------------------------------------------------ *)
  Lemma digits_ok_digit l : digits_ok l <-> Forall digit l.
  Proof. unfold digits_ok, digit. split; intro H; (eapply Forall_impl; [|exact H]); cbv beta; intros; lia. Qed.

  Lemma div_ok d b : digits_ok d -> d <> [] -> 2 <= b <= 9 ->
    digits_ok (fst (calculus_division d b)) /\ fst (calculus_division d b) <> [] /\
    0 <= snd (calculus_division d b) < b.
  Proof.
    intros Hd Hne Hb. apply digits_ok_digit in Hd.
    assert (Hg : forall q r, div_loop d b 0 = (q, r) -> digits_ok (strip0 q) /\ strip0 q <> [] /\ 0 <= r < b).
    { intros q r E. apply div_loop_val in E; [|exact Hd|lia|lia]. destruct E as (_ & Hq & _ & Hf).
      destruct (strip0_correct q Hq) as [(N & D & _) _]. split; [apply digits_ok_digit; exact D|split; [exact N|exact Hf]]. }
    unfold calculus_division.
    destruct (b =? 0)%Z eqn:E0; [lia|]. destruct (b =? 1)%Z eqn:E1; [lia|].
    destruct d as [|x [|y t]]; [contradiction| |].
    - destruct (x <? b) eqn:Ex.
      + cbn [fst snd]. inversion Hd as [|? ? Hx _]; subst. unfold digit in Hx.
        split; [constructor; [lia|constructor]|split; [discriminate|lia]].
      + destruct (div_loop [x] b 0) as [q r] eqn:Em. cbn [fst snd]. apply Hg. reflexivity.
    - destruct (div_loop (x :: y :: t) b 0) as [q r] eqn:Em. cbn [fst snd]. apply Hg. reflexivity.
  Qed.

  (* ---- primitive operations ------------------------------------------------------------------------------------- *)
  Lemma cmp_ne_zero d : cmp_vals CNe (dstr d) (VStr [48]) = Ret (VBool (negb (is_zero_str d))).
  Proof.
    unfold dstr, cmp_vals, cmp_scalar, mixes_bool, is_arr, val_eqb; cbn [orb]. do 3 f_equal.
    destruct d as [|x [|y t]]; cbn [map listZ_eqb is_zero_str]; [reflexivity| |].
    - unfold dchr. rewrite andb_true_r. destruct (48 + x =? 48) eqn:E; destruct x; try reflexivity; lia.
    - rewrite andb_false_r. destruct x; reflexivity.
  Qed.

  Lemma type_is_dstr d t : type_is (dstr d) t = Ret (VBool match t with TStr => true | _ => false end).
  Proof. destruct t; reflexivity. Qed.

  Lemma insert_front l v : insert_val (VList l) (VInt 0) v = Ret (VList (v :: l)).
  Proof.
    unfold insert_val, clampZ. change (0 <? 0) with false. cbv iota.
    destruct (Z.of_nat (length l) <? 0) eqn:E; [lia|]. reflexivity.
  Qed.

  Lemma repeat_list_single {A} (x : A) n : repeat_list n [x] = repeat x n.
  Proof. induction n as [|n IH]; cbn [repeat_list repeat app]; [reflexivity|rewrite IH; reflexivity]. Qed.

  Lemma py_slice_map {A B} (f : A -> B) l lo hi : py_slice (map f l) lo hi = map f (py_slice l lo hi).
  Proof.
    unfold py_slice. rewrite map_length.
    destruct (clampZ (Z.of_nat (length l)) hi <=? clampZ (Z.of_nat (length l)) lo); [reflexivity|].
    rewrite skipn_map, firstn_map. reflexivity.
  Qed.

  (* ---- number_to_bit --------------------------------------------------------------------------------------------- *)
  Definition n2b_tail : stmt :=
    (SIf (ECmp CEq (EB1 BLen (EVar "one_array"%string)) (EVar "bit_length"%string))
    (SReturn (EVar "one_array"%string))
    (SIf (ECmp CLt (EB1 BLen (EVar "one_array"%string)) (EVar "bit_length"%string))
    (SReturn (EBin Add (EBin Mul (EList [(EInt (0))]) (EBin Sub (EVar "bit_length"%string) (EB1 BLen (EVar "one_array"%string)))) (EVar "one_array"%string)))
    (SReturn (ESlice (EVar "one_array"%string) None (Some (EVar "bit_length"%string)))))).

  Lemma n2b_tail_ok fuel en one len :
    lookup "one_array" en = Ret (vints one) -> lookup "bit_length" en = Ret (VInt len) ->
    exec ce fuel n2b_tail en = OReturn (vints (fit_bits one len)).
  Proof.
    intros HO HL. unfold n2b_tail, fit_bits. step. rewrite HO, HL. unfold vints at 1 2 3 4 5 6. step.
    rewrite map_length. cbn [val_eqb].
    destruct (Z.of_nat (length one) =? len)%Z eqn:E1; step; [reflexivity|].
    destruct (Z.of_nat (length one) <? len) eqn:E2; step.
    - rewrite repeat_list_single. unfold vints. rewrite map_app, map_repeat'. reflexivity.
    - cbn [slice_val opt_int rbind lift]. unfold py_slice_to, vints. rewrite py_slice_map. reflexivity.
  Qed.

  Definition n2b_str_cond : expr := (ECmp CNe (EVar "decimal_number"%string) (EStr [48])).
  Definition n2b_str_body : stmt :=
    (SSeq (SAssign (TTuple ["decimal_number"%string; "remainder"%string]) (ECall "calculus_division"%string [(EVar "decimal_number"%string); (EStr [50])]))
    (SInsert "one_array"%string (EInt (0)) (EB1 BInt (EVar "remainder"%string)))).

  Lemma n2b_str_loop fuel vl : forall f d acc r n en, digits_ok d -> d <> [] ->
    to_radix_str f 2 d acc = Ok r -> (f < n)%nat ->
    lookup "decimal_number" en = Ret (dstr d) -> lookup "one_array" en = Ret (vints acc) ->
    lookup "bit_length" en = Ret vl ->
    exists en', while_loop ce fuel n2b_str_cond n2b_str_body n en = ONormal en' /\
      lookup "one_array" en' = Ret (vints r) /\ lookup "bit_length" en' = Ret vl.
  Proof.
    induction f as [|f IH]; intros d acc r n en Hd Hne HR Hn HD HO HL; cbn [to_radix_str] in HR;
      (destruct n as [|n]; [lia|]); cbn [while_loop]; unfold n2b_str_cond at 1; ev; rewrite HD; ev;
      rewrite cmp_ne_zero; destruct (is_zero_str d) eqn:EZ; ev; cbn [negb]; try discriminate.
    - injection HR as <-. eauto.
    - injection HR as <-. eauto.
    - destruct (div_ok d 2 Hd Hne ltac:(lia)) as (Hq & Hqn & Hr).
      destruct (calculus_division d 2) as [q rm] eqn:ED. cbn [fst snd] in *.
      unfold n2b_str_body at 1. step. rewrite HD. step. change (VStr [50]) with (dstr [2]).
      rewrite ce_div by (auto; lia). rewrite ED. cbn [fst snd]. step. lk. rewrite HO. step.
      change (dstr [rm]) with (VStr [dchr rm]).
      rewrite (to_int_digit rm) by lia. step. unfold vints at 1. rewrite insert_front. step.
      apply (IH q (rm :: acc) r n); auto; try lia; lk; auto.
  Qed.

  Theorem number_to_bit_str_gen : forall fuel d len r, digits_ok d -> d <> [] ->
    number_to_bit_str d len = Ok r -> (fuel_str d < fuel)%nat ->
    run_fun ce fuel number_to_bit_def [dstr d; VInt len] = Ret (vints r).
  Proof.
    intros fuel d len r Hd Hne HR Hf. unfold number_to_bit_str in HR.
    destruct (to_radix_str (fuel_str d) 2 d []) as [one| |] eqn:ER; cbn [bind] in HR; try discriminate.
    injection HR as <-.
    unfold run_fun. cbn [params body bind_params number_to_bit_def].
    ex. evc. ex. evc. rewrite type_is_dstr. evc. ex.
    destruct (n2b_str_loop fuel (VInt len) _ _ _ _ fuel
       [("decimal_number", dstr d); ("bit_length", VInt len); ("one_array", VList [])] Hd Hne ER Hf eq_refl eq_refl eq_refl)
      as (en' & EL & HO & HL).
    unfold n2b_str_cond, n2b_str_body in EL. rewrite EL. cbn [seq].
    pose proof (n2b_tail_ok fuel en' one len HO HL) as ET. unfold n2b_tail in ET. rewrite ET. reflexivity.
  Qed.


  Definition n2b_int_cond : expr := (ECmp CGt (EVar "decimal_number"%string) (EInt (0))).
  Definition n2b_int_body : stmt :=
    (SSeq (SAssign (TTuple ["decimal_number"%string; "remainder"%string]) (EB2 BDivmod (EVar "decimal_number"%string) (EInt (2))))
    (SInsert "one_array"%string (EInt (0)) (EVar "remainder"%string))).

  Lemma n2b_int_loop fuel vl : forall f x acc r n en,
    to_radix_int f 2 x acc = Ok r -> (f < n)%nat ->
    lookup "decimal_number" en = Ret (VInt x) -> lookup "one_array" en = Ret (vints acc) ->
    lookup "bit_length" en = Ret vl ->
    exists en', while_loop ce fuel n2b_int_cond n2b_int_body n en = ONormal en' /\
      lookup "one_array" en' = Ret (vints r) /\ lookup "bit_length" en' = Ret vl.
  Proof.
    induction f as [|f IH]; intros x acc r n en HR Hn HD HO HL; cbn [to_radix_int] in HR;
      (destruct n as [|n]; [lia|]); cbn [while_loop]; unfold n2b_int_cond at 1; ev; rewrite HD; ev;
      (replace (0 <? x) with (negb (x <=? 0)) by lia); destruct (x <=? 0) eqn:EZ; ev; cbn [negb]; try discriminate.
    - injection HR as <-. eauto.
    - injection HR as <-. eauto.
    - unfold n2b_int_body at 1. step. rewrite HD. step. change (2 =? 0) with false. step. lk. rewrite HO. step.
      unfold vints at 1. rewrite insert_front. step.
      apply (IH (x / 2) (x mod 2 :: acc) r n); auto; try lia; lk; auto.
  Qed.

  Theorem number_to_bit_int_gen : forall fuel n len r,
    number_to_bit_int n len = Ok r -> (fuel_int n < fuel)%nat ->
    run_fun ce fuel number_to_bit_def [VInt n; VInt len] = Ret (vints r).
  Proof.
    intros fuel n len r HR Hf. unfold number_to_bit_int in HR.
    destruct (to_radix_int (fuel_int n) 2 n []) as [one| |] eqn:ER; cbn [bind] in HR; try discriminate.
    injection HR as <-.
    unfold run_fun. cbn [params body bind_params number_to_bit_def].
    ex. evc. ex. evc. ex. evc. ex.
    destruct (n2b_int_loop fuel (VInt len) _ _ _ _ fuel
       [("decimal_number", VInt n); ("bit_length", VInt len); ("one_array", VList [])] ER Hf eq_refl eq_refl eq_refl)
      as (en' & EL & HO & HL).
    unfold n2b_int_cond, n2b_int_body in EL. rewrite EL. cbn [seq].
    pose proof (n2b_tail_ok fuel en' one len HO HL) as ET. unfold n2b_tail in ET. rewrite ET. reflexivity.
  Qed.

  Theorem number_to_bit_other_type : forall fuel len,
    run_fun ce fuel number_to_bit_def [VNone; VInt len] = Exn ValueError.
  Proof.
    intros fuel len. unfold run_fun. cbn [params body bind_params number_to_bit_def].
    ex. evc. ex. evc. ex. evc. ex. reflexivity.
  Qed.

  (* ---- dna_to_number --------------------------------------------------------------------------------------------- *)
  Lemma map_index_nuc : forall s,
    map_res (str_index [65; 67; 71; 84]) (chars s) =
    match nuc_values s with Ok vs => Ret (map VInt vs) | Raise e => Exn e | OutOfFuel => Fuel end.
  Proof.
    induction s as [|c t IH]; [reflexivity|].
    unfold chars in *. cbn [map map_res nuc_values]. rewrite IH. unfold str_index, nuc_index. cbn [indexZ].
    destruct (c =? 65); [|destruct (c =? 67); [|destruct (c =? 71); [|destruct (c =? 84)]]]; cbn [rbind bind];
      try reflexivity; destruct (nuc_values t); reflexivity.
  Qed.

  Lemma nuc_values_range : forall s vs, nuc_values s = Ok vs -> Forall (fun v => 0 <= v < 4) vs.
  Proof.
    induction s as [|c t IH]; intros vs H; cbn [nuc_values] in H.
    - injection H as <-. constructor.
    - destruct (nuc_index c) as [v|] eqn:E; [|discriminate].
      destruct (nuc_values t) as [ws| |]; cbn [bind] in H; try discriminate. injection H as <-.
      constructor; [apply (nuc_index_some c v E)|apply IH; reflexivity].
  Qed.

  Lemma to_str_4 : to_str (VInt 4) = Ret (dstr [4]).
  Proof. reflexivity. Qed.

  Definition d2n_str_body : stmt :=
    (SSeq (SAssign (TVar "decimal_number"%string) (ECall "calculus_multiplication"%string [(EVar "decimal_number"%string); (EB1 BStr (EB1 BLen (EVar "nucleotides"%string)))]))
    (SAssign (TVar "decimal_number"%string) (ECall "calculus_addition"%string [(EVar "decimal_number"%string); (EB1 BStr (EVar "nucleotide_value"%string))]))).

  Lemma d2n_str_loop fuel : forall vs d en,
    Forall (fun v => 0 <= v < 4) vs -> canonical d ->
    lookup "decimal_number" en = Ret (dstr d) ->
    lookup "nucleotides" en = Ret (VStr [65; 67; 71; 84]) ->
    exists en', for_loop ce fuel (TVar "nucleotide_value") d2n_str_body (map VInt vs) en = ONormal en'
      /\ lookup "decimal_number" en' = Ret (dstr (fold_left (fun d v => calculus_addition (calculus_multiplication d 4) v) vs d)).
  Proof.
    induction vs as [|a vs IH]; intros d en HB HC HD HN.
    - exists en. split; [reflexivity|exact HD].
    - inversion HB as [|? ? Ha HB']; subst.
      cbn [map for_loop]. unfold d2n_str_body at 1. step. lk. rewrite HD, HN. step.
      change (Z.of_nat (length [65; 67; 71; 84])) with 4. rewrite to_str_4. step.
      rewrite ce_mul by (try apply canonical_digits_ok; auto; lia).
      destruct (mul_correct d 4 HC ltac:(unfold digit; lia)) as [HM _].
      step. lk. step. rewrite (to_str_digit a) by lia. step.
      change (VStr [dchr a]) with (dstr [a]). rewrite ce_add by (try apply canonical_digits_ok; auto; lia).
      destruct (add_correct _ a HM ltac:(unfold digit; lia)) as [HS _].
      step. cbn [fold_left]. apply IH; auto; lk; auto.
  Qed.

  Theorem dna_to_number_str_gen : forall fuel s,
    run_fun ce fuel dna_to_number_def [VStr s; VBool true] =
    match dna_to_number_str s with Ok d => Ret (dstr d) | Raise e => Exn e | OutOfFuel => Fuel end.
  Proof.
    intros fuel s. unfold run_fun, dna_to_number_str. cbn [params body bind_params dna_to_number_def].
    ex. evc. ex. evc. rewrite map_index_nuc.
    destruct (nuc_values s) as [vs| |] eqn:EN; cbn [bind]; evc; try reflexivity.
    ex. evc. ex. evc. ex. evc.
    destruct (d2n_str_loop fuel vs [0]
       [("dna_sequence", VStr s); ("is_string", VBool true); ("nucleotides", VStr [65; 67; 71; 84]);
        ("nucleotide_values", VList (map VInt vs)); ("decimal_number", VStr [48])]
       (nuc_values_range s vs EN) canonical_0 eq_refl eq_refl) as (en' & EL & HD).
    unfold d2n_str_body in EL. rewrite EL. evc. ex. evc. rewrite HD. reflexivity.
  Qed.

  Definition d2n_int_body : stmt :=
    (SAssign (TVar "decimal_number"%string) (EBin Add (EBin Mul (EVar "decimal_number"%string) (EInt (4))) (EVar "nucleotide_value"%string))).

  Lemma d2n_int_loop fuel : forall vs d en,
    lookup "decimal_number" en = Ret (VInt d) ->
    exists en', for_loop ce fuel (TVar "nucleotide_value") d2n_int_body (map VInt vs) en = ONormal en'
      /\ lookup "decimal_number" en' = Ret (VInt (fold_left (fun d v => d * 4 + v) vs d)).
  Proof.
    induction vs as [|a vs IH]; intros d en HD.
    - exists en. split; [reflexivity|exact HD].
    - cbn [map for_loop]. unfold d2n_int_body at 1. step. lk. rewrite HD. step.
      cbn [fold_left]. apply IH; auto; lk; auto.
  Qed.

  Theorem dna_to_number_int_gen : forall fuel s,
    run_fun ce fuel dna_to_number_def [VStr s; VBool false] =
    match dna_to_number_int s with Ok n => Ret (VInt n) | Raise e => Exn e | OutOfFuel => Fuel end.
  Proof.
    intros fuel s. unfold run_fun, dna_to_number_int. cbn [params body bind_params dna_to_number_def].
    ex. evc. ex. evc. rewrite map_index_nuc.
    destruct (nuc_values s) as [vs| |] eqn:EN; cbn [bind]; evc; try reflexivity.
    ex. evc. ex. evc. ex. evc.
    destruct (d2n_int_loop fuel vs 0
       [("dna_sequence", VStr s); ("is_string", VBool false); ("nucleotides", VStr [65; 67; 71; 84]);
        ("nucleotide_values", VList (map VInt vs)); ("decimal_number", VInt 0)] eq_refl) as (en' & EL & HD).
    unfold d2n_int_body in EL. rewrite EL. evc. ex. evc. rewrite HD. reflexivity.
  Qed.

  (* ---- number_to_dna --------------------------------------------------------------------------------------------- *)
  Lemma index_nuc r : 0 <= r < 4 -> index_val (VStr [65; 67; 71; 84]) (VInt r) = Ret (VStr [nuc_char r]).
  Proof.
    intro H. assert (C : r = 0 \/ r = 1 \/ r = 2 \/ r = 3) by lia.
    destruct C as [->|[->|[->| ->]]]; reflexivity.
  Qed.

  Lemma join_chars : forall l, join_strs [] (chars l) = Ret l.
  Proof.
    induction l as [|c t IH]; [reflexivity|].
    unfold chars in *. cbn [map join_strs]. destruct t as [|c' t']; [reflexivity|].
    cbn [map] in *. rewrite IH. reflexivity.
  Qed.

  Definition n2d_tail : stmt :=
    (SSeq (SAssign (TVar "one_array"%string) (EB2 BJoin (EStr []) (EVar "one_array"%string)))
    (SReturn (EBin Add (EBin Mul (EIndex (EVar "nucleotides"%string) (EInt (0))) (EBin Sub (EVar "dna_length"%string) (EB1 BLen (EVar "one_array"%string)))) (EVar "one_array"%string)))).

  Lemma n2d_tail_ok fuel en one len :
    lookup "one_array" en = Ret (VList (chars (map nuc_char one))) -> lookup "dna_length" en = Ret (VInt len) ->
    lookup "nucleotides" en = Ret (VStr [65; 67; 71; 84]) ->
    exec ce fuel n2d_tail en = OReturn (VStr (fit_dna one len)).
  Proof.
    intros HO HL HN. unfold n2d_tail, fit_dna. step. rewrite HO. step. rewrite join_chars. step. lk.
    rewrite HN, HL. step. change (index_val (VStr [65; 67; 71; 84]) (VInt 0)) with (Ret (VStr [65])). step.
    rewrite map_length, repeat_list_single. reflexivity.
  Qed.

  Definition n2d_str_cond : expr := (ECmp CNe (EVar "decimal_number"%string) (EStr [48])).
  Definition n2d_str_body : stmt :=
    (SSeq (SAssign (TTuple ["decimal_number"%string; "remainder"%string]) (ECall "calculus_division"%string [(EVar "decimal_number"%string); (EB1 BStr (EB1 BLen (EVar "nucleotides"%string)))]))
    (SInsert "one_array"%string (EInt (0)) (EIndex (EVar "nucleotides"%string) (EB1 BInt (EVar "remainder"%string))))).

  Lemma n2d_str_loop fuel vl : forall f d acc r n en, digits_ok d -> d <> [] ->
    to_radix_str f 4 d acc = Ok r -> (f < n)%nat ->
    lookup "decimal_number" en = Ret (dstr d) -> lookup "one_array" en = Ret (VList (chars (map nuc_char acc))) ->
    lookup "dna_length" en = Ret vl -> lookup "nucleotides" en = Ret (VStr [65; 67; 71; 84]) ->
    exists en', while_loop ce fuel n2d_str_cond n2d_str_body n en = ONormal en' /\
      lookup "one_array" en' = Ret (VList (chars (map nuc_char r))) /\ lookup "dna_length" en' = Ret vl /\
      lookup "nucleotides" en' = Ret (VStr [65; 67; 71; 84]).
  Proof.
    induction f as [|f IH]; intros d acc r n en Hd Hne HR Hn HD HO HL HN; cbn [to_radix_str] in HR;
      (destruct n as [|n]; [lia|]); cbn [while_loop]; unfold n2d_str_cond at 1; ev; rewrite HD; ev;
      rewrite cmp_ne_zero; destruct (is_zero_str d) eqn:EZ; ev; cbn [negb]; try discriminate.
    - injection HR as <-. eauto.
    - injection HR as <-. eauto.
    - destruct (div_ok d 4 Hd Hne ltac:(lia)) as (Hq & Hqn & Hr).
      destruct (calculus_division d 4) as [q rm] eqn:ED. cbn [fst snd] in *.
      unfold n2d_str_body at 1. step. rewrite HD, HN. step.
      change (Z.of_nat (length [65; 67; 71; 84])) with 4. rewrite to_str_4. step.
      rewrite ce_div by (auto; lia). rewrite ED. cbn [fst snd]. step. lk. rewrite HO, HN. step.
      change (dstr [rm]) with (VStr [dchr rm]).
      rewrite (to_int_digit rm) by lia. step. rewrite (index_nuc rm Hr). step. rewrite insert_front. step.
      apply (IH q (rm :: acc) r n); auto; try lia; lk; auto.
  Qed.

  Theorem number_to_dna_str_gen : forall fuel d len r, digits_ok d -> d <> [] ->
    number_to_dna_str d len = Ok r -> (fuel_str d < fuel)%nat ->
    run_fun ce fuel number_to_dna_def [dstr d; VInt len] = Ret (VStr r).
  Proof.
    intros fuel d len r Hd Hne HR Hf. unfold number_to_dna_str in HR.
    destruct (to_radix_str (fuel_str d) 4 d []) as [one| |] eqn:ER; cbn [bind] in HR; try discriminate.
    injection HR as <-.
    unfold run_fun. cbn [params body bind_params number_to_dna_def].
    ex. evc. ex. evc. ex. evc. rewrite type_is_dstr. evc. ex.
    destruct (n2d_str_loop fuel (VInt len) _ _ _ _ fuel
       [("decimal_number", dstr d); ("dna_length", VInt len); ("nucleotides", VStr [65; 67; 71; 84]); ("one_array", VList [])]
       Hd Hne ER Hf eq_refl eq_refl eq_refl eq_refl)
      as (en' & EL & HO & HL & HN).
    unfold n2d_str_cond, n2d_str_body in EL. rewrite EL. cbn [seq].
    pose proof (n2d_tail_ok fuel en' one len HO HL HN) as ET. unfold n2d_tail in ET. rewrite ET. reflexivity.
  Qed.

  Definition n2d_int_cond : expr := (ECmp CGt (EVar "decimal_number"%string) (EInt (0))).
  Definition n2d_int_body : stmt :=
    (SSeq (SAssign (TTuple ["decimal_number"%string; "remainder"%string]) (EB2 BDivmod (EVar "decimal_number"%string) (EB1 BLen (EVar "nucleotides"%string))))
    (SInsert "one_array"%string (EInt (0)) (EIndex (EVar "nucleotides"%string) (EVar "remainder"%string)))).

  Lemma n2d_int_loop fuel vl : forall f x acc r n en,
    to_radix_int f 4 x acc = Ok r -> (f < n)%nat ->
    lookup "decimal_number" en = Ret (VInt x) -> lookup "one_array" en = Ret (VList (chars (map nuc_char acc))) ->
    lookup "dna_length" en = Ret vl -> lookup "nucleotides" en = Ret (VStr [65; 67; 71; 84]) ->
    exists en', while_loop ce fuel n2d_int_cond n2d_int_body n en = ONormal en' /\
      lookup "one_array" en' = Ret (VList (chars (map nuc_char r))) /\ lookup "dna_length" en' = Ret vl /\
      lookup "nucleotides" en' = Ret (VStr [65; 67; 71; 84]).
  Proof.
    induction f as [|f IH]; intros x acc r n en HR Hn HD HO HL HN; cbn [to_radix_int] in HR;
      (destruct n as [|n]; [lia|]); cbn [while_loop]; unfold n2d_int_cond at 1; ev; rewrite HD; ev;
      (replace (0 <? x) with (negb (x <=? 0)) by lia); destruct (x <=? 0) eqn:EZ; ev; cbn [negb]; try discriminate.
    - injection HR as <-. eauto.
    - injection HR as <-. eauto.
    - unfold n2d_int_body at 1. step. rewrite HD, HN. step.
      change (Z.of_nat (length [65; 67; 71; 84])) with 4. change (4 =? 0) with false. step. lk. rewrite HO, HN. step.
      rewrite (index_nuc (x mod 4)) by lia. step. rewrite insert_front. step.
      apply (IH (x / 4) (x mod 4 :: acc) r n); auto; try lia; lk; auto.
  Qed.

  Theorem number_to_dna_int_gen : forall fuel n len r,
    number_to_dna_int n len = Ok r -> (fuel_int n < fuel)%nat ->
    run_fun ce fuel number_to_dna_def [VInt n; VInt len] = Ret (VStr r).
  Proof.
    intros fuel n len r HR Hf. unfold number_to_dna_int in HR.
    destruct (to_radix_int (fuel_int n) 4 n []) as [one| |] eqn:ER; cbn [bind] in HR; try discriminate.
    injection HR as <-.
    unfold run_fun. cbn [params body bind_params number_to_dna_def].
    ex. evc. ex. evc. ex. evc. ex. evc. ex.
    destruct (n2d_int_loop fuel (VInt len) _ _ _ _ fuel
       [("decimal_number", VInt n); ("dna_length", VInt len); ("nucleotides", VStr [65; 67; 71; 84]); ("one_array", VList [])]
       ER Hf eq_refl eq_refl eq_refl eq_refl)
      as (en' & EL & HO & HL & HN).
    unfold n2d_int_cond, n2d_int_body in EL. rewrite EL. cbn [seq].
    pose proof (n2d_tail_ok fuel en' one len HO HL HN) as ET. unfold n2d_tail in ET. rewrite ET. reflexivity.
  Qed.
End Conv.

Print Assumptions bit_to_number_str_gen.
Print Assumptions bit_to_number_str_gen_arr.
Print Assumptions bit_to_number_int_gen.
Print Assumptions number_to_bit_str_gen.
Print Assumptions number_to_bit_int_gen.
Print Assumptions number_to_bit_other_type.
Print Assumptions dna_to_number_str_gen.
Print Assumptions dna_to_number_int_gen.
Print Assumptions number_to_dna_str_gen.
Print Assumptions number_to_dna_int_gen.
