(* ScoreLeavesGenProofs.v (LeavesGenProofs.v over MiniPyS.v) -- the regenerated obtain_leaf_vertices (dsw/graphized.py) computes Graph.leaves_acc / leaves_map.
   Compiled on every run of the checks against the freshly generated ScoreGen.v (harness/regen.py, unit "graph"). *)
From Coq Require Import Lia ZifyBool.
From DSW Require Import MiniPyS Graph Kmer Convert Spec MiniPySLemmas KmerProofs GraphProofs.
From DSWGen Require Import ScoreGen ScoreRepr.
Open Scope Z_scope.
Open Scope string_scope.
Ltac Zify.zify_post_hook ::= Z.to_euclidean_division_equations.
Local Open Scope Z_scope.
Local Open Scope list_scope.

(* Notes: range(depth) for a negative depth is empty (the hypothesis 0 <= d of the statements is not used by the proofs).
   accessor path: accessor[former_index] is py_get (negative indices wrap, IndexError outside: that is what leaves_acc's py_get
   models); `vertex[vertex >= 0].tolist()` = live_entries row; `level += available_latters` is list concatenation.
   latter-map path: `former_index in latter_map` / `latter_map[former_index]` = Graph.lookup m v (dict_get with integer keys;
   the first binding of a key wins in both); level.append in a loop = flat_map.  `array(branch)` of a list of ints is varr.
   The loops over range(depth) are by induction on the depth with the branch generalised.
   [lookup] alone is Graph.lookup here; the environment lookup is written MiniPyS.lookup. *)

(* ---- tactics ------------------------------------------------------------------------------------------------------ *)
Ltac lk := repeat (rewrite lookup_update_same || (rewrite lookup_update_other by discriminate)).
Ltac ev := cbn [eval lift seq rbind assign items bind_tuple truthy negb].

(* ---- facts about the primitive operations -------------------------------------------------------------------------- *)
Lemma py_get_map {A B} (f : A -> B) l i :
  py_get (map f l) i = match py_get l i with Ok x => Ok (f x) | Raise e => Raise e | OutOfFuel => OutOfFuel end.
Proof.
  unfold py_get. rewrite map_length.
  set (j := if i <? 0 then i + Z.of_nat (length l) else i).
  destruct ((j <? 0) || (Z.of_nat (length l) <=? j)); [reflexivity|].
  generalize (Z.to_nat j) as n. induction l as [|x t IH]; intro n; cbn [map nthZ]; [reflexivity|].
  destruct n as [|n]; [reflexivity|apply IH].
Qed.

Lemma py_get_raise {A} (l : list A) i e : py_get l i = Raise e -> e = IndexError.
Proof.
  unfold py_get. destruct (_ || _); [congruence|]. destruct (nthZ _ _); congruence.
Qed.

Lemma py_get_fuel {A} (l : list A) i : py_get l i <> OutOfFuel.
Proof.
  unfold py_get. destruct (_ || _); [congruence|]. destruct (nthZ _ _); congruence.
Qed.

Lemma index_varr2 acc v :
  index_val (varr2 acc) (VInt v) = match py_get acc v with Ok r => Ret (varr r) | _ => Exn IndexError end.
Proof.
  unfold varr2, index_val. rewrite py_get_map. destruct (py_get acc v); reflexivity.
Qed.

Lemma cmp_ge0_varr row : cmp_vals CGe (varr row) (VInt 0) = Ret (VArr (map (fun x => VBool (0 <=? x)) row)).
Proof.
  unfold varr, cmp_vals.
  assert (E : map_res (fun x => match x with
                                | VInt _ => cmp_scalar CGe x (VInt 0)
                                | VBool t => cmp_scalar CGe (VInt (if t then 1 else 0)) (VInt 0)
                                | _ => Stuck end) (map VInt row) = Ret (map (fun x => VBool (0 <=? x)) row)).
  { induction row as [|x t IH]; cbn [map map_res]; [reflexivity|]. rewrite IH. reflexivity. }
  rewrite E. reflexivity.
Qed.

(* MiniPyS compares through cmp_top (2-D arrays row by row): on an array of integers it is cmp_vals *)
Lemma cmp_top_varr o row b : cmp_top o (varr row) b = cmp_vals o (varr row) b.
Proof. destruct row; reflexivity. Qed.

Lemma cmp_top_int o v b : cmp_top o (VInt v) b = cmp_vals o (VInt v) b.
Proof. reflexivity. Qed.

Lemma mask_filter (f : Z -> bool) row :
  map snd (filter fst (combine (map f row) (map VInt row))) = map VInt (filter f row).
Proof.
  induction row as [|x t IH]; cbn [map combine filter fst]; [reflexivity|].
  destruct (f x); cbn [map snd]; rewrite IH; reflexivity.
Qed.

Lemma index_mask_varr row :
  index_val (varr row) (VArr (map (fun x => VBool (0 <=? x)) row)) = Ret (varr (live_entries row)).
Proof.
  (* MiniPyS: an empty index array selects nothing; otherwise the index array starts with a VBool: the mask case *)
  destruct row as [|x0 t0]; [reflexivity|].
  set (row := x0 :: t0).
  assert (EI : index_val (varr row) (VArr (map (fun x => VBool (0 <=? x)) row))
               = (if Nat.eqb (length (map (fun x => VBool (0 <=? x)) row)) 0 then Ret (VArr []) else
                  if negb (Nat.eqb (length (map (fun x => VBool (0 <=? x)) row)) (length (map VInt row))) then Exn IndexError else
                  bs <~ map_res (fun x => match x with VBool b => Ret b | _ => Stuck end) (map (fun x => VBool (0 <=? x)) row) ;;
                  Ret (VArr (map snd (filter fst (combine bs (map VInt row))))))) by reflexivity.
  rewrite EI. replace (Nat.eqb (length (map (fun x => VBool (0 <=? x)) row)) 0) with false by reflexivity.
  clear EI. clearbody row. unfold varr. rewrite !map_length, Nat.eqb_refl. cbn [negb].
  assert (E : map_res (fun x => match x with VBool b => Ret b | _ => Stuck end) (map (fun x => VBool (0 <=? x)) row)
              = Ret (map (fun x => 0 <=? x) row)).
  { induction row as [|x t IH]; cbn [map map_res]; [reflexivity|]. rewrite IH. reflexivity. }
  rewrite E. cbn [rbind]. rewrite mask_filter. reflexivity.
Qed.

Lemma forallb_int_map l : forallb (fun x => match x with VInt _ => true | _ => false end) (map VInt l) = true.
Proof. induction l as [|x t IH]; cbn [map forallb]; [reflexivity|exact IH]. Qed.

Lemma tolist_varr l : builtin1_val BTolist (varr l) = Ret (vints l).
Proof. unfold builtin1_val, varr. rewrite forallb_int_map. reflexivity. Qed.

Lemma nparray_vints l : builtin1_val BNpArray (vints l) = Ret (varr l).
Proof. unfold builtin1_val, vints. rewrite forallb_int_map. reflexivity. Qed.

Lemma add_vints a b : binop_vals Add (vints a) (vints b) = Ret (vints (a ++ b)).
Proof. unfold vints. cbn [binop_vals binop_scalar]. rewrite map_app. reflexivity. Qed.

Lemma range_depth d : builtin1_val BRange (VInt d) = Ret (VList (zrange_up (Z.to_nat d) 0 1)).
Proof.
  unfold builtin1_val, range3. change (1 =? 0) with false. change (0 <? 1) with true. cbn [rbind].
  replace ((d - 0 + 1 - 1) / 1) with d by lia. reflexivity.
Qed.

Lemma dict_get_lmap m v :
  dict_get (VInt v) (map (fun kv : Z * list Z => (VInt (fst kv), VList (map VInt (snd kv)))) m)
  = match Graph.lookup m v with Some ls => Some (vints ls) | None => None end.
Proof.
  induction m as [|[k ls] t IH]; cbn [map dict_get Graph.lookup fst snd val_eqb]; [reflexivity|].
  rewrite (Z.eqb_sym v k). destruct (k =? v); [reflexivity|exact IH].
Qed.

Lemma in_lmap m v :
  cmp_vals CIn (VInt v) (v_lmap m) = Ret (VBool (match Graph.lookup m v with Some _ => true | None => false end)).
Proof.
  unfold v_lmap, cmp_vals, cmp_scalar. cbn [key_ok]. rewrite dict_get_lmap. destruct (Graph.lookup m v); reflexivity.
Qed.

Lemma index_lmap m v ls : Graph.lookup m v = Some ls -> index_val (v_lmap m) (VInt v) = Ret (vints ls).
Proof.
  intro E. unfold v_lmap, index_val. cbn [key_ok]. rewrite dict_get_lmap, E. reflexivity.
Qed.

(* ---- facts about the model ------------------------------------------------------------------------------------------ *)
Lemma leaf_level_acc_fuel acc branch : leaf_level_acc acc branch <> OutOfFuel.
Proof.
  induction branch as [|v t IH]; cbn [leaf_level_acc]; [congruence|].
  destruct (py_get acc v) eqn:E; cbn [bind]; [|congruence|destruct (py_get_fuel _ _ E)].
  destruct (leaf_level_acc acc t); cbn [bind]; congruence.
Qed.

Lemma leaves_acc_fuel n acc : forall branch, leaves_acc n acc branch <> OutOfFuel.
Proof.
  induction n as [|n IH]; intro branch; cbn [leaves_acc]; [congruence|].
  destruct (leaf_level_acc acc branch) eqn:E; cbn [bind]; [apply IH|congruence|destruct (leaf_level_acc_fuel _ _ E)].
Qed.

Lemma isnone_varr2 acc : builtin1_val BIsNone (varr2 acc) = Ret (VBool false).
Proof. reflexivity. Qed.
Lemma isnone_lmap m : builtin1_val BIsNone (v_lmap m) = Ret (VBool false).
Proof. reflexivity. Qed.

Section Leaves.
  Variable ce : string -> list val -> res val.

  (* [exec] one statement at a time without unfolding the loops *)
  Lemma exec_assign fuel t e en : exec ce fuel (SAssign t e) en = lift (eval ce en e) (fun v => assign ce t v en).
  Proof. reflexivity. Qed.
  Lemma exec_return fuel e en : exec ce fuel (SReturn e) en = lift (eval ce en e) OReturn.
  Proof. reflexivity. Qed.
  Lemma exec_raise fuel e en : exec ce fuel (SRaise e) en = OExn e.
  Proof. reflexivity. Qed.
  Lemma exec_skip fuel en : exec ce fuel SSkip en = ONormal en.
  Proof. reflexivity. Qed.
  Lemma exec_aug_var fuel x o e en :
    exec ce fuel (SAug (TVar x) o e) en =
    lift (MiniPyS.lookup x en) (fun a => lift (eval ce en e) (fun b => lift (binop_vals o a b) (fun v =>
      ONormal (update x v en)))).
  Proof. reflexivity. Qed.
  Lemma exec_append fuel x e en :
    exec ce fuel (SAppend x e) en =
    lift (MiniPyS.lookup x en) (fun a => lift (eval ce en e) (fun v =>
      match a with VList l => ONormal (update x (VList (l ++ [v])) en) | _ => OStuck end)).
  Proof. reflexivity. Qed.
  Ltac evc := cbn [eval lift seq rbind assign items truthy negb MiniPyS.lookup update String.eqb Ascii.eqb Bool.eqb].
  Ltac ex := repeat first [rewrite exec_seq | rewrite exec_assign | rewrite exec_if | rewrite exec_for
                          | rewrite exec_return | rewrite exec_raise | rewrite exec_skip | rewrite exec_aug_var
                          | rewrite exec_append].

  (* ---- the accessor path -------------------------------------------------------------------------------------------- *)
  Definition acc_inner : stmt :=
    (SSeq (SAssign (TVar "vertex"%string) (EIndex (EVar "accessor"%string) (EVar "former_index"%string)))
    (SSeq (SAssign (TVar "available_latters"%string) (EB1 BTolist (EIndex (EVar "vertex"%string) (ECmp CGe (EVar "vertex"%string) (EInt (0))))))
    (SAug (TVar "level"%string) Add (EVar "available_latters"%string)))).

  Definition acc_outer : stmt :=
    (SSeq (SAssign (TVar "level"%string) (EList []))
    (SSeq (SFor (TVar "former_index"%string) (EVar "branch"%string) acc_inner)
    (SAssign (TVar "branch"%string) (EVar "level"%string)))).

  (* one copy of the program in the goal: the outcome of a loop against the result of the model *)
  Definition loop_res (o : outcome) (r : result (list Z)) (P : env -> list Z -> Prop) : Prop :=
    match r with
    | Ok l => exists en', o = ONormal en' /\ P en' l
    | Raise e => o = OExn e
    | OutOfFuel => True
    end.

  Lemma acc_inner_loop fuel acc : forall branch lv en,
    MiniPyS.lookup "accessor" en = Ret (varr2 acc) -> MiniPyS.lookup "level" en = Ret (vints lv) ->
    loop_res (for_loop ce fuel (TVar "former_index") acc_inner (map VInt branch) en) (leaf_level_acc acc branch)
      (fun en' r => MiniPyS.lookup "accessor" en' = Ret (varr2 acc) /\ MiniPyS.lookup "level" en' = Ret (vints (lv ++ r))).
  Proof.
    induction branch as [|v t IH]; intros lv en HA HL; cbn [leaf_level_acc].
    - exists en. rewrite app_nil_r. auto.
    - cbn [map for_loop]. unfold acc_inner at 1. ev. ex. ev. lk. rewrite HA. ev. rewrite index_varr2.
      destruct (py_get acc v) as [row|e|] eqn:EG; cbn [bind].
      + ev. ex. ev. lk. ev. rewrite cmp_top_varr, cmp_ge0_varr. ev. rewrite index_mask_varr. ev. rewrite tolist_varr. ev.
        ex. lk. rewrite HL. ev. lk. ev. rewrite add_vints. ev.
        match goal with |- context [for_loop ce fuel _ _ _ ?E] => set (en1 := E) end.
        assert (HA1 : MiniPyS.lookup "accessor" en1 = Ret (varr2 acc)) by (unfold en1; lk; exact HA).
        assert (HL1 : MiniPyS.lookup "level" en1 = Ret (vints (lv ++ live_entries row))) by (unfold en1; lk; reflexivity).
        specialize (IH (lv ++ live_entries row) en1 HA1 HL1). unfold loop_res in *.
        destruct (leaf_level_acc acc t) as [rest|e|]; cbn [bind]; [|exact IH|exact I].
        destruct IH as (en' & EL & HA' & HL'). exists en'. rewrite app_assoc. auto.
      + ev. unfold loop_res. rewrite (py_get_raise _ _ _ EG). reflexivity.
      + exact I.
  Qed.

  Lemma acc_outer_loop fuel acc : forall n a branch en,
    MiniPyS.lookup "accessor" en = Ret (varr2 acc) -> MiniPyS.lookup "branch" en = Ret (vints branch) ->
    loop_res (for_loop ce fuel (TVar "step") acc_outer (zrange_up n a 1) en) (leaves_acc n acc branch)
      (fun en' r => MiniPyS.lookup "branch" en' = Ret (vints r)).
  Proof.
    induction n as [|n IH]; intros a branch en HA HB; cbn [leaves_acc].
    - exists en. auto.
    - cbn [zrange_up for_loop]. unfold acc_outer at 1. ev. ex. ev. ex. ev. lk. rewrite HB. unfold vints at 1. ev.
      match goal with |- context [for_loop ce fuel (TVar "former_index") _ _ ?E] => set (en1 := E) end.
      assert (HA1 : MiniPyS.lookup "accessor" en1 = Ret (varr2 acc)) by (unfold en1; lk; exact HA).
      assert (HL1 : MiniPyS.lookup "level" en1 = Ret (vints [])) by (unfold en1; lk; reflexivity).
      pose proof (acc_inner_loop fuel acc branch [] en1 HA1 HL1) as HI. unfold loop_res in HI.
      destruct (leaf_level_acc acc branch) as [l|e|]; cbn [bind]; [| |exact I].
      + destruct HI as (en2 & EL & HA2 & HL2). rewrite EL. ev. ex. ev. rewrite HL2. ev. cbn [app].
        apply IH; lk; auto.
      + rewrite HI. ev. reflexivity.
  Qed.

  Theorem leaves_acc_gen' : forall fuel v d acc,
    run_fun ce fuel obtain_leaf_vertices_def [VInt v; VInt d; varr2 acc; VNone]
    = res_of_arr (leaves_acc (Z.to_nat d) acc [v]).
  Proof.
    intros fuel v d acc. unfold run_fun. cbn [params body bind_params obtain_leaf_vertices_def].
    ex. evc. rewrite isnone_varr2. evc. change (builtin1_val BIsNone VNone) with (Ret (VBool true)). evc.
    ex. evc. ex. evc. rewrite isnone_varr2. evc. rewrite range_depth. ev.
    pose proof (acc_outer_loop fuel acc (Z.to_nat d) 0 [v]
      [("vertex_index", VInt v); ("depth", VInt d); ("accessor", varr2 acc); ("latter_map", VNone); ("branch", VList [VInt v])]
      eq_refl eq_refl) as HO.
    unfold loop_res, acc_outer, acc_inner in HO.
    destruct (leaves_acc (Z.to_nat d) acc [v]) as [r|e|] eqn:E; cbn [res_of_arr].
    - destruct HO as (en' & EL & HB). rewrite EL. ev. ex. ev. rewrite HB. ev. rewrite nparray_vints. reflexivity.
    - rewrite HO. reflexivity.
    - exfalso. exact (leaves_acc_fuel _ _ _ E).
  Qed.

  (* ---- the latter-map path ------------------------------------------------------------------------------------------ *)
  Definition map_append : stmt := (SAppend "level"%string (EVar "latter_index"%string)).

  Definition map_inner : stmt :=
    (SIf (ECmp CIn (EVar "former_index"%string) (EVar "latter_map"%string))
    (SFor (TVar "latter_index"%string) (EIndex (EVar "latter_map"%string) (EVar "former_index"%string)) map_append)
    SSkip).

  Definition map_outer : stmt :=
    (SSeq (SAssign (TVar "level"%string) (EList []))
    (SSeq (SFor (TVar "former_index"%string) (EVar "branch"%string) map_inner)
    (SAssign (TVar "branch"%string) (EVar "level"%string)))).

  Lemma map_append_loop fuel lm : forall ls lv en,
    MiniPyS.lookup "latter_map" en = Ret lm -> MiniPyS.lookup "level" en = Ret (vints lv) ->
    exists en', for_loop ce fuel (TVar "latter_index") map_append (map VInt ls) en = ONormal en'
      /\ MiniPyS.lookup "latter_map" en' = Ret lm /\ MiniPyS.lookup "level" en' = Ret (vints (lv ++ ls)).
  Proof.
    induction ls as [|x t IH]; intros lv en HM HL.
    - exists en. rewrite app_nil_r. auto.
    - cbn [map for_loop]. unfold map_append at 1. ev. ex. lk. rewrite HL. ev. lk. unfold vints at 1. ev.
      match goal with |- context [for_loop ce fuel _ _ _ ?E] => set (en1 := E) end.
      assert (HM1 : MiniPyS.lookup "latter_map" en1 = Ret lm) by (unfold en1; lk; exact HM).
      assert (HL1 : MiniPyS.lookup "level" en1 = Ret (vints (lv ++ [x]))).
      { unfold en1; lk. unfold vints. rewrite map_app. reflexivity. }
      destruct (IH (lv ++ [x]) en1 HM1 HL1) as (en' & EL & HM' & HL'). exists en'.
      rewrite <- app_assoc in HL'. auto.
  Qed.

  Lemma map_inner_loop fuel m : forall branch lv en,
    MiniPyS.lookup "latter_map" en = Ret (v_lmap m) -> MiniPyS.lookup "level" en = Ret (vints lv) ->
    exists en', for_loop ce fuel (TVar "former_index") map_inner (map VInt branch) en = ONormal en'
      /\ MiniPyS.lookup "latter_map" en' = Ret (v_lmap m)
      /\ MiniPyS.lookup "level" en' = Ret (vints (lv ++ leaf_level_map m branch)).
  Proof.
    induction branch as [|v t IH]; intros lv en HM HL.
    - exists en. cbn [leaf_level_map flat_map]. rewrite app_nil_r. auto.
    - cbn [map for_loop]. unfold map_inner at 1. ev. ex. ev. lk. rewrite HM. ev. rewrite cmp_top_int, in_lmap. ev.
      unfold leaf_level_map. cbn [flat_map]. fold (leaf_level_map m t).
      destruct (Graph.lookup m v) as [ls|] eqn:EK.
      + ex. ev. rewrite (index_lmap m v ls EK). unfold vints at 1. ev.
        match goal with |- context [for_loop ce fuel (TVar "latter_index") _ _ ?E] => set (en1 := E) end.
        assert (HM1 : MiniPyS.lookup "latter_map" en1 = Ret (v_lmap m)) by (unfold en1; lk; exact HM).
        assert (HL1 : MiniPyS.lookup "level" en1 = Ret (vints lv)) by (unfold en1; lk; exact HL).
        destruct (map_append_loop fuel (v_lmap m) ls lv en1 HM1 HL1) as (en2 & EL & HM2 & HL2).
        rewrite EL. ev.
        destruct (IH (lv ++ ls) en2 HM2 HL2) as (en' & EL' & HM' & HL'). exists en'.
        rewrite <- app_assoc in HL'. auto.
      + ex. ev. cbn [app].
        match goal with |- context [for_loop ce fuel _ _ _ ?E] => set (en1 := E) end.
        assert (HM1 : MiniPyS.lookup "latter_map" en1 = Ret (v_lmap m)) by (unfold en1; lk; exact HM).
        assert (HL1 : MiniPyS.lookup "level" en1 = Ret (vints lv)) by (unfold en1; lk; exact HL).
        exact (IH lv en1 HM1 HL1).
  Qed.

  Lemma map_outer_loop fuel m : forall n a branch en,
    MiniPyS.lookup "latter_map" en = Ret (v_lmap m) -> MiniPyS.lookup "branch" en = Ret (vints branch) ->
    exists en', for_loop ce fuel (TVar "step") map_outer (zrange_up n a 1) en = ONormal en'
      /\ MiniPyS.lookup "branch" en' = Ret (vints (leaves_map n m branch)).
  Proof.
    induction n as [|n IH]; intros a branch en HM HB; cbn [leaves_map].
    - exists en. auto.
    - cbn [zrange_up for_loop]. unfold map_outer at 1. ev. ex. ev. ex. ev. lk. rewrite HB. unfold vints at 1. ev.
      match goal with |- context [for_loop ce fuel (TVar "former_index") _ _ ?E] => set (en1 := E) end.
      assert (HM1 : MiniPyS.lookup "latter_map" en1 = Ret (v_lmap m)) by (unfold en1; lk; exact HM).
      assert (HL1 : MiniPyS.lookup "level" en1 = Ret (vints [])) by (unfold en1; lk; reflexivity).
      destruct (map_inner_loop fuel m branch [] en1 HM1 HL1) as (en2 & EL & HM2 & HL2).
      rewrite EL. ev. ex. ev. rewrite HL2. ev. cbn [app].
      apply IH; lk; auto.
  Qed.

  Theorem leaves_map_gen' : forall fuel v d m,
    run_fun ce fuel obtain_leaf_vertices_def [VInt v; VInt d; VNone; v_lmap m] = Ret (varr (leaves_map (Z.to_nat d) m [v])).
  Proof.
    intros fuel v d m. unfold run_fun. cbn [params body bind_params obtain_leaf_vertices_def].
    ex. evc. change (builtin1_val BIsNone VNone) with (Ret (VBool true)). evc.
    ex. evc. ex. evc. change (builtin1_val BIsNone VNone) with (Ret (VBool true)). evc.
    ex. evc. rewrite isnone_lmap. evc. rewrite range_depth. ev.
    destruct (map_outer_loop fuel m (Z.to_nat d) 0 [v]
      [("vertex_index", VInt v); ("depth", VInt d); ("accessor", VNone); ("latter_map", v_lmap m); ("branch", VList [VInt v])]
      eq_refl eq_refl) as (en' & EL & HB).
    unfold map_outer, map_inner, map_append in EL. rewrite EL. ev. ex. ev. rewrite HB. ev. rewrite nparray_vints. reflexivity.
  Qed.

  Theorem leaves_both_gen' : forall fuel v d acc m,
    run_fun ce fuel obtain_leaf_vertices_def [VInt v; VInt d; varr2 acc; v_lmap m] = Exn ValueError.
  Proof.
    intros fuel v d acc m. unfold run_fun. cbn [params body bind_params obtain_leaf_vertices_def].
    ex. evc. rewrite isnone_varr2. evc. rewrite isnone_lmap. evc. reflexivity.
  Qed.

  Theorem leaves_none_gen' : forall fuel v d,
    run_fun ce fuel obtain_leaf_vertices_def [VInt v; VInt d; VNone; VNone] = Exn ValueError.
  Proof.
    intros fuel v d. unfold run_fun. cbn [params body bind_params obtain_leaf_vertices_def].
    ex. evc. change (builtin1_val BIsNone VNone) with (Ret (VBool true)). evc.
    ex. evc. ex. evc. change (builtin1_val BIsNone VNone) with (Ret (VBool true)). evc. reflexivity.
  Qed.
End Leaves.

(* ---- the target statements ------------------------------------------------------------------------------------------- *)
Theorem leaves_acc_gen : forall ce fuel v d acc, rows4 acc -> 0 <= d ->
  run_fun ce fuel obtain_leaf_vertices_def [VInt v; VInt d; varr2 acc; VNone]
  = res_of_arr (leaves_acc (Z.to_nat d) acc [v]).
Proof. intros ce fuel v d acc _ _. apply leaves_acc_gen'. Qed.

Theorem leaves_map_gen : forall ce fuel v d m, 0 <= d ->
  run_fun ce fuel obtain_leaf_vertices_def [VInt v; VInt d; VNone; v_lmap m] = Ret (varr (leaves_map (Z.to_nat d) m [v])).
Proof. intros ce fuel v d m _. apply leaves_map_gen'. Qed.

Theorem leaves_both_gen : forall ce fuel v d acc m,
  run_fun ce fuel obtain_leaf_vertices_def [VInt v; VInt d; varr2 acc; v_lmap m] = Exn ValueError.
Proof. intros. apply leaves_both_gen'. Qed.

Theorem leaves_none_gen : forall ce fuel v d,
  run_fun ce fuel obtain_leaf_vertices_def [VInt v; VInt d; VNone; VNone] = Exn ValueError.
Proof. intros. apply leaves_none_gen'. Qed.

Print Assumptions leaves_acc_gen.
Print Assumptions leaves_map_gen.
Print Assumptions leaves_both_gen.
Print Assumptions leaves_none_gen.
