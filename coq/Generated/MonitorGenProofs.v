(* MonitorGenProofs.v -- Monitor.__call__ REGENERATED from dsw/operation.py (MonitorGen.v, MiniPyE.v): the progress printer returns
   None -- it never raises -- for every call the library makes (current_state = 0, or total_state <> 0), whatever the clock says;
   a call with total_state = 0 and current_state <> 0 raises ZeroDivisionError (so the precondition is the right one).
   Compiled on every run of the checks against the freshly generated MonitorGen.v (harness/regen.py, unit "monitor"). *)
From Coq Require Import ZArith List Bool Lia Lra ZifyBool Reals Floats.
From Flocq Require Import Core BinarySingleNaN PrimFloat.
From DSW Require Import MiniPyE MiniPyELemmas.
From DSW Require Thresholds.
From DSW.Proofs Require Import CapacityFloatProofs.
From DSWGen Require Import MonitorGen MonitorRepr.
Import ListNotations.
Open Scope Z_scope.
Open Scope string_scope.
Local Open Scope Z_scope.
Local Open Scope list_scope.
Notation lookup := MiniPyE.lookup.
Notation fz := Thresholds.fz.

(* STATUS: both targets proved (Qed), each with ONE added hypothesis: last <> VOpaque.

   Theorem monitor_returns : forall ce fuel cur total extra last out e,
     clock_ok ce e -> extra_ok extra -> last <> VOpaque ->
     - 2 ^ 52 < cur < 2 ^ 52 -> - 2 ^ 52 < total < 2 ^ 52 -> (cur = 0 \/ total <> 0) ->
     exists out' last',
       run_fun ce fuel monitor_call_def [VInt cur; VInt total; extra; last; VList out] = Ret (VTuple [VNone; VList out'; last']).
   Theorem monitor_zero_total_raises : forall ce fuel cur extra last out e,
     clock_ok ce e -> last <> VOpaque -> cur <> 0 ->
     run_fun ce fuel monitor_call_def [VInt cur; VInt 0; extra; last; VList out] = Exn OtherExn.

   Why the hypothesis: the first statement of the body is `if self.last_time is None`, and MiniPyE.builtin1_val BIsNone is Stuck on
   VOpaque (an object the model does not look into), so with last = VOpaque the run is Stuck whatever the other arguments are:
   opaque_last_stuck / opaque_last_stuck_zero below (checked by computation, with a clock that meets clock_ok).  Any other value of
   self.last_time (None, a float, a str ...) is covered.  Nothing else had to be added; nothing remains.

   Structure.
   * Numeric part (Flocq, through the bridge FIN / RV of Proofs/CapacityFloatProofs.v): BND k f = f finite and |f| <= 2^k.  Rounding keeps
     a power-of-two bound (rnd_bnd), so + - * / and Z.ldexp keep BND without overflow (add_bnd .. ldexp_bnd); fz / float_of_int are exact
     below 2^53 (fz_exact, float_of_int_ok); a finite float has a mantissa below 2^53 and an exponent >= -1074 (fin_cases); Z_trunc of a
     finite float returns (Z_trunc_fin); fmod_exact, ffloor and fdivmod return finite floats on finite input (fmod_fin, ffloor_fin,
     fdivmod_fin: |x| <= 2^k -> |quotient| <= 2^(k+3)).  The three facts the program needs: position_num (int(cur / total * 100)),
     wait_num (int(e * (total - cur) / cur)), hms_num (the two float divmods and the three "%d" truncations of the else branch).
   * Structural part: the body is cut into its statements s1 .. s14, sret (computed from the generated term, tied back by body_eq, by
     reflexivity); one lemma ex_s<k> per statement on explicit environments (the parameters, then the locals in the order of their first
     assignment); strings stay abstract (existentially quantified); the twenty iterations of the for loop by for_loop_normal (ex_s5). *)

(* ==== numeric part: finiteness of every float the call computes (Flocq through Proofs/CapacityFloatProofs.v: FIN, RV) ========= *)
Local Existing Instance Flocq.IEEE754.PrimFloat.Hprec.
Local Existing Instance Flocq.IEEE754.PrimFloat.Hmax.
Local Existing Instance CapacityFloatProofs.Hvexp.

Definition BND (k : Z) (f : PrimFloat.float) : Prop := FIN f /\ (Rabs (RV f) <= bpow radix2 k)%R.

Lemma gf_bpow k : 0 <= k -> generic_format radix2 fx (bpow radix2 k).
Proof.
  intros Hk. apply generic_format_bpow'; [exact CapacityFloatProofs.Hvexp|].
  unfold SpecFloat.fexp, SpecFloat.emin, prec, emax. lia.
Qed.

Lemma rnd_bnd r k : (Rabs r <= bpow radix2 k)%R -> 0 <= k < 1024 ->
  Rlt_bool (Rabs (rnd r)) (bpow radix2 emax) = true /\ (Rabs (rnd r) <= bpow radix2 k)%R.
Proof.
  intros Hr Hk.
  assert (H : (Rabs (rnd r) <= bpow radix2 k)%R).
  { apply abs_round_le_generic; auto with typeclass_instances. apply gf_bpow; lia. }
  split; [|exact H]. apply Rlt_bool_true. apply Rle_lt_trans with (1 := H). apply bpow_lt. unfold emax. lia.
Qed.

Lemma BND_le k k' f : BND k f -> k <= k' -> BND k' f.
Proof. intros [F B] H. split; [exact F|]. apply Rle_trans with (1 := B). apply bpow_le. exact H. Qed.

Lemma bpow_double k : bpow radix2 (k + 1) = (2 * bpow radix2 k)%R.
Proof. rewrite bpow_plus_1. reflexivity. Qed.

Lemma add_bnd a b k : FIN a -> FIN b -> (Rabs (RV a + RV b) <= bpow radix2 k)%R -> 0 <= k < 1024 -> BND k (a + b)%float.
Proof.
  intros Fa Fb H Hk. unfold BND, FIN, RV in *. rewrite add_equiv.
  generalize (Bplus_correct prec emax _ _ mode_NE (Prim2B a) (Prim2B b) Fa Fb).
  destruct (rnd_bnd _ _ H Hk) as [O B]. rewrite O. intros [E [F _]]. split; [exact F|]. rewrite E. exact B.
Qed.

Lemma sub_bnd a b k : FIN a -> FIN b -> (Rabs (RV a - RV b) <= bpow radix2 k)%R -> 0 <= k < 1024 -> BND k (a - b)%float.
Proof.
  intros Fa Fb H Hk. unfold BND, FIN, RV in *. rewrite sub_equiv.
  generalize (Bminus_correct prec emax _ _ mode_NE (Prim2B a) (Prim2B b) Fa Fb).
  destruct (rnd_bnd _ _ H Hk) as [O B]. rewrite O. intros [E [F _]]. split; [exact F|]. rewrite E. exact B.
Qed.

Lemma mul_bnd a b k : FIN a -> FIN b -> (Rabs (RV a * RV b) <= bpow radix2 k)%R -> 0 <= k < 1024 -> BND k (a * b)%float.
Proof.
  intros Fa Fb H Hk. unfold BND, FIN, RV in *. rewrite mul_equiv.
  generalize (Bmult_correct prec emax _ _ mode_NE (Prim2B a) (Prim2B b)).
  destruct (rnd_bnd _ _ H Hk) as [O B]. rewrite O. intros [E [F _]]. split; [rewrite F, Fa, Fb; reflexivity|]. rewrite E. exact B.
Qed.

Lemma div_bnd a b k : FIN a -> FIN b -> RV b <> 0%R -> (Rabs (RV a / RV b) <= bpow radix2 k)%R -> 0 <= k < 1024 -> BND k (a / b)%float.
Proof.
  intros Fa Fb Nz H Hk. unfold BND, FIN, RV in *. rewrite div_equiv.
  generalize (Bdiv_correct prec emax _ _ mode_NE (Prim2B a) (Prim2B b) Nz).
  destruct (rnd_bnd _ _ H Hk) as [O B]. rewrite O. intros [E [F _]]. split; [rewrite F; exact Fa|]. rewrite E. exact B.
Qed.

Lemma add_bnd1 a b k : BND k a -> BND k b -> 0 <= k < 1023 -> BND (k + 1) (a + b)%float.
Proof.
  intros [Fa Ba] [Fb Bb] Hk. apply add_bnd; [assumption|assumption| |lia].
  rewrite bpow_double. apply Rle_trans with (1 := Rabs_triang _ _). lra.
Qed.

Lemma sub_bnd1 a b k : BND k a -> BND k b -> 0 <= k < 1023 -> BND (k + 1) (a - b)%float.
Proof.
  intros [Fa Ba] [Fb Bb] Hk. apply sub_bnd; [assumption|assumption| |lia].
  rewrite bpow_double. unfold Rminus. apply Rle_trans with (1 := Rabs_triang _ _). rewrite Rabs_Ropp. lra.
Qed.

Lemma div_bnd1 a b k : BND k a -> FIN b -> (1 <= Rabs (RV b))%R -> 0 <= k < 1024 -> BND k (a / b)%float.
Proof.
  intros [Fa Ba] Fb Hb Hk.
  assert (Nz : RV b <> 0%R). { intros E. rewrite E, Rabs_R0 in Hb. lra. }
  apply div_bnd; [assumption|assumption|exact Nz| |exact Hk].
  unfold Rdiv. rewrite Rabs_mult, Rabs_inv.
  apply Rle_trans with (2 := Ba).
  rewrite <- (Rmult_1_r (Rabs (RV a))) at 2. apply Rmult_le_compat_l; [apply Rabs_pos|].
  rewrite <- Rinv_1. apply Rinv_le_contravar; lra.
Qed.

Lemma mul_bnd1 a b k1 k2 : BND k1 a -> BND k2 b -> 0 <= k1 + k2 < 1024 -> BND (k1 + k2) (a * b)%float.
Proof.
  intros [Fa Ba] [Fb Bb] Hk. apply mul_bnd; [assumption|assumption| |exact Hk].
  rewrite Rabs_mult, bpow_plus. apply Rmult_le_compat; try apply Rabs_pos; assumption.
Qed.

(* integers as floats *)
Lemma fz_exact z : 0 <= z < 2 ^ 53 -> FIN (fz z) /\ RV (fz z) = IZR z.
Proof.
  intros Hz. unfold FIN, RV, fz. rewrite of_int63_equiv.
  rewrite Uint63.of_Z_spec, Z.mod_small by (change Uint63.wB with (2 ^ 63); lia).
  generalize (binary_normalize_correct prec emax Hprec Hmax mode_NE z 0 false). cbv zeta.
  assert (E : F2R (Float radix2 z 0) = IZR z). { unfold F2R. simpl. ring. }
  rewrite E. rewrite round_generic by (auto with typeclass_instances; apply gf_IZR; lia).
  rewrite Rlt_bool_true.
  - intros [E1 [E2 _]]. split; assumption.
  - rewrite <- abs_IZR. apply Rlt_le_trans with (bpow radix2 53).
    + change (bpow radix2 53) with (IZR (2 ^ 53)). apply IZR_lt. lia.
    + apply bpow_le. unfold emax. lia.
Qed.

Lemma FIN_opp f : FIN f -> FIN (- f)%float.
Proof. unfold FIN. rewrite opp_equiv, is_finite_Bopp. auto. Qed.
Lemma RV_opp f : RV (- f)%float = (- RV f)%R.
Proof. unfold RV. rewrite opp_equiv, B2R_Bopp. reflexivity. Qed.
Lemma BND_opp k f : BND k f -> BND k (- f)%float.
Proof. intros [F B]. split; [apply FIN_opp; exact F|]. rewrite RV_opp, Rabs_Ropp. exact B. Qed.

Lemma float_of_int_ok z : - 2 ^ 53 < z < 2 ^ 53 -> exists f, float_of_int z = Ret f /\ FIN f /\ RV f = IZR z.
Proof.
  intros Hz. unfold float_of_int.
  destruct ((0 <=? z) && (z <? 2 ^ 53)) eqn:E1.
  - destruct (fz_exact z) as [F R]; [lia|]. eexists; split; [reflexivity|split; assumption].
  - destruct ((z <? 0) && (- 2 ^ 53 <? z)) eqn:E2; [|lia].
    destruct (fz_exact (- z)) as [F R]; [lia|]. eexists; split; [reflexivity|]. split; [apply FIN_opp; exact F|].
    rewrite RV_opp, R, opp_IZR. ring.
Qed.

Lemma IZR_bnd z k : 0 <= k -> Z.abs z <= 2 ^ k -> (Rabs (IZR z) <= bpow radix2 k)%R.
Proof.
  intros Hk H. rewrite <- abs_IZR. rewrite <- (IZR_Zpower radix2) by exact Hk. apply IZR_le. exact H.
Qed.

Lemma Z_trunc_fin f : FIN f -> exists z, Z_trunc f = Ret z.
Proof.
  unfold FIN, Z_trunc. rewrite <- B2SF_Prim2B. destruct (Prim2B f); simpl; try discriminate; intros _; eexists; reflexivity.
Qed.

Lemma fin_cases f : FIN f ->
  (exists s, Prim2SF f = S754_zero s) \/ (exists s m e, Prim2SF f = S754_finite s m e /\ Z.pos m < 2 ^ 53 /\ - 1074 <= e).
Proof.
  unfold FIN. rewrite <- B2SF_Prim2B. destruct (Prim2B f) as [s|s| |s m e Hb]; cbn [is_finite B2SF]; try discriminate; intros _.
  - left. eexists; reflexivity.
  - right. exists s, m, e. split; [reflexivity|].
    unfold bounded in Hb. apply andb_prop in Hb. destruct Hb as [Hc _].
    unfold canonical_mantissa in Hc. apply Zeq_bool_eq in Hc.
    rewrite Zpos_digits2_pos in Hc.
    pose proof (Zdigits_correct radix2 (Z.pos m)) as [_ Hd].
    set (d := Zdigits radix2 (Z.pos m)) in *.
    unfold SpecFloat.fexp, SpecFloat.emin, prec, emax in Hc.
    assert (Hd53 : d <= 53) by lia.
    split; [|lia].
    rewrite Z.abs_eq in Hd by lia.
    apply Z.lt_le_trans with (1 := Hd). change (Zpower radix2 d) with (2 ^ d). apply Z.pow_le_mono_r; lia.
Qed.

Lemma zero_RV f s : Prim2SF f = S754_zero s -> FIN f /\ RV f = 0%R.
Proof.
  intros H. unfold FIN, RV, Prim2B. rewrite is_finite_SF2B, B2R_SF2B, H. split; reflexivity.
Qed.

Lemma BND_zero f s k : Prim2SF f = S754_zero s -> BND k f.
Proof. intros H. destruct (zero_RV f s H) as [F R]. split; [exact F|]. rewrite R, Rabs_R0. apply bpow_ge_0. Qed.

Lemma ldexp_bnd f e k : BND k f -> e <= 0 -> 0 <= k < 1024 -> BND k (Z.ldexp f e).
Proof.
  intros [F B] He Hk. unfold BND, FIN, RV in *. rewrite ldexp_equiv.
  generalize (Bldexp_correct prec emax Hprec Hmax mode_NE (Prim2B f) e).
  assert (H : (Rabs (B2R (Prim2B f) * bpow radix2 e) <= bpow radix2 k)%R).
  { rewrite Rabs_mult. rewrite (Rabs_pos_eq (bpow radix2 e)) by apply bpow_ge_0.
    rewrite <- (Rmult_1_r (bpow radix2 k)). apply Rmult_le_compat; [apply Rabs_pos|apply bpow_ge_0|exact B|].
    change 1%R with (bpow radix2 0). apply bpow_le. exact He. }
  destruct (rnd_bnd _ _ H Hk) as [O Bd]. rewrite O. intros [E [Fi _]]. split; [rewrite Fi; exact F|]. rewrite E. exact Bd.
Qed.

Lemma fz_bnd z : 0 <= z < 2 ^ 53 -> BND 53 (fz z).
Proof.
  intros Hz. destruct (fz_exact z Hz) as [F R]. split; [exact F|]. rewrite R. apply IZR_bnd; lia.
Qed.

Lemma fmod_fin x : FIN x -> exists md, fmod_exact x 60 = Ret md /\ BND 53 md.
Proof.
  intros Fx. unfold fmod_exact. destruct (fin_cases x Fx) as [[s E]|[s [m [e [E [Hm He]]]]]]; rewrite E.
  - eexists; split; [reflexivity|]. apply (BND_zero x s). exact E.
  - eexists; split; [reflexivity|].
    assert (B : BND 53 (if 0 <=? e then fz ((Z.pos m * 2 ^ e) mod 60)
                        else Z.ldexp (fz (Z.pos m mod (60 * 2 ^ (- e)))) e)).
    { destruct (0 <=? e) eqn:E0.
      - apply fz_bnd. pose proof (Z.mod_pos_bound (Z.pos m * 2 ^ e) 60). lia.
      - apply ldexp_bnd; [|lia|lia]. apply fz_bnd.
        assert (0 < 60 * 2 ^ (- e)) by (pose proof (Z.pow_pos_nonneg 2 (- e)); lia).
        pose proof (Z.mod_pos_bound (Z.pos m) (60 * 2 ^ (- e))).
        pose proof (Z.mod_le (Z.pos m) (60 * 2 ^ (- e))). lia. }
    destruct s; [apply BND_opp|]; exact B.
Qed.

Lemma ffloor_fin d k : BND k d -> 53 <= k -> exists fl, ffloor d = Ret fl /\ BND k fl.
Proof.
  intros Bd Hk. unfold ffloor. destruct (fin_cases d (proj1 Bd)) as [[s E]|[s [m [e [E [Hm He]]]]]]; rewrite E.
  - eexists; split; [reflexivity|exact Bd].
  - destruct (0 <=? e) eqn:E0; [eexists; split; [reflexivity|exact Bd]|].
    set (P := 2 ^ (- e)).
    assert (HP : 2 <= P). { change 2 with (2 ^ 1) at 1. apply Z.pow_le_mono_r; lia. }
    pose proof (Z.mul_div_le (Z.pos m) P ltac:(lia)) as Hq.
    pose proof (Z.div_pos (Z.pos m) P ltac:(lia) ltac:(lia)) as Hq0.
    set (q := Z.pos m / P) in *.
    match goal with |- exists fl, float_of_int ?v = _ /\ _ => destruct (float_of_int_ok v) as [f [Ef [Ff Rf]]] end.
    { destruct s; [destruct (Z.pos m mod P =? 0)|]; nia. }
    exists f. split; [exact Ef|]. split; [exact Ff|]. rewrite Rf.
    apply Rle_trans with (bpow radix2 53); [|apply bpow_le; exact Hk].
    apply IZR_bnd; [lia|]. destruct s; [destruct (Z.pos m mod P =? 0)|]; nia.
Qed.

Definition fdm_tail (x md dv : PrimFloat.float) : res (PrimFloat.float * PrimFloat.float) :=
  let md := if PrimFloat.eqb md 0%float then 0%float else md in
  if PrimFloat.eqb dv 0%float then
    Ret ((match Prim2SF (x / fz 60)%float with S754_zero true | S754_finite true _ _ => (- 0)%float | _ => 0%float end), md)
  else
    fl <~ ffloor dv ;;
    Ret ((if PrimFloat.ltb 0.5%float (dv - fl)%float then (fl + 1)%float else fl), md).

Lemma fdivmod_unfold x : fdivmod x 60 =
  md <~ fmod_exact x 60 ;;
  if PrimFloat.ltb md 0%float then fdm_tail x (md + fz 60)%float ((x - md) / fz 60 - 1)%float
  else fdm_tail x md ((x - md) / fz 60)%float.
Proof.
  unfold fdivmod. change (negb ((0 <? 60) && (60 <? 2 ^ 53))) with false. cbv iota.
  destruct (fmod_exact x 60) as [md| | |]; cbn [rbind]; try reflexivity.
  destruct (PrimFloat.ltb md 0%float); reflexivity.
Qed.

Lemma BND_1 k : 0 <= k -> BND k 1%float.
Proof.
  intros Hk. split; [exact FIN_1|]. rewrite RV_1, Rabs_R1. change 1%R with (bpow radix2 0). apply bpow_le. exact Hk.
Qed.

Lemma fdm_tail_fin x md dv k : FIN md -> BND k dv -> 53 <= k < 1000 ->
  exists q r, fdm_tail x md dv = Ret (q, r) /\ BND (k + 1) q /\ FIN r.
Proof.
  intros Fm Bd Hk. unfold fdm_tail. cbv zeta.
  assert (Fr : FIN (if PrimFloat.eqb md 0%float then 0%float else md)) by (destruct (PrimFloat.eqb md 0%float); [exact FIN_0|exact Fm]).
  destruct (PrimFloat.eqb dv 0%float).
  - do 2 eexists. split; [reflexivity|]. split; [|exact Fr].
    destruct (Prim2SF (x / fz 60)%float) as [[|]|[|]| |[|] ? ?]; first [apply (BND_zero _ true); reflexivity|apply (BND_zero _ false); reflexivity].
  - destruct (ffloor_fin dv k Bd ltac:(lia)) as [fl [Ef Bf]]. rewrite Ef. cbn [rbind].
    do 2 eexists. split; [reflexivity|]. split; [|exact Fr].
    destruct (PrimFloat.ltb 0.5%float (dv - fl)%float).
    + apply add_bnd1; [exact Bf|apply BND_1; lia|lia].
    + apply (BND_le k); [exact Bf|lia].
Qed.

Lemma fdivmod_fin x k : 53 <= k < 990 -> BND k x -> exists q r, fdivmod x 60 = Ret (q, r) /\ BND (k + 3) q /\ FIN r.
Proof.
  intros Hk Bx. rewrite fdivmod_unfold.
  destruct (fmod_fin x (proj1 Bx)) as [md [E Bm]]. rewrite E. cbn [rbind].
  destruct (fz_exact 60 ltac:(lia)) as [F60 R60].
  assert (B60 : BND k (fz 60)). { split; [exact F60|]. rewrite R60. apply IZR_bnd; [lia|]. apply Z.le_trans with (2 ^ 53); [lia|apply Z.pow_le_mono_r; lia]. }
  assert (Bm' : BND k md) by (apply (BND_le 53); [exact Bm|lia]).
  assert (Bs : BND (k + 1) (x - md)%float) by (apply sub_bnd1; [exact Bx|exact Bm'|lia]).
  assert (Bd : BND (k + 1) ((x - md) / fz 60)%float).
  { apply div_bnd1; [exact Bs|exact F60| |lia]. rewrite R60. rewrite Rabs_pos_eq; lra. }
  destruct (PrimFloat.ltb md 0%float).
  - destruct (fdm_tail_fin x (md + fz 60)%float ((x - md) / fz 60 - 1)%float (k + 2)) as [q [r [Et [Bq Fr]]]].
    + apply (add_bnd1 md (fz 60) k); [exact Bm'|exact B60|lia].
    + replace (k + 2) with (k + 1 + 1) by lia. apply sub_bnd1; [exact Bd|apply BND_1; lia|lia].
    + lia.
    + exists q, r. split; [exact Et|]. split; [|exact Fr]. replace (k + 3) with (k + 2 + 1) by lia. exact Bq.
  - destruct (fdm_tail_fin x md ((x - md) / fz 60)%float (k + 1)) as [q [r [Et [Bq Fr]]]].
    + exact (proj1 Bm).
    + exact Bd.
    + lia.
    + exists q, r. split; [exact Et|]. split; [|exact Fr]. apply (BND_le (k + 1 + 1)); [exact Bq|lia].
Qed.

Lemma eqb_nz f : FIN f -> RV f <> 0%R -> PrimFloat.eqb f 0%float = false.
Proof.
  intros F N. rewrite eqb_equiv, Beqb_correct by (exact F || exact FIN_0).
  apply Req_bool_false. fold (RV f). fold (RV 0%float). rewrite RV_0. exact N.
Qed.

Lemma IZR_abs_ge1 z : z <> 0 -> (1 <= Rabs (IZR z))%R.
Proof. intros H. rewrite <- abs_IZR. apply IZR_le. lia. Qed.

Lemma BInt_fin f : FIN f -> exists p, builtin1_val BInt (VFloat f) = Ret (VInt p).
Proof. intros F. destruct (Z_trunc_fin f F) as [z E]. exists z. cbn [builtin1_val]. rewrite E. reflexivity. Qed.

Lemma position_num cur total : - 2 ^ 52 < cur < 2 ^ 52 -> - 2 ^ 52 < total < 2 ^ 52 -> total <> 0 ->
  exists q q' p, binop_vals TrueDiv (VInt cur) (VInt total) = Ret (VFloat q) /\
                 binop_vals Mul (VFloat q) (VInt 100) = Ret (VFloat q') /\
                 builtin1_val BInt (VFloat q') = Ret (VInt p).
Proof.
  intros Hc Ht T0.
  destruct (float_of_int_ok cur ltac:(lia)) as [fc [Ec [Fc Rc]]].
  destruct (float_of_int_ok total ltac:(lia)) as [ft [Et [Ft Rt]]].
  destruct (float_of_int_ok 100 ltac:(lia)) as [fh [Eh [Fh Rh]]].
  assert (Bq : BND 52 (fc / ft)%float).
  { apply div_bnd1; [|exact Ft| |lia].
    - split; [exact Fc|]. rewrite Rc. apply IZR_bnd; lia.
    - rewrite Rt. apply IZR_abs_ge1. exact T0. }
  assert (Bq' : BND (52 + 7) (fc / ft * fh)%float).
  { apply mul_bnd1; [exact Bq| |lia]. split; [exact Fh|]. rewrite Rh. apply IZR_bnd; lia. }
  destruct (BInt_fin _ (proj1 Bq')) as [p Ep].
  exists (fc / ft)%float, (fc / ft * fh)%float, p. split; [|split].
  - unfold binop_vals, binop_scalar. cbn [has_float]. destruct (total =? 0) eqn:E; [lia|]. rewrite Ec, Et. reflexivity.
  - unfold binop_vals, binop_scalar. cbn [has_float as_float rbind]. rewrite Eh. reflexivity.
  - exact Ep.
Qed.

Lemma wait_num e cur total : FIN e -> (Rabs (RV e) <= 1099511627776)%R ->
  - 2 ^ 52 < cur < 2 ^ 52 -> - 2 ^ 52 < total < 2 ^ 52 -> cur <> 0 ->
  exists y z w, binop_vals Mul (VFloat e) (VInt (total - cur)) = Ret (VFloat y) /\
                binop_vals TrueDiv (VFloat y) (VInt cur) = Ret (VFloat z) /\
                builtin1_val BInt (VFloat z) = Ret (VInt w).
Proof.
  intros Fe Be Hc Ht C0.
  destruct (float_of_int_ok cur ltac:(lia)) as [fc [Ec [Fc Rc]]].
  destruct (float_of_int_ok (total - cur) ltac:(lia)) as [fd [Ed [Fd Rd]]].
  assert (By : BND (40 + 53) (e * fd)%float).
  { apply mul_bnd1; [split; [exact Fe|exact Be]| |lia]. split; [exact Fd|]. rewrite Rd. apply IZR_bnd; lia. }
  assert (Bz : BND (40 + 53) (e * fd / fc)%float).
  { apply div_bnd1; [exact By|exact Fc| |lia]. rewrite Rc. apply IZR_abs_ge1. exact C0. }
  destruct (BInt_fin _ (proj1 Bz)) as [w Ew].
  exists (e * fd)%float, (e * fd / fc)%float, w. split; [|split].
  - unfold binop_vals, binop_scalar. cbn [has_float as_float rbind]. rewrite Ed. reflexivity.
  - unfold binop_vals, binop_scalar. cbn [has_float as_float rbind]. rewrite Ec. cbn [rbind].
    rewrite eqb_nz; [reflexivity|exact Fc|]. rewrite Rc. apply not_0_IZR. exact C0.
  - exact Ew.
Qed.

Definition hms_ok (e : PrimFloat.float) : Prop :=
  exists q r q2 r2 z1 z2 z3, fdivmod e 60 = Ret (q, r) /\ fdivmod q 60 = Ret (q2, r2) /\
                             Z_trunc q2 = Ret z1 /\ Z_trunc r2 = Ret z2 /\ Z_trunc r = Ret z3.
Lemma hms_num e : FIN e -> (Rabs (RV e) <= 1099511627776)%R -> hms_ok e.
Proof.
  intros Fe Be.
  assert (B : BND 53 e). { apply (BND_le 40); [split; [exact Fe|exact Be]|lia]. }
  destruct (fdivmod_fin e 53 ltac:(lia) B) as [q [r [E1 [Bq Fr]]]].
  destruct (fdivmod_fin q (53 + 3) ltac:(lia) Bq) as [q2 [r2 [E2 [Bq2 Fr2]]]].
  destruct (Z_trunc_fin q2 (proj1 Bq2)) as [z1 T1].
  destruct (Z_trunc_fin r2 Fr2) as [z2 T2].
  destruct (Z_trunc_fin r Fr) as [z3 T3].
  exists q, r, q2, r2, z1, z2, z3. repeat split; assumption.
Qed.


(* ==== structural part: the statements of the body, one lemma each ==================================================== *)
Fixpoint flat (s : stmt) : list stmt := match s with SSeq a b => a :: flat b | x => [x] end.
Definition main_stmts : list stmt := Eval cbv in match body monitor_call_def with SSeq a _ => flat a | _ => [] end.
Definition s1 := Eval cbv in nth 0 main_stmts SSkip.
Definition s2 := Eval cbv in nth 1 main_stmts SSkip.
Definition s3 := Eval cbv in nth 2 main_stmts SSkip.
Definition s4 := Eval cbv in nth 3 main_stmts SSkip.
Definition s5 := Eval cbv in nth 4 main_stmts SSkip.
Definition s6 := Eval cbv in nth 5 main_stmts SSkip.
Definition s7 := Eval cbv in nth 6 main_stmts SSkip.
Definition s8 := Eval cbv in nth 7 main_stmts SSkip.
Definition s9 := Eval cbv in nth 8 main_stmts SSkip.
Definition s10 := Eval cbv in nth 9 main_stmts SSkip.
Definition s11 := Eval cbv in nth 10 main_stmts SSkip.
Definition s12 := Eval cbv in nth 11 main_stmts SSkip.
Definition s13 := Eval cbv in nth 12 main_stmts SSkip.
Definition s14 := Eval cbv in nth 13 main_stmts SSkip.
Definition sret := Eval cbv in match body monitor_call_def with SSeq _ b => b | _ => SSkip end.

Lemma body_eq : body monitor_call_def =
  SSeq (SSeq s1 (SSeq s2 (SSeq s3 (SSeq s4 (SSeq s5 (SSeq s6 (SSeq s7 (SSeq s8 (SSeq s9 (SSeq s10 (SSeq s11 (SSeq s12 (SSeq s13 s14)))))))))))))
       sret.
Proof. reflexivity. Qed.

(* environments: the five parameters, then the locals in the order of their first assignment *)
Notation base cur total extra last out tl :=
  (("current_state", VInt cur) :: ("total_state", VInt total) :: ("extra", extra) :: ("self.last_time", last)
   :: ("__out__", VList out) :: tl).

(* structure only / structure and the operations on ints and strs (never on floats: those go through the numeric lemmas) *)
Ltac step := cbn [exec eval lift seq rbind assign MiniPyE.lookup update bind_tuple items String.eqb Ascii.eqb Bool.eqb andb].
Ltac stepo := cbn [exec eval lift seq rbind assign MiniPyE.lookup update bind_tuple items String.eqb Ascii.eqb Bool.eqb andb
  binop_vals binop_scalar has_float cmp_top cmp_vals cmp_scalar is_arr orb truthy builtin1_val builtin2_val mixes_bool to_str negb
  val_eqb].

Section Stages.
  Variable ce : string -> list val -> res val.
  Variable fuel : nat.
  Variables (cur total : Z) (extra : val).

  Lemma ex_s1 last out t : ce "__now__" [] = Ret t -> last <> VOpaque ->
    exists last', exec ce fuel s1 (base cur total extra last out []) = ONormal (base cur total extra last' out []).
  Proof.
    intros Hn Hl. unfold s1. destruct last; stepo; try (eexists; reflexivity); [|contradiction].
    rewrite Hn. stepo. eexists; reflexivity.
  Qed.

  Lemma ex_s2_zero last out : cur = 0 ->
    exec ce fuel s2 (base cur total extra last out []) = OReturn (VTuple [VNone; VList out; last]).
  Proof. intros ->. reflexivity. Qed.

  Lemma ex_s2_nz last out : cur <> 0 ->
    exec ce fuel s2 (base cur total extra last out []) = ONormal (base cur total extra last out []).
  Proof.
    intros H. unfold s2. stepo. destruct (cur =? 0) eqn:E; [lia|]. reflexivity.
  Qed.

  Lemma ex_s3 last out q q' p :
    binop_vals TrueDiv (VInt cur) (VInt total) = Ret (VFloat q) ->
    binop_vals Mul (VFloat q) (VInt 100) = Ret (VFloat q') ->
    builtin1_val BInt (VFloat q') = Ret (VInt p) ->
    exec ce fuel s3 (base cur total extra last out []) = ONormal (base cur total extra last out [("position", VInt p)]).
  Proof.
    intros H1 H2 H3. unfold s3. step. rewrite H1. step. rewrite H2. step. rewrite H3. step. reflexivity.
  Qed.

  Lemma ex_s4 last out p :
    exec ce fuel s4 (base cur total extra last out [("position", VInt p)])
    = ONormal (base cur total extra last out [("position", VInt p); ("string", VStr [124])]).
  Proof. reflexivity. Qed.

  Lemma range_items : range3 0 100 5 = Ret (map VInt [0; 5; 10; 15; 20; 25; 30; 35; 40; 45; 50; 55; 60; 65; 70; 75; 80; 85; 90; 95]).
  Proof. reflexivity. Qed.

  Definition loop_body : stmt := Eval cbv in match s5 with SFor _ _ b => b | _ => SSkip end.

  Lemma ex_body last out p s tl v : tl = [] \/ (exists i, tl = [("index", VInt i)]) ->
    exists s', seq (assign ce (TVar "index") (VInt v) (base cur total extra last out (("position", VInt p) :: ("string", VStr s) :: tl)))
                   (exec ce fuel loop_body)
               = ONormal (base cur total extra last out [("position", VInt p); ("string", VStr s'); ("index", VInt v)]).
  Proof.
    intros [->|[i ->]]; unfold loop_body; stepo; destruct (v <=? p); stepo; eexists; reflexivity.
  Qed.

  Lemma ex_s5 last out p s :
    exists s' i, exec ce fuel s5 (base cur total extra last out [("position", VInt p); ("string", VStr s)])
                 = ONormal (base cur total extra last out [("position", VInt p); ("string", VStr s'); ("index", VInt i)]).
  Proof.
    unfold s5. rewrite exec_for. step. rewrite range_items. step.
    fold loop_body. cbn [map]. rewrite for_loop_cons.
    destruct (ex_body last out p s [] 0 (or_introl eq_refl)) as [s0 E0]. rewrite E0. cbn [seq].
    destruct (for_loop_normal ce fuel (TVar "index") loop_body
                (fun l en => (exists zs, l = map VInt zs) /\
                             exists s' i, en = base cur total extra last out [("position", VInt p); ("string", VStr s'); ("index", VInt i)]))
      with (l := map VInt [5; 10; 15; 20; 25; 30; 35; 40; 45; 50; 55; 60; 65; 70; 75; 80; 85; 90; 95])
           (en := base cur total extra last out [("position", VInt p); ("string", VStr s0); ("index", VInt 0)])
      as [en' [E [_ [s' [i ->]]]]].
    - intros v rest en [[zs Hz] [s' [i ->]]]. destruct zs as [|z zs]; [discriminate|]. cbn [map] in Hz. injection Hz as -> ->.
      destruct (ex_body last out p s' [("index", VInt i)] z (or_intror (ex_intro _ i eq_refl))) as [s'' E''].
      eexists. split; [exact E''|]. split; [exists zs; reflexivity|]. exists s'', z. reflexivity.
    - split; [eexists; reflexivity|]. exists s0, 0. reflexivity.
    - cbn [map] in E. rewrite E. exists s', i. reflexivity.
  Qed.

  Lemma ex_s6 last out p s i :
    exists s', exec ce fuel s6 (base cur total extra last out [("position", VInt p); ("string", VStr s); ("index", VInt i)])
               = ONormal (base cur total extra last out [("position", VInt p); ("string", VStr s'); ("index", VInt i)]).
  Proof. eexists. reflexivity. Qed.

  Lemma ex_s7 last out p s i e : (forall a, ce "__elapsed__" [a] = Ret (VFloat e)) ->
    exec ce fuel s7 (base cur total extra last out [("position", VInt p); ("string", VStr s); ("index", VInt i)])
    = ONormal (base cur total extra last out [("position", VInt p); ("string", VStr s); ("index", VInt i); ("pass_time", VFloat e)]).
  Proof. intros H. unfold s7. step. rewrite H. step. reflexivity. Qed.

  Lemma binop_sub_int a b : binop_vals Sub (VInt a) (VInt b) = Ret (VInt (a - b)).
  Proof. reflexivity. Qed.

  Lemma ex_s8 last out p s i e y z w :
    binop_vals Mul (VFloat e) (VInt (total - cur)) = Ret (VFloat y) ->
    binop_vals TrueDiv (VFloat y) (VInt cur) = Ret (VFloat z) ->
    builtin1_val BInt (VFloat z) = Ret (VInt w) ->
    exec ce fuel s8 (base cur total extra last out [("position", VInt p); ("string", VStr s); ("index", VInt i); ("pass_time", VFloat e)])
    = ONormal (base cur total extra last out [("position", VInt p); ("string", VStr s); ("index", VInt i); ("pass_time", VFloat e);
                                              ("wait_time", VInt w)]).
  Proof.
    intros H1 H2 H3. unfold s8. step. rewrite binop_sub_int. step. rewrite H1. step. rewrite H2. step. rewrite H3. step. reflexivity.
  Qed.

  Lemma ex_s9 last out p s i e w :
    exists s', exec ce fuel s9 (base cur total extra last out [("position", VInt p); ("string", VStr s); ("index", VInt i);
                                                                ("pass_time", VFloat e); ("wait_time", VInt w)])
    = ONormal (base cur total extra last out [("position", VInt p); ("string", VStr s'); ("index", VInt i); ("pass_time", VFloat e);
                                              ("wait_time", VInt w)]).
  Proof. unfold s9. stepo. eexists. reflexivity. Qed.

  Lemma ex_s10 last out p s i e w :
    exists s', exec ce fuel s10 (base cur total extra last out [("position", VInt p); ("string", VStr s); ("index", VInt i);
                                                                 ("pass_time", VFloat e); ("wait_time", VInt w)])
    = ONormal (base cur total extra last out [("position", VInt p); ("string", VStr s'); ("index", VInt i); ("pass_time", VFloat e);
                                              ("wait_time", VInt w)]).
  Proof. unfold s10. stepo. eexists. reflexivity. Qed.

  Lemma ex_s11 last out p s i e w : hms_ok e ->
    exists s' mi se ho,
      exec ce fuel s11 (base cur total extra last out [("position", VInt p); ("string", VStr s); ("index", VInt i);
                                                       ("pass_time", VFloat e); ("wait_time", VInt w)])
    = ONormal (base cur total extra last out [("position", VInt p); ("string", VStr s'); ("index", VInt i); ("pass_time", VFloat e);
                                              ("wait_time", VInt w); ("minute", mi); ("second", se); ("hour", ho)]).
  Proof.
    intros (q & r & q2 & r2 & z1 & z2 & z3 & F1 & F2 & T1 & T2 & T3). unfold s11. stepo.
    destruct (cur <? total).
    - change (60 =? 0) with false. stepo. change (60 =? 0) with false. stepo. do 4 eexists. reflexivity.
    - rewrite F1. stepo. cbn [fst snd]. rewrite F2. stepo. cbn [fst snd]. rewrite T1. stepo. rewrite T2. stepo. rewrite T3. stepo.
      do 4 eexists. reflexivity.
  Qed.

  Lemma map_res_ret {A B} (f : A -> res B) (l : list A) :
    Forall (fun x => exists y, f x = Ret y) l -> exists ys, map_res f l = Ret ys.
  Proof.
    induction 1 as [|x l [y Hy] _ [ys IH]]; cbn [map_res].
    - eexists; reflexivity.
    - rewrite Hy. cbn [rbind]. rewrite IH. cbn [rbind]. eexists; reflexivity.
  Qed.

  Lemma to_str_dict d :
    Forall (fun kv => match kv with
                      | (VStr k, VInt _) => plain k = true
                      | (VStr k, VStr w) => plain k = true /\ plain w = true
                      | _ => False end) d ->
    exists s, to_str (VDict d) = Ret (VStr s).
  Proof.
    intros H. unfold to_str.
    match goal with |- context [map_res ?f d] => destruct (map_res_ret f d) as [ys E] end.
    - eapply Forall_impl; [|exact H]. intros [k v] Hkv.
      destruct k; try contradiction. destruct v; try contradiction.
      + unfold plain in Hkv. rewrite Hkv. eexists; reflexivity.
      + destruct Hkv as [Hk Hw]. unfold plain in Hk, Hw. rewrite Hk, Hw. eexists; reflexivity.
    - rewrite E. cbn [rbind]. eexists; reflexivity.
  Qed.

  Lemma ex_s12 last out tl s i : extra_ok extra ->
    exists s', exec ce fuel s12 (base cur total extra last out (("position", VInt i) :: ("string", VStr s) :: tl))
    = ONormal (base cur total extra last out (("position", VInt i) :: ("string", VStr s') :: tl)).
  Proof.
    intros [->|[d [-> Hd]]]; unfold s12.
    - stepo. eexists. reflexivity.
    - destruct (to_str_dict d Hd) as [sd Ed].
      cbn [exec eval lift seq rbind assign MiniPyE.lookup update String.eqb Ascii.eqb Bool.eqb andb builtin1_val truthy negb].
      rewrite Ed. stepo. eexists. reflexivity.
  Qed.

  Lemma ex_s13 last out tl p s :
    exists out', exec ce fuel s13 (base cur total extra last out (("position", VInt p) :: ("string", VStr s) :: tl))
    = ONormal (base cur total extra last out' (("position", VInt p) :: ("string", VStr s) :: tl)).
  Proof. unfold s13. stepo. eexists. reflexivity. Qed.

  Lemma ex_s14 last out tl :
    exists out' last', exec ce fuel s14 (base cur total extra last out tl) = ONormal (base cur total extra last' out' tl).
  Proof.
    unfold s14. stepo. destruct (total <=? cur); stepo; do 2 eexists; reflexivity.
  Qed.

  Lemma ex_sret last out tl :
    exec ce fuel sret (base cur total extra last out tl) = OReturn (VTuple [VNone; VList out; last]).
  Proof. reflexivity. Qed.
End Stages.

Theorem monitor_returns : forall ce fuel cur total extra last out e,
  clock_ok ce e -> extra_ok extra -> last <> VOpaque ->
  - 2 ^ 52 < cur < 2 ^ 52 -> - 2 ^ 52 < total < 2 ^ 52 -> (cur = 0 \/ total <> 0) ->
  exists out' last',
    run_fun ce fuel monitor_call_def [VInt cur; VInt total; extra; last; VList out] = Ret (VTuple [VNone; VList out'; last']).
Proof.
  intros ce fuel cur total extra last out e [[t Hnow] [Hel [Fe Be]]] Hx Hlast Hc Ht Hz.
  unfold run_fun. cbn [params bind_params monitor_call_def]. change (MiniPyE.body _) with (body monitor_call_def).
  rewrite body_eq.
  destruct (ex_s1 ce fuel cur total extra last out t Hnow Hlast) as [l1 E1].
  rewrite (exec_seq ce fuel _ sret), (exec_seq ce fuel s1), E1. cbn [seq].
  rewrite (exec_seq ce fuel s2).
  destruct (Z.eq_dec cur 0) as [C0|C0].
  { rewrite ex_s2_zero by exact C0. cbn [seq]. do 2 eexists. reflexivity. }
  assert (T0 : total <> 0) by (destruct Hz; [contradiction|assumption]).
  rewrite ex_s2_nz by exact C0. cbn [seq].
  destruct (position_num cur total Hc Ht T0) as (q & q' & p & P1 & P2 & P3).
  rewrite (exec_seq ce fuel s3), (ex_s3 ce fuel cur total extra l1 out q q' p P1 P2 P3). cbn [seq].
  rewrite (exec_seq ce fuel s4), ex_s4. cbn [seq].
  destruct (ex_s5 ce fuel cur total extra l1 out p [124]) as (sa & i & E5).
  rewrite (exec_seq ce fuel s5), E5. cbn [seq].
  destruct (ex_s6 ce fuel cur total extra l1 out p sa i) as (sb & E6).
  rewrite (exec_seq ce fuel s6), E6. cbn [seq].
  rewrite (exec_seq ce fuel s7), (ex_s7 ce fuel cur total extra l1 out p sb i e Hel). cbn [seq].
  destruct (wait_num e cur total Fe Be Hc Ht C0) as (y & z & w & W1 & W2 & W3).
  rewrite (exec_seq ce fuel s8), (ex_s8 ce fuel cur total extra l1 out p sb i e y z w W1 W2 W3). cbn [seq].
  destruct (ex_s9 ce fuel cur total extra l1 out p sb i e w) as (sc & E9).
  rewrite (exec_seq ce fuel s9), E9. cbn [seq].
  destruct (ex_s10 ce fuel cur total extra l1 out p sc i e w) as (sd & E10).
  rewrite (exec_seq ce fuel s10), E10. cbn [seq].
  destruct (ex_s11 ce fuel cur total extra l1 out p sd i e w (hms_num e Fe Be)) as (se & mi & sec & ho & E11).
  rewrite (exec_seq ce fuel s11), E11. cbn [seq].
  destruct (ex_s12 ce fuel cur total extra l1 out
              [("index", VInt i); ("pass_time", VFloat e); ("wait_time", VInt w); ("minute", mi); ("second", sec); ("hour", ho)]
              se p Hx) as (sf & E12).
  rewrite (exec_seq ce fuel s12), E12. cbn [seq].
  destruct (ex_s13 ce fuel cur total extra l1 out
              [("index", VInt i); ("pass_time", VFloat e); ("wait_time", VInt w); ("minute", mi); ("second", sec); ("hour", ho)]
              p sf) as (out1 & E13).
  rewrite (exec_seq ce fuel s13), E13. cbn [seq].
  destruct (ex_s14 ce fuel cur total extra l1 out1
              [("position", VInt p); ("string", VStr sf); ("index", VInt i); ("pass_time", VFloat e); ("wait_time", VInt w);
               ("minute", mi); ("second", sec); ("hour", ho)]) as (out2 & l2 & E14).
  rewrite E14. cbn [seq]. rewrite ex_sret. do 2 eexists. reflexivity.
Qed.

Theorem monitor_zero_total_raises : forall ce fuel cur extra last out e,
  clock_ok ce e -> last <> VOpaque -> cur <> 0 ->
  run_fun ce fuel monitor_call_def [VInt cur; VInt 0; extra; last; VList out] = Exn OtherExn.
Proof.
  intros ce fuel cur extra last out e [[t Hnow] _] Hlast C0.
  unfold run_fun. cbn [params bind_params monitor_call_def]. change (MiniPyE.body _) with (body monitor_call_def).
  rewrite body_eq.
  destruct (ex_s1 ce fuel cur 0 extra last out t Hnow Hlast) as [l1 E1].
  rewrite (exec_seq ce fuel _ sret), (exec_seq ce fuel s1), E1. cbn [seq].
  rewrite (exec_seq ce fuel s2), ex_s2_nz by exact C0. cbn [seq].
  rewrite (exec_seq ce fuel s3). unfold s3. stepo. reflexivity.
Qed.

(* the added hypothesis is needed: with self.last_time an opaque object the run is Stuck (`x is None` on VOpaque is not modelled) *)
Definition clock0 (f : string) (args : list val) : res val := Ret (VFloat 0%float).
Lemma clock0_ok : clock_ok clock0 0%float.
Proof.
  split; [exists (VFloat 0%float); reflexivity|]. split; [intros a; reflexivity|]. split; [exact FIN_0|].
  rewrite RV_0, Rabs_R0. lra.
Qed.
Lemma opaque_last_stuck : run_fun clock0 0 monitor_call_def [VInt 5; VInt 10; VNone; VOpaque; VList []] = Stuck.
Proof. vm_compute. reflexivity. Qed.
Lemma opaque_last_stuck_zero : run_fun clock0 0 monitor_call_def [VInt 5; VInt 0; VNone; VOpaque; VList []] = Stuck.
Proof. vm_compute. reflexivity. Qed.


Print Assumptions monitor_returns.
Print Assumptions monitor_zero_total_raises.
