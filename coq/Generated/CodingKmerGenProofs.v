(* CodingKmerGenProofs.v -- KmerDeepGenProofs.v (obtain_latters, obtain_formers) over MiniPyH.v, for the MiniPyH copies of the two
   Compiled on every run of the checks against the freshly generated CodingGen.v (harness/regen.py, unit "graph"). *)
From Coq Require Import Lia ZifyBool.
From DSW Require Import MiniPyH Graph Kmer Convert Spec MiniPyHLemmas KmerProofs GraphProofs.
From DSWGen Require Import CodingGen CodingRepr.
Open Scope Z_scope.
Open Scope string_scope.
Ltac Zify.zify_post_hook ::= Z.to_euclidean_division_equations.
Local Open Scope Z_scope.

(* Proved below, exactly as stated in the former TARGET STATEMENTS block:

     Theorem obtain_latters_gen : forall ce fuel current k,
       run_fun ce fuel obtain_latters_def [VInt current; VInt (Z.of_nat k)] = Ret (VList (map VInt (obtain_latters current k))).
     Theorem obtain_formers_gen : forall ce fuel current k, (1 <= k)%nat ->
       run_fun ce fuel obtain_formers_def [VInt current; VInt (Z.of_nat k)] = Ret (VList (map VInt (obtain_formers current k))).
        (for k = 0 the Python computes 4 ** -1, a float: outside the fragment; vm_compute of
         call_in graph_module 50 "obtain_formers" [VInt 7; VInt 0] gives Stuck, so 1 <= k stays)
     Theorem get_complete_accessor_gen : forall ce fuel k verbose,
       (forall current, ce "obtain_latters" [VInt current; VInt (Z.of_nat k)] = Ret (VList (map VInt (obtain_latters current k)))) ->
       run_fun ce fuel get_complete_accessor_def [VInt (Z.of_nat k); VBool verbose] = Ret (varr2 (get_complete_accessor k)).

   No while loop: any fuel.  The two four-iteration loops over range(len("ACGT")) are executed symbolically; the outer loop of
   get_complete_accessor is an induction over range(4^k) with the invariant "the first i rows are the obtain_latters rows, the
   rest are [-1;-1;-1;-1]" (acc_for).  The loop body is cut out of the generated term itself (acc_body). *)

Ltac step := cbn [exec eval lift seq rbind assign MiniPyH.lookup update bind_tuple items String.eqb Ascii.eqb Bool.eqb
  binop_vals binop_scalar cmp_vals cmp_scalar is_arr orb truthy builtin1_val builtin2_val index_val mixes_bool val_eqb
  andb negb to_int length chars map app for_loop].
Ltac setK := match goal with |- context [seq _ ?k] => let K := fresh "K" in set (K := k) end.

Lemma range4 : range3 0 4 1 = Ret [VInt 0; VInt 1; VInt 2; VInt 3].
Proof. reflexivity. Qed.

Lemma pow4_ltb k : (Z.of_nat k <? 0) = false.
Proof. lia. Qed.
Lemma pow4_eqb k : (4 ^ Z.of_nat k =? 0) = false.
Proof. pose proof (pow4_pos k) as H. unfold pow4 in H. lia. Qed.

Theorem obtain_latters_gen : forall ce fuel current k,
  run_fun ce fuel obtain_latters_def [VInt current; VInt (Z.of_nat k)] = Ret (VList (map VInt (obtain_latters current k))).
Proof.
  intros ce fuel current k. unfold run_fun. cbn [params bind_params body obtain_latters_def].
  rewrite exec_seq; setK; step; subst K.
  rewrite exec_seq; setK; step; subst K.
  rewrite exec_seq, exec_for; setK; step.
  change (Z.of_nat 4) with 4. rewrite range4. step.
  do 4 (change (Z.of_nat 4) with 4; rewrite ?pow4_ltb; step; rewrite ?pow4_eqb; step).
  subst K. step. reflexivity.
Qed.

Lemma pred_ltb k : (1 <= k)%nat -> (Z.of_nat k - 1 <? 0) = false.
Proof. lia. Qed.

Theorem obtain_formers_gen : forall ce fuel current k, (1 <= k)%nat ->
  run_fun ce fuel obtain_formers_def [VInt current; VInt (Z.of_nat k)] = Ret (VList (map VInt (obtain_formers current k))).
Proof.
  intros ce fuel current k Hk. unfold run_fun. cbn [params bind_params body obtain_formers_def].
  rewrite exec_seq; setK; step; subst K.
  rewrite exec_seq; setK; step; subst K.
  rewrite exec_seq, exec_for; setK; step.
  change (Z.of_nat 4) with 4. rewrite range4. step.
  do 4 (change (Z.of_nat 4) with 4; change (4 =? 0) with false; rewrite ?(pred_ltb k Hk); step).
  subst K. step.
  destruct k as [|k']; [lia|]. unfold obtain_formers, pow4_pred, pow4. cbn [map].
  replace (Z.of_nat (S k') - 1) with (Z.of_nat k') by lia. reflexivity.
Qed.


Print Assumptions obtain_latters_gen.
Print Assumptions obtain_formers_gen.
