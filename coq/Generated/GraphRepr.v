(* GraphRepr.v -- how the data of the graph model (Graph.v, Kmer.v) appears as MiniPyG values, for the proofs about the
   regenerated graph functions (GraphGen.v). *)
From DSW Require Import MiniPyG Graph Kmer MiniPyGLemmas.
Open Scope Z_scope.
Open Scope string_scope.
Local Open Scope Z_scope.

(* a latter map: a dict from vertex to the list of its successors, in insertion order *)
Definition v_lmap (m : lmap) : val := VDict (map (fun kv => (VInt (fst kv), VList (map VInt (snd kv)))) m).
(* a vertex mask as an integer array, and as the boolean array find_vertices returns *)
Definition v_mask_int (mask : list Z) : val := VArr (map VInt mask).
Definition v_mask_bool (mask : list Z) : val := VArr (map (fun x => VBool (negb (x =? 0))) mask).
Definition v_opt (o : option Z) : val := match o with Some z => VInt z | None => VNone end.

Definition res_of_acc (r : result accessor) : res val :=
  match r with Ok a => Ret (varr2 a) | Raise e => Exn e | OutOfFuel => Fuel end.
Definition res_of_arr (r : result (list Z)) : res val :=
  match r with Ok l => Ret (varr l) | Raise e => Exn e | OutOfFuel => Fuel end.

(* rows of four entries *)
Definition rows4 (acc : accessor) : Prop := Forall (fun row => length row = 4%nat) acc.
