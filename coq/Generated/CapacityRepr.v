(* CapacityRepr.v -- how the data of the capacity model (Capacity.v, binary64) appears as MiniPyC values, what the theorems about the
   regenerated approximate_capacity (CapacityGen.v) assume of its EXTERNAL functions, and the shape of its result. *)
From Coq Require Import PrimFloat.
From DSW Require Import MiniPyC MiniPyCLemmas.
From DSW Require Capacity.
Open Scope Z_scope.
Open Scope string_scope.
Local Open Scope Z_scope.

Definition vfloats (l : list float) : val := VArr (map VFloat l).      (* a NumPy float array *)
Definition vflist (l : list float) : val := VList (map VFloat l).      (* a Python list of floats *)
(* the arrays numpy.random.random(size=(n,)) will return, in order: the hidden parameter "__rng__" *)
Definition v_stream (s : list (list float)) : val := VList (map vfloats s).

(* ASSUMPTION on the externals (libm, not modelled): 10 ** tolerance_level is SOME float tol, log2 is SOME function L on floats.
   The theorems hold for every tol and every L; harness/props/c17.py applies the real log2 to the model's estimates. *)
Definition externals_ok (ce : string -> list val -> res val) (tolz : Z) (tol : float) (L : float -> float) : Prop :=
  ce "__pow__" [VInt 10; VInt tolz] = Ret (VFloat tol) /\ forall x, ce "__log2__" [VFloat x] = Ret (VFloat (L x)).

(* log2(eigenvalue) if eigenvalue > 10 ** tolerance_level else 0.0 *)
Definition lg (tol : float) (L : float -> float) (ev : float) : float := if PrimFloat.ltb tol ev then L ev else 0%float.

(* the start vector of each repeat: all ones for the single-start mode, else the next array of the stream (the model takes |.|) *)
Definition starts_of (n : nat) (repeats : Z) (stream : list (list float)) : list (list float) :=
  if repeats =? 1 then [Capacity.ones n] else firstn (Z.to_nat repeats) stream.

(* what the source returns, from the model's result (None = the arc-less graph) *)
Definition capacity_result (tol : float) (L : float -> float) (repeats : Z) (process : bool)
           (r : option (list float * list (list float))) : val :=
  match r with
  | None =>
      if process then
        (if repeats =? 1 then VTuple [VFloat 0%float; VList [VFloat 0%float]]
         else VTuple [VFloat 0%float; VList (repeat (VList [VFloat 0%float]) (Z.to_nat repeats))])
      else VFloat 0%float
  | Some (res, recs) =>
      let med := VFloat (fmedianf (map (lg tol L) res)) in
      if process then
        (if repeats =? 1 then VTuple [med; vflist (map (lg tol L) (hd [] recs))]
         else VTuple [med; VList (map (fun r => vflist (map (lg tol L) r)) recs)])
      else med
  end.
