(* CodingKnotGenProofs.v -- ties the knot for the regenerated connect_coding_graph (to be filled in). *)
From DSW Require Import MiniPyH.
