(* CodingKnotGenProofs.v -- ties the knot for connect_coding_graph REGENERATED from the current source (CodingGen.coding_module =
   connect_coding_graph in front of MiniPyH copies of obtain_vertices, obtain_latters, obtain_formers; run by MiniPyH.call_in)
   and restates C03 (and the graph half of C04) for the source text.
   Compiled on every run of the checks against the freshly generated CodingGen.v (harness/regen.py, unit "coding"). *)
From Coq Require Import Lia ZifyBool.
From DSW Require Import MiniPyH Graph Kmer Convert Spec GraphSpec MiniPyHLemmas KmerProofs GraphProofs GenerateProofs GeneratedProofs.
From DSWGen Require Import CodingGen CodingRepr CodingKmerGenProofs CodingVerticesGenProofs CodingGraphGenProofs.
Open Scope Z_scope.
Open Scope string_scope.
Ltac Zify.zify_post_hook ::= Z.to_euclidean_division_equations.
Local Open Scope Z_scope.
Local Open Scope list_scope.
Notation lookup := MiniPyH.lookup.

(* running a function of the regenerated module *)
Definition py4 (fuel : nat) (f : string) (args : list val) : res val := call_in coding_module fuel f args.

(* STATUS: every target statement of the file is proved below with Qed, exactly as it was stated in the former TARGET STATEMENTS
   block (nothing is left in a comment):
     Part A  coding_callees, py4_connect_coding_graph_ok, py4_connect_coding_graph_raise
             (py4_connect_coding_graph_raise : forall fuel k mask t verbose e, <the hypotheses of _ok> ->
              Graph.connect_coding_graph k mask t = Raise e -> <fuel bound> -> py4 .. = Exn e);
     Part B  C03_source, C04_no_dead_end_source (with the model equation, as stated), and the two forms WITHOUT the model equation:
             C04_no_dead_end_source_t1  (threshold 1: the returned pair VTuple [varr V; varr2 acc] determines V and acc) and
             C04_no_dead_end_source_any (every threshold: the vertices are read off the returned accessor, vin k (live_set acc)).
   Why not the stated C04 clause without the model equation for every threshold: for t >= 2 the first component of the returned
   pair is a vertex MASK (coding_result), which does not determine a list V -- when the first trimming round changes nothing it
   is the argument itself and coding_result k mask t V acc does not depend on V at all, so "In v V -> .." would be false for an
   arbitrary V (e.g. V = [99]).  run_determines is the bridge: a run that returns coding_result k mask t V acc forces
   Graph.connect_coding_graph k mask t = Ok (V', acc) for some V' (and V' = V when t = 1).
   The no-dead-end fact of the model (coding_graph_no_dead_end of Proofs/CorollaryProofs.v, what Properties/C03.v / C04.v cite) is
   re-derived here as no_dead_end_model from generated_wf / gp_core (GeneratedProofs.v) and induced_on_closed_live
   (GenerateProofs.v), so that the file needs nothing outside the dependencies listed for the unit in harness/regen.py.
   coding_module = [connect_coding_graph; obtain_vertices; obtain_latters; obtain_formers]; call_in resolves a name and runs it
   with the REST of the list as callees (mod_after "<name>"). *)

(* ==== Part A: the knot ============================================================================================== *)
(* the callees of a function of the module: what follows it in the list *)
Fixpoint mod_after (f : string) (m : module) : module :=
  match m with
  | [] => []
  | (g, _) :: rest => if String.eqb f g then rest else mod_after f rest
  end.

Ltac knot := unfold py4, coding_module; cbn [call_in mod_after String.eqb Ascii.eqb Bool.eqb]; reflexivity.

Definition coding_tail : module :=
  [("obtain_vertices", obtain_vertices_def); ("obtain_latters", obtain_latters_def); ("obtain_formers", obtain_formers_def)].

Lemma mod_after_connect : mod_after "connect_coding_graph" coding_module = coding_tail.
Proof. reflexivity. Qed.

Lemma py4_connect_coding_graph_unfold fuel args :
  py4 fuel "connect_coding_graph" args = run_fun (call_in coding_tail fuel) fuel connect_coding_graph_def args.
Proof. unfold coding_tail. knot. Qed.

Lemma tail_obtain_vertices_unfold fuel args :
  call_in coding_tail fuel "obtain_vertices" args
  = run_fun (call_in (mod_after "obtain_vertices" coding_tail) fuel) fuel obtain_vertices_def args.
Proof. unfold coding_tail. cbn [call_in mod_after String.eqb Ascii.eqb Bool.eqb]. reflexivity. Qed.
Lemma tail_obtain_latters_unfold fuel args :
  call_in coding_tail fuel "obtain_latters" args
  = run_fun (call_in (mod_after "obtain_latters" coding_tail) fuel) fuel obtain_latters_def args.
Proof. unfold coding_tail. cbn [call_in mod_after String.eqb Ascii.eqb Bool.eqb]. reflexivity. Qed.
Lemma tail_obtain_formers_unfold fuel args :
  call_in coding_tail fuel "obtain_formers" args
  = run_fun (call_in (mod_after "obtain_formers" coding_tail) fuel) fuel obtain_formers_def args.
Proof. unfold coding_tail. cbn [call_in mod_after String.eqb Ascii.eqb Bool.eqb]. reflexivity. Qed.

Theorem coding_callees : forall fuel k, coding_callees_ok (call_in [("obtain_vertices", obtain_vertices_def);
     ("obtain_latters", obtain_latters_def); ("obtain_formers", obtain_formers_def)] fuel) k.
Proof.
  intros fuel k. fold coding_tail. unfold coding_callees_ok. split; [|split].
  - intro current. rewrite tail_obtain_latters_unfold. apply obtain_latters_gen.
  - intros current Hk. rewrite tail_obtain_formers_unfold. apply obtain_formers_gen. exact Hk.
  - intro acc. rewrite tail_obtain_vertices_unfold. apply obtain_vertices_gen_any.
Qed.

Theorem py4_connect_coding_graph_ok : forall fuel k mask t verbose V acc,
  (1 <= k)%nat -> Z.of_nat k < 400 -> length mask = Z.to_nat (pow4 k) -> Forall (fun x => 0 <= x <= 1) mask -> 1 <= t ->
  Graph.connect_coding_graph k mask t = Ok (V, acc) -> (4 * length mask + 8 <= fuel)%nat ->
  py4 fuel "connect_coding_graph" [VInt (Z.of_nat k); v_mask_int mask; VInt t; VBool verbose] = Ret (coding_result k mask t V acc).
Proof.
  intros fuel k mask t verbose V acc Hk1 Hk HL H01 Ht HM Hf. rewrite py4_connect_coding_graph_unfold.
  apply connect_coding_graph_gen_ok; try assumption. apply coding_callees.
Qed.

Theorem py4_connect_coding_graph_raise : forall fuel k mask t verbose e,
  (1 <= k)%nat -> Z.of_nat k < 400 -> length mask = Z.to_nat (pow4 k) -> Forall (fun x => 0 <= x <= 1) mask -> 1 <= t ->
  Graph.connect_coding_graph k mask t = Raise e -> (4 * length mask + 8 <= fuel)%nat ->
  py4 fuel "connect_coding_graph" [VInt (Z.of_nat k); v_mask_int mask; VInt t; VBool verbose] = Exn e.
Proof.
  intros fuel k mask t verbose e Hk1 Hk HL H01 Ht HM Hf. rewrite py4_connect_coding_graph_unfold.
  apply connect_coding_graph_gen_raise; try assumption. apply coding_callees.
Qed.

(* ==== Part B: C03 / C04 for the source text ========================================================================= *)
Lemma bit_01 mask : Forall bit mask -> Forall (fun x => 0 <= x <= 1) mask.
Proof. intro H. eapply Forall_impl; [|exact H]. intros x [-> | ->]; lia. Qed.

(* the model theorems for every threshold at once *)
Lemma coding_graph_all : forall k t mask, (1 <= k)%nat -> length mask = Z.to_nat (pow4 k) -> Forall bit mask -> 1 <= t ->
  match Graph.connect_coding_graph k mask t with
  | Ok (V, acc) => largest_closed k t (maskb mask) (live_set acc)
                   /\ acc = induced_on k (live_set acc) /\ legal k acc
                   /\ (forall v, In v V <-> vin k (live_set acc) v)
                   /\ (exists v, vin k (live_set acc) v)
  | Raise ValueError => forall Y, closed k t Y -> vsub k Y (maskb mask) -> vempty k Y
  | _ => False
  end.
Proof.
  intros k t mask Hk HL Hb Ht. destruct (Z.eq_dec t 1) as [E|N].
  - subst t. apply coding_graph_t1; assumption.
  - apply coding_graph_t2; try assumption. lia.
Qed.

Theorem C03_source : forall fuel k t mask verbose, (1 <= k)%nat -> Z.of_nat k < 400 -> length mask = Z.to_nat (pow4 k) ->
  Forall bit mask -> 1 <= t -> (4 * length mask + 8 <= fuel)%nat ->
  (exists V acc, py4 fuel "connect_coding_graph" [VInt (Z.of_nat k); v_mask_int mask; VInt t; VBool verbose]
                   = Ret (coding_result k mask t V acc)
       /\ largest_closed k t (maskb mask) (live_set acc) /\ acc = induced_on k (live_set acc) /\ legal k acc
       /\ (forall v, In v V <-> vin k (live_set acc) v) /\ (exists v, vin k (live_set acc) v))
  \/ (py4 fuel "connect_coding_graph" [VInt (Z.of_nat k); v_mask_int mask; VInt t; VBool verbose] = Exn ValueError
       /\ forall Y, closed k t Y -> vsub k Y (maskb mask) -> vempty k Y).
Proof.
  intros fuel k t mask verbose Hk1 Hk HL Hb Ht Hf.
  pose proof (coding_graph_all k t mask Hk1 HL Hb Ht) as HM.
  destruct (Graph.connect_coding_graph k mask t) as [[V acc]|e|] eqn:EM; [| |contradiction].
  - left. exists V, acc. split; [|exact HM].
    apply py4_connect_coding_graph_ok; try assumption. apply bit_01; exact Hb.
  - right. destruct e; try contradiction. split; [|exact HM].
    apply py4_connect_coding_graph_raise; try assumption. apply bit_01; exact Hb.
Qed.


(* no dead end (coding_graph_no_dead_end of Proofs/CorollaryProofs.v, re-derived here from GeneratedProofs / GenerateProofs) *)
Lemma no_dead_end_model : forall k t mask V acc, (1 <= k)%nat -> 1 <= t ->
  length mask = Z.to_nat (pow4 k) -> Forall bit mask -> Graph.connect_coding_graph k mask t = Ok (V, acc) ->
  forall v, In v V ->
    (exists j, 0 <= j < 4 /\ 0 <= entry acc v j) /\
    (forall j, 0 <= j < 4 -> 0 <= entry acc v j -> In (entry acc v j) V) /\
    (exists w, reach acc v w /\ branching acc w).
Proof.
  intros k t mask V acc Hk Ht Hl Hb Hc v Hin.
  destruct (generated_wf k t mask V acc v Hk Hl Hb Ht Hc Hin) as [_ [_ [_ [Hwf _]]]].
  destruct (gp_core k t mask V acc Hk Hl Hb Ht Hc) as [[[Hcd _] _] [Hacc [_ HV]]].
  destruct (Hwf v (reach_refl acc v)) as [_ [Hlive Hbr]].
  split; [exact Hlive|]. split; [|exact Hbr].
  intros j Hj He. apply HV.
  assert (Hv : vin k (live_set acc) v) by (apply HV; exact Hin).
  remember (live_set acc) as X eqn:EX.
  destruct (induced_on_closed_live k t X v Hk Ht Hcd Hv) as [_ [_ Harc]].
  rewrite Hacc in He |- *. apply Harc; assumption.
Qed.

Theorem C04_no_dead_end_source : forall fuel k t mask verbose V acc, (1 <= k)%nat -> Z.of_nat k < 400 ->
  length mask = Z.to_nat (pow4 k) -> Forall bit mask -> 1 <= t -> (4 * length mask + 8 <= fuel)%nat ->
  py4 fuel "connect_coding_graph" [VInt (Z.of_nat k); v_mask_int mask; VInt t; VBool verbose] = Ret (coding_result k mask t V acc) ->
  Graph.connect_coding_graph k mask t = Ok (V, acc) ->
  forall v, In v V ->
    (exists j, 0 <= j < 4 /\ 0 <= entry acc v j) /\
    (forall j, 0 <= j < 4 -> 0 <= entry acc v j -> In (entry acc v j) V) /\
    (exists w, reach acc v w /\ branching acc w).
Proof.
  intros fuel k t mask verbose V acc Hk1 Hk HL Hb Ht Hf _ HM. exact (no_dead_end_model k t mask V acc Hk1 Ht HL Hb HM).
Qed.

(* ---- the same WITHOUT the model equation: the returned value determines the accessor (every threshold) and, for threshold 1,
        the vertex list ---- *)
Lemma map_VInt_inj : forall l l' : list Z, map VInt l = map VInt l' -> l = l'.
Proof.
  induction l as [|x xs IH]; intros [|y ys] H; cbn [map] in H; try discriminate; [reflexivity|].
  injection H as Hx Hr. subst y. f_equal. apply IH; exact Hr.
Qed.
Lemma varr_inj : forall l l', varr l = varr l' -> l = l'.
Proof. unfold varr. intros l l' H. injection H as H. apply map_VInt_inj; exact H. Qed.
Lemma map_varr_inj : forall a a', map varr a = map varr a' -> a = a'.
Proof.
  induction a as [|x xs IH]; intros [|y ys] H; cbn [map] in H; try discriminate; [reflexivity|].
  injection H as Hx Hr. apply map_VInt_inj in Hx. subst y. f_equal. apply IH; exact Hr.
Qed.

(* what a run that returns tells about the model *)
Lemma run_determines : forall fuel k t mask verbose V acc, (1 <= k)%nat -> Z.of_nat k < 400 ->
  length mask = Z.to_nat (pow4 k) -> Forall bit mask -> 1 <= t -> (4 * length mask + 8 <= fuel)%nat ->
  py4 fuel "connect_coding_graph" [VInt (Z.of_nat k); v_mask_int mask; VInt t; VBool verbose] = Ret (coding_result k mask t V acc) ->
  exists V', Graph.connect_coding_graph k mask t = Ok (V', acc) /\ (t = 1 -> V' = V).
Proof.
  intros fuel k t mask verbose V acc Hk1 Hk HL Hb Ht Hf Hrun.
  pose proof (coding_graph_all k t mask Hk1 HL Hb Ht) as HM.
  destruct (Graph.connect_coding_graph k mask t) as [[V' acc']|e|] eqn:EM; [| |contradiction].
  - pose proof (py4_connect_coding_graph_ok fuel k mask t verbose V' acc' Hk1 Hk HL (bit_01 mask Hb) Ht EM Hf) as Hrun'.
    rewrite Hrun in Hrun'. injection Hrun' as H1 H2. apply map_varr_inj in H2. subst acc'.
    exists V'. split; [reflexivity|]. intro E. subst t. change (1 =? 1) with true in H1. cbv iota in H1.
    symmetry. apply varr_inj; exact H1.
  - pose proof (py4_connect_coding_graph_raise fuel k mask t verbose e Hk1 Hk HL (bit_01 mask Hb) Ht EM Hf) as Hrun'.
    rewrite Hrun in Hrun'. discriminate.
Qed.

(* threshold 1: the statement of C04_no_dead_end_source without the model equation *)
Theorem C04_no_dead_end_source_t1 : forall fuel k mask verbose V acc, (1 <= k)%nat -> Z.of_nat k < 400 ->
  length mask = Z.to_nat (pow4 k) -> Forall bit mask -> (4 * length mask + 8 <= fuel)%nat ->
  py4 fuel "connect_coding_graph" [VInt (Z.of_nat k); v_mask_int mask; VInt 1; VBool verbose] = Ret (VTuple [varr V; varr2 acc]) ->
  forall v, In v V ->
    (exists j, 0 <= j < 4 /\ 0 <= entry acc v j) /\
    (forall j, 0 <= j < 4 -> 0 <= entry acc v j -> In (entry acc v j) V) /\
    (exists w, reach acc v w /\ branching acc w).
Proof.
  intros fuel k mask verbose V acc Hk1 Hk HL Hb Hf Hrun.
  destruct (run_determines fuel k 1 mask verbose V acc Hk1 Hk HL Hb ltac:(lia) Hf Hrun) as (V' & EM & HV).
  rewrite (HV eq_refl) in EM. exact (no_dead_end_model k 1 mask V acc Hk1 ltac:(lia) HL Hb EM).
Qed.

(* every threshold: the vertices are read off the returned accessor (its listed rows) instead of the first component, which for
   thresholds >= 2 is a vertex mask -- possibly the argument itself -- and does not determine a list V *)
Theorem C04_no_dead_end_source_any : forall fuel k t mask verbose V acc, (1 <= k)%nat -> Z.of_nat k < 400 ->
  length mask = Z.to_nat (pow4 k) -> Forall bit mask -> 1 <= t -> (4 * length mask + 8 <= fuel)%nat ->
  py4 fuel "connect_coding_graph" [VInt (Z.of_nat k); v_mask_int mask; VInt t; VBool verbose] = Ret (coding_result k mask t V acc) ->
  forall v, vin k (live_set acc) v ->
    (exists j, 0 <= j < 4 /\ 0 <= entry acc v j) /\
    (forall j, 0 <= j < 4 -> 0 <= entry acc v j -> vin k (live_set acc) (entry acc v j)) /\
    (exists w, reach acc v w /\ branching acc w).
Proof.
  intros fuel k t mask verbose V acc Hk1 Hk HL Hb Ht Hf Hrun v Hv.
  destruct (run_determines fuel k t mask verbose V acc Hk1 Hk HL Hb Ht Hf Hrun) as (V' & EM & _).
  destruct (gp_core k t mask V' acc Hk1 HL Hb Ht EM) as [_ [_ [_ HV]]].
  destruct (no_dead_end_model k t mask V' acc Hk1 Ht HL Hb EM v (proj2 (HV v) Hv)) as (H1 & H2 & H3).
  split; [exact H1|]. split; [|exact H3]. intros j Hj He. apply HV. apply H2; assumption.
Qed.

(* ---- non-vacuity: order-2 masks -- threshold 1 with a removed information-free cycle (TT of {AA, AC, CA, CC, TT}), threshold 2,
        and the all-zero mask (ValueError) ---- *)
Example coding_knot_nonvacuous :
  py4 100 "connect_coding_graph" [VInt 2; v_mask_int [1;1;0;0;1;1;0;0;0;0;0;0;0;0;0;1]; VInt 1; VBool false]
    = Ret (VTuple [varr [0;1;4;5];
                   varr2 [[0;1;-1;-1];[4;5;-1;-1];[-1;-1;-1;-1];[-1;-1;-1;-1];[0;1;-1;-1];[4;5;-1;-1];[-1;-1;-1;-1];[-1;-1;-1;-1];
                          [-1;-1;-1;-1];[-1;-1;-1;-1];[-1;-1;-1;-1];[-1;-1;-1;-1];[-1;-1;-1;-1];[-1;-1;-1;-1];[-1;-1;-1;-1];[-1;-1;-1;-1]]])
  /\ Graph.connect_coding_graph 2 [1;1;0;0;1;1;0;0;0;0;0;0;0;0;0;1] 1
     = Ok ([0;1;4;5], [[0;1;-1;-1];[4;5;-1;-1];[-1;-1;-1;-1];[-1;-1;-1;-1];[0;1;-1;-1];[4;5;-1;-1];[-1;-1;-1;-1];[-1;-1;-1;-1];
                          [-1;-1;-1;-1];[-1;-1;-1;-1];[-1;-1;-1;-1];[-1;-1;-1;-1];[-1;-1;-1;-1];[-1;-1;-1;-1];[-1;-1;-1;-1];[-1;-1;-1;-1]])
  (* threshold 2, the first trimming round removes TT: the first component is the boolean mask of the last round *)
  /\ (match Graph.connect_coding_graph 2 [1;1;0;0;1;1;0;0;0;0;0;0;0;0;0;1] 2 with
      | Ok (V, acc) => V = [0;1;4;5] /\
          py4 100 "connect_coding_graph" [VInt 2; v_mask_int [1;1;0;0;1;1;0;0;0;0;0;0;0;0;0;1]; VInt 2; VBool true]
          = Ret (coding_result 2 [1;1;0;0;1;1;0;0;0;0;0;0;0;0;0;1] 2 V acc)
          /\ coding_result 2 [1;1;0;0;1;1;0;0;0;0;0;0;0;0;0;1] 2 V acc
             = VTuple [VArr (map VBool [true;true;false;false;true;true;false;false;false;false;false;false;false;false;false;false]);
                       varr2 acc]
      | _ => False
      end)
  (* threshold 2, nothing to trim: the first component is the argument itself (an integer array) *)
  /\ (match Graph.connect_coding_graph 2 [0;1;1;0;1;0;0;1;1;0;0;1;0;1;1;0] 2 with
      | Ok (V, acc) => V = [1;2;4;7;8;11;13;14] /\
          py4 100 "connect_coding_graph" [VInt 2; v_mask_int [0;1;1;0;1;0;0;1;1;0;0;1;0;1;1;0]; VInt 2; VBool true]
          = Ret (coding_result 2 [0;1;1;0;1;0;0;1;1;0;0;1;0;1;1;0] 2 V acc)
          /\ coding_result 2 [0;1;1;0;1;0;0;1;1;0;0;1;0;1;1;0] 2 V acc
             = VTuple [v_mask_int [0;1;1;0;1;0;0;1;1;0;0;1;0;1;1;0]; varr2 acc]
      | _ => False
      end)
  /\ py4 100 "connect_coding_graph" [VInt 2; v_mask_int (repeat 0 16); VInt 1; VBool false] = Exn ValueError
  /\ Graph.connect_coding_graph 2 (repeat 0 16) 1 = Raise ValueError.
Proof. vm_compute. repeat split; reflexivity. Qed.

(* the counterexample to the stated C04 clause without the model equation at threshold 2: the run returns
   coding_result k mask 2 [99] acc as well (the mask is returned unchanged, V is not looked at), and 99 is not a vertex *)
Example coding_result_ignores_V :
  let mask := [0;1;1;0;1;0;0;1;1;0;0;1;0;1;1;0] in
  match Graph.connect_coding_graph 2 mask 2 with
  | Ok (V, acc) => py4 100 "connect_coding_graph" [VInt 2; v_mask_int mask; VInt 2; VBool false] = Ret (coding_result 2 mask 2 [99] acc)
                   /\ entry acc 99 0 = -1 /\ entry acc 99 1 = -1 /\ entry acc 99 2 = -1 /\ entry acc 99 3 = -1
  | _ => False
  end.
Proof. vm_compute. repeat split; reflexivity. Qed.

Print Assumptions coding_callees.
Print Assumptions py4_connect_coding_graph_ok.
Print Assumptions py4_connect_coding_graph_raise.
Print Assumptions C03_source.
Print Assumptions C04_no_dead_end_source.
Print Assumptions C04_no_dead_end_source_t1.
Print Assumptions C04_no_dead_end_source_any.
