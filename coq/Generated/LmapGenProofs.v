(* LmapGenProofs.v -- the regenerated remove_useless / latter_map_to_accessor (dsw/graphized.py) compute Graph.v's functions.
   Compiled on every run of the checks against the freshly generated GraphGen.v (harness/regen.py, unit "graph"). *)
From Coq Require Import Lia ZifyBool.
From DSW Require Import MiniPyG Graph Kmer Convert Spec MiniPyGLemmas KmerProofs GraphProofs.
From DSWGen Require Import GraphGen GraphRepr.
Open Scope Z_scope.
Open Scope string_scope.
Ltac Zify.zify_post_hook ::= Z.to_euclidean_division_equations.
Local Open Scope Z_scope.

(* TARGET STATEMENTS: remove_useless_gen and latter_map_to_accessor_gen, both proved below exactly as stated.

   Notes: remove_useless is `while True: ... if not remove_flag: break` = SWhileB with SBreak (exec_while_b, while_loop_b,
   loop_seq in MiniPyGLemmas): one iteration = Graph.useless_round (round_ok); the model's fuel S (lmap_size m) bounds the
   rounds (while_ok: induction on the model's fuel).  The print(..) statements are SSkip.  Inside a round: two passes over
   enumerate(latter_map.items()) with the nested target (TPair); `former_vertex not in remove_vertices` /
   `latter_vertex in saved_vertices` are list membership (mem_val on VInt = memZ: cmp_in, cmp_notin); new_latter_map is built
   by dict stores with fresh keys in the same order (store_dict_fresh; NoDup keys; the new map keeps NoDup keys).
   latter_map_to_accessor: `-ones(shape=(4 ** k, 4))` = varr2 (blank_accessor k) (blank_rows);
   `accessor[former, latter % 4] = latter` is TIndex2 = put_arc (store2_put_arc: IndexError for a former outside, negative
   wraps; the column latter mod 4 is in range because every row keeps four entries); `if len(latter_map) > 0` only skips an
   empty loop.  Graph.latter_map_to_accessor may Raise IndexError: res_of_acc covers it.  The model's remove_useless never
   returns OutOfFuel (remove_useless_total, from round_decrease), put_map never does (put_map_nofuel).
   Environments are abstract (variables first bound inside a loop land at data-dependent positions): every lemma speaks
   through [lookup], and [frame vars en en'] says what a loop leaves untouched. *)

(* Graph.v has its own [lookup] (of a latter map): here [lookup] is the environment lookup of MiniPyG *)
Import MiniPyG.

(* ---- tactics ------------------------------------------------------------------------------------------------------ *)
Ltac lk := repeat (rewrite lookup_update_same || (rewrite lookup_update_other by discriminate)).

(* ---- frames: what a piece of program leaves untouched --------------------------------------------------------------- *)
Definition frame (vars : list string) (en en' : env) : Prop :=
  forall x, ~ In x vars -> lookup x en' = lookup x en.

Ltac frame_solve :=
  let x := fresh "x" in let Hx := fresh "Hx" in
  intros x Hx;
  repeat first
    [ rewrite lookup_update_other by (let E := fresh "E" in intro E; apply Hx; rewrite E; cbn [In]; auto 20)
    | match goal with
      | H : frame _ _ ?e |- context [lookup x ?e] =>
          rewrite (H x) by (let Hin := fresh "Hin" in intro Hin; apply Hx; cbn [In] in Hin |- *; intuition auto 20)
      end ];
  reflexivity.

Ltac fr H := repeat (rewrite H by (cbn [In]; intuition discriminate)).


(* ---- values ----------------------------------------------------------------------------------------------------- *)
(* one item of latter_map.items() *)
Definition itemv (kv : Z * list Z) : val := VTuple [VInt (fst kv); vints (snd kv)].

Lemma items_lmap m : builtin1_val BItems (v_lmap m) = Ret (VList (map itemv m)).
Proof. unfold v_lmap. cbn [builtin1_val]. rewrite map_map. reflexivity. Qed.

Lemma len_lmap m : builtin1_val BLen (v_lmap m) = Ret (VInt (Z.of_nat (length m))).
Proof. unfold v_lmap. cbn [builtin1_val]. rewrite map_length. reflexivity. Qed.

Lemma forallb_intstr l : forallb (fun y => match y with VInt _ | VStr _ => true | _ => false end) (map VInt l) = true.
Proof. induction l as [|x xs IH]; [reflexivity|exact IH]. Qed.

Lemma mem_val_int k l : mem_val (VInt k) (map VInt l) = memZ k l.
Proof. induction l as [|x xs IH]; [reflexivity|]. cbn [map mem_val memZ val_eqb]. rewrite IH. reflexivity. Qed.

Lemma cmp_in k l : cmp_vals CIn (VInt k) (vints l) = Ret (VBool (memZ k l)).
Proof.
  unfold vints, cmp_vals, cmp_scalar. cbn [mixes_bool is_arr orb]. rewrite forallb_intstr, mem_val_int.
  destruct (memZ k l); reflexivity.
Qed.

Lemma cmp_notin k l : cmp_vals CNotIn (VInt k) (vints l) = Ret (VBool (negb (memZ k l))).
Proof.
  unfold vints, cmp_vals, cmp_scalar. cbn [mixes_bool is_arr orb]. rewrite forallb_intstr, mem_val_int.
  destruct (memZ k l); reflexivity.
Qed.

Lemma store_dict_fresh nm k ls : ~ In k (keys nm) ->
  store_val (v_lmap nm) (VInt k) (vints ls) = Ret (v_lmap (nm ++ [(k, ls)])).
Proof.
  intro H. unfold v_lmap, store_val. cbn [key_ok]. do 2 f_equal.
  induction nm as [|[k' ls'] nm IH]; [reflexivity|].
  cbn [map app fst snd val_eqb]. cbn [keys map fst In] in H.
  destruct (k =? k') eqn:E; [exfalso; apply H; left; lia|].
  f_equal. apply IH. intro Hin. apply H. right. exact Hin.
Qed.

Lemma NoDup_keys_filter (p : Z * list Z -> bool) (m : lmap) : NoDup (keys m) -> NoDup (keys (filter p m)).
Proof.
  unfold keys. induction m as [|kv m IH]; intro H; cbn [filter map]; [constructor|].
  cbn [map] in H. inversion H as [|? ? Hn Hd]; subst.
  destruct (p kv); [|apply IH, Hd]. cbn [map]. constructor; [|apply IH, Hd].
  intro Hin. apply Hn. apply in_map_iff in Hin. destruct Hin as [x [Hx Hf]]. apply filter_In in Hf.
  apply in_map_iff. exists x. split; [exact Hx|apply Hf].
Qed.

Section RemoveUseless.
  Variable ce : string -> list val -> res val.
  Variable fuel : nat.

  Lemma exec_assign t e en : exec ce fuel (SAssign t e) en = lift (eval ce en e) (fun v => assign ce t v en).
  Proof. reflexivity. Qed.
  Lemma exec_skip en : exec ce fuel SSkip en = ONormal en.
  Proof. reflexivity. Qed.
  Lemma exec_return e en : exec ce fuel (SReturn e) en = lift (eval ce en e) OReturn.
  Proof. reflexivity. Qed.
  Lemma exec_append x e en : exec ce fuel (SAppend x e) en =
    lift (lookup x en) (fun a => lift (eval ce en e) (fun v =>
      match a with VList l => ONormal (update x (VList (l ++ [v])) en) | _ => OStuck end)).
  Proof. reflexivity. Qed.

  Ltac ev := cbn [eval lift seq rbind assign items bind_tuple builtin1_val builtin2_val binop_vals binop_scalar cmp_vals cmp_scalar
                  is_arr orb truthy mixes_bool negb fst snd].

  (* monitor(current + 1, total, extra={"round": round_number}) under `if verbose` *)
  Definition monitor_call : stmt :=
    (SIf (EVar "verbose"%string)
     (SExpr (ETuple [(EBin Add (EVar "current"%string) (EInt (1))); (EVar "total"%string); (EDict [((EStr [114; 111; 117; 110; 100]), (EVar "round_number"%string))])]))
     SSkip).

  Lemma monitor_ok en vb i vt vr :
    lookup "verbose" en = Ret (VBool vb) -> lookup "current" en = Ret (VInt i) ->
    lookup "total" en = Ret vt -> lookup "round_number" en = Ret vr ->
    exec ce fuel monitor_call en = ONormal en.
  Proof.
    intros HV HC HT HR. unfold monitor_call. cbn [exec eval]. rewrite HV. ev.
    destruct vb; [|reflexivity]. cbn [exec eval]. rewrite HC, HT, HR. ev. cbn [forallb key_ok fst andb]. reflexivity.
  Qed.

  (* ---- first pass: classify the keys ------------------------------------------------------------------------------- *)
  Definition pass1_body : stmt :=
    (SSeq (SIf (ECmp CLt (EB1 BLen (EVar "latter_vertices"%string)) (EVar "threshold"%string))
     (SAppend "remove_vertices"%string (EVar "former_vertex"%string))
     (SAppend "saved_vertices"%string (EVar "former_vertex"%string)))
     monitor_call).

  Definition small (t : Z) (kv : Z * list Z) : bool := Z.of_nat (length (snd kv)) <? t.

  Lemma pass1_loop t vb vt vr : forall l i rem sav en,
    lookup "remove_vertices" en = Ret (vints rem) -> lookup "saved_vertices" en = Ret (vints sav) ->
    lookup "threshold" en = Ret (VInt t) -> lookup "verbose" en = Ret (VBool vb) ->
    lookup "total" en = Ret vt -> lookup "round_number" en = Ret vr ->
    exists en', for_loop ce fuel (TPair "current" ["former_vertex"; "latter_vertices"]) pass1_body
                  (enumerate_from i (map itemv l)) en = ONormal en'
      /\ lookup "remove_vertices" en' = Ret (vints (rem ++ keys (filter (small t) l)))
      /\ lookup "saved_vertices" en' = Ret (vints (sav ++ keys (filter (fun kv => negb (small t kv)) l)))
      /\ frame ["current"; "former_vertex"; "latter_vertices"; "remove_vertices"; "saved_vertices"] en en'.
  Proof.
    induction l as [|[k ls] l IH]; intros i rem sav en HR HS HT HV HTot HRn.
    - exists en. cbn [map enumerate_from for_loop filter keys]. rewrite !app_nil_r.
      split; [reflexivity|split; [exact HR|split; [exact HS|intros x _; reflexivity]]].
    - cbn [map enumerate_from for_loop]. unfold itemv at 1. cbn [assign items lift bind_tuple seq fst snd].
      unfold pass1_body at 1. rewrite exec_seq, exec_if. cbn [eval]. lk. rewrite HT. unfold vints at 1. ev.
      rewrite map_length. cbn [filter]. change (small t (k, ls)) with (Z.of_nat (length ls) <? t).
      destruct (Z.of_nat (length ls) <? t) eqn:E; cbn [negb]; rewrite exec_append; cbn [eval]; lk.
      + rewrite HR. unfold vints at 1. ev.
        rewrite (monitor_ok _ vb i vt vr) by (lk; first [assumption|reflexivity]). cbn [seq].
        destruct (IH (i + 1) (rem ++ [k]) sav
                    (update "remove_vertices" (VList (map VInt rem ++ [VInt k]))
                       (update "latter_vertices" (VList (map VInt ls)) (update "former_vertex" (VInt k) (update "current" (VInt i) en)))))
          as (en' & EL & HR' & HS' & HF); try (lk; assumption).
        { lk. unfold vints. rewrite map_app. reflexivity. }
        exists en'. split; [exact EL|]. cbn [keys map fst] in *. rewrite <- app_assoc in HR'. cbn [app] in HR'.
        split; [exact HR'|split; [exact HS'|frame_solve]].
      + rewrite HS. unfold vints at 1. ev.
        rewrite (monitor_ok _ vb i vt vr) by (lk; first [assumption|reflexivity]). cbn [seq].
        destruct (IH (i + 1) rem (sav ++ [k])
                    (update "saved_vertices" (VList (map VInt sav ++ [VInt k]))
                       (update "latter_vertices" (VList (map VInt ls)) (update "former_vertex" (VInt k) (update "current" (VInt i) en)))))
          as (en' & EL & HR' & HS' & HF); try (lk; assumption).
        { lk. unfold vints. rewrite map_app. reflexivity. }
        exists en'. split; [exact EL|]. cbn [keys map fst] in *. rewrite <- app_assoc in HS'. cbn [app] in HS'.
        split; [exact HR'|split; [exact HS'|frame_solve]].
  Qed.

  (* ---- second pass: the inner loop over the successors of a kept key -------------------------------------------------- *)
  Definition okf (rem sav : list Z) (l : Z) : bool := negb (memZ l rem) && memZ l sav.

  Definition inner_body : stmt :=
    (SIf (EAnd (ECmp CNotIn (EVar "latter_vertex"%string) (EVar "remove_vertices"%string)) (ECmp CIn (EVar "latter_vertex"%string) (EVar "saved_vertices"%string)))
     (SAppend "available_latter_vertices"%string (EVar "latter_vertex"%string))
     (SAssign (TVar "remove_flag"%string) (EBoolLit true))).

  Lemma inner_loop rem sav : forall ls avail flag en,
    lookup "remove_vertices" en = Ret (vints rem) -> lookup "saved_vertices" en = Ret (vints sav) ->
    lookup "available_latter_vertices" en = Ret (vints avail) -> lookup "remove_flag" en = Ret (VBool flag) ->
    exists en', for_loop ce fuel (TVar "latter_vertex") inner_body (map VInt ls) en = ONormal en'
      /\ lookup "available_latter_vertices" en' = Ret (vints (avail ++ filter (okf rem sav) ls))
      /\ lookup "remove_flag" en' = Ret (VBool (flag || existsb (fun l => negb (okf rem sav l)) ls))
      /\ frame ["latter_vertex"; "available_latter_vertices"; "remove_flag"] en en'.
  Proof.
    induction ls as [|x ls IH]; intros avail flag en HR HS HA HF.
    - exists en. cbn [map for_loop filter existsb]. rewrite app_nil_r, orb_false_r.
      split; [reflexivity|split; [exact HA|split; [exact HF|intros y _; reflexivity]]].
    - cbn [map for_loop assign seq]. unfold inner_body at 1. rewrite exec_if. cbn [eval]. lk. rewrite HR, HS.
      cbn [rbind]. rewrite cmp_notin, cmp_in. cbn [rbind truthy filter existsb]. change (okf rem sav x) with (negb (memZ x rem) && memZ x sav).
      destruct (memZ x rem) eqn:E1; cbn [negb andb orb rbind lift truthy].
      + (* x is a removed vertex: flag *)
        rewrite exec_assign. cbn [eval lift assign].
        destruct (IH avail true (update "remove_flag" (VBool true) (update "latter_vertex" (VInt x) en)))
          as (en' & EL & HA' & HF' & HFr); try (lk; first [assumption|reflexivity]).
        exists en'. split; [exact EL|]. rewrite orb_true_r. cbn [orb] in HF'.
        split; [exact HA'|split; [exact HF'|frame_solve]].
      + destruct (memZ x sav) eqn:E2; cbn [negb andb orb rbind lift truthy].
        * rewrite exec_append. lk. rewrite HA. cbn [eval]. lk. unfold vints at 1. cbn [lift].
          destruct (IH (avail ++ [x]) flag
                      (update "available_latter_vertices" (VList (map VInt avail ++ [VInt x])) (update "latter_vertex" (VInt x) en)))
            as (en' & EL & HA' & HF' & HFr); try (lk; first [assumption|reflexivity]).
          { lk. unfold vints. rewrite map_app. reflexivity. }
          exists en'. split; [exact EL|]. rewrite <- app_assoc in HA'. cbn [app] in HA'. cbn [orb].
          split; [exact HA'|split; [exact HF'|frame_solve]].
        * rewrite exec_assign. cbn [eval lift assign].
          destruct (IH avail true (update "remove_flag" (VBool true) (update "latter_vertex" (VInt x) en)))
            as (en' & EL & HA' & HF' & HFr); try (lk; first [assumption|reflexivity]).
          exists en'. split; [exact EL|]. rewrite orb_true_r. cbn [orb] in HF'.
          split; [exact HA'|split; [exact HF'|frame_solve]].
  Qed.

  (* ---- second pass: the new map ------------------------------------------------------------------------------------ *)
  Definition pass2_body : stmt :=
    (SSeq (SIf (ECmp CNotIn (EVar "former_vertex"%string) (EVar "remove_vertices"%string))
     (SSeq (SAssign (TVar "available_latter_vertices"%string) (EList []))
     (SSeq (SFor (TVar "latter_vertex"%string) (EVar "latter_vertices"%string) inner_body)
     (SAssign (TIndex "new_latter_map"%string (EVar "former_vertex"%string)) (EVar "available_latter_vertices"%string))))
     SSkip)
     monitor_call).

  Definition keepf (rem : list Z) (kv : Z * list Z) : bool := negb (memZ (fst kv) rem).
  Definition trimf (rem sav : list Z) (kv : Z * list Z) : Z * list Z := (fst kv, filter (okf rem sav) (snd kv)).
  Definition flagf (rem sav : list Z) (kv : Z * list Z) : bool := existsb (fun l => negb (okf rem sav l)) (snd kv).

  Lemma pass2_loop rem sav vb vt vr : forall l i nm flag en,
    NoDup (keys nm ++ keys l) ->
    lookup "remove_vertices" en = Ret (vints rem) -> lookup "saved_vertices" en = Ret (vints sav) ->
    lookup "verbose" en = Ret (VBool vb) -> lookup "total" en = Ret vt -> lookup "round_number" en = Ret vr ->
    lookup "new_latter_map" en = Ret (v_lmap nm) -> lookup "remove_flag" en = Ret (VBool flag) ->
    exists en', for_loop ce fuel (TPair "current" ["former_vertex"; "latter_vertices"]) pass2_body
                  (enumerate_from i (map itemv l)) en = ONormal en'
      /\ lookup "new_latter_map" en' = Ret (v_lmap (nm ++ map (trimf rem sav) (filter (keepf rem) l)))
      /\ lookup "remove_flag" en' = Ret (VBool (flag || existsb (flagf rem sav) (filter (keepf rem) l)))
      /\ frame ["current"; "former_vertex"; "latter_vertices"; "available_latter_vertices"; "latter_vertex";
                "new_latter_map"; "remove_flag"] en en'.
  Proof.
    induction l as [|[k ls] l IH]; intros i nm flag en HN HR HS HV HTot HRn HM HF.
    - exists en. cbn [map enumerate_from for_loop filter existsb]. rewrite app_nil_r, orb_false_r.
      split; [reflexivity|split; [exact HM|split; [exact HF|intros y _; reflexivity]]].
    - cbn [map enumerate_from for_loop]. unfold itemv at 1. cbn [assign items lift bind_tuple seq fst snd].
      unfold pass2_body at 1. rewrite exec_seq, exec_if. cbn [eval]. lk. rewrite HR. cbn [rbind]. rewrite cmp_notin.
      cbn [rbind lift truthy filter]. change (keepf rem (k, ls)) with (negb (memZ k rem)).
      cbn [keys map fst] in HN.
      destruct (memZ k rem) eqn:E; cbn [negb].
      + (* a removed key: skipped *)
        cbn [exec seq]. rewrite (monitor_ok _ vb i vt vr) by (lk; first [assumption|reflexivity]). cbn [seq].
        destruct (IH (i + 1) nm flag
                    (update "latter_vertices" (vints ls) (update "former_vertex" (VInt k) (update "current" (VInt i) en))))
          as (en' & EL & HM' & HF' & HFr); try (lk; first [assumption|reflexivity]).
        { apply NoDup_remove_1 in HN. exact HN. }
        exists en'. split; [exact EL|split; [exact HM'|split; [exact HF'|frame_solve]]].
      + rewrite exec_seq, exec_assign. cbn [eval rbind lift assign seq].
        rewrite exec_seq, exec_for. cbn [eval]. lk. unfold vints at 1. cbn [lift items].
        destruct (inner_loop rem sav ls [] flag
                    (update "available_latter_vertices" (VList [])
                       (update "latter_vertices" (vints ls) (update "former_vertex" (VInt k) (update "current" (VInt i) en)))))
          as (en1 & E1 & HA1 & HF1 & HFr1); try (lk; first [assumption|reflexivity]).
        rewrite E1. cbn [seq app orb] in *. rewrite exec_assign. cbn [eval]. rewrite HA1. cbn [lift assign eval].
        fr HFr1. lk. cbn [lift]. fr HFr1. lk. rewrite HM. cbn [lift].
        rewrite store_dict_fresh by (apply NoDup_remove_2 in HN; intro Hin; apply HN; apply in_or_app; left; exact Hin).
        cbn [lift seq].
        rewrite (monitor_ok _ vb i vt vr) by (lk; fr HFr1; lk; first [assumption|reflexivity]). cbn [seq].
        match goal with |- context [for_loop _ _ _ _ _ ?E] => set (en2 := E) end.
        destruct (IH (i + 1) (nm ++ [(k, filter (okf rem sav) ls)]) (flag || existsb (fun l => negb (okf rem sav l)) ls) en2)
          as (en' & EL & HM' & HF' & HFr);
            try (unfold en2; lk; try (fr HFr1; lk); first [assumption|reflexivity]).
        { unfold keys in *. rewrite map_app, <- app_assoc. exact HN. }
        exists en'. split; [exact EL|]. rewrite <- app_assoc in HM'. cbn [map app existsb].
        change (trimf rem sav (k, ls)) with (k, filter (okf rem sav) ls).
        change (flagf rem sav (k, ls)) with (existsb (fun l => negb (okf rem sav l)) ls).
        rewrite orb_assoc.
        split; [exact HM'|split; [exact HF'|unfold en2 in HFr; frame_solve]].
  Qed.

  (* ---- one round of the while loop = Graph.useless_round ------------------------------------------------------------- *)
  Definition round_body : stmt :=
    (SSeq (SIf (EVar "verbose"%string) SSkip SSkip)
    (SSeq (SAssign (TTuple ["remove_vertices"%string; "saved_vertices"%string; "total"%string]) (ETuple [(EList []); (EList []); (EB1 BLen (EVar "latter_map"%string))]))
    (SSeq (SFor (TPair "current"%string ["former_vertex"%string; "latter_vertices"%string]) (EB1 BEnumerate (EB1 BItems (EVar "latter_map"%string))) pass1_body)
    (SSeq (SIf (EVar "verbose"%string) SSkip SSkip)
    (SSeq (SAssign (TTuple ["new_latter_map"%string; "remove_flag"%string]) (ETuple [(EDict []); (EBoolLit false)]))
    (SSeq (SFor (TPair "current"%string ["former_vertex"%string; "latter_vertices"%string]) (EB1 BEnumerate (EB1 BItems (EVar "latter_map"%string))) pass2_body)
    (SSeq (SAssign (TVar "latter_map"%string) (EVar "new_latter_map"%string))
    (SSeq (SAug (TVar "round_number"%string) Add (EInt (1)))
    (SIf (ENot (EVar "remove_flag"%string)) SBreak SSkip))))))))).

  Lemma if_same (b : bool) (o : outcome) : (if b then o else o) = o.
  Proof. destruct b; reflexivity. Qed.

  Lemma round_ok m t vb rn en : NoDup (keys m) ->
    lookup "latter_map" en = Ret (v_lmap m) -> lookup "threshold" en = Ret (VInt t) ->
    lookup "verbose" en = Ret (VBool vb) -> lookup "round_number" en = Ret (VInt rn) ->
    exists en', exec ce fuel round_body en = (if snd (useless_round m t) then ONormal en' else OBreak en')
      /\ lookup "latter_map" en' = Ret (v_lmap (fst (useless_round m t))) /\ lookup "threshold" en' = Ret (VInt t)
      /\ lookup "verbose" en' = Ret (VBool vb) /\ lookup "round_number" en' = Ret (VInt (rn + 1)).
  Proof.
    intros HN HM HT HV HRn. unfold round_body.
    rewrite exec_seq, exec_if. cbn [eval]. rewrite HV. cbn [lift truthy]. rewrite if_same, exec_skip. cbn [seq].
    rewrite exec_seq, exec_assign. cbn [eval]. rewrite HM. cbn [rbind]. rewrite len_lmap. cbn [rbind lift assign items bind_tuple seq].
    rewrite exec_seq, exec_for. cbn [eval]. lk. rewrite HM. cbn [rbind]. rewrite items_lmap. cbn [rbind builtin1_val items lift].
    match goal with |- context [for_loop _ _ _ _ _ ?E] => set (en1 := E) end.
    destruct (pass1_loop t vb (VInt (Z.of_nat (length m))) (VInt rn) m 0 [] [] en1)
      as (en2 & E2 & HR2 & HS2 & HF2); try (unfold en1; lk; first [assumption|reflexivity]).
    rewrite E2. cbn [seq app] in *.
    assert (HM2 : lookup "latter_map" en2 = Ret (v_lmap m)) by (fr HF2; unfold en1; lk; exact HM).
    assert (HT2 : lookup "threshold" en2 = Ret (VInt t)) by (fr HF2; unfold en1; lk; exact HT).
    assert (HV2 : lookup "verbose" en2 = Ret (VBool vb)) by (fr HF2; unfold en1; lk; exact HV).
    assert (HRn2 : lookup "round_number" en2 = Ret (VInt rn)) by (fr HF2; unfold en1; lk; exact HRn).
    assert (HTot2 : lookup "total" en2 = Ret (VInt (Z.of_nat (length m)))) by (fr HF2; unfold en1; lk; reflexivity).
    clearbody en1. clear E2 HF2.
    rewrite exec_seq, exec_if. cbn [eval]. rewrite HV2. cbn [lift truthy]. rewrite if_same, exec_skip. cbn [seq].
    rewrite exec_seq, exec_assign. cbn [eval rbind forallb lift assign items bind_tuple seq].
    rewrite exec_seq, exec_for. cbn [eval]. lk. rewrite HM2. cbn [rbind]. rewrite items_lmap. cbn [rbind builtin1_val items lift].
    set (rem := keys (filter (small t) m)) in *.
    set (sav := keys (filter (fun kv => negb (small t kv)) m)) in *.
    match goal with |- context [for_loop _ _ _ _ _ ?E] => set (en3 := E) end.
    destruct (pass2_loop rem sav vb (VInt (Z.of_nat (length m))) (VInt rn) m 0 [] false en3)
      as (en4 & E4 & HM4 & HFl4 & HF4); try (unfold en3; lk; first [assumption|reflexivity]).
    rewrite E4. cbn [seq app orb] in *.
    rewrite exec_seq, exec_assign. cbn [eval]. rewrite HM4. cbn [lift assign seq].
    rewrite exec_seq. cbn [exec]. lk. fr HF4. unfold en3. lk. rewrite HRn2. cbn [eval lift binop_vals binop_scalar seq].
    lk. rewrite HFl4. cbn [rbind truthy lift].
    assert (EF : useless_round m t = (map (trimf rem sav) (filter (keepf rem) m), existsb (flagf rem sav) (filter (keepf rem) m)))
      by reflexivity.
    rewrite EF. cbn [fst snd].
    match goal with |- context [OBreak ?E] => exists E end.
    split; [destruct (existsb (flagf rem sav) (filter (keepf rem) m)); reflexivity|].
    lk. fr HF4. unfold en3. lk. repeat split; first [reflexivity|assumption].
  Qed.

  (* ---- the while loop against the fuelled recursion of the model ------------------------------------------------------- *)
  Lemma while_ok t vb : forall f m r n rn en, NoDup (keys m) ->
    remove_useless_fuel f m t = Ok r -> (f <= n)%nat ->
    lookup "latter_map" en = Ret (v_lmap m) -> lookup "threshold" en = Ret (VInt t) ->
    lookup "verbose" en = Ret (VBool vb) -> lookup "round_number" en = Ret (VInt rn) ->
    exists en', while_loop_b ce fuel (EBoolLit true) round_body n en = ONormal en' /\ lookup "latter_map" en' = Ret (v_lmap r).
  Proof.
    induction f as [|f IH]; intros m r n rn en HN HR Hn HM HT HV HRn; cbn [remove_useless_fuel] in HR; [discriminate|].
    destruct n as [|n]; [lia|]. rewrite while_loop_b_S. cbn [eval lift truthy].
    destruct (round_ok m t vb rn en HN HM HT HV HRn) as (en1 & E1 & HM1 & HT1 & HV1 & HRn1).
    rewrite E1. destruct (useless_round m t) as [m' flag] eqn:EU. cbn [fst snd] in *.
    destruct flag; cbn [loop_seq].
    - apply (IH m' r n (rn + 1) en1); try assumption; try lia.
      assert (Em : m' = fst (useless_round m t)) by (rewrite EU; reflexivity).
      rewrite Em. unfold useless_round. cbv zeta. cbn [fst]. unfold keys at 1. rewrite map_map. cbn [fst].
      apply (NoDup_keys_filter _ m HN).
    - injection HR as <-. exists en1. split; [reflexivity|exact HM1].
  Qed.
End RemoveUseless.

Theorem remove_useless_gen : forall ce fuel m t verbose r, NoDup (map fst m) ->
  Graph.remove_useless m t = Ok r -> (S (lmap_size m) < fuel)%nat ->
  run_fun ce fuel remove_useless_def [v_lmap m; VInt t; VBool verbose] = Ret (v_lmap r).
Proof.
  intros ce fuel m t verbose r HN HR Hf. unfold run_fun. cbn [params body bind_params remove_useless_def].
  rewrite exec_seq, exec_assign. cbn [eval lift assign seq update].
  rewrite exec_seq, exec_if. cbn [eval lookup String.eqb Ascii.eqb Bool.eqb lift truthy]. rewrite if_same, exec_skip. cbn [seq].
  rewrite exec_seq, exec_assign. cbn [eval lift assign seq update String.eqb Ascii.eqb Bool.eqb].
  rewrite exec_seq, exec_while_b.
  destruct (while_ok ce fuel t verbose (S (lmap_size m)) m r fuel 1
             [("latter_map", v_lmap m); ("threshold", VInt t); ("verbose", VBool verbose); ("monitor", VOpaque); ("round_number", VInt 1)]
             HN HR ltac:(lia) eq_refl eq_refl eq_refl eq_refl) as (en' & EL & HM).
  unfold round_body, pass1_body, pass2_body, inner_body, monitor_call in EL. rewrite EL. cbn [seq].
  rewrite exec_return. cbn [eval]. rewrite HM. reflexivity.
Qed.


(* ==== latter_map_to_accessor ========================================================================================== *)
(* the model's remove_useless always returns within its fuel: every flagged round shrinks the map (the same fact is
   TrimMapProofs.round_decrease; reproved here so that this file only depends on the files of the graph unit) *)
Lemma lm_list_sum_cons : forall x l, list_sum (x :: l) = (x + list_sum l)%nat.
Proof. reflexivity. Qed.

Lemma lm_size_sum : forall m, lmap_size m = list_sum (map (fun kv => length (snd kv)) m).
Proof.
  intros m. unfold lmap_size.
  assert (G : forall (l : lmap) a, fold_left (fun a kv => (a + length (snd kv))%nat) l a
                          = (a + list_sum (map (fun kv => length (snd kv)) l))%nat).
  { induction l as [|x xs IH]; intros a; cbn [fold_left map]; [cbn; lia|]. rewrite IH, lm_list_sum_cons. lia. }
  rewrite G. lia.
Qed.

Lemma lm_filter_le (ok : Z -> bool) : forall ls, (length (filter ok ls) <= length ls)%nat.
Proof. induction ls as [|x xs IH]; cbn [filter length]; [lia|]. destruct (ok x); cbn [length]; lia. Qed.

Lemma lm_filter_lt (ok : Z -> bool) : forall ls, existsb (fun l => negb (ok l)) ls = true ->
  (length (filter ok ls) < length ls)%nat.
Proof.
  induction ls as [|x xs IH]; intros H; cbn [existsb] in H; [discriminate|].
  cbn [filter]. pose proof (lm_filter_le ok xs) as Hb.
  destruct (ok x); cbn [negb orb] in H; cbn [length]; [apply IH in H; lia|lia].
Qed.

Lemma lm_sum_filter_le (ok : Z -> bool) : forall L : lmap,
  (list_sum (map (fun kv => length (filter ok (snd kv))) L) <= list_sum (map (fun kv => length (snd kv)) L))%nat.
Proof.
  induction L as [|x xs IH]; cbn [map]; [lia|]. rewrite !lm_list_sum_cons.
  pose proof (lm_filter_le ok (snd x)). lia.
Qed.

Lemma lm_sum_filter_lt (ok : Z -> bool) : forall L : lmap,
  existsb (fun kv => existsb (fun l => negb (ok l)) (snd kv)) L = true ->
  (list_sum (map (fun kv => length (filter ok (snd kv))) L) < list_sum (map (fun kv => length (snd kv)) L))%nat.
Proof.
  induction L as [|x xs IH]; intros H; cbn [existsb] in H; [discriminate|].
  cbn [map]. rewrite !lm_list_sum_cons. pose proof (lm_sum_filter_le ok xs) as Hle.
  pose proof (lm_filter_le ok (snd x)) as Hb.
  destruct (existsb (fun l => negb (ok l)) (snd x)) eqn:E.
  - apply lm_filter_lt in E. lia.
  - cbn [orb] in H. apply IH in H. lia.
Qed.

Lemma lm_sum_sub_le (p : Z * list Z -> bool) : forall L : lmap,
  (list_sum (map (fun kv => length (snd kv)) (filter p L)) <= list_sum (map (fun kv => length (snd kv)) L))%nat.
Proof.
  induction L as [|x xs IH]; cbn [filter map]; [lia|].
  destruct (p x); cbn [map]; rewrite ?lm_list_sum_cons; lia.
Qed.

Lemma round_decrease : forall m t, snd (useless_round m t) = true ->
  (lmap_size (fst (useless_round m t)) < lmap_size m)%nat.
Proof.
  intros m t. unfold useless_round. cbv zeta. cbn [fst snd].
  set (removed := keys (filter (fun kv => Z.of_nat (length (snd kv)) <? t) m)).
  set (saved := keys (filter (fun kv => negb (Z.of_nat (length (snd kv)) <? t)) m)).
  set (ok := fun l : Z => negb (memZ l removed) && memZ l saved).
  set (kept := filter (fun kv => negb (memZ (fst kv) removed)) m).
  intros H. rewrite !lm_size_sum. rewrite map_map. cbn [snd].
  pose proof (lm_sum_filter_lt ok kept H) as H1.
  pose proof (lm_sum_sub_le (fun kv => negb (memZ (fst kv) removed)) m) as H2.
  fold kept in H2. lia.
Qed.

Lemma remove_useless_fuel_total t : forall f m, (lmap_size m < f)%nat -> exists r, remove_useless_fuel f m t = Ok r.
Proof.
  induction f as [|f IH]; intros m Hf; [lia|]. cbn [remove_useless_fuel].
  pose proof (round_decrease m t) as HD. destruct (useless_round m t) as [m' flag]. cbn [fst snd] in HD.
  destruct flag; [|eexists; reflexivity]. apply IH. specialize (HD eq_refl). lia.
Qed.

Lemma remove_useless_total m t : exists r, Graph.remove_useless m t = Ok r.
Proof. unfold Graph.remove_useless. apply remove_useless_fuel_total. lia. Qed.

(* ---- lists ---------------------------------------------------------------------------------------------------------- *)
Lemma lm_nthZ_nth {A} (l : list A) d : forall i, (i < length l)%nat -> nthZ l i = Some (nth i l d).
Proof.
  induction l as [|x xs IH]; intros i Hi; cbn [length] in Hi; [lia|].
  destruct i as [|i]; [reflexivity|]. cbn [nthZ nth]. apply IH. lia.
Qed.

Lemma lm_py_get_ok {A} (l : list A) d j : 0 <= j < Z.of_nat (length l) -> py_get l j = Ok (nth (Z.to_nat j) l d).
Proof.
  intro H. unfold py_get. destruct (j <? 0) eqn:E1; [lia|].
  destruct ((j <? 0) || (Z.of_nat (length l) <=? j)) eqn:E2; [lia|].
  rewrite (lm_nthZ_nth l d) by lia. reflexivity.
Qed.

Lemma lm_set_nth_map {A B} (f : A -> B) x : forall l i, set_nth (map f l) i (f x) = map f (set_nth l i x).
Proof.
  induction l as [|y ys IH]; intros i; [reflexivity|]. destruct i as [|i]; cbn [map set_nth]; [reflexivity|].
  rewrite IH. reflexivity.
Qed.

Lemma lm_set_nth_length {A} (x : A) : forall l i, length (set_nth l i x) = length l.
Proof.
  induction l as [|y ys IH]; intros i; [reflexivity|]. destruct i as [|i]; cbn [set_nth length]; [reflexivity|].
  rewrite IH. reflexivity.
Qed.

Lemma lm_Forall_set_nth {A} (P : A -> Prop) x : forall l i, Forall P l -> P x -> Forall P (set_nth l i x).
Proof.
  induction l as [|y ys IH]; intros i HF Hx; [constructor|]. inversion HF; subst.
  destruct i as [|i]; cbn [set_nth]; constructor; auto.
Qed.

Lemma lm_nth_map {A B} (f : A -> B) d : forall l i, nth i (map f l) (f d) = f (nth i l d).
Proof. intros l i. apply map_nth. Qed.

(* ---- the blank accessor ------------------------------------------------------------------------------------------------ *)
Definition bc_list (o : binop) (left : bool) (z : Z) : list val -> res (list val) :=
  fix go (l : list val) : res (list val) :=
    match l with [] => Ret [] | x :: t => y <~ broadcast_int o left x z ;; ys <~ go t ;; Ret (y :: ys) end.

Lemma bc_list_cons o left z x t :
  bc_list o left z (x :: t) = (y <~ broadcast_int o left x z ;; ys <~ bc_list o left z t ;; Ret (y :: ys)).
Proof. reflexivity. Qed.

Lemma bc_arr o left l z : broadcast_int o left (VArr l) z = (r <~ bc_list o left z l ;; Ret (VArr r)).
Proof. reflexivity. Qed.

Lemma blank_rows n :
  broadcast_int Sub false (VArr (repeat (VArr (repeat (VInt 1) 4)) n)) 0 = Ret (varr2 (repeat empty_row n)).
Proof.
  rewrite bc_arr.
  assert (G : bc_list Sub false 0 (repeat (VArr (repeat (VInt 1) 4)) n) = Ret (map varr (repeat empty_row n))).
  { set (R := VArr (repeat (VInt 1) 4)). induction n as [|n IH]; [reflexivity|]. cbn [repeat map]. rewrite bc_list_cons, IH. reflexivity. }
  rewrite G. reflexivity.
Qed.

Lemma rows4_blank n : rows4 (repeat empty_row n).
Proof. unfold rows4. induction n as [|n IH]; cbn [repeat]; constructor; [reflexivity|exact IH]. Qed.

(* ---- accessor[former, latter % 4] = latter --------------------------------------------------------------------------- *)
Definition res_step (r : result accessor) : res val :=
  match r with Ok a => Ret (varr2 a) | Raise e => Exn e | OutOfFuel => Fuel end.

Lemma store_row row col x : length row = 4%nat -> 0 <= col < 4 ->
  store_val (varr row) (VInt col) (VInt x) = Ret (varr (set_nth row (Z.to_nat col) x)).
Proof.
  intros HL HC. unfold varr, store_val. rewrite map_length, HL.
  destruct (col <? 0) eqn:E1; [lia|]. destruct ((col <? 0) || (Z.of_nat 4 <=? col)) eqn:E2; [lia|].
  destruct row as [|y ys]; [discriminate|]. cbn [map]. rewrite <- (lm_set_nth_map VInt). reflexivity.
Qed.

Lemma store2_put_arc acc former latter : rows4 acc ->
  store2_val (varr2 acc) (VInt former) (VInt (latter mod 4)) (VInt latter) = res_step (put_arc acc former latter).
Proof.
  intro H4. unfold varr2, store2_val, put_arc. rewrite map_length.
  set (n := Z.of_nat (length acc)). set (v := if former <? 0 then former + n else former).
  destruct ((v <? 0) || (n <=? v)) eqn:E; [reflexivity|].
  assert (Hv : 0 <= v < n) by lia.
  rewrite (lm_py_get_ok (map varr acc) (varr empty_row)) by (rewrite map_length; exact Hv).
  rewrite (lm_nth_map varr empty_row).
  assert (HL : length (nth (Z.to_nat v) acc empty_row) = 4%nat).
  { unfold rows4 in H4. rewrite Forall_forall in H4. apply H4. apply nth_In. unfold n in Hv. lia. }
  rewrite store_row by (auto; lia). cbn [rbind res_step]. unfold set_entry, get_row.
  rewrite (lm_set_nth_map varr). reflexivity.
Qed.

Lemma put_arc_rows4 acc former latter a : rows4 acc -> put_arc acc former latter = Ok a -> rows4 a.
Proof.
  unfold put_arc, rows4. intros H4 H.
  set (n := Z.of_nat (length acc)) in *. set (v := if former <? 0 then former + n else former) in *.
  destruct ((v <? 0) || (n <=? v)) eqn:E; [discriminate|]. injection H as <-.
  unfold set_entry. apply lm_Forall_set_nth; [exact H4|]. rewrite lm_set_nth_length.
  unfold get_row. rewrite Forall_forall in H4. apply H4. apply nth_In. unfold n in E. lia.
Qed.

Lemma put_arc_nofuel acc f l : put_arc acc f l <> OutOfFuel.
Proof. unfold put_arc. destruct (_ || _); discriminate. Qed.

Lemma put_arcs_nofuel f : forall ls acc, put_arcs acc f ls <> OutOfFuel.
Proof.
  induction ls as [|l ls IH]; intros acc; cbn [put_arcs]; [discriminate|].
  pose proof (put_arc_nofuel acc f l) as H. destruct (put_arc acc f l) as [a|e|]; cbn [bind]; [apply IH|discriminate|contradiction].
Qed.

Lemma put_map_nofuel : forall m acc, put_map acc m <> OutOfFuel.
Proof.
  induction m as [|[f ls] m IH]; intros acc; cbn [put_map]; [discriminate|].
  pose proof (put_arcs_nofuel f ls acc) as H. destruct (put_arcs acc f ls) as [a|e|]; cbn [bind]; [apply IH|discriminate|contradiction].
Qed.

Section LatterMapToAccessor.
  Variable ce : string -> list val -> res val.
  Variable fuel : nat.

  Definition ACGT : list Z := [65; 67; 71; 84].

  Definition arc_body : stmt :=
    (SAssign (TIndex2 "accessor"%string (EVar "former_vertex"%string) (EBin Mod (EVar "latter_vertex"%string) (EB1 BLen (EVar "nucleotides"%string)))) (EVar "latter_vertex"%string)).

  Lemma arc_step f x acc en : rows4 acc ->
    lookup "accessor" en = Ret (varr2 acc) -> lookup "former_vertex" en = Ret (VInt f) ->
    lookup "nucleotides" en = Ret (VStr ACGT) ->
    exec ce fuel arc_body (update "latter_vertex" (VInt x) en) =
    match put_arc acc f x with
    | Ok a => ONormal (update "accessor" (varr2 a) (update "latter_vertex" (VInt x) en))
    | Raise e => OExn e
    | OutOfFuel => OFuel
    end.
  Proof.
    intros H4 HA HF HN. unfold arc_body. rewrite exec_assign. cbn [eval]. lk. cbn [lift assign eval]. lk. rewrite HN, HF.
    cbn [rbind builtin1_val ACGT length lift]. change (Z.of_nat 4) with 4. cbn [binop_vals binop_scalar].
    change (4 =? 0) with false. cbn [lift]. lk. rewrite HA. cbn [rbind lift].
    rewrite (store2_put_arc acc f x H4). destruct (put_arc acc f x); reflexivity.
  Qed.

  Lemma arcs_loop f : forall ls acc en, rows4 acc ->
    lookup "accessor" en = Ret (varr2 acc) -> lookup "former_vertex" en = Ret (VInt f) ->
    lookup "nucleotides" en = Ret (VStr ACGT) ->
    match put_arcs acc f ls with
    | Ok a => exists en', for_loop ce fuel (TVar "latter_vertex") arc_body (map VInt ls) en = ONormal en'
                /\ lookup "accessor" en' = Ret (varr2 a) /\ rows4 a /\ frame ["latter_vertex"; "accessor"] en en'
    | Raise e => for_loop ce fuel (TVar "latter_vertex") arc_body (map VInt ls) en = OExn e
    | OutOfFuel => True
    end.
  Proof.
    induction ls as [|x ls IH]; intros acc en H4 HA HF HN; cbn [put_arcs].
    - exists en. split; [reflexivity|split; [exact HA|split; [exact H4|intros y _; reflexivity]]].
    - cbn [map for_loop assign seq]. rewrite (arc_step f x acc en H4 HA HF HN).
      destruct (put_arc acc f x) as [a0|e|] eqn:EP; cbn [bind seq]; [|reflexivity|exact I].
      pose proof (put_arc_rows4 acc f x a0 H4 EP) as H40.
      specialize (IH a0 (update "accessor" (varr2 a0) (update "latter_vertex" (VInt x) en)) H40).
      destruct (put_arcs a0 f ls) as [a|e|]; [|apply IH; lk; first [assumption|reflexivity]|exact I].
      destruct IH as (en' & EL & HA' & H4' & HFr); try (lk; first [assumption|reflexivity]).
      exists en'. split; [exact EL|split; [exact HA'|split; [exact H4'|frame_solve]]].
  Qed.

  Definition monitor2 : stmt :=
    (SIf (EVar "verbose"%string)
     (SExpr (ETuple [(EBin Add (EVar "current"%string) (EInt (1))); (EVar "total"%string)]))
     SSkip).

  Lemma monitor2_ok en vb i vt :
    lookup "verbose" en = Ret (VBool vb) -> lookup "current" en = Ret (VInt i) -> lookup "total" en = Ret vt ->
    exec ce fuel monitor2 en = ONormal en.
  Proof.
    intros HV HC HT. unfold monitor2. cbn [exec eval]. rewrite HV. cbn [lift truthy].
    destruct vb; [|reflexivity]. cbn [exec eval]. rewrite HC, HT. reflexivity.
  Qed.

  Definition map_body : stmt :=
    (SSeq (SFor (TVar "latter_vertex"%string) (EVar "latter_vertices"%string) arc_body) monitor2).

  (* the outcome [o] of a piece of program against a model result *)
  Definition loop_res (o : outcome) (r : result accessor) (P : env -> accessor -> Prop) : Prop :=
    match r with
    | Ok a => exists en', o = ONormal en' /\ P en' a
    | Raise e => o = OExn e
    | OutOfFuel => True
    end.

  Lemma map_loop vb vt : forall m i acc en, rows4 acc ->
    lookup "accessor" en = Ret (varr2 acc) -> lookup "nucleotides" en = Ret (VStr ACGT) ->
    lookup "verbose" en = Ret (VBool vb) -> lookup "total" en = Ret vt ->
    loop_res (for_loop ce fuel (TPair "current" ["former_vertex"; "latter_vertices"]) map_body
                (enumerate_from i (map itemv m)) en)
             (put_map acc m) (fun en' a => lookup "accessor" en' = Ret (varr2 a)).
  Proof.
    induction m as [|[f ls] m IH]; intros i acc en H4 HA HN HV HT.
    - cbn [put_map loop_res]. exists en. split; [reflexivity|exact HA].
    - cbn [map enumerate_from for_loop]. unfold itemv at 1. cbn [assign items lift bind_tuple seq fst snd].
      unfold map_body at 1. rewrite exec_seq, exec_for. cbn [eval]. lk. unfold vints at 1. cbn [lift items].
      set (en1 := update "latter_vertices" (vints ls) (update "former_vertex" (VInt f) (update "current" (VInt i) en))).
      pose proof (arcs_loop f ls acc en1 H4) as HL. cbn [put_map].
      destruct (put_arcs acc f ls) as [a0|e|]; cbn [bind]; [| |exact I].
      + destruct HL as (en2 & E2 & HA2 & H42 & HFr2); try (unfold en1; lk; first [assumption|reflexivity]).
        rewrite E2. cbn [seq].
        rewrite (monitor2_ok _ vb i vt) by (fr HFr2; unfold en1; lk; first [assumption|reflexivity]). cbn [seq].
        apply IH; try assumption; fr HFr2; unfold en1; lk; assumption.
      + rewrite HL by (unfold en1; lk; first [assumption|reflexivity]). reflexivity.
  Qed.

  (* everything after the optional call of remove_useless *)
  Definition tail_stmt : stmt :=
    (SSeq (SAssign (TVar "accessor"%string) (EBin Sub (EInt 0) (EB2 BNpOnes2 (EBin Pow (EB1 BLen (EVar "nucleotides"%string)) (EVar "observed_length"%string)) (EB1 BLen (EVar "nucleotides"%string)))))
    (SSeq (SIf (ECmp CGt (EB1 BLen (EVar "latter_map"%string)) (EInt (0)))
     (SSeq (SIf (EVar "verbose"%string) SSkip SSkip)
     (SSeq (SAssign (TVar "total"%string) (EB1 BLen (EB1 BItems (EVar "latter_map"%string))))
     (SFor (TPair "current"%string ["former_vertex"%string; "latter_vertices"%string]) (EB1 BEnumerate (EB1 BItems (EVar "latter_map"%string))) map_body)))
     SSkip)
    (SReturn (EVar "accessor"%string)))).

  Definition out_res (o : outcome) (r : result accessor) : Prop :=
    match r with Ok a => o = OReturn (varr2 a) | Raise e => o = OExn e | OutOfFuel => True end.

  Lemma tail_ok m k vb en :
    lookup "latter_map" en = Ret (v_lmap m) -> lookup "observed_length" en = Ret (VInt (Z.of_nat k)) ->
    lookup "verbose" en = Ret (VBool vb) -> lookup "nucleotides" en = Ret (VStr ACGT) ->
    out_res (exec ce fuel tail_stmt en) (put_map (blank_accessor k) m).
  Proof.
    intros HM HO HV HN. unfold tail_stmt.
    rewrite exec_seq, exec_assign. cbn [eval]. rewrite HN, HO. cbn [rbind builtin1_val ACGT length].
    change (Z.of_nat 4) with 4. cbn [binop_vals binop_scalar].
    destruct (Z.of_nat k <? 0) eqn:EK; [lia|]. cbn [rbind builtin2_val]. change (Z.to_nat 4) with 4%nat.
    cbn [binop_vals]. rewrite blank_rows. cbn [lift assign seq].
    fold (pow4 k). fold (blank_accessor k).
    set (en1 := update "accessor" (varr2 (blank_accessor k)) en).
    assert (H4 : rows4 (blank_accessor k)) by apply rows4_blank.
    rewrite exec_seq, exec_if. cbn [eval]. unfold en1 at 1. lk. rewrite HM. cbn [rbind]. rewrite len_lmap.
    cbn [rbind cmp_vals cmp_scalar mixes_bool is_arr orb lift truthy].
    destruct m as [|p m].
    - cbn [length put_map out_res]. change (0 <? Z.of_nat 0) with false. cbn iota. rewrite exec_skip. cbn [seq].
      rewrite exec_return. cbn [eval]. unfold en1. lk. reflexivity.
    - destruct (0 <? Z.of_nat (length (p :: m))) eqn:EL; [|cbn [length] in EL; lia].
      rewrite exec_seq, exec_if. cbn [eval]. unfold en1 at 1. lk. rewrite HV. cbn [lift truthy].
      rewrite if_same, exec_skip. cbn [seq].
      rewrite exec_seq, exec_assign. cbn [eval]. unfold en1 at 1. lk. rewrite HM. cbn [rbind]. rewrite items_lmap.
      cbn [rbind builtin1_val lift assign seq].
      rewrite exec_for. cbn [eval]. lk. unfold en1 at 1. lk. rewrite HM. cbn [rbind]. rewrite items_lmap.
      cbn [rbind builtin1_val items lift].
      match goal with |- context [for_loop _ _ _ _ _ ?E] => set (en2 := E) end.
      pose proof (map_loop vb (VInt (Z.of_nat (length (map itemv (p :: m))))) (p :: m) 0 (blank_accessor k) en2 H4) as HL.
      assert (HL' : loop_res (for_loop ce fuel (TPair "current" ["former_vertex"; "latter_vertices"]) map_body
                                (enumerate_from 0 (map itemv (p :: m))) en2)
                             (put_map (blank_accessor k) (p :: m)) (fun en' a => lookup "accessor" en' = Ret (varr2 a)))
        by (apply HL; unfold en2, en1; lk; first [assumption|reflexivity]).
      clear HL. unfold loop_res in HL'. unfold out_res.
      destruct (put_map (blank_accessor k) (p :: m)) as [a|e|]; [| |exact I].
      + destruct HL' as (en3 & E3 & HA3).
        rewrite E3. cbn [seq]. rewrite exec_return. cbn [eval]. rewrite HA3. reflexivity.
      + rewrite HL'. reflexivity.
  Qed.
End LatterMapToAccessor.

Theorem latter_map_to_accessor_gen : forall ce fuel m k threshold verbose, NoDup (map fst m) ->
  (forall m' t r, NoDup (map fst m') -> Graph.remove_useless m' t = Ok r -> (S (lmap_size m') < fuel)%nat ->
     ce "remove_useless" [v_lmap m'; VInt t; VBool verbose] = Ret (v_lmap r)) ->
  (S (lmap_size m) < fuel)%nat ->
  run_fun ce fuel latter_map_to_accessor_def [v_lmap m; VInt (Z.of_nat k); v_opt threshold; VBool verbose]
  = res_of_acc (Graph.latter_map_to_accessor m k threshold).
Proof.
  intros ce fuel m k threshold verbose HN Hce Hf. unfold run_fun, Graph.latter_map_to_accessor.
  cbn [params body bind_params latter_map_to_accessor_def].
  rewrite exec_seq, exec_assign. cbn [eval lift assign seq update String.eqb Ascii.eqb Bool.eqb].
  rewrite exec_seq, exec_assign. cbn [eval lift assign seq update String.eqb Ascii.eqb Bool.eqb].
  rewrite exec_seq, exec_if. cbn [eval lookup String.eqb Ascii.eqb Bool.eqb rbind].
  destruct threshold as [t|]; cbn [v_opt builtin1_val rbind truthy negb lift bind].
  - destruct (remove_useless_total m t) as [r HR]. rewrite HR. cbn [bind].
    rewrite exec_assign. cbn [eval lookup String.eqb Ascii.eqb Bool.eqb rbind].
    rewrite (Hce m t r HN HR Hf). cbn [lift assign seq update String.eqb Ascii.eqb Bool.eqb].
    pose proof (tail_ok ce fuel r k verbose
                  [("latter_map", v_lmap r); ("observed_length", VInt (Z.of_nat k)); ("threshold", VInt t);
                   ("verbose", VBool verbose); ("nucleotides", VStr ACGT); ("monitor", VOpaque)]
                  eq_refl eq_refl eq_refl eq_refl) as HT.
    unfold out_res, tail_stmt, map_body, arc_body, monitor2, ACGT in HT.
    pose proof (put_map_nofuel r (blank_accessor k)) as HNF.
    destruct (put_map (blank_accessor k) r) as [a|e|]; [rewrite HT; reflexivity|rewrite HT; reflexivity|contradiction].
  - rewrite exec_skip. cbn [seq].
    pose proof (tail_ok ce fuel m k verbose
                  [("latter_map", v_lmap m); ("observed_length", VInt (Z.of_nat k)); ("threshold", VNone);
                   ("verbose", VBool verbose); ("nucleotides", VStr ACGT); ("monitor", VOpaque)]
                  eq_refl eq_refl eq_refl eq_refl) as HT.
    unfold out_res, tail_stmt, map_body, arc_body, monitor2, ACGT in HT.
    pose proof (put_map_nofuel m (blank_accessor k)) as HNF.
    destruct (put_map (blank_accessor k) m) as [a|e|]; [rewrite HT; reflexivity|rewrite HT; reflexivity|contradiction].
Qed.

Print Assumptions remove_useless_gen.
Print Assumptions latter_map_to_accessor_gen.
