(* RepairDnaGenProofs.v -- the regenerated repair_dna (dsw/spiderweb.py) computes Repair.repair_dna, value and exception.
   Compiled on every run of the checks against the freshly generated RepairGen.v (harness/regen.py, unit "repair"). *)
From Coq Require Import Lia ZifyBool Permutation.
From DSW Require Import MiniPyR Repair Coder Convert Kmer Spec MiniPyRLemmas.
From DSWGen Require Import RepairGen RepairRepr.
Open Scope Z_scope.
Open Scope string_scope.
Ltac Zify.zify_post_hook ::= Z.to_euclidean_division_equations.
Local Open Scope Z_scope.
Local Open Scope list_scope.
Notation lookup := MiniPyR.lookup.

(* PROVED: repair_dna_gen (end of file), value and exception, through res_of_repair.  The statement is the task's, with the callee
   hypothesis about path_matching WEAKENED to occurrences 0 <= occ (PathMatchingGenProofs.path_matching_gen_nonneg discharges it):
   repair_dna only calls path_matching with occ = observed_length - recall - 1 where recall < len(index_marker) <= observed_length;
   the bound len(marker) <= k is scan_loop_markers (a property of Repair.scan_loop: the slice index_queue[loc - k : loc] with
   0 <= loc < len has at most k entries, also when loc - k is negative and wraps / clamps), threaded through chunk_for /
   exec_chunk_body / recall_loop (0 <= r, r + |remaining recalls| <= k) to exec_recall_body (0 <= k - r - 1).
   repair_dna calls path_matching (same generated module; hypothesis of the theorem), dna_to_number and set_vt (repair_callees_ok).

   Structure of the proof (Section Repair; the staged lemmas are usable on their own):
   * stage 1, scan_while: `while location < len(dna_sequence)` = Repair.scan_loop, by induction on the model fuel f with any
     interpreter budget m > f and length s - loc <= f (so the model never runs out of fuel; OutOfFuel can only come from the
     dna_to_number callee).  scan_body_step is one iteration (exec_scan_then / exec_scan_else); split_sequences is
     rev (sc_splits) ++ [cur]; index_queue a varr; the slices are py_slice / py_slice_to.  scan_loop_lengths: the model's result
     has |splits| = |chunks| + 1 and |chunks| = |markers| (needed: Python indexes fragments[index] for index < len(splits) - 1).
   * stage 2, add_loop / exec_recall_body / recall_loop / exec_chunk_body / chunk_for: one chunk = Repair.fragments_of, all chunks =
     Repair.all_fragments.  The set of a chunk is a duplicate-free list in first-insertion order (padd) on the program side and
     a sorted list (madd = insert_str) in the model: srel l fr := NoDup l /\ StronglySorted lexlt fr /\ same elements, kept as
     the loop invariant (srel_step, srel_fold), giving Permutation l fr per chunk (srel_perm) and equal visited counts.
   * stage 3, count_for / count_of_perm / exec_exit_if: count is a product of lengths (equal under Forall2 Permutation); the early
     exit with its three return shapes (early_result); `vt_check == set_vt(..)` is eval_check (callee, n = length c >= 1).
   * stage 4: itertools.product = cart (eval_product, in_cart), the recombination of one tuple = weave ss fs ++ lst (join_for,
     exec_product_body), the check + set.add loop = pfold (product_for), sorted(list(set)) = isort (eval_sorted).  Pure part:
     check_matches is Ok _ or Raise ValueError (cm_cases, from VTProofs.set_vt_cases), hence filter_checked and pfold depend on
     the candidate list only through membership (filter_checked_char, pfold_char, existsb_in_ext); the candidates of the two
     sides have the same elements (in_recombine, cands_equiv: the model varies the LEFTMOST chunk fastest, product the rightmost,
     and each chunk's list is permuted); strictly sorted lists with the same elements are equal (sorted_unique), so
     isort (set) = sort_dedup (kept) (tail_pure).
   * stage 5, repair_dna_run: the assembly; frame conditions are carried as unch mods en en' (lookup unchanged outside mods).
   Hypotheses: all those of the stated theorem suffice; 0 <= heap is not used, and 1 <= k is only used as 0 <= k (progress of
   the scan loop).  v0 need not be in range (an out-of-range start raises IndexError on both sides). *)

From Coq Require Import Sorting.Sorted.
From DSW Require Import RepairSpec VTProofs WalkProofs RepairProofs.

(* ---- tactics ------------------------------------------------------------------------------------------------------ *)
Ltac lk := repeat (rewrite lookup_update_same || (rewrite lookup_update_other by discriminate)).
Ltac st := cbn [exec eval lift seq rbind assign items bind_tuple].

(* ---- lists --------------------------------------------------------------------------------------------------------- *)
Lemma nthZ_map {A B} (f : A -> B) : forall l n, nthZ (map f l) n = option_map f (nthZ l n).
Proof.
  induction l as [|x t IH]; intros n; [destruct n; reflexivity|].
  destruct n as [|n]; cbn [map nthZ option_map]; [reflexivity|apply IH].
Qed.

Lemma py_get_map {A B} (f : A -> B) l i :
  py_get (map f l) i = match py_get l i with Ok x => Ok (f x) | Raise e => Raise e | OutOfFuel => OutOfFuel end.
Proof.
  unfold py_get. rewrite map_length. cbv zeta.
  destruct (((if i <? 0 then i + Z.of_nat (length l) else i) <? 0)
            || (Z.of_nat (length l) <=? (if i <? 0 then i + Z.of_nat (length l) else i))); [reflexivity|].
  rewrite nthZ_map. destruct (nthZ l _); reflexivity.
Qed.

Lemma nthZ_in {A} : forall (l : list A) n x, nthZ l n = Some x -> In x l.
Proof.
  induction l as [|y t IH]; intros n x H; [destruct n; discriminate|].
  destruct n as [|n]; cbn [nthZ] in H; [injection H as <-; left; reflexivity|right; eapply IH; exact H].
Qed.

Lemma py_get_in {A} (l : list A) i x : py_get l i = Ok x -> In x l.
Proof.
  unfold py_get. cbv zeta. destruct (_ || _); [discriminate|].
  destruct (nthZ l _) as [y|] eqn:E; [|discriminate]. intro H; injection H as <-. eapply nthZ_in; exact E.
Qed.

Lemma py_get_raise {A} (l : list A) i e : py_get l i = Raise e -> e = IndexError.
Proof.
  unfold py_get. cbv zeta. destruct (_ || _); [intro H; injection H as <-; reflexivity|].
  destruct (nthZ l _); [discriminate|intro H; injection H as <-; reflexivity].
Qed.

Lemma py_get_fuel {A} (l : list A) i : py_get l i <> OutOfFuel.
Proof. unfold py_get. cbv zeta. destruct (_ || _); [discriminate|]. destruct (nthZ l _); discriminate. Qed.

Lemma py_get_okZ {A} (l : list A) (i : Z) (d : A) : 0 <= i < Z.of_nat (length l) -> py_get l i = Ok (nth (Z.to_nat i) l d).
Proof. apply ShuffleProofs.py_get_ok. Qed.

Lemma py_get_last {A} (l : list A) x : py_get (l ++ [x]) (-1) = Ok x.
Proof.
  unfold py_get. cbv zeta. rewrite app_length. cbn [length]. change (-1 <? 0) with true. cbv iota.
  destruct ((-1 + Z.of_nat (length l + 1) <? 0) || (Z.of_nat (length l + 1) <=? -1 + Z.of_nat (length l + 1))) eqn:E; [lia|].
  replace (Z.to_nat (-1 + Z.of_nat (length l + 1))) with (length l) by lia.
  rewrite (ShuffleProofs.nthZ_nth _ _ x) by (rewrite app_length; cbn [length]; lia).
  rewrite app_nth2, Nat.sub_diag by lia. reflexivity.
Qed.

Lemma set_nth_mid {A} (pre : list A) x y post : set_nth (pre ++ x :: post) (length pre) y = pre ++ y :: post.
Proof. induction pre as [|p pre IH]; cbn [app length set_nth]; [reflexivity|rewrite IH; reflexivity]. Qed.

Lemma set_nth_map {A B} (f : A -> B) x : forall l i, set_nth (map f l) i (f x) = map f (set_nth l i x).
Proof.
  induction l as [|y ys IH]; intros i; [reflexivity|]. destruct i as [|i]; cbn [map set_nth]; [reflexivity|].
  rewrite IH. reflexivity.
Qed.

Lemma py_slice_map {A B} (f : A -> B) l lo hi : py_slice (map f l) lo hi = map f (py_slice l lo hi).
Proof.
  unfold py_slice. rewrite map_length. cbv zeta.
  destruct (clampZ (Z.of_nat (length l)) hi <=? clampZ (Z.of_nat (length l)) lo); [reflexivity|].
  rewrite skipn_map, firstn_map. reflexivity.
Qed.

Lemma map_res_map {A B C} (f : B -> res C) (h : A -> B) (k : A -> C) : forall l,
  (forall x, In x l -> f (h x) = Ret (k x)) -> map_res f (map h l) = Ret (map k l).
Proof.
  induction l as [|x t IH]; intros H; [reflexivity|].
  cbn [map map_res]. rewrite H by (left; reflexivity). cbn [rbind]. rewrite IH; [reflexivity|].
  intros y Hy. apply H. right. exact Hy.
Qed.

Lemma listZ_eqb_sym : forall a b, listZ_eqb a b = listZ_eqb b a.
Proof.
  induction a as [|x a IH]; intros [|y b]; cbn [listZ_eqb]; try reflexivity.
  rewrite IH. rewrite (Z.eqb_sym x y). reflexivity.
Qed.

(* ---- stores --------------------------------------------------------------------------------------------------------- *)
Lemma store_last l x y : store_val (VList (l ++ [x])) (VInt (-1)) y = Ret (VList (l ++ [y])).
Proof.
  unfold store_val. cbv zeta. rewrite app_length. cbn [length]. change (-1 <? 0) with true. cbv iota.
  destruct ((-1 + Z.of_nat (length l + 1) <? 0) || (Z.of_nat (length l + 1) <=? -1 + Z.of_nat (length l + 1))) eqn:E; [lia|].
  replace (Z.to_nat (-1 + Z.of_nat (length l + 1))) with (length l) by lia.
  rewrite set_nth_mid. reflexivity.
Qed.

Lemma store_mid pre x post y :
  store_val (VList (pre ++ x :: post)) (VInt (Z.of_nat (length pre))) y = Ret (VList (pre ++ y :: post)).
Proof.
  unfold store_val. cbv zeta. rewrite app_length. cbn [length].
  destruct (Z.of_nat (length pre) <? 0) eqn:E0; [lia|].
  destruct ((Z.of_nat (length pre) <? 0) || (Z.of_nat (length pre + S (length post)) <=? Z.of_nat (length pre))) eqn:E; [lia|].
  rewrite Nat2Z.id, set_nth_mid. reflexivity.
Qed.

Lemma store_varr iq i x : 0 <= i < Z.of_nat (length iq) ->
  store_val (varr iq) (VInt i) (VInt x) = Ret (varr (set_nth iq (Z.to_nat i) x)).
Proof.
  intro H. unfold store_val, varr. cbv zeta. rewrite map_length.
  destruct (i <? 0) eqn:E0; [lia|].
  destruct ((i <? 0) || (Z.of_nat (length iq) <=? i)) eqn:E; [lia|].
  rewrite nthZ_map. rewrite (ShuffleProofs.nthZ_nth iq _ 0) by lia. cbn [option_map].
  destruct iq as [|q iq]; [cbn [length] in H; lia|]. cbn [map]. rewrite <- (set_nth_map VInt x (q :: iq)). reflexivity.
Qed.

(* ---- NumPy primitives ----------------------------------------------------------------------------------------------- *)
Lemma index_varr2 a v :
  index_val (varr2 a) (VInt v) = match py_get a v with Ok row => Ret (varr row) | _ => Exn IndexError end.
Proof. unfold index_val, varr2. rewrite py_get_map. destruct (py_get a v); reflexivity. Qed.

Lemma index_varr l j :
  index_val (varr l) (VInt j) = match py_get l j with Ok x => Ret (VInt x) | _ => Exn IndexError end.
Proof. unfold index_val, varr. rewrite py_get_map. destruct (py_get l j); reflexivity. Qed.

Lemma cmp_top_varr o row z : cmp_top o (varr row) (VInt z) = cmp_vals o (varr row) (VInt z).
Proof. destruct row as [|x t]; reflexivity. Qed.

Lemma cmp_ge0_varr row : cmp_vals CGe (varr row) (VInt 0) = Ret (VArr (map (fun x => VBool (0 <=? x)) row)).
Proof.
  unfold cmp_vals, varr.
  rewrite (map_res_map _ VInt (fun x => VBool (0 <=? x))); [reflexivity|]. intros x _. reflexivity.
Qed.

Lemma where_bools {A} (g : A -> bool) l :
  builtin1_val BNpWhere (VArr (map (fun x => VBool (g x)) l)) =
  Ret (VTuple [varr (used_indices (map (fun x => if g x then 0 else -1) l))]).
Proof.
  unfold builtin1_val.
  rewrite (map_res_map _ (fun x => VBool (g x)) g) by (intros; reflexivity). cbn [rbind].
  rewrite map_map. reflexivity.
Qed.

Lemma used_from_flag : forall row j, used_from (map (fun x => if 0 <=? x then 0 else -1) row) j = used_from row j.
Proof.
  induction row as [|x t IH]; intros j; [reflexivity|]. cbn [map used_from]. rewrite IH.
  destruct (0 <=? x); reflexivity.
Qed.

Lemma where_ge0 row : builtin1_val BNpWhere (VArr (map (fun x => VBool (0 <=? x)) row)) = Ret (VTuple [varr (used_indices row)]).
Proof. rewrite where_bools. unfold used_indices. rewrite used_from_flag. reflexivity. Qed.

Lemma blen_varr l : builtin1_val BLen (varr l) = Ret (VInt (Z.of_nat (length l))).
Proof. unfold varr, builtin1_val. rewrite map_length. reflexivity. Qed.

(* ---- nucleotides ----------------------------------------------------------------------------------------------------- *)
Definition ACGT : list Z := [65; 67; 71; 84].
Definition nucv (j : Z) : val := VStr [nuc_char j].

Lemma index_nuc r : 0 <= r < 4 -> index_val (VStr ACGT) (VInt r) = Ret (nucv r).
Proof.
  intro H. assert (C : r = 0 \/ r = 1 \/ r = 2 \/ r = 3) by lia.
  destruct C as [->|[->|[->| ->]]]; reflexivity.
Qed.

Lemma str_index_nuc c : builtin2_val BIndexOf (VStr ACGT) (VStr [c]) =
  match nuc_index c with Some j => Ret (VInt j) | None => Exn ValueError end.
Proof.
  unfold builtin2_val, str_index, nuc_index, ACGT. cbn [indexZ].
  destruct (c =? 65); [reflexivity|]. destruct (c =? 67); [reflexivity|].
  destruct (c =? 71); [reflexivity|]. destruct (c =? 84); reflexivity.
Qed.

Lemma val_eqb_nuc c j : 0 <= j < 4 ->
  val_eqb (VStr [c]) (nucv j) = match nuc_index c with Some j' => j' =? j | None => false end.
Proof.
  intro H. unfold nucv, val_eqb, listZ_eqb. rewrite andb_true_r.
  assert (C : j = 0 \/ j = 1 \/ j = 2 \/ j = 3) by lia.
  unfold nuc_index.
  destruct C as [->|[->|[->| ->]]];
    [change (nuc_char 0) with 65|change (nuc_char 1) with 67|change (nuc_char 2) with 71|change (nuc_char 3) with 84];
  destruct (c =? 65) eqn:E1; destruct (c =? 67) eqn:E2; destruct (c =? 71) eqn:E3; destruct (c =? 84) eqn:E4;
  cbv beta iota; try reflexivity; lia.
Qed.

Lemma forallb_nucv used : forallb (fun y => match y with VInt _ | VStr _ => true | _ => false end) (map nucv used) = true.
Proof. induction used as [|x t IH]; [reflexivity|exact IH]. Qed.

Lemma mem_val_nucs c : forall used, Forall (fun j => 0 <= j < 4) used ->
  mem_val (VStr [c]) (map nucv used) = match nuc_index c with Some j => memZ j used | None => false end.
Proof.
  induction used as [|u t IH]; intros H; [destruct (nuc_index c); reflexivity|].
  inversion H as [|? ? Hu Ht]; subst. cbn [map mem_val memZ].
  rewrite (val_eqb_nuc c u Hu), (IH Ht). destruct (nuc_index c) as [j|]; reflexivity.
Qed.

Lemma used_range row : length row = 4%nat -> Forall (fun j => 0 <= j < 4) (used_indices row).
Proof.
  intro Hl. destruct (used_indices_spec row Hl) as [_ Hi]. apply Forall_forall. intros j Hj. apply Hi in Hj. lia.
Qed.

(* ---- the pieces of the generated term --------------------------------------------------------------------------------- *)
Definition used_expr : expr :=
  (EIndex (EB1 BNpWhere (ECmp CGe (EIndex (EVar "accessor"%string) (EVar "vertex_index"%string)) (EInt (0)))) (EInt (0))).
Definition comp_expr : expr :=
  (EComp (EIndex (EVar "nucleotides"%string) (EVar "used_index"%string)) "used_index"%string (EVar "used_indices"%string)).
Definition next_expr : expr :=
  (EIndex (EIndex (EVar "accessor"%string) (EVar "vertex_index"%string)) (EB2 BIndexOf (EVar "nucleotides"%string) (EVar "nucleotide"%string))).
Definition scan_cond : expr := (ECmp CLt (EVar "location"%string) (EB1 BLen (EVar "dna_sequence"%string))).
Definition scan_then : stmt :=
 (SSeq (SAug (TIndex "split_sequences"%string (EInt (-1))) Add (EVar "nucleotide"%string))
 (SSeq (SAssign (TVar "vertex_index"%string) next_expr)
 (SSeq (SAssign (TIndex "index_queue"%string (EVar "location"%string)) (EVar "vertex_index"%string))
 (SSeq (SAug (TVar "visited_times"%string) Add (EInt (1)))
 (SAug (TVar "location"%string) Add (EInt (1))))))).
Definition scan_else : stmt :=
 (SSeq (SAug (TVar "detected_count"%string) Add (EInt (1)))
 (SSeq (SAssign (TIndex "split_sequences"%string (EInt (-1))) (ESlice (EIndex (EVar "split_sequences"%string) (EInt (-1))) None (Some (EBin Add (EBin Sub (EB1 BLen (EIndex (EVar "split_sequences"%string) (EInt (-1)))) (EVar "observed_length"%string)) (EInt (1))))))
 (SSeq (SAssign (TVar "vertex_index"%string) (ECall "dna_to_number"%string [(ESlice (EVar "dna_sequence"%string) (Some (EBin Add (EVar "location"%string) (EInt (1)))) (Some (EBin Add (EBin Add (EVar "location"%string) (EVar "observed_length"%string)) (EInt (1))))); (EBoolLit false)]))
 (SSeq (SAppend "split_sequences"%string (EIndex (EVar "nucleotides"%string) (EBin Mod (EVar "vertex_index"%string) (EInt (4)))))
 (SSeq (SAppend "index_markers"%string (ESlice (EVar "index_queue"%string) (Some (EBin Sub (EVar "location"%string) (EVar "observed_length"%string))) (Some (EVar "location"%string))))
 (SSeq (SAppend "chuck_sequences"%string (ESlice (EVar "dna_sequence"%string) (Some (EBin Add (EBin Sub (EVar "location"%string) (EVar "observed_length"%string)) (EInt (1)))) (Some (EBin Add (EVar "location"%string) (EVar "observed_length"%string)))))
 (SAug (TVar "location"%string) Add (EBin Add (EVar "observed_length"%string) (EInt (1)))))))))).
Definition scan_body : stmt :=
 (SSeq (SAssign (TTuple ["used_indices"%string; "nucleotide"%string]) (ETuple [used_expr; (EIndex (EVar "dna_sequence"%string) (EVar "location"%string))]))
 (SIf (ECmp CIn (EIndex (EVar "dna_sequence"%string) (EVar "location"%string)) comp_expr)
 scan_then
 scan_else)).

Definition prologue : stmt -> stmt := fun rest =>
 (SSeq (SAssign (TVar "nucleotides"%string) (EStr [65; 67; 71; 84]))
 (SSeq (SAssign (TTuple ["location"%string; "vertex_index"%string; "index_queue"%string]) (ETuple [(EInt (0)); (EVar "start_index"%string); (EBin Sub (EInt 0) (EB1 BNpOnes1 (EB1 BLen (EVar "dna_sequence"%string))))]))
 (SSeq (SAssign (TTuple ["split_sequences"%string; "chuck_sequences"%string; "index_markers"%string]) (ETuple [(EList [(EStr [])]); (EList []); (EList [])]))
 (SSeq (SAssign (TTuple ["detected_count"%string; "chuck_flag"%string; "visited_times"%string]) (ETuple [(EInt (0)); (EBoolLit false); (EInt (0))]))
 rest)))).

Definition rfs_init : stmt :=
 (SAssign (TVar "repaired_fragment_set"%string) (EComp ESetNew "_"%string (EB1 BRange (EB1 BLen (EVar "index_markers"%string))))).
Definition add_stmt : stmt :=
 (SIf (ECmp CNotIn (EVar "dna_sequence"%string) (EIndex (EVar "repaired_fragment_set"%string) (EVar "index"%string)))
 (SSetAdd2 "repaired_fragment_set"%string (EVar "index"%string) (EVar "fragment"%string))
 SSkip).
Definition add_for : stmt :=
 (SFor (TTuple ["_"%string; "fragment"%string]) (EVar "record"%string) add_stmt).
Definition recall_body : stmt :=
 (SSeq (SAssign (TTuple ["record"%string; "times"%string]) (ECall "path_matching"%string [(EVar "chuck_sequence"%string); (EVar "accessor"%string); (EVar "vertex_index"%string); (EBin Sub (EBin Sub (EVar "observed_length"%string) (EVar "recall"%string)) (EInt (1))); (EVar "has_indel"%string); ENone]))
 (SSeq (SAug (TVar "visited_times"%string) Add (EVar "times"%string))
 add_for)).
Definition recall_for : stmt :=
 (SFor (TTuple ["recall"%string; "vertex_index"%string]) (EB1 BEnumerate (EB1 BRev (EVar "index_marker"%string))) recall_body).
Definition chunk_body : stmt :=
 (SSeq recall_for
 (SAssign (TIndex "repaired_fragment_set"%string (EVar "index"%string)) (EB1 BList (EIndex (EVar "repaired_fragment_set"%string) (EVar "index"%string))))).
Definition chunk_loop : stmt :=
 (SFor (TPair "index"%string ["chuck_sequence"%string; "index_marker"%string]) (EB1 BEnumerate (EB2 BZip (EVar "chuck_sequences"%string) (EVar "index_markers"%string))) chunk_body).
Definition count_init : stmt :=
 (SAssign (TTuple ["repaired_results"%string; "count"%string]) (ETuple [ESetNew; (EInt (1))])).
Definition count_loop : stmt :=
 (SFor (TVar "fragments"%string) (EVar "repaired_fragment_set"%string)
 (SAug (TVar "count"%string) Mul (EB1 BLen (EVar "fragments"%string)))).
Definition exit_if : stmt :=
 (SIf (EOr (ECmp CEq (EVar "count"%string) (EInt (0))) (ECmp CGt (EVar "count"%string) (EVar "heap_size"%string)))
 (SIf (ENot (EB1 BIsNone (EVar "vt_check"%string)))
 (SIf (ECmp CEq (EVar "vt_check"%string) (ECall "set_vt"%string [(EVar "dna_sequence"%string); (EB1 BLen (EVar "vt_check"%string))]))
 (SReturn (ETuple [(EList [(EVar "dna_sequence"%string)]); (ETuple [(EInt (0)); (EBoolLit false); (EInt (0)); (EVar "visited_times"%string)])]))
 (SReturn (ETuple [(EList []); (ETuple [(EInt (0)); (EBoolLit true); (EInt (0)); (EVar "visited_times"%string)])])))
 (SReturn (ETuple [(EList [(EVar "dna_sequence"%string)]); (ETuple [(EInt (0)); (EBoolLit false); (EInt (0)); (EVar "visited_times"%string)])])))
 SSkip).
Definition join_body : stmt :=
 (SAug (TVar "repaired_dna_sequence"%string) Add (EBin Add (EIndex (EVar "split_sequences"%string) (EVar "index"%string)) (EIndex (EVar "fragments"%string) (EVar "index"%string)))).
Definition join_loop : stmt :=
 (SFor (TVar "index"%string) (EB1 BRange (EBin Sub (EB1 BLen (EVar "split_sequences"%string)) (EInt (1)))) join_body).
Definition check_stmt : stmt :=
 (SIf (ENot (EB1 BIsNone (EVar "vt_check"%string)))
 (SIf (ECmp CEq (EVar "vt_check"%string) (ECall "set_vt"%string [(EVar "repaired_dna_sequence"%string); (EB1 BLen (EVar "vt_check"%string))]))
 (SSetAdd "repaired_results"%string (EVar "repaired_dna_sequence"%string))
 (SAssign (TVar "chuck_flag"%string) (EBoolLit true)))
 (SSetAdd "repaired_results"%string (EVar "repaired_dna_sequence"%string))).
Definition product_body : stmt :=
 (SSeq (SAssign (TVar "repaired_dna_sequence"%string) (EStr []))
 (SSeq join_loop
 (SSeq (SAug (TVar "repaired_dna_sequence"%string) Add (EIndex (EVar "split_sequences"%string) (EInt (-1))))
 check_stmt))).
Definition product_loop : stmt :=
 (SFor (TVar "fragments"%string) (EB1 BProduct (EVar "repaired_fragment_set"%string)) product_body).
Definition final_return : stmt :=
 (SReturn (ETuple [(EB1 BSorted (EB1 BList (EVar "repaired_results"%string))); (ETuple [(EVar "detected_count"%string); (EVar "chuck_flag"%string); (EVar "count"%string); (EVar "visited_times"%string)])])).

Lemma repair_def_shape :
  body repair_dna_def =
  prologue (SSeq (SWhile scan_cond scan_body)
           (SSeq rfs_init (SSeq chunk_loop (SSeq count_init (SSeq count_loop (SSeq exit_if (SSeq product_loop final_return))))))).
Proof. reflexivity. Qed.

Lemma index_last l x : index_val (VList (l ++ [x])) (VInt (-1)) = Ret x.
Proof. unfold index_val. rewrite py_get_last. reflexivity. Qed.

Lemma index_mid pre x post : index_val (VList (pre ++ x :: post)) (VInt (Z.of_nat (length pre))) = Ret x.
Proof. unfold index_val. rewrite py_get_mid. reflexivity. Qed.

Lemma cmp_in_nucs c used : Forall (fun j => 0 <= j < 4) used ->
  cmp_top CIn (VStr [c]) (VList (map nucv used)) = Ret (VBool (match nuc_index c with Some j => memZ j used | None => false end)).
Proof.
  intro H. unfold cmp_top, cmp_vals, cmp_scalar. cbn [mixes_bool is_arr orb]. rewrite forallb_nucv. cbn [xorb].
  rewrite (mem_val_nucs c used H). destruct (nuc_index c) as [j|]; [destruct (memZ j used)|]; reflexivity.
Qed.

Lemma slice_varr iq a b : slice_val (varr iq) (Some (VInt a)) (Some (VInt b)) = Ret (varr (py_slice iq a b)).
Proof. unfold slice_val, varr. cbn [opt_int rbind]. rewrite py_slice_map. reflexivity. Qed.

Ltac via E := rewrite E by discriminate; assumption.
Ltac lks := repeat (lk; match goal with H : lookup _ _ = Ret _ |- _ => rewrite H end); lk.

(* ---- frame conditions ---------------------------------------------------------------------------------------------------- *)
Definition inb (x : string) (mods : list string) : bool := existsb (String.eqb x) mods.
Definition unch (mods : list string) (en en' : env) : Prop := forall x, inb x mods = false -> lookup x en' = lookup x en.

Lemma unch_refl mods en : unch mods en en.
Proof. intros x _. reflexivity. Qed.

Lemma unch_trans mods en1 en2 en3 : unch mods en1 en2 -> unch mods en2 en3 -> unch mods en1 en3.
Proof. intros H1 H2 x Hx. rewrite (H2 x Hx). apply H1, Hx. Qed.

Lemma inb_true_neq x y mods : inb x mods = false -> inb y mods = true -> x <> y.
Proof. intros H1 H2 E. subst y. rewrite H1 in H2. discriminate. Qed.

Lemma unch_update mods en en' y v : inb y mods = true -> unch mods en en' -> unch mods en (update y v en').
Proof.
  intros Hy H x Hx. rewrite lookup_update_other by (eapply inb_true_neq; eassumption). apply H, Hx.
Qed.

Lemma unch_weaken mods mods' en en' : (forall x, inb x mods' = false -> inb x mods = false) -> unch mods en en' -> unch mods' en en'.
Proof. intros Hs H x Hx. apply H, Hs, Hx. Qed.

Lemma inb_app_false x a b : inb x (a ++ b) = false -> inb x a = false /\ inb x b = false.
Proof. unfold inb. rewrite existsb_app. apply orb_false_elim. Qed.

Ltac un E := repeat match goal with |- context [lookup ?x ?e] => rewrite (E x) by reflexivity end.
Ltac unch_solve := repeat (apply unch_update; [reflexivity|]); first [apply unch_refl|assumption].

Section Repair.
  Variable ce : string -> list val -> res val.
  Variable fuel : nat.
  Variable s : list Z.
  Variable acc : list (list Z).
  Variable k : Z.
  Variable vt : option (list Z).
  Variable hi : bool.
  Variable heap : Z.
  Hypothesis Hce : repair_callees_ok ce.
  Hypothesis Hpm : forall s' prev occ, 0 <= occ -> ce "path_matching" [VStr s'; varr2 acc; VInt prev; VInt occ; VBool hi; VNone]
                       = res_of_matching occ (Repair.path_matching s' acc prev occ hi).
  Hypothesis Hacc : Forall (fun row => length row = 4%nat) acc.
  Hypothesis Hk : 1 <= k.
  Hypothesis Hvt : match vt with Some c => c <> [] | None => True end.

  (* the variables that are never assigned after the prologue *)
  Definition frame (en : env) : Prop :=
    lookup "dna_sequence" en = Ret (VStr s) /\ lookup "accessor" en = Ret (varr2 acc) /\
    lookup "observed_length" en = Ret (VInt k) /\ lookup "vt_check" en = Ret (v_optstr' vt) /\
    lookup "has_indel" en = Ret (VBool hi) /\ lookup "heap_size" en = Ret (VInt heap) /\
    lookup "nucleotides" en = Ret (VStr ACGT).

  Definition scan_inv (en : env) (loc v : Z) (iq cur : list Z) (sc : scan) : Prop :=
    frame en /\ lookup "location" en = Ret (VInt loc) /\ lookup "vertex_index" en = Ret (VInt v) /\
    lookup "index_queue" en = Ret (varr iq) /\
    lookup "split_sequences" en = Ret (VList (map VStr (rev (sc_splits sc) ++ [cur]))) /\
    lookup "chuck_sequences" en = Ret (VList (map VStr (sc_chunks sc))) /\
    lookup "index_markers" en = Ret (VList (map varr (sc_markers sc))) /\
    lookup "detected_count" en = Ret (VInt (sc_detected sc)) /\
    lookup "visited_times" en = Ret (VInt (sc_visited sc)) /\
    lookup "chuck_flag" en = Ret (VBool false).

  Lemma row_len v row : py_get acc v = Ok row -> length row = 4%nat.
  Proof. intro H. apply py_get_in in H. rewrite Forall_forall in Hacc. exact (Hacc _ H). Qed.

  Lemma eval_used en v : lookup "accessor" en = Ret (varr2 acc) -> lookup "vertex_index" en = Ret (VInt v) ->
    eval ce en used_expr = match py_get acc v with Ok row => Ret (varr (used_indices row)) | _ => Exn IndexError end.
  Proof.
    intros HA HV. unfold used_expr. cbn [eval]. rewrite HA, HV. cbn [rbind]. rewrite index_varr2.
    destruct (py_get acc v) as [row|e|]; cbn [rbind]; try reflexivity.
    rewrite cmp_top_varr, cmp_ge0_varr. cbn [rbind]. rewrite where_ge0. cbn [rbind]. reflexivity.
  Qed.

  Lemma eval_comp en used : lookup "nucleotides" en = Ret (VStr ACGT) -> lookup "used_indices" en = Ret (varr used) ->
    Forall (fun j => 0 <= j < 4) used ->
    eval ce en comp_expr = Ret (VList (map nucv used)).
  Proof.
    intros HN HU Hr. unfold comp_expr. cbn [eval]. rewrite HU. cbn [rbind]. rewrite items_varr. cbn [rbind].
    rewrite (map_res_map _ VInt nucv); [reflexivity|].
    intros x Hx. rewrite Forall_forall in Hr. cbn [eval]. lk. rewrite HN. cbn [rbind]. apply index_nuc. apply Hr, Hx.
  Qed.

  Lemma eval_next en v row c j : lookup "accessor" en = Ret (varr2 acc) -> lookup "vertex_index" en = Ret (VInt v) ->
    lookup "nucleotides" en = Ret (VStr ACGT) -> lookup "nucleotide" en = Ret (VStr [c]) ->
    py_get acc v = Ok row -> nuc_index c = Some j ->
    eval ce en next_expr = match py_get row j with Ok x => Ret (VInt x) | _ => Exn IndexError end.
  Proof.
    intros HA HV HN HC Hrow Hj. unfold next_expr. cbn [eval]. rewrite HA, HV, HN, HC. cbn [rbind].
    rewrite index_varr2, Hrow. cbn [rbind]. fold ACGT. rewrite str_index_nuc, Hj. cbn [rbind]. apply index_varr.
  Qed.

  Lemma exec_scan_then en loc v iq pre cur c row j vis :
    lookup "split_sequences" en = Ret (VList (map VStr (pre ++ [cur]))) -> lookup "nucleotide" en = Ret (VStr [c]) ->
    lookup "accessor" en = Ret (varr2 acc) -> lookup "vertex_index" en = Ret (VInt v) ->
    lookup "nucleotides" en = Ret (VStr ACGT) -> lookup "index_queue" en = Ret (varr iq) ->
    lookup "location" en = Ret (VInt loc) -> lookup "visited_times" en = Ret (VInt vis) ->
    py_get acc v = Ok row -> nuc_index c = Some j -> 0 <= loc < Z.of_nat (length iq) ->
    exec ce fuel scan_then en =
    match py_get row j with
    | Ok nxt => ONormal (update "location" (VInt (loc + 1)) (update "visited_times" (VInt (vis + 1))
                  (update "index_queue" (varr (set_nth iq (Z.to_nat loc) nxt)) (update "vertex_index" (VInt nxt)
                  (update "split_sequences" (VList (map VStr (pre ++ [cur ++ [c]]))) en)))))
    | _ => OExn IndexError
    end.
  Proof.
    intros H1 H2 H3 H4 H5 H6 H7 H8 Hrow Hj Hloc. unfold scan_then.
    cbn [exec eval]. rewrite H1, H2. cbn [lift]. rewrite map_app. cbn [map]. rewrite index_last. cbn [lift binop_vals binop_scalar].
    rewrite store_last. cbn [lift seq].
    rewrite (eval_next _ v row c j) by (lk; assumption).
    destruct (py_get row j) as [nxt|e|]; cbn [lift seq]; try reflexivity.
    cbn [assign seq eval]. lks. cbn [lift]. rewrite store_varr by exact Hloc. cbn [lift seq]. lks.
    cbn [lift binop_vals binop_scalar seq]. lks. cbn [lift binop_vals binop_scalar].
    rewrite map_app. reflexivity.
  Qed.

  Lemma exec_scan_else en loc iq pre cur det chunks markers :
    lookup "detected_count" en = Ret (VInt det) -> lookup "split_sequences" en = Ret (VList (map VStr (pre ++ [cur]))) ->
    lookup "observed_length" en = Ret (VInt k) -> lookup "dna_sequence" en = Ret (VStr s) ->
    lookup "location" en = Ret (VInt loc) -> lookup "nucleotides" en = Ret (VStr ACGT) ->
    lookup "index_markers" en = Ret (VList (map varr markers)) -> lookup "index_queue" en = Ret (varr iq) ->
    lookup "chuck_sequences" en = Ret (VList (map VStr chunks)) ->
    exec ce fuel scan_else en =
    match dna_to_number_int (py_slice s (loc + 1) (loc + k + 1)) with
    | Ok v' => ONormal (update "location" (VInt (loc + k + 1))
                 (update "chuck_sequences" (VList (map VStr (chunks ++ [py_slice s (loc - k + 1) (loc + k)])))
                 (update "index_markers" (VList (map varr (markers ++ [py_slice iq (loc - k) loc])))
                 (update "split_sequences" (VList (map VStr ((pre ++ [py_slice_to cur (Z.of_nat (length cur) - k + 1)]) ++ [[nuc_char (v' mod 4)]])))
                 (update "vertex_index" (VInt v')
                 (update "split_sequences" (VList (map VStr (pre ++ [py_slice_to cur (Z.of_nat (length cur) - k + 1)])))
                 (update "detected_count" (VInt (det + 1)) en)))))))
    | Raise e => OExn e
    | OutOfFuel => OFuel
    end.
  Proof.
    intros H1 H2 H3 H4 H5 H6 H7 H8 H9. unfold scan_else.
    rewrite map_app in H2. cbn [map] in H2.
    cbn [exec eval]. rewrite H1. cbn [lift binop_vals binop_scalar seq]. lks. cbn [rbind].
    rewrite index_last. cbn [rbind builtin1_val binop_vals binop_scalar slice_val opt_int lift assign eval].
    lks. cbn [lift]. rewrite store_last. cbn [lift seq]. lks.
    cbn [rbind binop_vals binop_scalar slice_val opt_int].
    rewrite (proj1 Hce).
    destruct (dna_to_number_int (py_slice s (loc + 1) (loc + k + 1))) as [v'|e|]; cbn [lift seq]; try reflexivity.
    cbn [assign seq]. lks. cbn [lift rbind binop_vals binop_scalar]. change (4 =? 0) with false. cbv iota. cbn [rbind].
    fold ACGT. rewrite index_nuc by lia. cbn [lift seq]. lks.
    cbn [rbind binop_vals binop_scalar]. rewrite slice_varr. cbn [lift seq]. lks.
    cbn [rbind binop_vals binop_scalar slice_val opt_int lift seq]. lks. cbn [rbind binop_vals binop_scalar lift].
    rewrite !map_app. cbn [map]. rewrite Z.add_assoc. reflexivity.
  Qed.

  Lemma scan_body_step en loc v iq cur sc c :
    scan_inv en loc v iq cur sc -> py_get s loc = Ok c -> 0 <= loc < Z.of_nat (length iq) ->
    match step_arc acc v c with
    | Ok (Some nxt) =>
        exists en', exec ce fuel scan_body en = ONormal en' /\
          scan_inv en' (loc + 1) nxt (set_nth iq (Z.to_nat loc) nxt) (cur ++ [c])
                   {| sc_splits := sc_splits sc; sc_chunks := sc_chunks sc; sc_markers := sc_markers sc;
                      sc_detected := sc_detected sc; sc_visited := sc_visited sc + 1 |}
    | Ok None =>
        match dna_to_number_int (py_slice s (loc + 1) (loc + k + 1)) with
        | Ok v' =>
            exists en', exec ce fuel scan_body en = ONormal en' /\
              scan_inv en' (loc + k + 1) v' iq [nuc_char (v' mod 4)]
                   {| sc_splits := py_slice_to cur (Z.of_nat (length cur) - k + 1) :: sc_splits sc;
                      sc_chunks := sc_chunks sc ++ [py_slice s (loc - k + 1) (loc + k)];
                      sc_markers := sc_markers sc ++ [py_slice iq (loc - k) loc];
                      sc_detected := sc_detected sc + 1; sc_visited := sc_visited sc |}
        | Raise e => exec ce fuel scan_body en = OExn e
        | OutOfFuel => exec ce fuel scan_body en = OFuel
        end
    | Raise e => exec ce fuel scan_body en = OExn e
    | OutOfFuel => exec ce fuel scan_body en = OFuel
    end.
  Proof.
    intros ((F1 & F2 & F3 & F4 & F5 & F6 & F7) & I1 & I2 & I3 & I4 & I5 & I6 & I7 & I8 & I9) Hc Hloc.
    remember (exec ce fuel scan_body en) as out eqn:EX.
    unfold scan_body in EX. cbn [exec eval] in EX. rewrite (eval_used en v F2 I2) in EX. unfold step_arc.
    destruct (py_get acc v) as [row|e|] eqn:Erow; cbn [rbind lift bind] in EX |- *.
    - rewrite F1, I1 in EX. cbn [rbind] in EX. unfold index_val at 1 in EX. rewrite Hc in EX.
      cbn [rbind lift assign items bind_tuple seq] in EX.
      set (en1 := update "nucleotide" (VStr [c]) (update "used_indices" (varr (used_indices row)) en)) in *.
      assert (E1 : forall x, x <> "nucleotide" -> x <> "used_indices" -> lookup x en1 = lookup x en).
      { intros x N1 N2. unfold en1. rewrite !lookup_update_other by assumption. reflexivity. }
      rewrite !E1 in EX by discriminate. rewrite F1, I1 in EX. cbn [rbind] in EX. unfold index_val at 1 in EX. rewrite Hc in EX.
      cbn [rbind] in EX.
      rewrite (eval_comp en1 (used_indices row)) in EX; [|rewrite E1 by discriminate; exact F7|unfold en1; lk; reflexivity
                                                   |apply used_range, (row_len v), Erow].
      cbn [rbind] in EX. rewrite cmp_in_nucs in EX by (apply used_range, (row_len v), Erow). cbn [lift truthy] in EX.
      pose proof (exec_scan_else en1 loc iq (rev (sc_splits sc)) cur (sc_detected sc) (sc_chunks sc) (sc_markers sc)
                    ltac:(via E1) ltac:(via E1) ltac:(via E1) ltac:(via E1) ltac:(via E1) ltac:(via E1) ltac:(via E1)
                    ltac:(via E1) ltac:(via E1)) as Helse.
      assert (HN : lookup "nucleotide" en1 = Ret (VStr [c])) by (unfold en1; lk; reflexivity).
      pose proof (fun j Hj => exec_scan_then en1 loc v iq (rev (sc_splits sc)) cur c row j (sc_visited sc)
                    ltac:(via E1) HN ltac:(via E1) ltac:(via E1) ltac:(via E1) ltac:(via E1) ltac:(via E1) ltac:(via E1)
                    Erow Hj Hloc) as Hthen.
      destruct (nuc_index c) as [j|] eqn:Ej; [destruct (memZ j (used_indices row)) eqn:Em|].
      + rewrite (Hthen j eq_refl) in EX.
        destruct (py_get row j) as [nxt|e|] eqn:Ex; cbn [bind].
        * eexists. split; [exact EX|]. unfold scan_inv, frame. cbn [sc_splits sc_chunks sc_markers sc_detected sc_visited].
          repeat split; lk; rewrite ?E1 by discriminate; first [assumption|reflexivity].
        * rewrite (py_get_raise _ _ _ Ex). exact EX.
        * exfalso. exact (py_get_fuel _ _ Ex).
      + cbn [bind]. rewrite Helse in EX.
        destruct (dna_to_number_int (py_slice s (loc + 1) (loc + k + 1))) as [v'|e|]; try exact EX.
        eexists. split; [exact EX|]. unfold scan_inv, frame. cbn [sc_splits sc_chunks sc_markers sc_detected sc_visited rev].
        repeat split; lk; rewrite ?E1 by discriminate; first [assumption|reflexivity].
      + cbn [bind]. rewrite Helse in EX.
        destruct (dna_to_number_int (py_slice s (loc + 1) (loc + k + 1))) as [v'|e|]; try exact EX.
        eexists. split; [exact EX|]. unfold scan_inv, frame. cbn [sc_splits sc_chunks sc_markers sc_detected sc_visited rev].
        repeat split; lk; rewrite ?E1 by discriminate; first [assumption|reflexivity].
    - rewrite (py_get_raise _ _ _ Erow). exact EX.
    - exfalso. exact (py_get_fuel _ _ Erow).
  Qed.

  Definition scan_post (en : env) (sc : scan) : Prop :=
    frame en /\
    lookup "split_sequences" en = Ret (VList (map VStr (rev (sc_splits sc)))) /\
    lookup "chuck_sequences" en = Ret (VList (map VStr (sc_chunks sc))) /\
    lookup "index_markers" en = Ret (VList (map varr (sc_markers sc))) /\
    lookup "detected_count" en = Ret (VInt (sc_detected sc)) /\
    lookup "visited_times" en = Ret (VInt (sc_visited sc)) /\
    lookup "chuck_flag" en = Ret (VBool false).

  Lemma scan_while_unfold m en loc :
    lookup "location" en = Ret (VInt loc) -> lookup "dna_sequence" en = Ret (VStr s) ->
    while_loop ce fuel scan_cond scan_body (S m) en =
    if loc <? Z.of_nat (length s) then seq (exec ce fuel scan_body en) (while_loop ce fuel scan_cond scan_body m) else ONormal en.
  Proof.
    intros H1 H2. cbn [while_loop]. unfold scan_cond at 1. cbn [eval]. rewrite H1, H2.
    cbn [rbind builtin1_val cmp_top cmp_vals cmp_scalar mixes_bool is_arr orb lift truthy].
    destruct (loc <? Z.of_nat (length s)); reflexivity.
  Qed.

  (* stage 1: the scan loop is Repair.scan_loop *)
  Lemma scan_while : forall f m loc v iq cur sc en,
    scan_inv en loc v iq cur sc -> 0 <= loc -> length iq = length s -> Z.of_nat (length s) - loc <= Z.of_nat f -> (f < m)%nat ->
    match scan_loop f s acc k loc v iq cur sc with
    | Ok sc' => exists en', while_loop ce fuel scan_cond scan_body m en = ONormal en' /\ scan_post en' sc'
    | Raise e => while_loop ce fuel scan_cond scan_body m en = OExn e
    | OutOfFuel => while_loop ce fuel scan_cond scan_body m en = OFuel
    end.
  Proof.
    induction f as [|f IH]; intros m loc v iq cur sc en HI Hloc Hiq Hf Hm; (destruct m as [|m]; [lia|]);
      pose proof HI as ((F1 & F2 & F3 & F4 & F5 & F6 & F7) & I1 & I2 & I3 & I4 & I5 & I6 & I7 & I8 & I9);
      rewrite (scan_while_unfold m en loc I1 F1).
    - rewrite scan_loop_done by lia. destruct (loc <? Z.of_nat (length s)) eqn:E; [lia|].
      exists en. split; [reflexivity|]. unfold scan_post. cbn [sc_splits sc_chunks sc_markers sc_detected sc_visited rev].
      repeat split; assumption.
    - destruct (loc <? Z.of_nat (length s)) eqn:E.
      + rewrite scan_loop_step by lia.
        assert (Hc : py_get s loc = Ok (nth (Z.to_nat loc) s 0)) by (apply py_get_okZ; lia).
        rewrite Hc. cbn [bind].
        pose proof (scan_body_step en loc v iq cur sc _ HI Hc ltac:(lia)) as BS.
        destruct (step_arc acc v (nth (Z.to_nat loc) s 0)) as [[nxt|]|e|]; cbn [bind].
        * destruct BS as (en1 & EX & HI1). rewrite EX. cbn [seq].
          apply IH; [exact HI1|lia|rewrite set_nth_length; exact Hiq|lia|lia].
        * destruct (dna_to_number_int (py_slice s (loc + 1) (loc + k + 1))) as [v'|e|]; cbn [bind].
          -- destruct BS as (en1 & EX & HI1). rewrite EX. cbn [seq].
             apply IH; [exact HI1|lia|exact Hiq|lia|lia].
          -- rewrite BS. reflexivity.
          -- rewrite BS. reflexivity.
        * rewrite BS. reflexivity.
        * rewrite BS. reflexivity.
      + rewrite scan_loop_done by lia.
        exists en. split; [reflexivity|]. unfold scan_post. cbn [sc_splits sc_chunks sc_markers sc_detected sc_visited rev].
        repeat split; assumption.
  Qed.

  Lemma scan_loop_lengths : forall f loc v iq cur sc sc',
    scan_loop f s acc k loc v iq cur sc = Ok sc' ->
    length (sc_splits sc) = length (sc_chunks sc) -> length (sc_chunks sc) = length (sc_markers sc) ->
    length (sc_splits sc') = S (length (sc_chunks sc')) /\ length (sc_chunks sc') = length (sc_markers sc').
  Proof.
    induction f as [|f IH]; intros loc v iq cur sc sc' H L1 L2.
    - cbn [scan_loop] in H. destruct (Z.of_nat (length s) <=? loc); [|discriminate].
      injection H as <-. cbn [sc_splits sc_chunks sc_markers length]. split; [f_equal; exact L1|exact L2].
    - destruct (Z.of_nat (length s) <=? loc) eqn:E.
      + rewrite scan_loop_done in H by lia. injection H as <-. cbn [sc_splits sc_chunks sc_markers length].
        split; [f_equal; exact L1|exact L2].
      + rewrite scan_loop_step in H by lia.
        destruct (py_get s loc) as [c|e|]; cbn [bind] in H; try discriminate.
        destruct (step_arc acc v c) as [[nxt|]|e|]; cbn [bind] in H; try discriminate.
        * apply IH in H; [exact H|exact L1|exact L2].
        * destruct (dna_to_number_int (py_slice s (loc + 1) (loc + k + 1))) as [v'|e|]; cbn [bind] in H; try discriminate.
          apply IH in H; [exact H| |]; cbn [sc_splits sc_chunks sc_markers length]; rewrite !app_length; cbn [length]; lia.
  Qed.

  (* ---- stage 2: the fragment sets ---------------------------------------------------------------------------------------- *)
  Lemma mem_val_strs x : forall l, mem_val (VStr x) (map VStr l) = mem_str x l.
  Proof. induction l as [|y t IH]; [reflexivity|]. cbn [map mem_val mem_str val_eqb]. rewrite IH. reflexivity. Qed.

  (* what `for _, fragment in record: if dna_sequence not in set: set.add(fragment)` does to the set, as a list in insertion order *)
  Definition padd (l : list (list Z)) (rc : record) : list (list Z) :=
    if mem_str s l then l else if mem_str (snd rc) l then l else l ++ [snd rc].
  Definition madd (fs : list (list Z)) (rc : record) : list (list Z) :=
    if mem_str s fs then fs else insert_str (snd rc) fs.

  Definition add_mods : list string := ["repaired_fragment_set"; "_"; "fragment"].

  Lemma add_loop occ pre post : forall recs l en,
    lookup "repaired_fragment_set" en = Ret (VList (pre ++ VSet (map VStr l) :: post)) ->
    lookup "index" en = Ret (VInt (Z.of_nat (length pre))) -> lookup "dna_sequence" en = Ret (VStr s) ->
    exists en', for_loop ce fuel (TTuple ["_"; "fragment"]) add_stmt (map (v_record occ) recs) en = ONormal en' /\
      lookup "repaired_fragment_set" en' = Ret (VList (pre ++ VSet (map VStr (fold_left padd recs l)) :: post)) /\
      unch add_mods en en'.
  Proof.
    induction recs as [|[[kd nuc] str] recs IH]; intros l en H1 H2 H3.
    - exists en. split; [reflexivity|]. split; [exact H1|apply unch_refl].
    - cbn [map fold_left]. rewrite for_loop_cons. unfold v_record at 1. cbn [assign items lift bind_tuple seq].
      set (en1 := update "fragment" (VStr str) (update "_" _ en)).
      assert (E1 : unch ["_"; "fragment"] en en1) by (unfold en1; unch_solve).
      assert (EX : exec ce fuel add_stmt en1 =
                   ONormal (if mem_str s l then en1
                            else update "repaired_fragment_set" (VList (pre ++ VSet (map VStr (padd l (kd, nuc, str))) :: post)) en1)).
      { unfold add_stmt. cbn [exec eval]. un E1. rewrite H1, H2, H3. cbn [rbind]. rewrite index_mid. cbn [rbind].
        cbn [cmp_top cmp_vals cmp_scalar key_ok]. rewrite mem_val_strs. cbn [lift truthy]. unfold padd.
        destruct (mem_str s l); cbn [negb]; [reflexivity|].
        rewrite index_mid. cbn [lift]. unfold en1 at 1. lk. cbn [lift key_ok snd]. rewrite mem_val_strs, store_mid. cbn [lift].
        destruct (mem_str str l); [reflexivity|]. rewrite map_app. reflexivity. }
      rewrite EX. cbn [seq].
      destruct (mem_str s l) eqn:Em.
      + destruct (IH l en1) as (en' & EL & R1 & U1); [un E1; exact H1|un E1; exact H2|un E1; exact H3|].
        exists en'. split; [exact EL|]. split; [|eapply unch_trans; [|exact U1]; unfold en1; unch_solve].
        replace (padd l (kd, nuc, str)) with l by (unfold padd; rewrite Em; reflexivity). exact R1.
      + destruct (IH (padd l (kd, nuc, str)) (update "repaired_fragment_set" (VList (pre ++ VSet (map VStr (padd l (kd, nuc, str))) :: post)) en1))
          as (en' & EL & R1 & U1); [lk; reflexivity|lk; un E1; exact H2|lk; un E1; exact H3|].
        exists en'. split; [exact EL|]. split; [exact R1|].
        eapply unch_trans; [|exact U1]. unfold en1. unch_solve.
  Qed.

  Lemma mem_str_iff x : forall l, mem_str x l = true <-> In x l.
  Proof.
    induction l as [|y t IH]; cbn [mem_str In]; [split; [discriminate|contradiction]|].
    rewrite orb_true_iff, IH. split; (intros [H|H]; [left|right; exact H]).
    - symmetry. apply listZ_eqb_true, H.
    - subst y. apply rp_eqb_refl.
  Qed.

  Lemma mem_str_ext x l l' : (forall y, In y l <-> In y l') -> mem_str x l = mem_str x l'.
  Proof.
    intro H. destruct (mem_str x l) eqn:E1; destruct (mem_str x l') eqn:E2; try reflexivity.
    - apply mem_str_iff, H, mem_str_iff in E1. congruence.
    - apply mem_str_iff, H, mem_str_iff in E2. congruence.
  Qed.

  Lemma nodup_snoc {A} (x : A) : forall l, NoDup l -> ~ In x l -> NoDup (l ++ [x]).
  Proof.
    induction l as [|y t IH]; intros N H; cbn [app]; [constructor; [intros []|constructor]|].
    apply NoDup_cons_iff in N. destruct N as [N1 N2]. constructor.
    - rewrite in_app_iff. cbn [In]. intros [H1|[H1|[]]]; [contradiction|]. apply H. left. symmetry. exact H1.
    - apply IH; [exact N2|]. intro H1. apply H. right. exact H1.
  Qed.

  (* the program's set (insertion order) against the model's (sorted) *)
  Definition srel (l fr : list (list Z)) : Prop :=
    NoDup l /\ StronglySorted lexlt fr /\ (forall x, In x l <-> In x fr).

  Lemma srel_nil : srel [] [].
  Proof. split; [constructor|split; [constructor|intro x; reflexivity]]. Qed.

  Lemma srel_step l fr rc : srel l fr -> srel (padd l rc) (madd fr rc).
  Proof.
    intros (N & S & I). unfold padd, madd. rewrite (mem_str_ext s l fr I).
    destruct (mem_str s fr); [split; [exact N|split; [exact S|exact I]]|].
    split; [|split].
    - destruct (mem_str (snd rc) l) eqn:E; [exact N|].
      apply nodup_snoc; [exact N|]. intro Hx. apply mem_str_iff in Hx. congruence.
    - apply insert_str_sorted, S.
    - intro x. rewrite insert_str_in. destruct (mem_str (snd rc) l) eqn:E.
      + rewrite <- I. apply mem_str_iff in E. split; [intro H; right; exact H|intros [->|H]; assumption].
      + rewrite in_app_iff, <- I. cbn [In]. split; [intros [H|[H|[]]]; [right; exact H|left; symmetry; exact H]
                                                    |intros [H|H]; [right; left; symmetry; exact H|left; exact H]].
  Qed.

  Lemma srel_fold : forall recs l fr, srel l fr -> srel (fold_left padd recs l) (fold_left madd recs fr).
  Proof. induction recs as [|rc recs IH]; intros l fr H; [exact H|]. cbn [fold_left]. apply IH, srel_step, H. Qed.

  Lemma ssorted_lex_nodup : forall l, StronglySorted lexlt l -> NoDup l.
  Proof.
    induction l as [|h t IH]; intros Hs; [constructor|].
    apply StronglySorted_inv in Hs. destruct Hs as [Hst Hfa]. constructor; [|apply IH; exact Hst].
    intro Hin. rewrite Forall_forall in Hfa. exact (lexlt_irrefl _ (Hfa _ Hin)).
  Qed.

  Lemma srel_perm l fr : srel l fr -> Permutation l fr.
  Proof. intros (N & S & I). apply NoDup_Permutation; [exact N|apply ssorted_lex_nodup, S|exact I]. Qed.

  (* every marker index_queue[loc - k : loc] has at most k entries (also when loc - k is negative and wraps) *)
  Lemma scan_loop_markers : forall f loc v iq cur sc sc',
    scan_loop f s acc k loc v iq cur sc = Ok sc' -> 0 <= loc -> length iq = length s ->
    Forall (fun mk => Z.of_nat (length mk) <= k) (sc_markers sc) ->
    Forall (fun mk => Z.of_nat (length mk) <= k) (sc_markers sc').
  Proof.
    induction f as [|f IH]; intros loc v iq cur sc sc' H Hloc Hiq HF.
    - cbn [scan_loop] in H. destruct (Z.of_nat (length s) <=? loc); [|discriminate]. injection H as <-. exact HF.
    - destruct (Z.of_nat (length s) <=? loc) eqn:E.
      + rewrite scan_loop_done in H by lia. injection H as <-. exact HF.
      + rewrite scan_loop_step in H by lia.
        destruct (py_get s loc) as [c|e|]; cbn [bind] in H; try discriminate.
        destruct (step_arc acc v c) as [[nxt|]|e|]; cbn [bind] in H; try discriminate.
        * apply IH in H; [exact H|lia|rewrite set_nth_length; exact Hiq|exact HF].
        * destruct (dna_to_number_int (py_slice s (loc + 1) (loc + k + 1))) as [v'|e|]; cbn [bind] in H; try discriminate.
          apply IH in H; [exact H|lia|exact Hiq|]. cbn [sc_markers]. apply Forall_app. split; [exact HF|].
          constructor; [|constructor]. rewrite py_slice_length, Hiq. unfold clampZ.
          destruct (loc <? 0) eqn:E1; [lia|]. destruct (loc - k <? 0) eqn:E2;
            repeat match goal with |- context [if ?b then _ else _] => destruct b eqn:? end; lia.
  Qed.

  Definition recall_mods : list string :=
    ["recall"; "vertex_index"; "record"; "times"; "visited_times"; "repaired_fragment_set"; "_"; "fragment"].

  Definition rc_inv (en : env) (ch : list Z) (pre post : list val) (l : list (list Z)) (vis : Z) : Prop :=
    lookup "chuck_sequence" en = Ret (VStr ch) /\ lookup "accessor" en = Ret (varr2 acc) /\
    lookup "observed_length" en = Ret (VInt k) /\ lookup "has_indel" en = Ret (VBool hi) /\
    lookup "dna_sequence" en = Ret (VStr s) /\ lookup "index" en = Ret (VInt (Z.of_nat (length pre))) /\
    lookup "visited_times" en = Ret (VInt vis) /\
    lookup "repaired_fragment_set" en = Ret (VList (pre ++ VSet (map VStr l) :: post)).

  Lemma exec_recall_body en ch pre post l vis r pv :
    rc_inv en ch pre post l vis -> lookup "recall" en = Ret (VInt r) -> lookup "vertex_index" en = Ret (VInt pv) ->
    0 <= k - r - 1 ->
    match path_matching ch acc pv (k - r - 1) hi with
    | Ok (recs, t) => exists en', exec ce fuel recall_body en = ONormal en' /\
                        rc_inv en' ch pre post (fold_left padd recs l) (vis + t) /\ unch recall_mods en en'
    | Raise e => exec ce fuel recall_body en = OExn e
    | OutOfFuel => exec ce fuel recall_body en = OFuel
    end.
  Proof.
    intros (I1 & I2 & I3 & I4 & I5 & I6 & I7 & I8) HR HV Hocc.
    unfold recall_body. cbn [exec eval]. rewrite I1, I2, I3, I4, HR, HV. cbn [rbind binop_vals binop_scalar].
    rewrite Hpm by exact Hocc. destruct (path_matching ch acc pv (k - r - 1) hi) as [[recs t]|e|]; cbn [res_of_matching lift]; try reflexivity.
    cbn [assign items lift bind_tuple seq]. lks. cbn [lift binop_vals binop_scalar seq].
    set (en3 := update "visited_times" _ _).
    assert (E3 : unch ["record"; "times"; "visited_times"] en en3) by (unfold en3; unch_solve).
    unfold add_for. rewrite exec_for. cbn [eval]. unfold en3 at 1. lk. cbn [lift items].
    destruct (add_loop (k - r - 1) pre post recs l en3) as (en' & EL & R1 & U1); [un E3; exact I8|un E3; exact I6|un E3; exact I5|].
    exists en'. split; [exact EL|]. split.
    - unfold rc_inv. split; [|split; [|split; [|split; [|split; [|split; [|split]]]]]]; try exact R1;
        rewrite (U1 _) by reflexivity; try (un E3; assumption).
      unfold en3. lk. reflexivity.
    - eapply unch_trans; [|eapply unch_weaken; [|exact U1]].
      + unfold en3. unch_solve.
      + intros x Hx. unfold inb, recall_mods, add_mods in *. cbn [existsb] in *.
        repeat (apply orb_false_elim in Hx; destruct Hx as [? Hx]). repeat (apply orb_false_intro; try assumption).
  Qed.

  Lemma recall_loop ch pre post : forall rm r l fr vis en,
    srel l fr -> rc_inv en ch pre post l vis -> 0 <= r -> r + Z.of_nat (length rm) <= k ->
    match fragments_of ch acc k hi s rm r fr vis with
    | Ok (fr', vis') =>
        exists en' l', for_loop ce fuel (TTuple ["recall"; "vertex_index"]) recall_body (enumerate_from r (map VInt rm)) en = ONormal en' /\
          srel l' fr' /\ rc_inv en' ch pre post l' vis' /\ unch recall_mods en en'
    | Raise e => for_loop ce fuel (TTuple ["recall"; "vertex_index"]) recall_body (enumerate_from r (map VInt rm)) en = OExn e
    | OutOfFuel => for_loop ce fuel (TTuple ["recall"; "vertex_index"]) recall_body (enumerate_from r (map VInt rm)) en = OFuel
    end.
  Proof.
    induction rm as [|pv rm IH]; intros r l fr vis en HS HI Hr Hrm.
    - cbn [fragments_of map enumerate_from for_loop]. exists en, l. split; [reflexivity|]. split; [exact HS|]. split; [exact HI|apply unch_refl].
    - cbn [fragments_of map enumerate_from]. rewrite for_loop_cons. cbn [assign items lift bind_tuple seq].
      set (en1 := update "vertex_index" _ _).
      assert (E1 : unch ["recall"; "vertex_index"] en en1) by (unfold en1; unch_solve).
      assert (HI1 : rc_inv en1 ch pre post l vis).
      { destruct HI as (I1 & I2 & I3 & I4 & I5 & I6 & I7 & I8). unfold rc_inv. un E1. repeat split; assumption. }
      pose proof (exec_recall_body en1 ch pre post l vis r pv HI1 ltac:(unfold en1; lk; reflexivity) ltac:(unfold en1; lk; reflexivity)
                    ltac:(cbn [length] in Hrm; lia)) as BS.
      destruct (path_matching ch acc pv (k - r - 1) hi) as [[recs t]|e|]; cbn [bind fst snd]; [|rewrite BS; reflexivity|rewrite BS; reflexivity].
      destruct BS as (en2 & EX & HI2 & U2). rewrite EX. cbn [seq].
      specialize (IH (r + 1) (fold_left padd recs l) (fold_left madd recs fr) (vis + t) en2 (srel_fold recs l fr HS) HI2
                     ltac:(lia) ltac:(cbn [length] in Hrm; lia)).
      fold madd. change (fold_left (fun fs rc => madd fs rc) recs fr) with (fold_left madd recs fr).
      destruct (fragments_of ch acc k hi s rm (r + 1) (fold_left madd recs fr) (vis + t)) as [[fr' vis']|e|]; try exact IH.
      destruct IH as (en' & l' & EL & HS' & HI' & U'). exists en', l'. split; [exact EL|]. split; [exact HS'|]. split; [exact HI'|].
      eapply unch_trans; [|exact U']. eapply unch_trans; [|exact U2]. unfold en1. unch_solve.
  Qed.

  Definition vl (l : list (list Z)) : val := VList (map VStr l).

  Lemma exec_chunk_body en ch mk pre post vis :
    rc_inv en ch pre post [] vis -> lookup "index_marker" en = Ret (varr mk) -> Z.of_nat (length mk) <= k ->
    match fragments_of ch acc k hi s (rev mk) 0 [] vis with
    | Ok (fr', vis') =>
        exists en' l', exec ce fuel chunk_body en = ONormal en' /\ Permutation l' fr' /\
          lookup "repaired_fragment_set" en' = Ret (VList (pre ++ vl l' :: post)) /\
          lookup "visited_times" en' = Ret (VInt vis') /\ unch recall_mods en en'
    | Raise e => exec ce fuel chunk_body en = OExn e
    | OutOfFuel => exec ce fuel chunk_body en = OFuel
    end.
  Proof.
    intros HI HM Hmk. remember (exec ce fuel chunk_body en) as out eqn:EX.
    unfold chunk_body in EX. cbn [exec] in EX. unfold recall_for in EX. rewrite exec_for in EX. cbn [eval] in EX. rewrite HM in EX.
    unfold varr at 1 in EX. cbn [rbind builtin1_val items lift] in EX. rewrite <- map_rev in EX.
    pose proof (recall_loop ch pre post (rev mk) 0 [] [] vis en srel_nil HI ltac:(lia) ltac:(rewrite rev_length; lia)) as RL.
    destruct (fragments_of ch acc k hi s (rev mk) 0 [] vis) as [[fr' vis']|e|]; [|rewrite RL in EX; exact EX|rewrite RL in EX; exact EX].
    destruct RL as (en1 & l' & EL & HS & (I1 & I2 & I3 & I4 & I5 & I6 & I7 & I8) & U1). rewrite EL in EX. cbn [seq] in EX.
    cbn [eval] in EX. rewrite I8, I6 in EX. cbn [rbind] in EX. rewrite index_mid in EX.
    cbn [rbind builtin1_val items lift assign eval] in EX. rewrite I6, I8 in EX.
    cbn [lift] in EX. rewrite store_mid in EX. cbn [lift] in EX.
    eexists. exists l'. split; [exact EX|]. split; [apply srel_perm, HS|]. split; [lk; reflexivity|]. split; [lk; exact I7|].
    apply unch_update; [reflexivity|exact U1].
  Qed.

  Definition chunk_mods : list string :=
    ["index"; "chuck_sequence"; "index_marker"; "recall"; "vertex_index"; "record"; "times"; "visited_times"; "repaired_fragment_set"; "_"; "fragment"].

  Lemma recall_chunk_mods x : inb x chunk_mods = false -> inb x recall_mods = false.
  Proof.
    intros Hx. unfold inb, recall_mods, chunk_mods in *. cbn [existsb] in *.
    repeat (apply orb_false_elim in Hx; destruct Hx as [? Hx]). repeat (apply orb_false_intro; try assumption).
  Qed.

  Definition pairs (chunks markers : list (list Z)) : list val :=
    map (fun p => VTuple [fst p; snd p]) (combine (map VStr chunks) (map varr markers)).

  Lemma chunk_for : forall chunks markers done vis en, length chunks = length markers ->
    Forall (fun mk => Z.of_nat (length mk) <= k) markers ->
    lookup "accessor" en = Ret (varr2 acc) -> lookup "observed_length" en = Ret (VInt k) -> lookup "has_indel" en = Ret (VBool hi) ->
    lookup "dna_sequence" en = Ret (VStr s) -> lookup "visited_times" en = Ret (VInt vis) ->
    lookup "repaired_fragment_set" en = Ret (VList (done ++ repeat (VSet []) (length chunks))) ->
    match all_fragments chunks markers acc k hi s vis with
    | Ok (frs, vis') =>
        exists en' frs', for_loop ce fuel (TPair "index" ["chuck_sequence"; "index_marker"]) chunk_body
                           (enumerate_from (Z.of_nat (length done)) (pairs chunks markers)) en = ONormal en' /\
          Forall2 (@Permutation (list Z)) frs' frs /\
          lookup "repaired_fragment_set" en' = Ret (VList (done ++ map vl frs')) /\
          lookup "visited_times" en' = Ret (VInt vis') /\ unch chunk_mods en en'
    | Raise e => for_loop ce fuel (TPair "index" ["chuck_sequence"; "index_marker"]) chunk_body
                           (enumerate_from (Z.of_nat (length done)) (pairs chunks markers)) en = OExn e
    | OutOfFuel => for_loop ce fuel (TPair "index" ["chuck_sequence"; "index_marker"]) chunk_body
                           (enumerate_from (Z.of_nat (length done)) (pairs chunks markers)) en = OFuel
    end.
  Proof.
    induction chunks as [|ch chunks IH]; intros [|mk markers] done vis en HL HM H1 H2 H3 H4 H5 H6; try discriminate HL.
    - cbn [all_fragments pairs map combine enumerate_from for_loop]. exists en, []. split; [reflexivity|]. split; [constructor|].
      split; [exact H6|]. split; [exact H5|apply unch_refl].
    - cbn [all_fragments]. unfold pairs. cbn [map combine enumerate_from fst snd]. rewrite for_loop_cons.
      cbn [assign items lift bind_tuple seq].
      set (en1 := update "index_marker" _ _).
      assert (E1 : unch ["index"; "chuck_sequence"; "index_marker"] en en1) by (unfold en1; unch_solve).
      assert (HI1 : rc_inv en1 ch done (repeat (VSet []) (length chunks)) [] vis).
      { unfold rc_inv. un E1. cbn [length repeat] in H6. repeat split; try assumption; unfold en1; lk; reflexivity. }
      inversion HM as [|? ? Hmk HM']; subst.
      pose proof (exec_chunk_body en1 ch mk done _ vis HI1 ltac:(unfold en1; lk; reflexivity) Hmk) as CB.
      destruct (fragments_of ch acc k hi s (rev mk) 0 [] vis) as [[fr1 vis1]|e|]; cbn [bind fst snd];
        [|rewrite CB; reflexivity|rewrite CB; reflexivity].
      destruct CB as (en2 & l1 & EX & HP & R2 & V2 & U2). rewrite EX. cbn [seq].
      assert (U12 : unch chunk_mods en en2).
      { eapply unch_trans; [|eapply unch_weaken; [exact recall_chunk_mods|exact U2]]. unfold en1. unch_solve. }
      specialize (IH markers (done ++ [vl l1]) vis1 en2 ltac:(cbn [length] in HL; lia) HM').
      rewrite app_length in IH. cbn [length] in IH. replace (Z.of_nat (length done + 1)) with (Z.of_nat (length done) + 1) in IH by lia.
      fold (pairs chunks markers).
      rewrite !(U12 _) in IH by reflexivity. rewrite <- app_assoc in IH. cbn [app] in IH.
      specialize (IH H1 H2 H3 H4 V2 R2).
      destruct (all_fragments chunks markers acc k hi s vis1) as [[frs vis']|e|]; cbn [bind fst snd]; try exact IH.
      destruct IH as (en' & frs' & EL & HF & R' & V' & U'). exists en', (l1 :: frs'). split; [exact EL|].
      split; [constructor; assumption|]. split; [rewrite R', <- app_assoc; reflexivity|]. split; [exact V'|].
      eapply unch_trans; eassumption.
  Qed.

  (* ---- the list of empty sets ------------------------------------------------------------------------------------------------ *)
  Lemma zrange_up_length : forall n a st, length (zrange_up n a st) = n.
  Proof. induction n as [|n IH]; intros a st; cbn [zrange_up length]; [reflexivity|rewrite IH; reflexivity]. Qed.

  Lemma map_res_const {A B} (c : B) : forall l : list A, map_res (fun _ => Ret c) l = Ret (repeat c (length l)).
  Proof. induction l as [|x t IH]; [reflexivity|]. cbn [map_res length repeat]. cbn [rbind]. rewrite IH. reflexivity. Qed.

  Lemma range_nat (n : nat) : range3 0 (Z.of_nat n) 1 = Ret (zrange_up n 0 1).
  Proof.
    unfold range3. change (1 =? 0) with false. change (0 <? 1) with true. cbv iota.
    replace (Z.to_nat ((Z.of_nat n - 0 + 1 - 1) / 1)) with n; [reflexivity|].
    rewrite Z.div_1_r. lia.
  Qed.

  Lemma exec_rfs_init en markers : lookup "index_markers" en = Ret (VList (map varr markers)) ->
    exec ce fuel rfs_init en = ONormal (update "repaired_fragment_set" (VList (repeat (VSet []) (length markers))) en).
  Proof.
    intro H. unfold rfs_init. cbn [exec eval]. rewrite H. cbn [rbind builtin1_val]. rewrite map_length, range_nat.
    cbn [rbind items]. rewrite (map_res_const (VSet [])). rewrite zrange_up_length. reflexivity.
  Qed.

  (* ---- stage 3: count and the early exit ----------------------------------------------------------------------------------- *)
  Definition count_of (frs : list (list (list Z))) (c : Z) : Z := fold_left (fun a f => a * Z.of_nat (length f)) frs c.

  Lemma count_for : forall frs c en, lookup "count" en = Ret (VInt c) ->
    exists en', for_loop ce fuel (TVar "fragments") (SAug (TVar "count") Mul (EB1 BLen (EVar "fragments"))) (map vl frs) en = ONormal en' /\
      lookup "count" en' = Ret (VInt (count_of frs c)) /\ unch ["fragments"; "count"] en en'.
  Proof.
    induction frs as [|f frs IH]; intros c en H.
    - exists en. split; [reflexivity|]. split; [exact H|apply unch_refl].
    - cbn [map]. rewrite for_loop_cons. cbn [assign seq exec eval]. lk. rewrite H. unfold vl at 1.
      cbn [lift rbind builtin1_val binop_vals binop_scalar]. rewrite map_length.
      destruct (IH (c * Z.of_nat (length f)) (update "count" (VInt (c * Z.of_nat (length f))) (update "fragments" (vl f) en)))
        as (en' & EL & C' & U'); [lk; reflexivity|].
      exists en'. split; [exact EL|]. split; [exact C'|]. eapply unch_trans; [|exact U']. unch_solve.
  Qed.

  Lemma count_of_perm : forall frs' frs c, Forall2 (@Permutation (list Z)) frs' frs -> count_of frs' c = count_of frs c.
  Proof.
    intros frs' frs c H. revert c. induction H as [|l' l frs' frs HP HF IH]; intro c; [reflexivity|].
    unfold count_of in *. cbn [fold_left]. rewrite (Permutation_length HP). apply IH.
  Qed.

  Definition early_result (vis : Z) : outcome :=
    match vt with
    | Some _ => match check_matches vt s with
                | Ok true => OReturn (VTuple [VList [VStr s]; VTuple [VInt 0; VBool false; VInt 0; VInt vis]])
                | Ok false => OReturn (VTuple [VList []; VTuple [VInt 0; VBool true; VInt 0; VInt vis]])
                | Raise e => OExn e
                | OutOfFuel => OFuel
                end
    | None => OReturn (VTuple [VList [VStr s]; VTuple [VInt 0; VBool false; VInt 0; VInt vis]])
    end.

  Lemma eval_check en x c cand : lookup "vt_check" en = Ret (VStr c) -> c <> [] -> lookup x en = Ret (VStr cand) ->
    eval ce en (ECmp CEq (EVar "vt_check") (ECall "set_vt" [EVar x; EB1 BLen (EVar "vt_check")])) =
    match check_matches (Some c) cand with Ok b => Ret (VBool b) | Raise e => Exn e | OutOfFuel => Fuel end.
  Proof.
    intros H1 Hc H2. cbn [eval]. rewrite H1, H2. cbn [rbind builtin1_val].
    rewrite (proj2 Hce) by (destruct c; [congruence|cbn [length]; lia]).
    unfold check_matches. destruct (set_vt cand (Z.of_nat (length c))) as [r|e|]; cbn [rbind bind]; try reflexivity.
    cbn [cmp_top cmp_vals cmp_scalar mixes_bool is_arr orb val_eqb]. rewrite listZ_eqb_sym. reflexivity.
  Qed.

  Lemma exec_exit_if en count vis :
    lookup "count" en = Ret (VInt count) -> lookup "heap_size" en = Ret (VInt heap) ->
    lookup "vt_check" en = Ret (v_optstr' vt) -> lookup "dna_sequence" en = Ret (VStr s) ->
    lookup "visited_times" en = Ret (VInt vis) ->
    exec ce fuel exit_if en = if (count =? 0) || (heap <? count) then early_result vis else ONormal en.
  Proof.
    intros H1 H2 H3 H4 H5. unfold exit_if. rewrite exec_if. cbn [eval]. rewrite H1. cbn [rbind].
    cbn [cmp_top cmp_vals cmp_scalar mixes_bool is_arr orb val_eqb rbind truthy]. rewrite H2. cbn [rbind is_arr].
    assert (E : (if count =? 0 then Ret (VBool (count =? 0)) else Ret (VBool (heap <? count)))
                = Ret (VBool ((count =? 0) || (heap <? count)))).
    { destruct (count =? 0); reflexivity. }
    rewrite E. cbn [lift truthy]. destruct ((count =? 0) || (heap <? count)); [|reflexivity].
    unfold early_result. rewrite exec_if. cbn [eval]. rewrite H3.
    destruct vt as [c|]; cbn [v_optstr' rbind builtin1_val truthy lift negb].
    - rewrite exec_if. rewrite (eval_check en "dna_sequence" c s H3 Hvt H4).
      destruct (check_matches (Some c) s) as [[|]|e|]; cbn [lift truthy]; try reflexivity.
      + cbn [exec eval]. rewrite H4, H5. reflexivity.
      + cbn [exec eval]. rewrite H5. reflexivity.
    - cbn [exec eval]. rewrite H4, H5. reflexivity.
  Qed.

  (* ---- stage 4: product, recombination, check filter, sorted ------------------------------------------------------------- *)
  Definition cart {A} (ls : list (list A)) : list (list A) :=
    fold_right (fun l acc => flat_map (fun x => map (fun t => x :: t) acc) l) [[]] ls.

  Lemma flat_map_map {A B C} (f : A -> B) (g : B -> list C) : forall l, flat_map g (map f l) = flat_map (fun x => g (f x)) l.
  Proof. induction l as [|x t IH]; [reflexivity|]. cbn [map flat_map]. rewrite IH. reflexivity. Qed.

  Lemma map_flat_map {A B C} (f : B -> C) (g : A -> list B) : forall l, map f (flat_map g l) = flat_map (fun x => map f (g x)) l.
  Proof. induction l as [|x t IH]; [reflexivity|]. cbn [flat_map]. rewrite map_app, IH. reflexivity. Qed.

  Lemma cart_map {A B} (f : A -> B) : forall ls, cart (map (map f) ls) = map (map f) (cart ls).
  Proof.
    induction ls as [|l ls IH]; [reflexivity|]. unfold cart in *. cbn [map fold_right]. rewrite IH.
    rewrite flat_map_map, map_flat_map. apply flat_map_ext. intro x. rewrite !map_map. reflexivity.
  Qed.

  Lemma in_cart {A} : forall (ls : list (list A)) t, In t (cart ls) <-> Forall2 (@In A) t ls.
  Proof.
    induction ls as [|l ls IH]; intro t.
    - cbn. split; [intros [<-|[]]; constructor|intro H; inversion H; left; reflexivity].
    - unfold cart in *. cbn [fold_right]. rewrite in_flat_map. split.
      + intros (x & Hx & Ht). apply in_map_iff in Ht. destruct Ht as (t' & <- & Ht'). constructor; [exact Hx|apply IH, Ht'].
      + intro H. inversion H as [|x y t' l' Hx Ht']; subst. exists x. split; [exact Hx|]. apply in_map_iff. exists t'. split; [reflexivity|apply IH, Ht'].
  Qed.

  Lemma eval_product en frs : lookup "repaired_fragment_set" en = Ret (VList (map vl frs)) ->
    eval ce en (EB1 BProduct (EVar "repaired_fragment_set")) = Ret (VList (map (fun fs => VTuple (map VStr fs)) (cart frs))).
  Proof.
    intro H. cbn [eval]. rewrite H. cbn [rbind builtin1_val].
    rewrite (map_res_map _ vl (map VStr)) by (intros; reflexivity). cbn [rbind].
    change (fold_right _ [[]] (map (map VStr) frs)) with (cart (map (map VStr) frs)).
    rewrite cart_map, map_map. reflexivity.
  Qed.

  (* split_0 + f_0 + split_1 + f_1 + ... *)
  Fixpoint weave (ss fs : list (list Z)) : list Z :=
    match ss, fs with
    | sp :: ss', f :: fs' => sp ++ f ++ weave ss' fs'
    | _, _ => []
    end.

  Lemma index_mid_strs pre x post : index_val (VList (map VStr (pre ++ x :: post))) (VInt (Z.of_nat (length pre))) = Ret (VStr x).
  Proof. unfold index_val. rewrite py_get_map, py_get_mid. reflexivity. Qed.

  Lemma index_mid_tuple pre x post : index_val (VTuple (map VStr (pre ++ x :: post))) (VInt (Z.of_nat (length pre))) = Ret (VStr x).
  Proof. unfold index_val. rewrite py_get_map, py_get_mid. reflexivity. Qed.

  Lemma join_for lst : forall rest_s rest_f pre_s pre_f rds en,
    length pre_s = length pre_f -> length rest_s = length rest_f ->
    lookup "split_sequences" en = Ret (VList (map VStr (pre_s ++ rest_s ++ [lst]))) ->
    lookup "fragments" en = Ret (VTuple (map VStr (pre_f ++ rest_f))) ->
    lookup "repaired_dna_sequence" en = Ret (VStr rds) ->
    exists en', for_loop ce fuel (TVar "index") join_body (zrange_up (length rest_s) (Z.of_nat (length pre_s)) 1) en = ONormal en' /\
      lookup "repaired_dna_sequence" en' = Ret (VStr (rds ++ weave rest_s rest_f)) /\ unch ["index"; "repaired_dna_sequence"] en en'.
  Proof.
    induction rest_s as [|sp rest_s IH]; intros [|f rest_f] pre_s pre_f rds en L1 L2 H1 H2 H3; try discriminate L2.
    - exists en. split; [reflexivity|]. split; [cbn [weave]; rewrite app_nil_r; exact H3|apply unch_refl].
    - cbn [length zrange_up]. rewrite for_loop_cons. cbn [assign seq]. unfold join_body at 1. cbn [exec eval]. lk.
      rewrite H1, H2, H3. cbn [lift rbind app]. rewrite index_mid_strs, L1, index_mid_tuple. cbn [rbind binop_vals binop_scalar lift].
      set (en1 := update "repaired_dna_sequence" _ _).
      destruct (IH rest_f (pre_s ++ [sp]) (pre_f ++ [f]) (rds ++ sp ++ f) en1) as (en' & EL & R' & U').
      + rewrite !app_length, L1. reflexivity.
      + cbn [length] in L2. lia.
      + unfold en1. lk. rewrite H1, <- app_assoc. reflexivity.
      + unfold en1. lk. rewrite H2, <- app_assoc. reflexivity.
      + unfold en1. lk. reflexivity.
      + rewrite app_length in EL. cbn [length] in EL. replace (Z.of_nat (length pre_s + 1)) with (Z.of_nat (length pre_s) + 1) in EL by lia.
        exists en'. split; [cbn [seq]; rewrite <- L1; exact EL|]. split; [|eapply unch_trans; [|exact U']; unfold en1; unch_solve].
        rewrite R'. cbn [weave]. rewrite <- !app_assoc. reflexivity.
  Qed.

  Definition sadd (c : list Z) (R : list (list Z)) : list (list Z) := if mem_str c R then R else R ++ [c].

  Definition pstep (st : list (list Z) * bool) (cand : list Z) : result (list (list Z) * bool) :=
    match check_matches vt cand with
    | Ok true => Ok (sadd cand (fst st), snd st)
    | Ok false => Ok (fst st, true)
    | Raise e => Raise e
    | OutOfFuel => OutOfFuel
    end.

  Fixpoint pfold (cands : list (list Z)) (st : list (list Z) * bool) : result (list (list Z) * bool) :=
    match cands with
    | [] => Ok st
    | c :: t => st' <- pstep st c ;; pfold t st'
    end.

  Lemma exec_check en cand R fl :
    lookup "vt_check" en = Ret (v_optstr' vt) -> lookup "repaired_dna_sequence" en = Ret (VStr cand) ->
    lookup "repaired_results" en = Ret (VSet (map VStr R)) -> lookup "chuck_flag" en = Ret (VBool fl) ->
    match pstep (R, fl) cand with
    | Ok (R', fl') => exists en', exec ce fuel check_stmt en = ONormal en' /\
                        lookup "repaired_results" en' = Ret (VSet (map VStr R')) /\ lookup "chuck_flag" en' = Ret (VBool fl') /\
                        unch ["repaired_results"; "chuck_flag"] en en'
    | Raise e => exec ce fuel check_stmt en = OExn e
    | OutOfFuel => exec ce fuel check_stmt en = OFuel
    end.
  Proof.
    intros H1 H2 H3 H4.
    assert (ADD : exec ce fuel (SSetAdd "repaired_results" (EVar "repaired_dna_sequence")) en =
                  ONormal (update "repaired_results" (VSet (map VStr (sadd cand R))) en)).
    { cbn [exec eval]. rewrite H3, H2. cbn [lift key_ok]. rewrite mem_val_strs. unfold sadd.
      destruct (mem_str cand R); [reflexivity|rewrite map_app; reflexivity]. }
    remember (exec ce fuel check_stmt en) as out eqn:EX.
    unfold check_stmt in EX. rewrite exec_if in EX. cbn [eval] in EX. rewrite H1 in EX. unfold pstep. cbn [fst snd].
    destruct vt as [c|] eqn:Evt; cbn [v_optstr' rbind builtin1_val truthy lift negb] in EX.
    - rewrite exec_if in EX. rewrite (eval_check en "repaired_dna_sequence" c cand H1 Hvt H2) in EX.
      destruct (check_matches (Some c) cand) as [[|]|e|]; cbn [lift truthy] in EX; try exact EX.
      + rewrite ADD in EX. eexists. split; [exact EX|]. split; [lk; reflexivity|]. split; [lk; exact H4|unch_solve].
      + cbn [exec eval lift assign] in EX. eexists. split; [exact EX|]. split; [lk; exact H3|]. split; [lk; reflexivity|unch_solve].
    - cbn [check_matches]. rewrite ADD in EX. eexists. split; [exact EX|]. split; [lk; reflexivity|]. split; [lk; exact H4|unch_solve].
  Qed.

  Definition prod_mods : list string := ["fragments"; "repaired_dna_sequence"; "index"; "repaired_results"; "chuck_flag"].

  Lemma exec_product_body en ss lst fs R fl : length fs = length ss ->
    lookup "split_sequences" en = Ret (VList (map VStr (ss ++ [lst]))) -> lookup "fragments" en = Ret (VTuple (map VStr fs)) ->
    lookup "vt_check" en = Ret (v_optstr' vt) ->
    lookup "repaired_results" en = Ret (VSet (map VStr R)) -> lookup "chuck_flag" en = Ret (VBool fl) ->
    match pstep (R, fl) (weave ss fs ++ lst) with
    | Ok (R', fl') => exists en', exec ce fuel product_body en = ONormal en' /\
                        lookup "repaired_results" en' = Ret (VSet (map VStr R')) /\ lookup "chuck_flag" en' = Ret (VBool fl') /\
                        unch prod_mods en en'
    | Raise e => exec ce fuel product_body en = OExn e
    | OutOfFuel => exec ce fuel product_body en = OFuel
    end.
  Proof.
    intros HL H1 H2 H3 H4 H5.
    remember (exec ce fuel product_body en) as out eqn:EX.
    unfold product_body in EX. cbn [exec eval lift assign seq] in EX.
    set (en1 := update "repaired_dna_sequence" (VStr []) en) in EX.
    assert (E1 : unch ["repaired_dna_sequence"] en en1) by (unfold en1; unch_solve).
    unfold join_loop in EX. rewrite exec_for in EX. cbn [eval] in EX. rewrite (E1 "split_sequences") in EX by reflexivity.
    rewrite H1 in EX. cbn [rbind builtin1_val binop_vals binop_scalar] in EX.
    replace (Z.of_nat (length (map VStr (ss ++ [lst]))) - 1) with (Z.of_nat (length ss)) in EX
      by (rewrite map_length, app_length; cbn [length]; lia).
    rewrite range_nat in EX. cbn [rbind lift items] in EX.
    destruct (join_for lst ss fs [] [] [] en1 eq_refl (eq_sym HL)) as (en2 & EL & R2 & U2);
      [un E1; exact H1|un E1; exact H2|unfold en1; lk; reflexivity|].
    cbn [length] in EL. change (Z.of_nat 0) with 0 in EL. fold join_body in EX. rewrite EL in EX. cbn [seq] in EX.
    assert (E2 : unch ["index"; "repaired_dna_sequence"] en en2).
    { eapply unch_trans; [|exact U2]. unfold en1. unch_solve. }
    rewrite R2 in EX. rewrite (E2 "split_sequences") in EX by reflexivity. rewrite H1 in EX.
    cbn [lift rbind] in EX. rewrite map_app in EX. cbn [map] in EX. rewrite index_last in EX.
    cbn [lift binop_vals binop_scalar app seq] in EX.
    set (en3 := update "repaired_dna_sequence" _ en2) in EX.
    assert (E3 : unch ["index"; "repaired_dna_sequence"] en en3).
    { eapply unch_trans; [exact E2|]. unfold en3. unch_solve. }
    pose proof (exec_check en3 (weave ss fs ++ lst) R fl ltac:(un E3; exact H3) ltac:(unfold en3; lk; reflexivity)
                  ltac:(un E3; exact H4) ltac:(un E3; exact H5)) as CK.
    destruct (pstep (R, fl) (weave ss fs ++ lst)) as [[R' fl']|e|]; [|rewrite CK in EX; exact EX|rewrite CK in EX; exact EX].
    destruct CK as (en4 & EX4 & R4 & F4 & U4). rewrite EX4 in EX. exists en4. split; [exact EX|]. split; [exact R4|]. split; [exact F4|].
    eapply unch_trans; [eapply unch_weaken; [|exact E3]|eapply unch_weaken; [|exact U4]];
      intros x Hx; unfold inb, prod_mods in *; cbn [existsb] in *;
      repeat (apply orb_false_elim in Hx; destruct Hx as [? Hx]); repeat (apply orb_false_intro; try assumption).
  Qed.

  Lemma product_for ss lst : forall tuples R fl en,
    Forall (fun fs => length fs = length ss) tuples ->
    lookup "split_sequences" en = Ret (VList (map VStr (ss ++ [lst]))) -> lookup "vt_check" en = Ret (v_optstr' vt) ->
    lookup "repaired_results" en = Ret (VSet (map VStr R)) -> lookup "chuck_flag" en = Ret (VBool fl) ->
    match pfold (map (fun fs => weave ss fs ++ lst) tuples) (R, fl) with
    | Ok (R', fl') => exists en', for_loop ce fuel (TVar "fragments") product_body (map (fun fs => VTuple (map VStr fs)) tuples) en = ONormal en' /\
                        lookup "repaired_results" en' = Ret (VSet (map VStr R')) /\ lookup "chuck_flag" en' = Ret (VBool fl') /\
                        unch prod_mods en en'
    | Raise e => for_loop ce fuel (TVar "fragments") product_body (map (fun fs => VTuple (map VStr fs)) tuples) en = OExn e
    | OutOfFuel => for_loop ce fuel (TVar "fragments") product_body (map (fun fs => VTuple (map VStr fs)) tuples) en = OFuel
    end.
  Proof.
    induction tuples as [|fs tuples IH]; intros R fl en HF H1 H2 H3 H4.
    - cbn [map pfold for_loop]. exists en. split; [reflexivity|]. split; [exact H3|]. split; [exact H4|apply unch_refl].
    - inversion HF as [|? ? HL HF']; subst. cbn [map pfold]. rewrite for_loop_cons. cbn [assign seq].
      set (en1 := update "fragments" _ en).
      assert (E1 : unch ["fragments"] en en1) by (unfold en1; unch_solve).
      pose proof (exec_product_body en1 ss lst fs R fl HL ltac:(un E1; exact H1) ltac:(unfold en1; lk; reflexivity)
                    ltac:(un E1; exact H2) ltac:(un E1; exact H3) ltac:(un E1; exact H4)) as PB.
      destruct (pstep (R, fl) (weave ss fs ++ lst)) as [[R1 fl1]|e|]; cbn [bind]; [|rewrite PB; reflexivity|rewrite PB; reflexivity].
      destruct PB as (en2 & EX & R2 & F2 & U2). rewrite EX. cbn [seq].
      assert (E2 : unch prod_mods en en2) by (eapply unch_trans; [|exact U2]; unfold en1; unch_solve).
      specialize (IH R1 fl1 en2 HF' ltac:(un E2; exact H1) ltac:(un E2; exact H2) R2 F2).
      destruct (pfold (map (fun fs0 => weave ss fs0 ++ lst) tuples) (R1, fl1)) as [[R' fl']|e|]; try exact IH.
      destruct IH as (en' & EL & R3 & F3 & U3). exists en'. split; [exact EL|]. split; [exact R3|]. split; [exact F3|].
      eapply unch_trans; eassumption.
  Qed.

  (* sorted(list(set)) *)
  Fixpoint ins_str (x : list Z) (l : list (list Z)) : list (list Z) :=
    match l with
    | [] => [x]
    | h :: t => if lexltb h x then h :: ins_str x t else x :: l
    end.
  Definition isort (l : list (list Z)) : list (list Z) := fold_right ins_str [] l.

  Lemma eval_sorted en R : lookup "repaired_results" en = Ret (VSet (map VStr R)) ->
    eval ce en (EB1 BSorted (EB1 BList (EVar "repaired_results"))) = Ret (VList (map VStr (isort R))).
  Proof.
    intro H. cbn [eval]. rewrite H. cbn [rbind builtin1_val items].
    rewrite (map_res_map _ VStr (fun x => x)) by (intros; reflexivity). cbn [rbind]. rewrite map_id.
    f_equal. f_equal. f_equal. clear H. unfold isort. induction R as [|x R IH]; [reflexivity|]. cbn [fold_right]. rewrite IH.
    generalize (fold_right ins_str [] R) as l. induction l as [|h t IHl]; [reflexivity|]. cbn [ins_str].
    destruct (lexltb h x); [rewrite IHl|]; reflexivity.
  Qed.

  (* ---- the pure part of the tail: order does not matter --------------------------------------------------------------------- *)
  Lemma cm_cases c : check_matches vt c = Ok true \/ check_matches vt c = Ok false \/ check_matches vt c = Raise ValueError.
  Proof.
    unfold check_matches. destruct vt as [chk|]; [|left; reflexivity].
    assert (Hn : 1 <= Z.of_nat (length chk)) by (destruct chk; [congruence|cbn [length]; lia]).
    destruct (set_vt_cases c (Z.of_nat (length chk)) Hn) as [(vs & ds & _ & _ & _ & _ & E)|E]; rewrite E; cbn [bind].
    - destruct (listZ_eqb _ chk); [left|right; left]; reflexivity.
    - right; right; reflexivity.
  Qed.

  Definition bad (c : list Z) : bool := match check_matches vt c with Ok _ => false | _ => true end.
  Definition good (c : list Z) : bool := match check_matches vt c with Ok true => true | _ => false end.
  Definition rej (c : list Z) : bool := match check_matches vt c with Ok false => true | _ => false end.

  Lemma filter_checked_char : forall l,
    filter_checked vt l = if existsb bad l then Raise ValueError else Ok (filter good l, existsb rej l).
  Proof.
    induction l as [|c t IH]; [reflexivity|]. cbn [filter_checked existsb filter]. unfold bad at 1, good at 1, rej at 1.
    destruct (cm_cases c) as [E|[E|E]]; rewrite E; cbn [bind orb]; try reflexivity; rewrite IH; destruct (existsb bad t); reflexivity.
  Qed.

  Lemma pfold_char : forall l R fl,
    pfold l (R, fl) = if existsb bad l then Raise ValueError
                      else Ok (fold_left (fun R c => sadd c R) (filter good l) R, fl || existsb rej l).
  Proof.
    induction l as [|c t IH]; intros R fl; [cbn [pfold existsb filter fold_left]; rewrite orb_false_r; reflexivity|].
    cbn [pfold existsb filter]. unfold pstep, bad at 1, good at 1, rej at 1.
    destruct (cm_cases c) as [E|[E|E]]; rewrite E; cbn [bind orb fst snd]; try reflexivity; rewrite IH;
      destruct (existsb bad t); try reflexivity.
    rewrite orb_true_r. reflexivity.
  Qed.

  Lemma existsb_in_ext {A} (f : A -> bool) l l' : (forall x, In x l <-> In x l') -> existsb f l = existsb f l'.
  Proof.
    intro H. destruct (existsb f l) eqn:E1; destruct (existsb f l') eqn:E2; try reflexivity.
    - apply existsb_exists in E1. destruct E1 as (x & Hx & Fx). assert (E : existsb f l' = true) by (apply existsb_exists; exists x; split; [apply H, Hx|exact Fx]). congruence.
    - apply existsb_exists in E2. destruct E2 as (x & Hx & Fx). assert (E : existsb f l = true) by (apply existsb_exists; exists x; split; [apply H, Hx|exact Fx]). congruence.
  Qed.

  Lemma sadd_fold : forall l R, NoDup R ->
    NoDup (fold_left (fun R c => sadd c R) l R) /\ forall x, In x (fold_left (fun R c => sadd c R) l R) <-> In x R \/ In x l.
  Proof.
    induction l as [|c t IH]; intros R N; cbn [fold_left].
    - split; [exact N|]. intro x. cbn [In]. tauto.
    - assert (N1 : NoDup (sadd c R)).
      { unfold sadd. destruct (mem_str c R) eqn:E; [exact N|]. apply nodup_snoc; [exact N|]. intro Hc. apply mem_str_iff in Hc. congruence. }
      destruct (IH (sadd c R) N1) as [N2 I2]. split; [exact N2|]. intro x. rewrite I2. cbn [In]. unfold sadd.
      destruct (mem_str c R) eqn:E.
      + apply mem_str_iff in E. split; [intros [H|H]; [left; exact H|right; right; exact H]|intros [H|[<-|H]]; [left; exact H|left; exact E|right; exact H]].
      + rewrite in_app_iff. cbn [In]. tauto.
  Qed.

  Lemma ins_str_in x : forall l y, In y (ins_str x l) <-> y = x \/ In y l.
  Proof.
    induction l as [|h t IH]; intro y; cbn [ins_str In]; [split; [intros [H|[]]; left; auto|intros [H|[]]; left; auto]|].
    destruct (lexltb h x); cbn [In]; [rewrite IH|]; split; intuition auto.
  Qed.

  Lemma ins_str_sorted x : forall l, StronglySorted lexlt l -> ~ In x l -> StronglySorted lexlt (ins_str x l).
  Proof.
    induction l as [|h t IH]; intros Hs Hn; cbn [ins_str]; [constructor; [constructor|constructor]|].
    apply StronglySorted_inv in Hs. destruct Hs as [Hst Hall].
    destruct (lexltb h x) eqn:E.
    - constructor; [apply IH; [exact Hst|intro H; apply Hn; right; exact H]|].
      rewrite Forall_forall in Hall |- *. intros y Hy. apply ins_str_in in Hy. destruct Hy as [->|Hy]; [exact E|apply Hall, Hy].
    - assert (Hxh : lexlt x h).
      { destruct (lexlt_total x h) as [H|[H|H]]; [exact H|exfalso; apply Hn; left; symmetry; exact H|unfold lexlt in H; congruence]. }
      constructor; [constructor; assumption|]. constructor; [exact Hxh|].
      rewrite Forall_forall in Hall |- *. intros y Hy. eapply lexlt_trans; [exact Hxh|apply Hall, Hy].
  Qed.

  Lemma isort_sorted : forall l, NoDup l -> StronglySorted lexlt (isort l) /\ forall x, In x (isort l) <-> In x l.
  Proof.
    induction l as [|h t IH]; intro N; [split; [constructor|intro x; reflexivity]|].
    apply NoDup_cons_iff in N. destruct N as [N1 N2]. destruct (IH N2) as [S I]. unfold isort in *. cbn [fold_right]. split.
    - apply ins_str_sorted; [exact S|]. intro H. apply N1, I, H.
    - intro x. rewrite ins_str_in, I. cbn [In]. split; (intros [H|H]; [left; symmetry; exact H|right; exact H]).
  Qed.

  Lemma sorted_unique : forall l1 l2, StronglySorted lexlt l1 -> StronglySorted lexlt l2 -> (forall x, In x l1 <-> In x l2) -> l1 = l2.
  Proof.
    induction l1 as [|h1 t1 IH]; intros [|h2 t2] S1 S2 I.
    - reflexivity.
    - exfalso. apply (I h2). left. reflexivity.
    - exfalso. apply (I h1). left. reflexivity.
    - apply StronglySorted_inv in S1. destruct S1 as [S1 A1]. apply StronglySorted_inv in S2. destruct S2 as [S2 A2].
      rewrite Forall_forall in A1, A2.
      assert (E : h1 = h2).
      { destruct (proj1 (I h1) (or_introl eq_refl)) as [H|H]; [symmetry; exact H|].
        destruct (proj2 (I h2) (or_introl eq_refl)) as [H'|H']; [exact H'|].
        exfalso. apply (lexlt_irrefl h1). eapply lexlt_trans; [apply A1, H'|apply A2, H]. }
      subst h2. f_equal. apply IH; [exact S1|exact S2|]. intro x. split; intro H.
      + destruct (proj1 (I x) (or_intror H)) as [<-|H']; [exfalso; exact (lexlt_irrefl _ (A1 _ H))|exact H'].
      + destruct (proj2 (I x) (or_intror H)) as [<-|H']; [exfalso; exact (lexlt_irrefl _ (A2 _ H))|exact H'].
  Qed.

  Lemma tail_pure cands_p cands_m : (forall x, In x cands_p <-> In x cands_m) ->
    match filter_checked vt cands_m with
    | Ok (kept, flag) => exists R', pfold cands_p ([], false) = Ok (R', flag) /\ isort R' = sort_dedup kept
    | Raise e => pfold cands_p ([], false) = Raise e
    | OutOfFuel => pfold cands_p ([], false) = OutOfFuel
    end.
  Proof.
    intro H. rewrite filter_checked_char, pfold_char. rewrite (existsb_in_ext bad cands_p cands_m H), (existsb_in_ext rej cands_p cands_m H).
    destruct (existsb bad cands_m); [reflexivity|]. eexists. split; [reflexivity|].
    destruct (sadd_fold (filter good cands_p) [] ltac:(constructor)) as [N I].
    destruct (isort_sorted _ N) as [S1 I1]. destruct (sort_dedup_sorted (filter good cands_m)) as [S2 I2].
    apply sorted_unique; [exact S1|exact S2|]. intro x. rewrite I1, I, I2, !filter_In, H. cbn [In]. tauto.
  Qed.

  Lemma in_recombine : forall ss frs lst x, length ss = length frs ->
    (In x (recombine (ss ++ [lst]) frs) <-> exists fs, Forall2 (@In (list Z)) fs frs /\ x = weave ss fs ++ lst).
  Proof.
    induction ss as [|sp ss IH]; intros [|f0 frs] lst x HL; try discriminate HL.
    - cbn [app recombine In]. split.
      + intros [<-|[]]. exists []. split; [constructor|reflexivity].
      + intros (fs & HF & ->). inversion HF; subst. left. reflexivity.
    - cbn [app recombine]. rewrite in_flat_map. split.
      + intros (tail & Ht & Hx). apply in_map_iff in Hx. destruct Hx as (f & <- & Hf).
        apply IH in Ht; [|cbn [length] in HL; lia]. destruct Ht as (fs & HF & ->).
        exists (f :: fs). split; [constructor; assumption|]. cbn [weave]. rewrite <- !app_assoc. reflexivity.
      + intros (fs & HF & ->). inversion HF as [|f y fs' l' Hf HF']; subst.
        exists (weave ss fs' ++ lst). split.
        * apply IH; [cbn [length] in HL; lia|]. exists fs'. split; [exact HF'|reflexivity].
        * apply in_map_iff. exists f. split; [|exact Hf]. cbn [weave]. rewrite <- !app_assoc. reflexivity.
  Qed.

  Lemma forall2_in_perm : forall (fs : list (list Z)) frs' frs,
    Forall2 (@In (list Z)) fs frs' -> Forall2 (@Permutation (list Z)) frs' frs -> Forall2 (@In (list Z)) fs frs.
  Proof.
    intros fs frs' frs H. revert frs. induction H as [|f l' fs frs' Hf HF IH]; intros frs HP; inversion HP; subst; constructor.
    - eapply Permutation_in; eassumption.
    - apply IH. assumption.
  Qed.

  Lemma forall2_perm_sym : forall (a b : list (list (list Z))), Forall2 (@Permutation (list Z)) a b -> Forall2 (@Permutation (list Z)) b a.
  Proof. intros a b H. induction H; constructor; [apply Permutation_sym; assumption|assumption]. Qed.

  Lemma cands_equiv ss lst frs' frs : length ss = length frs -> Forall2 (@Permutation (list Z)) frs' frs ->
    forall x, In x (map (fun fs => weave ss fs ++ lst) (cart frs')) <-> In x (recombine (ss ++ [lst]) frs).
  Proof.
    intros HL HP x. rewrite in_map_iff, (in_recombine ss frs lst x HL). split.
    - intros (fs & <- & Hin). exists fs. split; [|reflexivity]. apply in_cart in Hin. eapply forall2_in_perm; eassumption.
    - intros (fs & HF & ->). exists fs. split; [reflexivity|]. apply in_cart. eapply forall2_in_perm; [exact HF|apply forall2_perm_sym, HP].
  Qed.

  Lemma forall2_length {A B} (R : A -> B -> Prop) : forall l l', Forall2 R l l' -> length l = length l'.
  Proof. intros l l' H. induction H; [reflexivity|cbn [length]; f_equal; assumption]. Qed.

  Lemma cart_lengths (ss : list (list Z)) frs' : length ss = length frs' -> Forall (fun fs : list (list Z) => length fs = length ss) (cart frs').
  Proof.
    intro HL. apply Forall_forall. intros fs Hin. apply in_cart in Hin. rewrite HL. eapply forall2_length; exact Hin.
  Qed.

  (* ---- the prologue and the last statements ------------------------------------------------------------------------------------ *)
  Lemma neg_ones n : binop_vals Sub (VInt 0) (VArr (repeat (VInt 1) n)) = Ret (varr (repeat (-1) n)).
  Proof.
    cbn [binop_vals broadcast_int]. unfold varr.
    assert (E : (fix go (l : list val) : res (list val) :=
                   match l with [] => Ret [] | x :: t => y <~ broadcast_int Sub false x 0 ;; ys <~ go t ;; Ret (y :: ys) end)
                (repeat (VInt 1) n) = Ret (map VInt (repeat (-1) n))).
    { induction n as [|n IH]; [reflexivity|]. cbn [repeat map]. cbn [broadcast_int binop_scalar rbind]. rewrite IH. reflexivity. }
    rewrite E. reflexivity.
  Qed.

  Definition sc0 : scan := {| sc_splits := []; sc_chunks := []; sc_markers := []; sc_detected := 0; sc_visited := 0 |}.

  Lemma exec_prologue rest v0 :
    exists en0,
      exec ce fuel (prologue rest)
        [("dna_sequence", VStr s); ("accessor", varr2 acc); ("start_index", VInt v0); ("observed_length", VInt k);
         ("vt_check", v_optstr' vt); ("has_indel", VBool hi); ("heap_size", VInt heap)] = exec ce fuel rest en0 /\
      scan_inv en0 0 v0 (repeat (-1) (length s)) [] sc0.
  Proof.
    eexists. split.
    - unfold prologue. cbn [exec eval lift seq rbind assign items bind_tuple builtin1_val lookup update String.eqb Ascii.eqb Bool.eqb].
      rewrite Nat2Z.id, neg_ones. cbn [exec eval lift seq rbind assign items bind_tuple lookup update String.eqb Ascii.eqb Bool.eqb].
      reflexivity.
    - unfold scan_inv, frame, sc0. cbn [sc_splits sc_chunks sc_markers sc_detected sc_visited rev app map]. repeat split; reflexivity.
  Qed.

  Lemma exec_count_init en :
    exec ce fuel count_init en = ONormal (update "count" (VInt 1) (update "repaired_results" (VSet []) en)).
  Proof. reflexivity. Qed.

  Lemma exec_final en R d fl c vis :
    lookup "repaired_results" en = Ret (VSet (map VStr R)) -> lookup "detected_count" en = Ret (VInt d) ->
    lookup "chuck_flag" en = Ret (VBool fl) -> lookup "count" en = Ret (VInt c) -> lookup "visited_times" en = Ret (VInt vis) ->
    exec ce fuel final_return en = OReturn (VTuple [VList (map VStr (isort R)); VTuple [VInt d; VBool fl; VInt c; VInt vis]]).
  Proof.
    intros H1 H2 H3 H4 H5. unfold final_return.
    change (exec ce fuel (SReturn ?e) en) with (lift (eval ce en e) OReturn).
    pose proof (eval_sorted en R H1) as ES. cbn [eval] in ES |- *. rewrite ES, H2, H3, H4, H5. reflexivity.
  Qed.

  Lemma all_fragments_length : forall chunks markers vis frs vis', length chunks = length markers ->
    all_fragments chunks markers acc k hi s vis = Ok (frs, vis') -> length frs = length chunks.
  Proof.
    induction chunks as [|ch chunks IH]; intros [|mk markers] vis frs vis' HL H; try discriminate HL.
    - cbn [all_fragments] in H. injection H as <- _. reflexivity.
    - cbn [all_fragments] in H. destruct (fragments_of ch acc k hi s (rev mk) 0 [] vis) as [[fr1 vis1]|e|]; cbn [bind fst snd] in H; try discriminate.
      destruct (all_fragments chunks markers acc k hi s vis1) as [[frs1 vis2]|e|] eqn:E; cbn [bind fst snd] in H; try discriminate.
      injection H as <- _. cbn [length]. f_equal. eapply IH; [|exact E]. cbn [length] in HL. lia.
  Qed.

  (* ---- stage 5: the whole function ------------------------------------------------------------------------------------------- *)
  Lemma repair_dna_run v0 : (S (length s) < fuel)%nat ->
    run_fun ce fuel repair_dna_def [VStr s; varr2 acc; VInt v0; VInt k; v_optstr' vt; VBool hi; VInt heap]
    = res_of_repair (Repair.repair_dna s acc v0 k vt hi heap).
  Proof.
    intro Hfuel. unfold run_fun. rewrite repair_def_shape. cbn [params repair_dna_def bind_params].
    destruct (exec_prologue (SSeq (SWhile scan_cond scan_body)
           (SSeq rfs_init (SSeq chunk_loop (SSeq count_init (SSeq count_loop (SSeq exit_if (SSeq product_loop final_return))))))) v0)
      as (en0 & EP & HI0).
    rewrite EP. clear EP. rewrite exec_seq, exec_while.
    pose proof (scan_while (S (length s)) fuel 0 v0 (repeat (-1) (length s)) [] sc0 en0 HI0 ltac:(lia)
                  ltac:(apply repeat_length) ltac:(lia) Hfuel) as SW.
    unfold repair_dna. fold sc0.
    destruct (scan_loop (S (length s)) s acc k 0 v0 (repeat (-1) (length s)) [] sc0) as [sc|e|] eqn:ESC; cbn [bind];
      [|rewrite SW; reflexivity|rewrite SW; reflexivity].
    destruct SW as (en1 & EW & (F & P1 & P2 & P3 & P4 & P5 & P6)). rewrite EW. cbn [seq]. clear EW.
    destruct (scan_loop_lengths _ _ _ _ _ _ _ ESC eq_refl eq_refl) as [L1 L2].
    pose proof (scan_loop_markers _ _ _ _ _ _ _ ESC ltac:(lia) ltac:(apply repeat_length) ltac:(constructor)) as LM.
    pose proof F as (F1 & F2 & F3 & F4 & F5 & F6 & F7).
    (* the empty sets *)
    rewrite exec_seq, (exec_rfs_init en1 (sc_markers sc) P3). cbn [seq].
    set (en2 := update "repaired_fragment_set" _ en1).
    assert (E2 : unch ["repaired_fragment_set"] en1 en2) by (unfold en2; unch_solve).
    (* the chunks *)
    rewrite exec_seq. unfold chunk_loop. rewrite exec_for. cbn [eval]. un E2. rewrite P2, P3.
    cbn [rbind builtin2_val builtin1_val items lift]. fold (pairs (sc_chunks sc) (sc_markers sc)).
    pose proof (chunk_for (sc_chunks sc) (sc_markers sc) [] (sc_visited sc) en2 L2 LM ltac:(un E2; exact F2) ltac:(un E2; exact F3)
                  ltac:(un E2; exact F5) ltac:(un E2; exact F1) ltac:(un E2; exact P5)
                  ltac:(unfold en2; lk; rewrite L2; reflexivity)) as CF.
    cbn [length] in CF. change (Z.of_nat 0) with 0 in CF.
    destruct (all_fragments (sc_chunks sc) (sc_markers sc) acc k hi s (sc_visited sc)) as [[frs vis]|e|] eqn:EAF; cbn [bind fst snd];
      [|rewrite CF; reflexivity|rewrite CF; reflexivity].
    apply all_fragments_length in EAF; [|exact L2].
    destruct CF as (en3 & frs' & EC & HP & R3 & V3 & U3). rewrite EC. cbn [seq app] in *. clear EC.
    assert (E3 : unch chunk_mods en1 en3).
    { eapply unch_trans; [|exact U3]. unfold en2. unch_solve. }
    (* count *)
    rewrite exec_seq, exec_count_init. cbn [seq].
    set (en4 := update "count" _ _).
    assert (E4 : unch ["count"; "repaired_results"] en3 en4) by (unfold en4; unch_solve).
    rewrite exec_seq. unfold count_loop. rewrite exec_for. cbn [eval]. un E4. rewrite R3. cbn [lift items].
    destruct (count_for frs' 1 en4 ltac:(unfold en4; lk; reflexivity)) as (en5 & EL & C5 & U5). rewrite EL. cbn [seq]. clear EL.
    rewrite (count_of_perm frs' frs 1 HP) in C5.
    assert (E5 : unch ["fragments"; "count"; "repaired_results"] en3 en5).
    { eapply unch_trans; [eapply unch_weaken; [|exact E4]|eapply unch_weaken; [|exact U5]];
        intros x Hx; unfold inb in *; cbn [existsb] in *;
        repeat (apply orb_false_elim in Hx; destruct Hx as [? Hx]); repeat (apply orb_false_intro; try assumption). }
    (* the early exit *)
    rewrite exec_seq.
    rewrite (exec_exit_if en5 (count_of frs 1) vis C5 ltac:(un E5; un E3; exact F6) ltac:(un E5; un E3; exact F4)
               ltac:(un E5; un E3; exact F1) ltac:(un E5; exact V3)).
    change (fold_left (fun a f => a * Z.of_nat (length f)) frs 1) with (count_of frs 1).
    destruct ((count_of frs 1 =? 0) || (heap <? count_of frs 1)).
    { unfold early_result. destruct vt as [c|]; [|reflexivity].
      destruct (check_matches (Some c) s) as [[|]|e|]; reflexivity. }
    cbn [seq].
    (* the candidates *)
    destruct (sc_splits sc) as [|lst rsp] eqn:ES; [cbn [length] in L1; lia|]. cbn [length] in L1. cbn [rev] in *.
    set (ss := rev rsp) in *.
    assert (Lss : length ss = length frs).
    { unfold ss. rewrite rev_length. lia. }
    rewrite exec_seq. unfold product_loop. rewrite exec_for.
    rewrite (eval_product en5 frs') by (un E5; exact R3). cbn [lift items].
    pose proof (product_for ss lst (cart frs') [] false en5) as PF.
    pose proof (tail_pure _ _ (cands_equiv ss lst frs' frs Lss HP)) as TP.
    destruct (filter_checked vt (recombine (ss ++ [lst]) frs)) as [[kept flag]|e|]; cbn [bind fst snd].
    - destruct TP as (R' & EPF & ES'). rewrite EPF in PF.
      destruct PF as (en6 & EL & R6 & F6' & U6).
      { apply cart_lengths. rewrite Lss. symmetry. eapply forall2_length; exact HP. }
      { un E5. un E3. exact P1. }
      { un E5. un E3. exact F4. }
      { unfold en4 in U5. rewrite (U5 "repaired_results") by reflexivity. lk. reflexivity. }
      { un E5. un E3. exact P6. }
      rewrite EL. cbn [seq].
      rewrite (exec_final en6 R' (sc_detected sc) flag (count_of frs 1) vis R6); [rewrite ES'; reflexivity| | | |].
      + rewrite (U6 "detected_count") by reflexivity. un E5. un E3. exact P4.
      + exact F6'.
      + rewrite (U6 "count") by reflexivity. exact C5.
      + rewrite (U6 "visited_times") by reflexivity. un E5. exact V3.
    - rewrite TP in PF. rewrite PF; [reflexivity| | | | |].
      { apply cart_lengths. rewrite Lss. symmetry. eapply forall2_length; exact HP. }
      { un E5. un E3. exact P1. }
      { un E5. un E3. exact F4. }
      { unfold en4 in U5. rewrite (U5 "repaired_results") by reflexivity. lk. reflexivity. }
      { un E5. un E3. exact P6. }
    - rewrite TP in PF. rewrite PF; [reflexivity| | | | |].
      { apply cart_lengths. rewrite Lss. symmetry. eapply forall2_length; exact HP. }
      { un E5. un E3. exact P1. }
      { un E5. un E3. exact F4. }
      { unfold en4 in U5. rewrite (U5 "repaired_results") by reflexivity. lk. reflexivity. }
      { un E5. un E3. exact P6. }
  Qed.

End Repair.

(* ---- the target ------------------------------------------------------------------------------------------------------------ *)
Theorem repair_dna_gen : forall ce fuel s acc v0 k vt has_indel heap,
  repair_callees_ok ce ->
  (forall s' prev occ, 0 <= occ -> ce "path_matching" [VStr s'; varr2 acc; VInt prev; VInt occ; VBool has_indel; VNone]
                       = res_of_matching occ (Repair.path_matching s' acc prev occ has_indel)) ->
  Forall (fun row => length row = 4%nat) acc -> 1 <= k -> 0 <= heap ->
  match vt with Some c => c <> [] | None => True end ->
  (S (length s) < fuel)%nat ->
  run_fun ce fuel repair_dna_def [VStr s; varr2 acc; VInt v0; VInt k; v_optstr' vt; VBool has_indel; VInt heap]
  = res_of_repair (Repair.repair_dna s acc v0 k vt has_indel heap).
Proof.
  intros ce fuel s acc v0 k vt has_indel heap Hce Hpm Hacc Hk _ Hvt Hfuel.
  apply repair_dna_run; assumption.
Qed.

Print Assumptions scan_while.
Print Assumptions chunk_for.
Print Assumptions repair_dna_gen.
