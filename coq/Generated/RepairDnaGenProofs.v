(* RepairDnaGenProofs.v -- the regenerated repair_dna (dsw/spiderweb.py) computes Repair.repair_dna, value and exception.
   Compiled on every run of the checks against the freshly generated RepairGen.v (harness/regen.py, unit "repair"). *)
From Coq Require Import Lia ZifyBool Permutation.
From DSW Require Import MiniPyR Repair Coder Convert Kmer Spec MiniPyRLemmas.
From DSWGen Require Import RepairGen RepairRepr.
Open Scope Z_scope.
Open Scope string_scope.
Ltac Zify.zify_post_hook ::= Z.to_euclidean_division_equations.
Local Open Scope Z_scope.
Local Open Scope list_scope.
Notation lookup := MiniPyR.lookup.

(* TARGET STATEMENTS

   repair_dna calls path_matching (same generated module), dna_to_number and set_vt (other modules: repair_callees_ok)

Theorem repair_dna_gen : forall ce fuel s acc v0 k vt has_indel heap,
  repair_callees_ok ce ->
  (forall s' prev occ, ce "path_matching" [VStr s'; varr2 acc; VInt prev; VInt occ; VBool has_indel; VNone]
                       = res_of_matching occ (Repair.path_matching s' acc prev occ has_indel)) ->
  Forall (fun row => length row = 4%nat) acc -> 1 <= k -> 0 <= heap ->
  match vt with Some c => c <> [] | None => True end ->
  (S (length s) < fuel)%nat ->
  run_fun ce fuel repair_dna_def [VStr s; varr2 acc; VInt v0; VInt k; v_optstr' vt; VBool has_indel; VInt heap]
  = res_of_repair (Repair.repair_dna s acc v0 k vt has_indel heap).

   Notes.  * The scan loop `while location < len(dna_sequence)` = Repair.scan_loop (one model fuel unit per iteration; the model
   runs it with fuel S (length s)); index_queue is a VArr (-ones(..) = repeat (-1)), split_sequences a list of strs with the
   current one LAST (the model keeps sc_splits reversed with the current one as a separate argument), `split_sequences[-1] += ..`
   is SAug on TIndex, the cut `[: len(..) - observed_length + 1]` is py_slice_to, the slices of dna_sequence / index_queue are
   py_slice (negative bounds clamp / wrap as in Python), dna_to_number is the callee (may raise ValueError on a foreign symbol).
   * `[set() for _ in range(..)]`, then for each chunk the recalls `enumerate(index_marker[::-1])` call path_matching with
   occur_location = observed_length - recall - 1 and add each fragment to the chunk's set unless `dna_sequence in` the set
   (sic: the whole strand, as in the Python) = Repair.fragments_of / all_fragments.  THE ORDER INSIDE A SET: MiniPyR keeps
   first-insertion order (SSetAdd2 appends when absent) while the model keeps the fragments sorted (insert_str); `list(set)`
   therefore yields a PERMUTATION of the model's list.  Everything after that is insensitive to the order: count is a product
   of lengths, the candidates go through product(..) (BProduct), are filtered by the check and collected into a set
   (SSetAdd) and `sorted(list(..))` (BSorted) = Py.sort_dedup.  So relate the two sides up to Permutation (per chunk) and prove
   that recombination, the check filter (chuck_flag is an "exists a mismatch") and sort_dedup respect permutations.
   * the early exit `count == 0 or count > heap_size` with its three return shapes; heap_size is an integer here.
   * vt_check: `vt_check == set_vt(.., len(vt_check))` through the callee (n = length c >= 1).
   If a hypothesis is missing (k relative to the length? v0 in range?) add the weakest one and report the counterexample.
   This is a long proof: scan loop first, then fragments, then the tail; keep the file compiling at all times; if you cannot
   finish, deliver the scan-loop and fragment lemmas as theorems of their own and leave the rest in the comment.
*)

From Coq Require Import Sorting.Sorted.
From DSW Require Import RepairSpec VTProofs WalkProofs RepairProofs.

(* ---- tactics ------------------------------------------------------------------------------------------------------ *)
Ltac lk := repeat (rewrite lookup_update_same || (rewrite lookup_update_other by discriminate)).
Ltac st := cbn [exec eval lift seq rbind assign items bind_tuple].

(* ---- lists --------------------------------------------------------------------------------------------------------- *)
Lemma nthZ_map {A B} (f : A -> B) : forall l n, nthZ (map f l) n = option_map f (nthZ l n).
Proof.
  induction l as [|x t IH]; intros n; [destruct n; reflexivity|].
  destruct n as [|n]; cbn [map nthZ option_map]; [reflexivity|apply IH].
Qed.

Lemma py_get_map {A B} (f : A -> B) l i :
  py_get (map f l) i = match py_get l i with Ok x => Ok (f x) | Raise e => Raise e | OutOfFuel => OutOfFuel end.
Proof.
  unfold py_get. rewrite map_length. cbv zeta.
  destruct (((if i <? 0 then i + Z.of_nat (length l) else i) <? 0)
            || (Z.of_nat (length l) <=? (if i <? 0 then i + Z.of_nat (length l) else i))); [reflexivity|].
  rewrite nthZ_map. destruct (nthZ l _); reflexivity.
Qed.

Lemma nthZ_in {A} : forall (l : list A) n x, nthZ l n = Some x -> In x l.
Proof.
  induction l as [|y t IH]; intros n x H; [destruct n; discriminate|].
  destruct n as [|n]; cbn [nthZ] in H; [injection H as <-; left; reflexivity|right; eapply IH; exact H].
Qed.

Lemma py_get_in {A} (l : list A) i x : py_get l i = Ok x -> In x l.
Proof.
  unfold py_get. cbv zeta. destruct (_ || _); [discriminate|].
  destruct (nthZ l _) as [y|] eqn:E; [|discriminate]. intro H; injection H as <-. eapply nthZ_in; exact E.
Qed.

Lemma py_get_raise {A} (l : list A) i e : py_get l i = Raise e -> e = IndexError.
Proof.
  unfold py_get. cbv zeta. destruct (_ || _); [intro H; injection H as <-; reflexivity|].
  destruct (nthZ l _); [discriminate|intro H; injection H as <-; reflexivity].
Qed.

Lemma py_get_fuel {A} (l : list A) i : py_get l i <> OutOfFuel.
Proof. unfold py_get. cbv zeta. destruct (_ || _); [discriminate|]. destruct (nthZ l _); discriminate. Qed.

Lemma py_get_okZ {A} (l : list A) (i : Z) (d : A) : 0 <= i < Z.of_nat (length l) -> py_get l i = Ok (nth (Z.to_nat i) l d).
Proof. apply ShuffleProofs.py_get_ok. Qed.

Lemma py_get_last {A} (l : list A) x : py_get (l ++ [x]) (-1) = Ok x.
Proof.
  unfold py_get. cbv zeta. rewrite app_length. cbn [length]. change (-1 <? 0) with true. cbv iota.
  destruct ((-1 + Z.of_nat (length l + 1) <? 0) || (Z.of_nat (length l + 1) <=? -1 + Z.of_nat (length l + 1))) eqn:E; [lia|].
  replace (Z.to_nat (-1 + Z.of_nat (length l + 1))) with (length l) by lia.
  rewrite (ShuffleProofs.nthZ_nth _ _ x) by (rewrite app_length; cbn [length]; lia).
  rewrite app_nth2, Nat.sub_diag by lia. reflexivity.
Qed.

Lemma set_nth_mid {A} (pre : list A) x y post : set_nth (pre ++ x :: post) (length pre) y = pre ++ y :: post.
Proof. induction pre as [|p pre IH]; cbn [app length set_nth]; [reflexivity|rewrite IH; reflexivity]. Qed.

Lemma set_nth_map {A B} (f : A -> B) x : forall l i, set_nth (map f l) i (f x) = map f (set_nth l i x).
Proof.
  induction l as [|y ys IH]; intros i; [reflexivity|]. destruct i as [|i]; cbn [map set_nth]; [reflexivity|].
  rewrite IH. reflexivity.
Qed.

Lemma py_slice_map {A B} (f : A -> B) l lo hi : py_slice (map f l) lo hi = map f (py_slice l lo hi).
Proof.
  unfold py_slice. rewrite map_length. cbv zeta.
  destruct (clampZ (Z.of_nat (length l)) hi <=? clampZ (Z.of_nat (length l)) lo); [reflexivity|].
  rewrite skipn_map, firstn_map. reflexivity.
Qed.

Lemma map_res_map {A B C} (f : B -> res C) (h : A -> B) (k : A -> C) : forall l,
  (forall x, In x l -> f (h x) = Ret (k x)) -> map_res f (map h l) = Ret (map k l).
Proof.
  induction l as [|x t IH]; intros H; [reflexivity|].
  cbn [map map_res]. rewrite H by (left; reflexivity). cbn [rbind]. rewrite IH; [reflexivity|].
  intros y Hy. apply H. right. exact Hy.
Qed.

Lemma listZ_eqb_sym : forall a b, listZ_eqb a b = listZ_eqb b a.
Proof.
  induction a as [|x a IH]; intros [|y b]; cbn [listZ_eqb]; try reflexivity.
  rewrite IH. rewrite (Z.eqb_sym x y). reflexivity.
Qed.

(* ---- stores --------------------------------------------------------------------------------------------------------- *)
Lemma store_last l x y : store_val (VList (l ++ [x])) (VInt (-1)) y = Ret (VList (l ++ [y])).
Proof.
  unfold store_val. cbv zeta. rewrite app_length. cbn [length]. change (-1 <? 0) with true. cbv iota.
  destruct ((-1 + Z.of_nat (length l + 1) <? 0) || (Z.of_nat (length l + 1) <=? -1 + Z.of_nat (length l + 1))) eqn:E; [lia|].
  replace (Z.to_nat (-1 + Z.of_nat (length l + 1))) with (length l) by lia.
  rewrite set_nth_mid. reflexivity.
Qed.

Lemma store_mid pre x post y :
  store_val (VList (pre ++ x :: post)) (VInt (Z.of_nat (length pre))) y = Ret (VList (pre ++ y :: post)).
Proof.
  unfold store_val. cbv zeta. rewrite app_length. cbn [length].
  destruct (Z.of_nat (length pre) <? 0) eqn:E0; [lia|].
  destruct ((Z.of_nat (length pre) <? 0) || (Z.of_nat (length pre + S (length post)) <=? Z.of_nat (length pre))) eqn:E; [lia|].
  rewrite Nat2Z.id, set_nth_mid. reflexivity.
Qed.

Lemma store_varr iq i x : 0 <= i < Z.of_nat (length iq) ->
  store_val (varr iq) (VInt i) (VInt x) = Ret (varr (set_nth iq (Z.to_nat i) x)).
Proof.
  intro H. unfold store_val, varr. cbv zeta. rewrite map_length.
  destruct (i <? 0) eqn:E0; [lia|].
  destruct ((i <? 0) || (Z.of_nat (length iq) <=? i)) eqn:E; [lia|].
  rewrite nthZ_map. rewrite (ShuffleProofs.nthZ_nth iq _ 0) by lia. cbn [option_map].
  destruct iq as [|q iq]; [cbn [length] in H; lia|]. cbn [map]. rewrite <- (set_nth_map VInt x (q :: iq)). reflexivity.
Qed.

(* ---- NumPy primitives ----------------------------------------------------------------------------------------------- *)
Lemma index_varr2 a v :
  index_val (varr2 a) (VInt v) = match py_get a v with Ok row => Ret (varr row) | _ => Exn IndexError end.
Proof. unfold index_val, varr2. rewrite py_get_map. destruct (py_get a v); reflexivity. Qed.

Lemma index_varr l j :
  index_val (varr l) (VInt j) = match py_get l j with Ok x => Ret (VInt x) | _ => Exn IndexError end.
Proof. unfold index_val, varr. rewrite py_get_map. destruct (py_get l j); reflexivity. Qed.

Lemma cmp_top_varr o row z : cmp_top o (varr row) (VInt z) = cmp_vals o (varr row) (VInt z).
Proof. destruct row as [|x t]; reflexivity. Qed.

Lemma cmp_ge0_varr row : cmp_vals CGe (varr row) (VInt 0) = Ret (VArr (map (fun x => VBool (0 <=? x)) row)).
Proof.
  unfold cmp_vals, varr.
  rewrite (map_res_map _ VInt (fun x => VBool (0 <=? x))); [reflexivity|]. intros x _. reflexivity.
Qed.

Lemma where_bools {A} (g : A -> bool) l :
  builtin1_val BNpWhere (VArr (map (fun x => VBool (g x)) l)) =
  Ret (VTuple [varr (used_indices (map (fun x => if g x then 0 else -1) l))]).
Proof.
  unfold builtin1_val.
  rewrite (map_res_map _ (fun x => VBool (g x)) g) by (intros; reflexivity). cbn [rbind].
  rewrite map_map. reflexivity.
Qed.

Lemma used_from_flag : forall row j, used_from (map (fun x => if 0 <=? x then 0 else -1) row) j = used_from row j.
Proof.
  induction row as [|x t IH]; intros j; [reflexivity|]. cbn [map used_from]. rewrite IH.
  destruct (0 <=? x); reflexivity.
Qed.

Lemma where_ge0 row : builtin1_val BNpWhere (VArr (map (fun x => VBool (0 <=? x)) row)) = Ret (VTuple [varr (used_indices row)]).
Proof. rewrite where_bools. unfold used_indices. rewrite used_from_flag. reflexivity. Qed.

Lemma blen_varr l : builtin1_val BLen (varr l) = Ret (VInt (Z.of_nat (length l))).
Proof. unfold varr, builtin1_val. rewrite map_length. reflexivity. Qed.

(* ---- nucleotides ----------------------------------------------------------------------------------------------------- *)
Definition ACGT : list Z := [65; 67; 71; 84].
Definition nucv (j : Z) : val := VStr [nuc_char j].

Lemma index_nuc r : 0 <= r < 4 -> index_val (VStr ACGT) (VInt r) = Ret (nucv r).
Proof.
  intro H. assert (C : r = 0 \/ r = 1 \/ r = 2 \/ r = 3) by lia.
  destruct C as [->|[->|[->| ->]]]; reflexivity.
Qed.

Lemma str_index_nuc c : builtin2_val BIndexOf (VStr ACGT) (VStr [c]) =
  match nuc_index c with Some j => Ret (VInt j) | None => Exn ValueError end.
Proof.
  unfold builtin2_val, str_index, nuc_index, ACGT. cbn [indexZ].
  destruct (c =? 65); [reflexivity|]. destruct (c =? 67); [reflexivity|].
  destruct (c =? 71); [reflexivity|]. destruct (c =? 84); reflexivity.
Qed.

Lemma val_eqb_nuc c j : 0 <= j < 4 ->
  val_eqb (VStr [c]) (nucv j) = match nuc_index c with Some j' => j' =? j | None => false end.
Proof.
  intro H. unfold nucv, val_eqb, listZ_eqb. rewrite andb_true_r.
  assert (C : j = 0 \/ j = 1 \/ j = 2 \/ j = 3) by lia.
  unfold nuc_index.
  destruct C as [->|[->|[->| ->]]];
    [change (nuc_char 0) with 65|change (nuc_char 1) with 67|change (nuc_char 2) with 71|change (nuc_char 3) with 84];
  destruct (c =? 65) eqn:E1; destruct (c =? 67) eqn:E2; destruct (c =? 71) eqn:E3; destruct (c =? 84) eqn:E4;
  cbv beta iota; try reflexivity; lia.
Qed.

Lemma forallb_nucv used : forallb (fun y => match y with VInt _ | VStr _ => true | _ => false end) (map nucv used) = true.
Proof. induction used as [|x t IH]; [reflexivity|exact IH]. Qed.

Lemma mem_val_nucs c : forall used, Forall (fun j => 0 <= j < 4) used ->
  mem_val (VStr [c]) (map nucv used) = match nuc_index c with Some j => memZ j used | None => false end.
Proof.
  induction used as [|u t IH]; intros H; [destruct (nuc_index c); reflexivity|].
  inversion H as [|? ? Hu Ht]; subst. cbn [map mem_val memZ].
  rewrite (val_eqb_nuc c u Hu), (IH Ht). destruct (nuc_index c) as [j|]; reflexivity.
Qed.

Lemma used_range row : length row = 4%nat -> Forall (fun j => 0 <= j < 4) (used_indices row).
Proof.
  intro Hl. destruct (used_indices_spec row Hl) as [_ Hi]. apply Forall_forall. intros j Hj. apply Hi in Hj. lia.
Qed.

(* ---- the pieces of the generated term --------------------------------------------------------------------------------- *)
Definition used_expr : expr :=
  (EIndex (EB1 BNpWhere (ECmp CGe (EIndex (EVar "accessor"%string) (EVar "vertex_index"%string)) (EInt (0)))) (EInt (0))).
Definition comp_expr : expr :=
  (EComp (EIndex (EVar "nucleotides"%string) (EVar "used_index"%string)) "used_index"%string (EVar "used_indices"%string)).
Definition next_expr : expr :=
  (EIndex (EIndex (EVar "accessor"%string) (EVar "vertex_index"%string)) (EB2 BIndexOf (EVar "nucleotides"%string) (EVar "nucleotide"%string))).
Definition scan_cond : expr := (ECmp CLt (EVar "location"%string) (EB1 BLen (EVar "dna_sequence"%string))).
Definition scan_then : stmt :=
 (SSeq (SAug (TIndex "split_sequences"%string (EInt (-1))) Add (EVar "nucleotide"%string))
 (SSeq (SAssign (TVar "vertex_index"%string) next_expr)
 (SSeq (SAssign (TIndex "index_queue"%string (EVar "location"%string)) (EVar "vertex_index"%string))
 (SSeq (SAug (TVar "visited_times"%string) Add (EInt (1)))
 (SAug (TVar "location"%string) Add (EInt (1))))))).
Definition scan_else : stmt :=
 (SSeq (SAug (TVar "detected_count"%string) Add (EInt (1)))
 (SSeq (SAssign (TIndex "split_sequences"%string (EInt (-1))) (ESlice (EIndex (EVar "split_sequences"%string) (EInt (-1))) None (Some (EBin Add (EBin Sub (EB1 BLen (EIndex (EVar "split_sequences"%string) (EInt (-1)))) (EVar "observed_length"%string)) (EInt (1))))))
 (SSeq (SAssign (TVar "vertex_index"%string) (ECall "dna_to_number"%string [(ESlice (EVar "dna_sequence"%string) (Some (EBin Add (EVar "location"%string) (EInt (1)))) (Some (EBin Add (EBin Add (EVar "location"%string) (EVar "observed_length"%string)) (EInt (1))))); (EBoolLit false)]))
 (SSeq (SAppend "split_sequences"%string (EIndex (EVar "nucleotides"%string) (EBin Mod (EVar "vertex_index"%string) (EInt (4)))))
 (SSeq (SAppend "index_markers"%string (ESlice (EVar "index_queue"%string) (Some (EBin Sub (EVar "location"%string) (EVar "observed_length"%string))) (Some (EVar "location"%string))))
 (SSeq (SAppend "chuck_sequences"%string (ESlice (EVar "dna_sequence"%string) (Some (EBin Add (EBin Sub (EVar "location"%string) (EVar "observed_length"%string)) (EInt (1)))) (Some (EBin Add (EVar "location"%string) (EVar "observed_length"%string)))))
 (SAug (TVar "location"%string) Add (EBin Add (EVar "observed_length"%string) (EInt (1)))))))))).
Definition scan_body : stmt :=
 (SSeq (SAssign (TTuple ["used_indices"%string; "nucleotide"%string]) (ETuple [used_expr; (EIndex (EVar "dna_sequence"%string) (EVar "location"%string))]))
 (SIf (ECmp CIn (EIndex (EVar "dna_sequence"%string) (EVar "location"%string)) comp_expr)
 scan_then
 scan_else)).

Definition prologue : stmt -> stmt := fun rest =>
 (SSeq (SAssign (TVar "nucleotides"%string) (EStr [65; 67; 71; 84]))
 (SSeq (SAssign (TTuple ["location"%string; "vertex_index"%string; "index_queue"%string]) (ETuple [(EInt (0)); (EVar "start_index"%string); (EBin Sub (EInt 0) (EB1 BNpOnes1 (EB1 BLen (EVar "dna_sequence"%string))))]))
 (SSeq (SAssign (TTuple ["split_sequences"%string; "chuck_sequences"%string; "index_markers"%string]) (ETuple [(EList [(EStr [])]); (EList []); (EList [])]))
 (SSeq (SAssign (TTuple ["detected_count"%string; "chuck_flag"%string; "visited_times"%string]) (ETuple [(EInt (0)); (EBoolLit false); (EInt (0))]))
 rest)))).

Definition rfs_init : stmt :=
 (SAssign (TVar "repaired_fragment_set"%string) (EComp ESetNew "_"%string (EB1 BRange (EB1 BLen (EVar "index_markers"%string))))).
Definition add_stmt : stmt :=
 (SIf (ECmp CNotIn (EVar "dna_sequence"%string) (EIndex (EVar "repaired_fragment_set"%string) (EVar "index"%string)))
 (SSetAdd2 "repaired_fragment_set"%string (EVar "index"%string) (EVar "fragment"%string))
 SSkip).
Definition recall_body : stmt :=
 (SSeq (SAssign (TTuple ["record"%string; "times"%string]) (ECall "path_matching"%string [(EVar "chuck_sequence"%string); (EVar "accessor"%string); (EVar "vertex_index"%string); (EBin Sub (EBin Sub (EVar "observed_length"%string) (EVar "recall"%string)) (EInt (1))); (EVar "has_indel"%string); ENone]))
 (SSeq (SAug (TVar "visited_times"%string) Add (EVar "times"%string))
 (SFor (TTuple ["_"%string; "fragment"%string]) (EVar "record"%string) add_stmt))).
Definition chunk_body : stmt :=
 (SSeq (SFor (TTuple ["recall"%string; "vertex_index"%string]) (EB1 BEnumerate (EB1 BRev (EVar "index_marker"%string))) recall_body)
 (SAssign (TIndex "repaired_fragment_set"%string (EVar "index"%string)) (EB1 BList (EIndex (EVar "repaired_fragment_set"%string) (EVar "index"%string))))).
Definition chunk_loop : stmt :=
 (SFor (TPair "index"%string ["chuck_sequence"%string; "index_marker"%string]) (EB1 BEnumerate (EB2 BZip (EVar "chuck_sequences"%string) (EVar "index_markers"%string))) chunk_body).
Definition count_init : stmt :=
 (SAssign (TTuple ["repaired_results"%string; "count"%string]) (ETuple [ESetNew; (EInt (1))])).
Definition count_loop : stmt :=
 (SFor (TVar "fragments"%string) (EVar "repaired_fragment_set"%string)
 (SAug (TVar "count"%string) Mul (EB1 BLen (EVar "fragments"%string)))).
Definition exit_if : stmt :=
 (SIf (EOr (ECmp CEq (EVar "count"%string) (EInt (0))) (ECmp CGt (EVar "count"%string) (EVar "heap_size"%string)))
 (SIf (ENot (EB1 BIsNone (EVar "vt_check"%string)))
 (SIf (ECmp CEq (EVar "vt_check"%string) (ECall "set_vt"%string [(EVar "dna_sequence"%string); (EB1 BLen (EVar "vt_check"%string))]))
 (SReturn (ETuple [(EList [(EVar "dna_sequence"%string)]); (ETuple [(EInt (0)); (EBoolLit false); (EInt (0)); (EVar "visited_times"%string)])]))
 (SReturn (ETuple [(EList []); (ETuple [(EInt (0)); (EBoolLit true); (EInt (0)); (EVar "visited_times"%string)])])))
 (SReturn (ETuple [(EList [(EVar "dna_sequence"%string)]); (ETuple [(EInt (0)); (EBoolLit false); (EInt (0)); (EVar "visited_times"%string)])])))
 SSkip).
Definition join_loop : stmt :=
 (SFor (TVar "index"%string) (EB1 BRange (EBin Sub (EB1 BLen (EVar "split_sequences"%string)) (EInt (1))))
 (SAug (TVar "repaired_dna_sequence"%string) Add (EBin Add (EIndex (EVar "split_sequences"%string) (EVar "index"%string)) (EIndex (EVar "fragments"%string) (EVar "index"%string))))).
Definition check_stmt : stmt :=
 (SIf (ENot (EB1 BIsNone (EVar "vt_check"%string)))
 (SIf (ECmp CEq (EVar "vt_check"%string) (ECall "set_vt"%string [(EVar "repaired_dna_sequence"%string); (EB1 BLen (EVar "vt_check"%string))]))
 (SSetAdd "repaired_results"%string (EVar "repaired_dna_sequence"%string))
 (SAssign (TVar "chuck_flag"%string) (EBoolLit true)))
 (SSetAdd "repaired_results"%string (EVar "repaired_dna_sequence"%string))).
Definition product_body : stmt :=
 (SSeq (SAssign (TVar "repaired_dna_sequence"%string) (EStr []))
 (SSeq join_loop
 (SSeq (SAug (TVar "repaired_dna_sequence"%string) Add (EIndex (EVar "split_sequences"%string) (EInt (-1))))
 check_stmt))).
Definition product_loop : stmt :=
 (SFor (TVar "fragments"%string) (EB1 BProduct (EVar "repaired_fragment_set"%string)) product_body).
Definition final_return : stmt :=
 (SReturn (ETuple [(EB1 BSorted (EB1 BList (EVar "repaired_results"%string))); (ETuple [(EVar "detected_count"%string); (EVar "chuck_flag"%string); (EVar "count"%string); (EVar "visited_times"%string)])])).

Lemma repair_def_shape :
  body repair_dna_def =
  prologue (SSeq (SWhile scan_cond scan_body)
           (SSeq rfs_init (SSeq chunk_loop (SSeq count_init (SSeq count_loop (SSeq exit_if (SSeq product_loop final_return))))))).
Proof. reflexivity. Qed.

Lemma index_last l x : index_val (VList (l ++ [x])) (VInt (-1)) = Ret x.
Proof. unfold index_val. rewrite py_get_last. reflexivity. Qed.

Lemma index_mid pre x post : index_val (VList (pre ++ x :: post)) (VInt (Z.of_nat (length pre))) = Ret x.
Proof. unfold index_val. rewrite py_get_mid. reflexivity. Qed.

Lemma cmp_in_nucs c used : Forall (fun j => 0 <= j < 4) used ->
  cmp_top CIn (VStr [c]) (VList (map nucv used)) = Ret (VBool (match nuc_index c with Some j => memZ j used | None => false end)).
Proof.
  intro H. unfold cmp_top, cmp_vals, cmp_scalar. cbn [mixes_bool is_arr orb]. rewrite forallb_nucv. cbn [xorb].
  rewrite (mem_val_nucs c used H). destruct (nuc_index c) as [j|]; [destruct (memZ j used)|]; reflexivity.
Qed.

Lemma slice_varr iq a b : slice_val (varr iq) (Some (VInt a)) (Some (VInt b)) = Ret (varr (py_slice iq a b)).
Proof. unfold slice_val, varr. cbn [opt_int rbind]. rewrite py_slice_map. reflexivity. Qed.

Ltac via E := rewrite E by discriminate; assumption.
Ltac lks := repeat (lk; match goal with H : lookup _ _ = Ret _ |- _ => rewrite H end); lk.

Section Repair.
  Variable ce : string -> list val -> res val.
  Variable fuel : nat.
  Variable s : list Z.
  Variable acc : list (list Z).
  Variable k : Z.
  Variable vt : option (list Z).
  Variable hi : bool.
  Variable heap : Z.
  Hypothesis Hce : repair_callees_ok ce.
  Hypothesis Hpm : forall s' prev occ, ce "path_matching" [VStr s'; varr2 acc; VInt prev; VInt occ; VBool hi; VNone]
                       = res_of_matching occ (Repair.path_matching s' acc prev occ hi).
  Hypothesis Hacc : Forall (fun row => length row = 4%nat) acc.
  Hypothesis Hk : 1 <= k.
  Hypothesis Hvt : match vt with Some c => c <> [] | None => True end.

  (* the variables that are never assigned after the prologue *)
  Definition frame (en : env) : Prop :=
    lookup "dna_sequence" en = Ret (VStr s) /\ lookup "accessor" en = Ret (varr2 acc) /\
    lookup "observed_length" en = Ret (VInt k) /\ lookup "vt_check" en = Ret (v_optstr' vt) /\
    lookup "has_indel" en = Ret (VBool hi) /\ lookup "heap_size" en = Ret (VInt heap) /\
    lookup "nucleotides" en = Ret (VStr ACGT).

  Definition scan_inv (en : env) (loc v : Z) (iq cur : list Z) (sc : scan) : Prop :=
    frame en /\ lookup "location" en = Ret (VInt loc) /\ lookup "vertex_index" en = Ret (VInt v) /\
    lookup "index_queue" en = Ret (varr iq) /\
    lookup "split_sequences" en = Ret (VList (map VStr (rev (sc_splits sc) ++ [cur]))) /\
    lookup "chuck_sequences" en = Ret (VList (map VStr (sc_chunks sc))) /\
    lookup "index_markers" en = Ret (VList (map varr (sc_markers sc))) /\
    lookup "detected_count" en = Ret (VInt (sc_detected sc)) /\
    lookup "visited_times" en = Ret (VInt (sc_visited sc)) /\
    lookup "chuck_flag" en = Ret (VBool false).

  Lemma row_len v row : py_get acc v = Ok row -> length row = 4%nat.
  Proof. intro H. apply py_get_in in H. rewrite Forall_forall in Hacc. exact (Hacc _ H). Qed.

  Lemma eval_used en v : lookup "accessor" en = Ret (varr2 acc) -> lookup "vertex_index" en = Ret (VInt v) ->
    eval ce en used_expr = match py_get acc v with Ok row => Ret (varr (used_indices row)) | _ => Exn IndexError end.
  Proof.
    intros HA HV. unfold used_expr. cbn [eval]. rewrite HA, HV. cbn [rbind]. rewrite index_varr2.
    destruct (py_get acc v) as [row|e|]; cbn [rbind]; try reflexivity.
    rewrite cmp_top_varr, cmp_ge0_varr. cbn [rbind]. rewrite where_ge0. cbn [rbind]. reflexivity.
  Qed.

  Lemma eval_comp en used : lookup "nucleotides" en = Ret (VStr ACGT) -> lookup "used_indices" en = Ret (varr used) ->
    Forall (fun j => 0 <= j < 4) used ->
    eval ce en comp_expr = Ret (VList (map nucv used)).
  Proof.
    intros HN HU Hr. unfold comp_expr. cbn [eval]. rewrite HU. cbn [rbind]. rewrite items_varr. cbn [rbind].
    rewrite (map_res_map _ VInt nucv); [reflexivity|].
    intros x Hx. rewrite Forall_forall in Hr. cbn [eval]. lk. rewrite HN. cbn [rbind]. apply index_nuc. apply Hr, Hx.
  Qed.

  Lemma eval_next en v row c j : lookup "accessor" en = Ret (varr2 acc) -> lookup "vertex_index" en = Ret (VInt v) ->
    lookup "nucleotides" en = Ret (VStr ACGT) -> lookup "nucleotide" en = Ret (VStr [c]) ->
    py_get acc v = Ok row -> nuc_index c = Some j ->
    eval ce en next_expr = match py_get row j with Ok x => Ret (VInt x) | _ => Exn IndexError end.
  Proof.
    intros HA HV HN HC Hrow Hj. unfold next_expr. cbn [eval]. rewrite HA, HV, HN, HC. cbn [rbind].
    rewrite index_varr2, Hrow. cbn [rbind]. fold ACGT. rewrite str_index_nuc, Hj. cbn [rbind]. apply index_varr.
  Qed.

  Lemma exec_scan_then en loc v iq pre cur c row j vis :
    lookup "split_sequences" en = Ret (VList (map VStr (pre ++ [cur]))) -> lookup "nucleotide" en = Ret (VStr [c]) ->
    lookup "accessor" en = Ret (varr2 acc) -> lookup "vertex_index" en = Ret (VInt v) ->
    lookup "nucleotides" en = Ret (VStr ACGT) -> lookup "index_queue" en = Ret (varr iq) ->
    lookup "location" en = Ret (VInt loc) -> lookup "visited_times" en = Ret (VInt vis) ->
    py_get acc v = Ok row -> nuc_index c = Some j -> 0 <= loc < Z.of_nat (length iq) ->
    exec ce fuel scan_then en =
    match py_get row j with
    | Ok nxt => ONormal (update "location" (VInt (loc + 1)) (update "visited_times" (VInt (vis + 1))
                  (update "index_queue" (varr (set_nth iq (Z.to_nat loc) nxt)) (update "vertex_index" (VInt nxt)
                  (update "split_sequences" (VList (map VStr (pre ++ [cur ++ [c]]))) en)))))
    | _ => OExn IndexError
    end.
  Proof.
    intros H1 H2 H3 H4 H5 H6 H7 H8 Hrow Hj Hloc. unfold scan_then.
    cbn [exec eval]. rewrite H1, H2. cbn [lift]. rewrite map_app. cbn [map]. rewrite index_last. cbn [lift binop_vals binop_scalar].
    rewrite store_last. cbn [lift seq].
    rewrite (eval_next _ v row c j) by (lk; assumption).
    destruct (py_get row j) as [nxt|e|]; cbn [lift seq]; try reflexivity.
    cbn [assign seq eval]. lks. cbn [lift]. rewrite store_varr by exact Hloc. cbn [lift seq]. lks.
    cbn [lift binop_vals binop_scalar seq]. lks. cbn [lift binop_vals binop_scalar].
    rewrite map_app. reflexivity.
  Qed.

  Lemma exec_scan_else en loc iq pre cur det chunks markers :
    lookup "detected_count" en = Ret (VInt det) -> lookup "split_sequences" en = Ret (VList (map VStr (pre ++ [cur]))) ->
    lookup "observed_length" en = Ret (VInt k) -> lookup "dna_sequence" en = Ret (VStr s) ->
    lookup "location" en = Ret (VInt loc) -> lookup "nucleotides" en = Ret (VStr ACGT) ->
    lookup "index_markers" en = Ret (VList (map varr markers)) -> lookup "index_queue" en = Ret (varr iq) ->
    lookup "chuck_sequences" en = Ret (VList (map VStr chunks)) ->
    exec ce fuel scan_else en =
    match dna_to_number_int (py_slice s (loc + 1) (loc + k + 1)) with
    | Ok v' => ONormal (update "location" (VInt (loc + k + 1))
                 (update "chuck_sequences" (VList (map VStr (chunks ++ [py_slice s (loc - k + 1) (loc + k)])))
                 (update "index_markers" (VList (map varr (markers ++ [py_slice iq (loc - k) loc])))
                 (update "split_sequences" (VList (map VStr ((pre ++ [py_slice_to cur (Z.of_nat (length cur) - k + 1)]) ++ [[nuc_char (v' mod 4)]])))
                 (update "vertex_index" (VInt v')
                 (update "split_sequences" (VList (map VStr (pre ++ [py_slice_to cur (Z.of_nat (length cur) - k + 1)])))
                 (update "detected_count" (VInt (det + 1)) en)))))))
    | Raise e => OExn e
    | OutOfFuel => OFuel
    end.
  Proof.
    intros H1 H2 H3 H4 H5 H6 H7 H8 H9. unfold scan_else.
    rewrite map_app in H2. cbn [map] in H2.
    cbn [exec eval]. rewrite H1. cbn [lift binop_vals binop_scalar seq]. lks. cbn [rbind].
    rewrite index_last. cbn [rbind builtin1_val binop_vals binop_scalar slice_val opt_int lift assign eval].
    lks. cbn [lift]. rewrite store_last. cbn [lift seq]. lks.
    cbn [rbind binop_vals binop_scalar slice_val opt_int].
    rewrite (proj1 Hce).
    destruct (dna_to_number_int (py_slice s (loc + 1) (loc + k + 1))) as [v'|e|]; cbn [lift seq]; try reflexivity.
    cbn [assign seq]. lks. cbn [lift rbind binop_vals binop_scalar]. change (4 =? 0) with false. cbv iota. cbn [rbind].
    fold ACGT. rewrite index_nuc by lia. cbn [lift seq]. lks.
    cbn [rbind binop_vals binop_scalar]. rewrite slice_varr. cbn [lift seq]. lks.
    cbn [rbind binop_vals binop_scalar slice_val opt_int lift seq]. lks. cbn [rbind binop_vals binop_scalar lift].
    rewrite !map_app. cbn [map]. rewrite Z.add_assoc. reflexivity.
  Qed.

  Lemma scan_body_step en loc v iq cur sc c :
    scan_inv en loc v iq cur sc -> py_get s loc = Ok c -> 0 <= loc < Z.of_nat (length iq) ->
    match step_arc acc v c with
    | Ok (Some nxt) =>
        exists en', exec ce fuel scan_body en = ONormal en' /\
          scan_inv en' (loc + 1) nxt (set_nth iq (Z.to_nat loc) nxt) (cur ++ [c])
                   {| sc_splits := sc_splits sc; sc_chunks := sc_chunks sc; sc_markers := sc_markers sc;
                      sc_detected := sc_detected sc; sc_visited := sc_visited sc + 1 |}
    | Ok None =>
        match dna_to_number_int (py_slice s (loc + 1) (loc + k + 1)) with
        | Ok v' =>
            exists en', exec ce fuel scan_body en = ONormal en' /\
              scan_inv en' (loc + k + 1) v' iq [nuc_char (v' mod 4)]
                   {| sc_splits := py_slice_to cur (Z.of_nat (length cur) - k + 1) :: sc_splits sc;
                      sc_chunks := sc_chunks sc ++ [py_slice s (loc - k + 1) (loc + k)];
                      sc_markers := sc_markers sc ++ [py_slice iq (loc - k) loc];
                      sc_detected := sc_detected sc + 1; sc_visited := sc_visited sc |}
        | Raise e => exec ce fuel scan_body en = OExn e
        | OutOfFuel => exec ce fuel scan_body en = OFuel
        end
    | Raise e => exec ce fuel scan_body en = OExn e
    | OutOfFuel => exec ce fuel scan_body en = OFuel
    end.
  Proof.
    intros ((F1 & F2 & F3 & F4 & F5 & F6 & F7) & I1 & I2 & I3 & I4 & I5 & I6 & I7 & I8 & I9) Hc Hloc.
    remember (exec ce fuel scan_body en) as out eqn:EX.
    unfold scan_body in EX. cbn [exec eval] in EX. rewrite (eval_used en v F2 I2) in EX. unfold step_arc.
    destruct (py_get acc v) as [row|e|] eqn:Erow; cbn [rbind lift bind] in EX |- *.
    - rewrite F1, I1 in EX. cbn [rbind] in EX. unfold index_val at 1 in EX. rewrite Hc in EX.
      cbn [rbind lift assign items bind_tuple seq] in EX.
      set (en1 := update "nucleotide" (VStr [c]) (update "used_indices" (varr (used_indices row)) en)) in *.
      assert (E1 : forall x, x <> "nucleotide" -> x <> "used_indices" -> lookup x en1 = lookup x en).
      { intros x N1 N2. unfold en1. rewrite !lookup_update_other by assumption. reflexivity. }
      rewrite !E1 in EX by discriminate. rewrite F1, I1 in EX. cbn [rbind] in EX. unfold index_val at 1 in EX. rewrite Hc in EX.
      cbn [rbind] in EX.
      rewrite (eval_comp en1 (used_indices row)) in EX; [|rewrite E1 by discriminate; exact F7|unfold en1; lk; reflexivity
                                                   |apply used_range, (row_len v), Erow].
      cbn [rbind] in EX. rewrite cmp_in_nucs in EX by (apply used_range, (row_len v), Erow). cbn [lift truthy] in EX.
      pose proof (exec_scan_else en1 loc iq (rev (sc_splits sc)) cur (sc_detected sc) (sc_chunks sc) (sc_markers sc)
                    ltac:(via E1) ltac:(via E1) ltac:(via E1) ltac:(via E1) ltac:(via E1) ltac:(via E1) ltac:(via E1)
                    ltac:(via E1) ltac:(via E1)) as Helse.
      assert (HN : lookup "nucleotide" en1 = Ret (VStr [c])) by (unfold en1; lk; reflexivity).
      pose proof (fun j Hj => exec_scan_then en1 loc v iq (rev (sc_splits sc)) cur c row j (sc_visited sc)
                    ltac:(via E1) HN ltac:(via E1) ltac:(via E1) ltac:(via E1) ltac:(via E1) ltac:(via E1) ltac:(via E1)
                    Erow Hj Hloc) as Hthen.
      destruct (nuc_index c) as [j|] eqn:Ej; [destruct (memZ j (used_indices row)) eqn:Em|].
      + rewrite (Hthen j eq_refl) in EX.
        destruct (py_get row j) as [nxt|e|] eqn:Ex; cbn [bind].
        * eexists. split; [exact EX|]. unfold scan_inv, frame. cbn [sc_splits sc_chunks sc_markers sc_detected sc_visited].
          repeat split; lk; rewrite ?E1 by discriminate; first [assumption|reflexivity].
        * rewrite (py_get_raise _ _ _ Ex). exact EX.
        * exfalso. exact (py_get_fuel _ _ Ex).
      + cbn [bind]. rewrite Helse in EX.
        destruct (dna_to_number_int (py_slice s (loc + 1) (loc + k + 1))) as [v'|e|]; try exact EX.
        eexists. split; [exact EX|]. unfold scan_inv, frame. cbn [sc_splits sc_chunks sc_markers sc_detected sc_visited rev].
        repeat split; lk; rewrite ?E1 by discriminate; first [assumption|reflexivity].
      + cbn [bind]. rewrite Helse in EX.
        destruct (dna_to_number_int (py_slice s (loc + 1) (loc + k + 1))) as [v'|e|]; try exact EX.
        eexists. split; [exact EX|]. unfold scan_inv, frame. cbn [sc_splits sc_chunks sc_markers sc_detected sc_visited rev].
        repeat split; lk; rewrite ?E1 by discriminate; first [assumption|reflexivity].
    - rewrite (py_get_raise _ _ _ Erow). exact EX.
    - exfalso. exact (py_get_fuel _ _ Erow).
  Qed.

  Definition scan_post (en : env) (sc : scan) : Prop :=
    frame en /\
    lookup "split_sequences" en = Ret (VList (map VStr (rev (sc_splits sc)))) /\
    lookup "chuck_sequences" en = Ret (VList (map VStr (sc_chunks sc))) /\
    lookup "index_markers" en = Ret (VList (map varr (sc_markers sc))) /\
    lookup "detected_count" en = Ret (VInt (sc_detected sc)) /\
    lookup "visited_times" en = Ret (VInt (sc_visited sc)) /\
    lookup "chuck_flag" en = Ret (VBool false).

  Lemma scan_while_unfold m en loc :
    lookup "location" en = Ret (VInt loc) -> lookup "dna_sequence" en = Ret (VStr s) ->
    while_loop ce fuel scan_cond scan_body (S m) en =
    if loc <? Z.of_nat (length s) then seq (exec ce fuel scan_body en) (while_loop ce fuel scan_cond scan_body m) else ONormal en.
  Proof.
    intros H1 H2. cbn [while_loop]. unfold scan_cond at 1. cbn [eval]. rewrite H1, H2.
    cbn [rbind builtin1_val cmp_top cmp_vals cmp_scalar mixes_bool is_arr orb lift truthy].
    destruct (loc <? Z.of_nat (length s)); reflexivity.
  Qed.

  (* stage 1: the scan loop is Repair.scan_loop *)
  Lemma scan_while : forall f m loc v iq cur sc en,
    scan_inv en loc v iq cur sc -> 0 <= loc -> length iq = length s -> Z.of_nat (length s) - loc <= Z.of_nat f -> (f < m)%nat ->
    match scan_loop f s acc k loc v iq cur sc with
    | Ok sc' => exists en', while_loop ce fuel scan_cond scan_body m en = ONormal en' /\ scan_post en' sc'
    | Raise e => while_loop ce fuel scan_cond scan_body m en = OExn e
    | OutOfFuel => while_loop ce fuel scan_cond scan_body m en = OFuel
    end.
  Proof.
    induction f as [|f IH]; intros m loc v iq cur sc en HI Hloc Hiq Hf Hm; (destruct m as [|m]; [lia|]);
      pose proof HI as ((F1 & F2 & F3 & F4 & F5 & F6 & F7) & I1 & I2 & I3 & I4 & I5 & I6 & I7 & I8 & I9);
      rewrite (scan_while_unfold m en loc I1 F1).
    - rewrite scan_loop_done by lia. destruct (loc <? Z.of_nat (length s)) eqn:E; [lia|].
      exists en. split; [reflexivity|]. unfold scan_post. cbn [sc_splits sc_chunks sc_markers sc_detected sc_visited rev].
      repeat split; assumption.
    - destruct (loc <? Z.of_nat (length s)) eqn:E.
      + rewrite scan_loop_step by lia.
        assert (Hc : py_get s loc = Ok (nth (Z.to_nat loc) s 0)) by (apply py_get_okZ; lia).
        rewrite Hc. cbn [bind].
        pose proof (scan_body_step en loc v iq cur sc _ HI Hc ltac:(lia)) as BS.
        destruct (step_arc acc v (nth (Z.to_nat loc) s 0)) as [[nxt|]|e|]; cbn [bind].
        * destruct BS as (en1 & EX & HI1). rewrite EX. cbn [seq].
          apply IH; [exact HI1|lia|rewrite set_nth_length; exact Hiq|lia|lia].
        * destruct (dna_to_number_int (py_slice s (loc + 1) (loc + k + 1))) as [v'|e|]; cbn [bind].
          -- destruct BS as (en1 & EX & HI1). rewrite EX. cbn [seq].
             apply IH; [exact HI1|lia|exact Hiq|lia|lia].
          -- rewrite BS. reflexivity.
          -- rewrite BS. reflexivity.
        * rewrite BS. reflexivity.
        * rewrite BS. reflexivity.
      + rewrite scan_loop_done by lia.
        exists en. split; [reflexivity|]. unfold scan_post. cbn [sc_splits sc_chunks sc_markers sc_detected sc_visited rev].
        repeat split; assumption.
  Qed.

  Lemma scan_loop_lengths : forall f loc v iq cur sc sc',
    scan_loop f s acc k loc v iq cur sc = Ok sc' ->
    length (sc_splits sc) = length (sc_chunks sc) -> length (sc_chunks sc) = length (sc_markers sc) ->
    length (sc_splits sc') = S (length (sc_chunks sc')) /\ length (sc_chunks sc') = length (sc_markers sc').
  Proof.
    induction f as [|f IH]; intros loc v iq cur sc sc' H L1 L2.
    - cbn [scan_loop] in H. destruct (Z.of_nat (length s) <=? loc); [|discriminate].
      injection H as <-. cbn [sc_splits sc_chunks sc_markers length]. split; [f_equal; exact L1|exact L2].
    - destruct (Z.of_nat (length s) <=? loc) eqn:E.
      + rewrite scan_loop_done in H by lia. injection H as <-. cbn [sc_splits sc_chunks sc_markers length].
        split; [f_equal; exact L1|exact L2].
      + rewrite scan_loop_step in H by lia.
        destruct (py_get s loc) as [c|e|]; cbn [bind] in H; try discriminate.
        destruct (step_arc acc v c) as [[nxt|]|e|]; cbn [bind] in H; try discriminate.
        * apply IH in H; [exact H|exact L1|exact L2].
        * destruct (dna_to_number_int (py_slice s (loc + 1) (loc + k + 1))) as [v'|e|]; cbn [bind] in H; try discriminate.
          apply IH in H; [exact H| |]; cbn [sc_splits sc_chunks sc_markers length]; rewrite !app_length; cbn [length]; lia.
  Qed.

End Repair.
